import Std.Data.HashSet
import UtilModel.Core.LTS
/-!
# Core: hash-indexed variant of the trace-inclusion checker

Same subset construction as `Core/LTS.lean`, but duplicates are filtered through a `Std.HashSet`
instead of a linear scan (the list version is quadratic in the size of the state set, which
dominates when many calls are pending at once). The hash set is used *only* to decide whether a
state is skipped; soundness (`acceptsH_sound`) therefore needs no fact about hashing: every state
that is kept is a successor that was actually computed.
-/
namespace UtilModel

variable {σ ε ο : Type} [BEq σ] [Hashable σ] [DecidableEq ο]

/-- keep the states of `new` that the index has not seen; returns (index', fresh) -/
def addNewH (idx : Std.HashSet σ) (new : List σ) : Std.HashSet σ × List σ :=
  new.foldl (fun acc s => if acc.1.contains s then acc else (acc.1.insert s, s :: acc.2)) (idx, [])

omit [DecidableEq ο] in
theorem foldl_addNewH_subset (l new : List σ) (acc : Std.HashSet σ × List σ)
    (h2 : ∀ s ∈ acc.2, s ∈ new) (hl : ∀ s ∈ l, s ∈ new) :
    ∀ s ∈ (l.foldl (fun acc s => if acc.1.contains s then acc else (acc.1.insert s, s :: acc.2)) acc).2,
      s ∈ new := by
  induction l generalizing acc with
  | nil => exact h2
  | cons x xs ih =>
    simp only [List.foldl_cons]
    apply ih
    · split
      · exact h2
      · intro s hs
        simp at hs
        rcases hs with rfl | hs
        · exact hl _ (by simp)
        · exact h2 s hs
    · intro s hs; exact hl s (by simp [hs])

omit [DecidableEq ο] in
theorem addNewH_subset (idx : Std.HashSet σ) (new : List σ) : ∀ s ∈ (addNewH idx new).2, s ∈ new :=
  foldl_addNewH_subset new new (idx, []) (by intro s hs; simp at hs) (fun s hs => hs)

/-- closure under internal steps; `seen` is the list of all states found, `idx` its index -/
def OLTS.closureH (m : OLTS σ ε ο) (cap : Nat) : Nat → Std.HashSet σ → List σ → List σ → List σ × Bool
  | 0, _, seen, fr => (seen, !fr.isEmpty)
  | _, _, seen, [] => (seen, false)
  | n+1, idx, seen, frontier =>
    if seen.length > cap then (seen, true) else
    let succs := frontier.flatMap m.tauSucc
    let r := addNewH idx succs
    m.closureH cap n r.1 (r.2 ++ seen) r.2

def OLTS.accStepH (m : OLTS σ ε ο) (cap fuel : Nat) (S : List σ) (o : ο) : List σ × Bool :=
  let idx : Std.HashSet σ := S.foldl (fun acc s => acc.insert s) {}
  let C := m.closureH cap fuel idx S S
  let nxt := C.1.flatMap fun s =>
    (m.evsOf s o).filterMap fun e => if m.obs e = some o then m.step s e else none
  ((addNewH {} nxt).2, C.2)

def OLTS.accFromH (m : OLTS σ ε ο) (cap fuel : Nat) : List σ → List ο → List σ
  | S, [] => S
  | S, o :: os => m.accFromH cap fuel (m.accStepH cap fuel S o).1 os

def OLTS.accRunH (m : OLTS σ ε ο) (cap fuel : Nat) : List σ → List ο → Nat → Bool → Nat → AccRes σ
  | S, [], _, tr, mx => ⟨S, none, tr, mx⟩
  | S, o :: os, i, tr, mx =>
    let r := m.accStepH cap fuel S o
    if r.1.isEmpty then ⟨[], some i, tr || r.2, mx⟩
    else m.accRunH cap fuel r.1 os (i+1) (tr || r.2) (max mx r.1.length)

def OLTS.acceptsH (m : OLTS σ ε ο) (cap fuel : Nat) (h : List ο) : Bool :=
  !(m.accFromH cap fuel [m.init] h).isEmpty

omit [DecidableEq ο] in
theorem closureH_good (m : OLTS σ ε ο) (h : List ο) (cap n : Nat) (idx : Std.HashSet σ) (seen fr : List σ)
    (h1 : Good m h seen) (h2 : Good m h fr) : Good m h (m.closureH cap n idx seen fr).1 := by
  induction n generalizing idx seen fr with
  | zero => simpa [OLTS.closureH] using h1
  | succ n ih =>
    cases fr with
    | nil => simpa [OLTS.closureH] using h1
    | cons f fs =>
      simp only [OLTS.closureH]
      split
      · exact h1
      · have hsucc : Good m h ((f :: fs).flatMap m.tauSucc) := by
          intro s hs
          simp only [List.mem_flatMap] at hs
          obtain ⟨t, ht, hst⟩ := hs
          exact tauSucc_good m h t (h2 t ht) s hst
        have hf := addNewH_subset idx ((f :: fs).flatMap m.tauSucc)
        apply ih
        · intro s hs
          simp only [List.mem_append] at hs
          rcases hs with hs | hs
          · exact hsucc s (hf s hs)
          · exact h1 s hs
        · intro s hs; exact hsucc s (hf s hs)

theorem accStepH_good (m : OLTS σ ε ο) (cap fuel : Nat) (h : List ο) (S : List σ) (o : ο)
    (hS : Good m h S) : Good m (h ++ [o]) (m.accStepH cap fuel S o).1 := by
  intro s' hs'
  simp only [OLTS.accStepH] at hs'
  have hh := addNewH_subset ({} : Std.HashSet σ) _ s' hs'
  simp only [List.mem_flatMap, List.mem_filterMap] at hh
  obtain ⟨s, hsC, e, _, hstep⟩ := hh
  split at hstep
  · rename_i hobs
    obtain ⟨es, hr, hp⟩ := closureH_good m h cap fuel _ S S hS hS s hsC
    refine ⟨es ++ [e], ?_, ?_⟩
    · simp [OLTS.run_append, hr, OLTS.run, hstep]
    · simp [List.filterMap_append, hp, hobs]
  · simp at hstep

theorem accFromH_good (m : OLTS σ ε ο) (cap fuel : Nat) (h0 h : List ο) (S : List σ)
    (hS : Good m h0 S) : Good m (h0 ++ h) (m.accFromH cap fuel S h) := by
  induction h generalizing h0 S with
  | nil => simpa [OLTS.accFromH] using hS
  | cons o os ih =>
    simp only [OLTS.accFromH]
    have := ih (h0 ++ [o]) _ (accStepH_good m cap fuel h0 S o hS)
    simpa using this

/-- **Soundness of the hash-indexed checker**: an accepted history is the observable projection of
a real model run. -/
theorem acceptsH_sound (m : OLTS σ ε ο) (cap fuel : Nat) (h : List ο)
    (ha : m.acceptsH cap fuel h = true) :
    ∃ es s, m.run m.init es = some s ∧ es.filterMap m.obs = h := by
  have hg : Good m ([] ++ h) (m.accFromH cap fuel [m.init] h) :=
    accFromH_good m cap fuel [] h [m.init] (by
      intro s hs; simp at hs; subst hs; exact ⟨[], rfl, rfl⟩)
  simp only [OLTS.acceptsH] at ha
  cases hl : m.accFromH cap fuel [m.init] h with
  | nil => simp [hl] at ha
  | cons s rest =>
    obtain ⟨es, hr, hp⟩ := hg s (by simp [hl])
    exact ⟨es, s, hr, by simpa using hp⟩

theorem accRunH_states (m : OLTS σ ε ο) (cap fuel : Nat) (S : List σ) (h : List ο) (i : Nat)
    (tr : Bool) (mx : Nat) (hf : (m.accRunH cap fuel S h i tr mx).failedAt = none) :
    (m.accRunH cap fuel S h i tr mx).states = m.accFromH cap fuel S h := by
  induction h generalizing S i tr mx with
  | nil => simp [OLTS.accRunH, OLTS.accFromH]
  | cons o os ih =>
    simp only [OLTS.accRunH, OLTS.accFromH] at hf ⊢
    split at hf
    · simp at hf
    · rename_i hne
      simp only [hne]
      exact ih _ _ _ _ hf

/-- what the driver reports as ACCEPT implies `acceptsH` -/
theorem accRunH_accepts (m : OLTS σ ε ο) (cap fuel : Nat) (h : List ο)
    (hf : (m.accRunH cap fuel [m.init] h 0 false 1).failedAt = none)
    (hne : (m.accRunH cap fuel [m.init] h 0 false 1).states.isEmpty = false) :
    m.acceptsH cap fuel h = true := by
  have := accRunH_states m cap fuel [m.init] h 0 false 1 hf
  simp [OLTS.acceptsH, ← this, hne]

end UtilModel

namespace UtilModel
variable {σ ε ο : Type}

/-- All observable traces of the model satisfy `P` ⇒ every history accepted by the hash-indexed
checker satisfies `P` (the end-to-end transfer used for every property). -/
theorem acceptedH_satisfies [BEq σ] [Hashable σ] [DecidableEq ο] (m : OLTS σ ε ο) (P : List ο → Prop)
    (hP : ∀ es s, m.run m.init es = some s → P (es.filterMap m.obs))
    (cap fuel : Nat) (h : List ο) (ha : m.acceptsH cap fuel h = true) : P h := by
  obtain ⟨es, s, hr, hp⟩ := acceptsH_sound m cap fuel h ha
  exact hp ▸ hP es s hr

end UtilModel
