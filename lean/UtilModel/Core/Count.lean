/-!
# Core: counting over thread tables

Counters of the real code (`nreaders`, `writeWaiting`, `running`, reference counts …) are tied to
`List`-indexed thread tables through `countP`; these lemmas let `omega` finish.
-/
namespace UtilModel

variable {α : Type}

theorem lt_of_getElem? {l : List α} {t : Nat} {a : α} (h : l[t]? = some a) : t < l.length := by
  rcases Nat.lt_or_ge t l.length with h' | h'
  · exact h'
  · simp [List.getElem?_eq_none h'] at h

/-- replacing entry `t` (currently `a`) by `b` moves the count by the difference of their flags -/
theorem countP_set (p : α → Bool) (l : List α) (t : Nat) (a b : α) (h : l[t]? = some a) :
    (l.set t b).countP p + (if p a then 1 else 0) = l.countP p + (if p b then 1 else 0) := by
  induction l generalizing t with
  | nil => simp at h
  | cons x xs ih =>
    cases t with
    | zero =>
      simp at h; subst h
      simp [List.countP_cons]; omega
    | succ t =>
      simp at h
      have := ih t h
      simp [List.countP_cons]; omega

theorem countP_append_one (p : α → Bool) (l : List α) (a : α) :
    (l ++ [a]).countP p = l.countP p + (if p a then 1 else 0) := by
  simp [List.countP_append, List.countP_cons]

theorem countP_pos_of_getElem? (p : α → Bool) (l : List α) (t : Nat) (a : α)
    (h : l[t]? = some a) (hp : p a = true) : 0 < l.countP p := by
  rw [List.countP_pos_iff]
  exact ⟨a, List.mem_of_getElem? h, hp⟩

theorem getElem?_set_self' (l : List α) (t : Nat) (a b : α) (h : l[t]? = some a) :
    (l.set t b)[t]? = some b := by
  simp [List.getElem?_set, lt_of_getElem? h]

theorem getElem?_set_ne' (l : List α) (t u : Nat) (b : α) (h : t ≠ u) :
    (l.set t b)[u]? = l[u]? := by
  simp [List.getElem?_set, h]

/-- two distinct indices satisfying `p` force the count to be at least two -/
theorem countP_ge_two (p : α → Bool) (l : List α) (t u : Nat) (a b : α) (htu : t ≠ u)
    (ht : l[t]? = some a) (hu : l[u]? = some b) (pa : p a = true) (pb : p b = true) :
    2 ≤ l.countP p := by
  induction l generalizing t u with
  | nil => simp at ht
  | cons x xs ih =>
    cases t with
    | zero =>
      cases u with
      | zero => exact absurd rfl htu
      | succ u =>
        simp at ht hu; subst ht
        have := countP_pos_of_getElem? p xs u b hu pb
        rw [List.countP_cons]; simp only [pa, if_true]; omega
    | succ t =>
      cases u with
      | zero =>
        simp at ht hu; subst hu
        have := countP_pos_of_getElem? p xs t a ht pa
        rw [List.countP_cons]; simp only [pb, if_true]; omega
      | succ u =>
        simp at ht hu
        have := ih t u (by omega) ht hu
        simp [List.countP_cons]; omega

end UtilModel

namespace UtilModel
variable {α : Type}

theorem getElem?_snoc_cases (l : List α) (b x : α) (u : Nat) (h : (l ++ [b])[u]? = some x) :
    (u < l.length ∧ l[u]? = some x) ∨ (u = l.length ∧ x = b) := by
  by_cases hlt : u < l.length
  · left; rw [List.getElem?_append_left hlt] at h; exact ⟨hlt, h⟩
  · right
    rw [List.getElem?_append_right (by omega)] at h
    by_cases h0 : u - l.length = 0
    · simp [h0] at h; exact ⟨by omega, h.symm⟩
    · have : ([b] : List α)[u - l.length]? = none := by simp; omega
      simp [this] at h

theorem getElem?_snoc_left (l : List α) (b x : α) (u : Nat) (h : l[u]? = some x) :
    (l ++ [b])[u]? = some x := by
  rw [List.getElem?_append_left (lt_of_getElem? h)]; exact h

theorem getElem?_set_cases (l : List α) (t u : Nat) (b x : α) (h : (l.set t b)[u]? = some x) :
    (u = t ∧ x = b) ∨ (u ≠ t ∧ l[u]? = some x) := by
  rw [List.getElem?_set] at h
  by_cases hu : t = u
  · subst hu
    left
    by_cases hl : t < l.length
    · simp [hl] at h; exact ⟨rfl, h.symm⟩
    · simp [hl] at h
  · right; simp [hu] at h; exact ⟨fun e => hu e.symm, h⟩

end UtilModel
