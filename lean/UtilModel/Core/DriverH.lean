import UtilModel.Core.Driver
import UtilModel.Core.LTSHash
/-! `mkEntryH`: like `mkEntry`, deciding inclusion with the hash-indexed checker (`acceptsH_sound`). -/
namespace UtilModel

def mkEntryH {σ ε ο : Type} [BEq σ] [Hashable σ] [DecidableEq ο] (name : String) (m : OLTS σ ε ο)
    (parse : List String → Option ο) (mons : List (MonEntry ο))
    (cap : Nat := 200000) (fuel : Nat := 400) : Entry :=
  { name := name
    check := fun lines =>
      match parseAll parse lines 0 with
      | .error i => s!"BADLINE {i}"
      | .ok h =>
        let r := m.accRunH cap fuel [m.init] h 0 false 1
        let acc := match r.failedAt with
          | none => "ACCEPT"
          | some i => if r.truncated then s!"INCONCLUSIVE {i}" else s!"REJECT {i}"
        let ms := mons.map fun me =>
          match me.firstFail h with
          | none => s!"{me.name}=OK"
          | some i => s!"{me.name}=FAIL@{i}"
        s!"{acc} maxset={r.maxSet} len={h.length} " ++ " ".intercalate ms }

end UtilModel
