import UtilModel.Core.LTS
import UtilModel.Core.Monitor
/-!
# Core: the generic history driver (line protocol)

The Go harness writes one observable per line. For every history the driver reports
* `ACCEPT` / `REJECT i` / `INCONCLUSIVE i` — observational trace inclusion in the model
  (`INCONCLUSIVE` = the state set became empty only after an exploration bound was hit), and
* per registered monitor `OK` / `FAIL i` — the property predicate evaluated on the history.
-/
namespace UtilModel

/-- a packaged monitor: name, and a function giving the first failing index of a history -/
structure MonEntry (ο : Type) where
  name : String
  firstFail : List ο → Option Nat

def MonEntry.ofMonitor {ο μ : Type} (name : String) (mon : ObsMonitor ο μ) : MonEntry ο :=
  ⟨name, fun h => mon.firstFail mon.init h 0⟩

/-- a packaged model: decides one history given as token lists -/
structure Entry where
  name : String
  check : List (List String) → String

def tokens (l : String) : List String :=
  (l.trimAscii.toString.splitOn " ").filter (· ≠ "")

def parseAll {ο : Type} (parse : List String → Option ο) : List (List String) → Nat →
    Except Nat (List ο)
  | [], _ => .ok []
  | l :: ls, i =>
    match parse l with
    | none => .error i
    | some o => (parseAll parse ls (i+1)).map (o :: ·)

def mkEntry {σ ε ο : Type} [BEq σ] [DecidableEq ο] (name : String) (m : OLTS σ ε ο)
    (parse : List String → Option ο) (mons : List (MonEntry ο))
    (cap : Nat := 20000) (fuel : Nat := 400) : Entry :=
  { name := name
    check := fun lines =>
      match parseAll parse lines 0 with
      | .error i => s!"BADLINE {i}"
      | .ok h =>
        let r := m.accRun cap fuel [m.init] h 0 false 1
        let acc := match r.failedAt with
          | none => "ACCEPT"
          | some i => if r.truncated then s!"INCONCLUSIVE {i}" else s!"REJECT {i}"
        let ms := mons.map fun me =>
          match me.firstFail h with
          | none => s!"{me.name}=OK"
          | some i => s!"{me.name}=FAIL@{i}"
        s!"{acc} maxset={r.maxSet} len={h.length} " ++ " ".intercalate ms }

/-- protocol: lines `H <tokens…>` belong to the current history, `END <id>` closes it and makes the
driver print `RESULT <id> <verdict…>`; every other line is ignored. -/
partial def driverLoop (e : Entry) (h : IO.FS.Stream) (acc : Array (List String)) : IO Unit := do
  let line ← h.getLine
  if line.isEmpty then return ()
  match tokens line with
  | "H" :: rest => driverLoop e h (acc.push rest)
  | "END" :: id =>
    IO.println s!"RESULT {" ".intercalate id} {e.check acc.toList}"
    (← IO.getStdout).flush
    driverLoop e h #[]
  | _ => driverLoop e h acc

def driverMain (entries : List Entry) (args : List String) : IO UInt32 := do
  match args with
  | [name] =>
    match entries.find? (·.name == name) with
    | some e => driverLoop e (← IO.getStdin) #[]; return 0
    | none => IO.eprintln s!"unknown model {name}"; return 2
  | _ =>
    IO.println (" ".intercalate (entries.map (·.name)))
    return 0

end UtilModel
