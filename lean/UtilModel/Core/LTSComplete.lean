import Std.Data.HashSet.Lemmas
import UtilModel.Core.LTSHash
/-!
# Core: completeness of the hash-indexed trace-inclusion checker

`acceptsH_sound` says that an ACCEPT verdict is justified (the history is the projection of a model
run). This file proves the converse for the verdict the check reports as a broken correspondence:
if the driver's instrumented run `accRunH` stops at an observable (`failedAt = some i`) and no
closure was cut short by the exploration bounds (`truncated = false` — otherwise the driver prints
INCONCLUSIVE, which is never reported), then **no run of the model projects to the history**. So a
REJECT is a statement about the model, not an artefact of the search.

Hypotheses on the model (`Complete`): every enabled internal event of a state is in its candidate
list and every enabled event with observable `o` is in `evsOf s o` (proved per model, e.g.
`cands_complete_rw`), and the state equality used for de-duplication is the real one
(`LawfulBEq`, true for the derived `DecidableEq` instances all models use).
-/
namespace UtilModel

variable {σ ε ο : Type} [BEq σ] [Hashable σ] [LawfulBEq σ] [DecidableEq ο]

/-- the candidate lists leave out nothing that is enabled -/
structure OLTS.Complete (m : OLTS σ ε ο) : Prop where
  cands : ∀ s e s', m.step s e = some s' → m.obs e = none → e ∈ m.cands s
  evs   : ∀ s e s' o, m.step s e = some s' → m.obs e = some o → e ∈ m.evsOf s o

/-- the fold inside `addNewH` -/
def addNewHAux (l : List σ) (acc : Std.HashSet σ × List σ) : Std.HashSet σ × List σ :=
  l.foldl (fun acc s => if acc.1.contains s then acc else (acc.1.insert s, s :: acc.2)) acc

omit [LawfulBEq σ] [DecidableEq ο] in
theorem addNewH_eq (idx : Std.HashSet σ) (new : List σ) : addNewH idx new = addNewHAux new (idx, []) := rfl

omit [DecidableEq ο] in
/-- the index and the list it indexes agree after `addNewH`, and every new state is recorded -/
theorem addNewHAux_spec (l : List σ) (seen : List σ) (acc : Std.HashSet σ × List σ)
    (ha : ∀ s, acc.1.contains s = true ↔ s ∈ acc.2 ++ seen) :
    (∀ s, (addNewHAux l acc).1.contains s = true ↔ s ∈ (addNewHAux l acc).2 ++ seen) ∧
      (∀ s ∈ l, s ∈ (addNewHAux l acc).2 ++ seen) ∧ (∀ s ∈ acc.2, s ∈ (addNewHAux l acc).2) := by
  induction l generalizing acc with
  | nil => exact ⟨ha, fun s hs => (by cases hs), fun s hs => hs⟩
  | cons x xs ih =>
    simp only [addNewHAux, List.foldl_cons]
    by_cases hx : acc.1.contains x = true
    · simp only [hx, if_true]
      obtain ⟨h1, h2, h3⟩ := ih acc ha
      refine ⟨h1, ?_, h3⟩
      intro s hs
      simp only [List.mem_cons] at hs
      rcases hs with rfl | hs
      · have := (ha s).mp hx
        simp only [List.mem_append] at this ⊢
        rcases this with h | h
        · exact Or.inl (h3 s h)
        · exact Or.inr h
      · exact h2 s hs
    · simp only [hx]
      have ha' : ∀ s, (acc.1.insert x, x :: acc.2).1.contains s = true ↔
          s ∈ (acc.1.insert x, x :: acc.2).2 ++ seen := by
        intro s
        simp only [Std.HashSet.contains_insert, Bool.or_eq_true, beq_iff_eq, List.cons_append,
          List.mem_cons]
        rw [ha s]
        constructor
        · rintro (h | h)
          · exact Or.inl h.symm
          · exact Or.inr h
        · rintro (h | h)
          · exact Or.inl h.symm
          · exact Or.inr h
      obtain ⟨h1, h2, h3⟩ := ih _ ha'
      refine ⟨h1, ?_, fun s hs => h3 s (by simp [hs])⟩
      intro s hs
      simp only [List.mem_cons] at hs
      rcases hs with rfl | hs
      · exact List.mem_append_left _ (h3 s (by simp))
      · exact h2 s hs

omit [DecidableEq ο] in
theorem addNewH_spec (idx : Std.HashSet σ) (seen new : List σ)
    (ha : ∀ s, idx.contains s = true ↔ s ∈ seen) :
    (∀ s, (addNewH idx new).1.contains s = true ↔ s ∈ (addNewH idx new).2 ++ seen) ∧
      (∀ s ∈ new, s ∈ (addNewH idx new).2 ++ seen) := by
  rw [addNewH_eq]
  have h := addNewHAux_spec new seen (idx, []) (by simpa using ha)
  exact ⟨h.1, h.2.1⟩

/-- a set of states closed under the internal successors the checker computes -/
def OLTS.TauClosed (m : OLTS σ ε ο) (C : List σ) : Prop := ∀ s ∈ C, ∀ s' ∈ m.tauSucc s, s' ∈ C

omit [DecidableEq ο] in
/-- if the bounds did not cut it short, `closureH` returns a superset of `seen` closed under
internal steps -/
theorem closureH_closed (m : OLTS σ ε ο) (cap n : Nat) (idx : Std.HashSet σ) (seen fr : List σ)
    (ha : ∀ s, idx.contains s = true ↔ s ∈ seen) (hb : ∀ s ∈ fr, s ∈ seen)
    (hc : ∀ s ∈ seen, s ∉ fr → ∀ s' ∈ m.tauSucc s, s' ∈ seen)
    (hf : (m.closureH cap n idx seen fr).2 = false) :
    (∀ s ∈ seen, s ∈ (m.closureH cap n idx seen fr).1) ∧ m.TauClosed (m.closureH cap n idx seen fr).1 := by
  induction n generalizing idx seen fr with
  | zero =>
    simp only [OLTS.closureH] at hf ⊢
    have : fr = [] := by cases fr <;> simp_all
    subst this
    exact ⟨fun s hs => hs, fun s hs s' hs' => hc s hs (by simp) s' hs'⟩
  | succ n ih =>
    cases fr with
    | nil =>
      simp only [OLTS.closureH] at hf ⊢
      exact ⟨fun s hs => hs, fun s hs s' hs' => hc s hs (by simp) s' hs'⟩
    | cons f fs =>
      simp only [OLTS.closureH] at hf ⊢
      split at hf
      · simp at hf
      · rename_i hcap
        simp only [hcap, if_false]
        obtain ⟨a1, a2⟩ := addNewH_spec idx seen ((f :: fs).flatMap m.tauSucc) ha
        have := ih (addNewH idx ((f :: fs).flatMap m.tauSucc)).1
          ((addNewH idx ((f :: fs).flatMap m.tauSucc)).2 ++ seen)
          (addNewH idx ((f :: fs).flatMap m.tauSucc)).2 a1
          (fun s hs => List.mem_append_left _ hs)
          (by
            intro s hs hnf s' hs'
            have hs0 : s ∈ seen := by
              simp only [List.mem_append] at hs
              rcases hs with h | h
              · exact absurd h hnf
              · exact h
            by_cases hfr : s ∈ f :: fs
            · exact a2 s' (by simp only [List.mem_flatMap]; exact ⟨s, hfr, hs'⟩)
            · simp only [List.mem_append]; exact Or.inr (hc s hs0 hfr s' hs'))
          hf
        exact ⟨fun s hs => this.1 s (by simp [hs]), this.2⟩

omit [BEq σ] [Hashable σ] [LawfulBEq σ] [DecidableEq ο] in
/-- a run of internal events stays inside a closed set -/
theorem tauClosed_run (m : OLTS σ ε ο) (hm : m.Complete) (C : List σ) (hC : m.TauClosed C)
    (ts : List ε) (hts : ∀ e ∈ ts, m.obs e = none) (s s' : σ) (hs : s ∈ C)
    (hr : m.run s ts = some s') : s' ∈ C := by
  induction ts generalizing s with
  | nil => simp [OLTS.run] at hr; subst hr; exact hs
  | cons e es ih =>
    simp only [OLTS.run] at hr
    cases hst : m.step s e with
    | none => simp [hst] at hr
    | some s1 =>
      simp [hst] at hr
      have he := hts e (by simp)
      have : s1 ∈ m.tauSucc s := by
        simp only [OLTS.tauSucc, List.mem_filterMap]
        exact ⟨e, hm.cands s e s1 hst he, by simp [he, hst]⟩
      exact ih (fun x hx => hts x (by simp [hx])) s1 (hC s hs s1 this) hr

omit [DecidableEq ο] in
theorem foldl_insert_contains (S : List σ) (acc : Std.HashSet σ) (l : List σ)
    (ha : ∀ s, acc.contains s = true ↔ s ∈ l) :
    ∀ s, (S.foldl (fun acc s => acc.insert s) acc).contains s = true ↔ s ∈ l ∨ s ∈ S := by
  induction S generalizing acc l with
  | nil => intro s; simp [ha s]
  | cons x xs ih =>
    intro s
    simp only [List.foldl_cons]
    rw [ih (acc.insert x) (x :: l) (by
      intro s
      simp only [Std.HashSet.contains_insert, Bool.or_eq_true, beq_iff_eq, List.mem_cons, ha s]
      constructor
      · rintro (h | h)
        · exact Or.inl h.symm
        · exact Or.inr h
      · rintro (h | h)
        · exact Or.inl h.symm
        · exact Or.inr h)]
    simp only [List.mem_cons]
    constructor
    · rintro ((h | h) | h)
      · exact Or.inr (Or.inl h)
      · exact Or.inl h
      · exact Or.inr (Or.inr h)
    · rintro (h | h | h)
      · exact Or.inl (Or.inr h)
      · exact Or.inl (Or.inl h)
      · exact Or.inr h

/-- one observable step loses nothing: a state reached from a member of `S` by internal events
followed by an event showing `o` is in the next state set -/
theorem accStepH_complete (m : OLTS σ ε ο) (hm : m.Complete) (cap fuel : Nat) (S : List σ) (o : ο)
    (hf : (m.accStepH cap fuel S o).2 = false)
    (s0 s1 s2 : σ) (hs0 : s0 ∈ S) (ts : List ε) (hts : ∀ e ∈ ts, m.obs e = none)
    (hr : m.run s0 ts = some s1) (e : ε) (he : m.obs e = some o) (hst : m.step s1 e = some s2) :
    s2 ∈ (m.accStepH cap fuel S o).1 := by
  simp only [OLTS.accStepH] at hf ⊢
  have hidx : ∀ s, (S.foldl (fun acc s => acc.insert s) ({} : Std.HashSet σ)).contains s = true ↔ s ∈ S := by
    intro s
    have := foldl_insert_contains S ({} : Std.HashSet σ) [] (by intro s; simp) s
    simpa using this
  obtain ⟨c1, c2⟩ := closureH_closed m cap fuel _ S S hidx (fun s hs => hs)
    (fun s hs hn => absurd hs hn) hf
  have h1 : s1 ∈ (m.closureH cap fuel (S.foldl (fun acc s => acc.insert s) {}) S S).1 :=
    tauClosed_run m hm _ c2 ts hts s0 s1 (c1 s0 hs0) hr
  have hn := (addNewH_spec ({} : Std.HashSet σ) []
    ((m.closureH cap fuel (S.foldl (fun acc s => acc.insert s) {}) S S).1.flatMap fun s =>
      (m.evsOf s o).filterMap fun e => if m.obs e = some o then m.step s e else none)
    (by intro s; simp)).2 s2 (by
      simp only [List.mem_flatMap, List.mem_filterMap]
      exact ⟨s1, h1, e, hm.evs s1 e s2 o hst he, by simp [he, hst]⟩)
  simpa using hn

omit [BEq σ] [Hashable σ] [LawfulBEq σ] [DecidableEq ο] in
/-- split an event list at the first observable event -/
theorem split_first_obs (m : OLTS σ ε ο) (es : List ε) (o : ο) (os : List ο)
    (h : es.filterMap m.obs = o :: os) :
    ∃ ts e rest, es = ts ++ e :: rest ∧ (∀ x ∈ ts, m.obs x = none) ∧ m.obs e = some o ∧
      rest.filterMap m.obs = os := by
  induction es with
  | nil => simp at h
  | cons x xs ih =>
    cases hx : m.obs x with
    | none =>
      simp only [List.filterMap_cons, hx] at h
      obtain ⟨ts, e, rest, h1, h2, h3, h4⟩ := ih h
      refine ⟨x :: ts, e, rest, by simp [h1], ?_, h3, h4⟩
      intro y hy
      simp only [List.mem_cons] at hy
      rcases hy with rfl | hy
      · exact hx
      · exact h2 y hy
    | some o' =>
      simp only [List.filterMap_cons, hx, List.cons.injEq] at h
      exact ⟨[], x, xs, rfl, by simp, by rw [hx, h.1], h.2⟩

omit [LawfulBEq σ] in
theorem accRunH_truncated_mono (m : OLTS σ ε ο) (cap fuel : Nat) (S : List σ) (h : List ο) (i : Nat)
    (tr : Bool) (mx : Nat) (hf : (m.accRunH cap fuel S h i tr mx).truncated = false) : tr = false := by
  induction h generalizing S i tr mx with
  | nil => simpa [OLTS.accRunH] using hf
  | cons o os ih =>
    simp only [OLTS.accRunH] at hf
    split at hf
    · simp at hf; exact hf.1
    · have := ih _ _ _ _ hf
      simp at this; exact this.1

/-- **Completeness of the correspondence check.** If some run of the model from a state of `S`
projects to `h`, and no closure was cut short, the instrumented checker does not fail. -/
theorem accRunH_complete (m : OLTS σ ε ο) (hm : m.Complete) (cap fuel : Nat) (h : List ο)
    (S : List σ) (i : Nat) (tr : Bool) (mx : Nat)
    (hf : (m.accRunH cap fuel S h i tr mx).truncated = false)
    (s0 s : σ) (hs0 : s0 ∈ S) (es : List ε) (hr : m.run s0 es = some s)
    (hp : es.filterMap m.obs = h) : (m.accRunH cap fuel S h i tr mx).failedAt = none := by
  induction h generalizing S i tr mx s0 es with
  | nil => simp [OLTS.accRunH]
  | cons o os ih =>
    obtain ⟨ts, e, rest, rfl, hts, he, hrest⟩ := split_first_obs m es o os hp
    obtain ⟨s1, hr1, hr2⟩ := m.run_prefix s0 s ts (e :: rest) hr
    simp only [OLTS.run] at hr2
    cases hst : m.step s1 e with
    | none => simp [hst] at hr2
    | some s2 =>
      simp [hst] at hr2
      simp only [OLTS.accRunH] at hf ⊢
      have hflag : (m.accStepH cap fuel S o).2 = false := by
        split at hf
        · simp at hf; exact hf.2
        · have := accRunH_truncated_mono m cap fuel _ os _ _ _ hf
          simp at this; exact this.2
      have hmem := accStepH_complete m hm cap fuel S o hflag s0 s1 s2 hs0 ts hts hr1 e he hst
      have hne : (m.accStepH cap fuel S o).1.isEmpty = false := by
        cases hl : (m.accStepH cap fuel S o).1 with
        | nil => rw [hl] at hmem; cases hmem
        | cons _ _ => rfl
      simp only [hne] at hf ⊢
      exact ih _ _ _ _ hf s2 hmem rest hr2 hrest

/-- **A REJECT verdict is about the model**: if the driver's run fails at some observable and no
closure was cut short, no run of the model has the history as its observable projection. -/
theorem rejectH_sound (m : OLTS σ ε ο) (hm : m.Complete) (cap fuel : Nat) (h : List ο) (i : Nat)
    (hfail : (m.accRunH cap fuel [m.init] h 0 false 1).failedAt = some i)
    (htr : (m.accRunH cap fuel [m.init] h 0 false 1).truncated = false) :
    ¬ ∃ es s, m.run m.init es = some s ∧ es.filterMap m.obs = h := by
  rintro ⟨es, s, hr, hp⟩
  have := accRunH_complete m hm cap fuel h [m.init] 0 false 1 htr m.init s (by simp) es hr hp
  rw [this] at hfail; cases hfail

end UtilModel

/-! ## the list-indexed checker (`accepts`, `mkEntry`) -/
namespace UtilModel

variable {σ ε ο : Type} [BEq σ] [LawfulBEq σ] [DecidableEq ο]

omit [DecidableEq ο] in
theorem foldl_addOne_spec (l : List σ) (acc : List σ × List σ) :
    (∀ s ∈ acc.1, s ∈ (l.foldl addOne acc).1) ∧ (∀ s ∈ l, s ∈ (l.foldl addOne acc).1) ∧
      (∀ s ∈ (l.foldl addOne acc).1, s ∈ acc.1 ∨ s ∈ (l.foldl addOne acc).2) ∧
      (∀ s ∈ acc.2, s ∈ (l.foldl addOne acc).2) := by
  induction l generalizing acc with
  | nil => exact ⟨fun s hs => hs, fun s hs => (by cases hs), fun s hs => Or.inl hs, fun s hs => hs⟩
  | cons x xs ih =>
    simp only [List.foldl_cons]
    obtain ⟨h1, h2, h3, h4⟩ := ih (addOne acc x)
    have hx : x ∈ (addOne acc x).1 := by
      unfold addOne; split
      · rename_i hc; simpa using hc
      · simp
    have hsub : ∀ s ∈ acc.1, s ∈ (addOne acc x).1 := by
      intro s hs; unfold addOne; split
      · exact hs
      · simp [hs]
    have hsub2 : ∀ s ∈ acc.2, s ∈ (addOne acc x).2 := by
      intro s hs; unfold addOne; split
      · exact hs
      · simp [hs]
    refine ⟨fun s hs => h1 s (hsub s hs), ?_, ?_, fun s hs => h4 s (hsub2 s hs)⟩
    · intro s hs
      simp only [List.mem_cons] at hs
      rcases hs with rfl | hs
      · exact h1 s hx
      · exact h2 s hs
    · intro s hs
      rcases h3 s hs with h | h
      · by_cases hc : acc.1.contains x = true
        · have e : addOne acc x = acc := by unfold addOne; rw [if_pos hc]
          rw [e] at h; exact Or.inl h
        · have e : addOne acc x = (acc.1 ++ [x], acc.2 ++ [x]) := by unfold addOne; rw [if_neg hc]
          have h' := h; rw [e] at h'
          simp only [List.mem_append, List.mem_singleton] at h'
          rcases h' with h' | rfl
          · exact Or.inl h'
          · exact Or.inr (h4 s (by rw [e]; simp))
      · exact Or.inr h

omit [DecidableEq ο] in
theorem closure_closed (m : OLTS σ ε ο) (cap n : Nat) (seen fr : List σ)
    (hb : ∀ s ∈ fr, s ∈ seen)
    (hc : ∀ s ∈ seen, s ∉ fr → ∀ s' ∈ m.tauSucc s, s' ∈ seen)
    (hf : (m.closure cap n seen fr).2 = false) :
    (∀ s ∈ seen, s ∈ (m.closure cap n seen fr).1) ∧ m.TauClosed (m.closure cap n seen fr).1 := by
  induction n generalizing seen fr with
  | zero =>
    simp only [OLTS.closure] at hf ⊢
    have : fr = [] := by cases fr <;> simp_all
    subst this
    exact ⟨fun s hs => hs, fun s hs s' hs' => hc s hs (by simp) s' hs'⟩
  | succ n ih =>
    cases fr with
    | nil =>
      simp only [OLTS.closure] at hf ⊢
      exact ⟨fun s hs => hs, fun s hs s' hs' => hc s hs (by simp) s' hs'⟩
    | cons f fs =>
      simp only [OLTS.closure] at hf ⊢
      split at hf
      · simp at hf
      · rename_i hcap
        simp only [hcap, if_false]
        obtain ⟨a1, a2, a3, _⟩ := foldl_addOne_spec ((f :: fs).flatMap m.tauSucc) (seen, [])
        have hr2 : ∀ s ∈ (addNew seen ((f :: fs).flatMap m.tauSucc)).2,
            s ∈ (addNew seen ((f :: fs).flatMap m.tauSucc)).1 := by
          intro s hs
          exact a2 s ((addNew_subset seen _).2 s hs)
        have := ih (addNew seen ((f :: fs).flatMap m.tauSucc)).1
          (addNew seen ((f :: fs).flatMap m.tauSucc)).2 hr2
          (by
            intro s hs hnf s' hs'
            have hs0 : s ∈ seen := by
              rcases a3 s hs with h | h
              · exact h
              · exact absurd h hnf
            by_cases hfr : s ∈ f :: fs
            · exact a2 s' (by simp only [List.mem_flatMap]; exact ⟨s, hfr, hs'⟩)
            · exact a1 s' (hc s hs0 hfr s' hs'))
          hf
        exact ⟨fun s hs => this.1 s (a1 s hs), this.2⟩

theorem accStep_complete (m : OLTS σ ε ο) (hm : m.Complete) (cap fuel : Nat) (S : List σ) (o : ο)
    (hf : (m.accStep cap fuel S o).2 = false)
    (s0 s1 s2 : σ) (hs0 : s0 ∈ S) (ts : List ε) (hts : ∀ e ∈ ts, m.obs e = none)
    (hr : m.run s0 ts = some s1) (e : ε) (he : m.obs e = some o) (hst : m.step s1 e = some s2) :
    s2 ∈ (m.accStep cap fuel S o).1 := by
  simp only [OLTS.accStep] at hf ⊢
  obtain ⟨c1, c2⟩ := closure_closed m cap fuel S S (fun s hs => hs) (fun s hs hn => absurd hs hn) hf
  have h1 : s1 ∈ (m.closure cap fuel S S).1 := tauClosed_run m hm _ c2 ts hts s0 s1 (c1 s0 hs0) hr
  exact (foldl_addOne_spec _ (([] : List σ), [])).2.1 s2 (by
    simp only [List.mem_flatMap, List.mem_filterMap]
    exact ⟨s1, h1, e, hm.evs s1 e s2 o hst he, by simp [he, hst]⟩)

omit [LawfulBEq σ] in
theorem accRun_truncated_mono (m : OLTS σ ε ο) (cap fuel : Nat) (S : List σ) (h : List ο) (i : Nat)
    (tr : Bool) (mx : Nat) (hf : (m.accRun cap fuel S h i tr mx).truncated = false) : tr = false := by
  induction h generalizing S i tr mx with
  | nil => simpa [OLTS.accRun] using hf
  | cons o os ih =>
    simp only [OLTS.accRun] at hf
    split at hf
    · simp at hf; exact hf.1
    · have := ih _ _ _ _ hf
      simp at this; exact this.1

theorem accRun_complete (m : OLTS σ ε ο) (hm : m.Complete) (cap fuel : Nat) (h : List ο)
    (S : List σ) (i : Nat) (tr : Bool) (mx : Nat)
    (hf : (m.accRun cap fuel S h i tr mx).truncated = false)
    (s0 s : σ) (hs0 : s0 ∈ S) (es : List ε) (hr : m.run s0 es = some s)
    (hp : es.filterMap m.obs = h) : (m.accRun cap fuel S h i tr mx).failedAt = none := by
  induction h generalizing S i tr mx s0 es with
  | nil => simp [OLTS.accRun]
  | cons o os ih =>
    obtain ⟨ts, e, rest, rfl, hts, he, hrest⟩ := split_first_obs m es o os hp
    obtain ⟨s1, hr1, hr2⟩ := m.run_prefix s0 s ts (e :: rest) hr
    simp only [OLTS.run] at hr2
    cases hst : m.step s1 e with
    | none => simp [hst] at hr2
    | some s2 =>
      simp [hst] at hr2
      simp only [OLTS.accRun] at hf ⊢
      have hflag : (m.accStep cap fuel S o).2 = false := by
        split at hf
        · simp at hf; exact hf.2
        · have := accRun_truncated_mono m cap fuel _ os _ _ _ hf
          simp at this; exact this.2
      have hmem := accStep_complete m hm cap fuel S o hflag s0 s1 s2 hs0 ts hts hr1 e he hst
      have hne : (m.accStep cap fuel S o).1.isEmpty = false := by
        cases hl : (m.accStep cap fuel S o).1 with
        | nil => rw [hl] at hmem; cases hmem
        | cons _ _ => rfl
      simp only [hne] at hf ⊢
      exact ih _ _ _ _ hf s2 hmem rest hr2 hrest

/-- the same for the list-indexed checker -/
theorem reject_sound (m : OLTS σ ε ο) (hm : m.Complete) (cap fuel : Nat) (h : List ο) (i : Nat)
    (hfail : (m.accRun cap fuel [m.init] h 0 false 1).failedAt = some i)
    (htr : (m.accRun cap fuel [m.init] h 0 false 1).truncated = false) :
    ¬ ∃ es s, m.run m.init es = some s ∧ es.filterMap m.obs = h := by
  rintro ⟨es, s, hr, hp⟩
  have := accRun_complete m hm cap fuel h [m.init] 0 false 1 htr m.init s (by simp) es hr hp
  rw [this] at hfail; cases hfail

end UtilModel

/-! ## reduced candidate lists

Some models try only a *reduced* list of internal events (a partial-order reduction that keeps the
state sets small). Such a model is not `Complete`, but the driver's run on it is literally the run on
the model *restricted* to its candidates (`accRunH_restrict`), which is `Complete`
(`restrict_complete`); a package then shows that every run of the full model has a run of the
restricted model with the same observable projection and obtains `reject_sound_*` for the full model. -/
namespace UtilModel

section Restrict
variable {σ ε ο : Type} [DecidableEq ε]

/-- the model restricted to the internal events its candidate list tries (observable events
unchanged) -/
def OLTS.restrict (m : OLTS σ ε ο) : OLTS σ ε ο :=
  { m with step := fun s e => if (m.obs e).isNone = true ∧ e ∉ m.cands s then none else m.step s e }

omit [DecidableEq ε] in
theorem filterMap_congr_mem {α β : Type} (f g : α → Option β) (l : List α) (h : ∀ x ∈ l, f x = g x) :
    l.filterMap f = l.filterMap g := by
  induction l with
  | nil => rfl
  | cons x xs ih =>
    simp only [List.filterMap_cons, h x (by simp)]
    rw [ih (fun y hy => h y (by simp [hy]))]

theorem OLTS.restrict_tauSucc (m : OLTS σ ε ο) (s : σ) : m.restrict.tauSucc s = m.tauSucc s := by
  simp only [OLTS.tauSucc, OLTS.restrict]
  apply filterMap_congr_mem
  intro e he
  simp [he]

theorem OLTS.restrict_obsStep (m : OLTS σ ε ο) [DecidableEq ο] (s : σ) (o : ο) (e : ε) :
    (if m.restrict.obs e = some o then m.restrict.step s e else none) =
      (if m.obs e = some o then m.step s e else none) := by
  simp only [OLTS.restrict]
  by_cases h : m.obs e = some o <;> simp [h]

/-- every candidate-respecting step of `m` is a step of `m.restrict`; conversely a step of
`m.restrict` is a step of `m` -/
theorem OLTS.restrict_step_of (m : OLTS σ ε ο) (s s' : σ) (e : ε) (hs : m.step s e = some s')
    (hc : m.obs e = none → e ∈ m.cands s) : m.restrict.step s e = some s' := by
  simp only [OLTS.restrict]
  rw [if_neg]
  · exact hs
  · rintro ⟨h1, h2⟩
    exact h2 (hc (Option.isNone_iff_eq_none.mp h1))

/-- the restricted model is complete as soon as `evsOf` is -/
theorem OLTS.restrict_complete (m : OLTS σ ε ο)
    (hev : ∀ s e s' o, m.step s e = some s' → m.obs e = some o → e ∈ m.evsOf s o) :
    m.restrict.Complete := by
  constructor
  · intro s e s' hs ho
    simp only [OLTS.restrict] at hs ho
    split at hs
    · cases hs
    · rename_i hn
      apply Classical.byContradiction
      intro hne
      exact hn ⟨by simp [ho], hne⟩
  · intro s e s' o hs ho
    simp only [OLTS.restrict] at hs ho
    split at hs
    · cases hs
    · exact hev s e s' o hs ho

variable [BEq σ] [Hashable σ] [DecidableEq ο]

omit [DecidableEq ο] in
theorem OLTS.closureH_restrict (m : OLTS σ ε ο) (cap n : Nat) (idx : Std.HashSet σ) (seen fr : List σ) :
    m.restrict.closureH cap n idx seen fr = m.closureH cap n idx seen fr := by
  induction n generalizing idx seen fr with
  | zero => simp [OLTS.closureH]
  | succ n ih =>
    cases fr with
    | nil => simp [OLTS.closureH]
    | cons f fs =>
      simp only [OLTS.closureH]
      have : (f :: fs).flatMap m.restrict.tauSucc = (f :: fs).flatMap m.tauSucc := by
        congr 1; funext s; exact m.restrict_tauSucc s
      rw [this]
      split
      · rfl
      · exact ih _ _ _

theorem OLTS.accStepH_restrict (m : OLTS σ ε ο) (cap fuel : Nat) (S : List σ) (o : ο) :
    m.restrict.accStepH cap fuel S o = m.accStepH cap fuel S o := by
  simp only [OLTS.accStepH, OLTS.closureH_restrict, OLTS.restrict_obsStep]
  rfl

/-- the driver's run is literally the run of the checker of the restricted model -/
theorem OLTS.accRunH_restrict (m : OLTS σ ε ο) (cap fuel : Nat) (S : List σ) (h : List ο) (i : Nat)
    (tr : Bool) (mx : Nat) :
    m.restrict.accRunH cap fuel S h i tr mx = m.accRunH cap fuel S h i tr mx := by
  induction h generalizing S i tr mx with
  | nil => simp [OLTS.accRunH]
  | cons o os ih => simp only [OLTS.accRunH, OLTS.accStepH_restrict, ih]

end Restrict

end UtilModel
