/-!
# Core: `broadcast.Broadcast` as channel generations

Model of `broadcastLocked` / `getWaitChLocked` (broadcast/broadcast.go:97-110). Channels are
numbered in allocation order; a channel is closed iff it was allocated and is no longer current.
-/
namespace UtilModel

structure Bcast where
  cur  : Option Nat := none
  next : Nat := 0
deriving DecidableEq, Repr, Hashable

namespace Bcast

/-- `getWaitChLocked`: the current channel, allocated on demand -/
def getWaitCh (b : Bcast) : Bcast × Nat :=
  match b.cur with
  | some c => (b, c)
  | none   => ({ cur := some b.next, next := b.next + 1 }, b.next)

/-- `broadcastLocked`: close and forget the current channel -/
def broadcast (b : Bcast) : Bcast := { b with cur := none }

def closed (b : Bcast) (c : Nat) : Bool := c < b.next && b.cur != some c

/-- well-formedness: the current channel has been allocated -/
def WF (b : Bcast) : Prop := ∀ c, b.cur = some c → c < b.next

theorem wf_init : WF {} := by intro c h; simp at h

theorem getWaitCh_spec (b : Bcast) (hwf : b.WF) :
    let r := b.getWaitCh
    r.1.cur = some r.2 ∧ r.2 < r.1.next ∧ b.next ≤ r.1.next ∧
    (∀ c, c ≠ r.2 → r.1.closed c = b.closed c) ∧ r.1.closed r.2 = false ∧
    (∀ c, b.closed c = true → c ≠ r.2) ∧ r.1.WF := by
  unfold getWaitCh closed WF at *
  cases h : b.cur with
  | some c => have := hwf c h; simp; grind
  | none => simp; grind

theorem broadcast_spec (b : Bcast) :
    b.broadcast.cur = none ∧ b.broadcast.next = b.next ∧ b.broadcast.WF ∧
    (∀ c, c < b.next → b.broadcast.closed c = true) ∧
    (∀ c, b.closed c = true → b.broadcast.closed c = true) := by
  unfold broadcast closed WF
  simp
  intro c h _; exact h

theorem closed_lt (b : Bcast) (c : Nat) (h : b.closed c = true) : c < b.next := by
  unfold closed at h; simp at h; exact h.1

/-- a closed channel stays closed under `getWaitCh` -/
theorem closed_mono_get (b : Bcast) (hwf : b.WF) (c : Nat) (h : b.closed c = true) :
    b.getWaitCh.1.closed c = true := by
  obtain ⟨_, _, _, g4, _, g6, _⟩ := getWaitCh_spec b hwf
  rw [g4 c (g6 c h)]; exact h

end Bcast
end UtilModel
