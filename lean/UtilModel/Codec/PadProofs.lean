import UtilModel.Codec.Padding
/-!
# codec: proofs about the padding model
-/
namespace UtilModel.Codec

theorem padCount_lt (n : Nat) : padCount n < 32 := by
  unfold padCount; split <;> omega

theorem padCount_mod (n : Nat) : (n + 1 + padCount n) % 32 = 0 := by
  unfold padCount; split <;> omega

theorem paddingLenOf_eq (n : Nat) : paddingLenOf n = UInt8.ofNat (padCount n) := by
  unfold paddingLenOf padCount alignPaddingTo
  by_cases h : (n + 1) % 32 = 0 <;> simp [h]

theorem paddingLenOf_toNat (n : Nat) : (paddingLenOf n).toNat = padCount n := by
  rw [paddingLenOf_eq, UInt8.toNat_ofNat']
  have := padCount_lt n
  omega

theorem setIdx?_eq_some {α : Type} (d : List α) (i : Nat) (v : α) (h : i < d.length) :
    setIdx? d (i : Int) v = some (d.set i v) := by
  unfold setIdx?
  have : ¬ ((i : Int) < 0 ∨ (i : Int) ≥ (d.length : Int)) := by omega
  rw [if_neg this]; simp

/-- the zeroing loop over a middle segment `b` of `a ++ b ++ c` -/
theorem zeroLoop_mid (a b c : Bytes) :
    zeroLoop (a ++ b ++ c) a.length b.length = some (a ++ List.replicate b.length 0 ++ c) := by
  induction b generalizing a with
  | nil => simp [zeroLoop]
  | cons y b ih =>
    simp only [List.length_cons, zeroLoop]
    rw [setIdx?_eq_some _ _ _ (by simp)]
    simp only [Option.bind_some]
    have h1 : (a ++ y :: b ++ c).set a.length 0 = (a ++ [0]) ++ b ++ c := by
      simp
    rw [h1]
    have := ih (a ++ [0])
    simp only [List.length_append, List.length_cons, List.length_nil] at this
    rw [this, List.replicate_succ]
    simp

theorem set_last_zero (x : Bytes) (p : Nat) (v : UInt8) :
    (x ++ List.replicate (p+1) 0).set (x.length + p) v = x ++ List.replicate p 0 ++ [v] := by
  rw [List.replicate_succ', ← List.append_assoc]
  have : x.length + p = (x ++ List.replicate p 0).length := by simp
  rw [this, List.set_append_right _ _ (by omega)]
  simp

theorem setLast_padded (x : Bytes) (p : Nat) (v : UInt8) :
    setIdx? (x ++ List.replicate (p+1) 0) (((x ++ List.replicate (p+1) (0:UInt8)).length : Int) - 1) v
      = some (x ++ List.replicate p 0 ++ [v]) := by
  have h : (((x ++ List.replicate (p+1) (0:UInt8)).length : Int) - 1) = ((x.length + p : Nat) : Int) := by
    simp; omega
  rw [h, setIdx?_eq_some _ _ _ (by simp), set_last_zero]

/-- **both branches of `PadInPlace` compute the closed form**, whatever the capacity and whatever
garbage the spare capacity holds; in particular no index is ever out of range. -/
theorem pad_eq_spec (x spare : Bytes) : pad x spare = .ok (padSpec x) := by
  have hp := paddingLenOf_toNat x.length
  have hlt := padCount_lt x.length
  unfold pad padSpec
  simp only [hp]
  split
  · rename_i hcap
    -- spare capacity suffices: re-slice, zero, write the trailer
    have hs : sliceTo? x spare ((x.length + 1 + padCount x.length : Nat) : Int)
        = some (x ++ spare.take (padCount x.length + 1)) := by
      unfold sliceTo?
      have : ¬ (((x.length + 1 + padCount x.length : Nat) : Int) < 0 ∨
          ((x.length + 1 + padCount x.length : Nat) : Int) > ((x.length + spare.length : Nat) : Int)) := by omega
      rw [if_neg this]
      simp only [Int.toNat_natCast, List.take_append]
      have e1 : List.take (x.length + 1 + padCount x.length) x = x := List.take_of_length_le (by omega)
      have e2 : x.length + 1 + padCount x.length - x.length = padCount x.length + 1 := by omega
      rw [e1, e2]
    simp only [hs]
    have hl : (spare.take (padCount x.length + 1)).length = padCount x.length + 1 := by
      simp [List.length_take]; omega
    have hz := zeroLoop_mid x (spare.take (padCount x.length + 1)) []
    simp only [List.append_nil, hl] at hz
    have hn : x.length + 1 + padCount x.length - x.length = padCount x.length + 1 := by omega
    rw [hn, hz]
    simp only
    rw [setLast_padded, paddingLenOf_eq]
  · rename_i hcap
    have hc : goCopy (List.replicate (x.length + 1 + padCount x.length) (0:UInt8)) x
        = x ++ List.replicate (padCount x.length + 1) 0 := by
      unfold goCopy
      simp only [List.length_replicate, List.drop_replicate]
      congr 1
      · exact List.take_of_length_le (by omega)
      · congr 1; omega
    simp only [hc]
    rw [setLast_padded, paddingLenOf_eq]

theorem idx?_last {α : Type} (d : List α) (h : d.length ≠ 0) :
    idx? d ((d.length : Int) - 1) = some (d[d.length - 1]'(by omega)) := by
  unfold idx?
  have h1 : ¬ ((d.length : Int) - 1 < 0) := by omega
  have h2 : ((d.length : Int) - 1).toNat = d.length - 1 := by omega
  rw [if_neg h1, h2]
  exact List.getElem?_eq_getElem (by omega)

theorem sliceTo?_within {α : Type} (d spare : List α) (k : Nat) (h : k ≤ d.length) :
    sliceTo? d spare (k : Int) = some (d.take k) := by
  unfold sliceTo?
  have : ¬ ((k : Int) < 0 ∨ (k : Int) > ((d.length + spare.length : Nat) : Int)) := by omega
  rw [if_neg this, Int.toNat_natCast, List.take_append_of_le_length h]

/-- what `UnpadInPlace` does, in one formula: it never panics; it succeeds exactly when the input is
non-empty and its last byte `p` satisfies `p < 32` and `p ≤ len - 1`, and then returns the first
`len - p - 1` bytes of the input — never a byte of the spare capacity. -/
theorem unpad_eq (d spare : Bytes) :
    unpad d spare =
      if h : d.length = 0 then .err
      else if (d[d.length - 1]'(by omega)).toNat > d.length - 1 ∨ (d[d.length - 1]'(by omega)).toNat ≥ 32
        then .err
        else .ok (d.take (d.length - (d[d.length - 1]'(by omega)).toNat - 1)) := by
  unfold unpad
  by_cases h : d.length = 0
  · simp [h]
  · rw [if_neg h, dif_neg h, idx?_last d h]
    have ha : (alignPaddingTo : Int) = 32 := rfl
    show (if _ then _ else _) = _
    by_cases hc : (d[d.length - 1]'(by omega)).toNat > d.length - 1 ∨ (d[d.length - 1]'(by omega)).toNat ≥ 32
    · rw [if_pos hc, if_pos (by omega)]
    · rw [if_neg hc, if_neg (by omega)]
      have hk : ((d.length : Int) - ((d[d.length - 1]'(by omega)).toNat : Int) - 1)
          = ((d.length - (d[d.length - 1]'(by omega)).toNat - 1 : Nat) : Int) := by omega
      rw [hk, sliceTo?_within d spare _ (by omega)]

theorem padSpec_length (x : Bytes) : (padSpec x).length = x.length + padCount x.length + 1 := by
  simp [padSpec]; omega

theorem padSpec_last (x : Bytes) (h : (padSpec x).length - 1 < (padSpec x).length) :
    (padSpec x)[(padSpec x).length - 1] = UInt8.ofNat (padCount x.length) := by
  have hl := padSpec_length x
  simp only [padSpec] at *
  rw [List.getElem_append_right (by simp)]
  simp

theorem unpad_padSpec (x spare : Bytes) : unpad (padSpec x) spare = .ok x := by
  have hl := padSpec_length x
  have hlt := padCount_lt x.length
  rw [unpad_eq, dif_neg (by omega)]
  have hb : ((padSpec x)[(padSpec x).length - 1]'(by omega)).toNat = padCount x.length := by
    rw [padSpec_last, UInt8.toNat_ofNat']; omega
  rw [hb, if_neg (by omega)]
  have : (padSpec x).length - padCount x.length - 1 = x.length := by omega
  rw [this]
  simp [padSpec]
