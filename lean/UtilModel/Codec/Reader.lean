import UtilModel.Codec.Types
/-!
# codec: `prng.randReader` — an 8-byte buffer and an offset over a stream of 64-bit words

`/repo/prng/reader.go`. The `rand.Source` is abstract: a `Stream` of `UInt64` values, the `i`-th call
of `Uint64()` returns `σ i`. How the stream is obtained from the seed data (SHA-256 of a domain string
and the data, then `rand.NewChaCha8`) is a *trusted external*; the only thing assumed about it is that
it is a function of the seed data (`seed_determinism` in Props), and the harness checks exactly that
on the real code on every run.
-/
namespace UtilModel.Codec

/-- the values successive `src.Uint64()` calls return -/
abbrev Stream := Nat → UInt64

/-- `byte(val >> (i * 8))` -/
def leByte (w : UInt64) (i : Nat) : UInt8 := (w >>> (UInt64.ofNat (i * 8))).toUInt8

/-- `for i := 0; i < 8; i++ { r.buf[i] = byte(val >> (i * 8)) }` — the whole buffer afterwards -/
def leBytes (w : UInt64) : Bytes := (List.range 8).map (leByte w)

/-- `randReader`: `buf [8]byte`, `off int` (always `< 8`: it is only ever assigned `… % 8`), and the
number of words drawn from the source so far -/
structure Reader where
  buf : Bytes := List.replicate 8 0
  off : Fin 8 := 0
  pos : Nat := 0
deriving DecidableEq, Repr

/-- `SourceToReader(src)` -/
def Reader.init : Reader := {}

/-- `Read(p)` with `len(p) = need`: the loop `for n < len(p)`; returns the reader afterwards and the
bytes written to `p[0:need]` in order. (`Read` always returns `n = len(p), err = nil`.) -/
def readLoop (σ : Stream) (r : Reader) (need : Nat) : Reader × Bytes :=
  if h : need = 0 then (r, []) else
    -- if r.off == 0 { val := r.src.Uint64(); fill buf }
    let r1 : Reader := if r.off.val = 0 then { r with buf := leBytes (σ r.pos), pos := r.pos + 1 } else r
    -- remaining := len(p) - n; if remaining > 8-r.off { remaining = 8 - r.off }
    let k := min need (8 - r1.off.val)
    -- copy(p[n:], r.buf[r.off:r.off+remaining])
    let chunk := (r1.buf.drop r1.off.val).take k
    -- r.off = (r.off + remaining) % 8
    let r2 : Reader := { r1 with off := ⟨(r1.off.val + k) % 8, Nat.mod_lt _ (by decide)⟩ }
    let res := readLoop σ r2 (need - k)
    (res.1, chunk ++ res.2)
termination_by need
decreasing_by
  have : r1.off.val < 8 := r1.off.isLt
  omega

/-- a sequence of `Read` calls with the given buffer sizes; the chunks returned, in order -/
def readChunks (σ : Stream) (r : Reader) : List Nat → Reader × List Bytes
  | [] => (r, [])
  | n :: ns =>
    let a := readLoop σ r n
    let b := readChunks σ a.1 ns
    (b.1, a.2 :: b.2)

/-- byte `j` of the little-endian expansion of the stream -/
def streamByte (σ : Stream) (j : Nat) : UInt8 := leByte (σ (j / 8)) (j % 8)

/-- bytes `p … p+n-1` of the little-endian expansion of the stream -/
def streamBytes (σ : Stream) (p n : Nat) : Bytes := (List.range n).map fun j => streamByte σ (p + j)

/-- little-endian expansion of a finite list of words -/
def expandWords (ws : List UInt64) : Bytes := ws.flatMap leBytes

/-- a finite list of words as a stream (0 beyond its end; the model step only uses it when the
reader provably never looks beyond the end, see `Model.lean`) -/
def streamOf (ws : List UInt64) : Stream := fun i => ws.getD i 0

end UtilModel.Codec
