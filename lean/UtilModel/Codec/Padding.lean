import UtilModel.Codec.Types
/-!
# codec: `padding.PadInPlace` / `padding.UnpadInPlace`, statement by statement

`/repo/padding/padding.go`. A Go slice is modelled as its visible bytes `data` plus the bytes of
its backing array beyond `len` (`spare`, arbitrary garbage; `cap = len data + len spare`). Both
branches of `PadInPlace` are modelled; `pad_cap_irrelevant` (Props) shows that neither the capacity
nor the garbage influences the result.
-/
namespace UtilModel.Codec

def alignPaddingTo : Nat := 32

/-- `for i := from; i < from+n; i++ { data[i] = 0 }` -/
def zeroLoop (d : Bytes) : Nat → Nat → Option Bytes
  | _, 0 => some d
  | i, n+1 => (setIdx? d (i : Int) 0).bind fun d' => zeroLoop d' (i+1) n

/-- the value of `paddingLen` (a Go `byte`) for an input of length `n` -/
def paddingLenOf (n : Nat) : UInt8 :=
  let dataLen := n + 1                                -- for extra padding length byte
  let dlm := dataLen % alignPaddingTo
  if dlm ≠ 0 then UInt8.ofNat (alignPaddingTo - dlm)  -- byte(alignPaddingTo - dlm)
  else 0                                              -- var paddingLen byte

/-- `PadInPlace(data)` where `cap(data) = len(data) + len(spare)`.
`panic` if any index or slice bound were out of range. -/
def pad (data spare : Bytes) : Res Bytes :=
  let paddingLen := paddingLenOf data.length
  let dataLen := data.length + 1
  let nlen := dataLen + paddingLen.toNat              -- nlen := dataLen + int(paddingLen)
  if data.length + spare.length ≥ nlen then           -- if cap(data) >= nlen
    let oldLen := data.length
    match sliceTo? data spare (nlen : Int) with       -- data = data[:nlen]
    | none => .panic
    | some d1 =>
      match zeroLoop d1 oldLen (nlen - oldLen) with   -- for i := oldLen; i < nlen; i++ { data[i] = 0 }
      | none => .panic
      | some d2 =>
        match setIdx? d2 ((d2.length : Int) - 1) paddingLen with   -- data[len(data)-1] = paddingLen
        | none => .panic
        | some d3 => .ok d3
  else
    let d1 : Bytes := List.replicate nlen 0           -- make([]byte, nlen)
    let d2 := goCopy d1 data                          -- copy(data, og)
    match setIdx? d2 ((d2.length : Int) - 1) paddingLen with
    | none => .panic
    | some d3 => .ok d3

/-- `UnpadInPlace(data)` where `cap(data) = len(data) + len(spare)`.
`err` = a non-nil `error` is returned; `panic` = an index or slice bound out of range. -/
def unpad (data spare : Bytes) : Res Bytes :=
  if data.length = 0 then .err else                   -- if len(data) == 0 { return nil, errors.New(…) }
  match idx? data ((data.length : Int) - 1) with      -- paddingLen := int(data[len(data)-1])
  | none => .panic
  | some b =>
    let paddingLen : Int := b.toNat
    if paddingLen > (data.length : Int) - 1 ∨ paddingLen ≥ (alignPaddingTo : Int) ∨ paddingLen < 0 then
      .err
    else
      match sliceTo? data spare ((data.length : Int) - paddingLen - 1) with  -- data[:len(data)-paddingLen-1]
      | none => .panic
      | some r => .ok r

/-- number of zero bytes `PadInPlace` inserts for an input of length `n` -/
def padCount (n : Nat) : Nat := if (n + 1) % 32 ≠ 0 then 32 - (n + 1) % 32 else 0

/-- closed form of the result of `PadInPlace`: the input, zeros, the trailer byte -/
def padSpec (x : Bytes) : Bytes :=
  x ++ List.replicate (padCount x.length) 0 ++ [UInt8.ofNat (padCount x.length)]

end UtilModel.Codec
