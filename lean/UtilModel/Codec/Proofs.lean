import UtilModel.Codec.PadProofs
import UtilModel.Codec.PrefixProofs
import UtilModel.Codec.ReaderProofs
import UtilModel.Codec.Monitors
/-!
# codec: every trace of the model is accepted by monC19 (simulation)
-/
namespace UtilModel.Codec
open UtilModel

theorem unpad_cases (d spare : Bytes) :
    unpad d spare = .err ∨ ∃ y, unpad d spare = .ok y ∧ y <+: d := by
  rw [unpad_eq]
  split
  · exact Or.inl rfl
  · split
    · exact Or.inl rfl
    · exact Or.inr ⟨_, rfl, List.take_prefix _ _⟩

theorem prefix_common' (strs : List Bytes) : Common strs («prefix» strs) := by
  cases strs with
  | nil => intro s hs; simp at hs
  | cons s0 tl => exact (prefix_spec (s0 :: tl) (by simp)).1

theorem isLCP_prefix (strs : List Bytes) : isLCP strs («prefix» strs) = true := by
  cases strs with
  | nil => simp [isLCP, «prefix»]
  | cons s0 tl =>
    obtain ⟨hc, hl⟩ := prefix_spec (s0 :: tl) (by simp)
    simp only [isLCP, Bool.and_eq_true]
    refine ⟨(all_isPrefixOf_iff _ _).mpr hc, ?_⟩
    split
    · rfl
    · rename_i b _
      cases hall : ((s0 :: tl).all fun s => («prefix» (s0 :: tl) ++ [b]).isPrefixOf s) with
      | false => rfl
      | true =>
        exfalso
        have := (hl _ ((all_isPrefixOf_iff _ _).mp hall)).length_le
        simp at this; omega

theorem trim_map (strs : List Bytes) :
    strs = (trimPrefix strs).map («prefix» strs ++ ·) := by
  unfold trimPrefix
  by_cases hp : «prefix» strs = []
  · simp [hp]
  · simp only [hp, if_false, List.map_map]
    have hc := prefix_common' strs
    conv => lhs; rw [← List.map_id strs]
    apply List.map_congr_left
    intro s hs
    simp [trimOne_spec _ _ (hc s hs)]

theorem take_sub_len (p o : Bytes) : (p ++ o).take ((p ++ o).length - o.length) = p := by
  simp

theorem zip_map_all (p : Bytes) (outs : List Bytes) :
    ((outs.map (p ++ ·)).zip outs).all (fun so => so.1 == p ++ so.2) = true := by
  induction outs with
  | nil => rfl
  | cons o os ih => simp [ih]

theorem comparable_iff {α : Type} [BEq α] [LawfulBEq α] (a b : List α) :
    comparable a b = true ↔ (a <+: b ∨ b <+: a) := by
  simp [comparable, List.isPrefixOf_iff_prefix]

/-- the monitor's seed table mirrors the model's: same seeds in the same order, and the bytes the
monitor saw are a prefix of the expansion of the words the model recorded -/
inductive SeedRel : List (List Bytes × Bytes) → St → Prop where
  | nil : SeedRel [] []
  | cons {me se msd s} : me.1 = se.1 ∧ me.2 <+: expandWords se.2 → SeedRel msd s →
      SeedRel (me :: msd) (se :: s)

/-- relation between model state and monitor state -/
structure Rel (s : St) (ms : C19St) : Prop where
  pads : ∀ e ∈ ms.pads, e.1 = padSpec e.2
  seeds : SeedRel ms.seeds s

theorem seeds_all (seed : List Bytes) (words : List UInt64) (bytes : Bytes)
    (hb : bytes <+: expandWords words)
    (msd : List (List Bytes × Bytes)) (s : St)
    (hr : SeedRel msd s)
    (hs : s.all (fun e => e.1 != seed || comparable e.2 words) = true) :
    msd.all (fun e => e.1 != seed || comparable e.2 bytes) = true := by
  induction hr with
  | nil => rfl
  | @cons me se msd' s' hhd _ ih =>
    simp only [List.all_cons, Bool.and_eq_true] at hs ⊢
    refine ⟨?_, ih hs.2⟩
    obtain ⟨h1, h2⟩ := hhd
    by_cases hseed : me.1 = seed
    · have hcw : comparable se.2 words = true := by
        have := hs.1
        simpa [← h1, hseed] using this
      rw [comparable_iff] at hcw
      have : comparable me.2 bytes = true := by
        rw [comparable_iff]
        rcases hcw with h | h
        · exact List.prefix_or_prefix_of_prefix (h2.trans (expandWords_prefix _ _ h)) hb
        · exact List.prefix_or_prefix_of_prefix h2 (hb.trans (expandWords_prefix _ _ h))
      simp [this]
    · simp [hseed]

/-- what the model's answer to a `read` line looks like -/
theorem modelRead_spec (sizes : List Nat) (words : List UInt64) (chunks : List Bytes)
    (h : modelRead sizes words = some chunks) :
    chunks.map List.length = sizes ∧ sizes.sum ≤ 8 * words.length ∧
      chunks.flatten = (expandWords words).take sizes.sum := by
  unfold modelRead at h
  obtain ⟨h1, h2, h3⟩ := readChunks_readerAt (streamOf words) sizes 0
  rw [readerAt_zero] at h1 h2 h3
  simp only at h
  split at h
  · rename_i hpos
    simp only [Option.some.injEq] at h
    subst h
    rw [h1] at hpos
    simp only [readerAt, Nat.zero_add] at hpos
    have hle : sizes.sum ≤ 8 * words.length := by omega
    exact ⟨h3, hle, by rw [h2, streamBytes_streamOf _ _ hle]⟩
  · simp at h

theorem step_sim (s : St) (o : Obs) (s' : St) (ms : C19St) (hR : Rel s ms)
    (hs : step s o = some s') : ∃ ms', monC19.step ms o = some ms' ∧ Rel s' ms' := by
  cases o with
  | pad cap spare data r =>
    simp only [step] at hs
    split at hs
    · rename_i h
      simp only [Option.some.injEq] at hs; subst hs
      have hr : r = .ok (padSpec data) := by rw [← h.2, pad_eq_spec]
      subst hr
      have hl := padSpec_length data
      have hm := padCount_mod data.length
      have hpre : data.isPrefixOf (padSpec data) = true := by
        rw [List.isPrefixOf_iff_prefix]; exact ⟨_, by simp [padSpec]; rfl⟩
      refine ⟨{ ms with pads := (padSpec data, data) :: ms.pads }, ?_, ?_, hR.seeds⟩
      · simp only [monC19]
        rw [if_pos ⟨by omega, by omega, hpre⟩]
      · intro e he
        simp only [List.mem_cons] at he
        rcases he with rfl | he
        · rfl
        · exact hR.pads e he
    · simp at hs
  | unpad cap spare d r =>
    simp only [step] at hs
    split at hs
    · rename_i h
      simp only [Option.some.injEq] at hs; subst hs
      have hpad : ∀ e ∈ ms.pads, e.1 = d → r = .ok e.2 := by
        intro e he hed
        rw [← h.2, ← hed, hR.pads e he, unpad_padSpec]
      rcases unpad_cases d spare with hu | ⟨y, hu, hy⟩
      · have hr : r = .err := by rw [← h.2, hu]
        subst hr
        refine ⟨ms, ?_, hR⟩
        simp only [monC19]
        have : ms.pads.any (fun e => e.1 == d) = false := by
          rw [List.any_eq_false]
          intro e he hed
          have := hpad e he (by simpa using hed)
          cases this
        simp [this]
      · have hr : r = .ok y := by rw [← h.2, hu]
        subst hr
        refine ⟨ms, ?_, hR⟩
        simp only [monC19]
        have h2 : ms.pads.all (fun e => e.1 != d || e.2 == y) = true := by
          rw [List.all_eq_true]
          intro e he
          by_cases hed : e.1 = d
          · have := hpad e he hed
            simp only [Res.ok.injEq] at this
            simp [this]
          · simp [hed]
        rw [if_pos ⟨List.isPrefixOf_iff_prefix.mpr hy, h2⟩]
    · simp at hs
  | pfx strs r =>
    simp only [step] at hs
    split at hs
    · rename_i h
      simp only [Option.some.injEq] at hs; subst hs; subst h
      exact ⟨ms, by simp only [monC19]; rw [if_pos (isLCP_prefix strs)], hR⟩
    · simp at hs
  | trim strs r =>
    simp only [step] at hs
    split at hs
    · rename_i h
      simp only [Option.some.injEq] at hs; subst hs; subst h
      refine ⟨ms, ?_, hR⟩
      have hm := trim_map strs
      have hlen : (trimPrefix strs).length = strs.length := by
        have := congrArg List.length hm
        simpa using this.symm
      cases strs with
      | nil =>
        have : trimPrefix [] = [] := by simpa using hlen
        simp [monC19, this]
      | cons s0 tl =>
        cases houts : trimPrefix (s0 :: tl) with
        | nil => rw [houts] at hlen; simp at hlen
        | cons o0 otl =>
          rw [houts] at hm hlen
          simp only [List.map_cons, List.cons.injEq] at hm
          have hp : s0.take (s0.length - o0.length) = «prefix» (s0 :: tl) := by
            have := take_sub_len («prefix» (s0 :: tl)) o0
            rw [← hm.1] at this
            exact this
          simp only [monC19, hp]
          have hz : ((s0 :: tl).zip (o0 :: otl)).all (fun so => so.1 == «prefix» (s0 :: tl) ++ so.2) = true := by
            have := zip_map_all («prefix» (s0 :: tl)) (o0 :: otl)
            simp only [List.map_cons] at this
            rw [← hm.1, ← hm.2] at this
            exact this
          rw [if_pos ⟨hlen, isLCP_prefix _, hz⟩]
    · simp at hs
  | read sep seed sizes words r =>
    simp only [step] at hs
    split at hs
    · rename_i h
      simp only [Option.some.injEq] at hs; subst hs
      obtain ⟨hall, hmr⟩ := h
      cases hm : modelRead sizes words with
      | none => simp [hm] at hmr
      | some chunks =>
        simp only [hm, Option.map_some, Option.some.injEq] at hmr
        subst hmr
        obtain ⟨h1, h2, h3⟩ := modelRead_spec sizes words chunks hm
        have hb : chunks.flatten <+: expandWords words := by rw [h3]; exact List.take_prefix _ _
        have h4 := seeds_all seed words chunks.flatten hb ms.seeds s hR.seeds hall
        refine ⟨{ ms with seeds := (seed, chunks.flatten) :: ms.seeds }, ?_, hR.pads, ?_⟩
        · simp only [monC19]
          rw [if_pos ⟨h1, h2, h3, h4⟩]
        · exact SeedRel.cons ⟨rfl, hb⟩ hR.seeds
    · simp at hs

end UtilModel.Codec
