import UtilModel.Core.LTS
import UtilModel.Codec.Padding
import UtilModel.Codec.Prefix
import UtilModel.Codec.Reader
/-!
# codec (C19): the degenerate OLTS of pure functions

Every event is observable: one log line per call of the real function, carrying the inputs and the
implementation's output. `step` accepts a line iff the Lean function computes the same output, so
observational trace inclusion degenerates to input/output equality on the logged calls.

The only state is the part of the (abstract, trusted) seeding function revealed so far: for each
seed already used, the words its source produced. A later `read` line with an equal seed must show a
word list that agrees with it (one is a prefix of the other) — "sources built from equal seed data
yield identical streams" as a property of the model.

Log lines (`x…` = hex bytes, `x` alone = empty; lists are comma-separated, `nil` = empty list):
```
call pad <cap> <spare> <data> -> ok <out> | panic
call unpad <cap> <spare> <data> -> ok <out> | err | panic
call prefix <strs> -> ok <p> | panic
call trim <strs> -> ok <strs'> | panic
call read rec|sep <seed datas> <chunk sizes> <words> -> ok <chunks> | err | panic
```
`<spare>` = contents of the backing array between `len` and `cap` before the call.
`read rec`: the reader wraps a recording source built by `BuildSeededRand(seed…)`; `<words>` are the
values that source returned during the reads. `read sep`: the reader comes from
`BuildSeededReader(seed…)` and `<words>` are the first `⌈Σ/8⌉` values of a *separately built*
`BuildSeededRand(seed…)` from an equal copy of the seed data.
-/
namespace UtilModel.Codec

inductive Obs where
  | pad (cap : Nat) (spare data : Bytes) (r : Res Bytes)
  | unpad (cap : Nat) (spare data : Bytes) (r : Res Bytes)
  | pfx (strs : List Bytes) (r : Res Bytes)
  | trim (strs : List Bytes) (r : Res (List Bytes))
  | read (sep : Bool) (seed : List Bytes) (sizes : List Nat) (words : List UInt64) (r : Res (List Bytes))
deriving DecidableEq, Repr

/-- revealed part of the seeding function: (seed data, words produced) per `read` call so far -/
abbrev St := List (List Bytes × List UInt64)

/-- two observations of one stream agree: one is a prefix of the other -/
def comparable {α : Type} [BEq α] (a b : List α) : Bool := a.isPrefixOf b || b.isPrefixOf a

/-- the model's answer to a `read` line: run the reader model over the logged words. The words are
used as a stream via `streamOf` (0 beyond the end); the line is accepted only if the reader drew
*exactly* the logged number of words, so the padding value is never looked at
(`read_words_only` in Props: the result depends on the first `⌈Σ/8⌉` words only). -/
def modelRead (sizes : List Nat) (words : List UInt64) : Option (List Bytes) :=
  let res := readChunks (streamOf words) Reader.init sizes
  if res.1.pos = words.length then some res.2 else none

def step (s : St) : Obs → Option St
  | .pad cap spare data r =>
    if cap = data.length + spare.length ∧ pad data spare = r then some s else none
  | .unpad cap spare data r =>
    if cap = data.length + spare.length ∧ unpad data spare = r then some s else none
  | .pfx strs r => if r = .ok («prefix» strs) then some s else none
  | .trim strs r => if r = .ok (trimPrefix strs) then some s else none
  | .read _ seed sizes words r =>
    if s.all (fun e => e.1 != seed || comparable e.2 words) ∧
       (modelRead sizes words).map Res.ok = some r
    then some ((seed, words) :: s) else none

def model : OLTS St Obs Obs where
  init := []
  step := step
  obs := some
  cands := fun _ => []
  evsOf := fun _ o => [o]

/-! ## parsing -/

def parseRes {α : Type} (p : String → Option α) : List String → Option (Res α)
  | ["ok", v] => (p v).map Res.ok
  | ["err"] => some .err
  | ["panic"] => some .panic
  | _ => none

def parseMode (s : String) : Option Bool :=
  if s == "sep" then some true else if s == "rec" then some false else none

def Obs.parse : List String → Option Obs
  | "call" :: "pad" :: cap :: sp :: x :: "->" :: r => do
    pure (.pad (← cap.toNat?) (← parseBytes sp) (← parseBytes x) (← parseRes parseBytes r))
  | "call" :: "unpad" :: cap :: sp :: x :: "->" :: r => do
    pure (.unpad (← cap.toNat?) (← parseBytes sp) (← parseBytes x) (← parseRes parseBytes r))
  | "call" :: "prefix" :: l :: "->" :: r => do
    pure (.pfx (← parseListTok parseBytes l) (← parseRes parseBytes r))
  | "call" :: "trim" :: l :: "->" :: r => do
    pure (.trim (← parseListTok parseBytes l) (← parseRes (parseListTok parseBytes) r))
  | "call" :: "read" :: m :: sd :: sz :: ws :: "->" :: r => do
    pure (.read (← parseMode m) (← parseListTok parseBytes sd) (← parseListTok String.toNat? sz)
      (← parseListTok parseWord ws) (← parseRes (parseListTok parseBytes) r))
  | _ => none

end UtilModel.Codec
