import UtilModel.Codec.Reader
/-!
# codec: proofs about the reader model

The whole reader state is a function of the stream and the number `p` of bytes delivered so far
(`readerAt`); one `Read` of `n` bytes moves `p` to `p + n` and returns bytes `p … p+n-1` of the
little-endian expansion of the stream.
-/
namespace UtilModel.Codec

/-- the reader after `p` bytes have been delivered -/
def readerAt (σ : Stream) (p : Nat) : Reader :=
  { buf := if p = 0 then List.replicate 8 0 else leBytes (σ ((p - 1) / 8))
    off := ⟨p % 8, Nat.mod_lt _ (by decide)⟩
    pos := (p + 7) / 8 }

theorem readerAt_zero (σ : Stream) : readerAt σ 0 = Reader.init := by
  simp [readerAt, Reader.init]

theorem leBytes_length (w : UInt64) : (leBytes w).length = 8 := by simp [leBytes]

theorem leBytes_window (w : UInt64) (o k : Nat) (h : o + k ≤ 8) :
    ((leBytes w).drop o).take k = (List.range k).map fun j => leByte w (o + j) := by
  apply List.ext_getElem
  · simp [leBytes_length]; omega
  · intro i h1 h2
    simp [leBytes]

theorem streamBytes_append (σ : Stream) (p k m : Nat) :
    streamBytes σ p (k + m) = streamBytes σ p k ++ streamBytes σ (p + k) m := by
  simp [streamBytes, List.range_add, Nat.add_assoc]

theorem streamBytes_length (σ : Stream) (p n : Nat) : (streamBytes σ p n).length = n := by
  simp [streamBytes]

/-- one iteration of the `Read` loop -/
theorem readLoop_step (σ : Stream) (p need : Nat) (hn : need ≠ 0) :
    readLoop σ (readerAt σ p) need =
      ((readLoop σ (readerAt σ (p + min need (8 - p % 8))) (need - min need (8 - p % 8))).1,
       streamBytes σ p (min need (8 - p % 8)) ++
         (readLoop σ (readerAt σ (p + min need (8 - p % 8))) (need - min need (8 - p % 8))).2) := by
  rw [readLoop, dif_neg hn]
  have hlt : p % 8 < 8 := Nat.mod_lt _ (by decide)
  -- the reader after the optional refill
  have hr1 : (if (readerAt σ p).off.val = 0
        then { readerAt σ p with buf := leBytes (σ (readerAt σ p).pos), pos := (readerAt σ p).pos + 1 }
        else readerAt σ p)
      = ({ buf := leBytes (σ (p / 8)), off := ⟨p % 8, hlt⟩, pos := p / 8 + 1 } : Reader) := by
    by_cases h0 : p % 8 = 0
    · have e1 : (p + 7) / 8 = p / 8 := by omega
      simp [readerAt, h0, e1]
    · have e1 : (p + 7) / 8 = p / 8 + 1 := by omega
      have e2 : (p - 1) / 8 = p / 8 := by omega
      have e3 : p ≠ 0 := by omega
      simp [readerAt, h0, e1, e2, e3]
  simp only [hr1]
  have hk1 : 1 ≤ min need (8 - p % 8) := by omega
  have hk2 : p % 8 + min need (8 - p % 8) ≤ 8 := by omega
  -- the chunk copied out
  have hchunk : ((leBytes (σ (p / 8))).drop (p % 8)).take (min need (8 - p % 8))
      = streamBytes σ p (min need (8 - p % 8)) := by
    rw [leBytes_window _ _ _ hk2]
    unfold streamBytes streamByte
    apply List.map_congr_left
    intro j hj
    have hj' : j < min need (8 - p % 8) := by simpa using hj
    have e1 : (p + j) / 8 = p / 8 := by omega
    have e2 : (p + j) % 8 = p % 8 + j := by omega
    rw [e1, e2]
  -- the reader after the offset update
  have hr2 : ({ buf := leBytes (σ (p / 8)),
                off := ⟨(p % 8 + min need (8 - p % 8)) % 8, Nat.mod_lt _ (by decide)⟩,
                pos := p / 8 + 1 } : Reader)
      = readerAt σ (p + min need (8 - p % 8)) := by
    have e1 : (p + min need (8 - p % 8) - 1) / 8 = p / 8 := by omega
    have e2 : (p + min need (8 - p % 8) + 7) / 8 = p / 8 + 1 := by omega
    have e3 : p + min need (8 - p % 8) ≠ 0 := by omega
    have e4 : (p % 8 + min need (8 - p % 8)) % 8 = (p + min need (8 - p % 8)) % 8 := by omega
    unfold readerAt
    rw [if_neg e3, e1, e2]
    congr 1
    exact Fin.ext e4
  simp only [hchunk, hr2]

/-- **one `Read` of `need` bytes**: from the state after `p` bytes to the state after `p + need`
bytes, returning bytes `p … p+need-1` of the expansion. -/
theorem readLoop_readerAt (σ : Stream) (need p : Nat) :
    readLoop σ (readerAt σ p) need = (readerAt σ (p + need), streamBytes σ p need) := by
  induction need using Nat.strongRecOn generalizing p with
  | _ need ih =>
    by_cases hn : need = 0
    · subst hn; rw [readLoop]; simp [streamBytes]
    · rw [readLoop_step σ p need hn]
      have hlt : p % 8 < 8 := Nat.mod_lt _ (by decide)
      have hk1 : 1 ≤ min need (8 - p % 8) := by omega
      rw [ih (need - min need (8 - p % 8)) (by omega)]
      have e : need = min need (8 - p % 8) + (need - min need (8 - p % 8)) := by omega
      simp only
      rw [← streamBytes_append]
      congr 2
      · omega
      · omega

theorem readChunks_readerAt (σ : Stream) (ns : List Nat) (p : Nat) :
    (readChunks σ (readerAt σ p) ns).1 = readerAt σ (p + ns.sum) ∧
    (readChunks σ (readerAt σ p) ns).2.flatten = streamBytes σ p ns.sum ∧
    (readChunks σ (readerAt σ p) ns).2.map List.length = ns := by
  induction ns generalizing p with
  | nil => simp [readChunks, streamBytes]
  | cons n ns ih =>
    simp only [readChunks, readLoop_readerAt, List.sum_cons, List.flatten_cons, List.map_cons]
    obtain ⟨h1, h2, h3⟩ := ih (p + n)
    refine ⟨by rw [h1, Nat.add_assoc], by rw [h2, ← streamBytes_append], by rw [h3, streamBytes_length]⟩

/-- the bytes delivered depend only on the first `⌈n/8⌉` words of the stream -/
theorem streamBytes_congr (σ τ : Stream) (n : Nat) (h : ∀ i, i < (n + 7) / 8 → σ i = τ i) :
    streamBytes σ 0 n = streamBytes τ 0 n := by
  unfold streamBytes streamByte
  apply List.map_congr_left
  intro j hj
  have hj' : j < n := by simpa using hj
  rw [h ((0 + j) / 8) (by omega)]

theorem expandWords_length (ws : List UInt64) : (expandWords ws).length = 8 * ws.length := by
  induction ws with
  | nil => simp [expandWords]
  | cons w ws ih =>
    simp only [expandWords, List.flatMap_cons, List.length_append, leBytes_length, List.length_cons] at *
    omega

theorem expandWords_getElem (ws : List UInt64) (j : Nat) (h : j < (expandWords ws).length) :
    (expandWords ws)[j] = leByte (ws[j / 8]'(by rw [expandWords_length] at h; omega)) (j % 8) := by
  induction ws generalizing j with
  | nil => simp [expandWords] at h
  | cons w ws ih =>
    have hl := expandWords_length ws
    have h0 : j < 8 * (ws.length + 1) := by rw [expandWords_length] at h; simpa using h
    simp only [expandWords, List.flatMap_cons] at h ⊢
    by_cases hj : j < 8
    · rw [List.getElem_append_left (by simp [leBytes_length]; exact hj)]
      have e1 : j / 8 = 0 := by omega
      have e2 : j % 8 = j := by omega
      simp [e1, e2, leBytes]
    · rw [List.getElem_append_right (by simp [leBytes_length]; omega)]
      simp only [leBytes_length]
      have := ih (j - 8) (by rw [hl]; omega)
      simp only [expandWords] at this
      rw [this]
      have e1 : j / 8 = (j - 8) / 8 + 1 := by omega
      have e2 : (j - 8) % 8 = j % 8 := by omega
      simp [e1, e2]

/-- the stream bytes of a finite word list are the prefix of its little-endian expansion -/
theorem streamBytes_streamOf (ws : List UInt64) (n : Nat) (h : n ≤ 8 * ws.length) :
    streamBytes (streamOf ws) 0 n = (expandWords ws).take n := by
  have hl := expandWords_length ws
  apply List.ext_getElem
  · simp [streamBytes_length, hl]; omega
  · intro i h1 h2
    have hi : i < n := by simpa [streamBytes_length] using h1
    rw [List.getElem_take, expandWords_getElem]
    simp only [streamBytes, streamByte, streamOf, List.getElem_map, List.getElem_range, Nat.zero_add]
    congr 1
    have : i / 8 < ws.length := by omega
    simp [List.getD_eq_getElem?_getD, this]

theorem expandWords_prefix (a b : List UInt64) (h : a <+: b) : expandWords a <+: expandWords b := by
  obtain ⟨t, rfl⟩ := h
  simp [expandWords, List.flatMap_append]
