import UtilModel.Core.Monitor
import UtilModel.Codec.Model
/-!
# codec: property C19 as an executable monitor over the observed calls

The monitor states the clauses of C19 directly on input/output pairs. It does not call the model
functions `pad`, `unpad`, `prefix`, `trimPrefix`, `readLoop`; the only shared definition is the
little-endian expansion `expandWords`, which is part of the statement of the property.

* pad: the output is returned (no panic), its length is a positive multiple of 32, it starts with the
  input; the pair is remembered.
* unpad: never a panic; a returned slice is a prefix of the input (no over-read into the spare
  capacity); if the input is the output of an earlier `pad x`, the result is exactly `x`.
* prefix: the result is a prefix of every argument and cannot be extended by one byte and still be
  one (⇔ it is the longest); `""` for no arguments.
* trim: every string lost exactly the longest common prefix.
* read: every chunk has the requested length; the concatenation of the chunks is the first `Σ`
  bytes of the little-endian expansion of the source's words (chunk independence); and all reads
  with equal seed data saw the same byte stream (each is a prefix of the other), whatever their
  chunking and whether reader and source were built together or separately.
-/
namespace UtilModel.Codec

structure C19St where
  /-- (output, input) of every `pad` call so far -/
  pads : List (Bytes × Bytes) := []
  /-- (seed data, bytes read) of every `read` call so far -/
  seeds : List (List Bytes × Bytes) := []
deriving Repr

/-- `p` is the longest common prefix of `strs` (`strs` non-empty), resp. `""` (no strings):
common, and not extensible by the next byte of the first string. (If `p ++ [b]` is a common prefix
then `b` is that byte, so trying this one byte is exhaustive.) -/
def isLCP (strs : List Bytes) (p : Bytes) : Bool :=
  match strs with
  | [] => p == []
  | s0 :: _ =>
    strs.all (fun s => p.isPrefixOf s) &&
      match s0[p.length]? with
      | none => true
      | some b => !(strs.all fun s => (p ++ [b]).isPrefixOf s)

def monC19 : ObsMonitor Obs C19St where
  init := {}
  step := fun ms o =>
    match o with
    | .pad _ _ x (.ok out) =>
      if 0 < out.length ∧ out.length % 32 = 0 ∧ x.isPrefixOf out
      then some { ms with pads := (out, x) :: ms.pads } else none
    | .pad _ _ _ _ => none
    | .unpad _ _ _ .panic => none
    | .unpad _ _ d .err => if ms.pads.any (fun e => e.1 == d) then none else some ms
    | .unpad _ _ d (.ok y) =>
      if y.isPrefixOf d ∧ ms.pads.all (fun e => e.1 != d || e.2 == y) then some ms else none
    | .pfx strs (.ok p) => if isLCP strs p then some ms else none
    | .pfx _ _ => none
    | .trim strs (.ok outs) =>
      match strs, outs with
      | [], [] => some ms
      | s0 :: _, o0 :: _ =>
        let p := s0.take (s0.length - o0.length)
        if outs.length = strs.length ∧ isLCP strs p ∧ (strs.zip outs).all (fun so => so.1 == p ++ so.2)
        then some ms else none
      | _, _ => none
    | .trim _ _ => none
    | .read _ seed sizes words (.ok chunks) =>
      let bytes := chunks.flatten
      if chunks.map List.length = sizes ∧ sizes.sum ≤ 8 * words.length ∧
         bytes = (expandWords words).take sizes.sum ∧
         ms.seeds.all (fun e => e.1 != seed || comparable e.2 bytes)
      then some { ms with seeds := (seed, bytes) :: ms.seeds } else none
    | .read _ _ _ _ _ => none

end UtilModel.Codec
