/-!
# codec (C19): shared vocabulary — byte strings, Go indexing with explicit panics, outcomes

The C19 functions are pure. Their "model" is a set of total, computable Lean functions that follow
the Go source statement by statement. Everything that can fail at run time in Go (an index or a
slice bound out of range) is an explicit `none`/`panic` outcome here, never a default value, so that
"never panics" is a theorem about the model and not an artefact of totalisation.

Go strings and `[]byte` are both byte sequences: `List UInt8`. Nothing in this component interprets
bytes as UTF-8.
-/
namespace UtilModel.Codec

abbrev Bytes := List UInt8

/-- outcome of one call: a value, a returned `error`, or a run-time panic -/
inductive Res (α : Type) where
  | ok (v : α)
  | err
  | panic
deriving DecidableEq, Repr

/-- Go `a[i]` for an `int` index `i`; `none` = "index out of range" (panic). -/
def idx? {α : Type} (a : List α) (i : Int) : Option α :=
  if i < 0 then none else a[i.toNat]?

/-- Go `a[i] = v` for an `int` index `i`; `none` = "index out of range" (panic). -/
def setIdx? {α : Type} (a : List α) (i : Int) (v : α) : Option (List α) :=
  if i < 0 ∨ i ≥ (a.length : Int) then none else some (a.set i.toNat v)

/-- Go `a[:hi]` where the backing array of `a` continues with `spare` (so `cap(a) = len(a) +
len(spare)`); `none` = "slice bounds out of range" (panic). A bound between `len` and `cap` is legal
Go and *exposes bytes of the spare capacity* — that is what over-reading looks like. -/
def sliceTo? {α : Type} (a spare : List α) (hi : Int) : Option (List α) :=
  if hi < 0 ∨ hi > ((a.length + spare.length : Nat) : Int) then none
  else some ((a ++ spare).take hi.toNat)

/-- Go builtin `copy(dst, src)`: copies `min(len(dst), len(src))` elements, never panics. -/
def goCopy {α : Type} (dst src : List α) : List α :=
  src.take dst.length ++ dst.drop (min src.length dst.length)

/-! ## hex tokens of the harness log (`x` followed by two hex digits per byte; `x` alone = empty) -/

def hexVal (c : Char) : Option Nat :=
  if '0' ≤ c ∧ c ≤ '9' then some (c.toNat - '0'.toNat)
  else if 'a' ≤ c ∧ c ≤ 'f' then some (c.toNat - 'a'.toNat + 10)
  else none

def hexBytes : List Char → Option Bytes
  | [] => some []
  | [_] => none
  | a :: b :: rest => do
    let h ← hexVal a
    let l ← hexVal b
    let r ← hexBytes rest
    pure (UInt8.ofNat (16 * h + l) :: r)

def parseBytes (s : String) : Option Bytes :=
  match s.toList with
  | 'x' :: cs => hexBytes cs
  | _ => none

def hexNat : List Char → Nat → Option Nat
  | [], acc => some acc
  | c :: cs, acc => do
    let v ← hexVal c
    hexNat cs (16 * acc + v)

/-- a 64-bit word: exactly 16 hex digits -/
def parseWord (s : String) : Option UInt64 :=
  let cs := s.toList
  if cs.length = 16 then (hexNat cs 0).map UInt64.ofNat else none

/-- comma-separated list; the token `nil` is the empty list -/
def parseListTok {α : Type} (p : String → Option α) (s : String) : Option (List α) :=
  if s == "nil" then some [] else (s.splitOn ",").mapM p

end UtilModel.Codec
