import UtilModel.Core.LTSHash
import UtilModel.Core.LTSComplete
import UtilModel.Codec.Props
/-!
# Codec — end-to-end transfer

If the driver's trace-inclusion decision accepts a history recorded from the Go implementation, the
property monitor accepts that history: composition of the checker's soundness theorem
(`accepts_sound` / `acceptsH_sound`) with this package's observable-form property theorem.
-/
namespace UtilModel

theorem C19_accepted (cap fuel : Nat) (h : List Codec.Obs)
    (ha : Codec.model.accepts cap fuel h = true) : Codec.monC19.accepts h = true :=
  accepted_satisfies Codec.model (fun h => Codec.monC19.accepts h = true)
    Codec.C19_obs cap fuel h ha

end UtilModel

/-! ## completeness of the candidate lists — a REJECT is about the model -/
namespace UtilModel

/-- every event of the codec model is its own observable: there are no internal events, and
`evsOf s o = [o]` is the only event showing `o` -/
theorem complete_codec : Codec.model.Complete :=
  ⟨fun _ _ _ _ ho => by simp [Codec.model] at ho,
   fun _ e _ o _ ho => by
     simp only [Codec.model, Option.some.injEq] at ho
     subst ho; simp [Codec.model]⟩

/-- **A REJECT of the codec correspondence is about the model** (list-indexed checker, `mkEntry`). -/
theorem reject_sound_codec (cap fuel : Nat) (h : List Codec.Obs) (i : Nat)
    (hfail : (Codec.model.accRun cap fuel [Codec.model.init] h 0 false 1).failedAt = some i)
    (htr : (Codec.model.accRun cap fuel [Codec.model.init] h 0 false 1).truncated = false) :
    ¬ ∃ es s, Codec.model.run Codec.model.init es = some s ∧ es.filterMap Codec.model.obs = h :=
  reject_sound Codec.model complete_codec cap fuel h i hfail htr

end UtilModel
