import UtilModel.Core.LTSHash
import UtilModel.Codec.Props
/-!
# Codec — end-to-end transfer

If the driver's trace-inclusion decision accepts a history recorded from the Go implementation, the
property monitor accepts that history: composition of the checker's soundness theorem
(`accepts_sound` / `acceptsH_sound`) with this package's observable-form property theorem.
-/
namespace UtilModel

theorem C19_accepted (cap fuel : Nat) (h : List Codec.Obs)
    (ha : Codec.model.accepts cap fuel h = true) : Codec.monC19.accepts h = true :=
  accepted_satisfies Codec.model (fun h => Codec.monC19.accepts h = true)
    Codec.C19_obs cap fuel h ha

end UtilModel
