import UtilModel.Core.Driver
import UtilModel.Codec.Model
import UtilModel.Codec.Monitors
/-! Development driver for this component only: `lake env lean --run UtilModel/Codec/TestDriver.lean codec < hist` -/
open UtilModel

def main (args : List String) : IO UInt32 :=
  driverMain [
    mkEntry "codec" Codec.model Codec.Obs.parse [MonEntry.ofMonitor "C19" Codec.monC19]
  ] args
