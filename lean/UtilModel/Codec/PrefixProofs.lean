import UtilModel.Codec.Prefix
/-!
# codec: proofs about the common-prefix model
-/
namespace UtilModel.Codec

theorem pickShort_mem (short : Bytes) (l : List Bytes) : pickShort short l = short ∨ pickShort short l ∈ l := by
  induction l generalizing short with
  | nil => simp [pickShort]
  | cons s rest ih =>
    simp only [pickShort]
    rcases ih (if short.length ≥ s.length then s else short) with h | h
    · rw [h]; split <;> simp
    · exact Or.inr (List.mem_cons_of_mem _ h)

/-- a common prefix of all strings -/
def Common (strs : List Bytes) (q : Bytes) : Prop := ∀ s ∈ strs, q <+: s

theorem all_isPrefixOf_iff (strs : List Bytes) (q : Bytes) :
    (strs.all fun s => q.isPrefixOf s) = true ↔ Common strs q := by
  simp [Common, List.all_eq_true]

/-- loop invariant ⇒ the loop result is a common prefix and every common prefix is a prefix of it.
`done ++ rest` is the string `short` the loop walks over; it is one of the arguments. -/
theorem prefixLoop_spec (strs : List Bytes) (short : Bytes) (hshort : short ∈ strs)
    (rest done : Bytes) (arr : List Bytes) (pfx old : Bytes)
    (h1 : done ++ rest = short) (h2 : arr.flatten = done) (h3 : pfx = done) (h4 : old = done)
    (h5 : Common strs done) :
    Common strs (prefixLoop strs rest arr pfx old) ∧
      ∀ q, Common strs q → q <+: prefixLoop strs rest arr pfx old := by
  induction rest generalizing done arr pfx old with
  | nil =>
    simp only [prefixLoop]
    subst h3
    refine ⟨h5, fun q hq => ?_⟩
    have := hq short hshort
    simpa [← h1] using this
  | cons b rest ih =>
    simp only [prefixLoop]
    have hfl : (arr ++ [[b]]).flatten = done ++ [b] := by simp [h2]
    rw [hfl]
    split
    · rename_i hall
      rw [all_isPrefixOf_iff] at hall
      exact ih (done ++ [b]) (arr ++ [[b]]) (done ++ [b]) (done ++ [b]) (by simp [← h1]) hfl rfl rfl hall
    · rename_i hall
      rw [all_isPrefixOf_iff] at hall
      subst h4
      refine ⟨h5, fun q hq => ?_⟩
      -- q is a prefix of short = old ++ b :: rest; if it were longer than old, old ++ [b] would be common
      have hqs : q <+: old ++ (b :: rest) := h1 ▸ hq short hshort
      by_cases hlen : q.length ≤ old.length
      · exact List.prefix_of_prefix_length_le hqs (List.prefix_append _ _) hlen
      · exfalso
        apply hall
        intro s hs
        have hob : old ++ [b] <+: q := by
          have h' : old ++ [b] <+: old ++ (b :: rest) := by
            have : old ++ (b :: rest) = (old ++ [b]) ++ rest := by simp
            rw [this]; exact List.prefix_append _ _
          exact List.prefix_of_prefix_length_le h' hqs (by simp; omega)
        exact List.IsPrefix.trans hob (hq s hs)

theorem prefix_spec (strs : List Bytes) (hne : strs ≠ []) :
    Common strs («prefix» strs) ∧ ∀ q, Common strs q → q <+: «prefix» strs := by
  cases strs with
  | nil => exact absurd rfl hne
  | cons s0 tl =>
    simp only [«prefix»]
    have hmem : pickShort s0 (s0 :: tl) ∈ s0 :: tl := by
      rcases pickShort_mem s0 (s0 :: tl) with h | h
      · rw [h]; simp
      · exact h
    exact prefixLoop_spec (s0 :: tl) _ hmem _ [] [] [] [] (by simp) (by simp) rfl rfl
      (fun s _ => List.nil_prefix)

theorem trimOne_spec (p s : Bytes) (h : p <+: s) : p ++ trimOne p s = s := by
  unfold trimOne
  rw [if_pos (List.isPrefixOf_iff_prefix.mpr h)]
  obtain ⟨t, rfl⟩ := h
  simp
