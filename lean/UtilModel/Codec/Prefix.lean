import UtilModel.Codec.Types
/-!
# codec: `commonprefix.Prefix` / `commonprefix.TrimPrefix`, as the code is written

`/repo/commonprefix/commonprefix.go`. A Go `string` is a byte sequence; `short[i:i+1]` is the
one-byte string at position `i` (no rune conversion); `strings.Join(a, "")` is concatenation;
`strings.HasPrefix(s, p)` is `len(s) >= len(p) && s[:len(p)] == p`, i.e. `List.isPrefixOf`;
`strings.TrimPrefix(s, p)` is `s[len(p):]` if `HasPrefix(s, p)` and `s` otherwise (these three
standard-library functions are trusted externals whose contract is the model).
-/
namespace UtilModel.Codec

/-- `short := strs[0]; for _, s := range strs { if len(short) >= len(s) { short = s } }` -/
def pickShort (short : Bytes) : List Bytes → Bytes
  | [] => short
  | s :: rest => pickShort (if short.length ≥ s.length then s else short) rest

/-- the main loop of `Prefix`: `rest` = the bytes `short[i:]` still to visit, `arr` = `prefx_array`,
`pfx` = `prefix`, `old` = `old_prefix`. The loop guard `i < len(short)` makes `short[i:i+1]`
in range, so walking the list is the same as indexing it. -/
def prefixLoop (strs : List Bytes) : Bytes → List Bytes → Bytes → Bytes → Bytes
  | [], _, pfx, _ => pfx                                        -- return prefix
  | b :: rest, arr, _, old =>
    let arr' := arr ++ [[b]]                                    -- append(prefx_array, short[i:i+1])
    let pfx' := arr'.flatten                                    -- strings.Join(prefx_array, "")
    if strs.all (fun s => pfx'.isPrefixOf s) then               -- every HasPrefix(s, prefix)
      prefixLoop strs rest arr' pfx' pfx'                       -- old_prefix = prefix
    else old                                                    -- return old_prefix

/-- `Prefix(strs...)` -/
def «prefix» (strs : List Bytes) : Bytes :=
  match strs with
  | [] => []                                                    -- if len(strs) == 0 { return "" }
  | s0 :: _ => prefixLoop strs (pickShort s0 strs) [] [] []

/-- `strings.TrimPrefix(s, p)` -/
def trimOne (p s : Bytes) : Bytes := if p.isPrefixOf s then s.drop p.length else s

/-- `TrimPrefix(strs...)`: the contents of `strs` afterwards -/
def trimPrefix (strs : List Bytes) : List Bytes :=
  let p := «prefix» strs
  if p = [] then strs else strs.map (trimOne p)

end UtilModel.Codec
