import UtilModel.Codec.Proofs
/-!
# codec — property C19: the theorems a reader audits

C19: *For every byte slice x, PadInPlace(x) has a length that is a positive multiple of 32, starts
with x, and UnpadInPlace of it returns exactly x; UnpadInPlace returns an error rather than panicking
or over-reading on any input. commonprefix.Prefix returns the longest string that is a prefix of all
its arguments for arbitrary bytes, and TrimPrefix removes exactly that. Readers and sources built by
prng from equal seed data yield identical streams, independent of how the reads are chunked.*

All statements are for **every** input: every byte list (including `[]`, every length, every byte
value — nothing here knows about UTF-8), every content `spare` of the spare capacity (including
none), every list of strings (including `[]`, empty strings, one string), every stream of words and
every list of chunk sizes (including 0 and sizes > 8).

Conventions: `pad x spare` / `unpad d spare` model a slice with visible bytes `x` whose backing
array continues with the bytes `spare` (`cap = len x + len spare`). Results are `Res`: `ok v`, `err`
(an `error` was returned) or `panic` (an index / slice bound out of range).
-/
namespace UtilModel.Codec
open UtilModel

/-! ## padding -/

/-- PadInPlace never panics: it returns a slice, for every input, capacity and garbage. -/
theorem pad_total (x spare : Bytes) : ∃ out, pad x spare = .ok out :=
  ⟨_, pad_eq_spec x spare⟩

/-- The result of PadInPlace does not depend on the capacity of its argument, nor on what the spare
capacity contains: both branches of the code compute the same bytes (`x`, zeros, trailer byte). -/
theorem pad_cap_irrelevant (x spare spare' : Bytes) : pad x spare = pad x spare' := by
  rw [pad_eq_spec, pad_eq_spec]

/-- The length of PadInPlace(x) is a positive multiple of 32 (and it is the *next* one: less than 32
bytes are added beyond the trailer byte). -/
theorem pad_len (x spare out : Bytes) (h : pad x spare = .ok out) :
    0 < out.length ∧ out.length % 32 = 0 ∧ out.length ≤ x.length + 32 := by
  rw [pad_eq_spec] at h
  simp only [Res.ok.injEq] at h
  subst h
  have hl := padSpec_length x
  have hm := padCount_mod x.length
  have hlt := padCount_lt x.length
  omega

/-- PadInPlace(x) starts with x. -/
theorem pad_prefix (x spare out : Bytes) (h : pad x spare = .ok out) : x <+: out := by
  rw [pad_eq_spec] at h
  simp only [Res.ok.injEq] at h
  subst h
  exact ⟨_, by simp [padSpec]; rfl⟩

/-- UnpadInPlace(PadInPlace(x)) returns exactly x — for every x including the empty one, whatever
the capacities involved. -/
theorem unpad_pad (x spare spare' out : Bytes) (h : pad x spare = .ok out) :
    unpad out spare' = .ok x := by
  rw [pad_eq_spec] at h
  simp only [Res.ok.injEq] at h
  subst h
  exact unpad_padSpec x spare'

/-- UnpadInPlace is total: on **any** input it returns an error or a slice — never a panic — and a
returned slice is a prefix of the input: no byte of the spare capacity is ever exposed. -/
theorem unpad_total (d spare : Bytes) :
    unpad d spare ≠ .panic ∧ ∀ r, unpad d spare = .ok r → r <+: d := by
  rcases unpad_cases d spare with h | ⟨y, h, hy⟩
  · rw [h]; exact ⟨by simp, by intro r hr; cases hr⟩
  · rw [h]; exact ⟨by simp, by intro r hr; cases hr; exact hy⟩

/-- The empty input is an error (not an index panic). -/
theorem unpad_nil (spare : Bytes) : unpad [] spare = .err := by
  rw [unpad_eq]; simp

/-! ## common prefix -/

/-- Prefix returns a prefix of every argument. -/
theorem prefix_common (strs : List Bytes) : ∀ s ∈ strs, «prefix» strs <+: s :=
  prefix_common' strs

/-- Prefix returns the **longest** common prefix: every string that is a prefix of all arguments is a
prefix of the result (in particular not longer). With no arguments every string is vacuously a common
prefix and there is no longest one; the code returns `""` (`prefix_nil`). -/
theorem prefix_longest (strs : List Bytes) (hne : strs ≠ []) (q : Bytes)
    (hq : ∀ s ∈ strs, q <+: s) : q <+: «prefix» strs ∧ q.length ≤ («prefix» strs).length := by
  have := (prefix_spec strs hne).2 q hq
  exact ⟨this, this.length_le⟩

theorem prefix_nil : «prefix» [] = [] := rfl

/-- TrimPrefix removes exactly the longest common prefix from every string: same number of strings,
and each original is `Prefix(strs…)` followed by what is left. -/
theorem trim_exact (strs : List Bytes) :
    (trimPrefix strs).length = strs.length ∧
    ∀ i (h1 : i < strs.length) (h2 : i < (trimPrefix strs).length),
      strs[i] = «prefix» strs ++ (trimPrefix strs)[i] := by
  have hm := trim_map strs
  have hlen : (trimPrefix strs).length = strs.length := by
    have := congrArg List.length hm
    simpa using this.symm
  refine ⟨hlen, fun i h1 h2 => ?_⟩
  have : strs[i]? = ((trimPrefix strs).map («prefix» strs ++ ·))[i]? := by rw [← hm]
  simpa [List.getElem?_eq_getElem h1, List.getElem?_eq_getElem h2] using this

/-! ## prng reader -/

/-- **Chunk independence.** For every stream of words and every list of read sizes, the
concatenation of the chunks read from a fresh reader is the first `Σ sizes` bytes of the
little-endian expansion of the stream. -/
theorem read_chunk_independent (σ : Stream) (sizes : List Nat) :
    (readChunks σ Reader.init sizes).2.flatten = streamBytes σ 0 sizes.sum := by
  have := (readChunks_readerAt σ sizes 0).2.1
  rwa [readerAt_zero] at this

/-- `streamBytes` really is the little-endian expansion of the stream: for any `m` words covering
`n` bytes it is the first `n` bytes of `leBytes (σ 0) ++ leBytes (σ 1) ++ … ++ leBytes (σ (m-1))`. -/
theorem streamBytes_eq_expand (σ : Stream) (n m : Nat) (h : n ≤ 8 * m) :
    streamBytes σ 0 n = (expandWords ((List.range m).map σ)).take n := by
  rw [← streamBytes_streamOf _ _ (by simpa using h)]
  apply streamBytes_congr
  intro i hi
  have : i < m := by omega
  simp [streamOf, this]

/-- every `Read(p)` fills `p` completely -/
theorem read_chunk_lengths (σ : Stream) (sizes : List Nat) :
    (readChunks σ Reader.init sizes).2.map List.length = sizes := by
  have := (readChunks_readerAt σ sizes 0).2.2
  rwa [readerAt_zero] at this

/-- two chunkings of the same total read the same bytes -/
theorem read_rechunk (σ : Stream) (s1 s2 : List Nat) (h : s1.sum = s2.sum) :
    (readChunks σ Reader.init s1).2.flatten = (readChunks σ Reader.init s2).2.flatten := by
  rw [read_chunk_independent, read_chunk_independent, h]

/-- the bytes read depend only on the first `⌈Σ/8⌉` words of the stream, and exactly that many words
are drawn from the source (this is what lets the driver feed the model the finite word list the
harness logged) -/
theorem read_words_only (σ τ : Stream) (sizes : List Nat)
    (h : ∀ i, i < (sizes.sum + 7) / 8 → σ i = τ i) :
    (readChunks σ Reader.init sizes).2.flatten = (readChunks τ Reader.init sizes).2.flatten ∧
    (readChunks σ Reader.init sizes).1.pos = (sizes.sum + 7) / 8 := by
  refine ⟨by rw [read_chunk_independent, read_chunk_independent]; exact streamBytes_congr σ τ _ h, ?_⟩
  have := (readChunks_readerAt σ sizes 0).1
  rw [readerAt_zero] at this
  rw [this]; simp [readerAt]

/-- **Seed determinism**, over the abstract seeding function. `seedFn` stands for the trusted
externals (SHA-256 over the domain string and the data, then the ChaCha8 source): the only assumption
is that it *is a function* of the seed data. Readers built from equal seed data then deliver the same
byte stream whatever the chunking: the shorter read is a prefix of the longer one, and equal totals
give equal bytes. (That the real `BuildSeededRand`/`BuildSeededReader` are such a function is checked
concretely by the harness on every run, see monC19.) -/
theorem seed_determinism (seedFn : List Bytes → Stream) (d1 d2 : List Bytes) (hd : d1 = d2)
    (c1 c2 : List Nat) (hc : c1.sum ≤ c2.sum) :
    (readChunks (seedFn d1) Reader.init c1).2.flatten
      = ((readChunks (seedFn d2) Reader.init c2).2.flatten).take c1.sum := by
  subst hd
  rw [read_chunk_independent, read_chunk_independent]
  have : c2.sum = c1.sum + (c2.sum - c1.sum) := by omega
  rw [this, streamBytes_append, List.take_append_of_le_length (by simp [streamBytes_length])]
  rw [List.take_of_length_le (by simp [streamBytes_length])]

/-! ## observable form -/

/-- **C19 in observable form**: every trace of the model (every sequence of calls with any inputs
whose logged outputs the model functions reproduce) is accepted by the monitor `monC19`, which states
the clauses of C19 directly on the input/output pairs. The same monitor runs on the implementation's
call log; `accepted_satisfies` transfers this theorem to every accepted implementation history. -/
theorem C19_obs (es : List Obs) (s : St) (hr : model.run model.init es = some s) :
    monC19.accepts (es.filterMap model.obs) = true := by
  refine monitor_accepts_of_simulation model monC19 Rel ⟨?_, SeedRel.nil⟩ ?_ es s hr
  · intro e he; simp [monC19] at he
  · intro s e s' ms hR hs
    exact step_sim s e s' ms hR hs

/-! ## the model can do something (the hypotheses above are satisfiable, the functions non-trivial) -/

-- the empty message pads to 31 zero bytes + trailer 31 and unpads to the empty message
example : pad [] [] = .ok (List.replicate 31 0 ++ [31]) := by decide
example : unpad (List.replicate 31 0 ++ [31]) [] = .ok [] := by decide
-- 31 bytes fit exactly (trailer 0); 32 bytes need a whole extra block; garbage in the spare capacity is wiped
example : pad (List.replicate 31 7) [] = .ok (List.replicate 31 7 ++ [0]) := by decide
example : pad (List.replicate 32 7) (List.replicate 40 0xAA) = .ok (List.replicate 32 7 ++ List.replicate 31 0 ++ [31]) := by decide
example : pad [1, 2] [9, 9, 9] = .ok ([1, 2] ++ List.replicate 29 0 ++ [29]) := by decide
-- malformed inputs are errors
example : unpad [] [5, 5] = .err := by decide
example : unpad [32] [] = .err := by decide
example : unpad [1] [0, 0, 0] = .err := by decide
example : unpad [7, 0] [] = .ok [7] := by decide
-- bytes ≥ 0x80 / invalid UTF-8 are just bytes ("éa","éb" share the two bytes of "é")
example : «prefix» [[0xC3, 0xA9, 0x61], [0xC3, 0xA9, 0x62]] = [0xC3, 0xA9] := by decide
example : «prefix» [[0xFF, 0xFE, 1], [0xFF, 0xFE], [0xFF, 0xFE, 2]] = [0xFF, 0xFE] := by decide
example : «prefix» [[1, 2, 3]] = [1, 2, 3] := by decide
example : «prefix» [[1, 2], []] = [] := by decide
example : trimPrefix [[0xC3, 0xA9, 0x61], [0xC3, 0xA9, 0x62]] = [[0x61], [0x62]] := by decide
-- the reader: chunks 0, 3, 9 over two words
#guard (readChunks (streamOf [0x0807060504030201, 0x100f0e0d0c0b0a09]) Reader.init [0, 3, 9]).2
  == [[], [1, 2, 3], [4, 5, 6, 7, 8, 9, 10, 11, 12]]
#guard modelRead [0, 3, 9] [0x0807060504030201, 0x100f0e0d0c0b0a09]
  == some [[], [1, 2, 3], [4, 5, 6, 7, 8, 9, 10, 11, 12]]
#guard modelRead [3] [1, 2] == none   -- a word the reader never drew: not a run of the model
-- a model run with five observable calls
example : (model.run model.init
    [.pad 0 [] [] (.ok (List.replicate 31 0 ++ [31])),
     .unpad 32 [] (List.replicate 31 0 ++ [31]) (.ok []),
     .unpad 0 [] [] .err,
     .pfx [[0xC3, 0xA9, 0x61], [0xC3, 0xA9, 0x62]] (.ok [0xC3, 0xA9]),
     .trim [[1, 2], [1, 3]] (.ok [[2], [3]])]).isSome = true := by decide

end UtilModel.Codec
