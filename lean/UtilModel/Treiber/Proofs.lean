import UtilModel.Treiber.Model
/-!
# AtomicLIFO — invariants and the simulation with the linearization checker
-/
namespace UtilModel.Treiber
open UtilModel UtilModel.Lin

/-! ## `Denotes` -/

theorem denotes_append (heap : List Node) (x : Node) (p : Option Nat) (l : List Nat)
    (h : Denotes heap p l) : Denotes (heap ++ [x]) p l := by
  induction l generalizing p with
  | nil => cases p <;> simp_all [Denotes]
  | cons v l ih =>
    cases p with
    | none => simp [Denotes] at h
    | some n =>
      obtain ⟨nx, hn, hd⟩ := h
      exact ⟨nx, getElem?_snoc_left _ _ _ _ hn, ih nx hd⟩

theorem denotes_fun (heap : List Node) (p : Option Nat) (l l' : List Nat)
    (h : Denotes heap p l) (h' : Denotes heap p l') : l = l' := by
  induction l generalizing p l' with
  | nil =>
    cases p with
    | none => cases l' with
      | nil => rfl
      | cons _ _ => simp [Denotes] at h'
    | some n => simp [Denotes] at h
  | cons v l ih =>
    cases p with
    | none => simp [Denotes] at h
    | some n =>
      cases l' with
      | nil => simp [Denotes] at h'
      | cons v' l' =>
        obtain ⟨nx, hn, hd⟩ := h
        obtain ⟨nx', hn', hd'⟩ := h'
        rw [hn] at hn'
        simp only [Option.some.injEq, Node.mk.injEq] at hn'
        obtain ⟨rfl, rfl⟩ := hn'
        rw [ih nx l' hd hd']

theorem denotes_push (heap : List Node) (v : Nat) (old : Option Nat) (l : List Nat)
    (h : Denotes heap old l) :
    Denotes (heap ++ [⟨v, old⟩]) (some heap.length) (v :: l) :=
  ⟨old, by simp, denotes_append heap _ old l h⟩

theorem denotes_some (heap : List Node) (o : Nat) (l : List Nat) (h : Denotes heap (some o) l) :
    ∃ v nx l', l = v :: l' ∧ heap[o]? = some ⟨v, nx⟩ ∧ Denotes heap nx l' := by
  cases l with
  | nil => simp [Denotes] at h
  | cons v l' => obtain ⟨nx, hn, hd⟩ := h; exact ⟨v, nx, l', rfl, hn, hd⟩

theorem denotes_none (heap : List Node) (l : List Nat) (h : Denotes heap none l) : l = [] := by
  cases l with
  | nil => rfl
  | cons _ _ => simp [Denotes] at h

/-! ## Correspondence thread state ↔ call state of the checker -/

def TS.cs : TS → CallSt SOp SRes
  | .pushLoad v | .pushCas v _ => .pending (.push v)
  | .pushDone v => .linearized (.push v) .ack
  | .popLoad | .popCas _ _ => .pending .pop
  | .popDone r => .linearized .pop (.val r)
  | .crashed => .linearized .pop .panic
  | .retd op r => .returned op r

/-- the simulation relation (it carries the inductive invariant of the model) -/
structure Rel (s : St) (ms : LinSt (List Nat) SOp SRes) : Prop where
  calls : ms.calls = s.th.map TS.cs
  den : Denotes s.heap s.top ms.st
  /-- the `next` a Pop read is the `next` of the node it loaded (published nodes are immutable) -/
  popreg : ∀ (t o : Nat) (nx : Option Nat), s.th[t]? = some (TS.popCas o nx) →
    ∃ nd : Node, s.heap[o]? = some nd ∧ nd.next = nx
  nocrash : ∀ t : Nat, s.th[t]? ≠ some TS.crashed

theorem rel_init : Rel ({} : St) (linMon stackSpec).init :=
  ⟨rfl, trivial, by intro t o nx h; simp at h, by intro t h; simp at h⟩

/-- a thread moves from `a` to `b` without touching shared memory, checker state unchanged -/
theorem rel_move (s : St) (ms : LinSt (List Nat) SOp SRes) (t : Nat) (a b : TS) (hR : Rel s ms)
    (ha : s.th[t]? = some a) (hcs : b.cs = a.cs)
    (hb1 : ∀ o nx, b = .popCas o nx → ∃ nd, s.heap[o]? = some nd ∧ nd.next = nx)
    (hb2 : b ≠ .crashed) : Rel { s with th := s.th.set t b } ms := by
  obtain ⟨c, d, p, n⟩ := hR
  refine ⟨?_, d, ?_, ?_⟩
  · rw [c]
    apply List.ext_getElem?
    intro i
    simp only [List.getElem?_map, List.getElem?_set]
    split
    · rename_i h; subst h; rw [ha]; simp [lt_of_getElem? ha, hcs]
    · rfl
  · intro u o nx hu
    rcases getElem?_set_cases _ _ _ _ _ hu with ⟨_, hx⟩ | ⟨_, hx⟩
    · exact hb1 o nx hx.symm
    · exact p u o nx hx
  · intro u hu
    rcases getElem?_set_cases _ _ _ _ _ hu with ⟨_, hx⟩ | ⟨_, hx⟩
    · exact hb2 hx.symm
    · exact n u hx

theorem calls_get (s : St) (ms : LinSt (List Nat) SOp SRes) (hR : Rel s ms) (t : Nat) (a : TS)
    (ha : s.th[t]? = some a) : ms.calls[t]? = some a.cs := by
  rw [hR.calls, List.getElem?_map, ha]; rfl

theorem calls_len (s : St) (ms : LinSt (List Nat) SOp SRes) (hR : Rel s ms) :
    ms.calls.length = s.th.length := by rw [hR.calls]; simp

/-- a thread moves from `a` to `b`, the checker's call entry moves to `b.cs` -/
theorem rel_set (s : St) (ms : LinSt (List Nat) SOp SRes) (t : Nat) (a b : TS)
    (heap : List Node) (top : Option Nat) (st : List Nat) (hR : Rel s ms)
    (_ha : s.th[t]? = some a)
    (hden : Denotes heap top st)
    (hheap : ∀ (o : Nat) (nd : Node), s.heap[o]? = some nd → heap[o]? = some nd)
    (hb1 : ∀ (o : Nat) (nx : Option Nat), b = .popCas o nx → ∃ nd : Node, heap[o]? = some nd ∧ nd.next = nx)
    (hb2 : b ≠ .crashed) :
    Rel { heap := heap, top := top, th := s.th.set t b }
      { st := st, calls := ms.calls.set t b.cs } := by
  obtain ⟨c, d, p, n⟩ := hR
  refine ⟨by simp only [List.map_set, c], hden, ?_, ?_⟩
  · intro u o nx hu
    rcases getElem?_set_cases _ _ _ _ _ hu with ⟨_, hx⟩ | ⟨_, hx⟩
    · exact hb1 o nx hx.symm
    · obtain ⟨nd, h1, h2⟩ := p u o nx hx
      exact ⟨nd, hheap o nd h1, h2⟩
  · intro u hu
    rcases getElem?_set_cases _ _ _ _ _ hu with ⟨_, hx⟩ | ⟨_, hx⟩
    · exact hb2 hx.symm
    · exact n u hx

theorem rel_append (s : St) (ms : LinSt (List Nat) SOp SRes) (b : TS) (hR : Rel s ms)
    (hb1 : ∀ o nx, b ≠ .popCas o nx) (hb2 : b ≠ .crashed) :
    Rel { s with th := s.th ++ [b] } { ms with calls := ms.calls ++ [b.cs] } := by
  obtain ⟨c, d, p, n⟩ := hR
  refine ⟨by simp [c], d, ?_, ?_⟩
  · intro u o nx hu
    rcases getElem?_snoc_cases _ _ _ _ hu with ⟨_, hx⟩ | ⟨_, hx⟩
    · exact p u o nx hx
    · exact absurd hx.symm (hb1 o nx)
  · intro u hu
    rcases getElem?_snoc_cases _ _ _ _ hu with ⟨_, hx⟩ | ⟨_, hx⟩
    · exact n u hx
    · exact hb2 hx.symm


theorem run_one {μ ο : Type} (mon : ObsMonitor ο μ) (ms ms' : μ) (x : ο) (h : mon.step ms x = some ms') :
    mon.run ms [x] = some ms' := by simp [ObsMonitor.run, h]

/-- **one model step is matched by the linearization checker** -/
theorem sim_step (s : St) (e : Ev) (s' : St) (ms : LinSt (List Nat) SOp SRes) (hR : Rel s ms)
    (hs : step s e = some s') :
    ∃ ms', (linMon stackSpec).run ms (label model Obs.toHO linOf s e) = some ms' ∧ Rel s' ms' := by
  have hlen := calls_len s ms hR
  cases e with
  | invPush t v =>
    simp only [step] at hs; split at hs <;> simp at hs; subst hs
    rename_i ht
    refine ⟨_, run_one _ _ _ _ ?_, rel_append s ms (.pushLoad v) hR (by intro o nx h; cases h) (by intro h; cases h)⟩
    simp [linMon, Obs.toH, HEv.toL, hlen, ht, TS.cs]
  | invPop t =>
    simp only [step] at hs; split at hs <;> simp at hs; subst hs
    rename_i ht
    refine ⟨_, run_one _ _ _ _ ?_, rel_append s ms .popLoad hR (by intro o nx h; cases h) (by intro h; cases h)⟩
    simp [linMon, Obs.toH, HEv.toL, hlen, ht, TS.cs]
  | load t =>
    simp only [step] at hs
    split at hs
    · -- Push: load top, newNode.next = top
      rename_i v ha
      simp at hs; subst hs
      refine ⟨ms, ?_, rel_move s ms t _ _ hR ha rfl (by intro o nx h; cases h) (by intro h; cases h)⟩
      simp [label, model, Ev.obs, linOf, ha, ObsMonitor.run]
    · rename_i ha
      split at hs
      · -- Pop loads nil: linearization point of an empty Pop
        rename_i htop
        simp at hs; subst hs
        have hst : ms.st = [] := denotes_none _ _ (htop ▸ hR.den)
        have hc := calls_get s ms hR t _ ha
        refine ⟨{ st := ms.st, calls := ms.calls.set t (TS.popDone 0).cs }, ?_, ?_⟩
        · simp [label, model, Ev.obs, linOf, ha, htop, ObsMonitor.run, linMon, hc, TS.cs, stackSpec, hst]
        · exact rel_set s ms t _ _ s.heap s.top ms.st hR ha hR.den (fun _ _ h => h)
            (by intro o nx h; cases h) (by intro h; cases h)
      · rename_i o htop
        obtain ⟨v, nx, l', hl, hn, hd⟩ := denotes_some _ _ _ (htop ▸ hR.den)
        simp [hn] at hs; subst hs
        refine ⟨ms, ?_, rel_move s ms t _ _ hR ha rfl ?_ (by intro h; cases h)⟩
        · simp [label, model, Ev.obs, linOf, ha, htop, ObsMonitor.run]
        · intro o' nx' h; cases h; exact ⟨_, hn, rfl⟩
    · simp at hs
  | cas t =>
    simp only [step] at hs
    split at hs
    · rename_i v old ha
      split at hs
      · -- successful Push CAS: linearization point
        rename_i htop
        simp at hs; subst hs
        have hc := calls_get s ms hR t _ ha
        refine ⟨{ st := v :: ms.st, calls := ms.calls.set t (TS.pushDone v).cs }, ?_, ?_⟩
        · simp [label, model, Ev.obs, linOf, ha, htop, ObsMonitor.run, linMon, hc, TS.cs, stackSpec]
        · refine rel_set s ms t _ _ _ _ _ hR ha (denotes_push s.heap v old ms.st (htop ▸ hR.den))
            (fun o nd h => getElem?_snoc_left _ _ _ _ h) (by intro o nx h; cases h) (by intro h; cases h)
      · rename_i htop
        simp at hs; subst hs
        refine ⟨ms, ?_, rel_move s ms t _ _ hR ha rfl (by intro o nx h; cases h) (by intro h; cases h)⟩
        simp [label, model, Ev.obs, linOf, ha, htop, ObsMonitor.run]
    · rename_i o nx ha
      split at hs
      · -- successful Pop CAS: linearization point
        rename_i htop
        obtain ⟨nd, hnd, hnx⟩ := hR.popreg t o nx ha
        obtain ⟨v, nx', l', hl, hn, hd⟩ := denotes_some _ _ _ (htop ▸ hR.den)
        rw [hnd] at hn; cases hn
        simp [hnd] at hs; subst hs
        simp only at hnx; subst hnx
        have hc := calls_get s ms hR t _ ha
        refine ⟨{ st := l', calls := ms.calls.set t (TS.popDone v).cs }, ?_, ?_⟩
        · simp [label, model, Ev.obs, linOf, ha, htop, hnd, ObsMonitor.run, linMon, hc, TS.cs, stackSpec, hl]
        · exact rel_set s ms t _ _ _ _ _ hR ha hd (fun _ _ h => h) (by intro o nx h; cases h) (by intro h; cases h)
      · rename_i htop
        simp at hs; subst hs
        refine ⟨ms, ?_, rel_move s ms t _ _ hR ha rfl (by intro o nx h; cases h) (by intro h; cases h)⟩
        simp [label, model, Ev.obs, linOf, ha, htop, ObsMonitor.run]
    · simp at hs
  | retPush t =>
    simp only [step] at hs; split at hs <;> simp at hs; subst hs
    rename_i v ha
    have hc := calls_get s ms hR t _ ha
    refine ⟨{ st := ms.st, calls := ms.calls.set t (TS.retd (.push v) .ack).cs }, run_one _ _ _ _ ?_, ?_⟩
    · simp [linMon, Obs.toH, HEv.toL, hc, TS.cs]
    · exact rel_set s ms t _ _ _ _ _ hR ha hR.den (fun _ _ h => h) (by intro o nx h; cases h) (by intro h; cases h)
  | retPop t r =>
    simp only [step] at hs; split at hs <;> simp at hs
    obtain ⟨hr, rfl⟩ := hs
    rename_i r' ha
    subst hr
    have hc := calls_get s ms hR t _ ha
    refine ⟨{ st := ms.st, calls := ms.calls.set t (TS.retd .pop (.val r)).cs }, run_one _ _ _ _ ?_, ?_⟩
    · simp [linMon, Obs.toH, HEv.toL, hc, TS.cs]
    · exact rel_set s ms t _ _ _ _ _ hR ha hR.den (fun _ _ h => h) (by intro o nx h; cases h) (by intro h; cases h)
  | retPanic t =>
    simp only [step] at hs; split at hs <;> simp at hs
    rename_i ha
    exact absurd ha (hR.nocrash t)

/-! ## Conservation at the level of linearization points -/

/-- values of the linearized Pushes of a decorated trace -/
def pushedOf (d : List (LEv SOp SRes)) : List Nat :=
  d.filterMap fun e => match e with
    | .lin _ (.push v) _ => some v
    | _ => none

/-- results of the linearized Pops of a decorated trace -/
def poppedOf (d : List (LEv SOp SRes)) : List Nat :=
  d.filterMap fun e => match e with
    | .lin _ .pop (.val v) => some v
    | _ => none

theorem linStep_cases (ms ms' : LinSt (List Nat) SOp SRes) (e : LEv SOp SRes)
    (h : (linMon stackSpec).step ms e = some ms') :
    (ms'.st = ms.st ∧ pushedOf [e] = [] ∧ poppedOf [e] = []) ∨
    (∃ t v, e = .lin t (.push v) .ack ∧ ms'.st = v :: ms.st) ∨
    (∃ t, e = .lin t .pop (.val 0) ∧ ms.st = [] ∧ ms'.st = []) ∨
    (∃ t v, e = .lin t .pop (.val v) ∧ ms.st = v :: ms'.st) := by
  cases e with
  | inv t op =>
    simp only [linMon] at h; split at h <;> simp at h; subst h
    exact Or.inl ⟨rfl, rfl, rfl⟩
  | ret t r =>
    simp only [linMon] at h; split at h <;> try simp at h
    obtain ⟨_, rfl⟩ := h
    exact Or.inl ⟨rfl, rfl, rfl⟩
  | lin t op r =>
    simp only [linMon] at h; split at h <;> try simp at h
    obtain ⟨⟨_, hr⟩, rfl⟩ := h
    cases op with
    | push v =>
      simp [stackSpec] at hr; subst hr
      exact Or.inr (Or.inl ⟨t, v, rfl, by simp [stackSpec]⟩)
    | pop =>
      cases hst : ms.st with
      | nil =>
        simp [stackSpec, hst] at hr; subst hr
        exact Or.inr (Or.inr (Or.inl ⟨t, rfl, rfl, by simp [stackSpec]⟩))
      | cons v l =>
        simp [stackSpec, hst] at hr; subst hr
        exact Or.inr (Or.inr (Or.inr ⟨t, v, rfl, by simp [stackSpec]⟩))

theorem pushedOf_cons (e : LEv SOp SRes) (d : List (LEv SOp SRes)) :
    pushedOf (e :: d) = pushedOf [e] ++ pushedOf d := by
  simp only [pushedOf, List.filterMap_cons, List.filterMap_nil]; split <;> simp

theorem poppedOf_cons (e : LEv SOp SRes) (d : List (LEv SOp SRes)) :
    poppedOf (e :: d) = poppedOf [e] ++ poppedOf d := by
  simp only [poppedOf, List.filterMap_cons, List.filterMap_nil]; split <;> simp

/-- for any segment of an accepted decorated trace: pushed + stack before = popped + stack after
(for every non-zero value) -/
theorem stack_conservation (d : List (LEv SOp SRes)) (ms ms' : LinSt (List Nat) SOp SRes)
    (h : (linMon stackSpec).run ms d = some ms') (v : Nat) (hv : 0 < v) :
    (pushedOf d).count v + ms.st.count v = (poppedOf d).count v + ms'.st.count v := by
  induction d generalizing ms with
  | nil => simp [ObsMonitor.run] at h; subst h; simp [pushedOf, poppedOf]
  | cons e d ih =>
    simp only [ObsMonitor.run] at h
    cases hs : (linMon stackSpec).step ms e with
    | none => simp [hs] at h
    | some m1 =>
      simp [hs] at h
      have := ih m1 h
      rw [pushedOf_cons, poppedOf_cons, List.count_append, List.count_append]
      rcases linStep_cases ms m1 e hs with ⟨h1, h2, h3⟩ | ⟨t, w, rfl, h1⟩ | ⟨t, rfl, h1, h2⟩ | ⟨t, w, rfl, h1⟩
      · rw [h2, h3, ← h1]; simp; omega
      · rw [h1] at this
        simp only [pushedOf, poppedOf, List.filterMap_cons, List.filterMap_nil, List.count_cons, List.count_nil] at this ⊢
        omega
      · rw [h1]; rw [h2] at this
        have h0 : ¬ (0 = v) := by omega
        simp [pushedOf, poppedOf, h0] at this ⊢
        omega
      · rw [h1]
        simp only [pushedOf, poppedOf, List.filterMap_cons, List.filterMap_nil, List.count_cons, List.count_nil] at this ⊢
        omega

theorem stack_subset_pushed (d : List (LEv SOp SRes)) (ms ms' : LinSt (List Nat) SOp SRes)
    (h : (linMon stackSpec).run ms d = some ms') (v : Nat) (hv : v ∈ ms'.st) :
    v ∈ ms.st ∨ v ∈ pushedOf d := by
  induction d generalizing ms with
  | nil => simp [ObsMonitor.run] at h; subst h; exact Or.inl hv
  | cons e d ih =>
    simp only [ObsMonitor.run] at h
    cases hs : (linMon stackSpec).step ms e with
    | none => simp [hs] at h
    | some m1 =>
      simp [hs] at h
      rw [pushedOf_cons, List.mem_append]
      rcases ih m1 h with h' | h'
      · rcases linStep_cases ms m1 e hs with ⟨h1, _, _⟩ | ⟨t, w, rfl, h1⟩ | ⟨t, rfl, h1, h2⟩ | ⟨t, w, rfl, h1⟩
        · rw [h1] at h'; exact Or.inl h'
        · rw [h1] at h'; simp at h'
          rcases h' with rfl | h'
          · exact Or.inr (Or.inl (by simp [pushedOf]))
          · exact Or.inl h'
        · rw [h2] at h'; simp at h'
        · rw [h1]; exact Or.inl (by simp [h'])
      · exact Or.inr (Or.inr h')

/-! ## Pointer order: `next` always points to an older node (no cycles), `abs` is exact -/

structure Ord (s : St) : Prop where
  nextlt : ∀ (n : Nat) (nd : Node) (m : Nat), s.heap[n]? = some nd → nd.next = some m → m < n
  toplt : ∀ o : Nat, s.top = some o → o < s.heap.length
  pushreg : ∀ (t v o : Nat), s.th[t]? = some (TS.pushCas v (some o)) → o < s.heap.length
  popreg : ∀ (t o : Nat) (nx : Option Nat), s.th[t]? = some (TS.popCas o nx) →
    ∃ nd : Node, s.heap[o]? = some nd ∧ nd.next = nx

theorem ord_init : Ord ({} : St) :=
  ⟨by intro n nd m h; simp at h, by intro o h; simp at h, by intro t v o h; simp at h,
   by intro t o nx h; simp at h⟩

/-- thread `t` moves to `b`; shared memory unchanged -/
theorem ord_move (s : St) (t : Nat) (b : TS) (ho : Ord s)
    (hb1 : ∀ v o, b = TS.pushCas v (some o) → o < s.heap.length)
    (hb2 : ∀ o nx, b = TS.popCas o nx → ∃ nd : Node, s.heap[o]? = some nd ∧ nd.next = nx) :
    Ord { s with th := s.th.set t b } := by
  refine ⟨ho.nextlt, ho.toplt, ?_, ?_⟩
  · intro u v o hu
    rcases getElem?_set_cases _ _ _ _ _ hu with ⟨_, hx⟩ | ⟨_, hx⟩
    · exact hb1 v o hx.symm
    · exact ho.pushreg u v o hx
  · intro u o nx hu
    rcases getElem?_set_cases _ _ _ _ _ hu with ⟨_, hx⟩ | ⟨_, hx⟩
    · exact hb2 o nx hx.symm
    · exact ho.popreg u o nx hx

theorem ord_append (s : St) (b : TS) (ho : Ord s)
    (hb1 : ∀ v o, b ≠ TS.pushCas v o) (hb2 : ∀ o nx, b ≠ TS.popCas o nx) :
    Ord { s with th := s.th ++ [b] } := by
  refine ⟨ho.nextlt, ho.toplt, ?_, ?_⟩
  · intro u v o hu
    rcases getElem?_snoc_cases _ _ _ _ hu with ⟨_, hx⟩ | ⟨_, hx⟩
    · exact ho.pushreg u v o hx
    · exact absurd hx.symm (hb1 v _)
  · intro u o nx hu
    rcases getElem?_snoc_cases _ _ _ _ hu with ⟨_, hx⟩ | ⟨_, hx⟩
    · exact ho.popreg u o nx hx
    · exact absurd hx.symm (hb2 o nx)

theorem step_ord (s : St) (e : Ev) (s' : St) (ho : Ord s) (hs : step s e = some s') : Ord s' := by
  cases e with
  | invPush t v =>
    simp only [step] at hs; split at hs <;> simp at hs; subst hs
    exact ord_append s _ ho (by intro v o h; cases h) (by intro o nx h; cases h)
  | invPop t =>
    simp only [step] at hs; split at hs <;> simp at hs; subst hs
    exact ord_append s _ ho (by intro v o h; cases h) (by intro o nx h; cases h)
  | load t =>
    simp only [step] at hs
    split at hs
    · simp at hs; subst hs
      exact ord_move s t _ ho (by intro v o h; simp only [TS.pushCas.injEq] at h; exact ho.toplt o h.2) (by intro o nx h; cases h)
    · split at hs
      · simp at hs; subst hs
        exact ord_move s t _ ho (by intro v o h; cases h) (by intro o nx h; cases h)
      · split at hs <;> simp at hs <;> subst hs
        · rename_i nd hnd
          exact ord_move s t _ ho (by intro v o h; cases h) (by intro o nx h; cases h; exact ⟨nd, hnd, rfl⟩)
        · exact ord_move s t _ ho (by intro v o h; cases h) (by intro o nx h; cases h)
    · simp at hs
  | cas t =>
    simp only [step] at hs
    split at hs
    · rename_i v old ha
      split at hs <;> simp at hs <;> subst hs
      · -- publish
        refine ⟨?_, ?_, ?_, ?_⟩
        · intro n nd m hn hm
          rcases getElem?_snoc_cases _ _ _ _ hn with ⟨_, hx⟩ | ⟨hx, hy⟩
          · exact ho.nextlt n nd m hx hm
          · subst hy; simp only at hm; subst hx; subst hm
            exact ho.pushreg t v m ha
        · intro o h; simp at h; subst h; simp
        · intro u w o hu
          simp only [List.length_append, List.length_singleton]
          rcases getElem?_set_cases _ _ _ _ _ hu with ⟨_, hx⟩ | ⟨_, hx⟩
          · cases hx
          · have := ho.pushreg u w o hx; omega
        · intro u o nx hu
          rcases getElem?_set_cases _ _ _ _ _ hu with ⟨_, hx⟩ | ⟨_, hx⟩
          · cases hx
          · obtain ⟨nd, h1, h2⟩ := ho.popreg u o nx hx
            exact ⟨nd, getElem?_snoc_left _ _ _ _ h1, h2⟩
      · exact ord_move s t _ ho (by intro v o h; cases h) (by intro o nx h; cases h)
    · rename_i o nx ha
      split at hs
      · obtain ⟨nd, hnd, hnx⟩ := ho.popreg t o nx ha
        simp [hnd] at hs; subst hs
        have h1 := ord_move s t (.popDone nd.val) ho (by intro v o h; cases h) (by intro o nx h; cases h)
        refine ⟨h1.nextlt, ?_, h1.pushreg, h1.popreg⟩
        intro m hm
        simp only at hm
        have := ho.nextlt o nd m hnd (hnx.trans hm)
        have := lt_of_getElem? hnd
        simp only; omega
      · simp at hs; subst hs
        exact ord_move s t _ ho (by intro v o h; cases h) (by intro o nx h; cases h)
    · simp at hs
  | retPush t =>
    simp only [step] at hs; split at hs <;> simp at hs; subst hs
    exact ord_move s t _ ho (by intro v o h; cases h) (by intro o nx h; cases h)
  | retPop t r =>
    simp only [step] at hs; split at hs <;> simp at hs
    obtain ⟨_, rfl⟩ := hs
    exact ord_move s t _ ho (by intro v o h; cases h) (by intro o nx h; cases h)
  | retPanic t =>
    simp only [step] at hs; split at hs <;> simp at hs; subst hs
    exact ord_move s t _ ho (by intro v o h; cases h) (by intro o nx h; cases h)

theorem reachable_ord (es : List Ev) (s : St) (h : model.run model.init es = some s) : Ord s :=
  model.run_invariant Ord (fun s e s' hi hs => step_ord s e s' hi hs) _ _ es ord_init h

theorem walk_denotes (heap : List Node)
    (hlt : ∀ (n : Nat) (nd : Node) (m : Nat), heap[n]? = some nd → nd.next = some m → m < n)
    (fuel : Nat) (p : Option Nat) (hf : ∀ o, p = some o → o < fuel ∧ o < heap.length) :
    Denotes heap p (walk heap fuel p) := by
  induction fuel generalizing p with
  | zero =>
    cases p with
    | none => simp [walk, Denotes]
    | some o => have := (hf o rfl).1; omega
  | succ f ih =>
    cases p with
    | none => simp [walk, Denotes]
    | some n =>
      have hn := (hf n rfl).2
      have hget : heap[n]? = some heap[n] := List.getElem?_eq_getElem hn
      simp only [walk, hget]
      refine ⟨heap[n].next, hget, ih _ ?_⟩
      intro m hm
      have := hlt n heap[n] m hget hm
      have := (hf n rfl).1
      omega

theorem abs_denotes_of_ord (s : St) (ho : Ord s) : Denotes s.heap s.top (abs s) :=
  walk_denotes s.heap ho.nextlt _ _ (fun o h => ⟨by have := ho.toplt o h; omega, ho.toplt o h⟩)

end UtilModel.Treiber
