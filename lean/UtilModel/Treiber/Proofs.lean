import UtilModel.Treiber.Model
/-!
# AtomicLIFO — invariants and the simulation with the linearization checker
-/
namespace UtilModel.Treiber
open UtilModel UtilModel.Lin

/-! ## `Denotes` -/

theorem denotes_append (heap : List Node) (x : Node) (p : Option Nat) (l : List Nat)
    (h : Denotes heap p l) : Denotes (heap ++ [x]) p l := by
  induction l generalizing p with
  | nil => cases p <;> simp_all [Denotes]
  | cons v l ih =>
    cases p with
    | none => simp [Denotes] at h
    | some n =>
      obtain ⟨nx, hn, hd⟩ := h
      exact ⟨nx, getElem?_snoc_left _ _ _ _ hn, ih nx hd⟩

theorem denotes_fun (heap : List Node) (p : Option Nat) (l l' : List Nat)
    (h : Denotes heap p l) (h' : Denotes heap p l') : l = l' := by
  induction l generalizing p l' with
  | nil =>
    cases p with
    | none => cases l' with
      | nil => rfl
      | cons _ _ => simp [Denotes] at h'
    | some n => simp [Denotes] at h
  | cons v l ih =>
    cases p with
    | none => simp [Denotes] at h
    | some n =>
      cases l' with
      | nil => simp [Denotes] at h'
      | cons v' l' =>
        obtain ⟨nx, hn, hd⟩ := h
        obtain ⟨nx', hn', hd'⟩ := h'
        rw [hn] at hn'
        simp only [Option.some.injEq, Node.mk.injEq] at hn'
        obtain ⟨rfl, rfl⟩ := hn'
        rw [ih nx l' hd hd']

theorem denotes_push (heap : List Node) (v : Nat) (old : Option Nat) (l : List Nat)
    (h : Denotes heap old l) :
    Denotes (heap ++ [⟨v, old⟩]) (some heap.length) (v :: l) :=
  ⟨old, by simp, denotes_append heap _ old l h⟩

theorem denotes_some (heap : List Node) (o : Nat) (l : List Nat) (h : Denotes heap (some o) l) :
    ∃ v nx l', l = v :: l' ∧ heap[o]? = some ⟨v, nx⟩ ∧ Denotes heap nx l' := by
  cases l with
  | nil => simp [Denotes] at h
  | cons v l' => obtain ⟨nx, hn, hd⟩ := h; exact ⟨v, nx, l', rfl, hn, hd⟩

theorem denotes_none (heap : List Node) (l : List Nat) (h : Denotes heap none l) : l = [] := by
  cases l with
  | nil => rfl
  | cons _ _ => simp [Denotes] at h

/-! ## Correspondence thread state ↔ call state of the checker -/

def TS.cs : TS → CallSt SOp SRes
  | .pushLoad v | .pushCas v _ => .pending (.push v)
  | .pushDone v => .linearized (.push v) .ack
  | .popLoad | .popCas _ _ => .pending .pop
  | .popDone r => .linearized .pop (.val r)
  | .crashed => .linearized .pop .panic
  | .retd op r => .returned op r

/-- the simulation relation (it carries the inductive invariant of the model) -/
structure Rel (s : St) (ms : LinSt (List Nat) SOp SRes) : Prop where
  calls : ms.calls = s.th.map TS.cs
  den : Denotes s.heap s.top ms.st
  /-- the `next` a Pop read is the `next` of the node it loaded (published nodes are immutable) -/
  popreg : ∀ (t o : Nat) (nx : Option Nat), s.th[t]? = some (TS.popCas o nx) →
    ∃ nd : Node, s.heap[o]? = some nd ∧ nd.next = nx
  nocrash : ∀ t : Nat, s.th[t]? ≠ some TS.crashed

theorem rel_init : Rel ({} : St) (linMon stackSpec).init :=
  ⟨rfl, trivial, by intro t o nx h; simp at h, by intro t h; simp at h⟩

/-- a thread moves from `a` to `b` without touching shared memory, checker state unchanged -/
theorem rel_move (s : St) (ms : LinSt (List Nat) SOp SRes) (t : Nat) (a b : TS) (hR : Rel s ms)
    (ha : s.th[t]? = some a) (hcs : b.cs = a.cs)
    (hb1 : ∀ o nx, b = .popCas o nx → ∃ nd, s.heap[o]? = some nd ∧ nd.next = nx)
    (hb2 : b ≠ .crashed) : Rel { s with th := s.th.set t b } ms := by
  obtain ⟨c, d, p, n⟩ := hR
  refine ⟨?_, d, ?_, ?_⟩
  · rw [c]
    apply List.ext_getElem?
    intro i
    simp only [List.getElem?_map, List.getElem?_set]
    split
    · rename_i h; subst h; rw [ha]; simp [lt_of_getElem? ha, hcs]
    · rfl
  · intro u o nx hu
    rcases getElem?_set_cases _ _ _ _ _ hu with ⟨_, hx⟩ | ⟨_, hx⟩
    · exact hb1 o nx hx.symm
    · exact p u o nx hx
  · intro u hu
    rcases getElem?_set_cases _ _ _ _ _ hu with ⟨_, hx⟩ | ⟨_, hx⟩
    · exact hb2 hx.symm
    · exact n u hx

theorem calls_get (s : St) (ms : LinSt (List Nat) SOp SRes) (hR : Rel s ms) (t : Nat) (a : TS)
    (ha : s.th[t]? = some a) : ms.calls[t]? = some a.cs := by
  rw [hR.calls, List.getElem?_map, ha]; rfl

theorem calls_len (s : St) (ms : LinSt (List Nat) SOp SRes) (hR : Rel s ms) :
    ms.calls.length = s.th.length := by rw [hR.calls]; simp

/-- a thread moves from `a` to `b`, the checker's call entry moves to `b.cs` -/
theorem rel_set (s : St) (ms : LinSt (List Nat) SOp SRes) (t : Nat) (a b : TS)
    (heap : List Node) (top : Option Nat) (st : List Nat) (hR : Rel s ms)
    (_ha : s.th[t]? = some a)
    (hden : Denotes heap top st)
    (hheap : ∀ (o : Nat) (nd : Node), s.heap[o]? = some nd → heap[o]? = some nd)
    (hb1 : ∀ (o : Nat) (nx : Option Nat), b = .popCas o nx → ∃ nd : Node, heap[o]? = some nd ∧ nd.next = nx)
    (hb2 : b ≠ .crashed) :
    Rel { heap := heap, top := top, th := s.th.set t b }
      { st := st, calls := ms.calls.set t b.cs } := by
  obtain ⟨c, d, p, n⟩ := hR
  refine ⟨by simp only [List.map_set, c], hden, ?_, ?_⟩
  · intro u o nx hu
    rcases getElem?_set_cases _ _ _ _ _ hu with ⟨_, hx⟩ | ⟨_, hx⟩
    · exact hb1 o nx hx.symm
    · obtain ⟨nd, h1, h2⟩ := p u o nx hx
      exact ⟨nd, hheap o nd h1, h2⟩
  · intro u hu
    rcases getElem?_set_cases _ _ _ _ _ hu with ⟨_, hx⟩ | ⟨_, hx⟩
    · exact hb2 hx.symm
    · exact n u hx

theorem rel_append (s : St) (ms : LinSt (List Nat) SOp SRes) (b : TS) (hR : Rel s ms)
    (hb1 : ∀ o nx, b ≠ .popCas o nx) (hb2 : b ≠ .crashed) :
    Rel { s with th := s.th ++ [b] } { ms with calls := ms.calls ++ [b.cs] } := by
  obtain ⟨c, d, p, n⟩ := hR
  refine ⟨by simp [c], d, ?_, ?_⟩
  · intro u o nx hu
    rcases getElem?_snoc_cases _ _ _ _ hu with ⟨_, hx⟩ | ⟨_, hx⟩
    · exact p u o nx hx
    · exact absurd hx.symm (hb1 o nx)
  · intro u hu
    rcases getElem?_snoc_cases _ _ _ _ hu with ⟨_, hx⟩ | ⟨_, hx⟩
    · exact n u hx
    · exact hb2 hx.symm


theorem run_one {μ ο : Type} (mon : ObsMonitor ο μ) (ms ms' : μ) (x : ο) (h : mon.step ms x = some ms') :
    mon.run ms [x] = some ms' := by simp [ObsMonitor.run, h]

/-- **one model step is matched by the linearization checker** -/
theorem sim_step (s : St) (e : Ev) (s' : St) (ms : LinSt (List Nat) SOp SRes) (hR : Rel s ms)
    (hs : step s e = some s') :
    ∃ ms', (linMon stackSpec).run ms (label model Obs.toH linOf s e) = some ms' ∧ Rel s' ms' := by
  have hlen := calls_len s ms hR
  cases e with
  | invPush t v =>
    simp only [step] at hs; split at hs <;> simp at hs; subst hs
    rename_i ht
    refine ⟨_, run_one _ _ _ _ ?_, rel_append s ms (.pushLoad v) hR (by intro o nx h; cases h) (by intro h; cases h)⟩
    simp [linMon, Obs.toH, HEv.toL, hlen, ht, TS.cs]
  | invPop t =>
    simp only [step] at hs; split at hs <;> simp at hs; subst hs
    rename_i ht
    refine ⟨_, run_one _ _ _ _ ?_, rel_append s ms .popLoad hR (by intro o nx h; cases h) (by intro h; cases h)⟩
    simp [linMon, Obs.toH, HEv.toL, hlen, ht, TS.cs]
  | load t =>
    simp only [step] at hs
    split at hs
    · -- Push: load top, newNode.next = top
      rename_i v ha
      simp at hs; subst hs
      refine ⟨ms, ?_, rel_move s ms t _ _ hR ha rfl (by intro o nx h; cases h) (by intro h; cases h)⟩
      simp [label, model, Ev.obs, linOf, ha, ObsMonitor.run]
    · rename_i ha
      split at hs
      · -- Pop loads nil: linearization point of an empty Pop
        rename_i htop
        simp at hs; subst hs
        have hst : ms.st = [] := denotes_none _ _ (htop ▸ hR.den)
        have hc := calls_get s ms hR t _ ha
        refine ⟨{ st := ms.st, calls := ms.calls.set t (TS.popDone 0).cs }, ?_, ?_⟩
        · simp [label, model, Ev.obs, linOf, ha, htop, ObsMonitor.run, linMon, hc, TS.cs, stackSpec, hst]
        · exact rel_set s ms t _ _ s.heap s.top ms.st hR ha hR.den (fun _ _ h => h)
            (by intro o nx h; cases h) (by intro h; cases h)
      · rename_i o htop
        obtain ⟨v, nx, l', hl, hn, hd⟩ := denotes_some _ _ _ (htop ▸ hR.den)
        simp [hn] at hs; subst hs
        refine ⟨ms, ?_, rel_move s ms t _ _ hR ha rfl ?_ (by intro h; cases h)⟩
        · simp [label, model, Ev.obs, linOf, ha, htop, ObsMonitor.run]
        · intro o' nx' h; cases h; exact ⟨_, hn, rfl⟩
    · simp at hs
  | cas t =>
    simp only [step] at hs
    split at hs
    · rename_i v old ha
      split at hs
      · -- successful Push CAS: linearization point
        rename_i htop
        simp at hs; subst hs
        have hc := calls_get s ms hR t _ ha
        refine ⟨{ st := v :: ms.st, calls := ms.calls.set t (TS.pushDone v).cs }, ?_, ?_⟩
        · simp [label, model, Ev.obs, linOf, ha, htop, ObsMonitor.run, linMon, hc, TS.cs, stackSpec]
        · refine rel_set s ms t _ _ _ _ _ hR ha (denotes_push s.heap v old ms.st (htop ▸ hR.den))
            (fun o nd h => getElem?_snoc_left _ _ _ _ h) (by intro o nx h; cases h) (by intro h; cases h)
      · rename_i htop
        simp at hs; subst hs
        refine ⟨ms, ?_, rel_move s ms t _ _ hR ha rfl (by intro o nx h; cases h) (by intro h; cases h)⟩
        simp [label, model, Ev.obs, linOf, ha, htop, ObsMonitor.run]
    · rename_i o nx ha
      split at hs
      · -- successful Pop CAS: linearization point
        rename_i htop
        obtain ⟨nd, hnd, hnx⟩ := hR.popreg t o nx ha
        obtain ⟨v, nx', l', hl, hn, hd⟩ := denotes_some _ _ _ (htop ▸ hR.den)
        rw [hnd] at hn; cases hn
        simp [hnd] at hs; subst hs
        simp only at hnx; subst hnx
        have hc := calls_get s ms hR t _ ha
        refine ⟨{ st := l', calls := ms.calls.set t (TS.popDone v).cs }, ?_, ?_⟩
        · simp [label, model, Ev.obs, linOf, ha, htop, hnd, ObsMonitor.run, linMon, hc, TS.cs, stackSpec, hl]
        · exact rel_set s ms t _ _ _ _ _ hR ha hd (fun _ _ h => h) (by intro o nx h; cases h) (by intro h; cases h)
      · rename_i htop
        simp at hs; subst hs
        refine ⟨ms, ?_, rel_move s ms t _ _ hR ha rfl (by intro o nx h; cases h) (by intro h; cases h)⟩
        simp [label, model, Ev.obs, linOf, ha, htop, ObsMonitor.run]
    · simp at hs
  | retPush t =>
    simp only [step] at hs; split at hs <;> simp at hs; subst hs
    rename_i v ha
    have hc := calls_get s ms hR t _ ha
    refine ⟨{ st := ms.st, calls := ms.calls.set t (TS.retd (.push v) .ack).cs }, run_one _ _ _ _ ?_, ?_⟩
    · simp [linMon, Obs.toH, HEv.toL, hc, TS.cs]
    · exact rel_set s ms t _ _ _ _ _ hR ha hR.den (fun _ _ h => h) (by intro o nx h; cases h) (by intro h; cases h)
  | retPop t r =>
    simp only [step] at hs; split at hs <;> simp at hs
    obtain ⟨hr, rfl⟩ := hs
    rename_i r' ha
    subst hr
    have hc := calls_get s ms hR t _ ha
    refine ⟨{ st := ms.st, calls := ms.calls.set t (TS.retd .pop (.val r)).cs }, run_one _ _ _ _ ?_, ?_⟩
    · simp [linMon, Obs.toH, HEv.toL, hc, TS.cs]
    · exact rel_set s ms t _ _ _ _ _ hR ha hR.den (fun _ _ h => h) (by intro o nx h; cases h) (by intro h; cases h)
  | retPanic t =>
    simp only [step] at hs; split at hs <;> simp at hs
    rename_i ha
    exact absurd ha (hR.nocrash t)

end UtilModel.Treiber
