import UtilModel.Core.Driver
import UtilModel.Core.DriverH
import UtilModel.Treiber.Model
import UtilModel.Treiber.Monitors
import UtilModel.LinkedList.Model
import UtilModel.LinkedList.Monitors
/-! Development driver for the C12 package (both components):
`lake env lean --run UtilModel/Treiber/TestDriver.lean lifo < hist` -/
open UtilModel

def main (args : List String) : IO UInt32 :=
  driverMain [
    mkEntryH "lifo" Treiber.model Treiber.Obs.parse [MonEntry.ofMonitor "C12" Treiber.monC12] (cap := 60000),
    mkEntryH "linkedlist" LinkedList.model LinkedList.parseObs [MonEntry.ofMonitor "C12" LinkedList.monC12] (cap := 60000)
  ] args
