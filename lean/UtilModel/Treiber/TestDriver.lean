import UtilModel.Core.Driver
import UtilModel.Treiber.Model
import UtilModel.Treiber.Monitors
/-! Development driver for this component only: `lake env lean --run UtilModel/Treiber/TestDriver.lean lifo < hist` -/
open UtilModel

def main (args : List String) : IO UInt32 :=
  driverMain [
    mkEntry "lifo" Treiber.model Treiber.Obs.parse [MonEntry.ofMonitor "C12" Treiber.monTriv]
  ] args
