import UtilModel.Treiber.Proofs
/-!
# AtomicLIFO — completeness of the model and of the driver's reduced search

`reduced_complete`: every linearizable LIFO history is the observable trace of a model run that uses
only the internal events in `cands` (a load is immediately followed by the CAS of the same call,
which succeeds). Consequences: (1) the model accepts exactly the linearizable histories; (2) the
reduction of the candidate list cannot cause a false alarm.
-/
namespace UtilModel.Treiber
open UtilModel UtilModel.Lin

/-- a run all of whose internal events are among the candidates the driver tries -/
def ViaCands : St → List Ev → Prop
  | _, [] => True
  | s, e :: es => ∃ s', step s e = some s' ∧ (e.obs = none → e ∈ cands s) ∧ ViaCands s' es

theorem viaCands_append (s s1 : St) (es fs : List Ev) (hr : model.run s es = some s1)
    (h1 : ViaCands s es) (h2 : ViaCands s1 fs) : ViaCands s (es ++ fs) := by
  induction es generalizing s with
  | nil => simp [OLTS.run] at hr; subst hr; exact h2
  | cons e es ih =>
    obtain ⟨s', hs, hc, hv⟩ := h1
    simp only [OLTS.run, model, hs, Option.bind_some] at hr
    exact ⟨s', hs, hc, ih s' hr hv⟩

/-- no call is between its load and its CAS, none has crashed -/
def TS.clean : TS → Bool
  | .pushCas _ _ | .popCas _ _ | .crashed => false
  | _ => true

def Clean (s : St) : Prop := ∀ (t : Nat) (ts : TS), s.th[t]? = some ts → ts.clean = true

theorem mem_candsBy (f : Nat → TS → List Ev) (s : St) (t : Nat) (ts : TS) (e : Ev)
    (ht : s.th[t]? = some ts) (he : e ∈ f t ts) : e ∈ candsBy f s := by
  simp only [candsBy, List.mem_flatMap, List.mem_range]
  exact ⟨t, lt_of_getElem? ht, by simp [ht, he]⟩

theorem casCands_nil_of_clean (s : St) (hc : Clean s) : candsBy TS.casCand s = [] := by
  simp only [candsBy, List.flatMap_eq_nil_iff, List.mem_range]
  intro t ht
  have hget : s.th[t]? = some s.th[t] := List.getElem?_eq_getElem ht
  have := hc t _ hget
  rw [hget]
  cases h : s.th[t] <;> simp_all [TS.clean, TS.casCand]

theorem load_mem_cands (s : St) (hc : Clean s) (t : Nat) (ts : TS) (ht : s.th[t]? = some ts)
    (hl : Ev.load t ∈ TS.loadCand t ts) : Ev.load t ∈ cands s := by
  simp only [cands, casCands_nil_of_clean s hc]
  exact mem_candsBy _ s t ts _ ht hl

theorem cas_mem_cands (s : St) (t : Nat) (ts : TS) (ht : s.th[t]? = some ts)
    (hl : Ev.cas t ∈ TS.casCand t ts) : Ev.cas t ∈ cands s := by
  have hm := mem_candsBy TS.casCand s t ts _ ht hl
  unfold cands
  split
  · rename_i h; rw [h] at hm; simp at hm
  · exact hm

/-- relation between a clean model state and the checker state -/
structure Q (s : St) (ms : LinSt (List Nat) SOp SRes) : Prop where
  calls : ms.calls = s.th.map TS.cs
  den : Denotes s.heap s.top ms.st
  clean : Clean s

theorem clean_set (s : St) (t : Nat) (b : TS) (hc : Clean s) (hb : b.clean = true)
    (heap : List Node) (top : Option Nat) :
    Clean { heap := heap, top := top, th := s.th.set t b } := by
  intro u ts hu
  rcases getElem?_set_cases _ _ _ _ _ hu with ⟨_, hx⟩ | ⟨_, hx⟩
  · subst hx; exact hb
  · exact hc u ts hx

theorem clean_append (s : St) (b : TS) (hc : Clean s) (hb : b.clean = true) :
    Clean { s with th := s.th ++ [b] } := by
  intro u ts hu
  rcases getElem?_snoc_cases _ _ _ _ hu with ⟨_, hx⟩ | ⟨_, hx⟩
  · exact hc u ts hx
  · subst hx; exact hb

theorem th_of_calls (s : St) (ms : LinSt (List Nat) SOp SRes) (hq : Q s ms) (t : Nat)
    (c : CallSt SOp SRes) (hc : ms.calls[t]? = some c) :
    ∃ ts, s.th[t]? = some ts ∧ ts.cs = c ∧ ts.clean = true := by
  rw [hq.calls, List.getElem?_map] at hc
  cases h : s.th[t]? with
  | none => simp [h] at hc
  | some ts => simp [h] at hc; exact ⟨ts, rfl, hc, hq.clean t ts h⟩

theorem denotes_nil (heap : List Node) (p : Option Nat) (h : Denotes heap p []) : p = none := by
  cases p with
  | none => rfl
  | some _ => simp [Denotes] at h

theorem denotes_cons (heap : List Node) (p : Option Nat) (v : Nat) (l : List Nat)
    (h : Denotes heap p (v :: l)) :
    ∃ o nx, p = some o ∧ heap[o]? = some ⟨v, nx⟩ ∧ Denotes heap nx l := by
  cases p with
  | none => simp [Denotes] at h
  | some o => obtain ⟨nx, h1, h2⟩ := h; exact ⟨o, nx, rfl, h1, h2⟩

/-- one checker step is realised by a short reduced segment of the model -/
theorem seg_step (s : St) (ms m1 : LinSt (List Nat) SOp SRes) (e : LEv SOp SRes) (hq : Q s ms)
    (hs : (linMon stackSpec).step ms e = some m1) :
    ∃ seg s1, model.run s seg = some s1 ∧
      (seg.filterMap model.obs).map Obs.toH = (LEv.toH e).toList ∧ ViaCands s seg ∧ Q s1 m1 := by
  have hlen : ms.calls.length = s.th.length := by rw [hq.calls]; simp
  cases e with
  | inv t op =>
    simp only [linMon] at hs; split at hs <;> simp at hs; subst hs
    rename_i ht
    rw [hlen] at ht
    cases op with
    | push v =>
      refine ⟨[.invPush t v], _, by simp [OLTS.run, model, step, ht]; rfl, by simp [model, Ev.obs, Obs.toH, LEv.toH],
        ⟨_, by simp [step, ht]; rfl, by simp [Ev.obs], trivial⟩, ?_⟩
      exact ⟨by simp [hq.calls, TS.cs], hq.den, clean_append s _ hq.clean rfl⟩
    | pop =>
      refine ⟨[.invPop t], _, by simp [OLTS.run, model, step, ht]; rfl, by simp [model, Ev.obs, Obs.toH, LEv.toH],
        ⟨_, by simp [step, ht]; rfl, by simp [Ev.obs], trivial⟩, ?_⟩
      exact ⟨by simp [hq.calls, TS.cs], hq.den, clean_append s _ hq.clean rfl⟩
  | ret t r =>
    simp only [linMon] at hs; split at hs <;> try simp at hs
    rename_i op r' hc
    obtain ⟨hr, rfl⟩ := hs
    subst hr
    obtain ⟨ts, hts, hcs, hcl⟩ := th_of_calls s ms hq t _ hc
    cases ts <;> simp [TS.cs, TS.clean] at hcs hcl
    · -- pushDone
      rename_i v
      obtain ⟨rfl, rfl⟩ := hcs
      refine ⟨[.retPush t], { s with th := s.th.set t (.retd (.push v) .ack) },
        by simp [OLTS.run, model, step, hts], by simp [model, Ev.obs, Obs.toH, LEv.toH],
        ⟨_, by simp [step, hts]; rfl, by simp [Ev.obs], trivial⟩, ?_⟩
      exact ⟨by simp [hq.calls, List.map_set, TS.cs], hq.den, clean_set s t _ hq.clean rfl _ _⟩
    · -- popDone
      rename_i x
      obtain ⟨rfl, rfl⟩ := hcs
      refine ⟨[.retPop t x], { s with th := s.th.set t (.retd .pop (.val x)) },
        by simp [OLTS.run, model, step, hts], by simp [model, Ev.obs, Obs.toH, LEv.toH],
        ⟨_, by simp [step, hts]; rfl, by simp [Ev.obs], trivial⟩, ?_⟩
      exact ⟨by simp [hq.calls, List.map_set, TS.cs], hq.den, clean_set s t _ hq.clean rfl _ _⟩
  | lin t op r =>
    simp only [linMon] at hs; split at hs <;> try simp at hs
    rename_i op' hc
    obtain ⟨⟨rfl, hr⟩, rfl⟩ := hs
    obtain ⟨ts, hts, hcs, hcl⟩ := th_of_calls s ms hq t _ hc
    cases ts <;> simp [TS.cs, TS.clean] at hcs hcl
    · -- pushLoad v: load, then the CAS succeeds
      rename_i v
      subst hcs
      simp [stackSpec] at hr; subst hr
      have hlt := lt_of_getElem? hts
      let sa : St := { s with th := s.th.set t (.pushCas v s.top) }
      have hsa : sa.th[t]? = some (.pushCas v s.top) := by simp [sa, hlt]
      have h1 : step s (.load t) = some sa := by simp [step, hts, sa]
      let s1 : St := { heap := s.heap ++ [⟨v, s.top⟩], top := some s.heap.length, th := s.th.set t (.pushDone v) }
      have h2 : step sa (.cas t) = some s1 := by simp [step, hsa, sa, s1, List.set_set]
      refine ⟨[.load t, .cas t], s1, by simp [OLTS.run, model, h1, h2],
        by simp [model, Ev.obs, LEv.toH],
        ⟨sa, h1, fun _ => load_mem_cands s hq.clean t _ hts (by simp [TS.loadCand]),
          s1, h2, fun _ => cas_mem_cands sa t _ hsa (by simp [TS.casCand]), trivial⟩, ?_⟩
      exact ⟨by simp [s1, hq.calls, List.map_set, TS.cs],
        by simpa [s1, stackSpec] using denotes_push s.heap v s.top ms.st hq.den,
        clean_set s t _ hq.clean rfl _ _⟩
    · -- popLoad
      subst hcs
      cases hst : ms.st with
      | nil =>
        simp [stackSpec, hst] at hr; subst hr
        have htop : s.top = none := denotes_nil _ _ (hst ▸ hq.den)
        let s1 : St := { s with th := s.th.set t (.popDone 0) }
        have h1 : step s (.load t) = some s1 := by simp [step, hts, htop, s1]
        refine ⟨[.load t], s1, by simp [OLTS.run, model, h1], by simp [model, Ev.obs, LEv.toH],
          ⟨s1, h1, fun _ => load_mem_cands s hq.clean t _ hts (by simp [TS.loadCand]), trivial⟩, ?_⟩
        exact ⟨by simp [s1, hq.calls, List.map_set, TS.cs],
          by simpa [s1, stackSpec, hst] using (hst ▸ hq.den), clean_set s t _ hq.clean rfl _ _⟩
      | cons v l =>
        simp [stackSpec, hst] at hr; subst hr
        obtain ⟨o, nx, htop, hn, hd⟩ := denotes_cons _ _ _ _ (hst ▸ hq.den)
        have hlt := lt_of_getElem? hts
        let sa : St := { s with th := s.th.set t (.popCas o nx) }
        have hsa : sa.th[t]? = some (.popCas o nx) := by simp [sa, hlt]
        have h1 : step s (.load t) = some sa := by simp [step, hts, htop, hn, sa]
        let s1 : St := { heap := s.heap, top := nx, th := s.th.set t (.popDone v) }
        have h2 : step sa (.cas t) = some s1 := by simp [step, hsa, sa, s1, htop, hn, List.set_set]
        refine ⟨[.load t, .cas t], s1, by simp [OLTS.run, model, h1, h2],
          by simp [model, Ev.obs, LEv.toH],
          ⟨sa, h1, fun _ => load_mem_cands s hq.clean t _ hts (by simp [TS.loadCand]),
            s1, h2, fun _ => cas_mem_cands sa t _ hsa (by simp [TS.casCand]), trivial⟩, ?_⟩
        exact ⟨by simp [s1, hq.calls, List.map_set, TS.cs],
          by simpa [s1, stackSpec, hst] using hd, clean_set s t _ hq.clean rfl _ _⟩

theorem reduced_from (d : List (LEv SOp SRes)) (s : St) (ms ms' : LinSt (List Nat) SOp SRes)
    (hq : Q s ms) (hrun : (linMon stackSpec).run ms d = some ms') :
    ∃ es s', model.run s es = some s' ∧
      (es.filterMap model.obs).map Obs.toH = d.filterMap LEv.toH ∧ ViaCands s es ∧ Q s' ms' := by
  induction d generalizing s ms with
  | nil =>
    simp [ObsMonitor.run] at hrun; subst hrun
    exact ⟨[], s, rfl, rfl, trivial, hq⟩
  | cons e d ih =>
    simp only [ObsMonitor.run] at hrun
    cases hs : (linMon stackSpec).step ms e with
    | none => simp [hs] at hrun
    | some m1 =>
      simp [hs] at hrun
      obtain ⟨seg, s1, hr1, hp1, hv1, hq1⟩ := seg_step s ms m1 e hq hs
      obtain ⟨es, s', hr2, hp2, hv2, hq2⟩ := ih s1 m1 hq1 hrun
      refine ⟨seg ++ es, s', ?_, ?_, viaCands_append s s1 seg es hr1 hv1 hv2, hq2⟩
      · rw [OLTS.run_append, hr1]; exact hr2
      · rw [List.filterMap_append, List.map_append, hp1, hp2, List.filterMap_cons]
        cases LEv.toH e <;> simp

theorem toH_injective : Function.Injective Obs.toH := by
  intro a b h
  cases a <;> cases b <;> simp [Obs.toH] at h <;> simp [h]

theorem reduced_complete (h : List Obs) (hl : Linearizable stackSpec (h.map Obs.toH)) :
    ∃ es s, model.run model.init es = some s ∧ es.filterMap model.obs = h ∧
      ViaCands model.init es := by
  obtain ⟨d, hd, hacc⟩ := hl
  simp only [ObsMonitor.accepts, Option.isSome_iff_exists] at hacc
  obtain ⟨ms', hrun⟩ := hacc
  have hq0 : Q model.init (linMon stackSpec).init :=
    ⟨rfl, trivial, by intro t ts ht; simp [model] at ht⟩
  obtain ⟨es, s', hr, hp, hv, _⟩ := reduced_from d model.init _ ms' hq0 hrun
  refine ⟨es, s', hr, ?_, hv⟩
  rw [hd] at hp
  exact (List.map_inj_right (fun x y h => toH_injective h)).mp hp

theorem allCands_complete' (s s' : St) (e : Ev) (hs : step s e = some s') (ho : e.obs = none) :
    e ∈ allCands s := by
  cases e <;> simp [Ev.obs] at ho
  · rename_i t
    simp only [step] at hs
    simp only [allCands, List.mem_append]
    split at hs
    · rename_i v ha; exact Or.inr (mem_candsBy _ s t _ _ ha (by simp [TS.loadCand]))
    · rename_i ha; exact Or.inr (mem_candsBy _ s t _ _ ha (by simp [TS.loadCand]))
    · simp at hs
  · rename_i t
    simp only [step] at hs
    simp only [allCands, List.mem_append]
    split at hs
    · rename_i v old ha; exact Or.inl (mem_candsBy _ s t _ _ ha (by simp [TS.casCand]))
    · rename_i o nx ha; exact Or.inl (mem_candsBy _ s t _ _ ha (by simp [TS.casCand]))
    · simp at hs

end UtilModel.Treiber
