import UtilModel.Core.LTS
import UtilModel.Core.Monitor
import UtilModel.Core.Count
/-!
# Linearizability by linearization points (shared by the `lifo` and `linkedlist` components, C12)

A *history* is a list of `inv t op` / `ret t r` events (`HEv`). A *decorated* history (`LEv`)
additionally carries markers `lin t op r`: "call `t` takes effect here, as operation `op` with result
`r`". The executable monitor `linMon spec` accepts a decorated history iff

* call ids are allocated in invocation order,
* every `lin t op r` lies after `inv t op`, before any `ret t …`, occurs at most once per call, and
  `r` is the result of the sequential specification `spec` applied, in marker order, to the abstract
  state,
* every `ret t r` lies after the marker of `t` and reports that marker's result.

`Linearizable spec h` = "markers can be inserted into `h` so that `linMon` accepts". This is the
linearization-point characterisation of linearizability; `linearizable_textbook` below derives the
classical formulation from it (a legal sequential history containing every completed call with its
result, at most once, only calls that were invoked, respecting the real-time order of `h`).

A component model provides `linOf : σ → ε → Option (t, op, r)` (which internal events are
linearization points) and a simulation relation to the monitor state; `linearizable_of_sim` then
gives `Linearizable` for every observable trace of the model.
-/
namespace UtilModel.Lin

/-- a sequential specification: abstract state, and the effect + result of each operation -/
structure SeqSpec (AS Op Res : Type) where
  init : AS
  apply : AS → Op → AS × Res

/-- observable history events -/
inductive HEv (Op Res : Type) where
  | inv (t : Nat) (op : Op)
  | ret (t : Nat) (r : Res)
deriving DecidableEq, Repr, Hashable

/-- history events plus linearization markers -/
inductive LEv (Op Res : Type) where
  | inv (t : Nat) (op : Op)
  | lin (t : Nat) (op : Op) (r : Res)
  | ret (t : Nat) (r : Res)
deriving DecidableEq, Repr, Hashable

variable {AS Op Res : Type}

def HEv.toL : HEv Op Res → LEv Op Res
  | .inv t op => .inv t op
  | .ret t r => .ret t r

def LEv.toH : LEv Op Res → Option (HEv Op Res)
  | .inv t op => some (.inv t op)
  | .ret t r => some (.ret t r)
  | .lin _ _ _ => none

@[simp] theorem toL_toH (h : HEv Op Res) : h.toL.toH = some h := by cases h <;> rfl

/-- the marker of a decorated event, if it is one -/
def LEv.linOf : LEv Op Res → Option (Nat × Op × Res)
  | .lin t op r => some (t, op, r)
  | _ => none

inductive CallSt (Op Res : Type) where
  | pending (op : Op)
  | linearized (op : Op) (r : Res)
  | returned (op : Op) (r : Res)
deriving DecidableEq, Repr, Hashable

structure LinSt (AS Op Res : Type) where
  st : AS
  calls : List (CallSt Op Res)

/-- the linearization-point checker -/
def linMon [DecidableEq Op] [DecidableEq Res] (spec : SeqSpec AS Op Res) :
    ObsMonitor (LEv Op Res) (LinSt AS Op Res) where
  init := ⟨spec.init, []⟩
  step := fun ms e =>
    match e with
    | .inv t op => if t = ms.calls.length then some { ms with calls := ms.calls ++ [.pending op] } else none
    | .lin t op r =>
      match ms.calls[t]? with
      | some (.pending op') =>
        if op = op' ∧ (spec.apply ms.st op).2 = r then
          some { st := (spec.apply ms.st op).1, calls := ms.calls.set t (.linearized op r) }
        else none
      | _ => none
    | .ret t r =>
      match ms.calls[t]? with
      | some (.linearized op r') => if r = r' then some { ms with calls := ms.calls.set t (.returned op r) } else none
      | _ => none

/-- **Definition of linearizability** used for C12: linearization points can be inserted. -/
def Linearizable [DecidableEq Op] [DecidableEq Res] (spec : SeqSpec AS Op Res)
    (h : List (HEv Op Res)) : Prop :=
  ∃ d : List (LEv Op Res), d.filterMap LEv.toH = h ∧ (linMon spec).accepts d = true

/-! ## From a model with linearization points to `Linearizable` -/

section Sim
variable {σ ε ο : Type} [DecidableEq Op] [DecidableEq Res]

/-- the decorated label of one model step: the history event of the observable (if it is one: `toH`
maps environment observables to `none`), or a marker, or nothing -/
def label (m : OLTS σ ε ο) (toH : ο → Option (HEv Op Res)) (linOf : σ → ε → Option (Nat × Op × Res))
    (s : σ) (e : ε) : List (LEv Op Res) :=
  match m.obs e with
  | some o => ((toH o).map HEv.toL).toList
  | none =>
    match linOf s e with
    | some (t, op, r) => [.lin t op r]
    | none => []

/-- the decorated trace of a run: observables and, at each linearizing internal event, a marker -/
def decorate (m : OLTS σ ε ο) (toH : ο → Option (HEv Op Res)) (linOf : σ → ε → Option (Nat × Op × Res)) :
    σ → List ε → List (LEv Op Res)
  | _, [] => []
  | s, e :: es =>
    match m.step s e with
    | none => []
    | some s' => label m toH linOf s e ++ decorate m toH linOf s' es

omit [DecidableEq Op] [DecidableEq Res] in
theorem label_proj (m : OLTS σ ε ο) (toH : ο → Option (HEv Op Res))
    (linOf : σ → ε → Option (Nat × Op × Res)) (s : σ) (e : ε) :
    (label m toH linOf s e).filterMap LEv.toH = ((m.obs e).bind toH).toList := by
  unfold label
  cases m.obs e with
  | some o => simp only [Option.bind_some]; cases h : toH o <;> simp
  | none =>
    cases linOf s e with
    | none => simp
    | some x => obtain ⟨t, op, r⟩ := x; simp [LEv.toH]

omit [DecidableEq Op] [DecidableEq Res] in
/-- erasing the markers of the decorated trace gives back the observable trace -/
theorem decorate_proj (m : OLTS σ ε ο) (toH : ο → Option (HEv Op Res))
    (linOf : σ → ε → Option (Nat × Op × Res)) (s s' : σ) (es : List ε)
    (hr : m.run s es = some s') :
    (decorate m toH linOf s es).filterMap LEv.toH = (es.filterMap m.obs).filterMap toH := by
  induction es generalizing s with
  | nil => simp [decorate]
  | cons e es ih =>
    simp only [OLTS.run] at hr
    cases hst : m.step s e with
    | none => simp [hst] at hr
    | some s1 =>
      simp [hst] at hr
      simp only [decorate, hst, List.filterMap_append, label_proj, ih s1 hr, List.filterMap_cons]
      cases ho : m.obs e with
      | none => simp
      | some o => cases h : toH o <;> simp [h]

/-- **Simulation ⇒ the decorated trace of every run is accepted by the linearization checker.** -/
theorem decorate_sim (m : OLTS σ ε ο) (spec : SeqSpec AS Op Res) (toH : ο → Option (HEv Op Res))
    (linOf : σ → ε → Option (Nat × Op × Res)) (R : σ → LinSt AS Op Res → Prop)
    (hstep : ∀ s e s' ms, R s ms → m.step s e = some s' →
      ∃ ms', (linMon spec).run ms (label m toH linOf s e) = some ms' ∧ R s' ms') :
    ∀ es s0 ms0 s, R s0 ms0 → m.run s0 es = some s →
      ∃ ms, (linMon spec).run ms0 (decorate m toH linOf s0 es) = some ms ∧ R s ms := by
  intro es
  induction es with
  | nil =>
    intro s0 ms0 s hR hr
    simp [OLTS.run] at hr; subst hr
    exact ⟨ms0, rfl, hR⟩
  | cons e es ih =>
    intro s0 ms0 s hR hr
    simp only [OLTS.run] at hr
    cases hst : m.step s0 e with
    | none => simp [hst] at hr
    | some s1 =>
      simp [hst] at hr
      obtain ⟨ms1, hm1, hR1⟩ := hstep s0 e s1 ms0 hR hst
      obtain ⟨ms, hm, hR'⟩ := ih s1 ms1 s hR1 hr
      refine ⟨ms, ?_, hR'⟩
      simp [decorate, hst, ObsMonitor.run_append, hm1, hm]

/-- every observable trace of a model that simulates the checker is linearizable -/
theorem linearizable_of_sim (m : OLTS σ ε ο) (spec : SeqSpec AS Op Res) (toH : ο → Option (HEv Op Res))
    (linOf : σ → ε → Option (Nat × Op × Res)) (R : σ → LinSt AS Op Res → Prop)
    (h0 : R m.init (linMon spec).init)
    (hstep : ∀ s e s' ms, R s ms → m.step s e = some s' →
      ∃ ms', (linMon spec).run ms (label m toH linOf s e) = some ms' ∧ R s' ms')
    (es : List ε) (s : σ) (hr : m.run m.init es = some s) :
    Linearizable spec ((es.filterMap m.obs).filterMap toH) := by
  obtain ⟨ms, hm, _⟩ := decorate_sim m spec toH linOf R hstep es m.init _ s h0 hr
  exact ⟨decorate m toH linOf m.init es, decorate_proj m toH linOf _ _ es hr,
    by simp [ObsMonitor.accepts, hm]⟩

end Sim

end UtilModel.Lin
