import UtilModel.Core.LTS
import UtilModel.Treiber.Lin
/-!
# cqueue.AtomicLIFO — model (cqueue/lifo.go), component `lifo`

A Treiber stack. Shared memory: `top` (an atomic pointer) and a heap of *published* nodes
`⟨value, next⟩`. One *thread* = one API call (`Push(v)` or `Pop()`), numbered in invocation order
by the harness. Every event is one atomic instruction of the code:

* `load t`  — `q.top.Load()` (lifo.go:26 / :44). For `Push` the private write `newNode.next = oldTop`
  (:29) is part of the same event (the node is not reachable by anyone else yet); for `Pop` the read
  `next := oldTop.next` (:51) is part of the same event (a published node is never written again — the
  only write to `next` is :29, before the publishing CAS). A `Pop` that loads `nil` is finished: it
  will return the zero value (:45-48).
* `cas t`   — `q.top.CompareAndSwap(oldTop, …)` (:33 / :55): succeeds iff `top` still equals the
  pointer loaded; on failure the thread goes back to its `load` (the `for` loop).
* `inv…`/`ret…` — invocation / response as logged by the harness.

Node identity. A node gets its id (= its index in `heap`) when the CAS that publishes it succeeds.
Before that the node is private to the pushing thread (its fields are the thread's registers `v`,
`old`), and pointers are only ever *compared* for published nodes (`top == oldTop`). Ids are never
reused: `heap` only grows. This is the **trusted assumption "garbage collection ⇒ no address reuse
while a pointer to the node is still held" (no ABA)**; it is a property of the Go runtime, not of
lifo.go.

A nil/dangling dereference (`oldTop.next` of a pointer that is not a heap node) is an explicit
outcome (`crashed`, observable `ret t panic`); `Props.no_crash` shows it is unreachable.
-/
namespace UtilModel.Treiber
open UtilModel UtilModel.Lin

structure Node where
  val : Nat
  next : Option Nat
deriving DecidableEq, Repr, Hashable

/-- abstract operations / results of the sequential stack (also used by the monitor) -/
inductive SOp where
  | push (v : Nat)
  | pop
deriving DecidableEq, Repr, Hashable

inductive SRes where
  | ack              -- Push returned
  | val (v : Nat)    -- Pop returned `v` (the zero value `0` when empty)
  | panic
deriving DecidableEq, Repr, Hashable

/-- per-call state = program counter + registers -/
inductive TS where
  | pushLoad (v : Nat)                     -- Push invoked, or its CAS failed: about to load `top`
  | pushCas (v : Nat) (old : Option Nat)   -- `newNode.next = old`; about to CAS(old, newNode)
  | pushDone (v : Nat)                     -- CAS succeeded; Push has not returned yet
  | popLoad                                -- Pop invoked, or its CAS failed: about to load `top`
  | popCas (o : Nat) (nx : Option Nat)     -- loaded `oldTop = o`, read `next = nx`; about to CAS(o, nx)
  | popDone (r : Nat)                      -- Pop will return `r`
  | crashed                                -- dereferenced a pointer that is not a heap node
  | retd (op : SOp) (r : SRes)             -- the call has returned
deriving DecidableEq, Repr, Hashable

structure St where
  heap : List Node := []
  top : Option Nat := none
  th : List TS := []
deriving DecidableEq, Repr, Hashable

inductive Obs where
  | invPush (t v : Nat)     -- `inv t push v`
  | retPush (t : Nat)       -- `ret t push`
  | invPop (t : Nat)        -- `inv t pop`
  | retPop (t v : Nat)      -- `ret t pop v`
  | retPanic (t : Nat)      -- `ret t panic`
deriving DecidableEq, Repr, Hashable

inductive Ev where
  | invPush (t v : Nat)
  | invPop (t : Nat)
  | load (t : Nat)
  | cas (t : Nat)
  | retPush (t : Nat)
  | retPop (t v : Nat)
  | retPanic (t : Nat)
deriving DecidableEq, Repr, Hashable

def Ev.obs : Ev → Option Obs
  | .invPush t v => some (.invPush t v)
  | .invPop t => some (.invPop t)
  | .retPush t => some (.retPush t)
  | .retPop t v => some (.retPop t v)
  | .retPanic t => some (.retPanic t)
  | .load _ | .cas _ => none

def Obs.ev : Obs → Ev
  | .invPush t v => .invPush t v
  | .invPop t => .invPop t
  | .retPush t => .retPush t
  | .retPop t v => .retPop t v
  | .retPanic t => .retPanic t

theorem Obs.ev_obs (o : Obs) : o.ev.obs = some o := by cases o <;> rfl

def Obs.parse : List String → Option Obs
  | ["inv", t, "push", v] => do pure (.invPush (← t.toNat?) (← v.toNat?))
  | ["ret", t, "push"] => do pure (.retPush (← t.toNat?))
  | ["inv", t, "pop"] => do pure (.invPop (← t.toNat?))
  | ["ret", t, "pop", v] => do pure (.retPop (← t.toNat?) (← v.toNat?))
  | ["ret", t, "panic"] => do pure (.retPanic (← t.toNat?))
  | _ => none

def step (s : St) : Ev → Option St
  | .invPush t v => if t = s.th.length then some { s with th := s.th ++ [.pushLoad v] } else none
  | .invPop t => if t = s.th.length then some { s with th := s.th ++ [.popLoad] } else none
  | .load t =>
    match s.th[t]? with
    | some (.pushLoad v) => some { s with th := s.th.set t (.pushCas v s.top) }       -- :26, :29
    | some .popLoad =>
      match s.top with                                                                -- :44
      | none => some { s with th := s.th.set t (.popDone 0) }                         -- :45-48
      | some o =>
        match s.heap[o]? with                                                         -- :51
        | some nd => some { s with th := s.th.set t (.popCas o nd.next) }
        | none => some { s with th := s.th.set t .crashed }
    | _ => none
  | .cas t =>
    match s.th[t]? with
    | some (.pushCas v old) =>                                                        -- :33
      if s.top = old then
        some { heap := s.heap ++ [⟨v, old⟩], top := some s.heap.length, th := s.th.set t (.pushDone v) }
      else some { s with th := s.th.set t (.pushLoad v) }
    | some (.popCas o nx) =>                                                          -- :55
      if s.top = some o then
        match s.heap[o]? with                                                         -- :56
        | some nd => some { s with top := nx, th := s.th.set t (.popDone nd.val) }
        | none => some { s with th := s.th.set t .crashed }
      else some { s with th := s.th.set t .popLoad }
    | _ => none
  | .retPush t =>
    match s.th[t]? with
    | some (.pushDone v) => some { s with th := s.th.set t (.retd (.push v) .ack) }
    | _ => none
  | .retPop t r =>
    match s.th[t]? with
    | some (.popDone r') => if r = r' then some { s with th := s.th.set t (.retd .pop (.val r)) } else none
    | _ => none
  | .retPanic t =>
    match s.th[t]? with
    | some .crashed => some { s with th := s.th.set t (.retd .pop .panic) }
    | _ => none

/-- the `cas` of a call that has loaded -/
def TS.casCand (t : Nat) : TS → List Ev
  | .pushCas _ _ | .popCas _ _ => [.cas t]
  | _ => []

/-- the `load` of a call that is about to load -/
def TS.loadCand (t : Nat) : TS → List Ev
  | .pushLoad _ | .popLoad => [.load t]
  | _ => []

def candsBy (f : Nat → TS → List Ev) (s : St) : List Ev :=
  (List.range s.th.length).flatMap fun t =>
    match s.th[t]? with
    | some ts => f t ts
    | none => []

/-- internal events the driver tries. **Reduced search**: if some call is between its load and its
CAS, only such CASes are tried; otherwise the loads of all calls in flight. So in the explored runs a
load is immediately followed (up to observable events) by the CAS of the same call, which then
succeeds. Nothing observable is lost: a failed attempt (load … failed CAS) changes no shared
variable, and the last load of a call can be moved right before its successful CAS. This is proved:
`Props.reduced_search_complete` shows that every linearizable history — in particular every
observable trace of the unreduced model (`Props.treiber_linearizable`) — is the trace of a run that
uses only these candidates. (`accepts_sound` holds for any candidate function.) -/
def cands (s : St) : List Ev :=
  match candsBy TS.casCand s with
  | [] => candsBy TS.loadCand s
  | cs => cs

/-- all enabled internal events (unreduced) -/
def allCands (s : St) : List Ev := candsBy TS.casCand s ++ candsBy TS.loadCand s

def model : OLTS St Ev Obs where
  init := {}
  step := step
  obs := Ev.obs
  cands := cands
  evsOf := fun _ o => [o.ev]

/-! ## The sequential specification and the linearization points -/

/-- sequential LIFO stack; `Pop` of the empty stack returns the zero value -/
def stackSpec : SeqSpec (List Nat) SOp SRes where
  init := []
  apply := fun l op =>
    match op, l with
    | .push v, l => (v :: l, .ack)
    | .pop, [] => ([], .val 0)
    | .pop, v :: r => (r, .val v)

/-- observable → history event -/
def Obs.toH : Obs → HEv SOp SRes
  | .invPush t v => .inv t (.push v)
  | .invPop t => .inv t .pop
  | .retPush t => .ret t .ack
  | .retPop t v => .ret t (.val v)
  | .retPanic t => .ret t .panic

/-- every observable of this model is a history event -/
def Obs.toHO (o : Obs) : Option (HEv SOp SRes) := some o.toH

/-- **linearization points**: the successful CAS of a Push or Pop, and the load of an empty `top`
by a Pop — each an internal event of the call it linearizes -/
def linOf (s : St) : Ev → Option (Nat × SOp × SRes)
  | .load t =>
    match s.th[t]?, s.top with
    | some .popLoad, none => some (t, .pop, .val 0)
    | _, _ => none
  | .cas t =>
    match s.th[t]? with
    | some (.pushCas v old) => if s.top = old then some (t, .push v, .ack) else none
    | some (.popCas o _) =>
      if s.top = some o then
        match s.heap[o]? with
        | some nd => some (t, .pop, .val nd.val)
        | none => none
      else none
    | _ => none
  | _ => none

/-- the list of values reachable from pointer `p`: `Denotes heap p l` -/
def Denotes (heap : List Node) : Option Nat → List Nat → Prop
  | none, [] => True
  | some n, v :: l => ∃ nx, heap[n]? = some ⟨v, nx⟩ ∧ Denotes heap nx l
  | none, _ :: _ => False
  | some _, [] => False

/-- executable abstraction (for the driver / examples): follow `next` at most `fuel` times -/
def walk (heap : List Node) : Nat → Option Nat → List Nat
  | 0, _ => []
  | _, none => []
  | f+1, some n =>
    match heap[n]? with
    | some nd => nd.val :: walk heap f nd.next
    | none => []

/-- the abstract stack of a state -/
def abs (s : St) : List Nat := walk s.heap (s.heap.length + 1) s.top

end UtilModel.Treiber
