import UtilModel.Treiber.Lin
/-!
# `Linearizable` (linearization points) ⇒ the classical definition

`TextbookLinearizable spec h`: there is a sequential history `S` (a list of calls `(t, op, r)`) such
that
1. `S` is legal for the sequential specification, started in its initial state;
2. no call occurs twice in `S`;
3. every call of `S` was invoked in `h` with that operation;
4. every call that returned in `h` is in `S` with the result it returned (pending calls may or may
   not be in `S`);
5. real-time order: if call `a` returned in `h` before call `b` was invoked, and `b` is in `S`,
   then `a` comes before `b` in `S`.
-/
namespace UtilModel.Lin

variable {AS Op Res : Type}

abbrev SeqHist (Op Res : Type) := List (Nat × Op × Res)

/-- `Legal spec a S a'`: running `S` sequentially from `a` gives exactly the recorded results and
ends in `a'` -/
def Legal (spec : SeqSpec AS Op Res) : AS → SeqHist Op Res → AS → Prop
  | a, [], a' => a = a'
  | a, (_, op, r) :: rest, a' => (spec.apply a op).2 = r ∧ Legal spec (spec.apply a op).1 rest a'

theorem legal_snoc (spec : SeqSpec AS Op Res) (a a1 : AS) (S : SeqHist Op Res) (t : Nat) (op : Op)
    (h : Legal spec a S a1) : Legal spec a (S ++ [(t, op, (spec.apply a1 op).2)]) (spec.apply a1 op).1 := by
  induction S generalizing a with
  | nil => simp only [Legal] at h; subst h; simp [Legal]
  | cons x S ih =>
    obtain ⟨t', op', r'⟩ := x
    obtain ⟨h1, h2⟩ := h
    exact ⟨h1, ih _ h2⟩

/-- `ret a …` occurs in `h` before `inv b …` -/
def Precedes (h : List (HEv Op Res)) (a b : Nat) : Prop :=
  ∃ h1 h2 r op, h = h1 ++ h2 ∧ HEv.ret a r ∈ h1 ∧ HEv.inv b op ∈ h2

/-- `a` occurs in `S` before `b` -/
def Before (S : SeqHist Op Res) (a b : Nat) : Prop :=
  ∃ S1 S2, S = S1 ++ S2 ∧ a ∈ S1.map (·.1) ∧ b ∈ S2.map (·.1)

def TextbookLinearizable (spec : SeqSpec AS Op Res) (h : List (HEv Op Res)) : Prop :=
  ∃ S : SeqHist Op Res,
    (∃ a', Legal spec spec.init S a') ∧
    (S.map (·.1)).Nodup ∧
    (∀ t op r, (t, op, r) ∈ S → HEv.inv t op ∈ h) ∧
    (∀ t r, HEv.ret t r ∈ h → ∃ op, (t, op, r) ∈ S) ∧
    (∀ a b, Precedes h a b → b ∈ S.map (·.1) → Before S a b)

/-- the sequence of linearization markers of a decorated trace -/
def linSeq (d : List (LEv Op Res)) : SeqHist Op Res := d.filterMap LEv.linOf

theorem linSeq_append (d e : List (LEv Op Res)) : linSeq (d ++ e) = linSeq d ++ linSeq e := by
  simp [linSeq, List.filterMap_append]

/-- invariant relating a decorated prefix `d` with the checker state reached after it -/
structure TInv (spec : SeqSpec AS Op Res) (d : List (LEv Op Res)) (ms : LinSt AS Op Res) : Prop where
  invd : ∀ (t : Nat) (c : CallSt Op Res), ms.calls[t]? = some c →
    LEv.inv t (match c with | .pending op => op | .linearized op _ => op | .returned op _ => op) ∈ d
  pend : ∀ (t : Nat) (op : Op), ms.calls[t]? = some (.pending op) → t ∉ (linSeq d).map (·.1)
  lind : ∀ (t : Nat) (op : Op) (r : Res),
    (ms.calls[t]? = some (.linearized op r) ∨ ms.calls[t]? = some (.returned op r)) → (t, op, r) ∈ linSeq d
  dlin : ∀ (t : Nat) (op : Op) (r : Res), (t, op, r) ∈ linSeq d →
    (ms.calls[t]? = some (.linearized op r) ∨ ms.calls[t]? = some (.returned op r))
  retd : ∀ (t : Nat) (r : Res), LEv.ret t r ∈ d → ∃ op, ms.calls[t]? = some (.returned op r)
  nodup : ((linSeq d).map (·.1)).Nodup
  legal : Legal spec spec.init (linSeq d) ms.st

section
variable [DecidableEq Op] [DecidableEq Res]

theorem tinv_init (spec : SeqSpec AS Op Res) : TInv spec [] (linMon spec).init :=
  ⟨by intro t c h; simp [linMon] at h, by intro t op h; simp [linMon] at h,
   by intro t op r h; simp [linMon] at h, by intro t op r h; simp [linSeq] at h,
   by intro t r h; simp at h, by simp [linSeq], by simp [linSeq, Legal, linMon]⟩

theorem tinv_step (spec : SeqSpec AS Op Res) (d : List (LEv Op Res)) (ms ms' : LinSt AS Op Res)
    (e : LEv Op Res) (hi : TInv spec d ms) (hs : (linMon spec).step ms e = some ms') :
    TInv spec (d ++ [e]) ms' := by
  obtain ⟨A, B, C, D, E, F, G⟩ := hi
  cases e with
  | inv t op =>
    simp only [linMon] at hs; split at hs <;> simp at hs; subst hs
    rename_i ht
    have hls : linSeq (d ++ [LEv.inv t op]) = linSeq d := by simp [linSeq, LEv.linOf]
    refine ⟨?_, ?_, ?_, ?_, ?_, by rw [hls]; exact F, by rw [hls]; exact G⟩
    · intro u c hu
      rcases getElem?_snoc_cases _ _ _ _ hu with ⟨_, hx⟩ | ⟨hx, hy⟩
      · exact List.mem_append_left _ (A u c hx)
      · subst hy; simp [hx, ht]
    · intro u op' hu
      rw [hls]
      rcases getElem?_snoc_cases _ _ _ _ hu with ⟨_, hx⟩ | ⟨hx, _⟩
      · exact B u op' hx
      · intro hm
        simp only [List.mem_map] at hm
        obtain ⟨⟨u', o, r⟩, hm, rfl⟩ := hm
        rcases D _ o r hm with h | h <;> (have := lt_of_getElem? h; simp at hx; omega)
    · intro u op' r hu
      rw [hls]
      apply C u op' r
      rcases hu with hu | hu <;> rcases getElem?_snoc_cases _ _ _ _ hu with ⟨_, hx⟩ | ⟨_, hx⟩
      · exact Or.inl hx
      · cases hx
      · exact Or.inr hx
      · cases hx
    · intro u op' r hm
      rw [hls] at hm
      rcases D u op' r hm with h | h
      · exact Or.inl (getElem?_snoc_left _ _ _ _ h)
      · exact Or.inr (getElem?_snoc_left _ _ _ _ h)
    · intro u r hm
      simp at hm
      obtain ⟨o, ho⟩ := E u r hm
      exact ⟨o, getElem?_snoc_left _ _ _ _ ho⟩
  | lin t op r =>
    simp only [linMon] at hs; split at hs <;> try simp at hs
    rename_i op' hc
    obtain ⟨⟨rfl, hr⟩, rfl⟩ := hs
    have hls : linSeq (d ++ [LEv.lin t op r]) = linSeq d ++ [(t, op, r)] := by simp [linSeq, LEv.linOf]
    have hlt := lt_of_getElem? hc
    refine ⟨?_, ?_, ?_, ?_, ?_, ?_, ?_⟩
    · intro u c hu
      rcases getElem?_set_cases _ _ _ _ _ hu with ⟨hx, hy⟩ | ⟨_, hx⟩
      · subst hx; subst hy; exact List.mem_append_left _ (A u _ hc)
      · exact List.mem_append_left _ (A u c hx)
    · intro u op' hu
      rw [hls]
      rcases getElem?_set_cases _ _ _ _ _ hu with ⟨_, hy⟩ | ⟨hne, hx⟩
      · cases hy
      · have := B u op' hx
        simp only [List.map_append, List.mem_append, List.map_cons, List.map_nil, List.mem_singleton]
        intro h; rcases h with h | h
        · exact this h
        · exact hne h
    · intro u op' r' hu
      rw [hls]
      by_cases hut : u = t
      · subst hut
        have : (ms.calls.set u (CallSt.linearized op r))[u]? = some (.linearized op r) := by simp [hlt]
        rcases hu with hu | hu <;> (rw [this] at hu; cases hu)
        simp
      · apply List.mem_append_left
        apply C u op' r'
        rcases hu with hu | hu
        · left; rwa [getElem?_set_ne' _ _ _ _ (Ne.symm hut)] at hu
        · right; rwa [getElem?_set_ne' _ _ _ _ (Ne.symm hut)] at hu
    · intro u op' r' hm
      rw [hls] at hm
      simp only [List.mem_append, List.mem_singleton] at hm
      rcases hm with hm | hm
      · have hne : t ≠ u := by
          intro h; subst h
          rcases D t op' r' hm with h | h <;> (rw [hc] at h; cases h)
        rw [getElem?_set_ne' _ _ _ _ hne]
        exact D u op' r' hm
      · cases hm; left; simp [hlt]
    · intro u r' hm
      simp at hm
      obtain ⟨o, ho⟩ := E u r' hm
      have hne : t ≠ u := by intro h; subst h; rw [hc] at ho; cases ho
      exact ⟨o, by rw [getElem?_set_ne' _ _ _ _ hne]; exact ho⟩
    · rw [hls]
      simp only [List.map_append, List.map_cons, List.map_nil]
      rw [List.nodup_append]
      refine ⟨F, by simp, ?_⟩
      intro a ha b hb
      simp at hb; subst hb
      intro h; subst h
      exact B a op hc ha
    · rw [hls, ← hr]
      exact legal_snoc spec _ _ _ t op G
  | ret t r =>
    simp only [linMon] at hs; split at hs <;> try simp at hs
    rename_i op r' hc
    obtain ⟨hr, rfl⟩ := hs
    subst hr
    have hls : linSeq (d ++ [LEv.ret t r]) = linSeq d := by simp [linSeq, LEv.linOf]
    have hlt := lt_of_getElem? hc
    refine ⟨?_, ?_, ?_, ?_, ?_, by rw [hls]; exact F, by rw [hls]; exact G⟩
    · intro u c hu
      rcases getElem?_set_cases _ _ _ _ _ hu with ⟨hx, hy⟩ | ⟨_, hx⟩
      · subst hx; subst hy; exact List.mem_append_left _ (A u _ hc)
      · exact List.mem_append_left _ (A u c hx)
    · intro u op' hu
      rw [hls]
      rcases getElem?_set_cases _ _ _ _ _ hu with ⟨_, hy⟩ | ⟨_, hx⟩
      · cases hy
      · exact B u op' hx
    · intro u op' r' hu
      rw [hls]
      by_cases hut : u = t
      · subst hut
        have : (ms.calls.set u (CallSt.returned op r))[u]? = some (.returned op r) := by simp [hlt]
        rcases hu with hu | hu <;> (rw [this] at hu; cases hu)
        exact C u op r (Or.inl hc)
      · apply C u op' r'
        rcases hu with hu | hu
        · left; rwa [getElem?_set_ne' _ _ _ _ (Ne.symm hut)] at hu
        · right; rwa [getElem?_set_ne' _ _ _ _ (Ne.symm hut)] at hu
    · intro u op' r' hm
      rw [hls] at hm
      by_cases hut : u = t
      · subst hut
        rcases D u op' r' hm with h | h <;> (rw [hc] at h; cases h)
        right; simp [hlt]
      · rw [getElem?_set_ne' _ _ _ _ (Ne.symm hut)]
        exact D u op' r' hm
    · intro u r' hm
      simp at hm
      rcases hm with hm | ⟨rfl, rfl⟩
      · obtain ⟨o, ho⟩ := E u r' hm
        have hne : t ≠ u := by intro h; subst h; rw [hc] at ho; cases ho
        exact ⟨o, by rw [getElem?_set_ne' _ _ _ _ hne]; exact ho⟩
      · exact ⟨op, by simp [hlt]⟩

theorem tinv_run (spec : SeqSpec AS Op Res) (d0 d : List (LEv Op Res)) (ms0 ms : LinSt AS Op Res)
    (hi : TInv spec d0 ms0) (hrun : (linMon spec).run ms0 d = some ms) : TInv spec (d0 ++ d) ms := by
  induction d generalizing d0 ms0 with
  | nil => simp [ObsMonitor.run] at hrun; subst hrun; simpa using hi
  | cons e d ih =>
    simp only [ObsMonitor.run] at hrun
    cases hs : (linMon spec).step ms0 e with
    | none => simp [hs] at hrun
    | some m1 =>
      simp [hs] at hrun
      have := ih (d0 ++ [e]) m1 (tinv_step spec d0 ms0 m1 e hi hs) hrun
      simpa using this

theorem calls_mono (spec : SeqSpec AS Op Res) (d : List (LEv Op Res)) (ms ms' : LinSt AS Op Res)
    (hrun : (linMon spec).run ms d = some ms') : ms.calls.length ≤ ms'.calls.length := by
  induction d generalizing ms with
  | nil => simp [ObsMonitor.run] at hrun; subst hrun; exact Nat.le_refl _
  | cons e d ih =>
    simp only [ObsMonitor.run] at hrun
    cases hs : (linMon spec).step ms e with
    | none => simp [hs] at hrun
    | some m1 =>
      simp [hs] at hrun
      have h1 := ih m1 hrun
      have h2 : ms.calls.length ≤ m1.calls.length := by
        cases e with
        | inv t op =>
          simp only [linMon] at hs; split at hs <;> simp at hs; subst hs; simp
        | lin t op r =>
          simp only [linMon] at hs; split at hs <;> try simp at hs
          obtain ⟨_, rfl⟩ := hs; simp
        | ret t r =>
          simp only [linMon] at hs; split at hs <;> try simp at hs
          obtain ⟨_, rfl⟩ := hs; simp
      omega

/-- an `inv b` that is still to come has an id beyond the current call table -/
theorem inv_later (spec : SeqSpec AS Op Res) (d : List (LEv Op Res)) (ms ms' : LinSt AS Op Res)
    (hrun : (linMon spec).run ms d = some ms') (b : Nat) (op : Op) (hm : LEv.inv b op ∈ d) :
    ms.calls.length ≤ b := by
  induction d generalizing ms with
  | nil => simp at hm
  | cons e d ih =>
    simp only [ObsMonitor.run] at hrun
    cases hs : (linMon spec).step ms e with
    | none => simp [hs] at hrun
    | some m1 =>
      simp [hs] at hrun
      simp only [List.mem_cons] at hm
      rcases hm with hm | hm
      · subst hm
        simp only [linMon] at hs; split at hs <;> simp at hs
        rename_i ht; omega
      · have h1 := ih m1 hrun hm
        have h2 := calls_mono spec [e] ms m1 (by simp [ObsMonitor.run, hs])
        omega

omit [DecidableEq Op] [DecidableEq Res] in
theorem mem_toH_inv (d : List (LEv Op Res)) (t : Nat) (op : Op) :
    HEv.inv t op ∈ d.filterMap LEv.toH ↔ LEv.inv t op ∈ d := by
  simp only [List.mem_filterMap]
  constructor
  · rintro ⟨e, he, h⟩; cases e <;> simp [LEv.toH] at h; obtain ⟨rfl, rfl⟩ := h; exact he
  · intro h; exact ⟨_, h, rfl⟩

omit [DecidableEq Op] [DecidableEq Res] in
theorem mem_toH_ret (d : List (LEv Op Res)) (t : Nat) (r : Res) :
    HEv.ret t r ∈ d.filterMap LEv.toH ↔ LEv.ret t r ∈ d := by
  simp only [List.mem_filterMap]
  constructor
  · rintro ⟨e, he, h⟩; cases e <;> simp [LEv.toH] at h; obtain ⟨rfl, rfl⟩ := h; exact he
  · intro h; exact ⟨_, h, rfl⟩

/-- **linearization points ⇒ classical linearizability** -/
theorem linearizable_textbook (spec : SeqSpec AS Op Res) (h : List (HEv Op Res))
    (hl : Linearizable spec h) : TextbookLinearizable spec h := by
  obtain ⟨d, hd, hacc⟩ := hl
  simp only [ObsMonitor.accepts, Option.isSome_iff_exists] at hacc
  obtain ⟨ms, hrun⟩ := hacc
  have hi : TInv spec d ms := by simpa using tinv_run spec [] d _ ms (tinv_init spec) hrun
  refine ⟨linSeq d, ⟨ms.st, hi.legal⟩, hi.nodup, ?_, ?_, ?_⟩
  · intro t op r hm
    rw [← hd, mem_toH_inv]
    rcases hi.dlin t op r hm with hc | hc <;> exact hi.invd t _ hc
  · intro t r hm
    rw [← hd, mem_toH_ret] at hm
    obtain ⟨op, hc⟩ := hi.retd t r hm
    exact ⟨op, hi.lind t op r (Or.inr hc)⟩
  · intro a b ⟨h1, h2, r, op, hsplit, ha, hb⟩ hbS
    rw [← hd, List.filterMap_eq_append_iff] at hsplit
    obtain ⟨d1, d2, rfl, hp1, hp2⟩ := hsplit
    rw [← hp1, mem_toH_ret] at ha
    rw [← hp2, mem_toH_inv] at hb
    rw [ObsMonitor.run_append] at hrun
    cases hr1 : (linMon spec).run (linMon spec).init d1 with
    | none => simp [hr1] at hrun
    | some m1 =>
      simp [hr1] at hrun
      have hi1 : TInv spec d1 m1 := by simpa using tinv_run spec [] d1 _ m1 (tinv_init spec) hr1
      refine ⟨linSeq d1, linSeq d2, linSeq_append d1 d2, ?_, ?_⟩
      · obtain ⟨o, hc⟩ := hi1.retd a r ha
        have := hi1.lind a o r (Or.inr hc)
        exact List.mem_map.mpr ⟨_, this, rfl⟩
      · rw [linSeq_append, List.map_append, List.mem_append] at hbS
        rcases hbS with hbS | hbS
        · exfalso
          obtain ⟨⟨b', o, r'⟩, hm, rfl⟩ := List.mem_map.mp hbS
          have hlt : b' < m1.calls.length := by
            rcases hi1.dlin _ o r' hm with hc | hc <;> exact lt_of_getElem? hc
          have := inv_later spec d2 m1 ms hrun b' op hb
          omega
        · exact hbS

end

end UtilModel.Lin
