import UtilModel.Treiber.Lin
/-!
# Element-flow monitor over histories (the cheap, history-level part of C12)

For a container specification every operation *offers* values (`Push(v)`), may *take* a value out
(`Pop` returning `v`) or merely *see* one (`Peek`). `monFlow` checks on a plain history (no
linearization points needed):

* call ids are allocated in invocation order and a response belongs to an invoked call;
* **nothing is returned twice / out of thin air**: at every response that takes `v`, the number of
  responses that took `v` so far is smaller than the number of *invocations* that offered `v` so far
  (with distinct values: `v` is taken at most once, and not before its push was invoked);
* a value that is seen was offered by an invocation before.

`flow_of_linearizable`: every linearizable history satisfies `monFlow`, provided the specification
obeys the two flow laws (`FlowLaws`). Losing an element is *not* visible to this monitor; it is
decided by trace inclusion in the model (`accepts` + `…_refines_…` + `accepts_sound`).
-/
namespace UtilModel.Lin

variable {AS Op Res : Type}

structure Flow (Op Res : Type) where
  offered : Op → List Nat
  taken : Op → Res → Option Nat
  seen : Op → Res → Option Nat
  /-- the operation may remove arbitrarily many elements (`Reset`) -/
  wipes : Op → Bool := fun _ => false
  /-- the result claims that the container was empty -/
  emptyRes : Op → Res → Bool := fun _ _ => false
  /-- the operation may take an element out -/
  mayTake : Op → Bool := fun _ => false

structure FlowSt (Op : Type) where
  ops : List Op := []
  offered : List Nat := []
  taken : List Nat := []

def takeOk (fs : FlowSt Op) : Option Nat → Bool
  | none => true
  | some v => fs.taken.count v < fs.offered.count v

def seeOk (fs : FlowSt Op) : Option Nat → Bool
  | none => true
  | some v => fs.offered.contains v

def monFlow (fl : Flow Op Res) : ObsMonitor (HEv Op Res) (FlowSt Op) where
  init := {}
  step := fun fs e =>
    match e with
    | .inv t op =>
      if t = fs.ops.length then some { fs with ops := fs.ops ++ [op], offered := fs.offered ++ fl.offered op }
      else none
    | .ret t r =>
      match fs.ops[t]? with
      | none => none
      | some op =>
        if takeOk fs (fl.taken op r) && seeOk fs (fl.seen op r) then
          some { fs with taken := (fl.taken op r).toList ++ fs.taken }
        else none

/-- the two laws tying a flow description to a sequential specification -/
structure FlowLaws (spec : SeqSpec AS Op Res) (fl : Flow Op Res) (content : AS → List Nat) : Prop where
  /-- what is in the container or taken out afterwards was in it before or offered by the operation -/
  take : ∀ (a : AS) (op : Op) (v : Nat),
    (content (spec.apply a op).1).count v + ((fl.taken op (spec.apply a op).2).toList).count v
      ≤ (content a).count v + (fl.offered op).count v
  /-- a value seen was in the container or offered by the operation -/
  see : ∀ (a : AS) (op : Op) (v : Nat), fl.seen op (spec.apply a op).2 = some v →
    v ∈ content a ∨ v ∈ fl.offered op
  init : content spec.init = []

/-- pull a monitor back along a map of observables -/
def _root_.UtilModel.ObsMonitor.comap {ο ο' μ : Type} (f : ο' → ο) (m : ObsMonitor ο μ) : ObsMonitor ο' μ where
  init := m.init
  step := fun ms o => m.step ms (f o)

theorem comap_run {ο ο' μ : Type} (f : ο' → ο) (m : ObsMonitor ο μ) (ms : μ) (h : List ο') :
    (m.comap f).run ms h = m.run ms (h.map f) := by
  induction h generalizing ms with
  | nil => rfl
  | cons o os ih =>
    simp only [ObsMonitor.run, List.map_cons]
    show (m.step ms (f o)).bind _ = _
    cases m.step ms (f o) with
    | none => rfl
    | some m1 => simp [ih]

theorem comap_accepts {ο ο' μ : Type} (f : ο' → ο) (m : ObsMonitor ο μ) (h : List ο') :
    (m.comap f).accepts h = m.accepts (h.map f) := by
  simp only [ObsMonitor.accepts]
  rw [comap_run]; rfl

/-- pull a monitor back along a partial map: observables mapped to `none` are ignored -/
def _root_.UtilModel.ObsMonitor.comapOpt {ο ο' μ : Type} (f : ο' → Option ο) (m : ObsMonitor ο μ) :
    ObsMonitor ο' μ where
  init := m.init
  step := fun ms o =>
    match f o with
    | none => some ms
    | some x => m.step ms x

theorem comapOpt_run {ο ο' μ : Type} (f : ο' → Option ο) (m : ObsMonitor ο μ) (ms : μ) (h : List ο') :
    (m.comapOpt f).run ms h = m.run ms (h.filterMap f) := by
  induction h generalizing ms with
  | nil => rfl
  | cons o os ih =>
    simp only [ObsMonitor.run, List.filterMap_cons]
    show (match f o with | none => some ms | some x => m.step ms x).bind _ = _
    cases hf : f o with
    | none => simp [ih]
    | some x =>
      simp only [ObsMonitor.run]
      cases m.step ms x with
      | none => rfl
      | some m1 => simp [ih]

theorem comapOpt_accepts {ο ο' μ : Type} (f : ο' → Option ο) (m : ObsMonitor ο μ) (h : List ο') :
    (m.comapOpt f).accepts h = m.accepts (h.filterMap f) := by
  simp only [ObsMonitor.accepts]
  rw [comapOpt_run]; rfl

/-! ## Proof: linearizable ⇒ flow monitor accepts -/

theorem count_flatMap_set {α : Type} (f : α → List Nat) (l : List α) (t : Nat) (a b : α)
    (h : l[t]? = some a) (v : Nat) :
    ((l.set t b).flatMap f).count v + (f a).count v = (l.flatMap f).count v + (f b).count v := by
  induction l generalizing t with
  | nil => simp at h
  | cons x xs ih =>
    cases t with
    | zero =>
      simp at h; subst h
      simp [List.flatMap_cons, List.count_append]; omega
    | succ t =>
      simp at h
      have := ih t h
      simp [List.flatMap_cons, List.count_append]; omega

theorem count_flatMap_snoc {α : Type} (f : α → List Nat) (l : List α) (b : α) (v : Nat) :
    ((l ++ [b]).flatMap f).count v = (l.flatMap f).count v + (f b).count v := by
  simp [List.flatMap_append, List.count_append]

def CallSt.op : CallSt Op Res → Op
  | .pending op | .linearized op _ | .returned op _ => op

def pendOffered (fl : Flow Op Res) : CallSt Op Res → List Nat
  | .pending op => fl.offered op
  | _ => []

def linTaken (fl : Flow Op Res) : CallSt Op Res → List Nat
  | .linearized op r => (fl.taken op r).toList
  | _ => []

structure FlowRel (fl : Flow Op Res) (content : AS → List Nat)
    (ms : LinSt AS Op Res) (fs : FlowSt Op) : Prop where
  ops : fs.ops = ms.calls.map CallSt.op
  bal : ∀ v : Nat, fs.taken.count v + (ms.calls.flatMap (linTaken fl)).count v
      + (content ms.st).count v + (ms.calls.flatMap (pendOffered fl)).count v ≤ fs.offered.count v
  seen : ∀ (t : Nat) (op : Op) (r : Res) (v : Nat), ms.calls[t]? = some (.linearized op r) →
      fl.seen op r = some v → v ∈ fs.offered

theorem mem_of_count_pos {l : List Nat} {v : Nat} (h : 0 < l.count v) : v ∈ l :=
  List.count_pos_iff.mp h

theorem count_flatMap_ge {α : Type} (f : α → List Nat) (l : List α) (t : Nat) (a : α)
    (h : l[t]? = some a) (v : Nat) : (f a).count v ≤ (l.flatMap f).count v := by
  induction l generalizing t with
  | nil => simp at h
  | cons x xs ih =>
    cases t with
    | zero => simp at h; subst h; simp [List.flatMap_cons, List.count_append]
    | succ t =>
      simp at h
      have := ih t h
      simp [List.flatMap_cons, List.count_append]; omega

section
variable [DecidableEq Op] [DecidableEq Res]

/-- one checker step on a decorated event is matched by the flow monitor on its history projection -/
theorem flow_step (spec : SeqSpec AS Op Res) (fl : Flow Op Res) (content : AS → List Nat)
    (laws : FlowLaws spec fl content) (ms ms' : LinSt AS Op Res) (fs : FlowSt Op)
    (e : LEv Op Res) (hR : FlowRel fl content ms fs) (hs : (linMon spec).step ms e = some ms') :
    ∃ fs', (monFlow fl).run fs (LEv.toH e).toList = some fs' ∧ FlowRel fl content ms' fs' := by
  have hlen : fs.ops.length = ms.calls.length := by rw [hR.ops]; simp
  cases e with
  | inv t op =>
    simp only [linMon] at hs; split at hs <;> simp at hs; subst hs
    rename_i ht
    refine ⟨{ fs with ops := fs.ops ++ [op], offered := fs.offered ++ fl.offered op }, ?_, ?_⟩
    · simp [LEv.toH, ObsMonitor.run, monFlow, hlen, ht]
    · refine ⟨by simp [hR.ops, CallSt.op], ?_, ?_⟩
      · intro v
        have := hR.bal v
        simp only [count_flatMap_snoc, linTaken, pendOffered, List.count_append, List.count_nil]
        omega
      · intro u op' r v hu hsn
        rcases getElem?_snoc_cases _ _ _ _ hu with ⟨_, hx⟩ | ⟨_, hx⟩
        · exact List.mem_append_left _ (hR.seen u op' r v hx hsn)
        · cases hx
  | lin t op r =>
    simp only [linMon] at hs; split at hs <;> try simp at hs
    rename_i op' hc
    obtain ⟨⟨rfl, hr⟩, rfl⟩ := hs
    refine ⟨fs, by simp [LEv.toH, ObsMonitor.run], ?_⟩
    have hoff : ∀ v, (fl.offered op).count v ≤ fs.offered.count v := by
      intro v
      have h1 := count_flatMap_ge (pendOffered fl) ms.calls t _ hc v
      have h2 := hR.bal v
      simp only [pendOffered] at h1
      omega
    refine ⟨?_, ?_, ?_⟩
    · rw [hR.ops, List.map_set]
      apply List.ext_getElem?
      intro i
      simp only [List.getElem?_set, List.getElem?_map]
      split
      · rename_i h; subst h; rw [hc]; simp [lt_of_getElem? hc, CallSt.op]
      · rfl
    · intro v
      have h0 := hR.bal v
      have h1 := count_flatMap_set (linTaken fl) ms.calls t _ (.linearized op r) hc v
      have h2 := count_flatMap_set (pendOffered fl) ms.calls t _ (.linearized op r) hc v
      have h3 := laws.take ms.st op v
      rw [hr] at h3
      simp only [linTaken, pendOffered, List.count_nil] at h1 h2
      simp only
      omega
    · intro u op' r' v hu hsn
      rcases getElem?_set_cases _ _ _ _ _ hu with ⟨_, hx⟩ | ⟨_, hx⟩
      · cases hx
        rw [← hr] at hsn
        rcases laws.see ms.st op v hsn with h | h
        · have := hR.bal v
          have : 0 < (content ms.st).count v := List.count_pos_iff.mpr h
          exact mem_of_count_pos (by omega)
        · have := hoff v
          have : 0 < (fl.offered op).count v := List.count_pos_iff.mpr h
          exact mem_of_count_pos (by omega)
      · exact hR.seen u op' r' v hx hsn
  | ret t r =>
    simp only [linMon] at hs; split at hs <;> try simp at hs
    rename_i op r' hc
    obtain ⟨hr, rfl⟩ := hs
    subst hr
    have hop : fs.ops[t]? = some op := by rw [hR.ops, List.getElem?_map, hc]; rfl
    have htk : takeOk fs (fl.taken op r) = true := by
      cases htk : fl.taken op r with
      | none => rfl
      | some v =>
        have h1 := count_flatMap_ge (linTaken fl) ms.calls t _ hc v
        have h2 := hR.bal v
        simp only [linTaken, htk, Option.toList_some, List.count_cons_self, List.count_nil] at h1
        simp only [takeOk, decide_eq_true_eq]
        omega
    have hsk : seeOk fs (fl.seen op r) = true := by
      cases hsn : fl.seen op r with
      | none => rfl
      | some v => simpa [seeOk] using hR.seen t op r v hc hsn
    refine ⟨{ fs with taken := (fl.taken op r).toList ++ fs.taken }, ?_, ?_⟩
    · simp [LEv.toH, ObsMonitor.run, monFlow, hop, htk, hsk]
    · refine ⟨?_, ?_, ?_⟩
      · rw [hR.ops, List.map_set]
        apply List.ext_getElem?
        intro i
        simp only [List.getElem?_set, List.getElem?_map]
        split
        · rename_i h; subst h; rw [hc]; simp [lt_of_getElem? hc, CallSt.op]
        · rfl
      · intro v
        have h0 := hR.bal v
        have h1 := count_flatMap_set (linTaken fl) ms.calls t _ (.returned op r) hc v
        have h2 := count_flatMap_set (pendOffered fl) ms.calls t _ (.returned op r) hc v
        simp only [linTaken, pendOffered, List.count_nil] at h1 h2
        simp only [List.count_append]
        omega
      · intro u op' r' v hu hsn
        rcases getElem?_set_cases _ _ _ _ _ hu with ⟨_, hx⟩ | ⟨_, hx⟩
        · cases hx
        · exact hR.seen u op' r' v hx hsn

theorem flow_run (spec : SeqSpec AS Op Res) (fl : Flow Op Res) (content : AS → List Nat)
    (laws : FlowLaws spec fl content) (d : List (LEv Op Res)) (ms ms' : LinSt AS Op Res)
    (fs : FlowSt Op) (hR : FlowRel fl content ms fs) (hrun : (linMon spec).run ms d = some ms') :
    ∃ fs', (monFlow fl).run fs (d.filterMap LEv.toH) = some fs' ∧ FlowRel fl content ms' fs' := by
  induction d generalizing ms fs with
  | nil => simp [ObsMonitor.run] at hrun; subst hrun; exact ⟨fs, rfl, hR⟩
  | cons e d ih =>
    simp only [ObsMonitor.run] at hrun
    cases hs : (linMon spec).step ms e with
    | none => simp [hs] at hrun
    | some m1 =>
      simp [hs] at hrun
      obtain ⟨f1, hf1, hR1⟩ := flow_step spec fl content laws ms m1 fs e hR hs
      obtain ⟨f2, hf2, hR2⟩ := ih m1 f1 hR1 hrun
      refine ⟨f2, ?_, hR2⟩
      have : (e :: d).filterMap LEv.toH = (LEv.toH e).toList ++ d.filterMap LEv.toH := by
        simp only [List.filterMap_cons]; cases LEv.toH e <;> simp
      rw [this, ObsMonitor.run_append, hf1]; exact hf2

/-- **every linearizable history is accepted by the element-flow monitor** -/
theorem flow_of_linearizable (spec : SeqSpec AS Op Res) (fl : Flow Op Res) (content : AS → List Nat)
    (laws : FlowLaws spec fl content) (h : List (HEv Op Res)) (hl : Linearizable spec h) :
    (monFlow fl).accepts h = true := by
  obtain ⟨d, hd, hacc⟩ := hl
  simp only [ObsMonitor.accepts, Option.isSome_iff_exists] at hacc
  obtain ⟨ms', hrun⟩ := hacc
  have h0 : FlowRel fl content (linMon spec).init (monFlow fl).init :=
    ⟨rfl, by intro v; simp [linMon, monFlow, laws.init], by intro t op r v h; simp [linMon] at h⟩
  obtain ⟨fs', hf, _⟩ := flow_run spec fl content laws d _ ms' _ h0 hrun
  simp [ObsMonitor.accepts, ← hd, hf]

end

end UtilModel.Lin
