import UtilModel.Treiber.Proofs
import UtilModel.Treiber.Reduced
import UtilModel.Treiber.MonProofs
import UtilModel.Treiber.LinTextbook
/-!
# AtomicLIFO — property theorems (C12, component `lifo`)

All statements are for **every** event list of the model: any number of calls, any values, every
interleaving of the individual loads and compare-and-swaps, including arbitrarily many failed CASes.
-/
namespace UtilModel.Treiber
open UtilModel UtilModel.Lin

theorem filterMap_toHO (h : List Obs) : h.filterMap Obs.toHO = h.map Obs.toH := by
  induction h with
  | nil => rfl
  | cons o os ih => simp [Obs.toHO, ih]

/-- the decorated trace of a run: observables plus a marker at every linearization point
(successful CAS / load of an empty `top`) -/
def decorated (es : List Ev) : List (LEv SOp SRes) := decorate model Obs.toHO linOf model.init es

/-- **`treiber_refines_stack` (C12).** For every run of the model, the decorated trace is accepted
by the linearization checker of the sequential LIFO stack — i.e. every successful CAS / empty load
is a linearization point that lies between its own call's `inv` and `ret`, occurs exactly once per
completed call, and each call returns exactly what the sequential stack returns at that point
(`Pop` the zero value exactly when the sequential stack is empty) — and the final abstract state of
the sequential stack is the list of values reachable from `top`. -/
theorem treiber_refines_stack (es : List Ev) (s : St) (h : model.run model.init es = some s) :
    ∃ ms, (linMon stackSpec).run (linMon stackSpec).init (decorated es) = some ms ∧
      Denotes s.heap s.top ms.st ∧ ms.calls = s.th.map TS.cs := by
  obtain ⟨ms, hm, hR⟩ := decorate_sim model stackSpec Obs.toHO linOf Rel
    (fun s e s' ms hR hs => sim_step s e s' ms hR hs) es model.init _ s rel_init h
  exact ⟨ms, hm, hR.den, hR.calls⟩

/-- the markers are the only thing `decorated` adds to the observable trace -/
theorem decorated_proj (es : List Ev) (s : St) (h : model.run model.init es = some s) :
    (decorated es).filterMap LEv.toH = (es.filterMap model.obs).map Obs.toH := by
  rw [← filterMap_toHO]; exact decorate_proj model Obs.toHO linOf _ _ es h

/-- **C12 (observable form).** Every observable trace of the model is a linearizable LIFO history. -/
theorem treiber_linearizable (es : List Ev) (s : St) (h : model.run model.init es = some s) :
    Linearizable stackSpec ((es.filterMap model.obs).map Obs.toH) := by
  rw [← filterMap_toHO]
  exact linearizable_of_sim model stackSpec Obs.toHO linOf Rel rel_init
    (fun s e s' ms hR hs => sim_step s e s' ms hR hs) es s h

/-- **`lincheck_sound` (C12).** A history that the driver accepts (trace inclusion in this model,
for any exploration bounds) is linearizable. This is the linearizability check that is run on the
histories recorded from the real `AtomicLIFO`. -/
theorem lincheck_sound (cap fuel : Nat) (h : List Obs) (ha : model.accepts cap fuel h = true) :
    Linearizable stackSpec (h.map Obs.toH) :=
  accepted_satisfies model (fun h => Linearizable stackSpec (h.map Obs.toH))
    (fun es s hr => treiber_linearizable es s hr) cap fuel h ha

/-- …and hence linearizable in the classical sense: there is a legal sequential LIFO history that
contains every completed call with its result, each call at most once and only calls that were
invoked, and that respects the real-time order of the calls. -/
theorem lincheck_sound_textbook (cap fuel : Nat) (h : List Obs) (ha : model.accepts cap fuel h = true) :
    TextbookLinearizable stackSpec (h.map Obs.toH) :=
  linearizable_textbook stackSpec _ (lincheck_sound cap fuel h ha)

/-- **No nil/dangling dereference**: `Pop` never reads `oldTop.next` of a pointer that is not a
node; no call panics. -/
theorem no_crash (es : List Ev) (s : St) (h : model.run model.init es = some s) (t : Nat) :
    s.th[t]? ≠ some .crashed := by
  obtain ⟨ms, _, hR⟩ := decorate_sim model stackSpec Obs.toHO linOf Rel
    (fun s e s' ms hR hs => sim_step s e s' ms hR hs) es model.init _ s rel_init h
  exact hR.nocrash t

/-- **Conservation (C12): nothing lost, nothing duplicated.** For every run and every (non-zero)
value `v`: the number of linearized `Push(v)` equals the number of linearized `Pop`s that returned
`v` plus the number of occurrences of `v` in the stack reachable from `top`. (For `v = 0` a `Pop`
result does not tell "popped a pushed zero" from "empty"; values are positive in the harness.) -/
theorem conservation (es : List Ev) (s : St) (h : model.run model.init es = some s) :
    ∃ l, Denotes s.heap s.top l ∧ ∀ v, 0 < v →
      (pushedOf (decorated es)).count v = (poppedOf (decorated es)).count v + l.count v := by
  obtain ⟨ms, hm, hd, _⟩ := treiber_refines_stack es s h
  refine ⟨ms.st, hd, fun v hv => ?_⟩
  have := stack_conservation _ _ _ hm v hv
  simpa [linMon, stackSpec] using this

/-- **Pop returns the zero value exactly when the sequential stack is empty** (given that only
non-zero values are pushed — otherwise the zero value is ambiguous at the API): at every
linearization point of a `Pop`, the result is `0` iff the abstract stack is empty at that point. -/
theorem pop_zero_iff_empty (l : List Nat) (hpos : ∀ v ∈ l, 0 < v) :
    (stackSpec.apply l .pop).2 = .val 0 ↔ l = [] := by
  cases l with
  | nil => simp [stackSpec]
  | cons v r =>
    have := hpos v (by simp)
    simp [stackSpec]; omega

/-- the abstract stack holds only values whose `Push` was linearized (so: only positive values if
only positive values are pushed) -/
theorem stack_values_pushed (es : List Ev) (s : St) (h : model.run model.init es = some s) :
    ∃ l, Denotes s.heap s.top l ∧ ∀ v ∈ l, v ∈ pushedOf (decorated es) := by
  obtain ⟨ms, hm, hd, _⟩ := treiber_refines_stack es s h
  refine ⟨ms.st, hd, fun v hv => ?_⟩
  have := stack_subset_pushed _ _ _ hm v
  simp only [linMon, stackSpec] at this
  simpa using this hv

/-- **The executable abstraction agrees**: `abs s` (follow `next` from `top`) is the abstract stack. -/
theorem abs_denotes (es : List Ev) (s : St) (h : model.run model.init es = some s) :
    Denotes s.heap s.top (abs s) :=
  abs_denotes_of_ord s (reachable_ord es s h)

/-- **C12 (monitor form).** Every observable trace of the model is accepted by `monC12`: (1) no non-zero
value is popped more often than its `Push` was invoked — with distinct values: never twice and never
before its push was invoked; (2) a `Pop` returns the zero value only if the stack can be empty during
the call: the values whose `Push` returned before the `Pop` was invoked and that no `Pop` has returned
are not more than the other `Pop`s in flight. -/
theorem C12_obs_lifo (es : List Ev) (s : St) (h : model.run model.init es = some s) :
    monC12.accepts (es.filterMap model.obs) = true :=
  monC12_of_linearizable _ (treiber_linearizable es s h)

/-- **Completeness of the reduced search / of the model.** Every linearizable LIFO history is the
observable trace of a run of the model that only uses the internal events the driver tries
(`cands`): no false alarm can come from the reduction, and the model is not more restrictive than
the property. -/
theorem reduced_search_complete (h : List Obs) (hl : Linearizable stackSpec (h.map Obs.toH)) :
    ∃ es s, model.run model.init es = some s ∧ es.filterMap model.obs = h ∧
      ViaCands model.init es :=
  reduced_complete h hl

/-- in particular every observable trace of the (unreduced) model is found by the reduced search -/
theorem reduced_search_covers_model (es : List Ev) (s : St) (h : model.run model.init es = some s) :
    ∃ es' s', model.run model.init es' = some s' ∧ es'.filterMap model.obs = es.filterMap model.obs ∧
      ViaCands model.init es' :=
  reduced_complete _ (treiber_linearizable es s h)

/-- every enabled internal event is one of `allCands` (the unreduced candidate list) -/
theorem allCands_complete (s s' : St) (e : Ev) (hs : step s e = some s') (ho : e.obs = none) :
    e ∈ allCands s :=
  allCands_complete' s s' e hs ho

/-! ## The hypotheses are satisfiable / the model does something non-trivial -/

/-- a run in which a Push's CAS fails because another Push moved `top` in between, then retries -/
example : ∃ s, model.run model.init
    [.invPush 0 7, .invPush 1 8, .load 0, .load 1, .cas 1, .cas 0, .load 0, .cas 0,
     .retPush 0, .retPush 1, .invPop 2, .load 2, .cas 2, .retPop 2 7] = some s ∧ abs s = [8] := by
  refine ⟨_, rfl, by decide⟩

/-- a Pop whose CAS fails because another Pop took the node, then finds the stack empty -/
example : (model.run model.init
    [.invPush 0 7, .load 0, .cas 0, .retPush 0, .invPop 1, .invPop 2, .load 1, .load 2, .cas 2, .cas 1,
     .load 1, .retPop 1 0, .retPop 2 7]).isSome = true := by decide

/-- a history that is not linearizable is rejected: popping a value twice -/
example : model.accepts 1000 100 [.invPush 0 7, .retPush 0, .invPop 1, .retPop 1 7, .invPop 2, .retPop 2 7] = false := by
  decide

end UtilModel.Treiber
