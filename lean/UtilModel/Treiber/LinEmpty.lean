import UtilModel.Treiber.LinFlow
/-!
# Emptiness monitor over histories (history-level part of C12, second clause)

"A call may report *empty* only if the container can be empty at some point of the call."
`monEmpty` checks a sound, cheap consequence on a plain history:

* when a call `P` is invoked (and no wiping operation such as `Reset` is in flight) the monitor
  remembers the multiset `W_P` of values that are **certainly in the container**: offered by calls
  that had *returned* before `P` was invoked (and that did not overlap a wiping operation), minus the
  values already returned by taking calls;
* whenever a taking call returns `v`, one `v` is removed from every such `W_P`; when a wiping
  operation is invoked all `W_P` are dropped;
* when `P` returns a result that claims emptiness (`Pop` = zero value / `(_, false)`, `Peek`,
  `PeekTail` = `(_, false)`, `IsEmpty` = true) the values still in `W_P` must all have been taken by
  calls that are still pending — each of them takes at most one — so
  `|W_P| ≤ number of other pending taking calls`, otherwise the history is rejected: some value was in
  the container during the whole call. (For the stack, where the zero value doubles as "empty", the
  clause is switched off once a zero has been pushed.)

`empty_of_linearizable`: every linearizable history satisfies `monEmpty` (given `EmptyLaws`).
-/
namespace UtilModel.Lin

variable {AS Op Res : Type}

/-! ## Small list lemmas -/

/-- multiset difference -/
def msub (l : List Nat) : List Nat → List Nat
  | [] => l
  | t :: ts => msub (l.erase t) ts

theorem count_msub (l ts : List Nat) (v : Nat) : (msub l ts).count v = l.count v - ts.count v := by
  induction ts generalizing l with
  | nil => simp [msub]
  | cons t ts ih =>
    simp only [msub, ih, List.count_erase, List.count_cons]
    split <;> omega

theorem length_le_of_count_le (A B : List Nat) (h : ∀ v, A.count v ≤ B.count v) :
    A.length ≤ B.length := by
  induction A generalizing B with
  | nil => simp
  | cons a A ih =>
    have ha : a ∈ B := by
      have := h a; simp at this
      exact List.count_pos_iff.mp (by omega)
    have h' : ∀ v, A.count v ≤ (B.erase a).count v := by
      intro v
      have := h v
      simp only [List.count_cons, List.count_erase] at this ⊢
      split <;> split at this <;> omega
    have := ih (B.erase a) h'
    rw [List.length_erase_of_mem ha] at this
    have : 0 < B.length := List.length_pos_of_mem ha
    simp only [List.length_cons]; omega

theorem length_flatMap_le_countP {α : Type} (f : α → List Nat) (p : α → Bool) (l : List α)
    (h : ∀ c, (f c).length ≤ if p c then 1 else 0) : (l.flatMap f).length ≤ l.countP p := by
  induction l with
  | nil => simp
  | cons x xs ih =>
    have := h x
    simp only [List.flatMap_cons, List.length_append, List.countP_cons]
    omega

theorem count_flatMap_drop_set {α : Type} (f : α → List Nat) (l : List α) (k t : Nat) (a b : α)
    (h : l[t]? = some a) (v : Nat) :
    (((l.set t b).drop k).flatMap f).count v + (if k ≤ t then (f a).count v else 0)
      = ((l.drop k).flatMap f).count v + (if k ≤ t then (f b).count v else 0) := by
  induction l generalizing k t with
  | nil => simp at h
  | cons x xs ih =>
    cases k with
    | zero => simpa using count_flatMap_set f (x :: xs) t a b h v
    | succ k =>
      cases t with
      | zero => simp
      | succ t =>
        simp at h
        have := ih k t h
        simpa using this

theorem count_flatMap_drop_snoc {α : Type} (f : α → List Nat) (l : List α) (k : Nat) (b : α)
    (hb : f b = []) (v : Nat) :
    (((l ++ [b]).drop k).flatMap f).count v = ((l.drop k).flatMap f).count v := by
  induction l generalizing k with
  | nil => cases k <;> simp [hb]
  | cons x xs ih =>
    cases k with
    | zero => simp [List.flatMap_append, hb]
    | succ k => simpa using ih k

/-! ## The monitor -/

structure ECall (Op : Type) where
  op : Op
  returned : Bool
  /-- values certainly in the container when the call was invoked and not known to be taken since -/
  watch : Option (List Nat)

structure EmpSt (Op : Type) where
  calls : List (ECall Op) := []
  /-- all values offered by invocations so far -/
  allOff : List Nat := []
  /-- values offered by calls that have returned, did not overlap a wiping operation, and returned
  after the last wiping operation returned -/
  R : List Nat := []
  /-- values returned by taking calls -/
  T : List Nat := []
  /-- calls with an id below `cf` overlapped a wiping operation ("tainted") -/
  cf : Nat := 0
  /-- number of wiping operations in flight -/
  wip : Nat := 0
  /-- number of taking operations in flight -/
  ut : Nat := 0

def eraseOpt (o : Option Nat) (w : List Nat) : List Nat :=
  match o with
  | none => w
  | some v => w.erase v

def ECall.void (c : ECall Op) : ECall Op := { c with watch := none }

def ECall.took (o : Option Nat) (c : ECall Op) : ECall Op := { c with watch := c.watch.map (eraseOpt o) }

/-- the emptiness clause for a returning call -/
def emptyOk (fl : Flow Op Res) (es : EmpSt Op) (c : ECall Op) (r : Res) (ut' : Nat) : Bool :=
  match c.watch with
  | some w => !(fl.emptyRes c.op r) || es.allOff.contains 0 || decide (w.length ≤ ut')
  | none => true

def monEmpty (fl : Flow Op Res) : ObsMonitor (HEv Op Res) (EmpSt Op) where
  init := {}
  step := fun es e =>
    match e with
    | .inv t op =>
      if t = es.calls.length then
        let wip' := es.wip + (if fl.wipes op then 1 else 0)
        some { calls := (if fl.wipes op then es.calls.map ECall.void else es.calls) ++
                 [⟨op, false, if wip' = 0 then some (msub es.R es.T) else none⟩]
               allOff := es.allOff ++ fl.offered op
               R := es.R
               T := es.T
               cf := if wip' = 0 then es.cf else es.calls.length + 1
               wip := wip'
               ut := es.ut + (if fl.mayTake op then 1 else 0) }
      else none
    | .ret t r =>
      match es.calls[t]? with
      | none => none
      | some c =>
        if c.returned then none
        else
          let ut' := es.ut - (if fl.mayTake c.op then 1 else 0)
          if emptyOk fl es c r ut' then
            some { calls := (es.calls.set t { c with returned := true }).map (ECall.took (fl.taken c.op r))
                   allOff := es.allOff
                   R := if fl.wipes c.op then [] else if es.cf ≤ t then es.R ++ fl.offered c.op else es.R
                   T := (fl.taken c.op r).toList ++ es.T
                   cf := es.cf
                   wip := es.wip - (if fl.wipes c.op then 1 else 0)
                   ut := ut' }
          else none

/-- laws tying the flow description to the specification, for the emptiness clause -/
structure EmptyLaws (spec : SeqSpec AS Op Res) (fl : Flow Op Res) (content : AS → List Nat) : Prop where
  /-- an operation that does not wipe loses nothing (as long as no zero is around: for a container
  whose "empty" result is the zero value a taken zero is not visible as taken) -/
  keep : ∀ (a : AS) (op : Op) (v : Nat), fl.wipes op = false → 0 ∉ content a → 0 ∉ fl.offered op →
    (content a).count v + (fl.offered op).count v
      ≤ (content (spec.apply a op).1).count v + ((fl.taken op (spec.apply a op).2).toList).count v
  /-- a result that claims emptiness is only produced on an empty container (or, for a container
  whose "empty" result is the zero value, on one that contains a zero) -/
  empty : ∀ (a : AS) (op : Op), fl.emptyRes op (spec.apply a op).2 = true →
    content a = [] ∨ 0 ∈ content a
  empty_notake : ∀ (op : Op) (r : Res), fl.emptyRes op r = true → fl.taken op r = none
  take_may : ∀ (op : Op) (r : Res) (v : Nat), fl.taken op r = some v → fl.mayTake op = true

/-- product of two monitors over the same observables -/
def _root_.UtilModel.ObsMonitor.prod {ο μ ν : Type} (m : ObsMonitor ο μ) (n : ObsMonitor ο ν) :
    ObsMonitor ο (μ × ν) where
  init := (m.init, n.init)
  step := fun s o =>
    match m.step s.1 o, n.step s.2 o with
    | some a, some b => some (a, b)
    | _, _ => none

theorem prod_run {ο μ ν : Type} (m : ObsMonitor ο μ) (n : ObsMonitor ο ν) (a a' : μ) (b b' : ν)
    (h : List ο) (h1 : m.run a h = some a') (h2 : n.run b h = some b') :
    (m.prod n).run (a, b) h = some (a', b') := by
  induction h generalizing a b with
  | nil => simp [ObsMonitor.run] at h1 h2 ⊢; simp [h1, h2]
  | cons o os ih =>
    simp only [ObsMonitor.run] at h1 h2 ⊢
    cases hm : m.step a o with
    | none => simp [hm] at h1
    | some a1 =>
      cases hn : n.step b o with
      | none => simp [hn] at h2
      | some b1 =>
        simp [hm] at h1; simp [hn] at h2
        have : (m.prod n).step (a, b) o = some (a1, b1) := by simp [ObsMonitor.prod, hm, hn]
        simp [this, ih a1 b1 h1 h2]

theorem prod_accepts {ο μ ν : Type} (m : ObsMonitor ο μ) (n : ObsMonitor ο ν) (h : List ο)
    (h1 : m.accepts h = true) (h2 : n.accepts h = true) : (m.prod n).accepts h = true := by
  simp only [ObsMonitor.accepts, Option.isSome_iff_exists] at h1 h2 ⊢
  obtain ⟨a', ha⟩ := h1
  obtain ⟨b', hb⟩ := h2
  exact ⟨(a', b'), prod_run m n _ _ _ _ h ha hb⟩

/-! ## Proof: linearizable ⇒ emptiness monitor accepts -/

def CallSt.isRet : CallSt Op Res → Bool
  | .returned _ _ => true
  | _ => false

/-- wiping call in flight -/
def wUn (fl : Flow Op Res) (c : CallSt Op Res) : Bool := !c.isRet && fl.wipes c.op

/-- taking call in flight -/
def tUn (fl : Flow Op Res) (c : CallSt Op Res) : Bool := !c.isRet && fl.mayTake c.op

/-- values inserted by a call that has taken effect but not returned -/
def linOff (fl : Flow Op Res) : CallSt Op Res → List Nat
  | .linearized op _ => fl.offered op
  | _ => []

structure ERel (fl : Flow Op Res) (content : AS → List Nat)
    (ms : LinSt AS Op Res) (es : EmpSt Op) : Prop where
  len : es.calls.length = ms.calls.length
  shape : ∀ (t : Nat) (c : CallSt Op Res), ms.calls[t]? = some c →
    ∃ e, es.calls[t]? = some e ∧ e.op = c.op ∧ e.returned = c.isRet
  wip : es.wip = ms.calls.countP (wUn fl)
  ut : es.ut = ms.calls.countP (tUn fl)
  offc : ∀ v, v ∈ content ms.st → v ∈ es.allOff
  offp : ∀ (t : Nat) (c : CallSt Op Res), ms.calls[t]? = some c → ∀ v, v ∈ fl.offered c.op → v ∈ es.allOff
  cfle : es.cf ≤ ms.calls.length
  cfw : 0 < es.wip → es.cf = ms.calls.length
  main : es.wip = 0 → 0 ∉ es.allOff → ∀ v : Nat, es.R.count v + ((ms.calls.drop es.cf).flatMap (linOff fl)).count v
      ≤ (content ms.st).count v + (ms.calls.flatMap (linTaken fl)).count v + es.T.count v
  wpend : ∀ (t : Nat) (op : Op) (e : ECall Op) (w : List Nat), ms.calls[t]? = some (.pending op) →
      es.calls[t]? = some e → e.watch = some w →
      es.wip = 0 ∧ (0 ∉ es.allOff →
        ∀ v : Nat, w.count v ≤ (content ms.st).count v + (ms.calls.flatMap (linTaken fl)).count v)
  wlin : ∀ (t : Nat) (op : Op) (r : Res) (e : ECall Op) (w : List Nat),
      ms.calls[t]? = some (.linearized op r) → es.calls[t]? = some e → e.watch = some w →
      fl.emptyRes op r = true → 0 ∉ es.allOff →
      ∀ v : Nat, w.count v ≤ (ms.calls.flatMap (linTaken fl)).count v

section
variable [DecidableEq Op] [DecidableEq Res]

theorem erel_init (spec : SeqSpec AS Op Res) (fl : Flow Op Res) (content : AS → List Nat)
    (h0 : content spec.init = []) : ERel fl content (linMon spec).init (monEmpty fl).init := by
  refine ⟨rfl, ?_, rfl, rfl, ?_, ?_, ?_, ?_, ?_, ?_, ?_⟩
  · intro t c h; simp [linMon] at h
  · intro v h; simp [linMon, h0] at h
  · intro t c h; simp [linMon] at h
  · simp [linMon, monEmpty]
  · intro h; simp [monEmpty] at h
  · intro _ _ v; simp [linMon, monEmpty, h0]
  · intro t op e w h; simp [linMon] at h
  · intro t op r e w h; simp [linMon] at h

/-- `inv` -/
theorem emp_inv (fl : Flow Op Res) (content : AS → List Nat) (ms : LinSt AS Op Res) (es : EmpSt Op)
    (op : Op) (hR : ERel fl content ms es) :
    ∃ es', (monEmpty fl).step es (.inv ms.calls.length op) = some es' ∧
      ERel fl content { ms with calls := ms.calls ++ [.pending op] } es' := by
  have hlen := hR.len
  have hlt : ∀ (u : Nat) (x : CallSt Op Res), ms.calls[u]? = some x → u < es.calls.length := by
    intro u x hu; rw [hlen]; exact lt_of_getElem? hu
  by_cases hw : fl.wipes op = true
  · -- a wiping operation is invoked: all watches are dropped, everybody is tainted
    refine ⟨{ calls := es.calls.map ECall.void ++ [⟨op, false, none⟩], allOff := es.allOff ++ fl.offered op,
              R := es.R, T := es.T, cf := es.calls.length + 1, wip := es.wip + 1,
              ut := es.ut + (if fl.mayTake op then 1 else 0) }, by simp [monEmpty, hlen, hw], ?_⟩
    have hget : ∀ u, u < es.calls.length →
        (es.calls.map ECall.void ++ [(⟨op, false, none⟩ : ECall Op)])[u]? = (es.calls[u]?).map ECall.void := by
      intro u hu
      rw [List.getElem?_append_left (by simpa using hu), List.getElem?_map]
    refine ⟨by simp [hlen], ?_, ?_, ?_, ?_, ?_, by simp [hlen], by intro _; simp [hlen], by intro h; simp at h, ?_, ?_⟩
    · intro u c hu
      rcases getElem?_snoc_cases _ _ _ _ hu with ⟨_, hx⟩ | ⟨hx, hy⟩
      · obtain ⟨e, he, h1, h2⟩ := hR.shape u c hx
        exact ⟨e.void, by simp [hget u (hlt u c hx), he], h1, h2⟩
      · subst hy; subst hx
        exact ⟨⟨op, false, none⟩, by simp [← hlen], rfl, rfl⟩
    · simp [countP_append_one, wUn, CallSt.isRet, CallSt.op, hw, hR.wip]
    · simp only [countP_append_one, tUn, CallSt.isRet, CallSt.op, hR.ut]; simp
    · intro v hv; exact List.mem_append_left _ (hR.offc v hv)
    · intro u c hu v hv
      rcases getElem?_snoc_cases _ _ _ _ hu with ⟨_, hx⟩ | ⟨_, hy⟩
      · exact List.mem_append_left _ (hR.offp u c hx v hv)
      · subst hy; exact List.mem_append_right _ hv
    · intro u op' e w hu he hwt
      exfalso
      rcases getElem?_snoc_cases _ _ _ _ hu with ⟨_, hx⟩ | ⟨hx, _⟩
      · rw [hget u (hlt u _ hx)] at he
        cases h : es.calls[u]? with
        | none => simp [h] at he
        | some e0 => simp [h] at he; subst he; simp [ECall.void] at hwt
      · subst hx; simp [← hlen] at he; subst he; simp at hwt
    · intro u op' r e w hu he hwt
      exfalso
      rcases getElem?_snoc_cases _ _ _ _ hu with ⟨_, hx⟩ | ⟨hx, _⟩
      · rw [hget u (hlt u _ hx)] at he
        cases h : es.calls[u]? with
        | none => simp [h] at he
        | some e0 => simp [h] at he; subst he; simp [ECall.void] at hwt
      · subst hx; simp [← hlen] at he; subst he; simp at hwt
  · have hw' : fl.wipes op = false := by simpa using hw
    refine ⟨{ calls := es.calls ++ [⟨op, false, if es.wip = 0 then some (msub es.R es.T) else none⟩],
              allOff := es.allOff ++ fl.offered op, R := es.R, T := es.T,
              cf := if es.wip = 0 then es.cf else es.calls.length + 1, wip := es.wip,
              ut := es.ut + (if fl.mayTake op then 1 else 0) }, by simp [monEmpty, hlen, hw'], ?_⟩
    have hget : ∀ (u : Nat) (x : ECall Op), u < es.calls.length →
        (es.calls ++ [x])[u]? = es.calls[u]? := by
      intro u x hu; rw [List.getElem?_append_left hu]
    have hlt0 : ∀ v : Nat, ((ms.calls ++ [CallSt.pending op]).flatMap (linTaken fl)).count v
        = (ms.calls.flatMap (linTaken fl)).count v := by
      intro v; simp [count_flatMap_snoc, linTaken]
    refine ⟨by simp [hlen], ?_, ?_, ?_, ?_, ?_, ?_, ?_, ?_, ?_, ?_⟩
    · intro u c hu
      rcases getElem?_snoc_cases _ _ _ _ hu with ⟨_, hx⟩ | ⟨hx, hy⟩
      · obtain ⟨e, he, h1, h2⟩ := hR.shape u c hx
        exact ⟨e, by rw [hget u _ (hlt u c hx)]; exact he, h1, h2⟩
      · subst hy; subst hx
        exact ⟨⟨op, false, if es.wip = 0 then some (msub es.R es.T) else none⟩, by simp [← hlen], rfl, rfl⟩
    · simp [countP_append_one, wUn, CallSt.isRet, CallSt.op, hw', hR.wip]
    · simp only [countP_append_one, tUn, CallSt.isRet, CallSt.op, hR.ut]; simp
    · intro v hv; exact List.mem_append_left _ (hR.offc v hv)
    · intro u c hu v hv
      rcases getElem?_snoc_cases _ _ _ _ hu with ⟨_, hx⟩ | ⟨_, hy⟩
      · exact List.mem_append_left _ (hR.offp u c hx v hv)
      · subst hy; exact List.mem_append_right _ hv
    · simp only [List.length_append, List.length_singleton]
      split
      · have := hR.cfle; omega
      · rw [hlen]; omega
    · intro h0
      have h0' : 0 < es.wip := h0
      have : ¬ (es.wip = 0) := by omega
      simp [this, hlen]
    · intro h0 hz v
      have h0' : es.wip = 0 := h0
      simp only [h0', if_true]
      rw [count_flatMap_drop_snoc _ _ _ _ (by simp [linOff]), hlt0]
      exact hR.main h0' (fun h => hz (List.mem_append_left _ h)) v
    · intro u op' e w hu he hwt
      rw [show ({ ms with calls := ms.calls ++ [CallSt.pending op] } : LinSt AS Op Res).st = ms.st from rfl]
      simp only [hlt0]
      rcases getElem?_snoc_cases _ _ _ _ hu with ⟨_, hx⟩ | ⟨hx, _⟩
      · rw [hget u _ (hlt u _ hx)] at he
        obtain ⟨a, b⟩ := hR.wpend u op' e w hx he hwt
        exact ⟨a, fun hz => b (fun h => hz (List.mem_append_left _ h))⟩
      · subst hx
        simp [← hlen] at he; subst he
        simp only at hwt
        split at hwt
        · rename_i h0
          simp at hwt; subst hwt
          refine ⟨h0, fun hz v => ?_⟩
          have := hR.main h0 (fun h => hz (List.mem_append_left _ h)) v
          rw [count_msub]; omega
        · simp at hwt
    · intro u op' r e w hu he hwt hem h0 v
      rw [hlt0]
      rcases getElem?_snoc_cases _ _ _ _ hu with ⟨_, hx⟩ | ⟨_, hy⟩
      · rw [hget u _ (hlt u _ hx)] at he
        exact hR.wlin u op' r e w hx he hwt hem (fun h => h0 (List.mem_append_left _ h)) v
      · cases hy

/-- `lin` (invisible to the monitor) -/
theorem emp_lin (spec : SeqSpec AS Op Res) (fl : Flow Op Res) (content : AS → List Nat)
    (fla : FlowLaws spec fl content) (ela : EmptyLaws spec fl content)
    (ms : LinSt AS Op Res) (es : EmpSt Op) (t : Nat) (op : Op)
    (hc : ms.calls[t]? = some (.pending op)) (hR : ERel fl content ms es) :
    ERel fl content { st := (spec.apply ms.st op).1,
                      calls := ms.calls.set t (.linearized op (spec.apply ms.st op).2) } es := by
  have hlt := lt_of_getElem? hc
  have hT : ∀ v : Nat, ((ms.calls.set t (CallSt.linearized op (spec.apply ms.st op).2)).flatMap (linTaken fl)).count v
      = (ms.calls.flatMap (linTaken fl)).count v + ((fl.taken op (spec.apply ms.st op).2).toList).count v := by
    intro v
    have := count_flatMap_set (linTaken fl) ms.calls t _ (.linearized op (spec.apply ms.st op).2) hc v
    simpa [linTaken] using this
  have hnw : es.wip = 0 → fl.wipes op = false := by
    intro h0
    cases hw : fl.wipes op with
    | false => rfl
    | true =>
      have := countP_pos_of_getElem? (wUn fl) ms.calls t _ hc (by simp [wUn, CallSt.isRet, CallSt.op, hw])
      rw [← hR.wip] at this; omega
  have hkeep : es.wip = 0 → 0 ∉ es.allOff → ∀ v : Nat, (content ms.st).count v + (fl.offered op).count v
      ≤ (content (spec.apply ms.st op).1).count v + ((fl.taken op (spec.apply ms.st op).2).toList).count v :=
    fun h0 hz v => ela.keep ms.st op v (hnw h0) (fun h => hz (hR.offc 0 h))
      (fun h => hz (hR.offp t _ hc 0 (by simpa [CallSt.op] using h)))
  have hmono : es.wip = 0 → 0 ∉ es.allOff → ∀ v : Nat, (content ms.st).count v + (ms.calls.flatMap (linTaken fl)).count v
      ≤ (content (spec.apply ms.st op).1).count v +
        ((ms.calls.set t (CallSt.linearized op (spec.apply ms.st op).2)).flatMap (linTaken fl)).count v := by
    intro h0 hz v
    have := hkeep h0 hz v
    rw [hT]; omega
  refine ⟨by simp [hR.len], ?_, ?_, ?_, ?_, ?_, by simpa using hR.cfle, by simpa using hR.cfw, ?_, ?_, ?_⟩
  · intro u c hu
    rcases getElem?_set_cases _ _ _ _ _ hu with ⟨hx, hy⟩ | ⟨_, hx⟩
    · subst hx; subst hy
      obtain ⟨e, he, h1, h2⟩ := hR.shape u _ hc
      exact ⟨e, he, h1, h2⟩
    · exact hR.shape u c hx
  · have := countP_set (wUn fl) ms.calls t _ (.linearized op (spec.apply ms.st op).2) hc
    have e1 : wUn fl (CallSt.pending op) = wUn fl (CallSt.linearized op (spec.apply ms.st op).2) := rfl
    rw [e1] at this
    rw [hR.wip]; simp only at this ⊢; omega
  · have := countP_set (tUn fl) ms.calls t _ (.linearized op (spec.apply ms.st op).2) hc
    have e1 : tUn fl (CallSt.pending op) = tUn fl (CallSt.linearized op (spec.apply ms.st op).2) := rfl
    rw [e1] at this
    rw [hR.ut]; simp only at this ⊢; omega
  · intro v hv
    have h1 := fla.take ms.st op v
    have h2 : 0 < (content (spec.apply ms.st op).1).count v := List.count_pos_iff.mpr hv
    by_cases hcv : 0 < (content ms.st).count v
    · exact hR.offc v (List.count_pos_iff.mp hcv)
    · exact hR.offp t _ hc v (List.count_pos_iff.mp (by simp only [CallSt.op]; omega))
  · intro u c hu v hv
    rcases getElem?_set_cases _ _ _ _ _ hu with ⟨_, hy⟩ | ⟨_, hx⟩
    · subst hy; exact hR.offp t _ hc v hv
    · exact hR.offp u c hx v hv
  · intro h0 hz v
    have h1 := hR.main h0 hz v
    have h2 := count_flatMap_drop_set (linOff fl) ms.calls es.cf t _ (.linearized op (spec.apply ms.st op).2) hc v
    have h3 := hkeep h0 hz v
    simp only [linOff, List.count_nil] at h2
    simp only [hT]
    split at h2 <;> omega
  · intro u op' e w hu he hwt
    have hne : u ≠ t := by
      intro h; subst h; simp [hlt] at hu
    rw [getElem?_set_ne' _ _ _ _ (Ne.symm hne)] at hu
    obtain ⟨h0, hb⟩ := hR.wpend u op' e w hu he hwt
    exact ⟨h0, fun hz v => Nat.le_trans (hb hz v) (hmono h0 hz v)⟩
  · intro u op' r e w hu he hwt hem h0 v
    rw [hT]
    rcases getElem?_set_cases _ _ _ _ _ hu with ⟨hx, hy⟩ | ⟨_, hx⟩
    · subst hx; cases hy
      obtain ⟨_, hb⟩ := hR.wpend u op e w hc he hwt
      have hcont : content ms.st = [] := by
        rcases ela.empty ms.st op hem with h | h
        · exact h
        · exact absurd (hR.offc 0 h) h0
      have := hb h0 v
      rw [hcont] at this; simp at this; omega
    · have := hR.wlin u op' r e w hx he hwt hem h0 v
      omega

theorem linTaken_le_tUn (fl : Flow Op Res) (content : AS → List Nat) (spec : SeqSpec AS Op Res)
    (ela : EmptyLaws spec fl content) (c : CallSt Op Res) :
    (linTaken fl c).length ≤ if tUn fl c then 1 else 0 := by
  cases c with
  | pending op => simp [linTaken]
  | returned op r => simp [linTaken]
  | linearized op r =>
    cases h : fl.taken op r with
    | none => simp [linTaken, h]
    | some v => simp [linTaken, h, tUn, CallSt.isRet, CallSt.op, ela.take_may op r v h]

theorem count_eraseOpt (o : Option Nat) (w : List Nat) (v : Nat) :
    (eraseOpt o w).count v = w.count v - o.toList.count v := by
  cases o with
  | none => simp [eraseOpt]
  | some x => simp [eraseOpt, List.count_erase, List.count_cons]

/-- `ret` -/
theorem emp_ret (spec : SeqSpec AS Op Res) (fl : Flow Op Res) (content : AS → List Nat)
    (ela : EmptyLaws spec fl content) (ms : LinSt AS Op Res) (es : EmpSt Op) (t : Nat) (op : Op) (r : Res)
    (hc : ms.calls[t]? = some (.linearized op r)) (hR : ERel fl content ms es) :
    ∃ es', (monEmpty fl).step es (.ret t r) = some es' ∧
      ERel fl content { ms with calls := ms.calls.set t (.returned op r) } es' := by
  have hlt := lt_of_getElem? hc
  obtain ⟨e, he, hop, hret⟩ := hR.shape t _ hc
  simp only [CallSt.op, CallSt.isRet] at hop hret
  have helt : t < es.calls.length := lt_of_getElem? he
  -- linTaken / counters after the step
  have hT : ∀ v : Nat, ((ms.calls.set t (CallSt.returned op r)).flatMap (linTaken fl)).count v
      + ((fl.taken op r).toList).count v = (ms.calls.flatMap (linTaken fl)).count v := by
    intro v
    have := count_flatMap_set (linTaken fl) ms.calls t _ (.returned op r) hc v
    simpa [linTaken] using this
  have hut : (ms.calls.set t (CallSt.returned op r)).countP (tUn fl) = es.ut - (if fl.mayTake op then 1 else 0) := by
    have := countP_set (tUn fl) ms.calls t _ (.returned op r) hc
    simp only [tUn, CallSt.isRet, CallSt.op, Bool.not_false, Bool.true_and, Bool.not_true, Bool.false_and,
      Bool.false_eq_true, if_false] at this
    rw [hR.ut]; omega
  have hwip : (ms.calls.set t (CallSt.returned op r)).countP (wUn fl) = es.wip - (if fl.wipes op then 1 else 0) := by
    have := countP_set (wUn fl) ms.calls t _ (.returned op r) hc
    simp only [wUn, CallSt.isRet, CallSt.op, Bool.not_false, Bool.true_and, Bool.not_true, Bool.false_and,
      Bool.false_eq_true, if_false] at this
    rw [hR.wip]; omega
  have hwpos : fl.wipes op = true → 0 < es.wip := by
    intro hw
    have := countP_pos_of_getElem? (wUn fl) ms.calls t _ hc (by simp [wUn, CallSt.isRet, CallSt.op, hw])
    rw [hR.wip]; exact this
  -- the emptiness clause holds
  have hok : emptyOk fl es e r (es.ut - (if fl.mayTake e.op then 1 else 0)) = true := by
    unfold emptyOk
    cases hwt : e.watch with
    | none => rfl
    | some w =>
      simp only [hop]
      cases hem : fl.emptyRes op r with
      | false => simp
      | true =>
        by_cases h0 : 0 ∈ es.allOff
        · simp [h0]
        · have hb := hR.wlin t op r e w hc he hwt hem h0
          have hnt := ela.empty_notake op r hem
          have hb' : ∀ v, w.count v ≤ ((ms.calls.set t (CallSt.returned op r)).flatMap (linTaken fl)).count v := by
            intro v
            have := hT v
            rw [hnt] at this; simp at this
            rw [this]; exact hb v
          have h1 := length_le_of_count_le _ _ hb'
          have h2 := length_flatMap_le_countP (linTaken fl) (tUn fl) (ms.calls.set t (CallSt.returned op r))
            (linTaken_le_tUn fl content spec ela)
          rw [hut] at h2
          simp [h0]; omega
  refine ⟨{ calls := (es.calls.set t { e with returned := true }).map (ECall.took (fl.taken op r)),
            allOff := es.allOff,
            R := if fl.wipes op then [] else if es.cf ≤ t then es.R ++ fl.offered op else es.R,
            T := (fl.taken op r).toList ++ es.T, cf := es.cf,
            wip := es.wip - (if fl.wipes op then 1 else 0),
            ut := es.ut - (if fl.mayTake op then 1 else 0) }, ?_, ?_⟩
  · simp only [monEmpty, he, hret, Bool.false_eq_true, if_false, hok, if_true]
    simp only [hop]
  have hget : ∀ u, u ≠ t →
      ((es.calls.set t { e with returned := true }).map (ECall.took (fl.taken op r)))[u]?
        = (es.calls[u]?).map (ECall.took (fl.taken op r)) := by
    intro u hu
    rw [List.getElem?_map, getElem?_set_ne' _ _ _ _ (Ne.symm hu)]
  refine ⟨by simp [hR.len], ?_, hwip.symm, hut.symm, hR.offc, ?_, by simpa using hR.cfle, ?_, ?_, ?_, ?_⟩
  · intro u c hu
    rcases getElem?_set_cases _ _ _ _ _ hu with ⟨hx, hy⟩ | ⟨hne, hx⟩
    · subst hx; subst hy
      exact ⟨ECall.took (fl.taken op r) { e with returned := true },
        by simp [List.getElem?_map, helt], by simp [ECall.took, hop, CallSt.op], by simp [ECall.took, CallSt.isRet]⟩
    · obtain ⟨e', he', h1, h2⟩ := hR.shape u c hx
      exact ⟨ECall.took (fl.taken op r) e', by rw [hget u hne, he']; rfl, by simpa [ECall.took] using h1,
        by simpa [ECall.took] using h2⟩
  · intro u c hu v hv
    rcases getElem?_set_cases _ _ _ _ _ hu with ⟨_, hy⟩ | ⟨_, hx⟩
    · subst hy; exact hR.offp t _ hc v hv
    · exact hR.offp u c hx v hv
  · intro h0
    have h0' : 0 < es.wip - (if fl.wipes op then 1 else 0) := h0
    have := hR.cfw (by omega)
    simpa using this
  · intro h0 hz v
    have h0' : es.wip - (if fl.wipes op then 1 else 0) = 0 := h0
    have h2 := count_flatMap_drop_set (linOff fl) ms.calls es.cf t _ (.returned op r) hc v
    simp only [linOff, List.count_nil] at h2
    have h3 := hT v
    cases hw : fl.wipes op with
    | true =>
      have hcf := hR.cfw (hwpos hw)
      simp only [if_true, List.count_nil, Nat.zero_add]
      have hd : (ms.calls.set t (CallSt.returned op r)).drop es.cf = [] := by
        apply List.drop_of_length_le; simp [hcf]
      rw [hd]; simp
    | false =>
      simp only [hw, Bool.false_eq_true, if_false, Nat.sub_zero] at h0'
      have h1 := hR.main h0' hz v
      simp only [Bool.false_eq_true, if_false, List.count_append]
      split <;> rename_i hcft <;> simp only [hcft, if_true, if_false, List.count_append] at h2 ⊢ <;> omega
  · intro u op' e' w' hu he' hwt'
    have hne : u ≠ t := by intro h; subst h; simp [hlt] at hu
    rw [getElem?_set_ne' _ _ _ _ (Ne.symm hne)] at hu
    rw [hget u hne] at he'
    cases h : es.calls[u]? with
    | none => simp [h] at he'
    | some e0 =>
      simp [h] at he'; subst he'
      cases hw0 : e0.watch with
      | none => simp [ECall.took, hw0] at hwt'
      | some w0 =>
        simp [ECall.took, hw0] at hwt'; subst hwt'
        obtain ⟨h0, hb⟩ := hR.wpend u op' e0 w0 hu h hw0
        refine ⟨by show es.wip - _ = 0; omega, fun hz v => ?_⟩
        have h1 := hb hz v
        have h2 := hT v
        rw [count_eraseOpt]
        dsimp only
        omega
  · intro u op' r' e' w' hu he' hwt' hem h0 v
    have hne : u ≠ t := by intro h; subst h; simp [hlt] at hu
    rw [getElem?_set_ne' _ _ _ _ (Ne.symm hne)] at hu
    rw [hget u hne] at he'
    cases h : es.calls[u]? with
    | none => simp [h] at he'
    | some e0 =>
      simp [h] at he'; subst he'
      cases hw0 : e0.watch with
      | none => simp [ECall.took, hw0] at hwt'
      | some w0 =>
        simp [ECall.took, hw0] at hwt'; subst hwt'
        have h1 := hR.wlin u op' r' e0 w0 hu h hw0 hem h0 v
        have h2 := hT v
        rw [count_eraseOpt]
        dsimp only
        omega

theorem emp_step (spec : SeqSpec AS Op Res) (fl : Flow Op Res) (content : AS → List Nat)
    (fla : FlowLaws spec fl content) (ela : EmptyLaws spec fl content)
    (ms ms' : LinSt AS Op Res) (es : EmpSt Op) (e : LEv Op Res) (hR : ERel fl content ms es)
    (hs : (linMon spec).step ms e = some ms') :
    ∃ es', (monEmpty fl).run es (LEv.toH e).toList = some es' ∧ ERel fl content ms' es' := by
  cases e with
  | inv t op =>
    simp only [linMon] at hs; split at hs <;> simp at hs; subst hs
    rename_i ht; subst ht
    obtain ⟨es', h1, h2⟩ := emp_inv fl content ms es op hR
    exact ⟨es', by simp [LEv.toH, ObsMonitor.run, h1], h2⟩
  | lin t op r =>
    simp only [linMon] at hs; split at hs <;> try simp at hs
    rename_i op' hc
    obtain ⟨⟨rfl, hr⟩, rfl⟩ := hs
    subst hr
    exact ⟨es, by simp [LEv.toH, ObsMonitor.run], emp_lin spec fl content fla ela ms es t op hc hR⟩
  | ret t r =>
    simp only [linMon] at hs; split at hs <;> try simp at hs
    rename_i op r' hc
    obtain ⟨hr, rfl⟩ := hs
    subst hr
    obtain ⟨es', h1, h2⟩ := emp_ret spec fl content ela ms es t op r hc hR
    exact ⟨es', by simp [LEv.toH, ObsMonitor.run, h1], h2⟩

theorem emp_run (spec : SeqSpec AS Op Res) (fl : Flow Op Res) (content : AS → List Nat)
    (fla : FlowLaws spec fl content) (ela : EmptyLaws spec fl content)
    (d : List (LEv Op Res)) (ms ms' : LinSt AS Op Res) (es : EmpSt Op)
    (hR : ERel fl content ms es) (hrun : (linMon spec).run ms d = some ms') :
    ∃ es', (monEmpty fl).run es (d.filterMap LEv.toH) = some es' ∧ ERel fl content ms' es' := by
  induction d generalizing ms es with
  | nil => simp [ObsMonitor.run] at hrun; subst hrun; exact ⟨es, rfl, hR⟩
  | cons e d ih =>
    simp only [ObsMonitor.run] at hrun
    cases hs : (linMon spec).step ms e with
    | none => simp [hs] at hrun
    | some m1 =>
      simp [hs] at hrun
      obtain ⟨f1, hf1, hR1⟩ := emp_step spec fl content fla ela ms m1 es e hR hs
      obtain ⟨f2, hf2, hR2⟩ := ih m1 f1 hR1 hrun
      refine ⟨f2, ?_, hR2⟩
      have : (e :: d).filterMap LEv.toH = (LEv.toH e).toList ++ d.filterMap LEv.toH := by
        simp only [List.filterMap_cons]; cases LEv.toH e <;> simp
      rw [this, ObsMonitor.run_append, hf1]; exact hf2

/-- **every linearizable history is accepted by the emptiness monitor** -/
theorem empty_of_linearizable (spec : SeqSpec AS Op Res) (fl : Flow Op Res) (content : AS → List Nat)
    (fla : FlowLaws spec fl content) (ela : EmptyLaws spec fl content) (h : List (HEv Op Res))
    (hl : Linearizable spec h) : (monEmpty fl).accepts h = true := by
  obtain ⟨d, hd, hacc⟩ := hl
  simp only [ObsMonitor.accepts, Option.isSome_iff_exists] at hacc
  obtain ⟨ms', hrun⟩ := hacc
  obtain ⟨es', hf, _⟩ := emp_run spec fl content fla ela d _ ms' _ (erel_init spec fl content fla.init) hrun
  simp [ObsMonitor.accepts, ← hd, hf]

/-- the complete history-level monitor of a container: element flow and emptiness -/
def monContainer (fl : Flow Op Res) : ObsMonitor (HEv Op Res) (FlowSt Op × EmpSt Op) :=
  (monFlow fl).prod (monEmpty fl)

theorem container_of_linearizable (spec : SeqSpec AS Op Res) (fl : Flow Op Res) (content : AS → List Nat)
    (fla : FlowLaws spec fl content) (ela : EmptyLaws spec fl content) (h : List (HEv Op Res))
    (hl : Linearizable spec h) : (monContainer fl).accepts h = true :=
  prod_accepts _ _ h (flow_of_linearizable spec fl content fla h hl)
    (empty_of_linearizable spec fl content fla ela h hl)

end

end UtilModel.Lin
