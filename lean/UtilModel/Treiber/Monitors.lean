import UtilModel.Treiber.Model
import UtilModel.Treiber.LinFlow
import UtilModel.Treiber.LinEmpty
import UtilModel.Core.Monitor
/-!
# AtomicLIFO — the history-level monitor of C12

`monC12` is what is cheap to state on a plain history of `Push`/`Pop` calls:

* call ids are allocated in invocation order, responses belong to invoked calls;
* **no element is returned twice or out of thin air**: whenever a `Pop` returns a non-zero value
  `v`, fewer `Pop`s have returned `v` so far than `Push(v)` have been *invoked* so far. With the
  distinct values of the harness: no value is popped twice, and none before its push was invoked.

* **`Pop` returns the zero value only if the stack can be empty** (`monEmpty`, see
  `Treiber/LinEmpty.lean`): if values whose `Push` had *returned* before the `Pop` was invoked are
  still unaccounted for when it returns zero — not returned by any `Pop` so far, and more of them than
  there are other `Pop`s in flight (each could have taken one) — then some value was on the stack
  during the whole call and the history is rejected. (Switched off once a zero has been pushed.)

It is sound (accepts every observable trace of the model, `Props.C12_obs_lifo`) but not the whole
property. **Full linearizability of an implementation history — LIFO order, real-time order, the
remaining cases of "zero value exactly when empty", no lost element — is decided by trace inclusion
in the model:**
`model.accepts` (the driver) + `Props.lincheck_sound` (= `accepts_sound` + `treiber_refines_stack`).
The final drain of every harness scenario makes lost elements visible to that check.
-/
namespace UtilModel.Treiber
open UtilModel UtilModel.Lin

def stackFlow : Flow SOp SRes where
  offered := fun op => match op with
    | .push v => [v]
    | .pop => []
  taken := fun op r => match op, r with
    | .pop, .val v => if v = 0 then none else some v
    | _, _ => none
  seen := fun _ _ => none
  emptyRes := fun op r => match op, r with
    | .pop, .val 0 => true
    | _, _ => false
  mayTake := fun op => match op with
    | .pop => true
    | _ => false

def monC12 : ObsMonitor Obs (FlowSt SOp × EmpSt SOp) := (monContainer stackFlow).comap Obs.toH

end UtilModel.Treiber
