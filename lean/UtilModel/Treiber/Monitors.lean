import UtilModel.Treiber.Model
import UtilModel.Core.Monitor
/-! placeholder, filled below -/
namespace UtilModel.Treiber
open UtilModel

/-- trivial monitor (development placeholder) -/
def monTriv : ObsMonitor Obs Unit where
  init := ()
  step := fun _ _ => some ()

end UtilModel.Treiber
