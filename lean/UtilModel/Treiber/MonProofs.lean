import UtilModel.Treiber.Monitors
/-! # AtomicLIFO — the monitor accepts every linearizable history -/
namespace UtilModel.Treiber
open UtilModel UtilModel.Lin

theorem stackFlow_laws : FlowLaws stackSpec stackFlow (fun l => l) where
  take := by
    intro a op v
    cases op with
    | push w => simp [stackSpec, stackFlow, List.count_cons]
    | pop =>
      cases a with
      | nil => simp [stackSpec, stackFlow]
      | cons w l =>
        simp only [stackSpec, stackFlow, List.count_cons, List.count_nil]
        split <;> simp [List.count_cons] <;> omega
  see := by intro a op v h; simp [stackFlow] at h
  init := rfl

theorem monC12_of_linearizable (h : List Obs) (hl : Linearizable stackSpec (h.map Obs.toH)) :
    monC12.accepts h = true := by
  rw [monC12, comap_accepts]
  exact flow_of_linearizable stackSpec stackFlow _ stackFlow_laws _ hl

end UtilModel.Treiber
