import UtilModel.Treiber.Monitors
/-! # AtomicLIFO — the monitor accepts every linearizable history -/
namespace UtilModel.Treiber
open UtilModel UtilModel.Lin

theorem stackFlow_laws : FlowLaws stackSpec stackFlow (fun l => l) where
  take := by
    intro a op v
    cases op with
    | push w => simp [stackSpec, stackFlow, List.count_cons]
    | pop =>
      cases a with
      | nil => simp [stackSpec, stackFlow]
      | cons w l =>
        simp only [stackSpec, stackFlow, List.count_cons, List.count_nil]
        split <;> simp [List.count_cons] <;> omega
  see := by intro a op v h; simp [stackFlow] at h
  init := rfl

theorem stackEmpty_laws : EmptyLaws stackSpec stackFlow (fun l => l) where
  keep := by
    intro a op v _ hz _
    cases op with
    | push w => simp [stackSpec, stackFlow, List.count_cons]
    | pop =>
      cases a with
      | nil => simp [stackSpec, stackFlow]
      | cons w l =>
        have hw : w ≠ 0 := by intro h; subst h; simp at hz
        simp [stackSpec, stackFlow, List.count_cons, hw]
  empty := by
    intro a op h
    cases op with
    | push w => simp [stackSpec, stackFlow] at h
    | pop =>
      cases a with
      | nil => exact Or.inl rfl
      | cons w l =>
        simp only [stackSpec, stackFlow] at h
        split at h
        · rename_i heq; cases heq; exact Or.inr (by simp)
        · simp at h
  empty_notake := by
    intro op r h
    cases op with
    | push w => simp [stackFlow] at h
    | pop =>
      cases r with
      | ack => simp [stackFlow] at h
      | panic => simp [stackFlow] at h
      | val v =>
        cases v with
        | zero => simp [stackFlow]
        | succ n => simp [stackFlow] at h
  take_may := by
    intro op r v h
    cases op <;> simp [stackFlow] at h ⊢

theorem monC12_of_linearizable (h : List Obs) (hl : Linearizable stackSpec (h.map Obs.toH)) :
    monC12.accepts h = true := by
  rw [monC12, comap_accepts]
  exact container_of_linearizable stackSpec stackFlow _ stackFlow_laws stackEmpty_laws _ hl

end UtilModel.Treiber
