import UtilModel.Core.LTSHash
import UtilModel.Treiber.Props
/-!
# Treiber — end-to-end transfer

If the driver's trace-inclusion decision accepts a history recorded from the Go implementation, the
property monitor accepts that history: composition of the checker's soundness theorem
(`accepts_sound` / `acceptsH_sound`) with this package's observable-form property theorem.
-/
namespace UtilModel

theorem C12_accepted_lifo (cap fuel : Nat) (h : List Treiber.Obs)
    (ha : Treiber.model.acceptsH cap fuel h = true) : Treiber.monC12.accepts h = true :=
  acceptedH_satisfies Treiber.model (fun h => Treiber.monC12.accepts h = true)
    Treiber.C12_obs_lifo cap fuel h ha

end UtilModel
