import UtilModel.Core.LTSHash
import UtilModel.Core.LTSComplete
import UtilModel.Treiber.Props
/-!
# Treiber — end-to-end transfer

If the driver's trace-inclusion decision accepts a history recorded from the Go implementation, the
property monitor accepts that history: composition of the checker's soundness theorem
(`accepts_sound` / `acceptsH_sound`) with this package's observable-form property theorem.
-/
namespace UtilModel

theorem C12_accepted_lifo (cap fuel : Nat) (h : List Treiber.Obs)
    (ha : Treiber.model.acceptsH cap fuel h = true) : Treiber.monC12.accepts h = true :=
  acceptedH_satisfies Treiber.model (fun h => Treiber.monC12.accepts h = true)
    Treiber.C12_obs_lifo cap fuel h ha

end UtilModel

/-! ## A REJECT is about the model — through the reduced search

`Treiber.model.cands` is deliberately **not** complete in the sense of `OLTS.Complete`: while some
call is between its load and its CAS only CASes are tried (`Treiber.cands`), so e.g. in the state
`th = [pushCas 1 none, pushLoad 2]` the enabled internal event `load 1` is not a candidate
(`not_complete_lifo`). The REJECT verdict is nevertheless a statement about the full model: the
checker is exactly the checker of the model *restricted* to the candidate events
(`OLTS.restrict`, `accRunH_restrict`), that restricted model is `Complete`
(`complete_lifo_reduced`), and by `Treiber.reduced_search_covers_model` every observable trace of the
full model is the trace of a run of the restricted one. -/
namespace UtilModel

theorem Treiber.Ev.obs_ev (e : Treiber.Ev) (o : Treiber.Obs) (h : e.obs = some o) : o.ev = e := by
  cases e <;> simp [Treiber.Ev.obs] at h <;> subst h <;> rfl

/-- `evsOf` of the lifo model is complete -/
theorem evs_complete_lifo (s : Treiber.St) (e : Treiber.Ev) (s' : Treiber.St) (o : Treiber.Obs)
    (_ : Treiber.model.step s e = some s') (ho : Treiber.model.obs e = some o) :
    e ∈ Treiber.model.evsOf s o := by
  simp [Treiber.model, Treiber.Ev.obs_ev e o ho]

/-- the *unreduced* candidate list (`allCands`) is complete … -/
theorem complete_lifo_allCands : ({ Treiber.model with cands := Treiber.allCands } : OLTS _ _ _).Complete :=
  ⟨fun s e s' hs ho => Treiber.allCands_complete s s' e hs ho, evs_complete_lifo⟩

/-- … but the reduced list the driver uses is not (by design): with a Push between load and CAS,
the load of another call is enabled and not tried -/
theorem not_complete_lifo : ¬ Treiber.model.Complete := by
  intro h
  have := h.cands { heap := [], top := none, th := [.pushCas 1 none, .pushLoad 2] } (.load 1) _ rfl rfl
  revert this
  decide

/-- the model restricted to the reduced candidates is complete -/
theorem complete_lifo_reduced : Treiber.model.restrict.Complete :=
  Treiber.model.restrict_complete evs_complete_lifo

/-- a run through candidates only is a run of the restricted model -/
theorem Treiber.viaCands_restrict_run (s s' : Treiber.St) (es : List Treiber.Ev)
    (hr : Treiber.model.run s es = some s') (hv : Treiber.ViaCands s es) :
    Treiber.model.restrict.run s es = some s' := by
  induction es generalizing s with
  | nil => simpa [OLTS.run] using hr
  | cons e es ih =>
    obtain ⟨s1, hs, hc, hv'⟩ := hv
    have hs' : Treiber.model.step s e = some s1 := hs
    simp only [OLTS.run, hs', Option.bind_some] at hr
    have := Treiber.model.restrict_step_of s s1 e hs' hc
    simp only [OLTS.run, this, Option.bind_some]
    exact ih s1 hr hv'

/-- **A REJECT of the lifo correspondence is about the (unreduced) model**: when the driver's run
fails at an observable without having hit the exploration bounds, no run of the Treiber model — with
arbitrary interleavings of loads and CASes, not only those the reduced search tries — projects to
the recorded history. -/
theorem reject_sound_lifo (cap fuel : Nat) (h : List Treiber.Obs) (i : Nat)
    (hfail : (Treiber.model.accRunH cap fuel [Treiber.model.init] h 0 false 1).failedAt = some i)
    (htr : (Treiber.model.accRunH cap fuel [Treiber.model.init] h 0 false 1).truncated = false) :
    ¬ ∃ es s, Treiber.model.run Treiber.model.init es = some s ∧ es.filterMap Treiber.model.obs = h := by
  rintro ⟨es, s, hr, hp⟩
  obtain ⟨es', s', hr', hp', hv⟩ := Treiber.reduced_search_covers_model es s hr
  rw [← Treiber.model.accRunH_restrict] at hfail htr
  exact rejectH_sound Treiber.model.restrict complete_lifo_reduced cap fuel h i hfail htr
    ⟨es', s', Treiber.viaCands_restrict_run _ _ _ hr' hv, by rw [← hp]; exact hp'⟩

end UtilModel
