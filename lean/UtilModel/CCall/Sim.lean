import UtilModel.CCall.Proofs
import UtilModel.CCall.Monitors
/-!
# ccall — simulation between the model and the monitor `monC17`
-/
namespace UtilModel.CCall
open UtilModel

/-- what the history shows of an entry -/
def view : WS → FS
  | .absent => .nilEntry
  | .pending | .spawned => .notEntered
  | .running => .entered
  | .returned r | .done r => .out r

def PC.isFinished : PC → Bool
  | .finished _ => true
  | _ => false

def PC.isIdle : PC → Bool
  | .idle => true
  | _ => false

structure RelC17 (s : St) (ms : C17St) : Prop where
  inv : Inv s
  canc : ms.cancelled = s.ctxC
  ret : ms.returned = s.pc.isFinished
  tbl : ms.tbl = if s.pc.isIdle then none else some (s.ws.map view)

theorem relC17_init : RelC17 model.init monC17.init := ⟨init_inv, rfl, rfl, rfl⟩

theorem map_set_same {α β : Type} (f : α → β) (l : List α) (i : Nat) (a b : α) (h : l[i]? = some a)
    (hf : f a = f b) : (l.set i b).map f = l.map f := by
  apply List.ext_getElem?
  intro u
  simp only [List.getElem?_map, List.getElem?_set]
  by_cases hu : i = u
  · subst hu
    have hlt := lt_of_getElem? h
    have : l[i] = a := by
      have := List.getElem?_eq_getElem hlt
      rw [h] at this; exact (Option.some.inj this).symm
    simp [hlt, this, hf]
  · simp [hu]

theorem map_set' {α β : Type} (f : α → β) (l : List α) (i : Nat) (b : α) :
    (l.set i b).map f = (l.map f).set i (f b) := by
  simp [List.map_set]

theorem view_map_get {ws : List WS} {i : Nat} {w : WS} (h : ws[i]? = some w) :
    (ws.map view)[i]? = some (view w) := by simp [h]

theorem view_spawnAll (ws : List WS) : (spawnAll ws).map view = ws.map view := by
  simp only [spawnAll, List.map_map]
  apply List.map_congr_left
  intro w _
  cases w <;> rfl

/-- at a quiescence point with the call still waiting: some function is running, no real error has
been returned, the context is live -/
theorem quiescent_pending_aux (s : St) (hi : Inv s)
    (hq : quiescent s = true) (ch : Nat) (hpc : s.pc = .sel ch) :
    (∃ i : Nat, s.ws[i]? = some WS.running) ∧ s.ctxC = false ∧
    ∀ (i : Nat) (r : Res), (s.ws[i]? = some (WS.returned r) ∨ s.ws[i]? = some (WS.done r)) → r.isReal = false := by
  have hp := hi.pcI
  simp only [PCInv, hpc] at hp
  obtain ⟨hlen, hnp, _, hopen⟩ := hp
  simp only [quiescent, hpc, Bool.and_eq_true, List.all_eq_true, Bool.not_eq_true'] at hq
  obtain ⟨hall, hcl, hctx⟩ := hq
  obtain ⟨hrun, hreal⟩ := hopen hcl
  refine ⟨?_, hctx, ?_⟩
  · have hr := hi.run hlen
    have hpos : 0 < s.ws.countP WS.active := by omega
    rw [List.countP_pos_iff] at hpos
    obtain ⟨w, hw, hact⟩ := hpos
    obtain ⟨i, hiw⟩ := List.getElem?_of_mem hw
    have := hall w hw
    cases w <;> simp [WS.active] at hact this
    exact ⟨i, hiw⟩
  · intro i r hr
    rcases hr with hr | hr
    · have := hall _ (List.mem_of_getElem? hr); simp at this
    · cases he : s.exitErr with
      | nil => rw [hi.e1 he hlen i r hr]; rfl
      | canceled => exact (hi.e3 he).2 i r hr
      | err j => rw [he] at hreal; simp at hreal
      | panic => exact absurd he hi.e4


theorem just_real {ws : List WS} {c : Bool} {r : Res} (hJ : Just ws c r) (i j : Nat)
    (hf : ws[i]? = some (WS.returned (.err j)) ∨ ws[i]? = some (WS.done (.err j)))
    (hctx : c = false) : r.isReal = true := by
  cases r with
  | err k => rfl
  | panic => exact absurd hJ id
  | nil =>
    exfalso
    rcases hf with hf | hf <;> rcases hJ i _ hf with e | e <;> cases e
  | canceled =>
    exfalso
    rcases hJ with e | ⟨hall, _⟩
    · rw [hctx] at e; cases e
    · rcases hf with hf | hf
      · rcases hall i _ hf with e | ⟨x, e, _⟩ <;> cases e
      · rcases hall i _ hf with e | ⟨x, e, hx⟩
        · cases e
        · cases e; simp at hx

theorem any_real_view (ws : List WS) (h : (ws.map view).any FS.isRealOut = true) :
    ∃ (i j : Nat), ws[i]? = some (WS.returned (.err j)) ∨ ws[i]? = some (WS.done (.err j)) := by
  rw [List.any_eq_true] at h
  obtain ⟨f, hf, hr⟩ := h
  rw [List.mem_map] at hf
  obtain ⟨w, hw, rfl⟩ := hf
  obtain ⟨i, hi⟩ := List.getElem?_of_mem hw
  cases w with
  | returned r => cases r <;> simp [view, FS.isRealOut] at hr; exact ⟨i, _, Or.inl hi⟩
  | done r => cases r <;> simp [view, FS.isRealOut] at hr; exact ⟨i, _, Or.inr hi⟩
  | _ => simp [view, FS.isRealOut] at hr

theorem retOK_of_just (ws : List WS) (c : Bool) (r : Res) (hJ : Just ws c r) :
    retOK (ws.map view) c r = true := by
  unfold retOK
  rw [Bool.and_eq_true]
  constructor
  · cases r with
    | nil =>
      simp only [List.all_eq_true, List.mem_map]
      rintro f ⟨w, hw, rfl⟩
      obtain ⟨i, hi⟩ := List.getElem?_of_mem hw
      rcases hJ i w hi with rfl | rfl <;> simp [view]
    | err j =>
      obtain ⟨i, hi⟩ := hJ
      simp only [List.contains_iff_mem, List.mem_map]
      exact ⟨_, List.mem_of_getElem? hi, rfl⟩
    | canceled =>
      rcases hJ with h | ⟨hall, i, hi⟩
      · simp [h]
      · have h1 : (ws.map view).all FS.settled = true := by
          simp only [List.all_eq_true, List.mem_map]
          rintro f ⟨w, hw, rfl⟩
          obtain ⟨u, hu⟩ := List.getElem?_of_mem hw
          rcases hall u w hu with rfl | ⟨x, rfl, _⟩ <;> simp [view, FS.settled]
        have h2 : (ws.map view).contains (FS.out .canceled) = true := by
          simp only [List.contains_iff_mem, List.mem_map]
          exact ⟨_, List.mem_of_getElem? hi, rfl⟩
        have h3 : (ws.map view).any FS.isRealOut = false := by
          cases h : (ws.map view).any FS.isRealOut
          · rfl
          · exfalso
            obtain ⟨u, j, hu⟩ := any_real_view ws h
            rcases hu with hu | hu
            · rcases hall u _ hu with e | ⟨x, e, _⟩ <;> cases e
            · rcases hall u _ hu with e | ⟨x, e, hx⟩
              · cases e
              · cases e; simp at hx
        simp only [h1, h2, h3]; simp
    | panic => exact absurd hJ id
  · split
    · rename_i h
      rw [Bool.and_eq_true] at h
      obtain ⟨i, j, hf⟩ := any_real_view ws h.1
      exact just_real hJ i j hf (by simpa using h.2)
    · rfl


theorem pc_ne_idle_of {s : St} {p : PC} (h : s.pc = p) (hp : p ≠ .idle) : s.pc ≠ .idle := by rw [h]; exact hp

/-- internal or tbl-preserving step: everything but pc-finished, ctx and the views is unchanged -/
theorem rel_same (s s' : St) (ms : C17St) (hR : RelC17 s ms) (hi' : Inv s')
    (hc : s'.ctxC = s.ctxC) (hf : s'.pc.isFinished = s.pc.isFinished)
    (hidle : s'.pc.isIdle = s.pc.isIdle) (hv : s'.ws.map view = s.ws.map view) : RelC17 s' ms :=
  ⟨hi', by rw [hR.canc, hc], by rw [hR.ret, hf], by rw [hR.tbl, hidle, hv]⟩

theorem sim_internal (s : St) (e : Ev) (s' : St) (ms : C17St) (hR : RelC17 s ms)
    (hs : step s e = some s') (hobs : e.obs = none) : RelC17 s' ms := by
  have hi' := step_inv s e s' hR.inv hs
  cases e with
  | enter =>
    simp only [step] at hs
    split at hs
    · rename_i hpc
      split at hs
      · simp at hs; subst hs
        exact rel_same s _ ms hR hi' rfl (by simp [hpc, PC.isFinished]) (by simp [hpc, PC.isIdle]) rfl
      · rename_i w hws
        split at hs <;> simp at hs <;> subst hs
        · rename_i hw; subst hw
          exact rel_same s _ ms hR hi' rfl (by simp [hpc, PC.isFinished]) (by simp [hpc, PC.isIdle]) (by simp [hws, view])
        · exact rel_same s _ ms hR hi' rfl (by simp [hpc, PC.isFinished]) (by simp [hpc, PC.isIdle]) rfl
      · simp only [Option.some.injEq] at hs; subst hs
        refine rel_same s _ ms hR hi' rfl ?_ ?_ (view_spawnAll _)
        · simp only [hpc]; split <;> rfl
        · simp only [hpc]; split <;> rfl
    · simp at hs
  | decCS i =>
    simp only [step] at hs; split at hs <;> simp at hs; subst hs
    rename_i r ha
    exact rel_same s _ ms hR hi' rfl rfl rfl (map_set_same view _ _ _ _ ha rfl)
  | ctxTake =>
    simp only [step] at hs; split at hs <;> try simp at hs
    rename_i ch hpc
    obtain ⟨_, rfl⟩ := hs
    exact rel_same s _ ms hR hi' rfl (by simp [hpc, PC.isFinished]) (by simp [hpc, PC.isIdle]) rfl
  | recheckCS =>
    simp only [step] at hs; split at hs <;> try simp at hs
    rename_i ch hpc
    obtain ⟨_, rfl⟩ := hs
    refine rel_same s _ ms hR hi' rfl ?_ ?_ rfl
    · simp only [hpc]; split <;> rfl
    · simp only [hpc]; split <;> rfl
  | deferCancel =>
    simp only [step] at hs; split at hs <;> simp at hs; subst hs
    rename_i r hpc
    exact rel_same s _ ms hR hi' rfl (by simp [hpc, PC.isFinished]) (by simp [hpc, PC.isIdle]) rfl
  | inv _ => simp [Ev.obs] at hobs
  | cbin _ => simp [Ev.obs] at hobs
  | cbout _ _ => simp [Ev.obs] at hobs
  | ret _ => simp [Ev.obs] at hobs
  | envCancel => simp [Ev.obs] at hobs
  | probe _ _ => simp [Ev.obs] at hobs
  | quiesce _ _ => simp [Ev.obs] at hobs


theorem not_idle_of_ws {s : St} (hi : Inv s) {i : Nat} {w : WS} (hw : s.ws[i]? = some w) :
    s.pc.isIdle = false := by
  have hp := hi.pcI
  unfold PCInv at hp
  cases hpc : s.pc <;> simp [PC.isIdle]
  simp only [hpc] at hp; rw [hp] at hw; simp at hw

theorem sim_inv (s : St) (sh : List Bool) (s' : St) (ms : C17St) (hR : RelC17 s ms)
    (hs : step s (.inv sh) = some s') :
    ∃ ms', monC17.step ms (.inv sh) = some ms' ∧ RelC17 s' ms' := by
  have hi' := step_inv s _ s' hR.inv hs
  simp only [step] at hs; split at hs <;> simp at hs; subst hs
  rename_i hpc
  have ht := hR.tbl; simp [hpc, PC.isIdle] at ht
  refine ⟨{ ms with tbl := some (sh.map fun b => if b then .notEntered else .nilEntry) }, by simp [monC17, ht], ?_⟩
  refine ⟨hi', hR.canc, by simp [hR.ret, hpc, PC.isFinished], ?_⟩
  simp only [PC.isIdle, List.map_map]
  congr 2
  funext b; cases b <;> rfl

theorem sim_cbin (s : St) (i : Nat) (s' : St) (ms : C17St) (hR : RelC17 s ms)
    (hs : step s (.cbin i) = some s') :
    ∃ ms', monC17.step ms (.cbin i) = some ms' ∧ RelC17 s' ms' := by
  have hi' := step_inv s _ s' hR.inv hs
  simp only [step] at hs; split at hs <;> simp at hs; subst hs
  rename_i k ha hk
  have hni := not_idle_of_ws hR.inv ha
  have ht := hR.tbl; simp only [hni] at ht
  have hv := view_map_get ha
  refine ⟨{ ms with tbl := some ((s.ws.map view).set i .entered) }, ?_, ?_⟩
  · simp [monC17, ht, hv, view]
  · exact ⟨hi', hR.canc, hR.ret, by simp [hni, List.map_set, view]⟩

theorem sim_cbout (s : St) (i : Nat) (r : Res) (s' : St) (ms : C17St) (hR : RelC17 s ms)
    (hs : step s (.cbout i r) = some s') :
    ∃ ms', monC17.step ms (.cbout i r) = some ms' ∧ RelC17 s' ms' := by
  have hi' := step_inv s _ s' hR.inv hs
  simp only [step] at hs
  split at hs; · simp at hs
  rename_i hrp
  split at hs <;> try simp at hs
  rename_i ha
  have hni := not_idle_of_ws hR.inv ha
  have ht := hR.tbl; simp only [hni] at ht
  have hv := view_map_get ha
  refine ⟨{ ms with tbl := some ((s.ws.map view).set i (.out r)) }, ?_, ?_⟩
  · simp [monC17, ht, hv, view, hrp]
  · split at hs <;> simp at hs <;> subst hs
    · rename_i hpc
      exact ⟨hi', hR.canc, by simp [hR.ret, hpc, PC.isFinished], by simp [PC.isIdle, List.map_set, view]⟩
    · exact ⟨hi', hR.canc, hR.ret, by simp [hni, List.map_set, view]⟩

theorem sim_envCancel (s : St) (s' : St) (ms : C17St) (hR : RelC17 s ms)
    (hs : step s .envCancel = some s') :
    ∃ ms', monC17.step ms .envCancel = some ms' ∧ RelC17 s' ms' := by
  have hi' := step_inv s _ s' hR.inv hs
  simp only [step] at hs; simp at hs; subst hs
  exact ⟨{ ms with cancelled := true }, rfl, hi', rfl, hR.ret, hR.tbl⟩

theorem sim_probe (s : St) (i : Nat) (c : Bool) (s' : St) (ms : C17St) (hR : RelC17 s ms)
    (hs : step s (.probe i c) = some s') :
    ∃ ms', monC17.step ms (.probe i c) = some ms' ∧ RelC17 s' ms' := by
  simp only [step] at hs; split at hs <;> simp at hs
  rename_i w ha
  obtain ⟨⟨hent, hc⟩, rfl⟩ := hs
  have hni := not_idle_of_ws hR.inv ha
  have ht := hR.tbl; simp only [hni] at ht
  have hv := view_map_get ha
  refine ⟨ms, ?_, hR⟩
  have hret : ms.returned = true → c = true := by
    intro hr
    rw [hR.ret] at hr
    have hp := hR.inv.pcI
    unfold PCInv at hp
    cases hpc : s.pc <;> simp [hpc, PC.isFinished] at hr
    simp only [hpc] at hp
    have : s.subC = true := hp.2.2 (by intro e; rw [e] at ha; simp at ha)
    simp [hc, St.subCancelled, this]
  have hwe : (view w).wasEntered = true := by cases w <;> simp [WS.entered] at hent <;> rfl
  simp [monC17, ht, hv, hwe]
  exact hret

theorem sim_ret (s : St) (r : Res) (s' : St) (ms : C17St) (hR : RelC17 s ms)
    (hs : step s (.ret r) = some s') :
    ∃ ms', monC17.step ms (.ret r) = some ms' ∧ RelC17 s' ms' := by
  have hi' := step_inv s _ s' hR.inv hs
  simp only [step] at hs; split at hs <;> simp at hs
  rename_i r' hpc
  obtain ⟨rfl, rfl⟩ := hs
  have ht := hR.tbl; simp [hpc, PC.isIdle] at ht
  have hp := hR.inv.pcI; simp only [PCInv, hpc] at hp
  have hok := retOK_of_just s.ws s.ctxC r hp.1
  have hnr : ms.returned = false := by rw [hR.ret, hpc]; rfl
  refine ⟨{ ms with returned := true }, ?_, ?_⟩
  · simp [monC17, ht, hnr, hR.canc, hok]
  · exact ⟨hi', hR.canc, rfl, by simp [ht, PC.isIdle]⟩


theorem W_nil_of {s : St} {W : List Nat}
    (hW : W.all (fun i => s.ws[i]? == some WS.running && !s.subCancelled) = true)
    (h : ∀ i : Nat, s.ws[i]? = some WS.running → s.subCancelled = true) : W = [] := by
  cases W with
  | nil => rfl
  | cons i rest =>
    exfalso
    simp only [List.all_cons, Bool.and_eq_true, beq_iff_eq, Bool.not_eq_true'] at hW
    have := h i hW.1.1
    rw [this] at hW; simp at hW

theorem sim_quiesce (s : St) (p : Bool) (W : List Nat) (s' : St) (ms : C17St) (hR : RelC17 s ms)
    (hs : step s (.quiesce p W) = some s') :
    ∃ ms', monC17.step ms (.quiesce p W) = some ms' ∧ RelC17 s' ms' := by
  simp only [step] at hs
  split at hs
  case isFalse => simp at hs
  rename_i hcond
  simp only [Option.some.injEq] at hs
  subst hs
  obtain ⟨hq, hp, hW⟩ := hcond
  refine ⟨ms, ?_, hR⟩
  have hi := hR.inv
  have hpi := hi.pcI
  unfold PCInv at hpi
  have hq' := hq
  simp only [quiescent, Bool.and_eq_true, List.all_eq_true] at hq'
  obtain ⟨hall, hqpc⟩ := hq'
  have hWent : W.all (fun i => (s.ws.map view)[i]? == some FS.entered) = true := by
    rw [List.all_eq_true] at hW ⊢
    intro i hiW
    have := hW i hiW
    simp only [Bool.and_eq_true, beq_iff_eq] at this
    simp [this.1, view]
  cases hpc : s.pc with
  | idle =>
    have ht := hR.tbl; simp [hpc, PC.isIdle] at ht
    simp only [hpc] at hpi
    have hW0 : W = [] := W_nil_of hW (by intro i h; rw [hpi] at h; simp at h)
    simp [monC17, ht, hp, pendingCall, hpc, hW0]
  | invoked => simp [hpc] at hqpc
  | exiting r => simp [hpc] at hqpc
  | retReady r => simp [hpc] at hqpc
  | finished r =>
    have ht := hR.tbl; simp [hpc, PC.isIdle] at ht
    simp only [hpc] at hpi
    obtain ⟨_, hnp, hsub⟩ := hpi
    have hW0 : W = [] := W_nil_of hW (by
      intro i h
      have : s.subC = true := hsub (by intro e; rw [e] at h; simp at h)
      simp [St.subCancelled, this])
    have hret : ms.returned = true := by rw [hR.ret, hpc]; rfl
    have hne : (s.ws.map view).all (· != FS.notEntered) = true := by
      simp only [List.all_eq_true, List.mem_map]
      rintro f ⟨w, hw, rfl⟩
      obtain ⟨i, hiw⟩ := List.getElem?_of_mem hw
      have := hall w hw
      cases w <;> simp [view] at this ⊢
      exact hnp i hiw
    simp [monC17, ht, hp, pendingCall, hpc, hW0, hret]
    simpa using hne
  | inline =>
    have ht := hR.tbl; simp [hpc, PC.isIdle] at ht
    simp only [hpc] at hqpc
    have hws : s.ws = [WS.running] := by simpa using hqpc
    have hret : ms.returned = false := by rw [hR.ret, hpc]; rfl
    simp only [monC17, ht, hp, pendingCall, hpc, hret]
    simp only [hws] at hWent ⊢
    simp [view]
    simpa [view] using hWent
  | sel ch =>
    have ht := hR.tbl; simp [hpc, PC.isIdle] at ht
    obtain ⟨⟨i, hrun⟩, hctx, hnoreal⟩ := quiescent_pending_aux s hi hq ch hpc
    simp only [hpc] at hpi
    obtain ⟨_, hnp, _, _⟩ := hpi
    have hret : ms.returned = false := by rw [hR.ret, hpc]; rfl
    have hne : (s.ws.map view).all (· != FS.notEntered) = true := by
      simp only [List.all_eq_true, List.mem_map]
      rintro f ⟨w, hw, rfl⟩
      obtain ⟨u, huw⟩ := List.getElem?_of_mem hw
      have := hall w hw
      cases w <;> simp [view] at this ⊢
      exact hnp u huw
    have hany : (s.ws.map view).any (· == FS.entered) = true := by
      simp only [List.any_eq_true, List.mem_map]
      exact ⟨_, ⟨_, List.mem_of_getElem? hrun, rfl⟩, by simp [view]⟩
    have hnr : (s.ws.map view).any FS.isRealOut = false := by
      cases h : (s.ws.map view).any FS.isRealOut
      · rfl
      · exfalso
        obtain ⟨u, j, hu⟩ := any_real_view s.ws h
        have := hnoreal u (.err j) hu
        simp at this
    simp only [monC17, ht, hp, pendingCall, hpc, hret]
    simp only [hne, hWent, hany, hnr, hR.canc, hctx]
    simp


/-- the simulation step: internal events keep the relation, observable events are accepted by the
monitor and re-establish it -/
theorem sim_step (s : St) (e : Ev) (s' : St) (ms : C17St) (hR : RelC17 s ms)
    (hs : model.step s e = some s') :
    match model.obs e with
    | none => RelC17 s' ms
    | some o => ∃ ms', monC17.step ms o = some ms' ∧ RelC17 s' ms' := by
  have hs : step s e = some s' := hs
  cases e with
  | inv sh => exact sim_inv s sh s' ms hR hs
  | enter => exact sim_internal s _ s' ms hR hs rfl
  | cbin i => exact sim_cbin s i s' ms hR hs
  | cbout i r => exact sim_cbout s i r s' ms hR hs
  | decCS i => exact sim_internal s _ s' ms hR hs rfl
  | ctxTake => exact sim_internal s _ s' ms hR hs rfl
  | recheckCS => exact sim_internal s _ s' ms hR hs rfl
  | deferCancel => exact sim_internal s _ s' ms hR hs rfl
  | ret r => exact sim_ret s r s' ms hR hs
  | envCancel => exact sim_envCancel s s' ms hR hs
  | probe i c => exact sim_probe s i c s' ms hR hs
  | quiesce p W => exact sim_quiesce s p W s' ms hR hs

end UtilModel.CCall
