import UtilModel.Core.LTS
import UtilModel.Core.Bcast
import UtilModel.Core.Count
/-!
# ccall.CallConcurrently — model (ccall/ccall.go)

One model instance = one call of `CallConcurrently(ctx, fns...)`. Every event is one atomic action
of the code:

* `inv shape`      the harness is about to call (shape: which entries of `fns` are non-nil)
* `enter`          ccall.go:14-25 for `len(fns) ≤ 1` (dispatch), resp. the spawn critical section
                   ccall.go:41-52 together with the local test `started == 0` (ccall.go:53) for `len ≥ 2`
* `cbin i`         function `i` is entered (by its goroutine, or inline when `len(fns) = 1`)
* `cbout i r`      function `i` returns `r` (the harness scripts the outcome)
* `decCS i`        the worker's decrement section ccall.go:30-36 (`running--`, first-error rule, broadcast)
* `ctxTake`        the `select` of the wait loop took `<-ctx.Done()` (ccall.go:58-62)
* `recheckCS`      the `select` took `<-waitCh` (enabled iff the channel is closed; the decision touches
                   no shared state and is folded into the section it leads to, as in the csync models),
                   the re-check section ccall.go:66-70 and the local test of ccall.go:71
* `deferCancel`    the deferred `subCtxCancel()` (ccall.go:19)
* `ret r`          the call returned `r`
* `env cancel`     the harness cancels the caller's context
* `probe i c`      a look at `Err()` of the context that was handed to function `i` (any time after
                   the function was entered, also after it and the call have returned)
* `quiesce p W`    nothing moves any more; `p`: the call is pending; `W`: functions that are blocked
                   waiting for `subCtx.Done()`

`running` is an `Int` as in the code (a decrement below zero is not hidden by truncation; the
invariant shows it never happens).
-/
namespace UtilModel.CCall
open UtilModel

/-- an `error` value as far as the code can distinguish: `nil`, `context.Canceled`, some other error
`e_j`; `panic` only ever appears as the (impossible) result of the call -/
inductive Res where
  | nil | canceled | err (j : Nat) | panic
deriving DecidableEq, Repr, Inhabited

/-- an error other than `context.Canceled` -/
def Res.isReal : Res → Bool
  | .err _ => true
  | _ => false

@[simp] theorem Res.isReal_nil : Res.nil.isReal = false := rfl
@[simp] theorem Res.isReal_canceled : Res.canceled.isReal = false := rfl
@[simp] theorem Res.isReal_err (j : Nat) : (Res.err j).isReal = true := rfl
@[simp] theorem Res.isReal_panic : Res.panic.isReal = false := rfl

/-- state of entry `i` of `fns` -/
inductive WS where
  | absent              -- nil entry
  | pending             -- non-nil entry; goroutine not created yet
  | spawned             -- goroutine created (or inline call imminent); function not entered yet
  | running             -- inside the function
  | returned (r : Res)  -- function returned `r`; decrement section pending
  | done (r : Res)      -- decrement section executed (inline: the function returned)
deriving DecidableEq, Repr, Inhabited

/-- counted by `running` -/
def WS.active : WS → Bool
  | .spawned | .running | .returned _ => true
  | _ => false

/-- the function has been entered -/
def WS.entered : WS → Bool
  | .running | .returned _ | .done _ => true
  | _ => false

def WS.isPending : WS → Bool
  | .pending => true
  | _ => false

/-- the caller's program counter -/
inductive PC where
  | idle                 -- not invoked
  | invoked              -- invoked, nothing done yet
  | inline               -- len(fns) = 1: inside `fns[0](subCtx)`
  | sel (ch : Nat)       -- blocked in the select on wait channel `ch`
  | exiting (r : Res)    -- return value decided; deferred subCtxCancel pending
  | retReady (r : Res)   -- about to return `r`
  | finished (r : Res)   -- returned `r`
deriving DecidableEq, Repr, Inhabited

structure St where
  pc : PC := .idle
  ws : List WS := []
  /-- ghost: how often each function has been entered -/
  entries : List Nat := []
  running : Int := 0
  exitErr : Res := .nil
  bc : Bcast := {}
  /-- the caller's context has been cancelled -/
  ctxC : Bool := false
  /-- the deferred `subCtxCancel` has run -/
  subC : Bool := false
deriving DecidableEq, Repr

inductive Obs where
  | inv (shape : List Bool)        -- `inv 0 call f n f …`
  | ret (r : Res)                  -- `ret 0 nil|canceled|err j|panic`
  | cbin (i : Nat)                 -- `cbin i`
  | cbout (i : Nat) (r : Res)      -- `cbout i nil|canceled|err j`
  | envCancel                      -- `env cancel`
  | probe (i : Nat) (c : Bool)     -- `probe i live|cancelled` (context handed to function i)
  | quiesce (pend : Bool) (W : List Nat) -- `quiesce p|i w1 w2 …`
deriving DecidableEq, Repr

inductive Ev where
  | inv (shape : List Bool)
  | enter
  | cbin (i : Nat)
  | cbout (i : Nat) (r : Res)
  | decCS (i : Nat)
  | ctxTake
  | recheckCS
  | deferCancel
  | ret (r : Res)
  | envCancel
  | probe (i : Nat) (c : Bool)
  | quiesce (pend : Bool) (W : List Nat)
deriving DecidableEq, Repr

def Ev.obs : Ev → Option Obs
  | .inv sh => some (.inv sh)
  | .ret r => some (.ret r)
  | .cbin i => some (.cbin i)
  | .cbout i r => some (.cbout i r)
  | .envCancel => some .envCancel
  | .probe i c => some (.probe i c)
  | .quiesce p W => some (.quiesce p W)
  | _ => none

def Obs.ev : Obs → Ev
  | .inv sh => .inv sh
  | .ret r => .ret r
  | .cbin i => .cbin i
  | .cbout i r => .cbout i r
  | .envCancel => .envCancel
  | .probe i c => .probe i c
  | .quiesce p W => .quiesce p W

theorem Obs.ev_obs (o : Obs) : o.ev.obs = some o := by cases o <;> rfl

/-- `go callFunc(fn)` for every non-nil entry -/
def spawnAll (ws : List WS) : List WS :=
  ws.map fun w => match w with
    | .pending => .spawned
    | w => w

/-- the first-error rule of the decrement section (ccall.go:32-34) -/
def recordErr (exitErr r : Res) : Res :=
  if r ≠ .nil ∧ (exitErr = .nil ∨ exitErr = .canceled) then r else exitErr

/-- the derived context handed to the functions is cancelled -/
def St.subCancelled (s : St) : Bool := s.ctxC || s.subC

/-- no internal event and no response is enabled (see `quiescent_no_internal`) -/
def quiescent (s : St) : Bool :=
  s.ws.all (fun w => match w with
    | .spawned | .returned _ => false
    | _ => true) &&
  (match s.pc with
   | .idle => true
   | .finished _ => true
   | .sel ch => !s.bc.closed ch && !s.ctxC
   | .inline => s.ws == [.running]
   | _ => false)

def pendingCall (s : St) : Bool :=
  match s.pc with
  | .sel _ | .inline => true
  | _ => false

def step (s : St) : Ev → Option St
  | .inv sh =>
    if s.pc = .idle then
      some { s with pc := .invoked, ws := sh.map (fun b => if b then .pending else .absent),
                    entries := sh.map (fun _ => 0) }
    else none
  | .enter =>
    if s.pc = .invoked then
      match s.ws with
      | [] => some { s with pc := .retReady .nil }                       -- ccall.go:14-16
      | [w] =>
        if w = .pending then some { s with pc := .inline, ws := [.spawned] }  -- ccall.go:24
        else some { s with pc := .exiting .nil }                         -- ccall.go:21-23 (nil entry)
      | _ :: _ :: _ =>                                                    -- ccall.go:41-55
        let n := s.ws.countP WS.isPending
        some { s with ws := spawnAll s.ws, running := s.running + n, bc := s.bc.getWaitCh.1,
                      pc := if n = 0 then .exiting .nil else .sel s.bc.getWaitCh.2 }
    else none
  | .cbin i =>
    match s.ws[i]?, s.entries[i]? with
    | some .spawned, some k => some { s with ws := s.ws.set i .running, entries := s.entries.set i (k+1) }
    | _, _ => none
  | .cbout i r =>
    if r = .panic then none else
    match s.ws[i]? with
    | some .running =>
      if s.pc = .inline then some { s with ws := s.ws.set i (.done r), pc := .exiting r }
      else some { s with ws := s.ws.set i (.returned r) }
    | _ => none
  | .decCS i =>
    match s.ws[i]? with
    | some (.returned r) =>
      some { s with ws := s.ws.set i (.done r), running := s.running - 1,
                    exitErr := recordErr s.exitErr r, bc := s.bc.broadcast }
    | _ => none
  | .ctxTake =>
    match s.pc with
    | .sel _ => if s.ctxC then some { s with pc := .exiting .canceled } else none
    | _ => none
  | .recheckCS =>
    match s.pc with
    | .sel ch =>
      if s.bc.closed ch then
        some { s with bc := s.bc.getWaitCh.1,
                      pc := if s.running = 0 ∨ s.exitErr.isReal then .exiting s.exitErr
                            else .sel s.bc.getWaitCh.2 }
      else none
    | _ => none
  | .deferCancel =>
    match s.pc with
    | .exiting r => some { s with pc := .retReady r, subC := true }
    | _ => none
  | .ret r =>
    match s.pc with
    | .retReady r' => if r = r' then some { s with pc := .finished r } else none
    | _ => none
  | .envCancel => some { s with ctxC := true }
  | .probe i c =>
    match s.ws[i]? with
    | some w => if w.entered = true ∧ c = s.subCancelled then some s else none
    | none => none
  | .quiesce p W =>
    if quiescent s ∧ p = pendingCall s ∧
       W.all (fun i => s.ws[i]? == some .running && !s.subCancelled) then some s else none

def cands (s : St) : List Ev :=
  [.enter, .ctxTake, .recheckCS, .deferCancel] ++ (List.range s.ws.length).map .decCS

def model : OLTS St Ev Obs where
  init := {}
  step := step
  obs := Ev.obs
  cands := cands
  evsOf := fun _ o => [o.ev]

/-! ## parsing of harness lines -/

def parseRes : List String → Option Res
  | ["nil"] => some .nil
  | ["canceled"] => some .canceled
  | ["err", j] => do pure (.err (← j.toNat?))
  | ["panic"] => some .panic
  | _ => none

def parseShape : List String → Option (List Bool)
  | [] => some []
  | "f" :: xs => do pure (true :: (← parseShape xs))
  | "n" :: xs => do pure (false :: (← parseShape xs))
  | _ => none

def parseNats : List String → Option (List Nat)
  | [] => some []
  | x :: xs => do let n ← x.toNat?; let r ← parseNats xs; pure (n :: r)

def Obs.parse : List String → Option Obs
  | "inv" :: "0" :: "call" :: sh => do pure (.inv (← parseShape sh))
  | "ret" :: "0" :: r => do pure (.ret (← parseRes r))
  | ["cbin", i] => do pure (.cbin (← i.toNat?))
  | "cbout" :: i :: r => do
      let r ← parseRes r
      if r = .panic then none else pure (.cbout (← i.toNat?) r)
  | ["env", "cancel"] => some .envCancel
  | ["probe", i, "live"] => do pure (.probe (← i.toNat?) false)
  | ["probe", i, "cancelled"] => do pure (.probe (← i.toNat?) true)
  | "quiesce" :: "p" :: W => do pure (.quiesce true (← parseNats W))
  | "quiesce" :: "i" :: W => do pure (.quiesce false (← parseNats W))
  | _ => none

end UtilModel.CCall
