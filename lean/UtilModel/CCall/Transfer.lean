import UtilModel.Core.LTSHash
import UtilModel.CCall.Props
/-!
# CCall — end-to-end transfer

If the driver's trace-inclusion decision accepts a history recorded from the Go implementation, the
property monitor accepts that history: composition of the checker's soundness theorem
(`accepts_sound` / `acceptsH_sound`) with this package's observable-form property theorem.
-/
namespace UtilModel

theorem C17_accepted (cap fuel : Nat) (h : List CCall.Obs)
    (ha : CCall.model.accepts cap fuel h = true) : CCall.monC17.accepts h = true :=
  accepted_satisfies CCall.model (fun h => CCall.monC17.accepts h = true)
    CCall.C17_obs cap fuel h ha

end UtilModel
