import UtilModel.Core.LTSHash
import UtilModel.Core.LTSComplete
import UtilModel.CCall.Props
/-!
# CCall — end-to-end transfer

If the driver's trace-inclusion decision accepts a history recorded from the Go implementation, the
property monitor accepts that history: composition of the checker's soundness theorem
(`accepts_sound` / `acceptsH_sound`) with this package's observable-form property theorem.
-/
namespace UtilModel

theorem C17_accepted (cap fuel : Nat) (h : List CCall.Obs)
    (ha : CCall.model.accepts cap fuel h = true) : CCall.monC17.accepts h = true :=
  accepted_satisfies CCall.model (fun h => CCall.monC17.accepts h = true)
    CCall.C17_obs cap fuel h ha

end UtilModel

/-! ## completeness of the candidate lists — a REJECT is about the model -/
namespace UtilModel

/-- every enabled internal event of the CallConcurrently model is in its candidate list -/
theorem CCall.cands_complete (s s' : CCall.St) (e : CCall.Ev) (hs : CCall.step s e = some s')
    (ho : e.obs = none) : e ∈ CCall.model.cands s := by
  show e ∈ CCall.cands s
  unfold CCall.cands
  cases e <;> simp [CCall.Ev.obs] at ho
  case decCS i =>
    simp only [CCall.step] at hs
    split at hs <;> try simp at hs
    rename_i h
    simp only [List.mem_append, List.mem_map, List.mem_range]
    exact Or.inr ⟨i, lt_of_getElem? h, rfl⟩
  all_goals simp

theorem CCall.Ev.obs_ev (e : CCall.Ev) (o : CCall.Obs) (h : e.obs = some o) : o.ev = e := by
  cases e <;> simp [CCall.Ev.obs] at h <;> subst h <;> rfl

theorem complete_ccall : CCall.model.Complete :=
  ⟨fun s e s' hs ho => CCall.cands_complete s s' e hs ho,
   fun _ e _ o _ ho => by simp [CCall.model, CCall.Ev.obs_ev e o ho]⟩

/-- **A REJECT of the CallConcurrently correspondence is about the model** (list-indexed checker). -/
theorem reject_sound_ccall (cap fuel : Nat) (h : List CCall.Obs) (i : Nat)
    (hfail : (CCall.model.accRun cap fuel [CCall.model.init] h 0 false 1).failedAt = some i)
    (htr : (CCall.model.accRun cap fuel [CCall.model.init] h 0 false 1).truncated = false) :
    ¬ ∃ es s, CCall.model.run CCall.model.init es = some s ∧ es.filterMap CCall.model.obs = h :=
  reject_sound CCall.model complete_ccall cap fuel h i hfail htr

end UtilModel
