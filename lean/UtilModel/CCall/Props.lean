import UtilModel.CCall.Proofs
import UtilModel.CCall.Sim
/-!
# ccall.CallConcurrently — property C17, for every event list

"CallConcurrently runs every non-nil function, each exactly once, and returns nil only after all of
them have returned nil. If any function returns an error other than context.Canceled, the call
returns such an error that some function actually returned (never nil); if the caller's context is
cancelled first it returns context.Canceled; and once it has returned, the context given to the
functions is cancelled."

Every theorem quantifies over all event lists `es` of the model: every number of functions (0, 1,
nil entries included), every combination of outcomes, every completion order, every position of the
functions' steps relative to the caller's critical sections and `select` decisions.
-/
namespace UtilModel.CCall
open UtilModel

/-- the call has decided to return `r` (its deferred cancel may still be pending) or has returned `r` -/
def St.result (s : St) (r : Res) : Prop := s.pc = .retReady r ∨ s.pc = .finished r

/-- **each function at most once; a nil entry never.** `entries[i]` counts the entries of function
`i` (`cbin i` events); it is 1 exactly if the function is past its entry and 0 otherwise. -/
theorem each_once (es : List Ev) (s : St) (h : model.run model.init es = some s)
    (i : Nat) (w : WS) (hw : s.ws[i]? = some w) :
    ∃ k, s.entries[i]? = some k ∧ k ≤ 1 ∧ (w = WS.absent → k = 0) ∧ (k = 1 ↔ w.entered = true) := by
  have hi := reachable_inv es s h
  have hlt : i < s.entries.length := by rw [hi.elen]; exact lt_of_getElem? hw
  refine ⟨s.entries[i], by simp [hlt], ?_⟩
  have := hi.ent i w s.entries[i] hw (by simp [hlt])
  rw [this]
  cases w <;> simp [WS.entered]

/-- **each non-nil function exactly once (quiescent form).** Once the call has been invoked and
nothing moves any more, every non-nil function has been entered exactly once (also when the call
returned early because of an error or a cancelled context). -/
theorem each_once_quiescent (es : List Ev) (s : St) (h : model.run model.init es = some s)
    (hq : quiescent s = true) (i : Nat) (w : WS) (hw : s.ws[i]? = some w) (hnil : w ≠ WS.absent) :
    s.entries[i]? = some 1 := by
  have hi := reachable_inv es s h
  obtain ⟨k, hk, _, _, hk1⟩ := each_once es s h i w hw
  rw [hk]; congr 1; rw [hk1]
  simp only [quiescent, Bool.and_eq_true, List.all_eq_true] at hq
  have hw' := hq.1 w (List.mem_of_getElem? hw)
  have hp := hi.pcI
  unfold PCInv at hp
  cases w with
  | absent => exact absurd rfl hnil
  | spawned => simp at hw'
  | returned r => rfl
  | running => rfl
  | done r => rfl
  | pending =>
    exfalso
    cases hpc : s.pc with
    | idle => simp only [hpc] at hp; rw [hp] at hw; simp at hw
    | invoked => simp [hpc] at hq
    | inline => simp only [hpc] at hp; rcases hp with e | e <;> rw [e] at hw <;> cases i <;> simp at hw
    | sel ch => simp only [hpc] at hp; exact hp.2.1 i hw
    | exiting r => simp [hpc] at hq
    | retReady r => simp [hpc] at hq
    | finished r => simp only [hpc] at hp; exact hp.2.1 i hw

/-- **nil only if all nil.** If the result is `nil`, every non-nil function has returned `nil` (and
has completed its bookkeeping). -/
theorem nil_only_if_all_nil (es : List Ev) (s : St) (h : model.run model.init es = some s)
    (hr : s.result .nil) (i : Nat) (w : WS) (hw : s.ws[i]? = some w) :
    w = WS.absent ∨ w = WS.done .nil := by
  have hp := (reachable_inv es s h).pcI
  unfold PCInv at hp
  rcases hr with e | e <;> simp only [e] at hp <;> exact hp.1 i w hw

/-- **a returned error is real.** A result `err j` was returned by some function. -/
theorem error_returned_is_real (es : List Ev) (s : St) (h : model.run model.init es = some s)
    (j : Nat) (hr : s.result (.err j)) : ∃ i : Nat, s.ws[i]? = some (WS.done (.err j)) := by
  have hp := (reachable_inv es s h).pcI
  unfold PCInv at hp
  rcases hr with e | e <;> simp only [e] at hp <;> exact hp.1

/-- **an error is never swallowed.** If some function has returned an error other than
`context.Canceled` by the time the call returns and the caller's context is not cancelled, the result
is an error other than `Canceled` (by `error_returned_is_real` one that a function returned): never
`nil`, never `Canceled`. This is the clause the pre-fix code violated (DESIGN §7 D10). -/
theorem error_not_swallowed (es : List Ev) (s : St) (h : model.run model.init es = some s)
    (r : Res) (hr : s.result r) (i j : Nat)
    (hf : s.ws[i]? = some (WS.returned (.err j)) ∨ s.ws[i]? = some (WS.done (.err j)))
    (hctx : s.ctxC = false) : r.isReal = true := by
  have hp := (reachable_inv es s h).pcI
  unfold PCInv at hp
  have hJ : Just s.ws s.ctxC r := by
    rcases hr with e | e <;> simp only [e] at hp <;> exact hp.1
  cases r with
  | err k => rfl
  | panic => exact absurd hJ id
  | nil =>
    exfalso
    rcases hf with hf | hf <;> rcases hJ i _ hf with e | e <;> cases e
  | canceled =>
    exfalso
    rcases hJ with e | ⟨hall, _⟩
    · rw [hctx] at e; cases e
    · rcases hf with hf | hf
      · rcases hall i _ hf with e | ⟨x, e, _⟩ <;> cases e
      · rcases hall i _ hf with e | ⟨x, e, hx⟩
        · cases e
        · cases e; simp at hx

/-- **Canceled only for a reason.** A result `context.Canceled` means the caller's context was
cancelled, or every function has returned, one of them `Canceled` and none another error. -/
theorem canceled_only_if (es : List Ev) (s : St) (h : model.run model.init es = some s)
    (hr : s.result .canceled) :
    s.ctxC = true ∨
    ((∀ (i : Nat) (w : WS), s.ws[i]? = some w → w = WS.absent ∨ ∃ r : Res, w = WS.done r ∧ r.isReal = false) ∧
     ∃ i : Nat, s.ws[i]? = some (WS.done .canceled)) := by
  have hp := (reachable_inv es s h).pcI
  unfold PCInv at hp
  rcases hr with e | e <;> simp only [e] at hp <;> exact hp.1

/-- **cancelled first ⇒ Canceled (enabledness).** While the caller waits (≥ 2 entries) and its context
is cancelled, its own next step — the `ctx.Done()` branch of the select — is enabled and decides
`context.Canceled`; no step of any function is needed. (With a single entry the function is called
inline and the call returns whatever it returns: `inline_passthrough`.) -/
theorem canceled_first (s : St) (ch : Nat) (hpc : s.pc = .sel ch) (hc : s.ctxC = true) :
    ∃ s', step s .ctxTake = some s' ∧ s'.pc = .exiting .canceled := by
  refine ⟨{ s with pc := .exiting .canceled }, ?_, rfl⟩
  simp [step, hpc, hc]

/-- **cancelled first ⇒ Canceled (quiescent form).** The call never stays blocked in its wait loop
with a cancelled context. -/
theorem quiescent_not_cancelled (s : St) (ch : Nat) (hq : quiescent s = true) (hpc : s.pc = .sel ch) :
    s.ctxC = false := by
  simp [quiescent, hpc] at hq; exact hq.2.2

/-- **no lost wake-up.** A caller parked on a still-open wait channel has functions outstanding and no
error other than `Canceled` recorded: every decrement section broadcasts. -/
theorem parked_open (es : List Ev) (s : St) (h : model.run model.init es = some s)
    (ch : Nat) (hpc : s.pc = .sel ch) (hopen : s.bc.closed ch = false) :
    0 < s.running ∧ s.exitErr.isReal = false := by
  have hp := (reachable_inv es s h).pcI
  simp only [PCInv, hpc] at hp
  exact hp.2.2.2 hopen

/-- **the call returns as soon as it can (quiescent form).** If nothing moves any more and the call
is still waiting, some function is still inside its body, no error other than `Canceled` has been
returned, and the context is not cancelled. -/
theorem quiescent_pending (es : List Ev) (s : St) (h : model.run model.init es = some s)
    (hq : quiescent s = true) (ch : Nat) (hpc : s.pc = .sel ch) :
    (∃ i : Nat, s.ws[i]? = some WS.running) ∧ s.ctxC = false ∧
    ∀ (i : Nat) (r : Res), (s.ws[i]? = some (WS.returned r) ∨ s.ws[i]? = some (WS.done r)) → r.isReal = false :=
  quiescent_pending_aux s (reachable_inv es s h) hq ch hpc

/-- **the context handed to the functions is cancelled once the call returns.** (With zero entries
no context is created.) -/
theorem ctx_cancelled_after_return (es : List Ev) (s : St) (h : model.run model.init es = some s)
    (r : Res) (hr : s.result r) (hne : s.ws ≠ []) : s.subCancelled = true := by
  have hp := (reachable_inv es s h).pcI
  unfold PCInv at hp
  have : s.subC = true := by
    rcases hr with e | e <;> simp only [e] at hp <;> exact hp.2.2 hne
  simp [St.subCancelled, this]

/-- … hence every look at the context handed to a function (by the function while it is still
running, or by anybody later) after the return sees it cancelled. -/
theorem probe_after_return (es : List Ev) (s s' : St) (h : model.run model.init es = some s)
    (r : Res) (hr : s.result r) (i : Nat) (c : Bool) (hs : step s (.probe i c) = some s') : c = true := by
  simp only [step] at hs; split at hs <;> simp at hs
  rename_i w hw
  have hne : s.ws ≠ [] := by intro e; rw [e] at hw; simp at hw
  rw [hs.1.2]; exact ctx_cancelled_after_return es s h r hr hne

/-- **no panic.** The call never panics: for no event list is `panic` the decided result — in
particular not for zero entries, a single nil entry or only nil entries (see the examples below). -/
theorem no_panic (es : List Ev) (s : St) (h : model.run model.init es = some s) :
    s.pc ≠ .exiting .panic ∧ ¬ s.result .panic := by
  have hp := (reachable_inv es s h).pcI
  unfold PCInv at hp
  refine ⟨?_, ?_⟩
  · intro e; simp only [e] at hp; exact hp.1
  · intro hr; rcases hr with e | e <;> simp only [e] at hp <;> exact hp.1

/-- a single function is called inline and its result passed through -/
theorem inline_passthrough (s s' : St)
    (hpc : s.pc = .inline) (i : Nat) (r : Res) (hs : step s (.cbout i r) = some s') :
    s'.pc = .exiting r := by
  simp only [step, hpc] at hs
  split at hs; · simp at hs
  split at hs <;> simp at hs
  rw [← hs]

/-- **C17, observable form.** Every observable trace of the model is accepted by the monitor
`monC17`: the property holds for every history the model can produce — every number of functions,
every outcome combination, every completion order and timing. -/
theorem C17_obs (es : List Ev) (s : St) (h : model.run model.init es = some s) :
    monC17.accepts (es.filterMap model.obs) = true :=
  monitor_accepts_of_simulation model monC17 RelC17 relC17_init
    (fun s e s' ms hR hs => by
      have h := sim_step s e s' ms hR hs
      cases e <;> exact h) es s h

/-! ## the hypotheses are satisfiable; the model does something non-trivial -/

/-- zero functions: returns nil -/
example : ∃ s, model.run model.init [.inv [], .enter, .ret .nil, .quiesce false []] = some s ∧
    s.pc = .finished .nil := by decide

/-- a single nil entry: returns nil, no panic (D11) -/
example : ∃ s, model.run model.init [.inv [false], .enter, .deferCancel, .ret .nil, .quiesce false []] = some s ∧
    s.pc = .finished .nil := by decide

/-- only nil entries: the spawn section starts nothing and the call returns nil -/
example : ∃ s, model.run model.init [.inv [false, false], .enter, .deferCancel, .ret .nil] = some s ∧
    s.pc = .finished .nil := by decide

/-- the D10 window: both functions finish (one with an error) before the caller looks again; the
error is returned -/
example : ∃ s, model.run model.init
    [.inv [true, true], .enter, .cbin 0, .cbin 1, .cbout 0 (.err 0), .cbout 1 .nil, .decCS 0, .decCS 1,
     .recheckCS, .deferCancel, .ret (.err 0), .quiesce false []] = some s ∧ s.pc = .finished (.err 0) := by decide

/-- … and `nil` is not a possible result of that schedule -/
example : model.run model.init
    [.inv [true, true], .enter, .cbin 0, .cbin 1, .cbout 0 (.err 0), .cbout 1 .nil, .decCS 0, .decCS 1,
     .recheckCS, .deferCancel, .ret .nil] = none := by decide

/-- early return on an error while the other function still runs; it then sees a cancelled context -/
example : ∃ s, model.run model.init
    [.inv [true, true], .enter, .cbin 1, .cbin 0, .cbout 1 (.err 1), .decCS 1, .recheckCS, .deferCancel,
     .ret (.err 1), .probe 0 true, .cbout 0 .nil, .decCS 0, .probe 0 true, .probe 1 true, .quiesce false []] = some s ∧
    s.pc = .finished (.err 1) := by decide

/-- a single function: its context is cancelled once the call has returned (and was live before) -/
example : ∃ s, model.run model.init
    [.inv [true], .enter, .cbin 0, .probe 0 false, .cbout 0 .nil, .deferCancel, .ret .nil, .probe 0 true] = some s ∧
    s.pc = .finished .nil := by decide

example : model.run model.init
    [.inv [true], .enter, .cbin 0, .cbout 0 .nil, .deferCancel, .ret .nil, .probe 0 false] = none := by decide

/-- the caller's context is cancelled while it waits: Canceled, the functions keep running -/
example : ∃ s, model.run model.init
    [.inv [true, false, true], .enter, .cbin 0, .envCancel, .ctxTake, .deferCancel, .ret .canceled,
     .cbin 2, .quiesce false []] = some s ∧ s.pc = .finished .canceled := by decide

/-- a pending call at a quiescence point -/
example : ∃ s, model.run model.init
    [.inv [true, true], .enter, .cbin 0, .cbin 1, .cbout 0 .nil, .decCS 0, .recheckCS,
     .quiesce true [1]] = some s ∧ s.running = 1 := by decide

end UtilModel.CCall
