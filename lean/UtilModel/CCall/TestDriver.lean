import UtilModel.Core.Driver
import UtilModel.CCall.Model
import UtilModel.CCall.Monitors
/-! Development driver for this component only: `lake env lean --run UtilModel/CCall/TestDriver.lean ccall < hist` -/
open UtilModel

def main (args : List String) : IO UInt32 :=
  driverMain [
    mkEntry "ccall" CCall.model CCall.Obs.parse [MonEntry.ofMonitor "C17" CCall.monC17]
  ] args
