import UtilModel.CCall.Model
import UtilModel.Core.Monitor
/-!
# ccall: property C17 as an executable monitor over observable histories

The automaton mentions only API-level events: the invocation (with the nil/non-nil shape of `fns`),
the entry and exit of each function with its outcome, the cancellation of the caller's context, the
return value, looks of still-running functions at `ctx.Err()`, and quiescence points.

Clauses (the words of C17):
* `cbin i`      only a non-nil function is run, and at most once                      (each once, ≤)
* `quiesce`     after the call was invoked, every non-nil function has been entered    (each once, ≥)
* `ret nil`     only if every non-nil function has returned nil                       (nil only if all nil)
* `ret err j`   only if some function returned `err j`                                (error is real)
* some function returned an error ≠ Canceled before the return and the caller's context was not
  cancelled ⇒ the result is such an error (never nil, never Canceled)               (error is real)
* `ret canceled` only if the caller's context was cancelled, or all functions returned, one of
  them Canceled and none another error                                               (canceled)
* `quiesce` with the call pending and ≥ 2 entries: the context is not cancelled, no error ≠ Canceled
  has been returned and some function is still running                               (canceled first / progress)
* `probe` (a look at the context handed to an entered function, whether or not the function is
  still running) after the return sees a cancelled context; at quiescence after the return no
  function is still waiting for the context                                                    (ctx cancelled after return)
* `ret panic` never                                                                  (no panic)
-/
namespace UtilModel.CCall

/-- what the history says about entry `i` -/
inductive FS where
  | nilEntry | notEntered | entered | out (r : Res)
deriving DecidableEq, Repr, Inhabited

def FS.isRealOut : FS → Bool
  | .out r => r.isReal
  | _ => false

/-- the function has been entered: it received a context -/
def FS.wasEntered : FS → Bool
  | .entered | .out _ => true
  | _ => false

def FS.settled : FS → Bool
  | .nilEntry | .out _ => true
  | _ => false

structure C17St where
  tbl : Option (List FS) := none
  cancelled : Bool := false
  returned : Bool := false
deriving DecidableEq, Repr

/-- is `r` an admissible result given the function outcomes so far? -/
def retOK (T : List FS) (cancelled : Bool) (r : Res) : Bool :=
  (match r with
   | .nil => T.all (fun f => f == .nilEntry || f == .out .nil)
   | .err j => T.contains (.out (.err j))
   | .canceled => cancelled ||
       (T.all FS.settled && T.contains (.out .canceled) && !T.any FS.isRealOut)
   | .panic => false) &&
  (if T.any FS.isRealOut && !cancelled then r.isReal else true)

def monC17 : ObsMonitor Obs C17St where
  init := {}
  step := fun ms o =>
    match o with
    | .inv sh =>
      match ms.tbl with
      | none => some { ms with tbl := some (sh.map fun b => if b then .notEntered else .nilEntry) }
      | some _ => none
    | .cbin i =>
      match ms.tbl with
      | some T => if T[i]? = some .notEntered then some { ms with tbl := some (T.set i .entered) } else none
      | none => none
    | .cbout i r =>
      match ms.tbl with
      | some T => if T[i]? = some .entered ∧ r ≠ .panic then some { ms with tbl := some (T.set i (.out r)) } else none
      | none => none
    | .envCancel => some { ms with cancelled := true }
    | .probe i c =>
      match ms.tbl with
      | some T =>
        match T[i]? with
        | some f => if f.wasEntered = true ∧ (ms.returned → c = true) then some ms else none
        | none => none
      | none => none
    | .ret r =>
      match ms.tbl with
      | some T => if !ms.returned ∧ retOK T ms.cancelled r then some { ms with returned := true } else none
      | none => none
    | .quiesce p W =>
      match ms.tbl with
      | none => if p = false ∧ W = [] then some ms else none
      | some T =>
        if T.all (· != .notEntered) ∧
           W.all (fun i => T[i]? == some .entered) ∧
           (if ms.returned then p = false ∧ W = []
            else p = true ∧ T.any (· == .entered) ∧
                 (2 ≤ T.length → ms.cancelled = false ∧ T.any FS.isRealOut = false))
        then some ms else none

end UtilModel.CCall
