import UtilModel.CCall.Model
/-!
# ccall — the inductive invariant (for every event list)
-/
namespace UtilModel.CCall
open UtilModel

/-- no entry is still waiting for its goroutine -/
def NoPending (ws : List WS) : Prop := ∀ i : Nat, ws[i]? ≠ some WS.pending

/-- why the decided result `r` is right, in terms of what the functions returned -/
def Just (ws : List WS) (ctxC : Bool) : Res → Prop
  | .nil => ∀ (i : Nat) (w : WS), ws[i]? = some w → w = WS.absent ∨ w = WS.done .nil
  | .err j => ∃ i : Nat, ws[i]? = some (WS.done (.err j))
  | .canceled => ctxC = true ∨
      ((∀ (i : Nat) (w : WS), ws[i]? = some w → w = WS.absent ∨ ∃ r : Res, w = WS.done r ∧ r.isReal = false) ∧
       ∃ i : Nat, ws[i]? = some (WS.done .canceled))
  | .panic => False

/-- what must hold at each program counter of the caller -/
def PCInv (s : St) : Prop :=
  match s.pc with
  | .idle => s.ws = []
  | .invoked => ∀ (i : Nat) (w : WS), s.ws[i]? = some w → w = WS.absent ∨ w = WS.pending
  | .inline => s.ws = [.spawned] ∨ s.ws = [.running]
  | .sel ch => 2 ≤ s.ws.length ∧ NoPending s.ws ∧ ch < s.bc.next ∧
      (s.bc.closed ch = false → 0 < s.running ∧ s.exitErr.isReal = false)
  | .exiting r => Just s.ws s.ctxC r ∧ NoPending s.ws ∧ s.ws ≠ []
  | .retReady r => Just s.ws s.ctxC r ∧ NoPending s.ws ∧ (s.ws ≠ [] → s.subC = true)
  | .finished r => Just s.ws s.ctxC r ∧ NoPending s.ws ∧ (s.ws ≠ [] → s.subC = true)

structure Inv (s : St) : Prop where
  bcwf : s.bc.WF
  elen : s.entries.length = s.ws.length
  /-- each function has been entered once if it is past its entry, never otherwise -/
  ent : ∀ (i : Nat) (w : WS) (k : Nat), s.ws[i]? = some w → s.entries[i]? = some k → k = if w.entered then 1 else 0
  nopanic : ∀ (i : Nat) (r : Res), (s.ws[i]? = some (WS.returned r) ∨ s.ws[i]? = some (WS.done r)) → r ≠ .panic
  small : s.ws.length < 2 → s.running = 0 ∧ s.exitErr = .nil
  /-- with fewer than two entries a function only ever runs inline and never reaches a decrement section -/
  smallw : s.ws.length < 2 → ∀ (i : Nat) (w : WS), s.ws[i]? = some w → w.active = true →
            s.pc = PC.inline ∧ ∀ r : Res, w ≠ WS.returned r
  /-- `running` counts the goroutines that have not yet executed their decrement section -/
  run : 2 ≤ s.ws.length → s.running = (s.ws.countP WS.active : Nat)
  e1 : s.exitErr = .nil → 2 ≤ s.ws.length → ∀ (i : Nat) (r : Res), s.ws[i]? = some (WS.done r) → r = .nil
  e2 : ∀ j : Nat, s.exitErr = .err j → ∃ i : Nat, s.ws[i]? = some (WS.done (.err j))
  e3 : s.exitErr = .canceled → (∃ i : Nat, s.ws[i]? = some (WS.done .canceled)) ∧
        ∀ (i : Nat) (r : Res), s.ws[i]? = some (WS.done r) → r.isReal = false
  e4 : s.exitErr ≠ .panic
  pcI : PCInv s

theorem init_inv : Inv ({} : St) := by
  refine ⟨Bcast.wf_init, rfl, ?_, ?_, ?_, ?_, ?_, ?_, ?_, ?_, ?_, ?_⟩ <;> simp [PCInv]

/-! ## lemmas about replacing one entry -/

theorem noPending_set {ws : List WS} {i : Nat} {b : WS} (h : NoPending ws) (hb : b ≠ WS.pending) :
    NoPending (ws.set i b) := by
  intro u hu
  rcases getElem?_set_cases ws i u b _ hu with ⟨_, hx⟩ | ⟨_, hx⟩
  · exact hb hx.symm
  · exact h u hx

/-- replacing an entry that is neither nil nor done keeps every justification -/
theorem just_set {ws : List WS} {c : Bool} {r : Res} {i : Nat} {a b : WS}
    (hJ : Just ws c r) (ha : ws[i]? = some a) (hna : a ≠ WS.absent) (hnd : ∀ x, a ≠ WS.done x) :
    Just (ws.set i b) c r := by
  cases r with
  | nil =>
    exfalso
    rcases hJ i a ha with h | h
    · exact hna h
    · exact hnd _ h
  | err j =>
    obtain ⟨u, hu⟩ := hJ
    have hne : i ≠ u := by intro e; subst e; rw [ha] at hu; cases hu; exact hnd _ rfl
    exact ⟨u, by rw [getElem?_set_ne' _ _ _ _ hne]; exact hu⟩
  | canceled =>
    rcases hJ with h | ⟨h, _⟩
    · exact Or.inl h
    · exfalso
      rcases h i a ha with h | ⟨x, h, _⟩
      · exact hna h
      · exact hnd _ h
  | panic => exact hJ

theorem just_ctx {ws : List WS} {c : Bool} {r : Res} (hJ : Just ws c r) : Just ws true r := by
  cases r with
  | nil => exact hJ
  | err j => exact hJ
  | canceled => exact Or.inl rfl
  | panic => exact hJ

/-- the `done` entries are unchanged when an entry moves between two non-`done` states -/
theorem done_set_iff {ws : List WS} {i : Nat} {a b : WS} (ha : ws[i]? = some a)
    (hna : ∀ x, a ≠ WS.done x) (hnb : ∀ x, b ≠ WS.done x) (u : Nat) (r : Res) :
    (ws.set i b)[u]? = some (WS.done r) ↔ ws[u]? = some (WS.done r) := by
  constructor
  · intro h
    rcases getElem?_set_cases ws i u b _ h with ⟨_, hx⟩ | ⟨_, hx⟩
    · exact absurd hx.symm (hnb r)
    · exact hx
  · intro h
    have hne : i ≠ u := by intro e; subst e; rw [ha] at h; cases h; exact hna r rfl
    rw [getElem?_set_ne' _ _ _ _ hne]; exact h

end UtilModel.CCall

namespace UtilModel.CCall
open UtilModel

/-- an event that touches only the caller's program counter and the two context flags -/
theorem inv_pc (s : St) (p : PC) (c d : Bool) (hi : Inv s) (hpc : p = s.pc ∨ s.pc ≠ PC.inline)
    (hp : PCInv { s with pc := p, ctxC := c, subC := d }) :
    Inv { s with pc := p, ctxC := c, subC := d } :=
  ⟨hi.bcwf, hi.elen, hi.ent, hi.nopanic, hi.small,
   fun h i w hw ha => by
     have := hi.smallw h i w hw ha
     rcases hpc with h' | h'
     · exact ⟨by rw [h']; exact this.1, this.2⟩
     · exact absurd this.1 h',
   hi.run, hi.e1, hi.e2, hi.e3, hi.e4, hp⟩

theorem countP_spawnAll (ws : List WS) (h : ∀ (i : Nat) (w : WS), ws[i]? = some w → w = WS.absent ∨ w = WS.pending) :
    (spawnAll ws).countP WS.active = ws.countP WS.isPending := by
  induction ws with
  | nil => rfl
  | cons x xs ih =>
    have hx := h 0 x (by simp)
    have ih' := ih (fun i w hw => h (i+1) w (by simpa using hw))
    simp only [spawnAll, List.map_cons, List.countP_cons] at ih' ⊢
    rw [ih']
    rcases hx with rfl | rfl <;> simp [WS.active, WS.isPending]

theorem countP_active_zero (ws : List WS) (h : ∀ (i : Nat) (w : WS), ws[i]? = some w → w = WS.absent ∨ w = WS.pending) :
    ws.countP WS.active = 0 := by
  rw [List.countP_eq_zero]
  intro w hw
  obtain ⟨i, hi⟩ := List.getElem?_of_mem hw
  rcases h i w hi with rfl | rfl <;> simp [WS.active]

theorem spawnAll_getElem? (ws : List WS) (i : Nat) (w : WS) (h : (spawnAll ws)[i]? = some w) :
    ∃ w0, ws[i]? = some w0 ∧ w = (match w0 with | .pending => .spawned | x => x) := by
  simp only [spawnAll, List.getElem?_map] at h
  cases hw : ws[i]? with
  | none => simp [hw] at h
  | some w0 => simp [hw] at h; exact ⟨w0, rfl, h.symm⟩

end UtilModel.CCall

namespace UtilModel.CCall
open UtilModel

theorem set_ne_nil {α : Type} (l : List α) (i : Nat) (b : α) (h : l ≠ []) : l.set i b ≠ [] := by
  intro e; have := congrArg List.length e; simp at this; exact h this

/-- `PCInv` when entry `i` moves from `a` to `b`, both neither nil, pending nor done -/
theorem pcinv_wmove (s : St) (i : Nat) (a b : WS) (ents : List Nat) (hp : PCInv s)
    (ha : s.ws[i]? = some a) (hna : a ≠ WS.absent) (hnp : a ≠ WS.pending) (hnda : ∀ x, a ≠ WS.done x)
    (hbp : b ≠ WS.pending)
    (hinl : s.pc = .inline → a = WS.spawned ∧ b = WS.running) :
    PCInv { s with ws := s.ws.set i b, entries := ents } := by
  unfold PCInv at hp ⊢
  cases hpc : s.pc with
  | idle => simp only [hpc] at hp; rw [hp] at ha; simp at ha
  | invoked =>
    simp only [hpc] at hp
    rcases hp i a ha with h | h
    · exact absurd h hna
    · exact absurd h hnp
  | inline =>
    simp only [hpc] at hp ⊢
    obtain ⟨rfl, rfl⟩ := hinl hpc
    rcases hp with h | h
    · rw [h] at ha ⊢
      cases i with
      | zero => right; rfl
      | succ n => simp at ha
    · rw [h] at ha
      cases i with
      | zero => simp at ha
      | succ n => simp at ha
  | sel ch =>
    simp only [hpc] at hp ⊢
    obtain ⟨h1, h2, h3, h4⟩ := hp
    exact ⟨by simpa using h1, noPending_set h2 hbp, h3, h4⟩
  | exiting r =>
    simp only [hpc] at hp ⊢
    obtain ⟨h1, h2, h3⟩ := hp
    exact ⟨just_set h1 ha hna hnda, noPending_set h2 hbp, set_ne_nil _ _ _ h3⟩
  | retReady r =>
    simp only [hpc] at hp ⊢
    obtain ⟨h1, h2, h3⟩ := hp
    refine ⟨just_set h1 ha hna hnda, noPending_set h2 hbp, fun _ => h3 ?_⟩
    intro e; rw [e] at ha; simp at ha
  | finished r =>
    simp only [hpc] at hp ⊢
    obtain ⟨h1, h2, h3⟩ := hp
    refine ⟨just_set h1 ha hna hnda, noPending_set h2 hbp, fun _ => h3 ?_⟩
    intro e; rw [e] at ha; simp at ha

/-- entry `i` moves between two states that are neither nil, pending nor done and are counted alike -/
theorem inv_wmove (s : St) (i : Nat) (a b : WS) (ents : List Nat) (hi : Inv s)
    (ha : s.ws[i]? = some a) (hna : a ≠ WS.absent) (hnp : a ≠ WS.pending) (hnda : ∀ x, a ≠ WS.done x)
    (hbp : b ≠ WS.pending) (hndb : ∀ x, b ≠ WS.done x) (hact : a.active = b.active)
    (hbr : ∀ r, b = WS.returned r → r ≠ Res.panic)
    (hel : ents.length = s.ws.length)
    (hent : ∀ (u : Nat) (w : WS) (k : Nat), (s.ws.set i b)[u]? = some w → ents[u]? = some k →
              k = if w.entered then 1 else 0)
    (hinl : s.pc = .inline → a = WS.spawned ∧ b = WS.running) :
    Inv { s with ws := s.ws.set i b, entries := ents } := by
  have hd := done_set_iff (b := b) ha hnda hndb
  refine ⟨hi.bcwf, by simpa using hel, hent, ?_, ?_, ?_, ?_, ?_, ?_, ?_, hi.e4,
    pcinv_wmove s i a b ents hi.pcI ha hna hnp hnda hbp hinl⟩
  · intro u r h
    rcases h with h | h
    · rcases getElem?_set_cases s.ws i u b _ h with ⟨_, hx⟩ | ⟨_, hx⟩
      · exact hbr r hx.symm
      · exact hi.nopanic u r (Or.inl hx)
    · exact hi.nopanic u r (Or.inr ((hd u r).mp h))
  · intro h; exact hi.small (by simpa using h)
  · intro h u w hw hact'
    have h' : s.ws.length < 2 := by simpa using h
    rcases getElem?_set_cases s.ws i u b _ hw with ⟨_, hx⟩ | ⟨_, hx⟩
    · subst hx
      have := hi.smallw h' i a ha (by rw [hact]; exact hact')
      obtain ⟨_, hb⟩ := hinl this.1
      exact ⟨this.1, by intro r e; rw [hb] at e; cases e⟩
    · exact hi.smallw h' u w hx hact'
  · intro h
    have h' : 2 ≤ s.ws.length := by simpa using h
    have c := countP_set WS.active s.ws i a b ha
    have r := hi.run h'
    show s.running = _
    rw [hact] at c
    simp only at c ⊢
    omega
  · intro h1 h2 u r h
    exact hi.e1 h1 (by simpa using h2) u r ((hd u r).mp h)
  · intro j h
    obtain ⟨u, hu⟩ := hi.e2 j h
    exact ⟨u, (hd u _).mpr hu⟩
  · intro h
    obtain ⟨⟨u, hu⟩, h2⟩ := hi.e3 h
    exact ⟨⟨u, (hd u _).mpr hu⟩, fun v r hv => h2 v r ((hd v r).mp hv)⟩


theorem step_inv_inv (s : St) (sh : List Bool) (s' : St) (hi : Inv s) (hs : step s (.inv sh) = some s') : Inv s' := by
  simp only [step] at hs; split at hs <;> simp at hs; subst hs
  rename_i hpc
  have hp := hi.pcI; simp only [PCInv, hpc] at hp
  have hws : ∀ (i : Nat) (w : WS), (sh.map (fun b => if b then WS.pending else WS.absent))[i]? = some w →
      w = WS.absent ∨ w = WS.pending := by
    intro i w h
    simp only [List.getElem?_map] at h
    cases hb : sh[i]? with
    | none => simp [hb] at h
    | some b => cases b <;> simp [hb] at h <;> simp [← h]
  have hsm := hi.small (by simp [hp])
  refine ⟨hi.bcwf, by simp, ?_, ?_, ?_, ?_, ?_, ?_, ?_, ?_, hi.e4, ?_⟩
  · intro i w k hw hk
    simp only [List.getElem?_map] at hk
    cases hb : sh[i]? with
    | none => simp [hb] at hk
    | some b =>
      simp [hb] at hk; subst hk
      rcases hws i w hw with rfl | rfl <;> simp [WS.entered]
  · intro i r h
    rcases h with h | h <;> rcases hws i _ h with h' | h' <;> cases h'
  · intro _; exact hsm
  · intro _ i w hw hact
    rcases hws i w hw with rfl | rfl <;> simp [WS.active] at hact
  · intro _
    simp only
    rw [countP_active_zero _ hws]; simp [hsm.1]
  · intro _ _ i r h; rcases hws i _ h with h' | h' <;> cases h'
  · intro j h; simp [hsm.2] at h
  · intro h; simp [hsm.2] at h
  · simp only [PCInv]; exact hws


theorem step_inv_enter (s : St) (s' : St) (hi : Inv s) (hs : step s .enter = some s') : Inv s' := by
  simp only [step] at hs
  split at hs
  · rename_i hpc
    have hp := hi.pcI; simp only [PCInv, hpc] at hp
    split at hs
    · -- no entries
      rename_i hws
      simp at hs; subst hs
      refine inv_pc s _ s.ctxC s.subC hi (Or.inr (by rw [hpc]; simp)) ?_
      simp [PCInv, Just, NoPending, hws]
    · -- one entry
      rename_i w hws
      have hw := hp 0 w (by simp [hws])
      have hsm := hi.small (by simp [hws])
      split at hs <;> simp at hs <;> subst hs
      · -- a function: inline call
        have hel := hi.elen
        refine ⟨hi.bcwf, by simpa [hws] using hel, ?_, ?_, ?_, ?_, ?_, ?_, ?_, ?_, hi.e4, ?_⟩
        · intro i w' k hw' hk
          have hi0 : i = 0 := by
            cases i with
            | zero => rfl
            | succ n => simp at hw'
          subst hi0
          simp at hw'; subst hw'
          have := hi.ent 0 w k (by simp [hws]) hk
          rename_i hwp; subst hwp
          simpa [WS.entered] using this
        · intro i r h; rcases h with h | h <;> (cases i <;> simp at h)
        · intro _; exact hsm
        · intro _ i w' hw' _
          refine ⟨rfl, ?_⟩
          cases i <;> simp at hw'
          subst hw'; intro r e; cases e
        · intro h; simp at h
        · intro _ h; simp at h
        · intro j h; simp [hsm.2] at h
        · intro h; simp [hsm.2] at h
        · simp [PCInv]
      · -- a nil entry
        rename_i hwp
        have hwa : w = WS.absent := by rcases hw with h | h; exact h; exact absurd h hwp
        refine inv_pc s _ s.ctxC s.subC hi (Or.inr (by rw [hpc]; simp)) ?_
        simp only [PCInv, Just, NoPending]
        refine ⟨?_, ?_, by simp [hws]⟩
        · intro i w' h
          rw [hws] at h
          cases i with
          | zero => simp at h; left; rw [← h]; exact hwa
          | succ n => simp at h
        · intro i h
          rw [hws] at h
          cases i with
          | zero => simp at h; rw [hwa] at h; cases h
          | succ n => simp at h
    · -- two or more entries: the spawn section
      rename_i w1 w2 rest hws
      simp only [Option.some.injEq] at hs; subst hs
      have hlen : 2 ≤ s.ws.length := by simp [hws]
      obtain ⟨g1, g2, g3, g4, g5, g6, g7⟩ := Bcast.getWaitCh_spec s.bc hi.bcwf
      have hrun := hi.run hlen
      have hz := countP_active_zero _ hp
      have hsp := countP_spawnAll _ hp
      have hget : ∀ (i : Nat) (w : WS), (spawnAll s.ws)[i]? = some w → w = WS.absent ∨ w = WS.spawned := by
        intro i w h
        obtain ⟨w0, h0, he⟩ := spawnAll_getElem? _ _ _ h
        rcases hp i w0 h0 with rfl | rfl <;> simp [he]
      have hnp : NoPending (spawnAll s.ws) := by
        intro i h; rcases hget i _ h with h' | h' <;> cases h'
      have hlen' : (spawnAll s.ws).length = s.ws.length := by simp [spawnAll]
      have he : s.exitErr = Res.nil := by
        by_cases h : s.exitErr = Res.nil
        · exact h
        · exfalso
          cases hx : s.exitErr with
          | nil => exact h hx
          | canceled =>
            obtain ⟨⟨i, h1⟩, _⟩ := hi.e3 hx
            rcases hp i _ h1 with h' | h' <;> cases h'
          | err j =>
            obtain ⟨i, h1⟩ := hi.e2 j hx
            rcases hp i _ h1 with h' | h' <;> cases h'
          | panic => exact hi.e4 hx
      refine ⟨g7, by rw [hlen']; exact hi.elen, ?_, ?_, ?_, ?_, ?_, ?_, ?_, ?_, hi.e4, ?_⟩
      · intro i w k hw hk
        obtain ⟨w0, h0, hew⟩ := spawnAll_getElem? _ _ _ hw
        have := hi.ent i w0 k h0 hk
        rcases hp i w0 h0 with rfl | rfl <;> simp [hew, WS.entered] at this ⊢ <;> exact this
      · intro i r h; rcases h with h | h <;> rcases hget i _ h with h' | h' <;> cases h'
      · intro h; rw [hlen'] at h; omega
      · intro h; rw [hlen'] at h; omega
      · intro _
        show s.running + _ = _
        rw [hsp, hrun, hz]; simp
      · intro _ _ i r h; rcases hget i _ h with h' | h' <;> cases h'
      · intro j h; simp [he] at h
      · intro h; simp [he] at h
      · by_cases hn : s.ws.countP WS.isPending = 0
        · simp only [PCInv, hn, if_true, Just]
          refine ⟨?_, hnp, ?_⟩
          · intro i w h
            obtain ⟨w0, h0, hew⟩ := spawnAll_getElem? _ _ _ h
            rcases hp i w0 h0 with rfl | rfl
            · left; simp [hew]
            · exfalso
              have : 0 < s.ws.countP WS.isPending := countP_pos_of_getElem? _ _ _ _ h0 rfl
              omega
          · intro h; have : (spawnAll s.ws).length = 0 := by rw [h]; rfl
            omega
        · simp only [PCInv, hn, if_false]
          refine ⟨by rw [hlen']; exact hlen, hnp, g2, ?_⟩
          intro _
          simp only [he, Res.isReal_nil, and_true]
          rw [hrun, hz]
          have : 0 < s.ws.countP WS.isPending := by omega
          omega
  · simp at hs

end UtilModel.CCall

namespace UtilModel.CCall
open UtilModel

theorem step_inv_cbin (s : St) (i : Nat) (s' : St) (hi : Inv s) (hs : step s (.cbin i) = some s') : Inv s' := by
  simp only [step] at hs; split at hs <;> simp at hs; subst hs
  rename_i k ha hk
  refine inv_wmove s i _ _ _ hi ha (by simp) (by simp) (by simp) (by simp) (by simp) rfl (by simp)
    (by simp [hi.elen]) ?_ (by intro _; exact ⟨rfl, rfl⟩)
  intro u w k' hw hk'
  rcases getElem?_set_cases s.ws i u _ _ hw with ⟨rfl, rfl⟩ | ⟨hne, hx⟩
  · rw [getElem?_set_self' _ _ _ _ hk] at hk'
    have := hi.ent u _ k ha hk
    simp [WS.entered] at this hk' ⊢; omega
  · rw [getElem?_set_ne' _ _ _ _ (fun e => hne e.symm)] at hk'
    exact hi.ent u w k' hx hk'

theorem ent_set (s : St) (i : Nat) (a b : WS) (hi : Inv s) (ha : s.ws[i]? = some a)
    (hab : a.entered = b.entered) :
    ∀ (u : Nat) (w : WS) (k : Nat), (s.ws.set i b)[u]? = some w → s.entries[u]? = some k →
      k = if w.entered then 1 else 0 := by
  intro u w k hw hk
  rcases getElem?_set_cases s.ws i u _ _ hw with ⟨rfl, rfl⟩ | ⟨_, hx⟩
  · rw [← hab]; exact hi.ent u a k ha hk
  · exact hi.ent u w k hx hk

theorem step_inv_cbout (s : St) (i : Nat) (r : Res) (s' : St) (hi : Inv s) (hs : step s (.cbout i r) = some s') : Inv s' := by
  simp only [step] at hs
  split at hs; · simp at hs
  rename_i hrp
  split at hs <;> try simp at hs
  rename_i ha
  split at hs <;> simp at hs <;> subst hs
  · -- inline: the single function returns
    rename_i hpc
    have hp := hi.pcI; simp only [PCInv, hpc] at hp
    have hws : s.ws = [WS.running] := by
      rcases hp with h | h
      · rw [h] at ha; cases i <;> simp at ha
      · exact h
    have hi0 : i = 0 := by rw [hws] at ha; cases i with
      | zero => rfl
      | succ n => simp at ha
    subst hi0
    have hsm := hi.small (by simp [hws])
    have hset : s.ws.set 0 (WS.done r) = [WS.done r] := by rw [hws]; rfl
    refine ⟨hi.bcwf, by simp [hi.elen], ?_, ?_, ?_, ?_, ?_, ?_, ?_, ?_, hi.e4, ?_⟩
    · exact ent_set s 0 _ _ hi ha rfl
    · intro u r' h
      simp only [hset] at h
      rcases h with h | h <;> (cases u <;> simp at h)
      subst h; exact hrp
    · intro _; exact hsm
    · intro _ u w hw hact
      simp only [hset] at hw
      cases u <;> simp at hw
      subst hw; simp [WS.active] at hact
    · intro h; simp [hws] at h
    · intro _ h; simp [hws] at h
    · intro j h; simp [hsm.2] at h
    · intro h; simp [hsm.2] at h
    · simp only [PCInv, hset]
      refine ⟨?_, ?_, by simp⟩
      · cases r with
        | nil => intro u w h; cases u <;> simp at h; right; exact h.symm
        | canceled =>
          right
          refine ⟨?_, 0, rfl⟩
          intro u w h; cases u <;> simp at h; right; exact ⟨_, h.symm, rfl⟩
        | err j => exact ⟨0, rfl⟩
        | panic => exact hrp rfl
      · intro u h; cases u <;> simp at h
  · -- concurrent: the decrement section is pending
    rename_i hpc
    exact inv_wmove s i _ _ _ hi ha (by simp) (by simp) (by simp) (by simp) (by simp) rfl
      (by intro r' h; cases h; exact hrp) hi.elen (ent_set s i _ _ hi ha rfl) (fun h => absurd h hpc)


theorem recordErr_cases (e r : Res) :
    (r ≠ Res.nil ∧ (e = Res.nil ∨ e = Res.canceled) ∧ recordErr e r = r) ∨
    ((r = Res.nil ∨ (e ≠ Res.nil ∧ e ≠ Res.canceled)) ∧ recordErr e r = e) := by
  unfold recordErr
  split
  · rename_i h; exact Or.inl ⟨h.1, h.2, rfl⟩
  · rename_i h
    right
    refine ⟨?_, rfl⟩
    by_cases hr : r = Res.nil
    · exact Or.inl hr
    · right
      constructor
      · intro he; exact h ⟨hr, Or.inl he⟩
      · intro he; exact h ⟨hr, Or.inr he⟩

theorem step_inv_decCS (s : St) (i : Nat) (s' : St) (hi : Inv s) (hs : step s (.decCS i) = some s') : Inv s' := by
  simp only [step] at hs; split at hs <;> simp at hs; subst hs
  rename_i r ha
  have hlen : 2 ≤ s.ws.length := by
    rcases Nat.lt_or_ge s.ws.length 2 with h | h
    · exact absurd rfl ((hi.smallw h i _ ha rfl).2 r)
    · exact h
  obtain ⟨b1, b2, b3, b4, b5⟩ := Bcast.broadcast_spec s.bc
  have hrp : r ≠ Res.panic := hi.nopanic i r (Or.inl ha)
  have hdone : ∀ (u : Nat) (x : Res), (s.ws.set i (WS.done r))[u]? = some (WS.done x) →
      (u = i ∧ x = r) ∨ (u ≠ i ∧ s.ws[u]? = some (WS.done x)) := by
    intro u x h
    rcases getElem?_set_cases s.ws i u _ _ h with ⟨h1, h2⟩ | ⟨h1, h2⟩
    · left; cases h2; exact ⟨h1, rfl⟩
    · right; exact ⟨h1, h2⟩
  have hkeep : ∀ (u : Nat) (x : Res), s.ws[u]? = some (WS.done x) → (s.ws.set i (WS.done r))[u]? = some (WS.done x) := by
    intro u x h
    have hne : i ≠ u := by intro e; subst e; rw [ha] at h; cases h
    rw [getElem?_set_ne' _ _ _ _ hne]; exact h
  have hself : (s.ws.set i (WS.done r))[i]? = some (WS.done r) := getElem?_set_self' _ _ _ _ ha
  refine ⟨b3, by simp [hi.elen], ent_set s i _ _ hi ha rfl, ?_, ?_, ?_, ?_, ?_, ?_, ?_, ?_, ?_⟩
  · intro u x h
    rcases h with h | h
    · rcases getElem?_set_cases s.ws i u _ _ h with ⟨_, h2⟩ | ⟨_, h2⟩
      · cases h2
      · exact hi.nopanic u x (Or.inl h2)
    · rcases hdone u x h with ⟨_, rfl⟩ | ⟨_, h2⟩
      · exact hrp
      · exact hi.nopanic u x (Or.inr h2)
  · intro h; simp at h; omega
  · intro h; simp at h; omega
  · intro _
    have c := countP_set WS.active s.ws i _ (WS.done r) ha
    have hr := hi.run hlen
    simp [WS.active] at c
    show s.running - 1 = ((s.ws.set i (WS.done r)).countP WS.active : Nat)
    omega
  · intro he _ u x h
    show x = Res.nil
    simp only at he
    rcases recordErr_cases s.exitErr r with ⟨h1, _, h3⟩ | ⟨h1, h3⟩
    · rw [h3] at he; exact absurd he h1
    · rw [h3] at he
      rcases hdone u x h with ⟨_, rfl⟩ | ⟨_, h2⟩
      · rcases h1 with h1 | h1
        · exact h1
        · exact absurd he h1.1
      · exact hi.e1 he hlen u x h2
  · intro j he
    simp only at he
    rcases recordErr_cases s.exitErr r with ⟨_, _, h3⟩ | ⟨_, h3⟩
    · rw [h3] at he; subst he; exact ⟨i, hself⟩
    · rw [h3] at he
      obtain ⟨u, hu⟩ := hi.e2 j he
      exact ⟨u, hkeep u _ hu⟩
  · intro he
    simp only at he
    rcases recordErr_cases s.exitErr r with ⟨_, h2, h3⟩ | ⟨h1, h3⟩
    · rw [h3] at he; subst he
      refine ⟨⟨i, hself⟩, ?_⟩
      intro u x h
      rcases hdone u x h with ⟨_, rfl⟩ | ⟨_, hx⟩
      · rfl
      · rcases h2 with h2 | h2
        · rw [hi.e1 h2 hlen u x hx]; rfl
        · exact (hi.e3 h2).2 u x hx
    · rw [h3] at he
      obtain ⟨⟨v, hv⟩, hall⟩ := hi.e3 he
      refine ⟨⟨v, hkeep v _ hv⟩, ?_⟩
      intro u x h
      rcases hdone u x h with ⟨_, rfl⟩ | ⟨_, hx⟩
      · rcases h1 with h1 | h1
        · rw [h1]; rfl
        · exact absurd he h1.2
      · exact hall u x hx
  · simp only
    rcases recordErr_cases s.exitErr r with ⟨_, _, h3⟩ | ⟨_, h3⟩ <;> rw [h3]
    · exact hrp
    · exact hi.e4
  · have hp := hi.pcI
    unfold PCInv at hp ⊢
    cases hpc : s.pc with
    | idle => simp only [hpc] at hp; rw [hp] at ha; simp at ha
    | invoked => simp only [hpc] at hp; rcases hp i _ ha with h | h <;> cases h
    | inline =>
      simp only [hpc] at hp
      rcases hp with h | h <;> rw [h] at ha <;> cases i <;> simp at ha
    | sel ch =>
      simp only [hpc] at hp ⊢
      obtain ⟨h1, h2, h3, _⟩ := hp
      refine ⟨by simpa using h1, noPending_set h2 (by simp), by rw [b2]; exact h3, ?_⟩
      intro hc; rw [b4 ch h3] at hc; cases hc
    | exiting r0 =>
      simp only [hpc] at hp ⊢
      obtain ⟨h1, h2, h3⟩ := hp
      exact ⟨just_set h1 ha (by simp) (by simp), noPending_set h2 (by simp), set_ne_nil _ _ _ h3⟩
    | retReady r0 =>
      simp only [hpc] at hp ⊢
      obtain ⟨h1, h2, h3⟩ := hp
      refine ⟨just_set h1 ha (by simp) (by simp), noPending_set h2 (by simp), fun _ => h3 ?_⟩
      intro e; rw [e] at ha; simp at ha
    | finished r0 =>
      simp only [hpc] at hp ⊢
      obtain ⟨h1, h2, h3⟩ := hp
      refine ⟨just_set h1 ha (by simp) (by simp), noPending_set h2 (by simp), fun _ => h3 ?_⟩
      intro e; rw [e] at ha; simp at ha


theorem step_inv_ctxTake (s : St) (s' : St) (hi : Inv s) (hs : step s .ctxTake = some s') : Inv s' := by
  simp only [step] at hs; split at hs <;> try simp at hs
  rename_i ch hpc
  obtain ⟨hc, rfl⟩ := hs
  have hp := hi.pcI; simp only [PCInv, hpc] at hp
  refine inv_pc s _ s.ctxC s.subC hi (Or.inr (by rw [hpc]; simp)) ?_
  simp only [PCInv, Just]
  refine ⟨Or.inl hc, hp.2.1, ?_⟩
  intro e; have := hp.1; rw [e] at this; simp at this

theorem active_zero_settled (ws : List WS) (h0 : ws.countP WS.active = 0) (hnp : NoPending ws)
    (i : Nat) (w : WS) (hw : ws[i]? = some w) : w = WS.absent ∨ ∃ r, w = WS.done r := by
  rw [List.countP_eq_zero] at h0
  have := h0 w (List.mem_of_getElem? hw)
  cases w with
  | absent => exact Or.inl rfl
  | pending => exact absurd hw (hnp i)
  | spawned => simp [WS.active] at this
  | running => simp [WS.active] at this
  | returned r => simp [WS.active] at this
  | done r => exact Or.inr ⟨r, rfl⟩

theorem step_inv_recheck (s : St) (s' : St) (hi : Inv s) (hs : step s .recheckCS = some s') : Inv s' := by
  simp only [step] at hs; split at hs <;> try simp at hs
  rename_i ch hpc
  obtain ⟨hcl, rfl⟩ := hs
  have hp := hi.pcI; simp only [PCInv, hpc] at hp
  obtain ⟨hlen, hnp, _, _⟩ := hp
  obtain ⟨g1, g2, g3, g4, g5, g6, g7⟩ := Bcast.getWaitCh_spec s.bc hi.bcwf
  have hrun := hi.run hlen
  refine ⟨g7, hi.elen, hi.ent, hi.nopanic, hi.small, ?_, hi.run, hi.e1, hi.e2, hi.e3, hi.e4, ?_⟩
  · intro h; exact absurd hlen (by simp at h; omega)
  · by_cases hc : s.running = 0 ∨ s.exitErr.isReal = true
    · simp only [PCInv, hc, if_true]
      refine ⟨?_, hnp, ?_⟩
      · cases he : s.exitErr with
        | err j => exact hi.e2 j he
        | panic => exact absurd he hi.e4
        | nil =>
          rcases hc with hc | hc
          · have h0 : s.ws.countP WS.active = 0 := by omega
            intro i w hw
            rcases active_zero_settled _ h0 hnp i w hw with h | ⟨r, h⟩
            · exact Or.inl h
            · right; subst h; rw [hi.e1 he hlen i r hw]
          · rw [he] at hc; simp at hc
        | canceled =>
          rcases hc with hc | hc
          · have h0 : s.ws.countP WS.active = 0 := by omega
            obtain ⟨hex, hall⟩ := hi.e3 he
            right
            refine ⟨?_, hex⟩
            intro i w hw
            rcases active_zero_settled _ h0 hnp i w hw with h | ⟨r, h⟩
            · exact Or.inl h
            · right; subst h; exact ⟨r, rfl, hall i r hw⟩
          · rw [he] at hc; simp at hc
      · intro e; rw [e] at hlen; simp at hlen
    · simp only [PCInv, hc, if_false]
      refine ⟨hlen, hnp, g2, fun _ => ?_⟩
      have h1 : ¬ s.running = 0 := fun h => hc (Or.inl h)
      have h2 : s.exitErr.isReal = false := by
        cases h : s.exitErr.isReal
        · rfl
        · exact absurd (Or.inr h) hc
      exact ⟨by omega, h2⟩

theorem step_inv_defer (s : St) (s' : St) (hi : Inv s) (hs : step s .deferCancel = some s') : Inv s' := by
  simp only [step] at hs; split at hs <;> simp at hs; subst hs
  rename_i r hpc
  have hp := hi.pcI; simp only [PCInv, hpc] at hp
  refine inv_pc s _ s.ctxC true hi (Or.inr (by rw [hpc]; simp)) ?_
  simp only [PCInv]
  exact ⟨hp.1, hp.2.1, fun _ => trivial⟩

theorem step_inv_ret (s : St) (r : Res) (s' : St) (hi : Inv s) (hs : step s (.ret r) = some s') : Inv s' := by
  simp only [step] at hs; split at hs <;> simp at hs
  rename_i r' hpc
  obtain ⟨rfl, rfl⟩ := hs
  have hp := hi.pcI; simp only [PCInv, hpc] at hp
  refine inv_pc s _ s.ctxC s.subC hi (Or.inr (by rw [hpc]; simp)) ?_
  simp only [PCInv]; exact hp

theorem step_inv_envCancel (s : St) (s' : St) (hi : Inv s) (hs : step s .envCancel = some s') : Inv s' := by
  simp only [step] at hs; simp at hs; subst hs
  refine inv_pc s s.pc true s.subC hi (Or.inl rfl) ?_
  have hp := hi.pcI
  unfold PCInv at hp ⊢
  cases hpc : s.pc with
  | idle => simpa [hpc] using hp
  | invoked => simpa [hpc] using hp
  | inline => simpa [hpc] using hp
  | sel ch => simpa [hpc] using hp
  | exiting r => simp only [hpc] at hp ⊢; exact ⟨just_ctx hp.1, hp.2⟩
  | retReady r => simp only [hpc] at hp ⊢; exact ⟨just_ctx hp.1, hp.2⟩
  | finished r => simp only [hpc] at hp ⊢; exact ⟨just_ctx hp.1, hp.2⟩

theorem step_inv (s : St) (e : Ev) (s' : St) (hi : Inv s) (hs : step s e = some s') : Inv s' := by
  cases e with
  | inv sh => exact step_inv_inv s sh s' hi hs
  | enter => exact step_inv_enter s s' hi hs
  | cbin i => exact step_inv_cbin s i s' hi hs
  | cbout i r => exact step_inv_cbout s i r s' hi hs
  | decCS i => exact step_inv_decCS s i s' hi hs
  | ctxTake => exact step_inv_ctxTake s s' hi hs
  | recheckCS => exact step_inv_recheck s s' hi hs
  | deferCancel => exact step_inv_defer s s' hi hs
  | ret r => exact step_inv_ret s r s' hi hs
  | envCancel => exact step_inv_envCancel s s' hi hs
  | probe i c =>
    simp only [step] at hs; split at hs <;> simp at hs
    obtain ⟨_, rfl⟩ := hs; exact hi
  | quiesce p W =>
    simp only [step] at hs; split at hs <;> simp at hs
    subst hs; exact hi

theorem reachable_inv (es : List Ev) (s : St) (h : model.run model.init es = some s) : Inv s :=
  model.run_invariant Inv (fun s e s' hi hs => step_inv s e s' hi hs) _ _ es init_inv h

end UtilModel.CCall
