import UtilModel.Core.Driver
import UtilModel.Core.DriverH
import UtilModel.CSync.Mutex
import UtilModel.CSync.RWMutex
import UtilModel.CSync.Monitors
import UtilModel.Codec.Monitors
import UtilModel.Seq.Monitors
import UtilModel.CCall.Monitors
import UtilModel.Conc.Monitors
import UtilModel.Treiber.Monitors
import UtilModel.LinkedList.Monitors
import UtilModel.Broadcast.LockModel
import UtilModel.CContainer.WModel
import UtilModel.RefCount.ConsMonitors
import UtilModel.RefCount.Wrc
import UtilModel.Routine.Monitors
import UtilModel.Routine.Backoff
import UtilModel.Keyed.Monitors
import UtilModel.Keyed.MonC07r
import UtilModel.Promise.Monitors
import UtilModel.Once.Monitors
import UtilModel.Memo.Monitors
/-! Registry of the models the driver can decide histories for. One line per model. -/
namespace UtilModel

def csyncMons : List (MonEntry CSync.Obs) :=
  [MonEntry.ofMonitor "C01" CSync.monC01, MonEntry.ofMonitor "C02" CSync.monC02]

def registry : List Entry := [
  mkEntryH "csync-rw" CSync.RW.model CSync.Obs.parse csyncMons,
  mkEntryH "csync-mutex" CSync.Mx.model CSync.Obs.parse csyncMons,
  mkEntry "codec" Codec.model Codec.Obs.parse [MonEntry.ofMonitor "C19" Codec.monC19],
  mkEntry "seq-ioseek" Seq.IOSeek.model Seq.IOSeek.Obs.parse [MonEntry.ofMonitor "C20" Seq.monC20Seek],
  mkEntry "seq-iosizer" Seq.IOSizer.model Seq.IOSizer.Obs.parse [MonEntry.ofMonitor "C20" Seq.monC20Sizer],
  mkEntry "seq-iocloser" Seq.IOCloser.model Seq.IOCloser.Obs.parse [MonEntry.ofMonitor "C20" Seq.monC20Closer],
  mkEntry "seq-ioproxy" Seq.IOProxy.model Seq.IOProxy.Obs.parse [MonEntry.ofMonitor "C20" Seq.monC20Proxy],
  mkEntry "seq-unique" Seq.Unique.model Seq.Unique.Obs.parse [MonEntry.ofMonitor "C20" Seq.monC20Unique],
  mkEntry "ccall" CCall.model CCall.Obs.parse [MonEntry.ofMonitor "C17" CCall.monC17],
  mkEntryH "conc" Conc.model Conc.Obs.parse [MonEntry.ofMonitor "C18" Conc.monC18] (cap := 20000),
  mkEntryH "lifo" Treiber.model Treiber.Obs.parse [MonEntry.ofMonitor "C12" Treiber.monC12] (cap := 60000),
  mkEntryH "linkedlist" LinkedList.model LinkedList.parseObs [MonEntry.ofMonitor "C12" LinkedList.monC12] (cap := 60000),
  mkEntryH "broadcast" Broadcast.lmodel Broadcast.Obs.parse [MonEntry.ofMonitor "C03" Broadcast.monC03L],
  mkEntryH "ccontainer" CContainer.wmodel CContainer.WObs.parse [MonEntry.ofMonitor "C15" CContainer.monC15W],
  mkEntryH "refcount" RefCount.model RefCount.Obs.parse [MonEntry.ofMonitor "C08" RefCount.monC08, MonEntry.ofMonitor "C09" RefCount.monC09],
  mkEntryH "refcount-consumers" RefCount.Cons.cmodel RefCount.Cons.CObs.parse [MonEntry.ofMonitor "C10" RefCount.Cons.monC10, MonEntry.ofMonitor "C08c" RefCount.Cons.monC08c, MonEntry.ofMonitor "C09c" RefCount.Cons.monC09c] (cap := 40000),
  mkEntryH "refcount-wrc" RefCount.Wrc.model RefCount.Wrc.Obs.parse [MonEntry.ofMonitor "C10w" RefCount.Wrc.monWrc],
  mkEntryH "routine" Routine.model Routine.Obs.parse [MonEntry.ofMonitor "C04" Routine.monC04, MonEntry.ofMonitor "C05" Routine.monC05, MonEntry.ofMonitor "C14h" Routine.monC14h, MonEntry.ofMonitor "C14" Routine.monC14, MonEntry.ofMonitor "C14w" Routine.monC14w, MonEntry.ofMonitor "C14cb" Routine.monC14cb, MonEntry.ofMonitor "C14rc" Routine.monC14rc] (cap := 80000),
  mkEntryH "keyed" Keyed.model Keyed.Obs.parse [MonEntry.ofMonitor "C06" Keyed.monC06, MonEntry.ofMonitor "C07" Keyed.monC07, MonEntry.ofMonitor "C07a" Keyed.monC07a, MonEntry.ofMonitor "C06o" Keyed.monC06o, MonEntry.ofMonitor "C07c" Keyed.monC07c, MonEntry.ofMonitor "C07b" Keyed.monC07b, MonEntry.ofMonitor "C07r" Keyed.monC07r] (cap := 20000),
  mkEntryH "promise" Promise.model Promise.Obs.parse Promise.promiseMons (cap := 50000),
  mkEntryH "once" Once.model Once.Obs.parse Once.onceMons (cap := 50000),
  mkEntryH "memo" Memo.model Memo.Obs.parse Memo.memoMons (cap := 50000),
  mkEntry "backoff" Routine.Backoff.model Routine.Backoff.Obs.parse [MonEntry.ofMonitor "C14bo" Routine.Backoff.monC14bo]
]

end UtilModel
