import UtilModel.Core.Driver
import UtilModel.CSync.Mutex
import UtilModel.CSync.RWMutex
import UtilModel.CSync.Monitors
import UtilModel.Codec.Monitors
/-! Registry of the models the driver can decide histories for. One line per model. -/
namespace UtilModel

def csyncMons : List (MonEntry CSync.Obs) :=
  [MonEntry.ofMonitor "C01" CSync.monC01, MonEntry.ofMonitor "C02" CSync.monC02]

def registry : List Entry := [
  mkEntry "csync-rw" CSync.RW.model CSync.Obs.parse csyncMons,
  mkEntry "csync-mutex" CSync.Mx.model CSync.Obs.parse csyncMons,
  mkEntry "codec" Codec.model Codec.Obs.parse [MonEntry.ofMonitor "C19" Codec.monC19]
]

end UtilModel
