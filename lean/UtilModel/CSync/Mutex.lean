import UtilModel.CSync.Types
/-!
# csync.Mutex — model (csync/mutex.go)

Same vocabulary as the RWMutex model; the mode flag of the events is ignored (the harness logs
`w`). Differences from RWMutex that are visible in the code: a cancelled waiter has nothing to undo
(`release()` returns at once when the status word was 0), so `ctxTake` goes straight to
`cancelled` and there is no `cancelCS`.
-/
namespace UtilModel.CSync.Mx
open UtilModel UtilModel.CSync

structure St where
  locked : Bool := false
  bc : Bcast := {}
  th : List TS := []
  cx : List Nat := []
deriving DecidableEq, Repr, Hashable

/-- first / re-check critical section of `Lock` (mutex.go:31-43, 73-86) -/
def attempt (s : St) (t : Nat) : St :=
  if s.locked then
    { s with bc := s.bc.getWaitCh.1, th := s.th.set t (.parked true s.bc.getWaitCh.2) }
  else
    { s with locked := true, th := s.th.set t (.granted true) }

def TS.quiet (s : St) (t : Nat) : TS → Bool
  | .parked _ ch => !s.bc.closed ch && !s.cx.contains t
  | .held _ | .finished => true
  | _ => false

def pendingIds (s : St) : List Nat :=
  (List.range s.th.length).filter fun t => match s.th[t]? with
    | some (.parked _ _) => true
    | _ => false

def quiescent (s : St) : Bool :=
  (List.range s.th.length).all fun t => match s.th[t]? with
    | some ts => TS.quiet s t ts
    | none => true

def step (s : St) : Ev → Option St
  | .invLock t w => if t = s.th.length ∧ w = true then some { s with th := s.th ++ [.lockInv true] } else none
  | .lockCS t =>
    match s.th[t]? with
    | some (.lockInv _) => some (attempt s t)
    | _ => none
  | .wakeCS t =>
    match s.th[t]? with
    | some (.parked _ c) => if s.bc.closed c then some (attempt s t) else none
    | _ => none
  | .ctxTake t =>
    match s.th[t]? with
    | some (.parked _ _) => if s.cx.contains t then some { s with th := s.th.set t .cancelled } else none
    | _ => none
  | .cancelCS _ => none
  | .retLock t r =>
    match s.th[t]?, r with
    | some (.granted w), some w' => if w = w' then some { s with th := s.th.set t (.held w) } else none
    | some .cancelled, none => some { s with th := s.th.set t .finished }
    | _, _ => none
  | .invTry t w => if t = s.th.length ∧ w = true then some { s with th := s.th ++ [.tryInv true] } else none
  | .tryCS t =>
    match s.th[t]? with
    | some (.tryInv _) =>
      if s.locked then some { s with th := s.th.set t .tryFailed }
      else some { s with locked := true, th := s.th.set t (.tryGranted true) }
    | _ => none
  | .retTry t r =>
    match s.th[t]?, r with
    | some (.tryGranted w), some w' => if w = w' then some { s with th := s.th.set t (.held w) } else none
    | some .tryFailed, none => some { s with th := s.th.set t .finished }
    | _, _ => none
  | .envCancel t => if t < s.th.length then some { s with cx := t :: s.cx } else none
  | .invRel c t =>
    if c = s.th.length then
      match s.th[t]? with
      | some (.held _) | some (.releasing _) | some .finished => some { s with th := s.th ++ [.relInv t] }
      | _ => none
    else none
  | .relSwap c =>
    match s.th[c]? with
    | some (.relInv t) =>
      match s.th[t]? with
      | some (.held w) => some { s with th := (s.th.set t (.releasing w)).set c (.relCS t) }
      | _ => some { s with th := s.th.set c .relDone }
    | _ => none
  | .relCS c =>
    match s.th[c]? with
    | some (.relCS t) =>
      match s.th[t]? with
      | some (.releasing _) =>
        some { s with locked := false, bc := s.bc.broadcast, th := (s.th.set t .finished).set c .relDone }
      | _ => none
    | _ => none
  | .retRel c =>
    match s.th[c]? with
    | some .relDone => some { s with th := s.th.set c .finished }
    | _ => none
  | .quiesce B => if quiescent s ∧ B = pendingIds s then some s else none

def model : OLTS St Ev Obs where
  init := {}
  step := step
  obs := Ev.obs
  cands := fun s => internalCands s.th
  evsOf := fun _ o => [o.ev]

end UtilModel.CSync.Mx
