import UtilModel.CSync.Mutex
import UtilModel.CSync.Monitors
import UtilModel.CSync.RWProps
/-!
# csync.Mutex — invariants and property theorems (C01, C02), for every event list
-/
namespace UtilModel.CSync.Mx
open UtilModel UtilModel.CSync

structure Inv (s : St) : Prop where
  excl   : s.th.countP (TS.holds true) = if s.locked then 1 else 0
  noread : s.th.countP (TS.holds false) = 0
  bcwf   : s.bc.WF
  parked : ∀ (t : Nat) (w : Bool) (c : Nat), s.th[t]? = some (TS.parked w c) →
             c < s.bc.next ∧ (s.bc.closed c = false → s.locked = true)

theorem init_inv : Inv ({} : St) := by
  refine ⟨by simp, by simp, Bcast.wf_init, ?_⟩
  intro t w c h; simp at h

theorem inv_set (s : St) (t : Nat) (a b : TS) (lk : Bool) (bc : Bcast) (cx : List Nat)
    (hi : Inv s) (ha : s.th[t]? = some a)
    (h1 : (if lk then 1 else 0) + (if a.holds true then 1 else 0)
            = (if s.locked then 1 else 0) + (if b.holds true then 1 else 0))
    (h2 : a.holds false = false ∧ b.holds false = false)
    (hbc : bc.WF)
    (hp : ∀ (u : Nat) (w : Bool) (c : Nat), u ≠ t → s.th[u]? = some (TS.parked w c) →
            c < bc.next ∧ (bc.closed c = false → lk = true))
    (hb : ∀ (w : Bool) (c : Nat), b = TS.parked w c → c < bc.next ∧ (bc.closed c = false → lk = true)) :
    Inv { locked := lk, bc := bc, th := s.th.set t b, cx := cx } := by
  have c1 := countP_set (TS.holds true) s.th t a b ha
  have c2 := countP_set (TS.holds false) s.th t a b ha
  have e := hi.excl; have n := hi.noread
  refine ⟨?_, ?_, hbc, ?_⟩
  · simp only; omega
  · simp only; simp [h2] at c2; omega
  · intro u w c hu
    simp only at hu
    rcases getElem?_set_cases s.th t u b _ hu with ⟨_, hx⟩ | ⟨hne, hx⟩
    · exact hb w c hx.symm
    · exact hp u w c hne hx

theorem inv_move (s : St) (t : Nat) (a b : TS) (cx : List Nat) (hi : Inv s) (ha : s.th[t]? = some a)
    (h1 : a.holds true = b.holds true) (h2 : a.holds false = false ∧ b.holds false = false)
    (hb : ∀ w c, b ≠ TS.parked w c) : Inv { s with th := s.th.set t b, cx := cx } := by
  refine inv_set s t a b _ _ cx hi ha (by rw [h1]) h2 hi.bcwf ?_ ?_
  · intro u w c _ h; exact hi.parked u w c h
  · intro w c h; exact absurd h (hb w c)

theorem inv_append (s : St) (b : TS) (hi : Inv s) (hb1 : b.holds false = false)
    (hb2 : b.holds true = false) (hb4 : ∀ w c, b ≠ TS.parked w c) :
    Inv { s with th := s.th ++ [b] } := by
  obtain ⟨e, n, wf, pk⟩ := hi
  refine ⟨by simp [hb2, e], by simp [hb1, n], wf, ?_⟩
  intro t w c h
  rcases getElem?_snoc_cases _ _ _ _ h with ⟨_, h'⟩ | ⟨_, h'⟩
  · exact pk t w c h'
  · exact absurd h'.symm (hb4 w c)

theorem attempt_inv (s : St) (t : Nat) (a : TS) (hi : Inv s) (ha : s.th[t]? = some a)
    (hah : a.holds false = false ∧ a.holds true = false) : Inv (attempt s t) := by
  obtain ⟨g1, g2, g3, g4, g5, g6, g7⟩ := Bcast.getWaitCh_spec s.bc hi.bcwf
  unfold attempt
  split
  · rename_i hl
    refine inv_set s t a _ _ _ _ hi ha (by simp [hah]) ⟨hah.1, rfl⟩ g7 ?_ ?_
    · intro u w c _ h
      have := hi.parked u w c h
      exact ⟨by omega, fun _ => hl⟩
    · intro w c _; exact ⟨by simp_all, fun _ => hl⟩
  · rename_i hl
    refine inv_set s t a _ _ _ _ hi ha (by simp [hah, hl]) ⟨hah.1, rfl⟩ hi.bcwf ?_ ?_
    · intro u w c _ h
      exact ⟨(hi.parked u w c h).1, fun _ => rfl⟩
    · intro w c h; cases h

theorem step_inv (s : St) (e : Ev) (s' : St) (hi : Inv s) (hs : step s e = some s') : Inv s' := by
  cases e with
  | invLock t w =>
    simp only [step] at hs; split at hs <;> simp at hs; subst hs
    exact inv_append s _ hi rfl rfl (by intro w c h; cases h)
  | invTry t w =>
    simp only [step] at hs; split at hs <;> simp at hs; subst hs
    exact inv_append s _ hi rfl rfl (by intro w c h; cases h)
  | lockCS t =>
    simp only [step] at hs; split at hs <;> simp at hs; subst hs
    rename_i w h
    exact attempt_inv s t _ hi h ⟨rfl, rfl⟩
  | wakeCS t =>
    simp only [step] at hs; split at hs <;> simp at hs
    obtain ⟨_, rfl⟩ := hs; rename_i w c h _
    exact attempt_inv s t _ hi h ⟨rfl, rfl⟩
  | ctxTake t =>
    simp only [step] at hs; split at hs <;> simp at hs
    obtain ⟨_, rfl⟩ := hs; rename_i w c h _
    exact inv_move s t _ _ s.cx hi h rfl ⟨rfl, rfl⟩ (by intro w c h; cases h)
  | cancelCS t => simp [step] at hs
  | retLock t r =>
    simp only [step] at hs; split at hs <;> simp at hs
    · obtain ⟨_, rfl⟩ := hs; rename_i w _ h _
      have hw : w = true := by
        have n := hi.noread
        cases w
        · have := countP_pos_of_getElem? (TS.holds false) _ _ _ h (by simp); omega
        · rfl
      subst hw
      exact inv_move s t _ _ s.cx hi h (by simp) ⟨by simp, by simp⟩ (by intro w c h; cases h)
    · subst hs; rename_i h; exact inv_move s t _ _ s.cx hi h rfl ⟨rfl, rfl⟩ (by intro w c h; cases h)
  | retTry t r =>
    simp only [step] at hs; split at hs <;> simp at hs
    · obtain ⟨_, rfl⟩ := hs; rename_i w _ h _
      have hw : w = true := by
        have n := hi.noread
        cases w
        · have := countP_pos_of_getElem? (TS.holds false) _ _ _ h (by simp); omega
        · rfl
      subst hw
      exact inv_move s t _ _ s.cx hi h (by simp) ⟨by simp, by simp⟩ (by intro w c h; cases h)
    · subst hs; rename_i h; exact inv_move s t _ _ s.cx hi h rfl ⟨rfl, rfl⟩ (by intro w c h; cases h)
  | tryCS t =>
    simp only [step] at hs; split at hs <;> try simp at hs
    rename_i w h
    split at hs <;> simp at hs <;> subst hs
    · exact inv_move s t _ _ s.cx hi h rfl ⟨rfl, rfl⟩ (by intro w c h; cases h)
    · rename_i hl
      refine inv_set s t _ _ _ _ s.cx hi h (by simp [hl]) ⟨rfl, by simp⟩ hi.bcwf ?_ ?_
      · intro u w c _ hu; exact ⟨(hi.parked u w c hu).1, fun _ => rfl⟩
      · intro w c hb; cases hb
  | envCancel t =>
    simp only [step] at hs; split at hs <;> simp at hs; subst hs
    exact ⟨hi.excl, hi.noread, hi.bcwf, hi.parked⟩
  | invRel c t =>
    simp only [step] at hs; split at hs <;> try simp at hs
    split at hs <;> simp at hs <;> subst hs <;>
      exact inv_append s _ hi rfl rfl (by intro w c h; cases h)
  | relSwap c =>
    simp only [step] at hs; split at hs <;> try simp at hs
    rename_i t hc
    split at hs <;> simp at hs <;> subst hs
    · rename_i w ht
      have hne : t ≠ c := by intro e; subst e; rw [hc] at ht; cases ht
      have hw : w = true := by
        have n := hi.noread
        cases w
        · have := countP_pos_of_getElem? (TS.holds false) _ _ _ ht (by simp); omega
        · rfl
      subst hw
      have h1 := inv_move s t _ (.releasing true) s.cx hi ht (by simp) ⟨by simp, by simp⟩ (by intro w c h; cases h)
      have hc' : (s.th.set t (.releasing true))[c]? = some (.relInv t) := by
        rw [getElem?_set_ne' _ _ _ _ hne]; exact hc
      exact inv_move _ c _ (.relCS t) s.cx h1 hc' rfl ⟨rfl, rfl⟩ (by intro w c h; cases h)
    · exact inv_move s c _ _ s.cx hi hc rfl ⟨rfl, rfl⟩ (by intro w c h; cases h)
  | relCS c =>
    simp only [step] at hs; split at hs <;> try simp at hs
    rename_i t hc
    split at hs <;> simp at hs; subst hs
    rename_i w ht
    have hne : t ≠ c := by intro e; subst e; rw [hc] at ht; cases ht
    have hw : w = true := by
      have n := hi.noread
      cases w
      · have := countP_pos_of_getElem? (TS.holds false) _ _ _ ht (by simp); omega
      · rfl
    subst hw
    obtain ⟨_, b2, b3, b4, _⟩ := Bcast.broadcast_spec s.bc
    have e := hi.excl
    have hcnt : 0 < s.th.countP (TS.holds true) := countP_pos_of_getElem? _ _ _ _ ht (by simp)
    have hl : s.locked = true := by
      rw [e] at hcnt; split at hcnt <;> simp_all
    have h1 : Inv { locked := false, bc := s.bc.broadcast, th := s.th.set t .finished, cx := s.cx } := by
      refine inv_set s t _ _ _ _ s.cx hi ht (by simp [hl]) ⟨by simp, rfl⟩ b3 ?_ ?_
      · intro u w c' _ hu
        have := hi.parked u w c' hu
        refine ⟨by omega, fun hc => ?_⟩
        rw [b4 c' this.1] at hc; simp at hc
      · intro w c' hb; cases hb
    have hc' : (s.th.set t .finished)[c]? = some (.relCS t) := by
      rw [getElem?_set_ne' _ _ _ _ hne]; exact hc
    exact inv_move _ c _ .relDone s.cx h1 hc' rfl ⟨rfl, rfl⟩ (by intro w c h; cases h)
  | retRel c =>
    simp only [step] at hs; split at hs <;> simp at hs; subst hs
    rename_i h
    exact inv_move s c _ _ s.cx hi h rfl ⟨rfl, rfl⟩ (by intro w c h; cases h)
  | quiesce B =>
    simp only [step] at hs; split at hs <;> simp at hs; subst hs; exact hi

theorem reachable_inv (es : List Ev) (s : St) (h : model.run model.init es = some s) : Inv s :=
  model.run_invariant Inv (fun s e s' hi hs => step_inv s e s' hi hs) _ _ es init_inv h

/-- **C01 (Mutex, state form).** In every reachable state at most one call holds the mutex. -/
theorem mutex_exclusion (es : List Ev) (s : St) (h : model.run model.init es = some s) :
    s.th.countP (TS.holds true) ≤ 1 := by
  have := (reachable_inv es s h).excl
  split at this <;> omega

/-- **C02 (Mutex, no lost wake-up).** A caller parked on a still-open channel sees the mutex held. -/
theorem parked_locked (es : List Ev) (s : St) (h : model.run model.init es = some s)
    (t : Nat) (w : Bool) (c : Nat) (ht : s.th[t]? = some (.parked w c))
    (hopen : s.bc.closed c = false) : s.locked = true :=
  ((reachable_inv es s h).parked t w c ht).2 hopen

/-- **C02 (Mutex).** If the mutex is free, a parked caller's own re-check step is enabled and
grants it the mutex — no further acquire or release by anyone else is needed. -/
theorem free_enabled (es : List Ev) (s : St) (h : model.run model.init es = some s)
    (t : Nat) (w : Bool) (c : Nat) (ht : s.th[t]? = some (.parked w c)) (hfree : s.locked = false) :
    ∃ s', step s (.wakeCS t) = some s' ∧ s'.th[t]? = some (.granted true) := by
  have hcl : s.bc.closed c = true := by
    cases hcl : s.bc.closed c
    · have := parked_locked es s h t w c ht hcl; simp [hfree] at this
    · rfl
  refine ⟨attempt s t, by simp [step, ht, hcl], ?_⟩
  simp [attempt, hfree, lt_of_getElem? ht]

/-- **C02 (Mutex, quiescence).** When nothing can take a step, every pending caller sees the mutex
held. -/
theorem quiescent_locked (es : List Ev) (s : St) (h : model.run model.init es = some s)
    (hq : quiescent s = true) (t : Nat) (w : Bool) (c : Nat) (ht : s.th[t]? = some (.parked w c)) :
    s.locked = true := by
  have hlt := lt_of_getElem? ht
  unfold quiescent at hq
  rw [List.all_eq_true] at hq
  have := hq t (by simp [hlt])
  simp only [ht, TS.quiet] at this
  simp at this
  exact parked_locked es s h t w c ht this.1

/-- **C02 (Mutex): a cancelled waiter leaves no trace** — giving up touches no shared variable. -/
theorem cancel_no_trace (s s' : St) (t : Nat) (hs : step s (.ctxTake t) = some s') :
    s'.locked = s.locked ∧ s'.bc = s.bc ∧ s'.th[t]? = some .cancelled := by
  simp only [step] at hs; split at hs <;> simp at hs
  obtain ⟨_, rfl⟩ := hs; rename_i w c h _
  simp [lt_of_getElem? h]

end UtilModel.CSync.Mx

namespace UtilModel.CSync.Mx
open UtilModel UtilModel.CSync
open UtilModel.CSync.RW (Rel2 rel2_set rel2_append)

def RelC01 (s : St) (hs : Holders) : Prop := Inv s ∧ Rel2 s.th hs

theorem compatible_of_granted (s : St) (hs : Holders) (t : Nat) (hR : RelC01 s hs)
    (a : TS) (hta : s.th[t]? = some a) (ht : a.holds true = true) (hnh : ∀ w', a ≠ .held w') :
    compatible hs true = true := by
  obtain ⟨hi, h2⟩ := hR
  have e := hi.excl
  unfold compatible
  simp only [if_true]
  cases hs with
  | nil => rfl
  | cons x xs =>
    exfalso
    obtain ⟨u, w'⟩ := x
    have hu := h2.held u w' (by simp)
    have hne : t ≠ u := by
      intro e; subst e; rw [hta] at hu; cases hu; exact hnh w' rfl
    cases w'
    · have := countP_pos_of_getElem? (TS.holds false) _ _ _ hu (by simp)
      have := hi.noread; omega
    · have := countP_ge_two (TS.holds true) s.th t u _ _ hne hta hu ht (by simp)
      rw [e] at this; split at this <;> omega

theorem rel2_attempt (s : St) (hs : Holders) (t : Nat) (a : TS)
    (h : Rel2 s.th hs) (ha : s.th[t]? = some a) (hne : ∀ w, a ≠ TS.held w)
    (hah : a.afterHeld = false) : Rel2 (attempt s t).th hs := by
  unfold attempt
  split <;> exact h.move _ ha hne (by intro x hx; cases hx) (by simp [hah])

theorem c01_sim_step (s : St) (e : Ev) (s' : St) (hs : Holders) (hR : RelC01 s hs)
    (hstep : step s e = some s') :
    match Ev.obs e with
    | none => RelC01 s' hs
    | some o => ∃ hs', monC01.step hs o = some hs' ∧ RelC01 s' hs' := by
  obtain ⟨hi, h2⟩ := hR
  have hi' := step_inv s e s' hi hstep
  have grant : ∀ (t : Nat) (w : Bool) (a : TS), s.th[t]? = some a → a.holds true = true →
      (∀ w', a ≠ .held w') → a.afterHeld = false → w = true →
      ∃ hs', (if compatible hs w then some ((t, w) :: hs) else none) = some hs' ∧
        Rel2 (s.th.set t (.held w)) hs' := by
    intro t w a h hh hnh haf hw
    subst hw
    have hc := compatible_of_granted s hs t ⟨hi, h2⟩ a h hh hnh
    refine ⟨(t, true) :: hs, by simp [hc], ?_⟩
    have hno := h2.not_holder h hnh
    have hlt := lt_of_getElem? h
    constructor
    · intro u w' hm
      simp at hm
      rcases hm with ⟨rfl, rfl⟩ | hm
      · simp [hlt]
      · have hne : t ≠ u := by intro e; subst e; exact hno w' hm
        rw [getElem?_set_ne' _ _ _ _ hne]; exact h2.held u w' hm
    · intro c u hc'
      have hct : t ≠ c := by intro e; subst e; simp [hlt] at hc'
      rw [getElem?_set_ne' _ _ _ _ hct] at hc'
      obtain ⟨h1, x, hx, hxa⟩ := h2.rel c u hc'
      have hut : t ≠ u := by intro e; subst e; rw [h] at hx; cases hx; simp [haf] at hxa
      refine ⟨?_, x, by rw [getElem?_set_ne' _ _ _ _ hut]; exact hx, hxa⟩
      intro w' hm; simp at hm
      rcases hm with ⟨rfl, _⟩ | hm
      · exact hut rfl
      · exact h1 w' hm
  have wtrue : ∀ (t : Nat) (w : Bool) (a : TS), s.th[t]? = some a → a.holds w = true → w = true := by
    intro t w a h hh
    cases w
    · have := countP_pos_of_getElem? (TS.holds false) _ _ _ h hh
      have := hi.noread; omega
    · rfl
  cases e with
  | invLock t w =>
    simp only [step] at hstep; split at hstep <;> simp at hstep; subst hstep
    exact ⟨_, rfl, hi', rel2_append _ _ _ h2 (by intro x hx; cases hx)⟩
  | invTry t w =>
    simp only [step] at hstep; split at hstep <;> simp at hstep; subst hstep
    exact ⟨_, rfl, hi', rel2_append _ _ _ h2 (by intro x hx; cases hx)⟩
  | lockCS t =>
    simp only [step] at hstep; split at hstep <;> simp at hstep; subst hstep
    rename_i w h
    exact ⟨hi', rel2_attempt s hs t _ h2 h (by intro w h; cases h) rfl⟩
  | wakeCS t =>
    simp only [step] at hstep; split at hstep <;> simp at hstep
    obtain ⟨_, rfl⟩ := hstep; rename_i w c h _
    exact ⟨hi', rel2_attempt s hs t _ h2 h (by intro w h; cases h) rfl⟩
  | ctxTake t =>
    simp only [step] at hstep; split at hstep <;> simp at hstep
    obtain ⟨_, rfl⟩ := hstep; rename_i w c h _
    exact ⟨hi', h2.move _ h (by intro w h; cases h) (by intro x hx; cases hx) (by simp [TS.afterHeld])⟩
  | cancelCS t => simp [step] at hstep
  | retLock t r =>
    simp only [step] at hstep; split at hstep <;> simp at hstep
    · obtain ⟨rfl, rfl⟩ := hstep; rename_i w h
      have hw := wtrue t w _ h (by simp)
      obtain ⟨hs', e1, e2⟩ := grant t w _ h (by simp [hw]) (by intro w h; cases h) rfl hw
      exact ⟨hs', by simpa [monC01] using e1, hi', e2⟩
    · subst hstep; rename_i h
      exact ⟨hs, rfl, hi', h2.move _ h (by intro w h; cases h) (by intro x hx; cases hx) (by simp [TS.afterHeld])⟩
  | retTry t r =>
    simp only [step] at hstep; split at hstep <;> simp at hstep
    · obtain ⟨rfl, rfl⟩ := hstep; rename_i w h
      have hw := wtrue t w _ h (by simp)
      obtain ⟨hs', e1, e2⟩ := grant t w _ h (by simp [hw]) (by intro w h; cases h) rfl hw
      exact ⟨hs', by simpa [monC01] using e1, hi', e2⟩
    · subst hstep; rename_i h
      exact ⟨hs, rfl, hi', h2.move _ h (by intro w h; cases h) (by intro x hx; cases hx) (by simp [TS.afterHeld])⟩
  | tryCS t =>
    simp only [step] at hstep; split at hstep <;> try simp at hstep
    rename_i w h
    split at hstep <;> simp at hstep <;> subst hstep <;>
      exact ⟨hi', h2.move _ h (by intro w h; cases h) (by intro x hx; cases hx) (by simp [TS.afterHeld])⟩
  | envCancel t =>
    simp only [step] at hstep; split at hstep <;> simp at hstep; subst hstep
    exact ⟨hs, rfl, hi', h2⟩
  | invRel c t =>
    simp only [step] at hstep; split at hstep <;> try simp at hstep
    have hsub : ∀ x, x ∈ hs.filter (fun h => h.1 != t) → x ∈ hs := by
      intro x hx; exact (List.mem_filter.mp hx).1
    have hnot : ∀ w, (t, w) ∉ hs.filter (fun h => h.1 != t) := by
      intro w hm; have := (List.mem_filter.mp hm).2; simp at this
    split at hstep <;> simp at hstep <;> subst hstep
    all_goals
      rename_i h
      refine ⟨_, rfl, hi', rel2_append _ _ _ (h2.subset hsub) ?_⟩
      intro x hx; cases hx
      exact ⟨hnot, _, h, rfl⟩
  | relSwap c =>
    simp only [step] at hstep; split at hstep <;> try simp at hstep
    rename_i t hc
    split at hstep <;> simp at hstep <;> subst hstep
    · rename_i w ht
      have hne : t ≠ c := by intro e; subst e; rw [hc] at ht; cases ht
      have hnot := (h2.rel c t hc).1
      have h3 : Rel2 (s.th.set t (.releasing w)) hs :=
        rel2_set _ _ t _ _ h2 ht (fun w' => Or.inl (hnot w')) (by intro x hx; cases hx) (by simp [TS.afterHeld])
      have hc' : (s.th.set t (.releasing w))[c]? = some (.relInv t) := by
        rw [getElem?_set_ne' _ _ _ _ hne]; exact hc
      exact ⟨hi', h3.move _ hc' (by intro w h; cases h) (by intro x hx; cases hx) (by simp [TS.afterHeld])⟩
    · exact ⟨hi', h2.move _ hc (by intro w h; cases h) (by intro x hx; cases hx) (by simp [TS.afterHeld])⟩
  | relCS c =>
    simp only [step] at hstep; split at hstep <;> try simp at hstep
    rename_i t hc
    split at hstep <;> simp at hstep; subst hstep
    rename_i w ht
    have hne : t ≠ c := by intro e; subst e; rw [hc] at ht; cases ht
    have h3 : Rel2 (s.th.set t .finished) hs :=
      h2.move _ ht (by intro w h; cases h) (by intro x hx; cases hx) (by simp [TS.afterHeld])
    have hc' : (s.th.set t .finished)[c]? = some (.relCS t) := by
      rw [getElem?_set_ne' _ _ _ _ hne]; exact hc
    exact ⟨hi', h3.move _ hc' (by intro w h; cases h) (by intro x hx; cases hx) (by simp [TS.afterHeld])⟩
  | retRel c =>
    simp only [step] at hstep; split at hstep <;> simp at hstep; subst hstep
    rename_i h
    exact ⟨hs, rfl, hi', h2.move _ h (by intro w h; cases h) (by intro x hx; cases hx) (by simp [TS.afterHeld])⟩
  | quiesce B =>
    simp only [step] at hstep; split at hstep <;> simp at hstep; subst hstep
    exact ⟨hs, rfl, hi, h2⟩

/-- **C01 (observable form, Mutex).** Every observable trace of the Mutex model is accepted by the
exclusion monitor: at most one caller holds the mutex between a successful return and its first
release call, for every number of callers and every interleaving. -/
theorem C01_obs_mutex (es : List Ev) (s : St) (h : model.run model.init es = some s) :
    monC01.accepts (es.filterMap model.obs) = true :=
  monitor_accepts_of_simulation model monC01 RelC01
    ⟨init_inv, ⟨by intro t w hm; simp [monC01] at hm, by intro c t hc; simp [model] at hc⟩⟩
    (fun s e s' ms hR hs => by
      have h := c01_sim_step s e s' ms hR hs
      cases e <;> exact h) es s h

end UtilModel.CSync.Mx
