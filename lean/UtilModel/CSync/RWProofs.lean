import UtilModel.CSync.RWMutex
/-!
# csync.RWMutex — invariants (C01 exclusion, C02 no lost wake-up), for every event list
-/
namespace UtilModel.CSync.RW
open UtilModel UtilModel.CSync

/-- what a parked caller of mode `w` is waiting for: the lock is *not* grantable to it -/
def blocked (s : St) (w : Bool) : Prop :=
  if w then (s.nreaders ≠ 0 ∨ s.writing = true) else (s.writing = true ∨ s.writeWaiting ≠ 0)

instance (s : St) (w : Bool) : Decidable (blocked s w) := by unfold blocked; infer_instance

structure Inv (s : St) : Prop where
  readers : s.nreaders = s.th.countP (TS.holds false)
  writers : s.th.countP (TS.holds true) = if s.writing then 1 else 0
  excl    : s.writing = true → s.nreaders = 0
  ww      : s.writeWaiting = s.th.countP TS.waitingWriter
  bcwf    : s.bc.WF
  parked  : ∀ (t : Nat) (w : Bool) (c : Nat), s.th[t]? = some (TS.parked w c) →
              c < s.bc.next ∧ (s.bc.closed c = false → blocked s w)

theorem init_inv : Inv ({} : St) := by
  refine ⟨by simp, by simp, by simp, by simp, Bcast.wf_init, ?_⟩
  intro t w c h; simp at h

/-- bookkeeping: replacing thread `t` (state `a`) by `b` changes the three counters by the flags -/
theorem counts_set (th : List TS) (t : Nat) (a b : TS) (h : th[t]? = some a) :
    ((th.set t b).countP (TS.holds false) + (if a.holds false then 1 else 0)
        = th.countP (TS.holds false) + (if b.holds false then 1 else 0)) ∧
    ((th.set t b).countP (TS.holds true) + (if a.holds true then 1 else 0)
        = th.countP (TS.holds true) + (if b.holds true then 1 else 0)) ∧
    ((th.set t b).countP TS.waitingWriter + (if a.waitingWriter then 1 else 0)
        = th.countP TS.waitingWriter + (if b.waitingWriter then 1 else 0)) :=
  ⟨countP_set _ _ _ _ _ h, countP_set _ _ _ _ _ h, countP_set _ _ _ _ _ h⟩

end UtilModel.CSync.RW

namespace UtilModel.CSync.RW
open UtilModel UtilModel.CSync

def blockedV (nr : Nat) (wr : Bool) (ww : Nat) (w : Bool) : Prop :=
  if w then (nr ≠ 0 ∨ wr = true) else (wr = true ∨ ww ≠ 0)

theorem blocked_eq (s : St) (w : Bool) : blocked s w = blockedV s.nreaders s.writing s.writeWaiting w := rfl

/-- generic preservation lemma: thread `t` moves from `a` to `b`, shared variables move to
`nr, wr, ww, bc`; the counters must move by the flag differences, and every parked thread must
still be blocked unless its channel is now closed. -/
theorem inv_set (s : St) (t : Nat) (a b : TS) (nr : Nat) (wr : Bool) (ww : Nat) (bc : Bcast)
    (cx : List Nat) (hi : Inv s) (ha : s.th[t]? = some a)
    (h1 : nr + (if a.holds false then 1 else 0) = s.nreaders + (if b.holds false then 1 else 0))
    (h2 : (if wr then 1 else 0) + (if a.holds true then 1 else 0)
            = (if s.writing then 1 else 0) + (if b.holds true then 1 else 0))
    (h3 : ww + (if a.waitingWriter then 1 else 0) = s.writeWaiting + (if b.waitingWriter then 1 else 0))
    (hex : wr = true → nr = 0)
    (hbc : bc.WF)
    (hp : ∀ (u : Nat) (w : Bool) (c : Nat), u ≠ t → s.th[u]? = some (TS.parked w c) →
            c < bc.next ∧ (bc.closed c = false → blockedV nr wr ww w))
    (hb : ∀ (w : Bool) (c : Nat), b = TS.parked w c →
            c < bc.next ∧ (bc.closed c = false → blockedV nr wr ww w)) :
    Inv { nreaders := nr, writing := wr, writeWaiting := ww, bc := bc, th := s.th.set t b, cx := cx } := by
  obtain ⟨c1, c2, c3⟩ := counts_set s.th t a b ha
  have r := hi.readers; have wq := hi.writers; have wwq := hi.ww
  refine ⟨?_, ?_, hex, ?_, hbc, ?_⟩
  · simp only; omega
  · simp only; omega
  · simp only; omega
  · intro u w c hu
    simp only at hu
    rcases getElem?_set_cases s.th t u b _ hu with ⟨_, hx⟩ | ⟨hne, hx⟩
    · exact hb w c hx.symm
    · exact hp u w c hne hx

/-- a new call appears (thread appended): nothing else changes -/
theorem inv_append (s : St) (b : TS) (hi : Inv s) (hb1 : b.holds false = false)
    (hb2 : b.holds true = false) (hb3 : b.waitingWriter = false)
    (hb4 : ∀ w c, b ≠ TS.parked w c) : Inv { s with th := s.th ++ [b] } := by
  obtain ⟨r, wq, ex, wwq, wf, pk⟩ := hi
  refine ⟨?_, ?_, ex, ?_, wf, ?_⟩
  · simp [hb1, r]
  · simp [hb2, wq]
  · simp [hb3, wwq]
  · intro t w c h
    simp only [List.getElem?_append] at h
    split at h
    · exact pk t w c h
    · rename_i hlt
      by_cases h0 : t - s.th.length = 0
      · simp [h0] at h; exact absurd h (hb4 w c)
      · have : ([b] : List TS)[t - s.th.length]? = none := by
          simp; omega
        simp [this] at h

end UtilModel.CSync.RW

namespace UtilModel.CSync.RW
open UtilModel UtilModel.CSync

/-- parked threads stay blocked when the shared variables only become "more blocking" and the
channel state is unchanged or extended by `getWaitCh` -/
theorem parked_keep (s : St) (hi : Inv s) (nr : Nat) (wr : Bool) (ww : Nat)
    (hmono : ∀ w, blocked s w → blockedV nr wr ww w) :
    (∀ (u : Nat) (w : Bool) (c : Nat), s.th[u]? = some (TS.parked w c) →
        c < s.bc.next ∧ (s.bc.closed c = false → blockedV nr wr ww w)) ∧
    (∀ (u : Nat) (w : Bool) (c : Nat), s.th[u]? = some (TS.parked w c) →
        c < s.bc.getWaitCh.1.next ∧ (s.bc.getWaitCh.1.closed c = false → blockedV nr wr ww w)) := by
  obtain ⟨g1, g2, g3, g4, g5, g6, g7⟩ := Bcast.getWaitCh_spec s.bc hi.bcwf
  constructor
  · intro u w c h
    have := hi.parked u w c h
    exact ⟨this.1, fun hc => hmono w (this.2 hc)⟩
  · intro u w c h
    have := hi.parked u w c h
    refine ⟨by omega, fun hc => hmono w (this.2 ?_)⟩
    by_cases hcc : c = s.bc.getWaitCh.2
    · cases hcl : s.bc.closed c
      · rfl
      · exact absurd hcc (g6 c hcl)
    · rw [← g4 c hcc]; exact hc

/-- after a broadcast every previously allocated channel is closed -/
theorem parked_bcast (s : St) (hi : Inv s) (nr : Nat) (wr : Bool) (ww : Nat) :
    ∀ (u : Nat) (w : Bool) (c : Nat), s.th[u]? = some (TS.parked w c) →
        c < s.bc.broadcast.next ∧ (s.bc.broadcast.closed c = false → blockedV nr wr ww w) := by
  intro u w c h
  have := hi.parked u w c h
  obtain ⟨_, b2, _, b4, _⟩ := Bcast.broadcast_spec s.bc
  refine ⟨by omega, fun hc => ?_⟩
  rw [b4 c this.1] at hc; simp at hc

theorem attempt_inv (s : St) (t : Nat) (w first : Bool) (a : TS) (hi : Inv s)
    (ha : s.th[t]? = some a) (hah : a.holds false = false ∧ a.holds true = false)
    (haw : a.waitingWriter = (w && !first)) : Inv (attempt s t w first) := by
  obtain ⟨g1, g2, g3, g4, g5, g6, g7⟩ := Bcast.getWaitCh_spec s.bc hi.bcwf
  have r := hi.readers; have wq := hi.writers; have wwq := hi.ww; have ex := hi.excl
  have hpos : a.waitingWriter = true → 0 < s.writeWaiting := by
    intro h; rw [wwq]; exact countP_pos_of_getElem? _ _ _ _ ha h
  unfold attempt
  split
  · split
    · -- writer must wait
      rename_i hw hb
      refine inv_set s t a _ _ _ _ _ _ hi ha ?_ ?_ ?_ ex g7 ?_ ?_
      · simp [hah]
      · simp [hah]
      · subst hw; cases first <;> simp_all
      · intro u w' c _ h
        refine (parked_keep s hi _ _ _ ?_).2 u w' c h
        intro w'' hb'; unfold blocked at hb'; unfold blockedV
        cases w'' <;> simp_all
        cases first <;> simp <;> omega
      · intro w' c hb'
        simp at hb'
        obtain ⟨rfl, rfl⟩ := hb'
        refine ⟨g2, fun _ => ?_⟩
        unfold blockedV; simp; rcases hb with h | h
        · left; exact h
        · right; exact h
    · -- writer granted
      rename_i hw hb
      have hb' : s.nreaders = 0 ∧ s.writing = false := by
        constructor
        · cases h : s.nreaders with | zero => rfl | succ n => exact absurd (Or.inl (by omega)) hb
        · cases h : s.writing with | false => rfl | true => exact absurd (Or.inr h) hb
      refine inv_set s t a _ _ _ _ _ _ hi ha ?_ ?_ ?_ (fun _ => hb'.1) hi.bcwf ?_ ?_
      · simp [hah]
      · simp [hah, hb'.2]
      · subst hw; cases first
        · simp at haw ⊢
          have := hpos haw; simp [haw]; omega
        · simp at haw ⊢; simp [haw]
      · intro u w' c _ h
        refine (parked_keep s hi _ _ _ ?_).1 u w' c h
        intro w'' _; unfold blockedV; cases w'' <;> simp
      · intro w' c hb''; simp at hb''
  · split
    · -- reader granted
      rename_i hw hb
      have hww : s.writing = false := by
        cases h : s.writing with | false => rfl | true => simp [h] at hb
      refine inv_set s t a _ _ _ _ _ _ hi ha ?_ ?_ ?_ (by simp [hww]) hi.bcwf ?_ ?_
      · simp [hah]
      · simp [hah]
      · have : w = false := by cases w <;> simp_all
        subst this; simp at haw ⊢; simp [haw]
      · intro u w' c _ h
        refine (parked_keep s hi _ _ _ ?_).1 u w' c h
        intro w'' hb'; unfold blocked at hb'; unfold blockedV
        cases w''
        · simpa using hb'
        · simp
      · intro w' c hb''; simp at hb''
    · -- reader must wait
      rename_i hw hb
      have hw' : w = false := by cases w <;> simp_all
      refine inv_set s t a _ _ _ _ _ _ hi ha ?_ ?_ ?_ ex g7 ?_ ?_
      · simp [hah]
      · simp [hah]
      · subst hw'; simp at haw ⊢; simp [haw]
      · intro u w' c _ h
        refine (parked_keep s hi _ _ _ ?_).2 u w' c h
        intro w'' hb'; exact hb'
      · intro w' c hb'
        simp at hb'
        obtain ⟨rfl, rfl⟩ := hb'
        refine ⟨g2, fun _ => ?_⟩
        unfold blockedV; simp
        by_cases h1 : s.writing = true
        · left; exact h1
        · right; intro h2; exact hb ⟨by simp [h1], h2⟩

end UtilModel.CSync.RW

namespace UtilModel.CSync.RW
open UtilModel UtilModel.CSync

/-- a thread move that touches no shared variable and no holder / waiting-writer flag -/
theorem inv_move (s : St) (t : Nat) (a b : TS) (cx : List Nat) (hi : Inv s) (ha : s.th[t]? = some a)
    (h1 : a.holds false = b.holds false) (h2 : a.holds true = b.holds true)
    (h3 : a.waitingWriter = b.waitingWriter) (hb : ∀ w c, b ≠ TS.parked w c) :
    Inv { s with th := s.th.set t b, cx := cx } := by
  refine inv_set s t a b _ _ _ _ cx hi ha (by rw [h1]) (by rw [h2]) (by rw [h3]) hi.excl hi.bcwf ?_ ?_
  · intro u w c _ h; exact hi.parked u w c h
  · intro w c h; exact absurd h (hb w c)

theorem inv_cx (s : St) (cx : List Nat) (hi : Inv s) : Inv { s with cx := cx } :=
  ⟨hi.readers, hi.writers, hi.excl, hi.ww, hi.bcwf, hi.parked⟩

theorem step_inv (s : St) (e : Ev) (s' : St) (hi : Inv s) (hs : step s e = some s') : Inv s' := by
  cases e with
  | invLock t w =>
    simp only [step] at hs; split at hs <;> simp at hs; subst hs
    exact inv_append s _ hi rfl rfl rfl (by intro w c h; cases h)
  | invTry t w =>
    simp only [step] at hs; split at hs <;> simp at hs; subst hs
    exact inv_append s _ hi rfl rfl rfl (by intro w c h; cases h)
  | lockCS t =>
    simp only [step] at hs; split at hs <;> simp at hs; subst hs
    rename_i w h
    exact attempt_inv s t w true _ hi h ⟨rfl, rfl⟩ (by simp)
  | wakeCS t =>
    simp only [step] at hs; split at hs <;> simp at hs
    obtain ⟨_, rfl⟩ := hs; rename_i w c h _
    exact attempt_inv s t w false _ hi h ⟨rfl, rfl⟩ (by simp)
  | ctxTake t =>
    simp only [step] at hs; split at hs <;> simp at hs
    obtain ⟨_, rfl⟩ := hs; rename_i w c h _
    exact inv_move s t _ _ s.cx hi h rfl rfl (by simp) (by intro w c h; cases h)
  | cancelCS t =>
    simp only [step] at hs; split at hs <;> try simp at hs
    rename_i w h
    split at hs <;> simp at hs <;> subst hs
    · -- writer gives up: writeWaiting--, broadcast
      rename_i hw; subst hw
      have hpos : 0 < s.writeWaiting := by
        rw [hi.ww]; exact countP_pos_of_getElem? _ _ _ _ h (by simp)
      obtain ⟨_, _, b3, _, _⟩ := Bcast.broadcast_spec s.bc
      refine inv_set s t _ _ _ _ _ _ s.cx hi h (by simp) (by simp) (by simp; omega) hi.excl b3 ?_ ?_
      · intro u w c _ hu; exact parked_bcast s hi _ _ _ u w c hu
      · intro w c hb; cases hb
    · exact inv_move s t _ _ s.cx hi h rfl rfl (by simp_all) (by intro w c h; cases h)
  | retLock t ok =>
    simp only [step] at hs; split at hs <;> simp at hs
    · obtain ⟨_, rfl⟩ := hs; rename_i w _ h _; exact inv_move s t _ _ s.cx hi h (by simp) (by simp) rfl (by intro w c h; cases h)
    · subst hs; rename_i h; exact inv_move s t _ _ s.cx hi h rfl rfl rfl (by intro w c h; cases h)
  | retTry t ok =>
    simp only [step] at hs; split at hs <;> simp at hs
    · obtain ⟨_, rfl⟩ := hs; rename_i w _ h _; exact inv_move s t _ _ s.cx hi h (by simp) (by simp) rfl (by intro w c h; cases h)
    · subst hs; rename_i h; exact inv_move s t _ _ s.cx hi h rfl rfl rfl (by intro w c h; cases h)
  | tryCS t =>
    simp only [step] at hs; split at hs <;> try simp at hs
    rename_i w h
    split at hs
    · split at hs <;> simp at hs <;> subst hs
      · exact inv_move s t _ _ s.cx hi h rfl rfl rfl (by intro w c h; cases h)
      · rename_i hw hb
        have hb' : s.nreaders = 0 ∧ s.writing = false := by
          constructor
          · cases h : s.nreaders with | zero => rfl | succ n => exact absurd (Or.inl (by omega)) hb
          · cases h : s.writing with | false => rfl | true => exact absurd (Or.inr h) hb
        refine inv_set s t _ _ _ _ _ _ s.cx hi h (by simp) (by simp [hb'.2]) (by simp) (fun _ => hb'.1) hi.bcwf ?_ ?_
        · intro u w' c _ hu
          refine (parked_keep s hi _ _ _ ?_).1 u w' c hu
          intro w'' _; unfold blockedV; cases w'' <;> simp
        · intro w c hb; cases hb
    · split at hs <;> simp at hs <;> subst hs
      · rename_i hw hb
        have hww : s.writing = false := by
          cases h : s.writing with | false => rfl | true => simp [h] at hb
        refine inv_set s t _ _ _ _ _ _ s.cx hi h (by simp) (by simp) (by simp) (by simp [hww]) hi.bcwf ?_ ?_
        · intro u w' c _ hu
          refine (parked_keep s hi _ _ _ ?_).1 u w' c hu
          intro w'' hb'; unfold blocked at hb'; unfold blockedV
          cases w''
          · simpa using hb'
          · simp
        · intro w c hb; cases hb
      · exact inv_move s t _ _ s.cx hi h rfl rfl rfl (by intro w c h; cases h)
  | envCancel t =>
    simp only [step] at hs; split at hs <;> simp at hs; subst hs
    exact inv_cx s _ hi
  | invRel c t =>
    simp only [step] at hs; split at hs <;> try simp at hs
    split at hs <;> simp at hs <;> subst hs <;>
      exact inv_append s _ hi rfl rfl rfl (by intro w c h; cases h)
  | relSwap c =>
    simp only [step] at hs; split at hs <;> try simp at hs
    rename_i t hc
    split at hs <;> simp at hs <;> subst hs
    · rename_i w ht
      have hne : t ≠ c := by intro e; subst e; rw [hc] at ht; cases ht
      have h1 := inv_move s t _ (.releasing w) s.cx hi ht (by simp) (by simp) rfl (by intro w c h; cases h)
      have hc' : (s.th.set t (.releasing w))[c]? = some (.relInv t) := by
        rw [getElem?_set_ne' _ _ _ _ hne]; exact hc
      exact inv_move _ c _ (.relCS t) s.cx h1 hc' rfl rfl rfl (by intro w c h; cases h)
    · exact inv_move s c _ _ s.cx hi hc rfl rfl rfl (by intro w c h; cases h)
  | relCS c =>
    simp only [step] at hs; split at hs <;> try simp at hs
    rename_i t hc
    split at hs <;> simp at hs; subst hs
    rename_i w ht
    have hne : t ≠ c := by intro e; subst e; rw [hc] at ht; cases ht
    obtain ⟨_, _, b3, _, _⟩ := Bcast.broadcast_spec s.bc
    have r := hi.readers; have wq := hi.writers
    have hcnt : 0 < s.th.countP (TS.holds w) := countP_pos_of_getElem? _ _ _ _ ht (by simp)
    have h1 : Inv { nreaders := if w then s.nreaders else s.nreaders - 1,
                    writing := if w then false else s.writing,
                    writeWaiting := s.writeWaiting, bc := s.bc.broadcast,
                    th := s.th.set t .finished, cx := s.cx } := by
      refine inv_set s t _ _ _ _ _ _ s.cx hi ht ?_ ?_ (by simp) ?_ b3 ?_ ?_
      · cases w
        · simp; rw [← r] at hcnt; omega
        · simp
      · cases w
        · simp
        · simp; rw [wq] at hcnt; split at hcnt <;> simp_all
      · cases w
        · simp; intro hw; have := hi.excl hw; omega
        · simp
      · intro u w' c' _ hu; exact parked_bcast s hi _ _ _ u w' c' hu
      · intro w' c' hb; cases hb
    have hc' : (s.th.set t .finished)[c]? = some (.relCS t) := by
      rw [getElem?_set_ne' _ _ _ _ hne]; exact hc
    have h2 := inv_move _ c _ .relDone s.cx h1 hc' rfl rfl rfl (by intro w c h; cases h)
    cases w <;> simpa using h2
  | retRel c =>
    simp only [step] at hs; split at hs <;> simp at hs; subst hs
    rename_i h
    exact inv_move s c _ _ s.cx hi h rfl rfl rfl (by intro w c h; cases h)
  | quiesce B =>
    simp only [step] at hs; split at hs <;> simp at hs; subst hs; exact hi

/-- the invariant holds after every event list -/
theorem reachable_inv (es : List Ev) (s : St) (h : model.run model.init es = some s) : Inv s :=
  model.run_invariant Inv (fun s e s' hi hs => step_inv s e s' hi hs) _ _ es init_inv h

end UtilModel.CSync.RW
