import UtilModel.CSync.RWProps
/-!
# csync.RWMutex — C02 as an observable-history theorem

`C02_obs_rw`: every observable trace of the RWMutex model is accepted by the monitor `monC02`
(grantable waiters are granted at quiescence, cancelled waiters leave no trace and return
`Canceled` only if cancelled, writer preference). Proved by simulation (`monitor_of_simulation`).
-/
namespace UtilModel.CSync

/-- mode carried by a Lock call that has not finished its acquire -/
def TS.lockMode : TS → Option Bool
  | .lockInv w | .parked w _ | .granted w | .cancelling w => some w
  | _ => none

def TS.cancelSt : TS → Bool
  | .cancelling _ | .cancelled => true
  | _ => false

/-- a writer the monitor may still count as "known to be waiting": parked, or granted but not yet
returned -/
def TS.wwait : TS → Bool
  | .parked true _ | .granted true => true
  | _ => false

def TS.isParked : TS → Bool
  | .parked _ _ => true
  | _ => false

/-- a read acquire that has not been granted -/
def TS.readerPending : TS → Bool
  | .lockInv false | .parked false _ | .cancelling false | .cancelled | .finished
  | .tryInv false | .tryFailed => true
  | _ => false

def TS.isHeld : TS → Bool
  | .held _ => true
  | _ => false

def TS.isRelInv : TS → Bool
  | .relInv _ => true
  | _ => false

end UtilModel.CSync

namespace UtilModel.CSync.RW
open UtilModel UtilModel.CSync

/-- the part of the simulation relation that looks at the thread table only through single entries -/
structure ThRel (th : List TS) (cx : List Nat) (ms : C02St) : Prop where
  modes : ∀ (t : Nat) (x : TS) (w : Bool), th[t]? = some x → x.lockMode = some w → modeOf ms t = some w
  cxst  : ∀ (t : Nat) (x : TS), th[t]? = some x → x.cancelSt = true → t ∈ cx
  ww    : ∀ u, u ∈ ms.waitingW → ∃ x, th[u]? = some x ∧ x.wwait = true ∧ (x.isParked = true → u ∉ cx)
  bl    : ∀ r u, (r, u) ∈ ms.blockers → u ∈ ms.waitingW ∧ ∃ x, th[r]? = some x ∧ x.readerPending = true

structure RelC02 (s : St) (ms : C02St) : Prop where
  inv   : Inv s
  rel2  : Rel2 s.th ms.holders
  cover : ∀ (t : Nat) (w : Bool), s.th[t]? = some (TS.held w) →
            (t, w) ∈ ms.holders ∨ ∃ c : Nat, s.th[c]? = some (TS.relInv t)
  thr   : ThRel s.th s.cx ms
  mlt   : ∀ p, p ∈ ms.modes → p.1 < s.th.length
  cx    : ms.cancelled = s.cx

theorem modeOf_cons_ne (ms ms' : C02St) (t u : Nat) (w : Bool) (hm : ms'.modes = (t, w) :: ms.modes)
    (h : t ≠ u) : modeOf ms' u = modeOf ms u := by
  simp [modeOf, hm, h]

theorem modeOf_cons_eq (ms ms' : C02St) (t : Nat) (w : Bool) (hm : ms'.modes = (t, w) :: ms.modes) :
    modeOf ms' t = some w := by
  simp [modeOf, hm]

/-- side conditions under which moving thread `t` from `a` to `b` preserves `ThRel` -/
structure MoveOK (ms : C02St) (cx : List Nat) (t : Nat) (a b : TS) : Prop where
  mode   : ∀ w, b.lockMode = some w → a.lockMode = some w
  cancel : b.cancelSt = true → a.cancelSt = true ∨ t ∈ cx
  wwait  : a.wwait = true → (b.wwait = true ∧ (b.isParked = true → a.isParked = true)) ∨ (a.isParked = true ∧ t ∈ cx) ∨ t ∉ ms.waitingW
  rp     : a.readerPending = true → b.readerPending = true ∨ ∀ u, (t, u) ∉ ms.blockers

theorem ThRel.move {th : List TS} {cx : List Nat} {ms : C02St} (h : ThRel th cx ms) {t : Nat} {a : TS}
    (b : TS) (ha : th[t]? = some a) (ok : MoveOK ms cx t a b) : ThRel (th.set t b) cx ms := by
  have hlt := lt_of_getElem? ha
  constructor
  · intro u x w hu hm
    rcases getElem?_set_cases _ _ _ _ _ hu with ⟨rfl, rfl⟩ | ⟨_, hu'⟩
    · exact h.modes u a w ha (ok.mode w hm)
    · exact h.modes u x w hu' hm
  · intro u x hu hc
    rcases getElem?_set_cases _ _ _ _ _ hu with ⟨rfl, rfl⟩ | ⟨_, hu'⟩
    · rcases ok.cancel hc with h1 | h1
      · exact h.cxst u a ha h1
      · exact h1
    · exact h.cxst u x hu' hc
  · intro u hu
    obtain ⟨x, hx, hw, hp⟩ := h.ww u hu
    by_cases e : t = u
    · subst e
      rw [ha] at hx; cases hx
      rcases ok.wwait hw with ⟨h1, h2⟩ | ⟨h1, h2⟩ | h1
      · exact ⟨b, by simp [hlt], h1, fun hb => hp (h2 hb)⟩
      · exact absurd h2 (hp h1)
      · exact absurd hu h1
    · exact ⟨x, by rw [getElem?_set_ne' _ _ _ _ e]; exact hx, hw, hp⟩
  · intro r u hm
    obtain ⟨h1, x, hx, hr⟩ := h.bl r u hm
    refine ⟨h1, ?_⟩
    by_cases e : t = r
    · subst e
      rw [ha] at hx; cases hx
      rcases ok.rp hr with h2 | h2
      · exact ⟨b, by simp [hlt], h2⟩
      · exact absurd hm (h2 u)
    · exact ⟨x, by rw [getElem?_set_ne' _ _ _ _ e]; exact hx, hr⟩

/-- a move between states none of the relation's predicates look at -/
theorem MoveOK.plain (ms : C02St) (cx : List Nat) (t : Nat) (a b : TS)
    (hb1 : b.lockMode = none) (hb2 : b.cancelSt = false) (ha1 : a.wwait = false)
    (ha2 : a.readerPending = false ∨ b.readerPending = true) : MoveOK ms cx t a b where
  mode := by intro w h; rw [hb1] at h; cases h
  cancel := by intro h; rw [hb2] at h; cases h
  wwait := by intro h; rw [ha1] at h; cases h
  rp := by
    intro h
    rcases ha2 with h2 | h2
    · rw [h2] at h; cases h
    · exact Or.inl h2

/-- the same when the monitor records no blockers at all (Mutex) -/
theorem MoveOK.plain_nobl (ms : C02St) (cx : List Nat) (t : Nat) (a b : TS)
    (hb1 : b.lockMode = none) (hb2 : b.cancelSt = false) (ha1 : a.wwait = false)
    (hnb : ms.blockers = []) : MoveOK ms cx t a b where
  mode := by intro w h; rw [hb1] at h; cases h
  cancel := by intro h; rw [hb2] at h; cases h
  wwait := by intro h; rw [ha1] at h; cases h
  rp := by intro _; right; intro u hm; rw [hnb] at hm; cases hm

/-- a new thread (whose id no monitor list mentions yet) -/
theorem ThRel.append {th : List TS} {cx : List Nat} {ms : C02St} (h : ThRel th cx ms) (b : TS)
    (hm : b.lockMode = none) (hc : b.cancelSt = false) : ThRel (th ++ [b]) cx ms := by
  constructor
  · intro u x w hu hmm
    rcases getElem?_snoc_cases _ _ _ _ hu with ⟨_, hu'⟩ | ⟨_, rfl⟩
    · exact h.modes u x w hu' hmm
    · rw [hm] at hmm; cases hmm
  · intro u x hu hcc
    rcases getElem?_snoc_cases _ _ _ _ hu with ⟨_, hu'⟩ | ⟨_, rfl⟩
    · exact h.cxst u x hu' hcc
    · rw [hc] at hcc; cases hcc
  · intro u hu
    obtain ⟨x, hx, hw, hp⟩ := h.ww u hu
    exact ⟨x, getElem?_snoc_left _ _ _ _ hx, hw, hp⟩
  · intro r u hmm
    obtain ⟨h1, x, hx, hr⟩ := h.bl r u hmm
    exact ⟨h1, x, getElem?_snoc_left _ _ _ _ hx, hr⟩


def Cover (th : List TS) (hs : Holders) : Prop :=
  ∀ (t : Nat) (w : Bool), th[t]? = some (TS.held w) →
    (t, w) ∈ hs ∨ ∃ c : Nat, th[c]? = some (TS.relInv t)

theorem Cover.move {th : List TS} {hs : Holders} (h : Cover th hs) {t : Nat} {a : TS} (b : TS)
    (ha : th[t]? = some a) (ha' : a.isRelInv = false) (hb : b.isHeld = false) :
    Cover (th.set t b) hs := by
  intro u w hu
  rcases getElem?_set_cases _ _ _ _ _ hu with ⟨_, hx⟩ | ⟨hne, hu'⟩
  · rw [← hx] at hb; cases hb
  · rcases h u w hu' with h1 | ⟨c, hc⟩
    · exact Or.inl h1
    · have hct : t ≠ c := by
        intro e; subst e; rw [ha] at hc; cases hc; cases ha'
      exact Or.inr ⟨c, by rw [getElem?_set_ne' _ _ _ _ hct]; exact hc⟩

theorem Cover.append {th : List TS} {hs : Holders} (h : Cover th hs) (b : TS) (hb : b.isHeld = false) :
    Cover (th ++ [b]) hs := by
  intro u w hu
  rcases getElem?_snoc_cases _ _ _ _ hu with ⟨_, hu'⟩ | ⟨_, hx⟩
  · rcases h u w hu' with h1 | ⟨c, hc⟩
    · exact Or.inl h1
    · exact Or.inr ⟨c, getElem?_snoc_left _ _ _ _ hc⟩
  · rw [← hx] at hb; cases hb

/-- a thread becomes `held w` and is added to the monitor's holders -/
theorem Cover.grant {th : List TS} {hs : Holders} (h : Cover th hs) {t : Nat} {a : TS} (w : Bool)
    (ha : th[t]? = some a) (ha' : a.isRelInv = false) :
    Cover (th.set t (.held w)) ((t, w) :: hs) := by
  have hlt := lt_of_getElem? ha
  intro u w' hu
  rcases getElem?_set_cases _ _ _ _ _ hu with ⟨rfl, hx⟩ | ⟨hne, hu'⟩
  · cases hx; exact Or.inl (by simp)
  · rcases h u w' hu' with h1 | ⟨c, hc⟩
    · exact Or.inl (by simp [h1])
    · have hct : t ≠ c := by
        intro e; subst e; rw [ha] at hc; cases hc; cases ha'
      exact Or.inr ⟨c, by rw [getElem?_set_ne' _ _ _ _ hct]; exact hc⟩

theorem rel2_grant {th : List TS} {hs : Holders} (h2 : Rel2 th hs) {t : Nat} {a : TS} (w : Bool)
    (h : th[t]? = some a) (hnh : ∀ w, a ≠ TS.held w) (haf : a.afterHeld = false) :
    Rel2 (th.set t (.held w)) ((t, w) :: hs) := by
  have hno := h2.not_holder h hnh
  have hlt := lt_of_getElem? h
  constructor
  · intro u w' hm
    simp at hm
    rcases hm with ⟨rfl, rfl⟩ | hm
    · simp [hlt]
    · have hne : t ≠ u := by intro e; subst e; exact hno w' hm
      rw [getElem?_set_ne' _ _ _ _ hne]; exact h2.held u w' hm
  · intro c u hc'
    have hct : t ≠ c := by intro e; subst e; simp [hlt] at hc'
    rw [getElem?_set_ne' _ _ _ _ hct] at hc'
    obtain ⟨h1, x, hx, hxa⟩ := h2.rel c u hc'
    have hut : t ≠ u := by intro e; subst e; rw [h] at hx; cases hx; simp [haf] at hxa
    refine ⟨?_, x, by rw [getElem?_set_ne' _ _ _ _ hut]; exact hx, hxa⟩
    intro w' hm; simp at hm
    rcases hm with ⟨rfl, _⟩ | hm
    · exact hut rfl
    · exact h1 w' hm

/-- monitor update at a return / context cancellation of call `t`: `t` is forgotten as a waiting
writer -/
def forgetCall (ms : C02St) (t : Nat) : C02St :=
  { ms with waitingW := ms.waitingW.filter (· != t), blockers := ms.blockers.filter (·.2 != t) }

theorem ThRel.forget {th : List TS} {cx : List Nat} {ms : C02St} (h : ThRel th cx ms) (t : Nat) :
    ThRel th cx (forgetCall ms t) := by
  constructor
  · intro u x w hu hm; exact h.modes u x w hu hm
  · exact h.cxst
  · intro u hu
    simp only [forgetCall, List.mem_filter] at hu
    exact h.ww u hu.1
  · intro r u hm
    simp only [forgetCall, List.mem_filter] at hm
    obtain ⟨h1, hx⟩ := h.bl r u hm.1
    refine ⟨?_, hx⟩
    simp only [forgetCall, List.mem_filter]
    exact ⟨h1, by simpa using hm.2⟩

theorem forget_not_ww (ms : C02St) (t : Nat) : t ∉ (forgetCall ms t).waitingW := by
  simp [forgetCall]

theorem forget_not_bl (ms : C02St) (t r : Nat) : (r, t) ∉ (forgetCall ms t).blockers := by
  simp [forgetCall]

/-- `ThRel` does not depend on the holders component -/
theorem ThRel.holders {th : List TS} {cx : List Nat} {ms : C02St} (h : ThRel th cx ms) (hs : Holders) :
    ThRel th cx { ms with holders := hs } :=
  ⟨h.modes, h.cxst, h.ww, h.bl⟩


theorem countP_pos_exists {α : Type} (p : α → Bool) (l : List α) (h : 0 < l.countP p) :
    ∃ (i : Nat) (x : α), l[i]? = some x ∧ p x = true := by
  rw [List.countP_pos_iff] at h
  obtain ⟨a, ha, hp⟩ := h
  obtain ⟨i, hi⟩ := List.getElem?_of_mem ha
  exact ⟨i, a, hi, hp⟩

/-- while a reader is recorded as queued behind a known waiting writer, readers are not admitted -/
theorem blocked_reader (s : St) (ms : C02St) (hi : Inv s) (h : ThRel s.th s.cx ms) (r u : Nat)
    (hm : (r, u) ∈ ms.blockers) : s.writing = true ∨ s.writeWaiting ≠ 0 := by
  obtain ⟨hu, _⟩ := h.bl r u hm
  obtain ⟨x, hx, hw, _⟩ := h.ww u hu
  cases x with
  | parked w c =>
    cases w
    · simp [TS.wwait] at hw
    · right
      have := countP_pos_of_getElem? TS.waitingWriter _ _ _ hx (by simp)
      rw [← hi.ww] at this; omega
  | granted w =>
    cases w
    · simp [TS.wwait] at hw
    · left
      have := countP_pos_of_getElem? (TS.holds true) _ _ _ hx (by simp)
      rw [hi.writers] at this
      split at this <;> simp_all
  | _ => simp [TS.wwait] at hw

theorem attempt_threl (s : St) (ms : C02St) (t : Nat) (w first : Bool) (a : TS) (hi : Inv s)
    (h : ThRel s.th s.cx ms) (ha : s.th[t]? = some a)
    (hcase : a = .lockInv w ∨ ∃ c, a = .parked w c) :
    ThRel (attempt s t w first).th s.cx ms := by
  have nb : (!s.writing) = true ∧ s.writeWaiting = 0 → ∀ u, (t, u) ∉ ms.blockers := by
    intro ⟨h1, h2⟩ u hm
    rcases blocked_reader s ms hi h t u hm with h3 | h3
    · simp [h3] at h1
    · exact h3 h2
  unfold attempt
  split
  · rename_i hw; subst hw
    split
    · -- writer parks
      apply h.move _ ha
      rcases hcase with rfl | ⟨c, rfl⟩
      · exact ⟨by intro w h; simpa [TS.lockMode] using h, by simp [TS.cancelSt], by simp [TS.wwait], by simp [TS.readerPending]⟩
      · exact ⟨by intro w h; simpa [TS.lockMode] using h, by simp [TS.cancelSt],
               by intro _; left; simp [TS.wwait, TS.isParked], by simp [TS.readerPending]⟩
    · -- writer granted
      apply h.move _ ha
      rcases hcase with rfl | ⟨c, rfl⟩
      · exact ⟨by intro w h; simpa [TS.lockMode] using h, by simp [TS.cancelSt], by simp [TS.wwait], by simp [TS.readerPending]⟩
      · exact ⟨by intro w h; simpa [TS.lockMode] using h, by simp [TS.cancelSt],
               by intro _; left; simp [TS.wwait, TS.isParked], by simp [TS.readerPending]⟩
  · rename_i hw
    have hw' : w = false := by cases w <;> simp_all
    subst hw'
    split
    · -- reader granted: it has no blockers
      rename_i hg
      apply h.move _ ha
      rcases hcase with rfl | ⟨c, rfl⟩
      · exact ⟨by intro w h; simpa [TS.lockMode] using h, by simp [TS.cancelSt], by simp [TS.wwait],
               by intro _; right; exact nb hg⟩
      · exact ⟨by intro w h; simpa [TS.lockMode] using h, by simp [TS.cancelSt], by simp [TS.wwait],
               by intro _; right; exact nb hg⟩
    · -- reader parks
      apply h.move _ ha
      rcases hcase with rfl | ⟨c, rfl⟩
      · exact ⟨by intro w h; simpa [TS.lockMode] using h, by simp [TS.cancelSt], by simp [TS.wwait], by simp [TS.readerPending]⟩
      · exact ⟨by intro w h; simpa [TS.lockMode] using h, by simp [TS.cancelSt], by simp [TS.wwait], by simp [TS.readerPending]⟩

theorem attempt_cover (s : St) (hs : Holders) (t : Nat) (w first : Bool) (a : TS)
    (h : Cover s.th hs) (ha : s.th[t]? = some a) (ha' : a.isRelInv = false) :
    Cover (attempt s t w first).th hs := by
  unfold attempt
  split <;> split <;> exact h.move _ ha ha' rfl

theorem attempt_len (s : St) (t : Nat) (w first : Bool) : (attempt s t w first).th.length = s.th.length := by
  unfold attempt; split <;> split <;> simp

theorem attempt_cx (s : St) (t : Nat) (w first : Bool) : (attempt s t w first).cx = s.cx := by
  unfold attempt; split <;> split <;> rfl


theorem wwait_cases (x : TS) (h : x.wwait = true) : (∃ c, x = .parked true c) ∨ x = .granted true := by
  cases x with
  | parked w c => cases w <;> simp [TS.wwait] at h; exact Or.inl ⟨c, rfl⟩
  | granted w => cases w <;> simp [TS.wwait] at h; exact Or.inr rfl
  | _ => simp [TS.wwait] at h

theorem quiet_of_quiescent (s : St) (hq : quiescent s = true) (t : Nat) (x : TS)
    (hx : s.th[t]? = some x) : TS.quiet s t x = true := by
  unfold quiescent at hq
  rw [List.all_eq_true] at hq
  have := hq t (by simp; exact lt_of_getElem? hx)
  simpa [hx] using this

theorem mem_pendingIds (s : St) (t : Nat) :
    t ∈ pendingIds s ↔ ∃ w c, s.th[t]? = some (TS.parked w c) := by
  unfold pendingIds
  simp only [List.mem_filter, List.mem_range]
  constructor
  · intro ⟨_, h⟩
    split at h <;> simp at h
    rename_i w c hx
    exact ⟨w, c, hx⟩
  · intro ⟨w, c, hx⟩
    exact ⟨lt_of_getElem? hx, by simp [hx]⟩

theorem holder_exists (s : St) (ms : C02St) (hR : RelC02 s ms) (hq : quiescent s = true) (m : Bool)
    (hc : 0 < s.th.countP (TS.holds m)) : ∃ u, (u, m) ∈ ms.holders := by
  obtain ⟨i, x, hx, hp⟩ := countP_pos_exists _ _ hc
  have hqx := quiet_of_quiescent s hq i x hx
  cases x <;> simp [TS.quiet] at hqx <;> simp at hp
  rename_i w
  subst hp
  rcases hR.cover i m hx with h1 | ⟨c, hcx⟩
  · exact ⟨i, h1⟩
  · have := quiet_of_quiescent s hq c _ hcx
    simp [TS.quiet] at this

theorem quiesce_ok (s : St) (ms : C02St) (hR : RelC02 s ms) (hq : quiescent s = true) :
    ∃ ms', monC02.step ms (.quiesce (pendingIds s)) = some ms' ∧ RelC02 s ms' := by
  have hi := hR.inv
  -- facts about pending calls
  have pend : ∀ t, t ∈ pendingIds s → ∃ w c, s.th[t]? = some (TS.parked w c) ∧ modeOf ms t = some w ∧
      s.bc.closed c = false ∧ t ∉ s.cx := by
    intro t ht
    obtain ⟨w, c, hx⟩ := (mem_pendingIds s t).mp ht
    have hqx := quiet_of_quiescent s hq t _ hx
    simp [TS.quiet] at hqx
    exact ⟨w, c, hx, hR.thr.modes t _ w hx rfl, hqx.1, hqx.2⟩
  have c1 : (pendingIds s).any (fun t => ms.cancelled.contains t) = false := by
    rw [List.any_eq_false]
    intro t ht
    obtain ⟨w, c, _, _, _, hcx⟩ := pend t ht
    rw [hR.cx]; simpa using hcx
  have c2 : (pendingIds s).any (pendingGrantable ms (pendingIds s)) = false := by
    rw [List.any_eq_false]
    intro t ht
    obtain ⟨w, c, hx, hmode, hopen, _⟩ := pend t ht
    have hb := (hi.parked t w c hx).2 hopen
    simp only [pendingGrantable, hmode]
    unfold blocked at hb
    unfold grantable
    cases w
    · -- reader: a writer holds or waits
      simp only [Bool.false_eq_true, if_false] at hb ⊢
      rcases hb with hb | hb
      · have : 0 < s.th.countP (TS.holds true) := by rw [hi.writers]; simp [hb]
        obtain ⟨u, hu⟩ := holder_exists s ms hR hq true this
        have : ms.holders.all (fun h => !h.2) = false := by
          rw [List.all_eq_false]; exact ⟨(u, true), hu, by simp⟩
        simp [this]
      · have : 0 < s.th.countP TS.waitingWriter := by rw [← hi.ww]; omega
        obtain ⟨i, x, hxi, hp⟩ := countP_pos_exists _ _ this
        have hqx := quiet_of_quiescent s hq i x hxi
        cases x <;> simp [TS.quiet] at hqx <;> simp at hp
        rename_i w' c'
        subst hp
        have hmem : i ∈ pendingIds s := (mem_pendingIds s i).mpr ⟨true, c', hxi⟩
        have hmi := hR.thr.modes i _ true hxi rfl
        have : (pendingIds s).all (fun u => modeOf ms u != some true) = false := by
          rw [List.all_eq_false]; exact ⟨i, hmem, by simp [hmi]⟩
        simp [this]
    · -- writer: somebody holds
      simp only [if_true] at hb ⊢
      have : ∃ m, 0 < s.th.countP (TS.holds m) := by
        rcases hb with hb | hb
        · exact ⟨false, by rw [← hi.readers]; omega⟩
        · exact ⟨true, by rw [hi.writers]; simp [hb]⟩
      obtain ⟨m, hm⟩ := this
      obtain ⟨u, hu⟩ := holder_exists s ms hR hq m hm
      cases hh : ms.holders with
      | nil => rw [hh] at hu; cases hu
      | cons _ _ => simp
  refine ⟨{ ms with waitingW := (pendingIds s).filter (fun t => modeOf ms t == some true) }, ?_, ?_⟩
  · simp only [monC02, c1, c2]
    simp
  · refine ⟨hR.inv, hR.rel2, hR.cover, ?_, hR.mlt, hR.cx⟩
    have wnew : ∀ u, u ∈ ms.waitingW → u ∈ (pendingIds s).filter (fun t => modeOf ms t == some true) := by
      intro u hu
      obtain ⟨x, hx, hw, _⟩ := hR.thr.ww u hu
      have hqx := quiet_of_quiescent s hq u x hx
      rcases wwait_cases x hw with ⟨c, rfl⟩ | rfl
      · rw [List.mem_filter]
        exact ⟨(mem_pendingIds s u).mpr ⟨true, c, hx⟩, by simp [hR.thr.modes u _ true hx rfl]⟩
      · simp [TS.quiet] at hqx
    constructor
    · intro u x w hu hm; exact hR.thr.modes u x w hu hm
    · exact hR.thr.cxst
    · intro u hu
      rw [List.mem_filter] at hu
      obtain ⟨w, c, hx, hmode, _, hcx⟩ := pend u hu.1
      have : w = true := by
        have := hu.2; rw [hmode] at this; simpa using this
      subst this
      exact ⟨_, hx, by simp [TS.wwait], fun _ => hcx⟩
    · intro r u hm
      obtain ⟨h1, hx⟩ := hR.thr.bl r u hm
      exact ⟨wnew u h1, hx⟩


theorem relC02_init : RelC02 ({} : St) ({} : C02St) := by
  refine ⟨init_inv, ⟨by intro t w hm; simp at hm, by intro c t hc; simp at hc⟩, by intro t w h; simp at h, ?_, by intro p hp; simp at hp, rfl⟩
  exact ⟨by intro t x w h; simp at h, by intro t x h; simp at h, by intro u hu; simp at hu, by intro r u hm; simp at hm⟩

/-- a thread move that none of the monitor-related predicates notice -/
theorem RelC02.plain_move {s : St} {ms : C02St} (hR : RelC02 s ms) {t : Nat} {a : TS} (b : TS) (s' : St)
    (hs' : s'.th = s.th.set t b) (hcx : s'.cx = s.cx) (hi' : Inv s')
    (ha : s.th[t]? = some a) (hnh : ∀ w, a ≠ TS.held w) (hnr : a.isRelInv = false)
    (hb0 : ∀ x, b ≠ TS.relInv x) (hb1 : b.isHeld = false) (hab : a.afterHeld = true → b.afterHeld = true)
    (ok : MoveOK ms s.cx t a b) : RelC02 s' ms := by
  refine ⟨hi', ?_, ?_, ?_, ?_, ?_⟩
  · rw [hs']; exact hR.rel2.move _ ha hnh hb0 hab
  · rw [hs']; exact Cover.move hR.cover _ ha hnr hb1
  · rw [hs', hcx]; exact hR.thr.move _ ha ok
  · intro p hp; rw [hs']; simpa using hR.mlt p hp
  · rw [hcx]; exact hR.cx

/-- **C02 (observable form): simulation step.** -/
theorem c02_sim_step (s : St) (e : Ev) (s' : St) (ms : C02St) (hR : RelC02 s ms)
    (hstep : step s e = some s') :
    match Ev.obs e with
    | none => RelC02 s' ms
    | some o => ∃ ms', monC02.step ms o = some ms' ∧ RelC02 s' ms' := by
  have hi := hR.inv
  have hi' := step_inv s e s' hi hstep
  cases e with
  | invLock t w =>
    simp only [step] at hstep; split at hstep <;> simp at hstep; subst hstep
    rename_i ht
    refine ⟨_, rfl, hi', rel2_append _ _ _ hR.rel2 (by intro x hx; cases hx), Cover.append hR.cover _ rfl, ?_, ?_, hR.cx⟩
    · constructor
      · intro u x w' hu hm
        rcases getElem?_snoc_cases _ _ _ _ hu with ⟨hlt, hu'⟩ | ⟨rfl, rfl⟩
        · have hne : t ≠ u := by omega
          rw [modeOf_cons_ne ms _ t u w rfl hne]; exact hR.thr.modes u x w' hu' hm
        · simp [TS.lockMode] at hm; subst hm; subst ht; exact modeOf_cons_eq ms _ _ _ rfl
      · intro u x hu hc
        rcases getElem?_snoc_cases _ _ _ _ hu with ⟨_, hu'⟩ | ⟨_, rfl⟩
        · exact hR.thr.cxst u x hu' hc
        · simp [TS.cancelSt] at hc
      · intro u hu
        obtain ⟨x, hx, hw, hp⟩ := hR.thr.ww u hu
        exact ⟨x, getElem?_snoc_left _ _ _ _ hx, hw, hp⟩
      · intro r u hm
        cases w
        · simp only [Bool.false_eq_true, if_false, List.mem_append, List.mem_map] at hm
          rcases hm with ⟨u', hu', he⟩ | hm
          · cases he
            refine ⟨hu', .lockInv false, ?_, rfl⟩
            subst ht; simp
          · obtain ⟨h1, x, hx, hr⟩ := hR.thr.bl r u hm
            exact ⟨h1, x, getElem?_snoc_left _ _ _ _ hx, hr⟩
        · simp only [if_true] at hm
          obtain ⟨h1, x, hx, hr⟩ := hR.thr.bl r u hm
          exact ⟨h1, x, getElem?_snoc_left _ _ _ _ hx, hr⟩
    · intro p hp
      simp at hp
      rcases hp with rfl | hp
      · simp [ht]
      · have := hR.mlt p hp; simp; omega
  | invTry t w =>
    simp only [step] at hstep; split at hstep <;> simp at hstep; subst hstep
    rename_i ht
    refine ⟨_, rfl, hi', rel2_append _ _ _ hR.rel2 (by intro x hx; cases hx), Cover.append hR.cover _ rfl, ?_, ?_, hR.cx⟩
    · constructor
      · intro u x w' hu hm
        rcases getElem?_snoc_cases _ _ _ _ hu with ⟨_, hu'⟩ | ⟨_, rfl⟩
        · exact hR.thr.modes u x w' hu' hm
        · simp [TS.lockMode] at hm
      · intro u x hu hc
        rcases getElem?_snoc_cases _ _ _ _ hu with ⟨_, hu'⟩ | ⟨_, rfl⟩
        · exact hR.thr.cxst u x hu' hc
        · simp [TS.cancelSt] at hc
      · intro u hu
        obtain ⟨x, hx, hw, hp⟩ := hR.thr.ww u hu
        exact ⟨x, getElem?_snoc_left _ _ _ _ hx, hw, hp⟩
      · intro r u hm
        cases w
        · simp only [Bool.false_eq_true, if_false, List.mem_append, List.mem_map] at hm
          rcases hm with ⟨u', hu', he⟩ | hm
          · cases he
            refine ⟨hu', .tryInv false, ?_, rfl⟩
            subst ht; simp
          · obtain ⟨h1, x, hx, hr⟩ := hR.thr.bl r u hm
            exact ⟨h1, x, getElem?_snoc_left _ _ _ _ hx, hr⟩
        · simp only [if_true] at hm
          obtain ⟨h1, x, hx, hr⟩ := hR.thr.bl r u hm
          exact ⟨h1, x, getElem?_snoc_left _ _ _ _ hx, hr⟩
    · intro p hp; have := hR.mlt p hp; simp; omega
  | lockCS t =>
    simp only [step] at hstep; split at hstep <;> simp at hstep; subst hstep
    rename_i w h
    refine ⟨hi', rel2_attempt s _ t w true _ hR.rel2 h (by intro w h; cases h) rfl,
      attempt_cover s _ t w true _ hR.cover h rfl, ?_, ?_, ?_⟩
    · rw [attempt_cx]; exact attempt_threl s ms t w true _ hi hR.thr h (Or.inl rfl)
    · intro p hp; rw [attempt_len]; exact hR.mlt p hp
    · rw [attempt_cx]; exact hR.cx
  | wakeCS t =>
    simp only [step] at hstep; split at hstep <;> simp at hstep
    obtain ⟨_, rfl⟩ := hstep; rename_i w c h _
    refine ⟨hi', rel2_attempt s _ t w false _ hR.rel2 h (by intro w h; cases h) rfl,
      attempt_cover s _ t w false _ hR.cover h rfl, ?_, ?_, ?_⟩
    · rw [attempt_cx]; exact attempt_threl s ms t w false _ hi hR.thr h (Or.inr ⟨c, rfl⟩)
    · intro p hp; rw [attempt_len]; exact hR.mlt p hp
    · rw [attempt_cx]; exact hR.cx
  | ctxTake t =>
    simp only [step] at hstep; split at hstep <;> simp at hstep
    obtain ⟨hcx, rfl⟩ := hstep; rename_i w c h
    refine hR.plain_move (.cancelling w) _ rfl rfl hi' h (by intro w h; cases h) rfl (by intro x hx; cases hx) rfl (by simp [TS.afterHeld]) ?_
    exact ⟨by intro w' hm; simpa [TS.lockMode] using hm, fun _ => Or.inr hcx,
           fun _ => Or.inr (Or.inl ⟨rfl, hcx⟩), by cases w <;> simp [TS.readerPending]⟩
  | cancelCS t =>
    simp only [step] at hstep; split at hstep <;> try simp at hstep
    rename_i w h
    have ok : MoveOK ms s.cx t (.cancelling w) .cancelled :=
      ⟨by intro w' hm; simp [TS.lockMode] at hm, fun _ => Or.inl rfl, by simp [TS.wwait], fun _ => Or.inl rfl⟩
    split at hstep <;> simp at hstep <;> subst hstep <;>
      exact hR.plain_move .cancelled _ rfl rfl hi' h (by intro w h; cases h) rfl (by intro x hx; cases hx) rfl (by simp [TS.afterHeld]) ok
  | retLock t r =>
    simp only [step] at hstep; split at hstep <;> simp at hstep
    · -- Lock returns the release function
      obtain ⟨rfl, rfl⟩ := hstep; rename_i w h
      have nobl : ∀ u, (t, u) ∉ (forgetCall ms t).blockers := by
        intro u hm
        simp only [forgetCall, List.mem_filter] at hm
        obtain ⟨_, x, hx, hr⟩ := hR.thr.bl t u hm.1
        rw [h] at hx; cases hx
        cases w <;> simp [TS.readerPending] at hr
      have hany : (forgetCall ms t).blockers.any (fun p => p.1 == t) = false := by
        rw [List.any_eq_false]
        intro p hp he
        have : p = (t, p.2) := by
          have : p.1 = t := by simpa using he
          rw [← this]
        rw [this] at hp; exact nobl _ hp
      refine ⟨{ forgetCall ms t with holders := (t, w) :: ms.holders }, ?_, hi', ?_, ?_, ?_, ?_, hR.cx⟩
      · have hany' : (ms.blockers.filter (fun p => p.2 != t)).any (fun p => p.1 == t) = false := hany
        simp [monC02, forgetCall, hany']
      · exact rel2_grant hR.rel2 w h (by intro w h; cases h) rfl
      · exact Cover.grant hR.cover w h rfl
      · refine ((hR.thr.forget t).move (.held w) h ?_).holders _
        exact ⟨by intro w' hm; simp [TS.lockMode] at hm, by simp [TS.cancelSt],
               fun _ => Or.inr (Or.inr (forget_not_ww ms t)),
               by cases w <;> simp [TS.readerPending]⟩
      · intro p hp; simp; exact hR.mlt p hp
    · -- Lock returns Canceled
      subst hstep; rename_i h
      have hc : ms.cancelled.contains t = true := by
        rw [hR.cx]; simpa using hR.thr.cxst t _ h rfl
      refine ⟨forgetCall ms t, ?_, hi', ?_, ?_, ?_, ?_, hR.cx⟩
      · have hc' : t ∈ ms.cancelled := by simpa using hc
        simp [monC02, forgetCall, hc']
      · exact hR.rel2.move _ h (by intro w h; cases h) (by intro x hx; cases hx) (by simp [TS.afterHeld])
      · exact Cover.move hR.cover _ h rfl rfl
      · exact (hR.thr.forget t).move .finished h
          ⟨by intro w' hm; simp [TS.lockMode] at hm, by simp [TS.cancelSt], by simp [TS.wwait], fun _ => Or.inl rfl⟩
      · intro p hp; simp; exact hR.mlt p hp
  | retTry t r =>
    simp only [step] at hstep; split at hstep <;> simp at hstep
    · obtain ⟨rfl, rfl⟩ := hstep; rename_i w h
      have hany : (!w && ms.blockers.any (fun p => p.1 == t)) = false := by
        cases w
        · simp only [Bool.not_false, Bool.true_and]
          rw [List.any_eq_false]
          intro p hp he
          have hpt : p = (t, p.2) := by
            have : p.1 = t := by simpa using he
            rw [← this]
          rw [hpt] at hp
          obtain ⟨_, x, hx, hr⟩ := hR.thr.bl t p.2 hp
          rw [h] at hx; cases hx
          simp [TS.readerPending] at hr
        · rfl
      refine ⟨{ ms with holders := (t, w) :: ms.holders }, ?_, hi', ?_, ?_, ?_, ?_, hR.cx⟩
      · simp only [monC02, hany]; rfl
      · exact rel2_grant hR.rel2 w h (by intro w h; cases h) rfl
      · exact Cover.grant hR.cover w h rfl
      · exact (hR.thr.move (.held w) h (MoveOK.plain _ _ _ _ _ rfl rfl rfl (Or.inl rfl))).holders _
      · intro p hp; simp; exact hR.mlt p hp
    · subst hstep; rename_i h
      exact ⟨ms, rfl, hR.plain_move .finished _ rfl rfl hi' h (by intro w h; cases h) rfl (by intro x hx; cases hx) rfl
        (by simp [TS.afterHeld]) (MoveOK.plain _ _ _ _ _ rfl rfl rfl (Or.inr rfl))⟩
  | tryCS t =>
    simp only [step] at hstep; split at hstep <;> try simp at hstep
    rename_i w h
    cases w with
    | true =>
      simp only [if_true] at hstep
      split at hstep <;> simp at hstep <;> subst hstep <;>
        exact hR.plain_move _ _ rfl rfl hi' h (by intro w h; cases h) rfl (by intro x hx; cases hx) rfl
          (by simp [TS.afterHeld]) (MoveOK.plain _ _ _ _ _ rfl rfl rfl (Or.inl rfl))
    | false =>
      simp only [Bool.false_eq_true, if_false] at hstep
      split at hstep <;> simp at hstep <;> subst hstep
      · -- a granted try-read has no blockers: no writer holds or waits
        rename_i hg
        have nb : ∀ u, (t, u) ∉ ms.blockers := by
          intro u hm
          rcases blocked_reader s ms hi hR.thr t u hm with h3 | h3
          · simp [h3] at hg
          · exact h3 hg.2
        exact hR.plain_move _ _ rfl rfl hi' h (by intro w h; cases h) rfl (by intro x hx; cases hx) rfl
          (by simp [TS.afterHeld])
          ⟨by intro w' hm; simp [TS.lockMode] at hm, by simp [TS.cancelSt], by simp [TS.wwait], fun _ => Or.inr nb⟩
      · exact hR.plain_move _ _ rfl rfl hi' h (by intro w h; cases h) rfl (by intro x hx; cases hx) rfl
          (by simp [TS.afterHeld]) (MoveOK.plain _ _ _ _ _ rfl rfl rfl (Or.inr rfl))
  | envCancel t =>
    simp only [step] at hstep; split at hstep <;> simp at hstep; subst hstep
    refine ⟨{ forgetCall ms t with cancelled := t :: ms.cancelled }, ?_, hi', hR.rel2, hR.cover, ?_, hR.mlt, ?_⟩
    · simp [monC02, forgetCall]
    · have h0 := hR.thr.forget t
      constructor
      · intro u x w hu hm; exact h0.modes u x w hu hm
      · intro u x hu hc; simp; exact Or.inr (h0.cxst u x hu hc)
      · intro u hu
        have hne : u ≠ t := by
          intro e; subst e; exact forget_not_ww ms u hu
        obtain ⟨x, hx, hw, hp⟩ := h0.ww u hu
        exact ⟨x, hx, hw, fun hpk => by simp; exact ⟨hne, hp hpk⟩⟩
      · intro r u hm; exact h0.bl r u hm
    · simp [hR.cx]
  | invRel c t =>
    simp only [step] at hstep; split at hstep <;> try simp at hstep
    rename_i hc
    have hsub : ∀ x, x ∈ ms.holders.filter (fun h => h.1 != t) → x ∈ ms.holders := by
      intro x hx; exact (List.mem_filter.mp hx).1
    have hnot : ∀ w, (t, w) ∉ ms.holders.filter (fun h => h.1 != t) := by
      intro w hm; have := (List.mem_filter.mp hm).2; simp at this
    have fin : ∀ (x : TS), s.th[t]? = some x → x.afterHeld = true →
        ∃ ms', monC02.step ms (.invRel c t) = some ms' ∧ RelC02 { s with th := s.th ++ [.relInv t] } ms' := by
      intro x hx hax
      have hi2 : Inv { s with th := s.th ++ [.relInv t] } :=
        inv_append s _ hi rfl rfl rfl (by intro w c h; cases h)
      refine ⟨{ ms with holders := ms.holders.filter (fun h => h.1 != t) }, rfl, hi2, ?_, ?_, ?_, ?_, hR.cx⟩
      · refine rel2_append _ _ _ (hR.rel2.subset hsub) ?_
        intro y hy; cases hy
        exact ⟨hnot, x, hx, hax⟩
      · intro u w hu
        rcases getElem?_snoc_cases _ _ _ _ hu with ⟨_, hu'⟩ | ⟨_, hy⟩
        · by_cases e : u = t
          · subst e
            exact Or.inr ⟨s.th.length, by simp⟩
          · rcases hR.cover u w hu' with h1 | ⟨c', hc'⟩
            · left; rw [List.mem_filter]; exact ⟨h1, by simpa using e⟩
            · exact Or.inr ⟨c', getElem?_snoc_left _ _ _ _ hc'⟩
        · cases hy
      · exact (hR.thr.append _ rfl rfl).holders _
      · intro p hp; have := hR.mlt p hp; simp; omega
    split at hstep <;> simp at hstep <;> subst hstep
    · rename_i w h; exact fin _ h rfl
    · rename_i w h; exact fin _ h rfl
    · rename_i h; exact fin _ h rfl
  | relSwap c =>
    simp only [step] at hstep; split at hstep <;> try simp at hstep
    rename_i t hc
    split at hstep <;> simp at hstep <;> subst hstep
    · rename_i w ht
      have hne : t ≠ c := by intro e; subst e; rw [hc] at ht; cases ht
      have hnot := (hR.rel2.rel c t hc).1
      have hc' : (s.th.set t (.releasing w))[c]? = some (.relInv t) := by
        rw [getElem?_set_ne' _ _ _ _ hne]; exact hc
      have r2 : Rel2 (s.th.set t (.releasing w)) ms.holders :=
        rel2_set _ _ t _ _ hR.rel2 ht (fun w' => Or.inl (hnot w')) (by intro x hx; cases hx) (by simp [TS.afterHeld])
      have cv : Cover (s.th.set t (.releasing w)) ms.holders := Cover.move hR.cover _ ht rfl rfl
      have tr : ThRel (s.th.set t (.releasing w)) s.cx ms :=
        hR.thr.move _ ht (MoveOK.plain _ _ _ _ _ rfl rfl rfl (Or.inl rfl))
      refine ⟨hi', r2.move _ hc' (by intro w h; cases h) (by intro x hx; cases hx) (by simp [TS.afterHeld]), ?_,
        tr.move _ hc' (MoveOK.plain _ _ _ _ _ rfl rfl rfl (Or.inl rfl)), ?_, hR.cx⟩
      · -- cover: the only held thread that relied on witness `c` was `t`, which is no longer held
        intro u w' hu
        rcases getElem?_set_cases _ _ _ _ _ hu with ⟨_, hx⟩ | ⟨hnec, hu1⟩
        · cases hx
        · rcases getElem?_set_cases _ _ _ _ _ hu1 with ⟨_, hx⟩ | ⟨hnet, hu2⟩
          · cases hx
          · rcases hR.cover u w' hu2 with h1 | ⟨c', hc2⟩
            · exact Or.inl h1
            · have h1 : c' ≠ c := by
                intro e; subst e; rw [hc] at hc2; cases hc2; exact hnet rfl
              have h2 : c' ≠ t := by
                intro e; subst e; rw [ht] at hc2; cases hc2
              refine Or.inr ⟨c', ?_⟩
              rw [getElem?_set_ne' _ _ _ _ (Ne.symm h1), getElem?_set_ne' _ _ _ _ (Ne.symm h2)]; exact hc2
      · intro p hp; simp; exact hR.mlt p hp
    · rename_i hnh
      refine ⟨hi', hR.rel2.move _ hc (by intro w h; cases h) (by intro x hx; cases hx) (by simp [TS.afterHeld]), ?_,
        hR.thr.move _ hc (MoveOK.plain _ _ _ _ _ rfl rfl rfl (Or.inl rfl)), ?_, hR.cx⟩
      · intro u w' hu
        rcases getElem?_set_cases _ _ _ _ _ hu with ⟨_, hx⟩ | ⟨hnec, hu1⟩
        · cases hx
        · rcases hR.cover u w' hu1 with h1 | ⟨c', hc2⟩
          · exact Or.inl h1
          · have h1 : c' ≠ c := by
              intro e; subst e; rw [hc] at hc2; cases hc2
              exact hnh w' hu1
            exact Or.inr ⟨c', by rw [getElem?_set_ne' _ _ _ _ (Ne.symm h1)]; exact hc2⟩
      · intro p hp; simp; exact hR.mlt p hp
  | relCS c =>
    simp only [step] at hstep; split at hstep <;> try simp at hstep
    rename_i t hc
    split at hstep <;> simp at hstep; subst hstep
    rename_i w ht
    have hne : t ≠ c := by intro e; subst e; rw [hc] at ht; cases ht
    have hc' : (s.th.set t .finished)[c]? = some (.relCS t) := by
      rw [getElem?_set_ne' _ _ _ _ hne]; exact hc
    have r2 : Rel2 (s.th.set t .finished) ms.holders :=
      hR.rel2.move _ ht (by intro w h; cases h) (by intro x hx; cases hx) (by simp [TS.afterHeld])
    have cv : Cover (s.th.set t .finished) ms.holders := Cover.move hR.cover _ ht rfl rfl
    have tr : ThRel (s.th.set t .finished) s.cx ms :=
      hR.thr.move _ ht (MoveOK.plain _ _ _ _ _ rfl rfl rfl (Or.inl rfl))
    exact ⟨hi', r2.move _ hc' (by intro w h; cases h) (by intro x hx; cases hx) (by simp [TS.afterHeld]),
      Cover.move cv _ hc' rfl rfl, tr.move _ hc' (MoveOK.plain _ _ _ _ _ rfl rfl rfl (Or.inl rfl)),
      by intro p hp; simp; exact hR.mlt p hp, hR.cx⟩
  | retRel c =>
    simp only [step] at hstep; split at hstep <;> simp at hstep; subst hstep
    rename_i h
    exact ⟨ms, rfl, hR.plain_move .finished _ rfl rfl hi' h (by intro w h; cases h) rfl (by intro x hx; cases hx) rfl
      (by simp [TS.afterHeld]) (MoveOK.plain _ _ _ _ _ rfl rfl rfl (Or.inl rfl))⟩
  | quiesce B =>
    simp only [step] at hstep; split at hstep <;> simp at hstep; subst hstep
    rename_i hq
    obtain ⟨hq1, rfl⟩ := hq
    exact quiesce_ok s ms hR hq1

/-- **C02 (observable form).** Every observable trace of the RWMutex model — for every number of
callers and every interleaving of critical sections, wake-ups, cancellations and releases — is
accepted by `monC02`: at every quiescence point no pending caller is grantable under its own rule
and no cancelled caller is still pending; `Lock` returns `Canceled` only if its context was
cancelled; a read acquire (`Lock(false)` or `TryLock(false)`) invoked while a writer was known to be
waiting is not granted before that writer returned or was cancelled. -/
theorem C02_obs_rw (es : List Ev) (s : St) (h : model.run model.init es = some s) :
    monC02.accepts (es.filterMap model.obs) = true :=
  monitor_accepts_of_simulation model monC02 RelC02 relC02_init
    (fun s e s' ms hR hs => by
      have h := c02_sim_step s e s' ms hR hs
      cases e <;> exact h) es s h

end UtilModel.CSync.RW
