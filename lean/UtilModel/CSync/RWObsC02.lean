import UtilModel.CSync.RWProps
/-!
# csync.RWMutex — C02 as an observable-history theorem

`C02_obs_rw`: every observable trace of the RWMutex model is accepted by the monitor `monC02`
(grantable waiters are granted at quiescence, cancelled waiters leave no trace and return
`Canceled` only if cancelled, writer preference). Proved by simulation (`monitor_of_simulation`).
-/
namespace UtilModel.CSync

/-- mode carried by a Lock call that has not finished its acquire -/
def TS.lockMode : TS → Option Bool
  | .lockInv w | .parked w _ | .granted w | .cancelling w => some w
  | _ => none

def TS.cancelSt : TS → Bool
  | .cancelling _ | .cancelled => true
  | _ => false

/-- a writer the monitor may still count as "known to be waiting": parked, or granted but not yet
returned -/
def TS.wwait : TS → Bool
  | .parked true _ | .granted true => true
  | _ => false

def TS.isParked : TS → Bool
  | .parked _ _ => true
  | _ => false

/-- a read acquire that has not been granted -/
def TS.readerPending : TS → Bool
  | .lockInv false | .parked false _ | .cancelling false | .cancelled | .finished => true
  | _ => false

def TS.isHeld : TS → Bool
  | .held _ => true
  | _ => false

def TS.isRelInv : TS → Bool
  | .relInv _ => true
  | _ => false

end UtilModel.CSync

namespace UtilModel.CSync.RW
open UtilModel UtilModel.CSync

/-- the part of the simulation relation that looks at the thread table only through single entries -/
structure ThRel (th : List TS) (cx : List Nat) (ms : C02St) : Prop where
  modes : ∀ (t : Nat) (x : TS) (w : Bool), th[t]? = some x → x.lockMode = some w → modeOf ms t = some w
  cxst  : ∀ (t : Nat) (x : TS), th[t]? = some x → x.cancelSt = true → t ∈ cx
  ww    : ∀ u, u ∈ ms.waitingW → ∃ x, th[u]? = some x ∧ x.wwait = true ∧ (x.isParked = true → u ∉ cx)
  bl    : ∀ r u, (r, u) ∈ ms.blockers → u ∈ ms.waitingW ∧ ∃ x, th[r]? = some x ∧ x.readerPending = true

structure RelC02 (s : St) (ms : C02St) : Prop where
  inv   : Inv s
  rel2  : Rel2 s.th ms.holders
  cover : ∀ (t : Nat) (w : Bool), s.th[t]? = some (TS.held w) →
            (t, w) ∈ ms.holders ∨ ∃ c : Nat, s.th[c]? = some (TS.relInv t)
  thr   : ThRel s.th s.cx ms
  mlt   : ∀ p, p ∈ ms.modes → p.1 < s.th.length
  cx    : ms.cancelled = s.cx

theorem modeOf_cons_ne (ms : C02St) (t u : Nat) (w : Bool) (h : t ≠ u) :
    modeOf { ms with modes := (t, w) :: ms.modes } u = modeOf ms u := by
  simp [modeOf, h]

theorem modeOf_cons_eq (ms : C02St) (t : Nat) (w : Bool) :
    modeOf { ms with modes := (t, w) :: ms.modes } t = some w := by
  simp [modeOf]

/-- side conditions under which moving thread `t` from `a` to `b` preserves `ThRel` -/
structure MoveOK (ms : C02St) (cx : List Nat) (t : Nat) (a b : TS) : Prop where
  mode   : ∀ w, b.lockMode = some w → a.lockMode = some w
  cancel : b.cancelSt = true → a.cancelSt = true ∨ t ∈ cx
  wwait  : a.wwait = true → (b.wwait = true ∧ (b.isParked = true → a.isParked = true)) ∨ (a.isParked = true ∧ t ∈ cx)
  rp     : a.readerPending = true → b.readerPending = true ∨ ∀ u, (t, u) ∉ ms.blockers

theorem ThRel.move {th : List TS} {cx : List Nat} {ms : C02St} (h : ThRel th cx ms) {t : Nat} {a : TS}
    (b : TS) (ha : th[t]? = some a) (ok : MoveOK ms cx t a b) : ThRel (th.set t b) cx ms := by
  have hlt := lt_of_getElem? ha
  constructor
  · intro u x w hu hm
    rcases getElem?_set_cases _ _ _ _ _ hu with ⟨rfl, rfl⟩ | ⟨_, hu'⟩
    · exact h.modes u a w ha (ok.mode w hm)
    · exact h.modes u x w hu' hm
  · intro u x hu hc
    rcases getElem?_set_cases _ _ _ _ _ hu with ⟨rfl, rfl⟩ | ⟨_, hu'⟩
    · rcases ok.cancel hc with h1 | h1
      · exact h.cxst u a ha h1
      · exact h1
    · exact h.cxst u x hu' hc
  · intro u hu
    obtain ⟨x, hx, hw, hp⟩ := h.ww u hu
    by_cases e : t = u
    · subst e
      rw [ha] at hx; cases hx
      rcases ok.wwait hw with ⟨h1, h2⟩ | ⟨h1, h2⟩
      · exact ⟨b, by simp [hlt], h1, fun hb => hp (h2 hb)⟩
      · exact absurd h2 (hp h1)
    · exact ⟨x, by rw [getElem?_set_ne' _ _ _ _ e]; exact hx, hw, hp⟩
  · intro r u hm
    obtain ⟨h1, x, hx, hr⟩ := h.bl r u hm
    refine ⟨h1, ?_⟩
    by_cases e : t = r
    · subst e
      rw [ha] at hx; cases hx
      rcases ok.rp hr with h2 | h2
      · exact ⟨b, by simp [hlt], h2⟩
      · exact absurd hm (h2 u)
    · exact ⟨x, by rw [getElem?_set_ne' _ _ _ _ e]; exact hx, hr⟩

/-- a move between states none of the relation's predicates look at -/
theorem MoveOK.plain (ms : C02St) (cx : List Nat) (t : Nat) (a b : TS)
    (hb1 : b.lockMode = none) (hb2 : b.cancelSt = false) (ha1 : a.wwait = false)
    (ha2 : a.readerPending = false ∨ b.readerPending = true) : MoveOK ms cx t a b where
  mode := by intro w h; rw [hb1] at h; cases h
  cancel := by intro h; rw [hb2] at h; cases h
  wwait := by intro h; rw [ha1] at h; cases h
  rp := by
    intro h
    rcases ha2 with h2 | h2
    · rw [h2] at h; cases h
    · exact Or.inl h2

/-- a new thread (whose id no monitor list mentions yet) -/
theorem ThRel.append {th : List TS} {cx : List Nat} {ms : C02St} (h : ThRel th cx ms) (b : TS)
    (hm : b.lockMode = none) (hc : b.cancelSt = false) : ThRel (th ++ [b]) cx ms := by
  constructor
  · intro u x w hu hmm
    rcases getElem?_snoc_cases _ _ _ _ hu with ⟨_, hu'⟩ | ⟨_, rfl⟩
    · exact h.modes u x w hu' hmm
    · rw [hm] at hmm; cases hmm
  · intro u x hu hcc
    rcases getElem?_snoc_cases _ _ _ _ hu with ⟨_, hu'⟩ | ⟨_, rfl⟩
    · exact h.cxst u x hu' hcc
    · rw [hc] at hcc; cases hcc
  · intro u hu
    obtain ⟨x, hx, hw, hp⟩ := h.ww u hu
    exact ⟨x, getElem?_snoc_left _ _ _ _ hx, hw, hp⟩
  · intro r u hmm
    obtain ⟨h1, x, hx, hr⟩ := h.bl r u hmm
    exact ⟨h1, x, getElem?_snoc_left _ _ _ _ hx, hr⟩

end UtilModel.CSync.RW
