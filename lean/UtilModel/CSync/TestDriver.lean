import UtilModel.Core.Driver
import UtilModel.CSync.Mutex
import UtilModel.CSync.RWMutex
import UtilModel.CSync.Monitors
/-! Development driver for this component only: `lake env lean --run UtilModel/CSync/TestDriver.lean csync-rw < hist` -/
open UtilModel

def main (args : List String) : IO UInt32 :=
  driverMain [
    mkEntry "csync-rw" CSync.RW.model CSync.Obs.parse [MonEntry.ofMonitor "C01" CSync.monC01, MonEntry.ofMonitor "C02" CSync.monC02],
    mkEntry "csync-mutex" CSync.Mx.model CSync.Obs.parse [MonEntry.ofMonitor "C01" CSync.monC01, MonEntry.ofMonitor "C02" CSync.monC02]
  ] args
