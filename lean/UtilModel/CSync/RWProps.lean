import UtilModel.CSync.RWProofs
import UtilModel.CSync.Monitors
/-!
# csync.RWMutex — property theorems (C01, C02)

Every theorem quantifies over **all** event lists `es`: every number of callers, every interleaving
of critical sections, status-word swaps, select decisions, cancellations and releases.
-/
namespace UtilModel.CSync.RW
open UtilModel UtilModel.CSync

/-- number of calls holding the lock in mode `w` (status word 1, or release swapped but its
critical section not yet run) -/
def holdersOf (s : St) (w : Bool) : Nat := s.th.countP (TS.holds w)

/-- **C01 (state form).** In every reachable state there is at most one write holder, and if there
is one there is no read holder. -/
theorem rw_exclusion (es : List Ev) (s : St) (h : model.run model.init es = some s) :
    holdersOf s true ≤ 1 ∧ (holdersOf s true = 1 → holdersOf s false = 0) := by
  have hi := reachable_inv es s h
  have w := hi.writers; have r := hi.readers; have ex := hi.excl
  unfold holdersOf
  constructor
  · rw [w]; split <;> omega
  · intro h1; rw [w] at h1
    split at h1
    · rename_i hw; rw [← r]; exact ex hw
    · omega

/-- **C01: a repeated release changes nothing.** A release call that finds the status word already
swapped (`relSwap` on a target that is not `held`) leaves all shared variables and every other
thread untouched. -/
theorem release_idem (s s' : St) (c t : Nat) (hc : s.th[c]? = some (.relInv t))
    (hnot : ∀ w, s.th[t]? ≠ some (.held w)) (hs : step s (.relSwap c) = some s') :
    s' = { s with th := s.th.set c .relDone } := by
  simp only [step, hc] at hs
  simpa using hs.symm

/-- **C01: a failed Lock / TryLock has no effect on who holds the lock.** The events by which a
call fails (`ctxTake`, `cancelCS`, a failing `tryCS`) never change the holder counts. -/
theorem failed_noeffect (s s' : St) (t : Nat)
    (hs : step s (.ctxTake t) = some s' ∨ step s (.cancelCS t) = some s' ∨
          (step s (.tryCS t) = some s' ∧ s'.th[t]? = some .tryFailed)) :
    holdersOf s' true = holdersOf s true ∧ holdersOf s' false = holdersOf s false ∧
    s'.nreaders = s.nreaders ∧ s'.writing = s.writing := by
  have key : ∀ (a b : TS), s.th[t]? = some a → a.holds true = false → a.holds false = false →
      b.holds true = false → b.holds false = false →
      (s.th.set t b).countP (TS.holds true) = s.th.countP (TS.holds true) ∧
      (s.th.set t b).countP (TS.holds false) = s.th.countP (TS.holds false) := by
    intro a b ha h1 h2 h3 h4
    obtain ⟨c1, c2, _⟩ := counts_set s.th t a b ha
    simp [h1, h2, h3, h4] at c1 c2
    exact ⟨c2, c1⟩
  unfold holdersOf
  rcases hs with hs | hs | ⟨hs, hf⟩
  · simp only [step] at hs; split at hs <;> simp at hs
    obtain ⟨_, rfl⟩ := hs; rename_i w c h _
    have := key _ (.cancelling w) h rfl rfl rfl rfl
    exact ⟨this.1, this.2, rfl, rfl⟩
  · simp only [step] at hs; split at hs <;> try simp at hs
    rename_i w h
    have := key _ .cancelled h rfl rfl rfl rfl
    split at hs <;> simp at hs <;> subst hs <;> exact ⟨this.1, this.2, rfl, rfl⟩
  · simp only [step] at hs; split at hs <;> try simp at hs
    rename_i w h
    have hlt := lt_of_getElem? h
    have := key _ .tryFailed h rfl rfl rfl rfl
    split at hs
    · split at hs <;> simp at hs <;> subst hs
      · exact ⟨this.1, this.2, rfl, rfl⟩
      · simp [hlt] at hf
    · split at hs <;> simp at hs <;> subst hs
      · simp [hlt] at hf
      · exact ⟨this.1, this.2, rfl, rfl⟩

/-- **C02 (no lost wake-up).** In every reachable state, a caller parked on a still-open wait
channel is *not* grantable under its own rule: a waiting writer sees a holder, a waiting reader
sees a writer holding or waiting. -/
theorem parked_blocked (es : List Ev) (s : St) (h : model.run model.init es = some s)
    (t : Nat) (w : Bool) (c : Nat) (ht : s.th[t]? = some (.parked w c))
    (hopen : s.bc.closed c = false) : blocked s w :=
  ((reachable_inv es s h).parked t w c ht).2 hopen

/-- **C02 (grantable ⇒ its own next step grants it).** If the lock is grantable to a parked caller
under its own rule, that caller's re-check critical section is enabled *now* and leaves it holding
the lock — no other acquire or release is needed. -/
theorem grantable_enabled (es : List Ev) (s : St) (h : model.run model.init es = some s)
    (t : Nat) (w : Bool) (c : Nat) (ht : s.th[t]? = some (.parked w c)) (hg : ¬ blocked s w) :
    ∃ s', step s (.wakeCS t) = some s' ∧ s'.th[t]? = some (.granted w) := by
  have hcl : s.bc.closed c = true := by
    cases hcl : s.bc.closed c
    · exact absurd (parked_blocked es s h t w c ht hcl) hg
    · rfl
  have hlt := lt_of_getElem? ht
  refine ⟨attempt s t w false, by simp [step, ht, hcl], ?_⟩
  unfold blocked at hg
  unfold attempt
  cases w
  · simp at hg
    simp [hg.1, hg.2, hlt]
  · simp at hg
    simp [hg.1, hg.2, hlt]

/-- **C02 (quiescence).** When nothing can take a step any more (`quiesce` is enabled), no pending
caller is grantable. -/
theorem quiescent_not_grantable (es : List Ev) (s : St) (h : model.run model.init es = some s)
    (hq : quiescent s = true) (t : Nat) (w : Bool) (c : Nat) (ht : s.th[t]? = some (.parked w c)) :
    blocked s w := by
  have hlt := lt_of_getElem? ht
  unfold quiescent at hq
  rw [List.all_eq_true] at hq
  have := hq t (by simp [hlt])
  simp only [ht, TS.quiet] at this
  simp at this
  exact parked_blocked es s h t w c ht this.1

/-- **C02 (a cancelled waiter leaves no trace).** After the critical section in which a cancelled
waiter undoes its registration, the shared variables are exactly what the remaining threads
account for (`Inv`), i.e. as if the call had never been made; and the waiters that were queued
behind a cancelled writer are woken (every previously handed-out channel is closed). -/
theorem cancel_no_trace (es : List Ev) (s s' : St) (h : model.run model.init es = some s) (t : Nat)
    (hs : step s (.cancelCS t) = some s') :
    Inv s' ∧ s'.th[t]? = some .cancelled ∧
    (s.th[t]? = some (.cancelling true) → ∀ c, c < s.bc.next → s'.bc.closed c = true) := by
  have hi := reachable_inv es s h
  refine ⟨step_inv s _ s' hi hs, ?_, ?_⟩
  · simp only [step] at hs; split at hs <;> try simp at hs
    rename_i w ht
    have hlt := lt_of_getElem? ht
    split at hs <;> simp at hs <;> subst hs <;> simp [hlt]
  · intro ht c hc
    simp only [step, ht] at hs
    simp at hs; subst hs
    exact (Bcast.broadcast_spec s.bc).2.2.2.1 c hc

/-- **C02 (writer preference).** A reader whose critical section runs while a writer is waiting is
not granted in that section; whenever a reader is granted, no writer is waiting or holding. -/
theorem writer_pref (s : St) (t : Nat) (first : Bool) (hww : s.writeWaiting ≠ 0 ∨ s.writing = true)
    (hlt : t < s.th.length) :
    ∃ c, (attempt s t false first).th[t]? = some (.parked false c) := by
  unfold attempt
  have : ¬ ((!s.writing) = true ∧ s.writeWaiting = 0) := by
    rcases hww with h | h
    · intro ⟨_, h2⟩; exact h h2
    · intro ⟨h1, _⟩; simp [h] at h1
  simp only [Bool.false_eq_true, if_false, this]
  exact ⟨s.bc.getWaitCh.2, by simp [hlt]⟩

/-! ### C01 as an observable-history theorem -/

end UtilModel.CSync.RW

namespace UtilModel.CSync.RW
open UtilModel UtilModel.CSync

/-- second half of the C01 simulation relation: monitor holders are `held` threads of the model;
a pending release call never targets a monitor holder (the monitor dropped it at `inv release`) -/
structure Rel2 (th : List TS) (hs : Holders) : Prop where
  held : ∀ (t : Nat) (w : Bool), (t, w) ∈ hs → th[t]? = some (TS.held w)
  rel  : ∀ (c t : Nat), th[c]? = some (TS.relInv t) →
           (∀ w, (t, w) ∉ hs) ∧ ∃ x, th[t]? = some x ∧ x.afterHeld = true

theorem rel2_set (th : List TS) (hs : Holders) (t : Nat) (a b : TS) (h : Rel2 th hs)
    (ha : th[t]? = some a) (hnh : ∀ w, (t, w) ∉ hs ∨ b = TS.held w)
    (hb : ∀ x, b ≠ TS.relInv x) (hab : a.afterHeld = true → b.afterHeld = true) :
    Rel2 (th.set t b) hs := by
  have hlt := lt_of_getElem? ha
  constructor
  · intro u w hm
    by_cases hu : t = u
    · subst hu
      rcases hnh w with h1 | h1
      · exact absurd hm h1
      · simp [hlt, h1]
    · rw [getElem?_set_ne' _ _ _ _ hu]; exact h.held u w hm
  · intro c u hc
    have hct : t ≠ c := by
      intro e; subst e; simp [hlt] at hc; exact hb u hc
    rw [getElem?_set_ne' _ _ _ _ hct] at hc
    obtain ⟨h1, x, hx, hxa⟩ := h.rel c u hc
    refine ⟨h1, ?_⟩
    by_cases hu : t = u
    · subst hu
      refine ⟨b, by simp [hlt], hab ?_⟩
      rw [ha] at hx; cases hx; exact hxa
    · exact ⟨x, by rw [getElem?_set_ne' _ _ _ _ hu]; exact hx, hxa⟩

theorem rel2_append (th : List TS) (hs : Holders) (b : TS) (h : Rel2 th hs)
    (hb : ∀ x, b = TS.relInv x → (∀ w, (x, w) ∉ hs) ∧ ∃ y, th[x]? = some y ∧ y.afterHeld = true) :
    Rel2 (th ++ [b]) hs := by
  constructor
  · intro u w hm
    exact getElem?_snoc_left _ _ _ _ (h.held u w hm)
  · intro c u hc
    rcases getElem?_snoc_cases _ _ _ _ hc with ⟨_, hc'⟩ | ⟨_, hc'⟩
    · obtain ⟨h1, x, hx, hxa⟩ := h.rel c u hc'
      exact ⟨h1, x, getElem?_snoc_left _ _ _ _ hx, hxa⟩
    · obtain ⟨h1, y, hy, hya⟩ := hb u hc'.symm
      exact ⟨h1, y, getElem?_snoc_left _ _ _ _ hy, hya⟩

end UtilModel.CSync.RW

namespace UtilModel.CSync.RW
open UtilModel UtilModel.CSync

theorem Rel2.not_holder {th : List TS} {hs : Holders} (h : Rel2 th hs) {t : Nat} {a : TS}
    (ha : th[t]? = some a) (hne : ∀ w, a ≠ TS.held w) : ∀ w, (t, w) ∉ hs := by
  intro w hm
  have := h.held t w hm
  rw [ha] at this; cases this; exact hne w rfl

/-- an internal move of a thread that is not `held` and does not become a release call -/
theorem Rel2.move {th : List TS} {hs : Holders} (h : Rel2 th hs) {t : Nat} {a : TS} (b : TS)
    (ha : th[t]? = some a) (hne : ∀ w, a ≠ TS.held w) (hb : ∀ x, b ≠ TS.relInv x)
    (hab : a.afterHeld = true → b.afterHeld = true) : Rel2 (th.set t b) hs :=
  rel2_set th hs t a b h ha (fun w => Or.inl (h.not_holder ha hne w)) hb hab

theorem Rel2.subset {th : List TS} {hs hs' : Holders} (h : Rel2 th hs) (hsub : ∀ x, x ∈ hs' → x ∈ hs) :
    Rel2 th hs' :=
  ⟨fun t w hm => h.held t w (hsub _ hm), fun c t hc =>
    ⟨fun w hm => (h.rel c t hc).1 w (hsub _ hm), (h.rel c t hc).2⟩⟩

theorem rel2_attempt (s : St) (hs : Holders) (t : Nat) (w first : Bool) (a : TS)
    (h : Rel2 s.th hs) (ha : s.th[t]? = some a) (hne : ∀ w, a ≠ TS.held w)
    (hah : a.afterHeld = false) : Rel2 (attempt s t w first).th hs := by
  unfold attempt
  split <;> split <;> exact h.move _ ha hne (by intro x hx; cases hx) (by simp [hah])

/-- relation between model states and states of the C01 monitor -/
def RelC01 (s : St) (hs : Holders) : Prop := Inv s ∧ Rel2 s.th hs

theorem compatible_of_granted (s : St) (hs : Holders) (t : Nat) (w : Bool) (hR : RelC01 s hs)
    (ht : TS.holds w <$> s.th[t]? = some true) (hnh : ∀ w', s.th[t]? ≠ some (.held w')) :
    compatible hs w = true := by
  obtain ⟨hi, hR2⟩ := hR
  have hh := hR2.held
  have wq := hi.writers; have r := hi.readers; have ex := hi.excl
  cases hta : s.th[t]? with
  | none => simp [hta] at ht
  | some a =>
    simp [hta] at ht
    unfold compatible
    cases w
    · -- reader granted: no write holder
      simp only [Bool.false_eq_true, if_false, List.all_eq_true]
      intro ⟨u, w'⟩ hm
      cases w'
      · simp
      · exfalso
        have hu := hh u true hm
        have hwr : s.writing = true := by
          have : 0 < s.th.countP (TS.holds true) := countP_pos_of_getElem? _ _ _ _ hu (by simp)
          rw [wq] at this; split at this <;> simp_all
        have : 0 < s.th.countP (TS.holds false) := countP_pos_of_getElem? _ _ _ _ hta ht
        have := ex hwr; omega
    · -- writer granted: no holder at all
      simp only [if_true]
      cases hs with
      | nil => rfl
      | cons x xs =>
        exfalso
        obtain ⟨u, w'⟩ := x
        have hu := hh u w' (by simp)
        have hne : t ≠ u := by
          intro e; subst e; exact hnh w' hu
        cases w'
        · have hwr : s.writing = true := by
            have : 0 < s.th.countP (TS.holds true) := countP_pos_of_getElem? _ _ _ _ hta ht
            rw [wq] at this; split at this <;> simp_all
          have : 0 < s.th.countP (TS.holds false) := countP_pos_of_getElem? _ _ _ _ hu (by simp)
          have := ex hwr; omega
        · have := countP_ge_two (TS.holds true) s.th t u _ _ hne hta hu ht (by simp)
          rw [wq] at this; split at this <;> omega


/-- **C01 (observable form): simulation step.** -/
theorem c01_sim_step (s : St) (e : Ev) (s' : St) (hs : Holders) (hR : RelC01 s hs)
    (hstep : step s e = some s') :
    match Ev.obs e with
    | none => RelC01 s' hs
    | some o => ∃ hs', monC01.step hs o = some hs' ∧ RelC01 s' hs' := by
  obtain ⟨hi, h2⟩ := hR
  have hi' := step_inv s e s' hi hstep
  cases e with
  | invLock t w =>
    simp only [step] at hstep; split at hstep <;> simp at hstep; subst hstep
    exact ⟨_, rfl, hi', rel2_append _ _ _ h2 (by intro x hx; cases hx)⟩
  | invTry t w =>
    simp only [step] at hstep; split at hstep <;> simp at hstep; subst hstep
    exact ⟨_, rfl, hi', rel2_append _ _ _ h2 (by intro x hx; cases hx)⟩
  | lockCS t =>
    simp only [step] at hstep; split at hstep <;> simp at hstep; subst hstep
    rename_i w h
    exact ⟨hi', rel2_attempt s hs t w true _ h2 h (by intro w h; cases h) rfl⟩
  | wakeCS t =>
    simp only [step] at hstep; split at hstep <;> simp at hstep
    obtain ⟨_, rfl⟩ := hstep; rename_i w c h _
    exact ⟨hi', rel2_attempt s hs t w false _ h2 h (by intro w h; cases h) rfl⟩
  | ctxTake t =>
    simp only [step] at hstep; split at hstep <;> simp at hstep
    obtain ⟨_, rfl⟩ := hstep; rename_i w c h _
    exact ⟨hi', h2.move _ h (by intro w h; cases h) (by intro x hx; cases hx) (by simp [TS.afterHeld])⟩
  | cancelCS t =>
    simp only [step] at hstep; split at hstep <;> try simp at hstep
    rename_i w h
    split at hstep <;> simp at hstep <;> subst hstep <;>
      exact ⟨hi', h2.move _ h (by intro w h; cases h) (by intro x hx; cases hx) (by simp [TS.afterHeld])⟩
  | retLock t r =>
    simp only [step] at hstep; split at hstep <;> simp at hstep
    · obtain ⟨rfl, rfl⟩ := hstep; rename_i w h
      have hc := compatible_of_granted s hs t w ⟨hi, h2⟩ (by simp [h]) (by intro w' h'; rw [h] at h'; cases h')
      refine ⟨(t, w) :: hs, by simp [monC01, hc], hi', ?_⟩
      have hno := h2.not_holder h (by intro w h; cases h)
      have hlt := lt_of_getElem? h
      constructor
      · intro u w' hm
        simp at hm
        rcases hm with ⟨rfl, rfl⟩ | hm
        · simp [hlt]
        · have hne : t ≠ u := by intro e; subst e; exact hno w' hm
          rw [getElem?_set_ne' _ _ _ _ hne]; exact h2.held u w' hm
      · intro c u hc'
        have hct : t ≠ c := by intro e; subst e; simp [hlt] at hc'
        rw [getElem?_set_ne' _ _ _ _ hct] at hc'
        obtain ⟨h1, x, hx, hxa⟩ := h2.rel c u hc'
        have hut : t ≠ u := by intro e; subst e; rw [h] at hx; cases hx; simp [TS.afterHeld] at hxa
        refine ⟨?_, x, by rw [getElem?_set_ne' _ _ _ _ hut]; exact hx, hxa⟩
        intro w' hm; simp at hm
        rcases hm with ⟨rfl, _⟩ | hm
        · exact hut rfl
        · exact h1 w' hm
    · subst hstep; rename_i h
      exact ⟨hs, rfl, hi', h2.move _ h (by intro w h; cases h) (by intro x hx; cases hx) (by simp [TS.afterHeld])⟩
  | retTry t r =>
    simp only [step] at hstep; split at hstep <;> simp at hstep
    · obtain ⟨rfl, rfl⟩ := hstep; rename_i w h
      have hc := compatible_of_granted s hs t w ⟨hi, h2⟩ (by simp [h]) (by intro w' h'; rw [h] at h'; cases h')
      refine ⟨(t, w) :: hs, by simp [monC01, hc], hi', ?_⟩
      have hno := h2.not_holder h (by intro w h; cases h)
      have hlt := lt_of_getElem? h
      constructor
      · intro u w' hm
        simp at hm
        rcases hm with ⟨rfl, rfl⟩ | hm
        · simp [hlt]
        · have hne : t ≠ u := by intro e; subst e; exact hno w' hm
          rw [getElem?_set_ne' _ _ _ _ hne]; exact h2.held u w' hm
      · intro c u hc'
        have hct : t ≠ c := by intro e; subst e; simp [hlt] at hc'
        rw [getElem?_set_ne' _ _ _ _ hct] at hc'
        obtain ⟨h1, x, hx, hxa⟩ := h2.rel c u hc'
        have hut : t ≠ u := by intro e; subst e; rw [h] at hx; cases hx; simp [TS.afterHeld] at hxa
        refine ⟨?_, x, by rw [getElem?_set_ne' _ _ _ _ hut]; exact hx, hxa⟩
        intro w' hm; simp at hm
        rcases hm with ⟨rfl, _⟩ | hm
        · exact hut rfl
        · exact h1 w' hm
    · subst hstep; rename_i h
      exact ⟨hs, rfl, hi', h2.move _ h (by intro w h; cases h) (by intro x hx; cases hx) (by simp [TS.afterHeld])⟩
  | tryCS t =>
    simp only [step] at hstep; split at hstep <;> try simp at hstep
    rename_i w h
    split at hstep <;> split at hstep <;> simp at hstep <;> subst hstep <;>
      exact ⟨hi', h2.move _ h (by intro w h; cases h) (by intro x hx; cases hx) (by simp [TS.afterHeld])⟩
  | envCancel t =>
    simp only [step] at hstep; split at hstep <;> simp at hstep; subst hstep
    exact ⟨hs, rfl, hi', h2⟩
  | invRel c t =>
    simp only [step] at hstep; split at hstep <;> try simp at hstep
    have hsub : ∀ x, x ∈ hs.filter (fun h => h.1 != t) → x ∈ hs := by
      intro x hx; exact (List.mem_filter.mp hx).1
    have hnot : ∀ w, (t, w) ∉ hs.filter (fun h => h.1 != t) := by
      intro w hm; have := (List.mem_filter.mp hm).2; simp at this
    split at hstep <;> simp at hstep <;> subst hstep
    all_goals
      rename_i h
      refine ⟨_, rfl, hi', rel2_append _ _ _ (h2.subset hsub) ?_⟩
      intro x hx; cases hx
      exact ⟨hnot, _, h, rfl⟩
  | relSwap c =>
    simp only [step] at hstep; split at hstep <;> try simp at hstep
    rename_i t hc
    split at hstep <;> simp at hstep <;> subst hstep
    · rename_i w ht
      have hne : t ≠ c := by intro e; subst e; rw [hc] at ht; cases ht
      have hnot := (h2.rel c t hc).1
      have h3 : Rel2 (s.th.set t (.releasing w)) hs :=
        rel2_set _ _ t _ _ h2 ht (fun w' => Or.inl (hnot w')) (by intro x hx; cases hx) (by simp [TS.afterHeld])
      have hc' : (s.th.set t (.releasing w))[c]? = some (.relInv t) := by
        rw [getElem?_set_ne' _ _ _ _ hne]; exact hc
      exact ⟨hi', h3.move _ hc' (by intro w h; cases h) (by intro x hx; cases hx) (by simp [TS.afterHeld])⟩
    · exact ⟨hi', h2.move _ hc (by intro w h; cases h) (by intro x hx; cases hx) (by simp [TS.afterHeld])⟩
  | relCS c =>
    simp only [step] at hstep; split at hstep <;> try simp at hstep
    rename_i t hc
    split at hstep <;> simp at hstep; subst hstep
    rename_i w ht
    have hne : t ≠ c := by intro e; subst e; rw [hc] at ht; cases ht
    have h3 : Rel2 (s.th.set t .finished) hs :=
      h2.move _ ht (by intro w h; cases h) (by intro x hx; cases hx) (by simp [TS.afterHeld])
    have hc' : (s.th.set t .finished)[c]? = some (.relCS t) := by
      rw [getElem?_set_ne' _ _ _ _ hne]; exact hc
    exact ⟨hi', h3.move _ hc' (by intro w h; cases h) (by intro x hx; cases hx) (by simp [TS.afterHeld])⟩
  | retRel c =>
    simp only [step] at hstep; split at hstep <;> simp at hstep; subst hstep
    rename_i h
    exact ⟨hs, rfl, hi', h2.move _ h (by intro w h; cases h) (by intro x hx; cases hx) (by simp [TS.afterHeld])⟩
  | quiesce B =>
    simp only [step] at hstep; split at hstep <;> simp at hstep; subst hstep
    exact ⟨hs, rfl, hi, h2⟩

end UtilModel.CSync.RW

namespace UtilModel.CSync.RW
open UtilModel UtilModel.CSync

/-- **C01 (observable form).** Every observable trace of the RWMutex model — for every number of
callers and every interleaving — is accepted by the exclusion monitor `monC01`: whenever a
Lock/TryLock returns successfully, the set of callers that hold the lock (returned successfully and
have not yet called their release function) is compatible with the new holder. -/
theorem C01_obs_rw (es : List Ev) (s : St) (h : model.run model.init es = some s) :
    monC01.accepts (es.filterMap model.obs) = true :=
  monitor_accepts_of_simulation model monC01 RelC01
    ⟨init_inv, ⟨by intro t w hm; simp [monC01] at hm, by intro c t hc; simp [model] at hc⟩⟩
    (fun s e s' ms hR hs => by
      have h := c01_sim_step s e s' ms hR hs
      cases e <;> exact h) es s h

end UtilModel.CSync.RW
