import UtilModel.CSync.Types
/-!
# csync.RWMutex — model (csync/rwmutex.go)

Every event is one atomic action of the code: one `HoldLock` critical section, one atomic swap of
the status word, one `select` decision, one invocation/response. Any number of calls; a schedule is
the order of events in the list.
-/
namespace UtilModel.CSync.RW
open UtilModel UtilModel.CSync

structure St where
  nreaders : Nat := 0
  writing : Bool := false
  writeWaiting : Nat := 0
  bc : Bcast := {}
  th : List TS := []
  cx : List Nat := []      -- calls whose context has been cancelled
deriving DecidableEq, Repr, Hashable

/-- the decision taken in the first and in every re-check critical section of `Lock`
(rwmutex.go:37-52 and 92-107); `first` distinguishes the writer's `writeWaiting++` (first section,
when it has to wait) from `writeWaiting--` (re-check, when it is granted). -/
def attempt (s : St) (t : Nat) (w first : Bool) : St :=
  if w then
    if s.nreaders ≠ 0 ∨ s.writing then
      { s with writeWaiting := if first then s.writeWaiting + 1 else s.writeWaiting
               bc := s.bc.getWaitCh.1, th := s.th.set t (.parked true s.bc.getWaitCh.2) }
    else
      { s with writing := true, writeWaiting := if first then s.writeWaiting else s.writeWaiting - 1
               th := s.th.set t (.granted true) }
  else if !s.writing ∧ s.writeWaiting = 0 then
    { s with nreaders := s.nreaders + 1, th := s.th.set t (.granted false) }
  else
    { s with bc := s.bc.getWaitCh.1, th := s.th.set t (.parked false s.bc.getWaitCh.2) }

/-- a thread that still has an enabled internal or response step, or is blocked for good -/
def TS.quiet (s : St) (t : Nat) : TS → Bool
  | .parked _ ch => !s.bc.closed ch && !s.cx.contains t
  | .held _ | .finished => true
  | _ => false

def pendingIds (s : St) : List Nat :=
  (List.range s.th.length).filter fun t => match s.th[t]? with
    | some (.parked _ _) => true
    | _ => false

def quiescent (s : St) : Bool :=
  (List.range s.th.length).all fun t => match s.th[t]? with
    | some ts => TS.quiet s t ts
    | none => true

def step (s : St) : Ev → Option St
  | .invLock t w => if t = s.th.length then some { s with th := s.th ++ [.lockInv w] } else none
  | .lockCS t =>
    match s.th[t]? with
    | some (.lockInv w) => some (attempt s t w true)
    | _ => none
  | .wakeCS t =>
    match s.th[t]? with
    | some (.parked w c) => if s.bc.closed c then some (attempt s t w false) else none
    | _ => none
  | .ctxTake t =>
    match s.th[t]? with
    | some (.parked w _) => if s.cx.contains t then some { s with th := s.th.set t (.cancelling w) } else none
    | _ => none
  | .cancelCS t =>
    match s.th[t]? with
    | some (.cancelling w) =>
      if w then some { s with writeWaiting := s.writeWaiting - 1, bc := s.bc.broadcast,
                              th := s.th.set t .cancelled }
      else some { s with th := s.th.set t .cancelled }
    | _ => none
  | .retLock t r =>
    match s.th[t]?, r with
    | some (.granted w), some w' => if w = w' then some { s with th := s.th.set t (.held w) } else none
    | some .cancelled, none => some { s with th := s.th.set t .finished }
    | _, _ => none
  | .invTry t w => if t = s.th.length then some { s with th := s.th ++ [.tryInv w] } else none
  | .tryCS t =>
    match s.th[t]? with
    | some (.tryInv w) =>
      if w then
        if s.nreaders ≠ 0 ∨ s.writing then some { s with th := s.th.set t .tryFailed }
        else some { s with writing := true, th := s.th.set t (.tryGranted true) }
      else if !s.writing ∧ s.writeWaiting = 0 then
        some { s with nreaders := s.nreaders + 1, th := s.th.set t (.tryGranted false) }
      else some { s with th := s.th.set t .tryFailed }
    | _ => none
  | .retTry t r =>
    match s.th[t]?, r with
    | some (.tryGranted w), some w' => if w = w' then some { s with th := s.th.set t (.held w) } else none
    | some .tryFailed, none => some { s with th := s.th.set t .finished }
    | _, _ => none
  | .envCancel t => if t < s.th.length then some { s with cx := t :: s.cx } else none
  | .invRel c t =>
    if c = s.th.length then
      match s.th[t]? with
      | some (.held _) | some (.releasing _) | some .finished => some { s with th := s.th ++ [.relInv t] }
      | _ => none
    else none
  | .relSwap c =>
    match s.th[c]? with
    | some (.relInv t) =>
      match s.th[t]? with
      | some (.held w) => some { s with th := (s.th.set t (.releasing w)).set c (.relCS t) }
      | _ => some { s with th := s.th.set c .relDone }
    | _ => none
  | .relCS c =>
    match s.th[c]? with
    | some (.relCS t) =>
      match s.th[t]? with
      | some (.releasing w) =>
        some { s with writing := if w then false else s.writing
                      nreaders := if w then s.nreaders else s.nreaders - 1
                      bc := s.bc.broadcast
                      th := (s.th.set t .finished).set c .relDone }
      | _ => none
    | _ => none
  | .retRel c =>
    match s.th[c]? with
    | some .relDone => some { s with th := s.th.set c .finished }
    | _ => none
  | .quiesce B => if quiescent s ∧ B = pendingIds s then some s else none

def model : OLTS St Ev Obs where
  init := {}
  step := step
  obs := Ev.obs
  cands := fun s => internalCands s.th
  evsOf := fun _ o => [o.ev]

end UtilModel.CSync.RW
