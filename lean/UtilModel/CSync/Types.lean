import UtilModel.Core.LTS
import UtilModel.Core.Bcast
import UtilModel.Core.Count
/-!
# csync: shared vocabulary of the `Mutex` and `RWMutex` models

One *thread* = one API call (`Lock`, `TryLock`, or one invocation of a release function), numbered
in invocation order by the harness. The thread state *is* the per-call status word of the code
(`status` 0/1/2 in `Lock`, `unlocked` in `TryLock`) together with the program counter.
-/
namespace UtilModel.CSync

/-- per-call state -/
inductive TS where
  | lockInv (w : Bool)            -- Lock invoked; first critical section not yet run
  | parked (w : Bool) (ch : Nat)  -- status 0; blocked in the select on wait channel `ch`
  | granted (w : Bool)            -- status 1; Lock has not returned yet
  | cancelling (w : Bool)         -- took the ctx.Done branch: status swapped 0→2, release CS pending
  | cancelled                     -- Lock is about to return context.Canceled
  | held (w : Bool)               -- Lock/TryLock returned the release function; status 1
  | releasing (w : Bool)          -- a release call swapped status 1→2; its critical section is pending
  | finished                      -- released, or returned Canceled/false, or release call returned
  | tryInv (w : Bool)             -- TryLock invoked
  | tryGranted (w : Bool)         -- TryLock succeeded in its critical section, not yet returned
  | tryFailed                     -- TryLock failed in its critical section, not yet returned
  | relInv (target : Nat)         -- release function of call `target` invoked; swap not done yet
  | relCS (target : Nat)          -- this release call won the swap; critical section pending
  | relDone                       -- release call about to return
deriving DecidableEq, Repr, Inhabited, Hashable

/-- observable events: exactly what the harness logs -/
inductive Obs where
  | invLock (t : Nat) (w : Bool)      -- `inv t lock w|r`
  | retLock (t : Nat) (r : Option Bool) -- `ret t lock ok w|r` (some mode) / `ret t lock canceled` (none)
  | invTry (t : Nat) (w : Bool)       -- `inv t trylock w|r`
  | retTry (t : Nat) (r : Option Bool)  -- `ret t trylock true w|r` / `ret t trylock false`
  | envCancel (t : Nat)               -- `env cancel t`   (context of call t cancelled)
  | invRel (c t : Nat)                -- `inv c release t` (release function of call t invoked)
  | retRel (c : Nat)                  -- `ret c release`
  | quiesce (pending : List Nat)      -- `quiesce t1 t2 …` (sorted ids of calls still pending)
deriving DecidableEq, Repr

inductive Ev where
  | invLock (t : Nat) (w : Bool)
  | lockCS (t : Nat)                  -- first critical section of Lock
  | wakeCS (t : Nat)                  -- re-check critical section (wait channel closed)
  | ctxTake (t : Nat)                 -- select took ctx.Done; release() swaps status 0→2
  | cancelCS (t : Nat)                -- RWMutex only: release() critical section with pre = 0
  | retLock (t : Nat) (r : Option Bool)
  | invTry (t : Nat) (w : Bool)
  | tryCS (t : Nat)
  | retTry (t : Nat) (r : Option Bool)
  | envCancel (t : Nat)
  | invRel (c t : Nat)
  | relSwap (c : Nat)                 -- status.Swap(2) / unlocked.Swap(true)
  | relCS (c : Nat)                   -- critical section of a winning release
  | retRel (c : Nat)
  | quiesce (pending : List Nat)
deriving DecidableEq, Repr

def Ev.obs : Ev → Option Obs
  | .invLock t w => some (.invLock t w)
  | .retLock t ok => some (.retLock t ok)
  | .invTry t w => some (.invTry t w)
  | .retTry t ok => some (.retTry t ok)
  | .envCancel t => some (.envCancel t)
  | .invRel c t => some (.invRel c t)
  | .retRel c => some (.retRel c)
  | .quiesce B => some (.quiesce B)
  | _ => none

/-- the event that could have produced an observable (one candidate: the models are
deterministic on observables) -/
def Obs.ev : Obs → Ev
  | .invLock t w => .invLock t w
  | .retLock t ok => .retLock t ok
  | .invTry t w => .invTry t w
  | .retTry t ok => .retTry t ok
  | .envCancel t => .envCancel t
  | .invRel c t => .invRel c t
  | .retRel c => .retRel c
  | .quiesce B => .quiesce B

theorem Obs.ev_obs (o : Obs) : o.ev.obs = some o := by cases o <;> rfl

/-- the internal steps thread `t` in state `ts` may be able to take (the candidate lists are only an
optimisation of the executable checker: `accepts_sound` holds for any candidate list, and
`cands_complete_*` in `Transfer.lean` shows nothing enabled is left out) -/
def threadCands (ts : TS) (t : Nat) : List Ev :=
  match ts with
  | .lockInv _ => [.lockCS t]
  | .parked _ _ => [.wakeCS t, .ctxTake t]
  | .cancelling _ => [.cancelCS t]
  | .tryInv _ => [.tryCS t]
  | .relInv _ => [.relSwap t]
  | .relCS _ => [.relCS t]
  | _ => []

def internalCandsAux : List TS → Nat → List Ev
  | [], _ => []
  | ts :: rest, t => threadCands ts t ++ internalCandsAux rest (t + 1)

def internalCands (th : List TS) : List Ev := internalCandsAux th 0

def parseBoolTok (t f : String) (s : String) : Option Bool :=
  if s == t then some true else if s == f then some false else none

def parseNats : List String → Option (List Nat)
  | [] => some []
  | x :: xs => do let n ← x.toNat?; let r ← parseNats xs; pure (n :: r)

def Obs.parse : List String → Option Obs
  | ["inv", t, "lock", m] => do pure (.invLock (← t.toNat?) (← parseBoolTok "w" "r" m))
  | ["ret", t, "lock", "ok", m] => do pure (.retLock (← t.toNat?) (some (← parseBoolTok "w" "r" m)))
  | ["ret", t, "lock", "canceled"] => do pure (.retLock (← t.toNat?) none)
  | ["inv", t, "trylock", m] => do pure (.invTry (← t.toNat?) (← parseBoolTok "w" "r" m))
  | ["ret", t, "trylock", "true", m] => do pure (.retTry (← t.toNat?) (some (← parseBoolTok "w" "r" m)))
  | ["ret", t, "trylock", "false"] => do pure (.retTry (← t.toNat?) none)
  | ["env", "cancel", t] => do pure (.envCancel (← t.toNat?))
  | ["inv", c, "release", t] => do pure (.invRel (← c.toNat?) (← t.toNat?))
  | ["ret", c, "release"] => do pure (.retRel (← c.toNat?))
  | "quiesce" :: ts => do pure (.quiesce (← parseNats ts))
  | _ => none

/-- thread states that count as holding the lock in mode `w` (status word = 1, or a release that
has swapped the word but not yet run its critical section) -/
def TS.holds (w : Bool) : TS → Bool
  | .granted w' | .held w' | .releasing w' | .tryGranted w' => w == w'
  | _ => false

/-- states of a Lock/TryLock call after it returned the release function -/
def TS.afterHeld : TS → Bool
  | .held _ | .releasing _ | .finished => true
  | _ => false

/-- a waiting writer as counted by `writeWaiting` -/
def TS.waitingWriter : TS → Bool
  | .parked true _ | .cancelling true => true
  | _ => false

end UtilModel.CSync

namespace UtilModel.CSync

@[simp] theorem TS.holds_lockInv (w : Bool) (x : Bool) : (TS.lockInv x).holds w = false := rfl
@[simp] theorem TS.ww_lockInv (x : Bool) : (TS.lockInv x).waitingWriter = false := rfl
@[simp] theorem TS.holds_parked (w : Bool) (x : Bool) (c : Nat) : (TS.parked x c).holds w = false := rfl
@[simp] theorem TS.ww_parked (x : Bool) (c : Nat) : (TS.parked x c).waitingWriter = x := by cases x <;> rfl
@[simp] theorem TS.holds_granted (w : Bool) (x : Bool) : (TS.granted x).holds w = (w == x) := rfl
@[simp] theorem TS.ww_granted (x : Bool) : (TS.granted x).waitingWriter = false := rfl
@[simp] theorem TS.holds_cancelling (w : Bool) (x : Bool) : (TS.cancelling x).holds w = false := rfl
@[simp] theorem TS.ww_cancelling (x : Bool) : (TS.cancelling x).waitingWriter = x := by cases x <;> rfl
@[simp] theorem TS.holds_cancelled (w : Bool)  : TS.cancelled.holds w = false := rfl
@[simp] theorem TS.ww_cancelled  : TS.cancelled.waitingWriter = false := rfl
@[simp] theorem TS.holds_held (w : Bool) (x : Bool) : (TS.held x).holds w = (w == x) := rfl
@[simp] theorem TS.ww_held (x : Bool) : (TS.held x).waitingWriter = false := rfl
@[simp] theorem TS.holds_releasing (w : Bool) (x : Bool) : (TS.releasing x).holds w = (w == x) := rfl
@[simp] theorem TS.ww_releasing (x : Bool) : (TS.releasing x).waitingWriter = false := rfl
@[simp] theorem TS.holds_finished (w : Bool)  : TS.finished.holds w = false := rfl
@[simp] theorem TS.ww_finished  : TS.finished.waitingWriter = false := rfl
@[simp] theorem TS.holds_tryInv (w : Bool) (x : Bool) : (TS.tryInv x).holds w = false := rfl
@[simp] theorem TS.ww_tryInv (x : Bool) : (TS.tryInv x).waitingWriter = false := rfl
@[simp] theorem TS.holds_tryGranted (w : Bool) (x : Bool) : (TS.tryGranted x).holds w = (w == x) := rfl
@[simp] theorem TS.ww_tryGranted (x : Bool) : (TS.tryGranted x).waitingWriter = false := rfl
@[simp] theorem TS.holds_tryFailed (w : Bool)  : TS.tryFailed.holds w = false := rfl
@[simp] theorem TS.ww_tryFailed  : TS.tryFailed.waitingWriter = false := rfl
@[simp] theorem TS.holds_relInv (w : Bool) (c : Nat) : (TS.relInv c).holds w = false := rfl
@[simp] theorem TS.ww_relInv (c : Nat) : (TS.relInv c).waitingWriter = false := rfl
@[simp] theorem TS.holds_relCS (w : Bool) (c : Nat) : (TS.relCS c).holds w = false := rfl
@[simp] theorem TS.ww_relCS (c : Nat) : (TS.relCS c).waitingWriter = false := rfl
@[simp] theorem TS.holds_relDone (w : Bool)  : TS.relDone.holds w = false := rfl
@[simp] theorem TS.ww_relDone  : TS.relDone.waitingWriter = false := rfl

end UtilModel.CSync
