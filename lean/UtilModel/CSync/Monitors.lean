import UtilModel.CSync.Types
import UtilModel.Core.Monitor
/-!
# csync: the properties C01 and C02 as executable monitors over observable histories

These automata are the *statements* of the properties at the level of the API: they mention only
invocations, responses, context cancellations and quiescence points. They are proved to accept every
trace of the models (`*_obs` theorems) and are evaluated by the driver on implementation histories.
-/
namespace UtilModel.CSync

/-! ## C01: one writer or many readers, between acquire and first release -/

/-- holder set as defined by the property: a caller holds the lock from the return of a successful
Lock/TryLock until its first call of the release function -/
abbrev Holders := List (Nat × Bool)

def compatible (hs : Holders) (w : Bool) : Bool :=
  if w then hs.isEmpty else hs.all (fun h => !h.2)

def monC01 : ObsMonitor Obs Holders where
  init := []
  step := fun hs o =>
    match o with
    | .retLock t (some w) | .retTry t (some w) => if compatible hs w then some ((t, w) :: hs) else none
    | .invRel _ t => some (hs.filter (fun h => h.1 != t))
    | _ => some hs

/-! ## C02: grantable waiters are granted; cancelled waiters leave no trace; writer preference -/

structure C02St where
  holders : Holders := []
  modes : List (Nat × Bool) := []          -- mode of every Lock call, from its invocation
  cancelled : List Nat := []               -- calls whose context was cancelled
  waitingW : List Nat := []                -- writers known to be waiting (pending at a quiescence point, not cancelled since)
  blockers : List (Nat × Nat) := []        -- (reader, writer): reader invoked while writer was known waiting
deriving Repr

def modeOf (ms : C02St) (t : Nat) : Option Bool := (ms.modes.find? (·.1 == t)).map (·.2)

/-- is the lock grantable to pending call `t` (mode `w`) under its own rule, given the observable
holder set and the pending calls `B`? -/
def grantable (ms : C02St) (B : List Nat) (w : Bool) : Bool :=
  if w then ms.holders.isEmpty
  else ms.holders.all (fun h => !h.2) && B.all (fun u => modeOf ms u != some true)

/-- pending call `t` could be granted right now (a call of unknown mode counts as grantable) -/
def pendingGrantable (ms : C02St) (B : List Nat) (t : Nat) : Bool :=
  match modeOf ms t with
  | some w => grantable ms B w
  | none => true

def monC02 : ObsMonitor Obs C02St where
  init := {}
  step := fun ms o =>
    match o with
    | .invLock t w =>
      some { ms with modes := (t, w) :: ms.modes
                     blockers := if w then ms.blockers else ms.waitingW.map (fun u => (t, u)) ++ ms.blockers }
    | .retLock t r =>
      let ms := { ms with waitingW := ms.waitingW.filter (· != t), blockers := ms.blockers.filter (·.2 != t) }
      match r with
      | some w =>
        -- writer preference: a late reader is not granted before the writer it queued behind is done
        if !w && ms.blockers.any (·.1 == t) then none
        else some { ms with holders := (t, w) :: ms.holders }
      | none => if ms.cancelled.contains t then some ms else none   -- Canceled only if the context was cancelled
    | .invTry t w =>
      -- a TryLock(false) is a read acquire too: it queues behind the writers known to be waiting
      some { ms with blockers := if w then ms.blockers else ms.waitingW.map (fun u => (t, u)) ++ ms.blockers }
    | .retTry t (some w) =>
      if !w && ms.blockers.any (·.1 == t) then none
      else some { ms with holders := (t, w) :: ms.holders }
    | .invRel _ t => some { ms with holders := ms.holders.filter (fun h => h.1 != t) }
    | .envCancel t =>
      some { ms with cancelled := t :: ms.cancelled, waitingW := ms.waitingW.filter (· != t)
                     blockers := ms.blockers.filter (·.2 != t) }
    | .quiesce B =>
      -- no pending call is grantable; no cancelled call is still pending
      if B.any (fun t => ms.cancelled.contains t) then none
      else if B.any (pendingGrantable ms B) then none
      else some { ms with waitingW := B.filter (fun t => modeOf ms t == some true) }
    | _ => some ms

end UtilModel.CSync
