import UtilModel.Core.LTSHash
import UtilModel.Core.LTSComplete
import UtilModel.CSync.RWObsC02
import UtilModel.CSync.MxObsC02
/-!
# csync — end-to-end transfer and completeness of the candidate lists

`C01_accepted_*` / `C02_accepted_*`: a history that the driver accepts (observational trace inclusion,
decided by `acceptsH`) satisfies the property monitor — the composition of `acceptsH_sound` with the
`*_obs` simulation theorems. This is the statement that is applied to every recorded implementation
history.

`cands_complete_*`: every enabled internal event of a state is in the candidate list the checker
tries, so a history is rejected only if (up to the exploration bounds) no model run projects to it.
-/
namespace UtilModel.CSync
open UtilModel

theorem C01_accepted_rw (cap fuel : Nat) (h : List Obs) (ha : RW.model.acceptsH cap fuel h = true) :
    monC01.accepts h = true :=
  acceptedH_satisfies RW.model (fun h => monC01.accepts h = true) RW.C01_obs_rw cap fuel h ha

theorem C02_accepted_rw (cap fuel : Nat) (h : List Obs) (ha : RW.model.acceptsH cap fuel h = true) :
    monC02.accepts h = true :=
  acceptedH_satisfies RW.model (fun h => monC02.accepts h = true) RW.C02_obs_rw cap fuel h ha

theorem C01_accepted_mutex (cap fuel : Nat) (h : List Obs) (ha : Mx.model.acceptsH cap fuel h = true) :
    monC01.accepts h = true :=
  acceptedH_satisfies Mx.model (fun h => monC01.accepts h = true) Mx.C01_obs_mutex cap fuel h ha

theorem C02_accepted_mutex (cap fuel : Nat) (h : List Obs) (ha : Mx.model.acceptsH cap fuel h = true) :
    monC02.accepts h = true :=
  acceptedH_satisfies Mx.model (fun h => monC02.accepts h = true) Mx.C02_obs_mutex cap fuel h ha

/-- membership in the candidate list: thread `t + off` in a state matching the event kind -/
theorem mem_internalCandsAux (th : List TS) (off t : Nat) (ts : TS) (e : Ev) (h : th[t]? = some ts)
    (he : e ∈ threadCands ts (t + off)) : e ∈ internalCandsAux th off := by
  induction th generalizing off t with
  | nil => simp at h
  | cons x xs ih =>
    cases t with
    | zero =>
      simp at h; subst h
      simp only [internalCandsAux, List.mem_append]
      left; simpa using he
    | succ t =>
      simp at h
      simp only [internalCandsAux, List.mem_append]
      right
      exact ih (off + 1) t h (by simpa [Nat.add_assoc, Nat.add_comm 1 off] using he)

theorem cands_complete_rw (s s' : RW.St) (e : Ev) (hs : RW.step s e = some s') (ho : e.obs = none) :
    e ∈ RW.model.cands s := by
  show e ∈ internalCands s.th
  unfold internalCands
  cases e <;> simp [Ev.obs] at ho <;> simp only [RW.step] at hs
  all_goals
    split at hs <;> try simp at hs
    rename_i h
    first
      | exact mem_internalCandsAux s.th 0 _ _ _ h (by simp [threadCands])
      | (rename_i h2; exact mem_internalCandsAux s.th 0 _ _ _ h2 (by simp [threadCands]))

theorem cands_complete_mutex (s s' : Mx.St) (e : Ev) (hs : Mx.step s e = some s') (ho : e.obs = none) :
    e ∈ Mx.model.cands s := by
  show e ∈ internalCands s.th
  unfold internalCands
  cases e <;> simp [Ev.obs] at ho <;> simp only [Mx.step] at hs
  all_goals
    first
      | (simp at hs; done)
      | (split at hs <;> try simp at hs
         rename_i h
         first
           | exact mem_internalCandsAux s.th 0 _ _ _ h (by simp [threadCands])
           | (rename_i h2; exact mem_internalCandsAux s.th 0 _ _ _ h2 (by simp [threadCands])))

end UtilModel.CSync

namespace UtilModel.CSync
open UtilModel

theorem Ev.obs_ev (e : Ev) (o : Obs) (h : e.obs = some o) : o.ev = e := by
  cases e <;> simp [Ev.obs] at h <;> subst h <;> rfl

theorem complete_rw : RW.model.Complete :=
  ⟨fun s e s' hs ho => cands_complete_rw s s' e hs ho, fun _ e _ o _ ho => by simp [RW.model, Ev.obs_ev e o ho]⟩

theorem complete_mutex : Mx.model.Complete :=
  ⟨fun s e s' hs ho => cands_complete_mutex s s' e hs ho, fun _ e _ o _ ho => by simp [Mx.model, Ev.obs_ev e o ho]⟩

/-- **A REJECT of the RWMutex correspondence is about the model**: when the driver's run fails at
an observable without having hit the exploration bounds, no run of the RWMutex model projects to
the recorded history. -/
theorem reject_sound_rw (cap fuel : Nat) (h : List Obs) (i : Nat)
    (hfail : (RW.model.accRunH cap fuel [RW.model.init] h 0 false 1).failedAt = some i)
    (htr : (RW.model.accRunH cap fuel [RW.model.init] h 0 false 1).truncated = false) :
    ¬ ∃ es s, RW.model.run RW.model.init es = some s ∧ es.filterMap RW.model.obs = h :=
  rejectH_sound RW.model complete_rw cap fuel h i hfail htr

theorem reject_sound_mutex (cap fuel : Nat) (h : List Obs) (i : Nat)
    (hfail : (Mx.model.accRunH cap fuel [Mx.model.init] h 0 false 1).failedAt = some i)
    (htr : (Mx.model.accRunH cap fuel [Mx.model.init] h 0 false 1).truncated = false) :
    ¬ ∃ es s, Mx.model.run Mx.model.init es = some s ∧ es.filterMap Mx.model.obs = h :=
  rejectH_sound Mx.model complete_mutex cap fuel h i hfail htr

end UtilModel.CSync
