import UtilModel.CSync.MxProps
import UtilModel.CSync.RWObsC02
/-!
# csync.Mutex — C02 as an observable-history theorem (`C02_obs_mutex`)
Same monitor, same relation as for the RWMutex (`RWObsC02.lean`); only writers exist.
-/
namespace UtilModel.CSync.Mx
open UtilModel UtilModel.CSync
open UtilModel.CSync.RW (Rel2 rel2_set rel2_append ThRel Cover MoveOK forgetCall forget_not_ww forget_not_bl
  rel2_grant wwait_cases countP_pos_exists modeOf_cons_ne modeOf_cons_eq)

/-- every call of the Mutex model is a "writer" -/
def AllW (th : List TS) : Prop := ∀ (t : Nat) (x : TS) (w : Bool), th[t]? = some x → x.lockMode = some w → w = true

theorem AllW.move {th : List TS} (h : AllW th) {t : Nat} {a : TS} (b : TS) (ha : th[t]? = some a)
    (hb : ∀ w, b.lockMode = some w → a.lockMode = some w ∨ w = true) : AllW (th.set t b) := by
  intro u x w hu hm
  rcases getElem?_set_cases _ _ _ _ _ hu with ⟨rfl, rfl⟩ | ⟨_, hu'⟩
  · rcases hb w hm with h1 | h1
    · exact h u a w ha h1
    · exact h1
  · exact h u x w hu' hm

theorem AllW.append {th : List TS} (h : AllW th) (b : TS) (hb : ∀ w, b.lockMode = some w → w = true) :
    AllW (th ++ [b]) := by
  intro u x w hu hm
  rcases getElem?_snoc_cases _ _ _ _ hu with ⟨_, hu'⟩ | ⟨_, rfl⟩
  · exact h u x w hu' hm
  · exact hb w hm

structure RelC02 (s : St) (ms : C02St) : Prop where
  inv   : Inv s
  rel2  : Rel2 s.th ms.holders
  cover : Cover s.th ms.holders
  thr   : ThRel s.th s.cx ms
  mlt   : ∀ p, p ∈ ms.modes → p.1 < s.th.length
  cx    : ms.cancelled = s.cx
  nobl  : ms.blockers = []
  wt    : AllW s.th

theorem relC02_init : RelC02 ({} : St) ({} : C02St) := by
  refine ⟨init_inv, ⟨by intro t w hm; simp at hm, by intro c t hc; simp at hc⟩, by intro t w h; simp at h, ?_, by intro p hp; simp at hp, rfl, rfl, by intro t x w h; simp at h⟩
  exact ⟨by intro t x w h; simp at h, by intro t x h; simp at h, by intro u hu; simp at hu, by intro r u hm; simp at hm⟩

theorem RelC02.plain_move {s : St} {ms : C02St} (hR : RelC02 s ms) {t : Nat} {a : TS} (b : TS) (s' : St)
    (hs' : s'.th = s.th.set t b) (hcx : s'.cx = s.cx) (hi' : Inv s')
    (ha : s.th[t]? = some a) (hnh : ∀ w, a ≠ TS.held w) (hnr : a.isRelInv = false)
    (hb0 : ∀ x, b ≠ TS.relInv x) (hb1 : b.isHeld = false) (hab : a.afterHeld = true → b.afterHeld = true)
    (ok : MoveOK ms s.cx t a b) : RelC02 s' ms := by
  refine ⟨hi', ?_, ?_, ?_, ?_, ?_, hR.nobl, by rw [hs']; exact hR.wt.move _ ha (fun w h => Or.inl (ok.mode w h))⟩
  · rw [hs']; exact hR.rel2.move _ ha hnh hb0 hab
  · rw [hs']; exact Cover.move hR.cover _ ha hnr hb1
  · rw [hs', hcx]; exact hR.thr.move _ ha ok
  · intro p hp; rw [hs']; simpa using hR.mlt p hp
  · rw [hcx]; exact hR.cx

theorem attempt_threl (s : St) (ms : C02St) (t : Nat) (a : TS) (h : ThRel s.th s.cx ms)
    (hnb : ms.blockers = []) (ha : s.th[t]? = some a)
    (hcase : a = .lockInv true ∨ ∃ c, a = .parked true c) : ThRel (attempt s t).th s.cx ms := by
  unfold attempt
  split <;>
  · apply h.move _ ha
    rcases hcase with rfl | ⟨c, rfl⟩
    · exact ⟨by intro w h; simpa [TS.lockMode] using h, by simp [TS.cancelSt], by simp [TS.wwait], by simp [TS.readerPending]⟩
    · exact ⟨by intro w h; simpa [TS.lockMode] using h, by simp [TS.cancelSt],
             by intro _; left; simp [TS.wwait, TS.isParked], by simp [TS.readerPending]⟩

theorem attempt_cover (s : St) (hs : Holders) (t : Nat) (a : TS)
    (h : Cover s.th hs) (ha : s.th[t]? = some a) (ha' : a.isRelInv = false) : Cover (attempt s t).th hs := by
  unfold attempt
  split <;> exact h.move _ ha ha' rfl

theorem attempt_len (s : St) (t : Nat) : (attempt s t).th.length = s.th.length := by
  unfold attempt; split <;> simp

theorem attempt_cx (s : St) (t : Nat) : (attempt s t).cx = s.cx := by
  unfold attempt; split <;> rfl

theorem quiet_of_quiescent (s : St) (hq : quiescent s = true) (t : Nat) (x : TS)
    (hx : s.th[t]? = some x) : TS.quiet s t x = true := by
  unfold quiescent at hq
  rw [List.all_eq_true] at hq
  have := hq t (by simp; exact lt_of_getElem? hx)
  simpa [hx] using this

theorem mem_pendingIds (s : St) (t : Nat) :
    t ∈ pendingIds s ↔ ∃ w c, s.th[t]? = some (TS.parked w c) := by
  unfold pendingIds
  simp only [List.mem_filter, List.mem_range]
  constructor
  · intro ⟨_, h⟩
    split at h <;> simp at h
    rename_i w c hx
    exact ⟨w, c, hx⟩
  · intro ⟨w, c, hx⟩
    exact ⟨lt_of_getElem? hx, by simp [hx]⟩

theorem holder_exists (s : St) (ms : C02St) (hR : RelC02 s ms) (hq : quiescent s = true)
    (hl : s.locked = true) : ∃ u m, (u, m) ∈ ms.holders := by
  have hc : 0 < s.th.countP (TS.holds true) := by rw [hR.inv.excl]; simp [hl]
  obtain ⟨i, x, hx, hp⟩ := countP_pos_exists _ _ hc
  have hqx := quiet_of_quiescent s hq i x hx
  cases x <;> simp [TS.quiet] at hqx <;> simp at hp
  rename_i w
  subst hp
  rcases hR.cover i true hx with h1 | ⟨c, hcx⟩
  · exact ⟨i, true, h1⟩
  · have := quiet_of_quiescent s hq c _ hcx
    simp [TS.quiet] at this

theorem quiesce_ok (s : St) (ms : C02St) (hR : RelC02 s ms) (hq : quiescent s = true) :
    ∃ ms', monC02.step ms (.quiesce (pendingIds s)) = some ms' ∧ RelC02 s ms' := by
  have hi := hR.inv
  have pend : ∀ t, t ∈ pendingIds s → ∃ w c, s.th[t]? = some (TS.parked w c) ∧ modeOf ms t = some w ∧
      s.bc.closed c = false ∧ t ∉ s.cx := by
    intro t ht
    obtain ⟨w, c, hx⟩ := (mem_pendingIds s t).mp ht
    have hqx := quiet_of_quiescent s hq t _ hx
    simp [TS.quiet] at hqx
    exact ⟨w, c, hx, hR.thr.modes t _ w hx rfl, hqx.1, hqx.2⟩
  have c1 : (pendingIds s).any (fun t => ms.cancelled.contains t) = false := by
    rw [List.any_eq_false]
    intro t ht
    obtain ⟨w, c, _, _, _, hcx⟩ := pend t ht
    rw [hR.cx]; simpa using hcx
  have c2 : (pendingIds s).any (pendingGrantable ms (pendingIds s)) = false := by
    rw [List.any_eq_false]
    intro t ht
    obtain ⟨w, c, hx, hmode, hopen, _⟩ := pend t ht
    have hl := (hi.parked t w c hx).2 hopen
    obtain ⟨u, m, hu⟩ := holder_exists s ms hR hq hl
    simp only [pendingGrantable, hmode]
    unfold grantable
    cases w
    · -- (no readers exist in the Mutex model: a parked call has mode `w`)
      simp only [Bool.false_eq_true, if_false]
      -- the holder is a writer, so even a reader would not be grantable
      have hm : m = true := by
        have := hR.rel2.held u m hu
        cases m
        · have := countP_pos_of_getElem? (TS.holds false) _ _ _ this (by simp)
          have := hi.noread; omega
        · rfl
      subst hm
      have : ms.holders.all (fun h => !h.2) = false := by
        rw [List.all_eq_false]; exact ⟨(u, true), hu, by simp⟩
      simp [this]
    · simp only [if_true]
      cases hh : ms.holders with
      | nil => rw [hh] at hu; cases hu
      | cons _ _ => simp
  refine ⟨{ ms with waitingW := (pendingIds s).filter (fun t => modeOf ms t == some true) }, ?_, ?_⟩
  · simp only [monC02, c1, c2]
    simp
  · refine ⟨hR.inv, hR.rel2, hR.cover, ?_, hR.mlt, hR.cx, hR.nobl, hR.wt⟩
    constructor
    · intro u x w hu hm; exact hR.thr.modes u x w hu hm
    · exact hR.thr.cxst
    · intro u hu
      rw [List.mem_filter] at hu
      obtain ⟨w, c, hx, hmode, _, hcx⟩ := pend u hu.1
      have : w = true := by
        have := hu.2; rw [hmode] at this; simpa using this
      subst this
      exact ⟨_, hx, by simp [TS.wwait], fun _ => hcx⟩
    · intro r u hm
      rw [hR.nobl] at hm; cases hm

theorem attempt_allw (s : St) (t : Nat) (a : TS) (h : AllW s.th) (ha : s.th[t]? = some a) :
    AllW (attempt s t).th := by
  unfold attempt
  split <;> exact h.move _ ha (by intro w hw; simp [TS.lockMode] at hw; exact Or.inr hw)

theorem c02_sim_step (s : St) (e : Ev) (s' : St) (ms : C02St) (hR : RelC02 s ms)
    (hstep : step s e = some s') :
    match Ev.obs e with
    | none => RelC02 s' ms
    | some o => ∃ ms', monC02.step ms o = some ms' ∧ RelC02 s' ms' := by
  have hi := hR.inv
  have hi' := step_inv s e s' hi hstep
  cases e with
  | invLock t w =>
    simp only [step] at hstep; split at hstep <;> simp at hstep; subst hstep
    rename_i ht
    obtain ⟨ht, rfl⟩ := ht
    refine ⟨{ ms with modes := (t, true) :: ms.modes }, by simp [monC02], hi',
      rel2_append _ _ _ hR.rel2 (by intro x hx; cases hx), Cover.append hR.cover _ rfl, ?_, ?_, hR.cx, hR.nobl,
      hR.wt.append _ (by intro w hw; simp [TS.lockMode] at hw; exact hw)⟩
    · constructor
      · intro u x w' hu hm
        rcases getElem?_snoc_cases _ _ _ _ hu with ⟨hlt, hu'⟩ | ⟨rfl, rfl⟩
        · have hne : t ≠ u := by omega
          rw [modeOf_cons_ne ms _ t u true rfl hne]; exact hR.thr.modes u x w' hu' hm
        · simp [TS.lockMode] at hm; subst hm; subst ht; exact modeOf_cons_eq ms _ _ _ rfl
      · intro u x hu hc
        rcases getElem?_snoc_cases _ _ _ _ hu with ⟨_, hu'⟩ | ⟨_, rfl⟩
        · exact hR.thr.cxst u x hu' hc
        · simp [TS.cancelSt] at hc
      · intro u hu
        obtain ⟨x, hx, hw, hp⟩ := hR.thr.ww u hu
        exact ⟨x, getElem?_snoc_left _ _ _ _ hx, hw, hp⟩
      · intro r u hm
        simp only [hR.nobl] at hm; cases hm
    · intro p hp
      simp at hp
      rcases hp with rfl | hp
      · simp [ht]
      · have := hR.mlt p hp; simp; omega
  | invTry t w =>
    simp only [step] at hstep; split at hstep <;> simp at hstep; subst hstep
    rename_i ht
    obtain ⟨ht, rfl⟩ := ht
    refine ⟨ms, rfl, hi', rel2_append _ _ _ hR.rel2 (by intro x hx; cases hx), Cover.append hR.cover _ rfl,
      hR.thr.append _ rfl rfl, ?_, hR.cx, hR.nobl, hR.wt.append _ (by intro w hw; simp [TS.lockMode] at hw)⟩
    intro p hp; have := hR.mlt p hp; simp; omega
  | lockCS t =>
    simp only [step] at hstep; split at hstep <;> simp at hstep; subst hstep
    rename_i w h
    have hw : w = true := hR.wt t _ w h rfl
    subst hw
    refine ⟨hi', rel2_attempt s _ t _ hR.rel2 h (by intro w h; cases h) rfl,
      attempt_cover s _ t _ hR.cover h rfl, ?_, ?_, ?_, hR.nobl, attempt_allw s t _ hR.wt h⟩
    · rw [attempt_cx]; exact attempt_threl s ms t _ hR.thr hR.nobl h (Or.inl rfl)
    · intro p hp; rw [attempt_len]; exact hR.mlt p hp
    · rw [attempt_cx]; exact hR.cx
  | wakeCS t =>
    simp only [step] at hstep; split at hstep <;> simp at hstep
    obtain ⟨_, rfl⟩ := hstep; rename_i w c h _
    have hw : w = true := hR.wt t _ w h rfl
    subst hw
    refine ⟨hi', rel2_attempt s _ t _ hR.rel2 h (by intro w h; cases h) rfl,
      attempt_cover s _ t _ hR.cover h rfl, ?_, ?_, ?_, hR.nobl, attempt_allw s t _ hR.wt h⟩
    · rw [attempt_cx]; exact attempt_threl s ms t _ hR.thr hR.nobl h (Or.inr ⟨c, rfl⟩)
    · intro p hp; rw [attempt_len]; exact hR.mlt p hp
    · rw [attempt_cx]; exact hR.cx
  | ctxTake t =>
    simp only [step] at hstep; split at hstep <;> simp at hstep
    obtain ⟨hcx, rfl⟩ := hstep; rename_i w c h
    refine hR.plain_move .cancelled _ rfl rfl hi' h (by intro w h; cases h) rfl (by intro x hx; cases hx) rfl (by simp [TS.afterHeld]) ?_
    exact ⟨by intro w' hm; simp [TS.lockMode] at hm, fun _ => Or.inr hcx,
           fun _ => Or.inr (Or.inl ⟨rfl, hcx⟩), by simp [hR.nobl]⟩
  | cancelCS t => simp [step] at hstep
  | retLock t r =>
    simp only [step] at hstep; split at hstep <;> simp at hstep
    · obtain ⟨rfl, rfl⟩ := hstep; rename_i w h
      have hany' : (ms.blockers.filter (fun p => p.2 != t)).any (fun p => p.1 == t) = false := by
        simp [hR.nobl]
      refine ⟨{ forgetCall ms t with holders := (t, w) :: ms.holders }, ?_, hi', ?_, ?_, ?_, ?_, hR.cx, ?_, ?_⟩
      · simp [monC02, forgetCall, hany']
      · exact rel2_grant hR.rel2 w h (by intro w h; cases h) rfl
      · exact Cover.grant hR.cover w h rfl
      · refine ((hR.thr.forget t).move (.held w) h ?_).holders _
        exact ⟨by intro w' hm; simp [TS.lockMode] at hm, by simp [TS.cancelSt],
               fun _ => Or.inr (Or.inr (forget_not_ww ms t)),
               by simp [forgetCall, hR.nobl]⟩
      · intro p hp; simp; exact hR.mlt p hp
      · simp [forgetCall, hR.nobl]
      · exact hR.wt.move _ h (by intro w' hm; simp [TS.lockMode] at hm)
    · subst hstep; rename_i h
      have hc' : t ∈ ms.cancelled := by
        rw [hR.cx]; exact hR.thr.cxst t _ h rfl
      refine ⟨forgetCall ms t, ?_, hi', ?_, ?_, ?_, ?_, hR.cx, ?_, ?_⟩
      · simp [monC02, forgetCall, hc']
      · exact hR.rel2.move _ h (by intro w h; cases h) (by intro x hx; cases hx) (by simp [TS.afterHeld])
      · exact Cover.move hR.cover _ h rfl rfl
      · exact (hR.thr.forget t).move .finished h
          ⟨by intro w' hm; simp [TS.lockMode] at hm, by simp [TS.cancelSt], by simp [TS.wwait], fun _ => Or.inl rfl⟩
      · intro p hp; simp; exact hR.mlt p hp
      · simp [forgetCall, hR.nobl]
      · exact hR.wt.move _ h (by intro w' hm; simp [TS.lockMode] at hm)
  | retTry t r =>
    simp only [step] at hstep; split at hstep <;> simp at hstep
    · obtain ⟨rfl, rfl⟩ := hstep; rename_i w h
      refine ⟨{ ms with holders := (t, w) :: ms.holders }, ?_, hi', ?_, ?_, ?_, ?_, hR.cx, hR.nobl, ?_⟩
      · simp [monC02, hR.nobl]
      · exact rel2_grant hR.rel2 w h (by intro w h; cases h) rfl
      · exact Cover.grant hR.cover w h rfl
      · exact (hR.thr.move (.held w) h (MoveOK.plain _ _ _ _ _ rfl rfl rfl (Or.inl rfl))).holders _
      · intro p hp; simp; exact hR.mlt p hp
      · exact hR.wt.move _ h (by intro w' hm; simp [TS.lockMode] at hm)
    · subst hstep; rename_i h
      exact ⟨ms, rfl, hR.plain_move .finished _ rfl rfl hi' h (by intro w h; cases h) rfl (by intro x hx; cases hx) rfl
        (by simp [TS.afterHeld]) (MoveOK.plain _ _ _ _ _ rfl rfl rfl (Or.inr rfl))⟩
  | tryCS t =>
    simp only [step] at hstep; split at hstep <;> try simp at hstep
    rename_i w h
    split at hstep <;> simp at hstep <;> subst hstep <;>
      exact hR.plain_move _ _ rfl rfl hi' h (by intro w h; cases h) rfl (by intro x hx; cases hx) rfl
        (by simp [TS.afterHeld]) (MoveOK.plain_nobl _ _ _ _ _ rfl rfl rfl hR.nobl)
  | envCancel t =>
    simp only [step] at hstep; split at hstep <;> simp at hstep; subst hstep
    refine ⟨{ forgetCall ms t with cancelled := t :: ms.cancelled }, ?_, hi', hR.rel2, hR.cover, ?_, hR.mlt, ?_, ?_, hR.wt⟩
    · simp [monC02, forgetCall]
    · have h0 := hR.thr.forget t
      constructor
      · intro u x w hu hm; exact h0.modes u x w hu hm
      · intro u x hu hc; simp; exact Or.inr (h0.cxst u x hu hc)
      · intro u hu
        have hne : u ≠ t := by
          intro e; subst e; exact forget_not_ww ms u hu
        obtain ⟨x, hx, hw, hp⟩ := h0.ww u hu
        exact ⟨x, hx, hw, fun hpk => by simp; exact ⟨hne, hp hpk⟩⟩
      · intro r u hm; exact h0.bl r u hm
    · simp [hR.cx]
    · simp [forgetCall, hR.nobl]
  | invRel c t =>
    simp only [step] at hstep; split at hstep <;> try simp at hstep
    rename_i hc
    have hsub : ∀ x, x ∈ ms.holders.filter (fun h => h.1 != t) → x ∈ ms.holders := by
      intro x hx; exact (List.mem_filter.mp hx).1
    have hnot : ∀ w, (t, w) ∉ ms.holders.filter (fun h => h.1 != t) := by
      intro w hm; have := (List.mem_filter.mp hm).2; simp at this
    have fin : ∀ (x : TS), s.th[t]? = some x → x.afterHeld = true →
        ∃ ms', monC02.step ms (.invRel c t) = some ms' ∧ RelC02 { s with th := s.th ++ [.relInv t] } ms' := by
      intro x hx hax
      have hi2 : Inv { s with th := s.th ++ [.relInv t] } :=
        inv_append s _ hi rfl rfl (by intro w c h; cases h)
      refine ⟨{ ms with holders := ms.holders.filter (fun h => h.1 != t) }, rfl, hi2, ?_, ?_, ?_, ?_, hR.cx, hR.nobl,
        hR.wt.append _ (by intro w hw; simp [TS.lockMode] at hw)⟩
      · refine rel2_append _ _ _ (hR.rel2.subset hsub) ?_
        intro y hy; cases hy
        exact ⟨hnot, x, hx, hax⟩
      · intro u w hu
        rcases getElem?_snoc_cases _ _ _ _ hu with ⟨_, hu'⟩ | ⟨_, hy⟩
        · by_cases e : u = t
          · subst e
            exact Or.inr ⟨s.th.length, by simp⟩
          · rcases hR.cover u w hu' with h1 | ⟨c', hc'⟩
            · left; rw [List.mem_filter]; exact ⟨h1, by simpa using e⟩
            · exact Or.inr ⟨c', getElem?_snoc_left _ _ _ _ hc'⟩
        · cases hy
      · exact (hR.thr.append _ rfl rfl).holders _
      · intro p hp; have := hR.mlt p hp; simp; omega
    split at hstep <;> simp at hstep <;> subst hstep
    · rename_i w h; exact fin _ h rfl
    · rename_i w h; exact fin _ h rfl
    · rename_i h; exact fin _ h rfl
  | relSwap c =>
    simp only [step] at hstep; split at hstep <;> try simp at hstep
    rename_i t hc
    split at hstep <;> simp at hstep <;> subst hstep
    · rename_i w ht
      have hne : t ≠ c := by intro e; subst e; rw [hc] at ht; cases ht
      have hnot := (hR.rel2.rel c t hc).1
      have hc' : (s.th.set t (.releasing w))[c]? = some (.relInv t) := by
        rw [getElem?_set_ne' _ _ _ _ hne]; exact hc
      have r2 : Rel2 (s.th.set t (.releasing w)) ms.holders :=
        rel2_set _ _ t _ _ hR.rel2 ht (fun w' => Or.inl (hnot w')) (by intro x hx; cases hx) (by simp [TS.afterHeld])
      have tr : ThRel (s.th.set t (.releasing w)) s.cx ms :=
        hR.thr.move _ ht (MoveOK.plain _ _ _ _ _ rfl rfl rfl (Or.inl rfl))
      have wt1 : AllW (s.th.set t (.releasing w)) := hR.wt.move _ ht (by intro w' hm; simp [TS.lockMode] at hm)
      refine ⟨hi', r2.move _ hc' (by intro w h; cases h) (by intro x hx; cases hx) (by simp [TS.afterHeld]), ?_,
        tr.move _ hc' (MoveOK.plain _ _ _ _ _ rfl rfl rfl (Or.inl rfl)), ?_, hR.cx, hR.nobl,
        wt1.move _ hc' (by intro w' hm; simp [TS.lockMode] at hm)⟩
      · intro u w' hu
        rcases getElem?_set_cases _ _ _ _ _ hu with ⟨_, hx⟩ | ⟨hnec, hu1⟩
        · cases hx
        · rcases getElem?_set_cases _ _ _ _ _ hu1 with ⟨_, hx⟩ | ⟨hnet, hu2⟩
          · cases hx
          · rcases hR.cover u w' hu2 with h1 | ⟨c', hc2⟩
            · exact Or.inl h1
            · have h1 : c' ≠ c := by
                intro e; subst e; rw [hc] at hc2; cases hc2; exact hnet rfl
              have h2 : c' ≠ t := by
                intro e; subst e; rw [ht] at hc2; cases hc2
              refine Or.inr ⟨c', ?_⟩
              rw [getElem?_set_ne' _ _ _ _ (Ne.symm h1), getElem?_set_ne' _ _ _ _ (Ne.symm h2)]; exact hc2
      · intro p hp; simp; exact hR.mlt p hp
    · rename_i hnh
      refine ⟨hi', hR.rel2.move _ hc (by intro w h; cases h) (by intro x hx; cases hx) (by simp [TS.afterHeld]), ?_,
        hR.thr.move _ hc (MoveOK.plain _ _ _ _ _ rfl rfl rfl (Or.inl rfl)), ?_, hR.cx, hR.nobl,
        hR.wt.move _ hc (by intro w' hm; simp [TS.lockMode] at hm)⟩
      · intro u w' hu
        rcases getElem?_set_cases _ _ _ _ _ hu with ⟨_, hx⟩ | ⟨hnec, hu1⟩
        · cases hx
        · rcases hR.cover u w' hu1 with h1 | ⟨c', hc2⟩
          · exact Or.inl h1
          · have h1 : c' ≠ c := by
              intro e; subst e; rw [hc] at hc2; cases hc2
              exact hnh w' hu1
            exact Or.inr ⟨c', by rw [getElem?_set_ne' _ _ _ _ (Ne.symm h1)]; exact hc2⟩
      · intro p hp; simp; exact hR.mlt p hp
  | relCS c =>
    simp only [step] at hstep; split at hstep <;> try simp at hstep
    rename_i t hc
    split at hstep <;> simp at hstep; subst hstep
    rename_i w ht
    have hne : t ≠ c := by intro e; subst e; rw [hc] at ht; cases ht
    have hc' : (s.th.set t .finished)[c]? = some (.relCS t) := by
      rw [getElem?_set_ne' _ _ _ _ hne]; exact hc
    have r2 : Rel2 (s.th.set t .finished) ms.holders :=
      hR.rel2.move _ ht (by intro w h; cases h) (by intro x hx; cases hx) (by simp [TS.afterHeld])
    have cv : Cover (s.th.set t .finished) ms.holders := Cover.move hR.cover _ ht rfl rfl
    have tr : ThRel (s.th.set t .finished) s.cx ms :=
      hR.thr.move _ ht (MoveOK.plain _ _ _ _ _ rfl rfl rfl (Or.inl rfl))
    have wt1 : AllW (s.th.set t .finished) := hR.wt.move _ ht (by intro w' hm; simp [TS.lockMode] at hm)
    exact ⟨hi', r2.move _ hc' (by intro w h; cases h) (by intro x hx; cases hx) (by simp [TS.afterHeld]),
      Cover.move cv _ hc' rfl rfl, tr.move _ hc' (MoveOK.plain _ _ _ _ _ rfl rfl rfl (Or.inl rfl)),
      by intro p hp; simp; exact hR.mlt p hp, hR.cx, hR.nobl, wt1.move _ hc' (by intro w' hm; simp [TS.lockMode] at hm)⟩
  | retRel c =>
    simp only [step] at hstep; split at hstep <;> simp at hstep; subst hstep
    rename_i h
    exact ⟨ms, rfl, hR.plain_move .finished _ rfl rfl hi' h (by intro w h; cases h) rfl (by intro x hx; cases hx) rfl
      (by simp [TS.afterHeld]) (MoveOK.plain _ _ _ _ _ rfl rfl rfl (Or.inl rfl))⟩
  | quiesce B =>
    simp only [step] at hstep; split at hstep <;> simp at hstep; subst hstep
    rename_i hq
    obtain ⟨hq1, rfl⟩ := hq
    exact quiesce_ok s ms hR hq1

/-- **C02 (observable form, Mutex).** Every observable trace of the Mutex model is accepted by
`monC02`: at every quiescence point no pending caller is grantable (nobody pending while the mutex is
free), no cancelled caller is still pending, and `Lock` returns `Canceled` only if cancelled. -/
theorem C02_obs_mutex (es : List Ev) (s : St) (h : model.run model.init es = some s) :
    monC02.accepts (es.filterMap model.obs) = true :=
  monitor_accepts_of_simulation model monC02 RelC02 relC02_init
    (fun s e s' ms hR hs => by
      have h := c02_sim_step s e s' ms hR hs
      cases e <;> exact h) es s h

end UtilModel.CSync.Mx
