import UtilModel.Keyed.ObsSpec3
/-!
# keyed — soundness of the rules of `monC06o`: calls that report or change sets of keys
-/
namespace UtilModel.Keyed
open UtilModel

theorem absent_of_notIn (a : ASt) (k : Nat) (h : a.inSet k = false) : a.st k = .absent := by
  cases hs : a.st k <;> simp [ASt.inSet, hs, KSt.inSet] at h ⊢

/-- the new knowledge after a key list was reported -/
theorem know_listed (m : M6o) (a : ASt) (ks : List Nat) (kn : List Nat) (cnt : Nat → Option Nat) (hK : Know m a)
    (hks : ∀ k, k ∈ ks ↔ a.inSet k = true) (hc : ∀ k n, cnt k = some n → a.nctor k = n) :
    Know { m with st := fun k => if ks.contains k then ((m.st k).obs true).getD .any else .absent, cnt := cnt, known := kn } a := by
  refine ⟨hK.delay, hK.epoch, hK.ctx, ?_, hc, hK.live, hK.rkey⟩
  intro k
  simp only []
  by_cases hk : k ∈ ks
  · have hc' : ks.contains k = true := by simpa using hk
    simp only [hc', if_true]
    obtain ⟨x, hx, hxk⟩ := obs_sound a (m.st k) k (hK.st k)
    rw [(hks k).1 hk] at hx
    rw [hx]; exact hxk
  · have hc' : ks.contains k = false := by simpa using hk
    simp only [hc', Bool.false_eq_true, if_false, KnowK]
    apply absent_of_notIn
    cases hin : a.inSet k with
    | false => rfl
    | true => exact absurd ((hks k).2 hin) hk

theorem listed_checks (m : M6o) (a : ASt) (ks : List Nat) (hK : Know m a) (hR : RcOk a)
    (hks : ∀ k, k ∈ ks ↔ a.inSet k = true) :
    (m.refsIn ks.contains && ks.all (fun k => ((m.st k).obs true).isSome) &&
       m.known.all (fun k => ks.contains k || ((m.st k).obs false).isSome)) = true := by
  simp only [Bool.and_eq_true]
  refine ⟨⟨?_, ?_⟩, ?_⟩
  · exact refsIn_sound m a hK hR _ (fun k hin => by simpa using (hks k).2 hin)
  · rw [List.all_eq_true]
    intro k hk
    obtain ⟨x, hx, _⟩ := obs_sound a (m.st k) k (hK.st k)
    rw [(hks k).1 hk] at hx
    simp [hx]
  · rw [List.all_eq_true]
    intro k _
    by_cases hk : k ∈ ks
    · simp [hk]
    · have hin : a.inSet k = false := by
        cases hin : a.inSet k with
        | false => rfl
        | true => exact absurd ((hks k).2 hin) hk
      obtain ⟨x, hx, _⟩ := obs_sound a (m.st k) k (hK.st k)
      rw [hin] at hx
      simp [hx]

theorem ret_getKeys (m : M6o) (a : ASt) (f : Nat → Bool) (res : Res) (hK : Know m a) (hR : RcOk a)
    (hout : SpecOut a (specStep a f .getKeys) .getKeys res) :
    ∃ m', m.ret .getKeys res = some m' ∧ Know m' (specStep a f .getKeys) ∧ m'.pending = m.pending := by
  simp only [SpecOut] at hout
  obtain ⟨ks, rfl, hks⟩ := hout
  simp only [M6o.ret, listed_checks m a ks hK hR hks, if_true, specStep]
  exact ⟨_, rfl, know_listed m a ks _ m.cnt hK hks hK.cnt, rfl⟩

theorem ret_getKeysWithData (m : M6o) (a : ASt) (f : Nat → Bool) (res : Res) (hK : Know m a) (hI : SpecInv a)
    (hR : RcOk a) (hout : SpecOut a (specStep a f .getKeysWithData) .getKeysWithData res) :
    ∃ m', m.ret .getKeysWithData res = some m' ∧ Know m' (specStep a f .getKeysWithData) ∧ m'.pending = m.pending := by
  simp only [SpecOut] at hout
  obtain ⟨kd, rfl, hkd⟩ := hout
  have hks : ∀ k, k ∈ kd.map (·.1) ↔ a.inSet k = true := by
    intro k
    simp only [List.mem_map]
    constructor
    · rintro ⟨p, hp, rfl⟩
      exact ((hkd p.1 p.2).1 hp).1
    · intro hin
      exact ⟨(k, (a.st k).data), (hkd k _).2 ⟨hin, rfl⟩, rfl⟩
  have hdata : ∀ p, p ∈ kd → p.2 = a.nctor p.1 := by
    intro p hp
    obtain ⟨h1, h2⟩ := (hkd p.1 p.2).1 hp
    rw [h2]; exact hI p.1 h1
  have hcn : kd.all (fun p => cntOk (m.cnt p.1) p.2) = true := by
    rw [List.all_eq_true]
    intro p hp
    unfold cntOk
    cases hc : m.cnt p.1 with
    | none => rfl
    | some n => simp [hK.cnt p.1 n hc, hdata p hp]
  simp only [M6o.ret, listed_checks m a _ hK hR hks, hcn, Bool.and_self, if_true, specStep]
  refine ⟨_, rfl, know_listed m a _ _ _ hK hks ?_, rfl⟩
  intro k n hn
  split at hn
  · rename_i p hp
    have hmem := List.mem_of_find?_eq_some hp
    have hkey : p.1 = k := by simpa using List.find?_some hp
    simp only [Option.some.injEq] at hn
    rw [← hn, hdata p hmem, hkey]
  · exact hK.cnt k n hn

end UtilModel.Keyed
