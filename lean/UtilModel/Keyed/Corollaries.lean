import UtilModel.Keyed.Refine7
/-!
# keyed — consequences of the refinement (C06): delays, re-requests, references
-/
namespace UtilModel.Keyed
open UtilModel

theorem inSet_of_leaving (a : ASt) (k d e : Nat) (h : a.st k = .leaving d e) : a.inSet k = true := by
  simp [ASt.inSet, h, KSt.inSet]

theorem inSet_of_present (a : ASt) (k d : Nat) (h : a.st k = .present d) : a.inSet k = true := by
  simp [ASt.inSet, h, KSt.inSet]

theorem reqSt_present (a : ASt) (k : Nat) : ∃ d, reqSt a k = .present d := by
  unfold reqSt; split <;> exact ⟨_, rfl⟩

/-- no call takes a leaving key out of the set -/
theorem specStep_keeps_leaving (a : ASt) (f : Nat → Bool) (op : Op) (k d e : Nat) (h : a.st k = .leaving d e) :
    (specStep a f op).inSet k = true := by
  have hin := inSet_of_leaving a k d e h
  have hdis : ∀ (a' : ASt) b k', a'.st = a.st → ((dismiss a' b k').st k).inSet = true := by
    intro a' b k' ha
    simp only [dismiss, upd]
    split
    · rename_i hk; subst hk; simp [disSt, ha, h, KSt.inSet]
    · rw [ha, h]; rfl
  cases op with
  | setKey k' st =>
    simp only [specStep, request, ASt.inSet, upd]
    split
    · obtain ⟨d', hd'⟩ := reqSt_present a k'; rw [hd']; rfl
    · exact hin
  | removeKey k' => exact hdis a _ k' rfl
  | syncKeys ks r =>
    simp only [specStep, ASt.inSet]
    split
    · obtain ⟨d', hd'⟩ := reqSt_present a k; rw [hd']; rfl
    · simp [disSt, h, KSt.inSet]
  | getKey _ => exact hin
  | getKeys => exact hin
  | getKeysWithData => exact hin
  | resetRoutine k' cs =>
    simp only [specStep]
    split
    · simp only [renew, ASt.inSet, upd]
      split
      · rename_i hk; subst hk; simp [renSt, hin, KSt.inSet]
      · exact hin
    · exact hin
  | restartRoutine _ _ => exact hin
  | resetAll cs =>
    simp only [specStep, ASt.inSet]
    split
    · simp [renSt, hin, KSt.inSet]
    · exact hin
  | restartAll _ => exact hin
  | setContext c r => exact hin
  | addKeyRef k' =>
    simp only [specStep, request, ASt.inSet, upd]
    split
    · obtain ⟨d', hd'⟩ := reqSt_present a k'; rw [hd']; rfl
    · exact hin
  | release r =>
    simp only [specStep, specRelease]
    split
    · split
      · exact hdis _ _ _ rfl
      · exact hin
    · exact hin
  | rcRemoveKey k' => exact hdis _ _ k' rfl

/-- the rules that request a key make it `present` -/
theorem request_present (a : ASt) (k : Nat) : ∃ d, (request a k).st k = .present d := by
  simp only [request, upd, if_true]; exact reqSt_present a k

theorem sync_present (a : ASt) (f : Nat → Bool) (ks : List Nat) (r : Bool) (k : Nat) (hk : k ∈ ks) :
    ∃ d, (specStep a f (.syncKeys ks r)).st k = .present d := by
  have : ks.contains k = true := by simpa using hk
  simp only [specStep, this, if_true]; exact reqSt_present a k

theorem addKeyRef_present (a : ASt) (f : Nat → Bool) (k : Nat) :
    ∃ d, (specStep a f (.addKeyRef k)).st k = .present d := by
  simp only [specStep, request, upd, if_true]; exact reqSt_present a k

/-- a key removed with a release delay whose routine has not failed is `leaving` -/
theorem dismiss_leaving (a : ASt) (k d : Nat) (hd : a.delay = true) (h : a.st k = .present d) :
    (dismiss a false k).st k = .leaving d a.epoch := by
  simp [dismiss, upd, disSt, h, hd]

/-- the end of an epoch changes no key; the callback of the removal timer removes a `leaving` key
whose epoch has ended and nothing else -/
theorem advance_st (a : ASt) (k : Nat) : (specAdvance a).st k = a.st k := rfl

theorem expire_leaving (a : ASt) (k d e : Nat) (h : a.st k = .leaving d e) (he : e < a.epoch) :
    (expire a k).st k = .absent := by
  simp [expire, upd, expSt, h, he]

theorem expire_early (a : ASt) (k d e : Nat) (h : a.st k = .leaving d e) (he : ¬ e < a.epoch) :
    (expire a k).st k = .leaving d e := by
  simp [expire, upd, expSt, h, he]

theorem expire_present (a : ASt) (k k' d : Nat) (h : a.st k = .present d) : (expire a k').st k = .present d := by
  simp only [expire, upd]
  split
  · rename_i hk; subst hk; simp [expSt, h]
  · exact h

theorem expire_other (a : ASt) (k k' : Nat) (h : k ≠ k') : (expire a k').st k = a.st k := by
  simp [expire, upd, h]

/-! ## references -/

/-- a key with a live reference is present (not merely leaving) -/
def RcOk (a : ASt) : Prop := ∀ k, 0 < liveCount a k → ∃ d, a.st k = .present d

theorem liveCount_append (a : ASt) (k k' : Nat) :
    liveCount { a with live := a.live ++ [some k'] } k = liveCount a k + (if k' = k then 1 else 0) := by
  simp only [liveCount, List.countP_append, List.countP_cons, List.countP_nil]
  by_cases h : k' = k <;> simp [h]

theorem liveCount_st (a : ASt) (st : Nat → KSt) (n : Nat → Nat) (k : Nat) :
    liveCount { a with st := st, nctor := n } k = liveCount a k := rfl

theorem rcOk_specStep (a : ASt) (f : Nat → Bool) (op : Op) (h : RcOk a) (hop : op.allowed true = true) :
    RcOk (specStep a f op) := by
  cases op with
  | setKey _ _ => simp [Op.allowed] at hop
  | removeKey _ => simp [Op.allowed] at hop
  | syncKeys _ _ => simp [Op.allowed] at hop
  | getKey _ => exact h
  | getKeys => exact h
  | getKeysWithData => exact h
  | restartRoutine _ _ => exact h
  | restartAll _ => exact h
  | setContext c r => exact h
  | resetRoutine k' cs =>
    intro k hk
    have hk' : 0 < liveCount a k := by
      have e : liveCount (specStep a f (.resetRoutine k' cs)) k = liveCount a k := by
        simp only [specStep]; split <;> rfl
      rw [e] at hk; exact hk
    obtain ⟨d, hd⟩ := h k hk'
    simp only [specStep]
    split
    · simp only [renew, upd]
      split
      · rename_i hkk; subst hkk
        exact ⟨a.nctor k + 1, by simp [renSt, inSet_of_present a k d hd]⟩
      · exact ⟨d, hd⟩
    · exact ⟨d, hd⟩
  | resetAll cs =>
    intro k hk
    obtain ⟨d, hd⟩ := h k hk
    simp only [specStep]
    split
    · exact ⟨a.nctor k + 1, by simp [renSt, inSet_of_present a k d hd]⟩
    · exact ⟨d, hd⟩
  | addKeyRef k' =>
    intro k hk
    simp only [specStep, request, upd]
    split
    · exact reqSt_present a k'
    · rename_i hne
      have hne' : ¬ k' = k := fun e => hne e.symm
      have e : liveCount (specStep a f (.addKeyRef k')) k = liveCount { a with live := a.live ++ [some k'] } k := rfl
      rw [e, liveCount_append] at hk
      simp only [hne', if_false, Nat.add_zero] at hk
      exact h k hk
  | release r =>
    simp only [specStep, specRelease]
    split
    · rename_i k' hr
      have hlt : r < a.live.length := by
        rcases Nat.lt_or_ge r a.live.length with h' | h'
        · exact h'
        · simp [List.getElem?_eq_none h'] at hr
      have hcount : ∀ k, liveCount { a with live := a.live.set r none } k ≤ liveCount a k := by
        intro k
        simp only [liveCount]
        rw [List.countP_set hlt]
        simp <;> omega
      split
      · rename_i hz
        intro k hk
        simp only [dismiss, upd] at hk ⊢
        have hk1 : 0 < liveCount { a with live := a.live.set r none } k := hk
        split
        · rename_i hkk; subst hkk
          simp at hz; omega
        · exact h k (Nat.lt_of_lt_of_le hk1 (hcount k))
      · intro k hk
        exact h k (Nat.lt_of_lt_of_le hk (hcount k))
    · exact h
  | rcRemoveKey k' =>
    intro k hk
    simp only [specStep, dismiss, upd] at hk ⊢
    have hc : liveCount { a with live := a.live.map fun x => if x == some k' then none else x } k =
        if k = k' then 0 else liveCount a k := by
      simp only [liveCount, List.countP_map]
      by_cases hkk : k = k'
      · subst hkk
        simp only [if_true]
        rw [List.countP_eq_zero]
        intro x _
        by_cases hx : x = some k <;> simp [hx]
      · simp only [hkk, if_false]
        congr 1
        funext x
        simp only [Function.comp]
        by_cases hx : x = some k'
        · subst hx
          have hkk' : ¬ k' = k := fun e => hkk e.symm
          simp [hkk']
        · simp [hx]
    have hk1 : 0 < liveCount { a with live := a.live.map fun x => if x == some k' then none else x } k := hk
    rw [hc] at hk1
    split
    · rename_i hkk; subst hkk; simp at hk1
    · rename_i hkk
      simp [hkk] at hk1
      exact h k hk1

theorem rcOk_advance (a : ASt) (h : RcOk a) : RcOk (specAdvance a) := h

theorem rcOk_expire (a : ASt) (k' : Nat) (h : RcOk a) : RcOk (expire a k') := by
  intro k hk
  obtain ⟨d, hd⟩ := h k hk
  exact ⟨d, expire_present a k k' d hd⟩

/-- releasing a reference twice counts once: the second `Release` changes nothing -/
theorem release_twice (a : ASt) (f f' : Nat → Bool) (r : Nat) :
    specRelease (specRelease a f r) f' r = specRelease a f r := by
  have hnone : ∀ a' : ASt, (∀ k, a'.live[r]? ≠ some (some k)) → specRelease a' f' r = a' := by
    intro a' h
    unfold specRelease
    split
    · rename_i k hk; exact absurd hk (h k)
    · rfl
  apply hnone
  intro k
  unfold specRelease
  split
  · rename_i k' hk'
    have hlt : r < a.live.length := by
      rcases Nat.lt_or_ge r a.live.length with h' | h'
      · exact h'
      · simp [List.getElem?_eq_none h'] at hk'
    simp only []
    split <;> simp [dismiss, hlt]
  · rename_i hno
    intro h; exact hno k h

end UtilModel.Keyed
