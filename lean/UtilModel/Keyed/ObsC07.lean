import UtilModel.Keyed.ObsData3
import UtilModel.Keyed.Monitors
/-!
# keyed — observable form of C07 (first clause): every trace of the model is accepted by `monC07a`
-/
namespace UtilModel.Keyed
open UtilModel

/-- the monitor's table is the view of the model's run table -/
structure View (s : St) (m : M7a) : Prop where
  len : m.runs.length = s.runs.length
  inj : ∀ (j j' : Nat) (p : Nat × Nat), s.runs[j]? = some p → s.runs[j']? = some p → j = j'
  run : ∀ (j g i : Nat), s.runs[j]? = some (g, i) → ∃ y x, s.gens[g]? = some y ∧ y.insts[i]? = some x ∧
    x.st ≠ .waiting ∧ x.st ≠ .entered ∧ m.runs[j]? = some (y.key, x.data, decide (x.st = .running))

structure Sim (s : St) (m : M7a) : Prop where
  kd : KD s
  view : View s m

theorem view_keep {s s' : St} {m : M7a} (hk : Keep s s') (hr : s'.runs = s.runs) (h : View s m) : View s' m := by
  refine ⟨by rw [hr]; exact h.len, by rw [hr]; exact h.inj, ?_⟩
  intro j g i hj
  rw [hr] at hj
  obtain ⟨y, x, hy, hx, h1, h2, h3⟩ := h.run j g i hj
  obtain ⟨y', x', hy', hx', hkey, hd, hst⟩ := hk g y i x hy hx
  exact ⟨y', x', hy', hx', by rw [hst]; exact h1, by rw [hst]; exact h2, by rw [hkey, hd, hst]; exact h3⟩

/-- one instance changes its state (not its data); if it is in the run table, it neither becomes
`waiting`/`entered` nor changes whether it is `running` -/
theorem view_modInst {s : St} {m : M7a} (g i : Nat) (x' : Inst) (y : G) (x : Inst)
    (hy : s.gens[g]? = some y) (hx : y.insts[i]? = some x) (hd : x'.data = x.data)
    (hs : x.st ≠ .waiting → x.st ≠ .entered →
      x'.st ≠ .waiting ∧ x'.st ≠ .entered ∧ (decide (x'.st = .running) = decide (x.st = .running)))
    (h : View s m) : View (modInst s g i fun _ => x') m := by
  refine ⟨h.len, h.inj, ?_⟩
  intro j g' i' hj
  obtain ⟨y0, x0, hy0, hx0, h1, h2, h3⟩ := h.run j g' i' hj
  by_cases hgi : g = g' ∧ i = i'
  · obtain ⟨rfl, rfl⟩ := hgi
    rw [hy] at hy0; simp at hy0; subst hy0
    rw [hx] at hx0; simp at hx0; subst hx0
    obtain ⟨a, b, c⟩ := hs h1 h2
    refine ⟨{ y with insts := y.insts.modify i fun _ => x' }, x', by simp [modInst, gens_modG, hy],
      by simp [List.getElem?_modify, hx], a, b, ?_⟩
    rw [hd, c]; exact h3
  · by_cases hg : g = g'
    · subst hg
      rw [hy] at hy0; simp at hy0; subst hy0
      have hi : i ≠ i' := fun e => hgi ⟨rfl, e⟩
      exact ⟨{ y with insts := y.insts.modify i fun _ => x' }, x0, by simp [modInst, gens_modG, hy],
        by simp [List.getElem?_modify, hx0, hi], h1, h2, h3⟩
    · exact ⟨y0, x0, by simp [modInst, gens_modG, hy0, hg], hx0, h1, h2, h3⟩

theorem view_runs_congr {s s' : St} {m : M7a} (hg : s'.gens = s.gens) (hr : s'.runs = s.runs) (h : View s m) :
    View s' m := view_keep (keep_gens hg) hr h

theorem runs_execOp (s : St) (op : Op) : (execOp s op).1.runs = s.runs := by
  cases op with
  | setKey k st => simp only [execOp]; rw [setKey_eq_syncS]; exact (syncS_spec st s k).1.runs
  | removeKey k => exact (removeKey_spec s k).1.runs
  | syncKeys ks restart =>
    simp only [execOp, syncKeys]
    rw [foldl_fst (syncOne restart) (syncS restart) (syncOne_fst restart)]
    exact ((foldl_frame _ (fun s k => (syncS_spec restart s k).1) _ _).trans
      (foldl_frame _ (fun s k => (removeAbsent_spec ks s k).1) _ _)).runs
  | getKey k => simp only [execOp]; split <;> rfl
  | getKeys => rfl
  | getKeysWithData => rfl
  | resetRoutine k cs =>
    simp only [execOp]
    split
    · exact (frame_resetKey s k).runs
    · exact rfl
  | restartRoutine k cs =>
    simp only [execOp]
    split
    · exact (touch_restartKey s k).frame.runs
    · exact rfl
  | resetAll cs =>
    simp only [execOp]
    rw [foldl_fst resetAllStep (fun s k => (resetKey s k).1) (fun _ _ => rfl)]
    exact (foldl_frame _ (fun s k => frame_resetKey s k) _ _).runs
  | restartAll cs =>
    simp only [execOp]
    rw [foldl_fst restartAllStep (fun s k => (restartKey s k).1) (fun _ _ => rfl)]
    exact (foldl_frame _ (fun s k => (touch_restartKey s k).frame) _ _).runs
  | setContext c restart =>
    simp only [execOp, setContext]
    split
    · rfl
    · exact (foldl_frame _ (fun s k => (touch_setCtxOne _ restart s k).frame) _ _).runs
  | addKeyRef k =>
    simp only [execOp, addKeyRef]
    have := (syncS_spec true s k).1.runs
    rw [← setKey_eq_syncS] at this
    exact this
  | release r =>
    simp only [execOp, release]
    split
    · rfl
    · split
      · rfl
      · split
        · exact (removeKey_spec _ _).1.runs
        · rfl
  | rcRemoveKey k =>
    simp only [execOp, rcRemoveKey]
    exact (removeKey_spec _ _).1.runs

theorem keep_recordInst (s : St) (g i : Nat) (x : Inst) (k : Nat) :
    Keep (modInst s g i fun y => { y with st := .recorded }) (recordInst s g i x k) := by
  unfold recordInst
  simp only []
  cases hk : s.key k with
  | none => exact Keep.refl _
  | some r =>
    simp only []
    split
    · refine (keep_modG _ g (fun y => { y with last := none }) (fun y => ⟨rfl, fun i x hx => ⟨x, hx, rfl, rfl⟩⟩)).trans ?_
      exact fun g y i x hy hx => ⟨y, x, hy, hx, rfl, rfl, rfl⟩
    · exact Keep.refl _

theorem sim_step (s : St) (e : Ev) (s' : St) (ms : M7a) (hR : Sim s ms) (hs : model.step s e = some s') :
    match model.obs e with
    | none => Sim s' ms
    | some o => ∃ ms', monC07a.step ms o = some ms' ∧ Sim s' ms' := by
  have hkd := kd_step s s' e hR.kd hs
  have hv := hR.view
  change step s e = some s' at hs
  cases e with
  | config c =>
    simp only [step] at hs
    split at hs
    · simp at hs; subst hs; exact ⟨ms, rfl, hkd, view_runs_congr (s := s) rfl rfl hv⟩
    · simp at hs
  | inv id op =>
    simp only [step] at hs
    split at hs
    · simp at hs
    · split at hs
      · simp at hs; subst hs; exact ⟨ms, rfl, hkd, view_runs_congr (s := s) rfl rfl hv⟩
      · simp at hs
  | cancelroot =>
    simp only [step] at hs
    split at hs
    · simp at hs; subst hs
      refine ⟨ms, rfl, hkd, ?_⟩
      have hk : Keep ({ s with ctx := some 0 } : St) (cancelAll { s with ctx := some 0 }) :=
        foldl_keep cancelGen (fun s g =>
          foldl_keep (fun s i => cancelOpt s g (some i)) (fun s i => keep_cancelOpt s g (some i)) _ s) _ _
      exact view_keep hk (sameBut_cancelAll _).runs (view_runs_congr (s := s) rfl rfl hv)
    · simp at hs
  | exec id =>
    simp only [step] at hs
    split at hs
    · rename_i op hc
      simp at hs; subst hs
      refine ⟨hkd, ?_⟩
      exact view_runs_congr (s := (execOp (preOp s op) op).1) rfl rfl
        (view_keep (keep_execOp (preOp s op) op) (runs_execOp (preOp s op) op)
          (view_runs_congr (preOp_fields s op).1 (preOp_fields s op).2.2.2.1 hv))
    · simp at hs
  | ctor k d =>
    simp only [step] at hs
    split at hs
    · simp at hs; subst hs; exact ⟨ms, rfl, hkd, view_runs_congr (s := s) rfl rfl hv⟩
    · simp at hs
  | ret id res =>
    simp only [step] at hs
    split at hs
    · simp at hs; subst hs; exact ⟨ms, rfl, hkd, view_runs_congr (s := s) rfl rfl hv⟩
    · simp at hs
  | proceed g i =>
    simp only [step] at hs
    obtain ⟨y, x, x', hy, hx, hf, rfl⟩ := instStep_some _ _ _ _ _ hs
    split at hf
    · rename_i hc
      simp at hf; subst hf
      exact ⟨hkd, view_modInst g i _ y x hy hx rfl (fun h1 _ => absurd hc.1 h1) hv⟩
    · simp at hf
  | bail g i =>
    simp only [step] at hs
    obtain ⟨y, x, x', hy, hx, hf, rfl⟩ := instStep_some _ _ _ _ _ hs
    split at hf
    · rename_i hc
      simp at hf; subst hf
      exact ⟨hkd, view_modInst g i _ y x hy hx rfl (fun h1 _ => absurd hc.1 h1) hv⟩
    · simp at hf
  | cbin j g i k d =>
    simp only [step] at hs
    split at hs
    · rename_i hj
      split at hs
      · simp at hs
      · rename_i y hy
        split at hs
        · simp at hs
        · rename_i x hx
          split at hs
          · rename_i hc
            simp at hs; subst hs
            obtain ⟨hst, hkey, hdat⟩ := hc
            -- the monitor accepts: a running run with the same key and data would be the same instance
            have hnone : (ms.runs.any fun r => r.1 == k && r.2.1 == d && r.2.2) = false := by
              rw [Bool.eq_false_iff]
              intro hany
              rw [List.any_eq_true] at hany
              obtain ⟨p, hp, hpp⟩ := hany
              obtain ⟨j', hj'⟩ := List.getElem?_of_mem hp
              have hlt : j' < s.runs.length := by rw [← hv.len]; exact lt_of_get? hj'
              obtain ⟨⟨g', i'⟩, hgi'⟩ : ∃ q, s.runs[j']? = some q := ⟨s.runs[j'], by simp [hlt]⟩
              obtain ⟨y', x', hy', hx', _, _, hm⟩ := hv.run j' g' i' hgi'
              rw [hj'] at hm
              simp only [Option.some.injEq] at hm
              subst hm
              simp only [Bool.and_eq_true, beq_iff_eq, decide_eq_true_eq] at hpp
              obtain ⟨⟨hk', hd'⟩, hrun⟩ := hpp
              have hgg : g = g' := same_gen s hR.kd.d g g' y y' i i' x x' hy hy' hx hx'
                (by rw [hkey, hk']) (by rw [hdat, hd'])
              subst hgg
              rw [hy] at hy'; simp at hy'; subst hy'
              have := Chain.one_running (proj y) (hR.kd.k.chain g y hy) i i' (projI x) (projI x')
                (by simp [proj_get, hx]) (by simp [proj_get, hx'])
                (by simp [projI, projSt, hst]) (by simp [projI, projSt, hrun])
              subst this
              rw [hx] at hx'; simp at hx'; subst hx'
              rw [hst] at hrun; cases hrun
            refine ⟨{ runs := ms.runs ++ [(k, d, true)] }, ?_, hkd, ?_⟩
            · simp only [monC07a, model]
              rw [if_pos ⟨by rw [hj, hv.len], hnone⟩]
            · -- the new table
              have hm := modInst_const s g i (fun x => { x with st := .running }) y x hy hx
              have hv1 : View (modInst s g i fun x => { x with st := .running }) ms := by
                rw [hm]
                exact view_modInst g i _ y x hy hx rfl (fun _ h2 => absurd hst h2) hv
              refine ⟨by simp [hv.len], ?_, ?_⟩
              · intro j1 j2 p h1 h2
                simp only [List.getElem?_append] at h1 h2
                -- the instance was `entered`: it is not in the old table
                have hnot : ∀ (j0 : Nat), s.runs[j0]? = some (g, i) → False := by
                  intro j0 h0
                  obtain ⟨y0, x0, hy0, hx0, _, he, _⟩ := hv.run j0 g i h0
                  rw [hy] at hy0; simp at hy0; subst hy0
                  rw [hx] at hx0; simp at hx0; subst hx0
                  exact he hst
                split at h1 <;> split at h2
                · exact hv.inj j1 j2 p h1 h2
                · rename_i hl1 hl2
                  have : j2 - s.runs.length = 0 := by
                    cases hh : j2 - s.runs.length with
                    | zero => rfl
                    | succ n => rw [hh] at h2; simp at h2
                  rw [this] at h2; simp at h2; subst h2
                  exact absurd h1 (fun h => hnot j1 h)
                · rename_i hl1 hl2
                  have : j1 - s.runs.length = 0 := by
                    cases hh : j1 - s.runs.length with
                    | zero => rfl
                    | succ n => rw [hh] at h1; simp at h1
                  rw [this] at h1; simp at h1; subst h1
                  exact absurd h2 (fun h => hnot j2 h)
                · rename_i hl1 hl2
                  have e1 : j1 - s.runs.length = 0 := by
                    cases hh : j1 - s.runs.length with
                    | zero => rfl
                    | succ n => rw [hh] at h1; simp at h1
                  have e2 : j2 - s.runs.length = 0 := by
                    cases hh : j2 - s.runs.length with
                    | zero => rfl
                    | succ n => rw [hh] at h2; simp at h2
                  omega
              · intro j1 g1 i1 h1
                simp only [List.getElem?_append] at h1
                split at h1
                · rename_i hl
                  obtain ⟨y1, x1, hy1, hx1, a, b, c⟩ := hv1.run j1 g1 i1 h1
                  refine ⟨y1, x1, hy1, hx1, a, b, ?_⟩
                  rw [List.getElem?_append_left (by rw [hv.len]; exact hl)]; exact c
                · rename_i hl
                  have e1 : j1 - s.runs.length = 0 := by
                    cases hh : j1 - s.runs.length with
                    | zero => rfl
                    | succ n => rw [hh] at h1; simp at h1
                  rw [e1] at h1; simp at h1
                  have hj1 : j1 = ms.runs.length := by rw [hv.len]; omega
                  refine ⟨{ y with insts := y.insts.modify i fun x => { x with st := .running } },
                    { x with st := .running }, ?_, ?_, by simp, by simp, ?_⟩
                  · rw [← h1.1]; simp [modInst, gens_modG, hy]
                  · rw [← h1.2]; simp [List.getElem?_modify, hx]
                  · rw [hj1]; simp [hkey, hdat]
          · simp at hs
    · simp at hs
  | cbout j o =>
    simp only [step] at hs
    split at hs
    · simp at hs
    · rename_i g i hj
      obtain ⟨y, x, x', hy, hx, hf, rfl⟩ := instStep_some _ _ _ _ _ hs
      split at hf
      · rename_i hc
        simp at hf; subst hf
        obtain ⟨y0, x0, hy0, hx0, _, _, hm⟩ := hv.run j g i hj
        rw [hy] at hy0; simp at hy0; subst hy0
        rw [hx] at hx0; simp at hx0; subst hx0
        have hm' : ms.runs[j]? = some (y.key, x.data, true) := by simpa [hc.1] using hm
        refine ⟨{ runs := ms.runs.set j (y.key, x.data, false) }, ?_, hkd, ?_⟩
        · simp only [monC07a, model, hm']
        · generalize hxr : ({ x with st := IS.returned, failed := !decide (o = Outcome.ok), retEpoch := retEp s g y i x } : Inst) = xr
          have hxd : xr.data = x.data := by rw [← hxr]
          have hxs : xr.st = .returned := by rw [← hxr]
          refine ⟨?_, hv.inj, ?_⟩
          · show (ms.runs.set j (y.key, x.data, false)).length = s.runs.length
            simpa using hv.len
          · intro j1 g1 i1 h1
            change s.runs[j1]? = some (g1, i1) at h1
            show ∃ y1 x1, (modInst s g i fun _ => xr).gens[g1]? = some y1 ∧ y1.insts[i1]? = some x1 ∧ x1.st ≠ .waiting ∧
              x1.st ≠ .entered ∧ (ms.runs.set j (y.key, x.data, false))[j1]? = some (y1.key, x1.data, decide (x1.st = .running))
            by_cases hjj : j1 = j
            · subst hjj
              rw [hj] at h1; simp at h1
              refine ⟨{ y with insts := y.insts.modify i fun _ => xr }, xr, ?_, ?_, by simp [hxs], by simp [hxs], ?_⟩
              · rw [← h1.1]; simp [modInst, gens_modG, hy]
              · rw [← h1.2]; simp [List.getElem?_modify, hx]
              · have hlt := lt_of_get? hm'
                simp [hlt, hxd, hxs]
            · have hne : (g1, i1) ≠ (g, i) := fun e => hjj (hv.inj j1 j (g, i) (e ▸ h1) hj)
              obtain ⟨y1, x1, hy1, hx1, a, b, c⟩ := hv.run j1 g1 i1 h1
              by_cases hg : g = g1
              · subst hg
                rw [hy] at hy1; simp at hy1; subst hy1
                have hi : i ≠ i1 := fun e => hne (by rw [e])
                refine ⟨{ y with insts := y.insts.modify i fun _ => xr }, x1, by simp [modInst, gens_modG, hy],
                  by simp [List.getElem?_modify, hx1, hi], a, b, ?_⟩
                rw [List.getElem?_set_ne (fun e => hjj e.symm)]; exact c
              · refine ⟨y1, x1, by simp [modInst, gens_modG, hy1, hg], hx1, a, b, ?_⟩
                rw [List.getElem?_set_ne (fun e => hjj e.symm)]; exact c
      · simp at hf
  | closeExit g i =>
    simp only [step] at hs
    obtain ⟨y, x, x', hy, hx, hf, rfl⟩ := instStep_some _ _ _ _ _ hs
    split at hf
    · rename_i hc
      simp at hf; subst hf
      refine ⟨hkd, view_modInst g i _ y x hy hx rfl (fun _ _ => ?_) hv⟩
      simp only [hc]
      unfold afterClose
      split <;> simp
    · simp at hf
  | record g i =>
    simp only [step] at hs
    split at hs
    · simp at hs
    · rename_i y hy
      split at hs
      · simp at hs
      · rename_i x hx
        split at hs
        · rename_i hc
          simp at hs; subst hs
          have hm := modInst_const s g i (fun z => { z with st := .recorded }) y x hy hx
          have hv1 : View (modInst s g i fun z => { z with st := .recorded }) ms := by
            rw [hm]
            exact view_modInst g i _ y x hy hx rfl (fun _ _ => by simp [hc]) hv
          refine ⟨hkd, view_keep (keep_recordInst s g i x y.key) ?_ hv1⟩
          exact (touch_recordInst s g i x y.key).frame.runs
        · simp at hs
  | timerRemove k =>
    simp only [step] at hs
    split at hs
    · rename_i r hr
      split at hs
      · simp at hs; subst hs
        refine ⟨hkd, view_keep ((keep_cancelOpt s r.gen r.cancelOf).trans
          (fun g y i x hy hx => ⟨y, x, hy, hx, rfl, rfl, rfl⟩)) ?_ hv⟩
        exact ((frame_cancelOpt s r.gen r.cancelOf).trans (frame_setRec _ k none)).runs
      · simp at hs
    · simp at hs
  | timerRetry k =>
    simp only [step] at hs
    split at hs
    · rename_i r hr
      split at hs
      · simp at hs; subst hs
        have T1 : Touch k s (setRec s k (some { r with deferRetry := none })) :=
          touch_setRec k s r _ hr rfl rfl
        have K1 : Keep s (setRec s k (some { r with deferRetry := none })) :=
          fun g y i x hy hx => ⟨y, x, hy, hx, rfl, rfl, rfl⟩
        refine ⟨hkd, ?_⟩
        split
        · exact view_keep (K1.trans (keep_startKey _ k true)) (T1.trans (touch_startKey _ k true)).frame.runs hv
        · exact view_keep K1 T1.frame.runs hv
      · simp at hs
    · simp at hs
  | advance =>
    simp only [step] at hs
    split at hs
    · simp at hs; subst hs; exact ⟨ms, rfl, hkd, view_runs_congr (s := s) rfl rfl hv⟩
    · simp at hs
  | quiesce =>
    simp only [step] at hs
    split at hs
    · simp at hs; subst hs; exact ⟨ms, rfl, hR⟩
    · simp at hs
  | boff k b =>
    simp only [step] at hs
    split at hs
    · simp at hs; subst hs; exact ⟨ms, rfl, hR⟩
    · simp at hs
  | probe j c =>
    simp only [step] at hs
    split at hs
    · simp at hs
    · split at hs
      · split at hs
        · simp at hs; subst hs; exact ⟨ms, rfl, hR⟩
        · simp at hs
      · simp at hs
  | nilnext k =>
    simp only [step] at hs
    split at hs
    · simp at hs; subst hs; exact ⟨ms, rfl, hkd, view_runs_congr (s := s) rfl rfl hv⟩
    · simp at hs

/-- **C07 (one running), observable form.** Every observable trace of the model is accepted by
`monC07a`: the routine functions of one record (one constructor call for one key) never overlap, however
its routine is restarted. The same monitor is evaluated on the histories of the real code. -/
theorem C07a_obs (es : List Ev) (s : St) (hr : model.run model.init es = some s) :
    monC07a.accepts (es.filterMap model.obs) = true :=
  monitor_accepts_of_simulation model monC07a Sim
    ⟨⟨kinv_init, dinv_init⟩, ⟨rfl, fun j j' p h => by simp [model] at h, fun j g i h => by simp [model] at h⟩⟩
    (fun s e s' ms hR hs => by
      have h := sim_step s e s' ms hR hs
      cases hob : model.obs e with
      | none => simp only [hob] at h ⊢; exact h
      | some o => simp only [hob] at h ⊢; exact h) es s hr

end UtilModel.Keyed
