import UtilModel.Keyed.ObsC06a
/-!
# keyed — the model invariants of `ObsC06a` hold in every reachable state
-/
namespace UtilModel.Keyed
open UtilModel

theorem map_done_ids (cs : List Call) (id : Nat) (op : Op) (q : List (Nat × Nat)) (res : Res) :
    (cs.map fun c => if c = .invoked id op then .done id q res else c).map Call.id = cs.map Call.id := by
  induction cs with
  | nil => rfl
  | cons c cs ih =>
    simp only [List.map_cons, ih]
    congr 1
    split
    · rename_i h; subst h; rfl
    · rfl

theorem specInv_specEv (s : St) (e : Ev) (h : SpecInv (abs s)) : SpecInv (specEv (abs s) s e) := by
  cases e with
  | exec id =>
    simp only [specEv]
    split
    · exact specInv_specStep _ _ _ h
    · exact h
  | advance => exact h
  | timerRemove k => exact specInv_expire _ k h
  | config c => exact h
  | _ => exact h

theorem g6_step (s s' : St) (e : Ev) (hG : G6 s) (hs : step s e = some s') : G6 s' := by
  have hr := rinv_step s s' e hG.r hs
  have hc := cinv_step s s' e hG.c hs
  have hsi : SpecInv (abs s') := by
    rw [(step_refines s s' e hG.r hs).1]; exact specInv_specEv s e hG.si
  -- configuration, calls and references
  have key : (∀ c, s'.cfg = some c → c.rc = false → s'.refs = []) ∧ (s'.cfg = none → s'.calls = [] ∧ s'.refs = []) ∧
      (s'.calls.map Call.id).Nodup ∧ (∀ c, s'.cfg = some c → c.rc = true → ∀ c', s.cfg = some c' → c'.rc = true) := by
    cases hce : e.isCallEv with
    | false =>
      obtain ⟨h1, h2, h3⟩ := step_frame s s' e hs hce
      rw [h1, h2, h3]
      exact ⟨hG.plain, hG.cfgc, hG.ids, fun c hc hrc c' hc' => by rw [hc] at hc'; cases hc'; exact hrc⟩
    | true =>
      cases e with
      | config c =>
        simp only [step] at hs
        split at hs
        · rename_i hn
          simp at hs; subst hs
          have hn' : s.cfg = none := by simpa using hn
          refine ⟨fun _ _ _ => (hG.cfgc hn').2, fun h => by simp at h, hG.ids, ?_⟩
          intro _ _ _ c' hc'; rw [hn'] at hc'; cases hc'
        · simp at hs
      | inv id op =>
        simp only [step] at hs
        split at hs
        · simp at hs
        · rename_i c hcfg
          split at hs
          · rename_i hg
            simp at hs; subst hs
            refine ⟨hG.plain, fun h => by simp [hcfg] at h, ?_, fun c hc hrc c' hc' => by rw [hc] at hc'; cases hc'; exact hrc⟩
            simp only [List.map_append, List.map_cons, List.map_nil, Call.id]
            rw [List.nodup_append]
            refine ⟨hG.ids, by simp, ?_⟩
            intro a ha b hb
            simp at hb; subst hb
            obtain ⟨x, hx, rfl⟩ := List.mem_map.1 ha
            have := List.all_eq_true.1 hg.2 x hx
            simpa using this
          · simp at hs
      | exec id =>
        simp only [step] at hs
        split at hs
        · rename_i op hp
          simp at hs; subst hs
          obtain ⟨c, hcfg, hall⟩ := hG.c.call id op (pendingOp_mem s.calls id op hp)
          have hpc : (preOp s op).cfg = s.cfg := (preOp_fields s op).2.2.2.2.1
          have hpr : (preOp s op).refs = s.refs := (preOp_fields s op).2.1
          refine ⟨?_, ?_, ?_, ?_⟩
          · intro c' hc' hrc
            simp only [cfg_execOp, hpc] at hc'
            rw [hcfg] at hc'; cases hc'
            rw [hrc] at hall
            show (execOp (preOp s op) op).1.refs = []
            rw [refs_execOp (preOp s op) op hall, hpr]; exact hG.plain c hcfg hrc
          · intro h; simp only [cfg_execOp, hpc, hcfg] at h; cases h
          · show ((s.calls.map _).map Call.id).Nodup
            rw [map_done_ids]; exact hG.ids
          · intro c1 hc1 hrc c' hc'
            simp only [cfg_execOp, hpc] at hc1
            rw [hc1] at hc'; cases hc'; exact hrc
        · simp at hs
      | ctor k d =>
        simp only [step] at hs
        split at hs
        · rename_i cs htc
          simp at hs; subst hs
          refine ⟨hG.plain, ?_, ?_, fun c hc hrc c' hc' => by rw [hc] at hc'; cases hc'; exact hrc⟩
          · intro h
            have := (hG.cfgc h).1
            rw [this] at htc; simp [takeCtor] at htc
          · show (cs.map Call.id).Nodup
            rw [takeCtor_ids _ _ _ _ htc]; exact hG.ids
        · simp at hs
      | ret id res =>
        simp only [step] at hs
        split at hs
        · rename_i hm
          simp at hs; subst hs
          refine ⟨hG.plain, ?_, ?_, fun c hc hrc c' hc' => by rw [hc] at hc'; cases hc'; exact hrc⟩
          · intro h
            have := (hG.cfgc h).1
            exact ⟨by show s.calls.erase _ = []; rw [this]; rfl, (hG.cfgc h).2⟩
          · exact hG.ids.sublist ((List.erase_sublist).map Call.id)
        · simp at hs
      | _ => simp [Ev.isCallEv] at hce
  obtain ⟨k1, k2, k3, k4⟩ := key
  refine ⟨hr, hc, hsi, ?_, k1, k2, k3⟩
  -- references: on a plain `Keyed` there are none
  cases hcfg : s'.cfg with
  | none => exact rcOk_noRefs s' (k2 hcfg).2
  | some c =>
    cases hrc : c.rc with
    | false => exact rcOk_noRefs s' (k1 c hcfg hrc)
    | true => exact rcOk_step s s' e hG.r hG.c hs (k4 c hcfg hrc) hG.rc

theorem g6_init : G6 ({} : St) where
  r := rinv_init
  c := ⟨fun id op hi => (by cases hi)⟩
  si := fun k h => by simp [abs, ASt.inSet, absKey, St.key, look, KSt.inSet] at h
  rc := rcOk_noRefs _ rfl
  plain := fun c h => by cases h
  cfgc := fun _ => ⟨rfl, rfl⟩
  ids := List.nodup_nil

theorem g6_reachable (s : St) (h : model.Reachable s) : G6 s :=
  model.invariant G6 g6_init (fun s e s' hi hs => g6_step s s' e hi hs) s h

end UtilModel.Keyed
