import UtilModel.Keyed.C07Cancel
/-!
# keyed — the three invariants hold in every reachable state
-/
namespace UtilModel.Keyed
open UtilModel

theorem inv3_execOp (s : St) (op : Op) (h : Inv3 s) (hnz : ∀ r, op ≠ .setContext (some 0) r) :
    Inv3 (execOp s op).1 := by
  cases op with
  | setKey k st => simp only [execOp]; rw [setKey_eq_syncS]; exact inv3_syncS st s k h
  | removeKey k => exact inv3_removeKey s k h
  | syncKeys ks restart =>
    simp only [execOp, syncKeys]
    rw [foldl_fst (syncOne restart) (syncS restart) (syncOne_fst restart)]
    exact foldl_inv _ (inv3_removeAbsent ks) _ _ (foldl_inv _ (inv3_syncS restart) _ _ h)
  | getKey k => simp only [execOp]; split <;> exact h
  | getKeys => exact h
  | getKeysWithData => exact h
  | resetRoutine k cs =>
    simp only [execOp]
    split
    · exact inv3_resetKey s k h
    · exact h
  | restartRoutine k cs =>
    simp only [execOp]
    split
    · exact inv3_restartKey s k h
    · exact h
  | resetAll cs =>
    simp only [execOp]
    rw [foldl_fst resetAllStep (fun s k => (resetKey s k).1) (fun _ _ => rfl)]
    exact foldl_inv _ inv3_resetKey _ _ h
  | restartAll cs =>
    simp only [execOp]
    rw [foldl_fst restartAllStep (fun s k => (restartKey s k).1) (fun _ _ => rfl)]
    exact foldl_inv _ inv3_restartKey _ _ h
  | setContext c restart => exact inv3_setContext s c restart h (fun e => hnz restart (by rw [e]))
  | addKeyRef k =>
    simp only [execOp, addKeyRef]
    have := inv3_syncS true s k h
    rw [← setKey_eq_syncS] at this
    exact inv3_congr (s := (setKey s k true).1) rfl rfl rfl this
  | release r =>
    simp only [execOp, release]
    split
    · exact h
    · split
      · exact h
      · split
        · exact inv3_removeKey _ _ (inv3_congr (s := s) rfl rfl rfl h)
        · exact inv3_congr (s := s) rfl rfl rfl h
  | rcRemoveKey k =>
    simp only [execOp, rcRemoveKey]
    exact inv3_removeKey _ _ (inv3_congr (s := s) rfl rfl rfl h)

/-- one instance changes; its context does not become live again -/
theorem own_modInst (s : St) (g i : Nat) (x' : Inst) (y : G) (x : Inst)
    (hy : s.gens[g]? = some y) (hx : y.insts[i]? = some x)
    (hc : x'.cancelled = false → x.cancelled = false) (h : Own s) (hcx : OwnC s) :
    Own (modInst s g i fun _ => x') ∧ OwnC (modInst s g i fun _ => x') := by
  refine ⟨?_, ?_⟩
  · intro g' y' i' x'' hy' hx' hcc
    obtain ⟨y0, x0, hy0, hx0, hkey, he⟩ := getInst_modInst s g i _ g' y' i' x'' hy' hx'
    have : x0.cancelled = false := by
      rw [he] at hcc
      split at hcc
      · rename_i hgi
        obtain ⟨rfl, rfl⟩ := hgi
        rw [hy] at hy0; simp at hy0; subst hy0
        rw [hx] at hx0; simp at hx0; subst hx0
        exact hc hcc
      · exact hcc
    obtain ⟨r, hr, h1, h2⟩ := h g' y0 i' x0 hy0 hx0 this
    exact ⟨r, by rw [hkey]; simpa using hr, h1, h2⟩
  · intro g' y' i' x'' hy' hx' hcc
    obtain ⟨y0, x0, hy0, hx0, _, he⟩ := getInst_modInst s g i _ g' y' i' x'' hy' hx'
    have : x0.cancelled = false := by
      rw [he] at hcc
      split at hcc
      · rename_i hgi
        obtain ⟨rfl, rfl⟩ := hgi
        rw [hy] at hy0; simp at hy0; subst hy0
        rw [hx] at hx0; simp at hx0; subst hx0
        exact hc hcc
      · exact hcc
    exact hcx g' y0 i' x0 hy0 hx0 this

theorem inv3_modInst (s s1 : St) (g i : Nat) (x' : Inst) (y : G) (x : Inst) (h : Inv3 s) (hk1 : KInv s1)
    (hs1 : s1 = modInst s g i fun _ => x')
    (hy : s.gens[g]? = some y) (hx : y.insts[i]? = some x)
    (hc : x'.cancelled = false → x.cancelled = false) : Inv3 s1 := by
  subst hs1
  have := own_modInst s g i x' y x hy hx hc h.own h.ownc
  exact ⟨hk1, this.1, this.2⟩

theorem own_modG_same (s : St) (g : Nat) (f : G → G) (hf : ∀ y, (f y).key = y.key ∧ (f y).insts = y.insts)
    (h : Own s) (hc : OwnC s) : Own (modG s g f) ∧ OwnC (modG s g f) := by
  have hget : ∀ (g' : Nat) (y' : G), (modG s g f).gens[g']? = some y' →
      ∃ y, s.gens[g']? = some y ∧ y'.key = y.key ∧ y'.insts = y.insts := by
    intro g' y' hy'
    rw [gens_modG] at hy'
    cases hy : s.gens[g']? with
    | none => simp [hy] at hy'
    | some y =>
      simp [hy] at hy'
      by_cases hg : g = g'
      · simp [hg] at hy'; subst hy'; exact ⟨y, rfl, (hf y).1, (hf y).2⟩
      · simp [hg] at hy'; subst hy'; exact ⟨y, rfl, rfl, rfl⟩
  refine ⟨?_, ?_⟩
  · intro g' y' i x hy' hx hcx
    obtain ⟨y, hy, hk, hi⟩ := hget g' y' hy'
    rw [hi] at hx
    obtain ⟨r, hr, h1, h2⟩ := h g' y i x hy hx hcx
    exact ⟨r, by rw [hk]; simpa using hr, h1, h2⟩
  · intro g' y' i x hy' hx hcx
    obtain ⟨y, hy, _, hi⟩ := hget g' y' hy'
    rw [hi] at hx
    exact hc g' y i x hy hx hcx

theorem inv3_recordInst (s : St) (g i : Nat) (y : G) (x : Inst) (h : Inv3 s)
    (hy : s.gens[g]? = some y) (hx : y.insts[i]? = some x) (hst : x.st = .closed) :
    Inv3 (recordInst s g i x y.key) := by
  have hK := kinv_recordInst s g i y x h.k hy hx hst
  have hm : modInst s g i (fun z => { z with st := .recorded }) = modInst s g i fun _ => { x with st := .recorded } :=
    modInst_const s g i _ y x hy hx
  have h0 := own_modInst s g i { x with st := .recorded } y x hy hx (fun hc => hc) h.own h.ownc
  rw [← hm] at h0
  unfold recordInst at hK ⊢
  simp only [] at hK ⊢
  cases hk : s.key y.key with
  | none => rw [hk] at hK; exact ⟨hK, h0.1, h0.2⟩
  | some r =>
    rw [hk] at hK
    simp only [] at hK ⊢
    split
    · rename_i hcur
      rw [if_pos hcur] at hK
      refine ⟨hK, ?_, ?_⟩
      · have h1 := own_modG_same _ g (fun z => { z with last := none }) (fun _ => ⟨rfl, rfl⟩) h0.1 h0.2
        apply own_setRec_keep _ y.key r _ h1.1 (by simpa using hk)
        · cases retryCfg s with
          | none => rfl
          | some n =>
            simp only []
            split
            · rfl
            · split <;> rfl
        · cases retryCfg s with
          | none => rfl
          | some n =>
            simp only []
            split
            · rfl
            · split <;> rfl
      · have h1 := own_modG_same _ g (fun z => { z with last := none }) (fun _ => ⟨rfl, rfl⟩) h0.1 h0.2
        exact ownc_congr (s := modG (modInst s g i fun z => { z with st := .recorded }) g fun z => { z with last := none })
          rfl rfl h1.2
    · rename_i hcur
      rw [if_neg hcur] at hK
      exact ⟨hK, h0.1, h0.2⟩

theorem inv3_step (s s' : St) (e : Ev) (h : Inv3 s) (hC : CInv s) (hs : step s e = some s') : Inv3 s' := by
  have hK := kinv_step s s' e h.k hs
  cases e with
  | nilnext k =>
    simp only [step] at hs
    split at hs
    · simp at hs; subst hs; exact inv3_congr (s := s) rfl rfl rfl h
    · simp at hs
  | cancelroot =>
    simp only [step] at hs
    split at hs
    · simp at hs; subst hs; exact inv3_cancelroot s h
    · simp at hs
  | config c =>
    simp only [step] at hs
    split at hs
    · simp at hs; subst hs; exact inv3_congr (s := s) rfl rfl rfl h
    · simp at hs
  | inv id op =>
    simp only [step] at hs
    split at hs
    · simp at hs
    · split at hs
      · simp at hs; subst hs; exact inv3_congr (s := s) rfl rfl rfl h
      · simp at hs
  | exec id =>
    simp only [step] at hs
    split at hs
    · rename_i op hc
      simp at hs; subst hs
      have hnz : ∀ r, op ≠ .setContext (some 0) r := by
        intro r e
        obtain ⟨c, _, hall⟩ := hC.call id op (pendingOp_mem s.calls id op hc)
        rw [e] at hall; simp [Op.allowed] at hall
      exact inv3_congr (s := (execOp (preOp s op) op).1) rfl rfl rfl
        (inv3_execOp (preOp s op) op (inv3_preOp s op h) hnz)
    · simp at hs
  | ctor k d =>
    simp only [step] at hs
    split at hs
    · simp at hs; subst hs; exact inv3_congr (s := s) rfl rfl rfl h
    · simp at hs
  | ret id res =>
    simp only [step] at hs
    split at hs
    · simp at hs; subst hs; exact inv3_congr (s := s) rfl rfl rfl h
    · simp at hs
  | proceed g i =>
    simp only [step] at hs
    obtain ⟨y, x, x', hy, hx, hf, rfl⟩ := instStep_some _ _ _ _ _ hs
    split at hf
    · simp at hf; subst hf
      exact inv3_modInst s _ g i _ y x h hK rfl hy hx (fun hc => hc)
    · simp at hf
  | bail g i =>
    simp only [step] at hs
    obtain ⟨y, x, x', hy, hx, hf, rfl⟩ := instStep_some _ _ _ _ _ hs
    split at hf
    · simp at hf; subst hf
      exact inv3_modInst s _ g i _ y x h hK rfl hy hx (fun hc => hc)
    · simp at hf
  | cbin j g i k d =>
    simp only [step] at hs
    split at hs
    · split at hs
      · simp at hs
      · rename_i y hy
        split at hs
        · simp at hs
        · rename_i x hx
          split at hs
          · simp at hs; subst hs
            have hm := modInst_const s g i (fun x => { x with st := .running }) y x hy hx
            have h1 := own_modInst s g i { x with st := .running } y x hy hx (fun hc => hc) h.own h.ownc
            rw [← hm] at h1
            exact ⟨hK, own_congr (s := modInst s g i fun x => { x with st := .running }) rfl rfl h1.1,
              ownc_congr (s := modInst s g i fun x => { x with st := .running }) rfl rfl h1.2⟩
          · simp at hs
    · simp at hs
  | cbout j o =>
    simp only [step] at hs
    split at hs
    · simp at hs
    · rename_i g i _
      obtain ⟨y, x, x', hy, hx, hf, rfl⟩ := instStep_some _ _ _ _ _ hs
      split at hf
      · simp at hf; subst hf
        exact inv3_modInst s _ g i _ y x h hK rfl hy hx (fun hc => hc)
      · simp at hf
  | closeExit g i =>
    simp only [step] at hs
    obtain ⟨y, x, x', hy, hx, hf, rfl⟩ := instStep_some _ _ _ _ _ hs
    split at hf
    · simp at hf; subst hf
      exact inv3_modInst s _ g i _ y x h hK rfl hy hx (fun hc => by simp at hc)
    · simp at hf
  | record g i =>
    simp only [step] at hs
    split at hs
    · simp at hs
    · rename_i y hy
      split at hs
      · simp at hs
      · rename_i x hx
        split at hs
        · rename_i hc
          simp at hs; subst hs
          exact inv3_recordInst s g i y x h hy hx hc
        · simp at hs
  | timerRemove k =>
    simp only [step] at hs
    split at hs
    · rename_i r hr
      split at hs
      · simp at hs; subst hs; exact inv3_removeNow s k r h hr
      · simp at hs
    · simp at hs
  | timerRetry k =>
    simp only [step] at hs
    split at hs
    · rename_i r hr
      split at hs
      · simp at hs; subst hs
        have h1 := inv3_setRec_keep s k r { r with deferRetry := none } h hr rfl rfl (Or.inr ⟨rfl, rfl⟩)
        split
        · exact inv3_startKey _ k true h1
        · exact h1
      · simp at hs
    · simp at hs
  | advance =>
    simp only [step] at hs
    split at hs
    · simp at hs; subst hs; exact inv3_congr (s := s) rfl rfl rfl h
    · simp at hs
  | quiesce =>
    simp only [step] at hs
    split at hs
    · simp at hs; subst hs; exact h
    · simp at hs
  | boff k b =>
    simp only [step] at hs
    split at hs
    · simp at hs; subst hs; exact h
    · simp at hs
  | probe j c =>
    simp only [step] at hs
    split at hs
    · simp at hs
    · split at hs
      · split at hs
        · simp at hs; subst hs; exact h
        · simp at hs
      · simp at hs

theorem inv3_init : Inv3 ({} : St) :=
  ⟨kinv_init, fun g y i x hy => by simp at hy, fun g y i x hy => by simp at hy⟩

theorem inv3_reachable (s : St) (h : model.Reachable s) : Inv3 s :=
  (model.invariant (fun s => Inv3 s ∧ CInv s) ⟨inv3_init, ⟨fun id op hi => (by cases hi)⟩⟩
    (fun s e s' hi hs => ⟨inv3_step s s' e hi.1 hi.2 hs, cinv_step s s' e hi.2 hs⟩) s h).1

end UtilModel.Keyed
