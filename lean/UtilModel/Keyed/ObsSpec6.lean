import UtilModel.Keyed.ObsSpec5
import UtilModel.Core.Count
/-!
# keyed — soundness of the rules of `monC06o`: references; all calls together
-/
namespace UtilModel.Keyed
open UtilModel

theorem setAt_self {α : Type} (l : List (Option α)) (i : Nat) (v : Option α) : (setAt l i v)[i]? = some v := by
  unfold setAt
  have : i < (l ++ List.replicate (i + 1 - l.length) none).length := by simp; omega
  rw [List.getElem?_set]; simp; omega

theorem setAt_other {α : Type} (l : List (Option α)) (i j : Nat) (v : Option α) (x : α) (h : j ≠ i)
    (hj : (setAt l i v)[j]? = some (some x)) : l[j]? = some (some x) := by
  unfold setAt at hj
  rw [List.getElem?_set_ne (fun e => h e.symm)] at hj
  rw [List.getElem?_append] at hj
  split at hj
  · exact hj
  · rw [List.getElem?_replicate] at hj
    split at hj <;> simp at hj

/-- the liveDef table was cleared for the references the call releases, when the call was invoked -/
def Cleared (m : M6o) : Op → Prop
  | .release r => ∀ (k : Nat), m.liveDef[r]? ≠ some (some k)
  | .rcRemoveKey k => ∀ (r : Nat), m.liveDef[r]? ≠ some (some k)
  | _ => True

theorem ret_addKeyRef (m : M6o) (a : ASt) (f : Nat → Bool) (k : Nat) (res : Res) (hK : Know m a) (hI : SpecInv a)
    (hout : SpecOut a (specStep a f (.addKeyRef k)) (.addKeyRef k) res) :
    ∃ m', m.ret (.addKeyRef k) res = some m' ∧ Know m' (specStep a f (.addKeyRef k)) ∧ m'.pending = m.pending := by
  simp only [SpecOut] at hout
  subst hout
  obtain ⟨m1, h1, h2, h3, h4, h5⟩ := request_sound m a k hK hI
  have hst : (specStep a f (.addKeyRef k)).st k = (request a k).st k := rfl
  have hlive : (specStep a f (.addKeyRef k)).live = a.live ++ [some k] := rfl
  simp only [M6o.ret, hst, h1, Option.map]
  refine ⟨_, rfl, ?_, h5⟩
  refine ⟨h2.delay, h2.epoch, h2.ctx, h2.st, h2.cnt, ?_, ?_⟩
  · intro r k' hr
    simp only [] at hr
    rw [hlive]
    by_cases hrr : r = a.live.length
    · subst hrr
      rw [setAt_self] at hr
      simp only [Option.some.injEq] at hr
      subst hr
      simp
    · have := setAt_other _ _ _ _ _ hrr hr
      rw [h3] at this
      have hl := hK.live r k' this
      rw [List.getElem?_append_left (lt_of_getElem? hl)]; exact hl
  · intro r k' hr
    simp only [] at hr
    rw [hlive]
    by_cases hrr : r = a.live.length
    · subst hrr
      rw [setAt_self] at hr
      simp only [Option.some.injEq] at hr
      subst hr
      refine ⟨by simp, ?_⟩
      intro k'' hk''
      simp at hk''
      exact hk''.symm
    · have := setAt_other _ _ _ _ _ hrr hr
      rw [h4] at this
      obtain ⟨hlt, huniq⟩ := hK.rkey r k' this
      refine ⟨by simp; omega, ?_⟩
      intro k'' hk''
      rw [List.getElem?_append_left hlt] at hk''
      exact huniq k'' hk''

theorem ret_rcRemoveKey (m : M6o) (a : ASt) (f : Nat → Bool) (k : Nat) (res : Res) (hK : Know m a)
    (hclr : Cleared m (.rcRemoveKey k))
    (hout : SpecOut a (specStep a f (.rcRemoveKey k)) (.rcRemoveKey k) res) :
    ∃ m', m.ret (.rcRemoveKey k) res = some m' ∧ Know m' (specStep a f (.rcRemoveKey k)) ∧ m'.pending = m.pending := by
  simp only [SpecOut] at hout
  subst hout
  have hclr' : ∀ (r : Nat), m.liveDef[r]? ≠ some (some k) := hclr
  -- the references of `k` die
  have hK1 : Know m { a with live := a.live.map fun x => if x == some k then none else x } := by
    refine ⟨hK.delay, hK.epoch, hK.ctx, hK.st, hK.cnt, ?_, ?_⟩
    · intro r k' hr
      have hl := hK.live r k' hr
      have hne : k' ≠ k := fun e => hclr' r (e ▸ hr)
      simp [List.getElem?_map, hl, hne]
    · intro r k' hr
      obtain ⟨hlt, huniq⟩ := hK.rkey r k' hr
      refine ⟨by simpa using hlt, ?_⟩
      intro k'' hk''
      simp only [List.getElem?_map] at hk''
      cases hl : a.live[r]? with
      | none => simp [hl] at hk''
      | some x =>
        simp [hl] at hk''
        cases x with
        | none => simp at hk''
        | some k0 =>
          by_cases h0 : k0 = k
          · simp [h0] at hk''
          · simp [h0] at hk''
            exact huniq k'' (by rw [hl, hk''])
  obtain ⟨x, hx, hk⟩ := dismiss_sound m _ (f k) k hK1
  exact ⟨_, by simp only [M6o.ret]; rw [show (a.inSet k) = ({ a with live := a.live.map fun x => if x == some k then none else x } : ASt).inSet k from rfl, hx], hk, rfl⟩

/-- weakening the knowledge of keys is always sound when their state did not change or was dismissed -/
theorem knowK_weaken (a a' : ASt) (x : OK) (k : Nat) (h : KnowK a x k)
    (hst : a'.st k = a.st k ∨ ∃ fl, a'.st k = disSt a fl k) :
    KnowK a' x.weaken k := by
  cases x with
  | absent =>
    simp only [KnowK, OK.weaken] at h ⊢
    rcases hst with h1 | ⟨fl, h1⟩
    · rw [h1]; exact h
    · rw [h1]; simp [disSt, h]
  | present => trivial
  | unknown e => trivial
  | any => trivial

theorem rel_cases (a : ASt) (f : Nat → Bool) (r : Nat) :
    specRelease a f r = a ∨ ∃ k0, a.live[r]? = some (some k0) ∧
      ((specRelease a f r = { a with live := a.live.set r none } ∧
          0 < liveCount { a with live := a.live.set r none } k0) ∨
       (specRelease a f r = dismiss { a with live := a.live.set r none } (f k0) k0 ∧
          liveCount { a with live := a.live.set r none } k0 = 0)) := by
  unfold specRelease
  split
  · rename_i k0 hk0
    right
    refine ⟨k0, hk0, ?_⟩
    simp only []
    split
    · rename_i hz; right; exact ⟨rfl, by simpa using hz⟩
    · rename_i hz
      left
      refine ⟨rfl, ?_⟩
      simp at hz; omega
  · left; rfl

theorem ret_release (m : M6o) (a : ASt) (f : Nat → Bool) (r : Nat) (res : Res) (hK : Know m a)
    (hclr : Cleared m (.release r))
    (hout : SpecOut a (specStep a f (.release r)) (.release r) res) :
    ∃ m', m.ret (.release r) res = some m' ∧ Know m' (specStep a f (.release r)) ∧ m'.pending = m.pending := by
  simp only [SpecOut] at hout
  subst hout
  have hclr' : ∀ (k : Nat), m.liveDef[r]? ≠ some (some k) := hclr
  have hsp : specStep a f (.release r) = specRelease a f r := rfl
  rw [hsp]
  -- what `Release` does to the abstract state
  have hfields : (specRelease a f r).delay = a.delay ∧ (specRelease a f r).epoch = a.epoch ∧
      (specRelease a f r).hasCtx = a.hasCtx ∧ (specRelease a f r).nctor = a.nctor ∧
      ((specRelease a f r).live = a.live ∨ (specRelease a f r).live = a.live.set r none) := by
    rcases rel_cases a f r with h | ⟨k0, _, ⟨h, _⟩ | ⟨h, _⟩⟩ <;> rw [h]
    · exact ⟨rfl, rfl, rfl, rfl, Or.inl rfl⟩
    · exact ⟨rfl, rfl, rfl, rfl, Or.inr rfl⟩
    · exact ⟨rfl, rfl, rfl, rfl, Or.inr rfl⟩
  have hstc : ∀ k', (specRelease a f r).st k' = a.st k' ∨ ∃ fl, (specRelease a f r).st k' = disSt a fl k' := by
    intro k'
    rcases rel_cases a f r with h | ⟨k0, _, ⟨h, _⟩ | ⟨h, _⟩⟩ <;> rw [h]
    · left; rfl
    · left; rfl
    · simp only [dismiss, upd]
      split
      · rename_i hk; subst hk; right; exact ⟨f k', rfl⟩
      · left; rfl
  have hlive : ∀ (r' k' : Nat), m.liveDef[r']? = some (some k') → (specRelease a f r).live[r']? = some (some k') := by
    intro r' k' hr'
    have hne : r' ≠ r := fun e => hclr' k' (e ▸ hr')
    have hl := hK.live r' k' hr'
    rcases hfields.2.2.2.2 with h | h <;> rw [h]
    · exact hl
    · rw [List.getElem?_set_ne (fun e => hne e.symm)]; exact hl
  have hrkey : ∀ (r' k' : Nat), m.refKey[r']? = some (some k') → r' < (specRelease a f r).live.length ∧
      ∀ k'', (specRelease a f r).live[r']? = some (some k'') → k'' = k' := by
    intro r' k' hr'
    obtain ⟨hlt, huniq⟩ := hK.rkey r' k' hr'
    rcases hfields.2.2.2.2 with h | h <;> rw [h]
    · exact ⟨hlt, huniq⟩
    · refine ⟨by simpa using hlt, ?_⟩
      intro k'' hk''
      by_cases hrr : r = r'
      · subst hrr; simp [hlt] at hk''
      · rw [List.getElem?_set_ne hrr] at hk''; exact huniq k'' hk''
  have hcore : ∀ st', (∀ k', KnowK (specRelease a f r) (st' k') k') →
      Know { m with st := st' } (specRelease a f r) := by
    intro st' hst'
    exact ⟨hK.delay.trans hfields.1.symm, hK.epoch.trans hfields.2.1.symm,
      fun c h => by rw [hfields.2.2.1]; exact hK.ctx c h, hst',
      fun k n h => by rw [hfields.2.2.2.1]; exact hK.cnt k n h, hlive, hrkey⟩
  simp only [M6o.ret]
  split
  · rename_i k hrk
    split
    · -- another certainly unreleased reference keeps the key: nothing changes
      rename_i hoth
      refine ⟨m, rfl, ?_, rfl⟩
      have hsame : ∀ k', (specRelease a f r).st k' = a.st k' := by
        intro k'
        rcases rel_cases a f r with h | ⟨k0, hk0, ⟨h, _⟩ | ⟨h, hz⟩⟩
        · rw [h]
        · rw [h]
        · -- impossible: the other reference is still live
          exfalso
          have hkk : k0 = k := (hK.rkey r k hrk).2 k0 hk0
          subst hkk
          simp only [M6o.otherRef, List.any_eq_true, List.mem_range, Bool.and_eq_true, bne_iff_ne, beq_iff_eq] at hoth
          obtain ⟨r', _, hne, hr'⟩ := hoth
          have hl := hK.live r' k0 hr'
          have hpos : 0 < liveCount { a with live := a.live.set r none } k0 := by
            unfold liveCount
            rw [List.countP_pos_iff]
            refine ⟨some k0, ?_, by simp⟩
            apply List.mem_of_getElem? (i := r')
            rw [List.getElem?_set_ne (fun e => hne e.symm)]; exact hl
          omega
      have := hcore m.st (fun k' => knowK_other a _ _ k' (hsame k') (hK.st k'))
      exact this
    · refine ⟨_, rfl, ?_, rfl⟩
      apply hcore
      intro k'
      simp only [updF]
      split
      · rename_i hk; subst hk
        exact knowK_weaken a _ (m.st k') k' (hK.st k') (hstc k')
      · rename_i hk
        -- only the key of the reference can be dismissed
        have hsame : (specRelease a f r).st k' = a.st k' := by
          rcases rel_cases a f r with h | ⟨k0, hk0, ⟨h, _⟩ | ⟨h, hz⟩⟩
          · rw [h]
          · rw [h]
          · have hkk : k0 = k := (hK.rkey r k hrk).2 k0 hk0
            rw [h]; simp [dismiss, upd, hkk, hk]
        exact knowK_other a _ _ k' hsame (hK.st k')
  · refine ⟨_, rfl, ?_, rfl⟩
    apply hcore
    intro k'
    exact knowK_weaken a _ (m.st k') k' (hK.st k') (hstc k')

end UtilModel.Keyed
