import UtilModel.Keyed.ObsSpec5
import UtilModel.Core.Count
/-!
# keyed — soundness of the rules of `monC06o`: references; all calls together
-/
namespace UtilModel.Keyed
open UtilModel

theorem setAt_self {α : Type} (l : List (Option α)) (i : Nat) (v : Option α) : (setAt l i v)[i]? = some v := by
  unfold setAt
  have : i < (l ++ List.replicate (i + 1 - l.length) none).length := by simp; omega
  rw [List.getElem?_set]; simp; omega

theorem setAt_other {α : Type} (l : List (Option α)) (i j : Nat) (v : Option α) (x : α) (h : j ≠ i)
    (hj : (setAt l i v)[j]? = some (some x)) : l[j]? = some (some x) := by
  unfold setAt at hj
  rw [List.getElem?_set_ne (fun e => h e.symm)] at hj
  rw [List.getElem?_append] at hj
  split at hj
  · exact hj
  · rw [List.getElem?_replicate] at hj
    split at hj <;> simp at hj

/-- the liveDef table was cleared for the references the call releases, when the call was invoked -/
def Cleared (m : M6o) : Op → Prop
  | .release r => ∀ (k : Nat), m.liveDef[r]? ≠ some (some k)
  | .rcRemoveKey k => ∀ (r : Nat), m.liveDef[r]? ≠ some (some k)
  | _ => True

theorem ret_addKeyRef (m : M6o) (a : ASt) (f : Nat → Bool) (k : Nat) (res : Res) (hK : Know m a) (hI : SpecInv a)
    (hout : SpecOut a (specStep a f (.addKeyRef k)) (.addKeyRef k) res) :
    ∃ m', m.ret (.addKeyRef k) res = some m' ∧ Know m' (specStep a f (.addKeyRef k)) ∧ m'.pending = m.pending := by
  simp only [SpecOut] at hout
  subst hout
  obtain ⟨m1, h1, h2, h3, h4, h5⟩ := request_sound m a k hK hI
  have hst : (specStep a f (.addKeyRef k)).st k = (request a k).st k := rfl
  have hlive : (specStep a f (.addKeyRef k)).live = a.live ++ [some k] := rfl
  simp only [M6o.ret, hst, h1, Option.map]
  refine ⟨_, rfl, ?_, h5⟩
  refine ⟨h2.delay, h2.epoch, h2.ctx, h2.st, h2.cnt, ?_, ?_⟩
  · intro r k' hr
    simp only [] at hr
    rw [hlive]
    by_cases hrr : r = a.live.length
    · subst hrr
      rw [setAt_self] at hr
      simp only [Option.some.injEq] at hr
      subst hr
      simp
    · have := setAt_other _ _ _ _ _ hrr hr
      rw [h3] at this
      have hl := hK.live r k' this
      rw [List.getElem?_append_left (lt_of_getElem? hl)]; exact hl
  · intro r k' hr
    simp only [] at hr
    rw [hlive]
    by_cases hrr : r = a.live.length
    · subst hrr
      rw [setAt_self] at hr
      simp only [Option.some.injEq] at hr
      subst hr
      refine ⟨by simp, ?_⟩
      intro k'' hk''
      simp at hk''
      exact hk''.symm
    · have := setAt_other _ _ _ _ _ hrr hr
      rw [h4] at this
      obtain ⟨hlt, huniq⟩ := hK.rkey r k' this
      refine ⟨by simp; omega, ?_⟩
      intro k'' hk''
      rw [List.getElem?_append_left hlt] at hk''
      exact huniq k'' hk''

theorem ret_rcRemoveKey (m : M6o) (a : ASt) (f : Nat → Bool) (k : Nat) (res : Res) (hK : Know m a)
    (hclr : Cleared m (.rcRemoveKey k))
    (hout : SpecOut a (specStep a f (.rcRemoveKey k)) (.rcRemoveKey k) res) :
    ∃ m', m.ret (.rcRemoveKey k) res = some m' ∧ Know m' (specStep a f (.rcRemoveKey k)) ∧ m'.pending = m.pending := by
  simp only [SpecOut] at hout
  subst hout
  have hclr' : ∀ (r : Nat), m.liveDef[r]? ≠ some (some k) := hclr
  -- the references of `k` die
  have hK1 : Know m { a with live := a.live.map fun x => if x == some k then none else x } := by
    refine ⟨hK.delay, hK.epoch, hK.ctx, hK.st, hK.cnt, ?_, ?_⟩
    · intro r k' hr
      have hl := hK.live r k' hr
      have hne : k' ≠ k := fun e => hclr' r (e ▸ hr)
      simp [List.getElem?_map, hl, hne]
    · intro r k' hr
      obtain ⟨hlt, huniq⟩ := hK.rkey r k' hr
      refine ⟨by simpa using hlt, ?_⟩
      intro k'' hk''
      simp only [List.getElem?_map] at hk''
      cases hl : a.live[r]? with
      | none => simp [hl] at hk''
      | some x =>
        simp [hl] at hk''
        cases x with
        | none => simp at hk''
        | some k0 =>
          by_cases h0 : k0 = k
          · simp [h0] at hk''
          · simp [h0] at hk''
            exact huniq k'' (by rw [hl, hk''])
  obtain ⟨x, hx, hk⟩ := dismiss_sound m _ (f k) k hK1
  exact ⟨_, by simp only [M6o.ret]; rw [show (a.inSet k) = ({ a with live := a.live.map fun x => if x == some k then none else x } : ASt).inSet k from rfl, hx], hk, rfl⟩

/-- weakening the knowledge of keys is always sound when their state did not change or was dismissed -/
theorem knowK_weaken (a a' : ASt) (x : OK) (k : Nat) (h : KnowK a x k)
    (hst : a'.st k = a.st k ∨ ∃ fl, a'.st k = disSt a fl k) :
    KnowK a' (match x with
      | .absent => .absent
      | _ => .any) k := by
  cases x with
  | absent =>
    simp only [KnowK] at h ⊢
    rcases hst with h1 | ⟨fl, h1⟩
    · rw [h1]; exact h
    · rw [h1]; simp [disSt, h]
  | present => trivial
  | unknown e => trivial
  | any => trivial

end UtilModel.Keyed
