import UtilModel.Keyed.C07Own2
/-!
# keyed — the ownership invariant is preserved by every API call
-/
namespace UtilModel.Keyed
open UtilModel

theorem inv3_remove (s : St) (k : Nat) (r : Rec) (h : Inv3 s) (hk : s.key k = some r) : Inv3 (remove s k r) := by
  unfold remove
  split
  · exact h
  · split
    · exact inv3_removeNow s k r h hk
    · exact inv3_setRec_keep s k r _ h hk rfl rfl (Or.inr ⟨rfl, rfl⟩)

theorem inv3_removeKey (s : St) (k : Nat) (h : Inv3 s) : Inv3 (removeKey s k).1 := by
  unfold removeKey
  cases hk : s.key k with
  | none => exact h
  | some r => exact inv3_remove s k r h hk

theorem inv3_syncS (restart : Bool) (s : St) (k : Nat) (h : Inv3 s) : Inv3 (syncS restart s k) := by
  unfold syncS syncOne
  simp only []
  cases hk : s.key k with
  | none => exact inv3_startKey _ k false (inv3_createKey s k h hk)
  | some r =>
    simp only []
    have h1 := inv3_setRec_keep s k r { r with deferRemove := none } h hk rfl rfl (Or.inr ⟨rfl, rfl⟩)
    split
    · exact inv3_startKey _ k false h1
    · exact h1

theorem inv3_removeAbsent (ks : List Nat) (s : St) (k : Nat) (h : Inv3 s) : Inv3 (removeAbsent ks s k) := by
  unfold removeAbsent
  split
  · exact h
  · exact inv3_removeKey s k h

theorem inv3_setCtxOne (same restart : Bool) (s : St) (k : Nat) (h : Inv3 s) :
    Inv3 (setCtxOne same restart s k) := by
  unfold setCtxOne
  cases hk : s.key k with
  | none => exact h
  | some r =>
    simp only []
    split
    · exact h
    · have h1 := inv3_cancel_set s k r { r with cur := none, cancelOf := none } h hk rfl (Or.inl ⟨rfl, rfl⟩)
      split
      · exact inv3_startKey _ k false h1
      · exact h1

theorem inv3_resetKey (s : St) (k : Nat) (h : Inv3 s) : Inv3 (resetKey s k).1 := by
  unfold resetKey
  cases hk : s.key k with
  | none => exact h
  | some r =>
    simp only []
    exact inv3_startKey _ k false (inv3_reset s k r h hk)

theorem inv3_restartKey (s : St) (k : Nat) (h : Inv3 s) : Inv3 (restartKey s k).1 := by
  unfold restartKey
  cases hk : s.key k with
  | none => exact h
  | some r =>
    cases hc : s.ctx with
    | none => exact h
    | some c =>
      simp only []
      exact inv3_startKey _ k true
        (inv3_cancel_set s k r { r with cancelOf := none } h hk rfl (Or.inr ⟨rfl, rfl⟩))

/-! ## SetContext -/

/-- every instance's context is cancelled -/
def AllCancelled (s : St) : Prop :=
  ∀ (g : Nat) (y : G) (i : Nat) (x : Inst), s.gens[g]? = some y → y.insts[i]? = some x → x.cancelled = true

theorem allCancelled_of_noCtx (s : St) (h : OwnC s) (hc : s.ctx = none) : AllCancelled s := by
  intro g y i x hy hx
  cases hcx : x.cancelled with
  | true => rfl
  | false => have := h g y i x hy hx hcx; simp [hc, isLive] at this

theorem ownc_of_allCancelled (s : St) (h : AllCancelled s) : OwnC s := by
  intro g y i x hy hx hcx; rw [h g y i x hy hx] at hcx; cases hcx

theorem startKey_noCtx (s : St) (k : Nat) (f : Bool) (hc : s.ctx = none) : startKey s k f = s := by
  simp [startKey, hc]

/-- without a context `setContextLocked` only cancels -/
structure NoCtx (s : St) : Prop where
  k : KInv s
  own : Own s
  ctx : s.ctx = none

theorem noCtx_setCtxOne (same restart : Bool) (s : St) (k : Nat) (h : NoCtx s) :
    NoCtx (setCtxOne same restart s k) := by
  unfold setCtxOne
  cases hk : s.key k with
  | none => exact h
  | some r =>
    simp only []
    split
    · exact h
    · have hctx : (setRec (cancelOpt s r.gen r.cancelOf) k (some { r with cur := none, cancelOf := none })).ctx = none := by
        show (cancelOpt s r.gen r.cancelOf).ctx = none
        rw [ctx_cancelOpt]; exact h.ctx
      have h1 : NoCtx (setRec (cancelOpt s r.gen r.cancelOf) k (some { r with cur := none, cancelOf := none })) :=
        ⟨kinv_setRec _ k r _ (kinv_cancelOpt s r.gen r.cancelOf h.k) (by simpa using hk) rfl (Or.inl ⟨rfl, rfl⟩),
         own_replace s k r _ h.own hk, hctx⟩
      rw [startKey_noCtx _ k false hctx]
      split <;> exact h1

theorem allCancelled_setCtxOne (same restart : Bool) (s : St) (k : Nat) (hc : s.ctx = none)
    (h : AllCancelled s) : AllCancelled (setCtxOne same restart s k) := by
  unfold setCtxOne
  cases hk : s.key k with
  | none => exact h
  | some r =>
    simp only []
    split
    · exact h
    · have hctx : (setRec (cancelOpt s r.gen r.cancelOf) k (some { r with cur := none, cancelOf := none })).ctx = none := by
        show (cancelOpt s r.gen r.cancelOf).ctx = none
        rw [ctx_cancelOpt]; exact hc
      have h1 : AllCancelled (setRec (cancelOpt s r.gen r.cancelOf) k (some { r with cur := none, cancelOf := none })) := by
        intro g y i x hy hx
        simp only [gens_setRec] at hy
        cases hco : r.cancelOf with
        | none => rw [hco] at hy; exact h g y i x hy hx
        | some j =>
          rw [hco] at hy
          obtain ⟨y0, x0, hy0, hx0, _, hx'⟩ := getInst_modInst s r.gen j _ g y i x hy hx
          rw [hx']; split
          · rfl
          · exact h g y0 i x0 hy0 hx0
      rw [startKey_noCtx _ k false hctx]
      split <;> exact h1

/-- clearing the context of a `Keyed` that had one: afterwards no record holds a cancel function -/
theorem cancelOf_setCtxOne (restart : Bool) (s : St) (k k' : Nat) (hc : s.ctx = none) :
    ((setCtxOne false restart s k).key k').map (·.cancelOf) =
      if k' = k then ((s.key k).map (·.cancelOf)).map (fun _ => none) else (s.key k').map (·.cancelOf) := by
  unfold setCtxOne
  cases hk : s.key k with
  | none =>
    by_cases hkk : k' = k
    · subst hkk; simp [hk]
    · simp [hkk]
  | some r =>
    simp only [Bool.false_and, Bool.false_eq_true, if_false]
    have hctx : (setRec (cancelOpt s r.gen r.cancelOf) k (some { r with cur := none, cancelOf := none })).ctx = none := by
      show (cancelOpt s r.gen r.cancelOf).ctx = none
      rw [ctx_cancelOpt]; exact hc
    rw [startKey_noCtx _ k false hctx]
    by_cases hkk : k' = k
    · subst hkk; split <;> simp
    · split <;> simp [hkk]

theorem inv3_setContext (s : St) (c : Option Nat) (restart : Bool) (h : Inv3 s) (hc0 : c ≠ some 0) :
    Inv3 (setContext s c restart) := by
  unfold setContext
  simp only []
  split
  · exact h
  · rename_i hsame
    cases c with
    | some c0 =>
      -- a context is set throughout
      have hlive : isLive (some c0) = true := by
        cases c0 with
        | zero => exact absurd rfl hc0
        | succ n => rfl
      have h0 : Inv3 { s with ctx := some c0 } :=
        ⟨kinv_congr (s := s) rfl rfl h.k, own_congr (s := s) rfl rfl h.own, fun _ _ _ _ _ _ _ => hlive⟩
      exact foldl_inv _ (inv3_setCtxOne _ restart) _ _ h0
    | none =>
      have h0 : NoCtx { s with ctx := none } :=
        ⟨kinv_congr (s := s) rfl rfl h.k, own_congr (s := s) rfl rfl h.own, rfl⟩
      cases hb : (s.ctx == none) with
      | true =>
        have hctx : s.ctx = none := eq_of_beq hb
        have hN := foldl_inv (I := NoCtx) _ (noCtx_setCtxOne true restart) (keyList s) _ h0
        refine ⟨hN.k, hN.own, ?_⟩
        -- nothing was running
        have hac : AllCancelled { s with ctx := none } := allCancelled_of_noCtx s h.ownc hctx
        have := foldl_inv (I := fun s' => s'.ctx = none ∧ AllCancelled s') _
          (fun s' k hs' => ⟨(touch_setCtxOne true restart s' k).frame.ctx.trans hs'.1,
            allCancelled_setCtxOne _ restart s' k hs'.1 hs'.2⟩) (keyList s) _ ⟨rfl, hac⟩
        exact ownc_of_allCancelled _ this.2
      | false =>
        have hN := foldl_inv (I := NoCtx) _ (noCtx_setCtxOne false restart) (keyList s) _ h0
        refine ⟨hN.k, hN.own, ?_⟩
        -- every record was told to cancel and holds no cancel function any more
        have hco := foldl_local (fun s k => (s.key k).map (·.cancelOf)) (setCtxOne false restart)
          (fun _ o => o.map fun _ => none) (fun s' => s'.ctx = none)
          (fun s' k hs' => (touch_setCtxOne false restart s' k).frame.ctx.trans hs')
          (fun s' k k' hs' => cancelOf_setCtxOne restart s' k k' hs')
          (keyList s) (nodup_keyList s) { s with ctx := none } rfl
        intro g y i x hy hx hcx
        obtain ⟨r, hr, _, h2⟩ := hN.own g y i x hy hx hcx
        have := hco y.key
        rw [hr] at this
        split at this
        · cases hk0 : ({ s with ctx := none } : St).key y.key with
          | none => simp [hk0] at this
          | some r0 => simp [hk0] at this; rw [this] at h2; cases h2
        · rename_i hnot
          have hk0 : ({ s with ctx := none } : St).key y.key = s.key y.key := rfl
          rw [hk0] at this
          cases hk1 : s.key y.key with
          | none => simp [hk1] at this
          | some r1 => exact absurd ((mem_keyList s y.key).2 (by simp [hk1])) hnot

end UtilModel.Keyed
