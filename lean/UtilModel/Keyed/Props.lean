import UtilModel.Keyed.Corollaries2
import UtilModel.Keyed.C07Retry
import UtilModel.Keyed.ObsC07
import UtilModel.Keyed.ObsC06f
import UtilModel.Keyed.ObsC07c
import UtilModel.Keyed.ObsC07b2
import UtilModel.Keyed.C07Cur
import UtilModel.Keyed.ObsC07r6
/-!
# keyed — property theorems (C06, C07)

All statements are for every event list of the model (`Model.lean`): every number of keys, calls,
instances, every interleaving of calls, goroutine steps and timers, every configuration.
-/
namespace UtilModel.Keyed
open UtilModel

/-! ## C06 — the key set equals what Set/Remove/Sync/refs asked for, delays included -/

/-- **C06 (refinement).** After any run of the model (any number of concurrent callers), the next event
acts on the abstract key set (`abs`) exactly as the specification says (`specEv`: the rule of the call
at its critical section, `advance` ends the epoch, the callback of a removal timer expires its key,
every other event — goroutines, retry timers — is invisible), and the results stored for the call's
`ret` are the ones the specification allows (`SpecOut`: existed, added, removed, data; key lists as
sets). -/
theorem C06_refinement (es : List Ev) (s s' : St) (e : Ev)
    (hr : model.run model.init es = some s) (hs : model.step s e = some s') :
    abs s' = specEv (abs s) s e ∧
    (∀ id op, e = .exec id → pendingOp s.calls id = some op →
      ∃ cs res, .done id cs res ∈ s'.calls ∧ SpecOut (abs s) (abs s') op res) :=
  step_refines s s' e (rinv_reachable s ⟨es, hr⟩) hs

/-- the value a call returns is the one computed in its critical section -/
theorem C06_ret_is_result (s s' : St) (id : Nat) (res : Res) (hs : model.step s (.ret id res) = some s') :
    .done id [] res ∈ s.calls := by
  simp only [model, step] at hs
  split at hs
  · rename_i hc; simpa using hc
  · simp at hs

/-- **C06 (delay).** A key removed with a release delay whose routine has not failed is `leaving`
(the rule); it stays in the set under every event except the callback of its own removal timer … -/
theorem C06_leaving_until_expiry (es : List Ev) (s s' : St) (e : Ev) (k : Nat)
    (hr : model.run model.init es = some s) (hs : model.step s e = some s') (he : e ≠ .timerRemove k)
    (d ep : Nat) (h : (abs s).st k = .leaving d ep) : (abs s').inSet k = true :=
  leaving_step s s' e (rinv_reachable s ⟨es, hr⟩) hs he d ep h

theorem C06_removed_with_delay (a : ASt) (k d : Nat) (hd : a.delay = true) (h : a.st k = .present d) :
    (dismiss a false k).st k = .leaving d a.epoch := dismiss_leaving a k d hd h

/-- … that callback runs only after the epoch in which the timer was armed has ended (after the next
`advance`), and it is what removes the key … -/
theorem C06_expiry_after_advance (s s' : St) (k : Nat) (hs : model.step s (.timerRemove k) = some s') :
    ∃ r e, s.key k = some r ∧ r.deferRemove = some e ∧ e < s.epoch :=
  timerRemove_after_advance s s' k hs

theorem C06_leaving_expires (a : ASt) (k d e : Nat) (h : a.st k = .leaving d e) (he : e < a.epoch) :
    (expire a k).st k = .absent := expire_leaving a k d e h he

/-- … and if it is requested again before (by `SetKey`, `SyncKeys` or a new reference) it is
`present`, which no event other than the critical section of a later call can change (in particular
neither the end of the epoch nor a timer callback that had already fired: C06-s2). -/
theorem C06_rerequest_setKey (a : ASt) (k : Nat) : ∃ d, (request a k).st k = .present d := request_present a k
theorem C06_rerequest_sync (a : ASt) (f : Nat → Bool) (ks : List Nat) (r : Bool) (k : Nat) (hk : k ∈ ks) :
    ∃ d, (specStep a f (.syncKeys ks r)).st k = .present d := sync_present a f ks r k hk
theorem C06_rerequest_ref (a : ASt) (f : Nat → Bool) (k : Nat) :
    ∃ d, (specStep a f (.addKeyRef k)).st k = .present d := addKeyRef_present a f k

theorem C06_present_for_good (es : List Ev) (s s' : St) (e : Ev)
    (hr : model.run model.init es = some s) (hs : model.step s e = some s') (he : ∀ id, e ≠ .exec id)
    (k d : Nat) (h : (abs s).st k = .present d) : (abs s').st k = .present d :=
  present_step s s' e (rinv_reachable s ⟨es, hr⟩) hs he k d h

/-- **C06 (references).** On a `KeyedRefCount` a key with at least one unreleased reference is
`present`: the property is preserved by every event (the calls of the object under test are the
`KeyedRefCount` ones: `CInv`). -/
theorem C06_refs_present_step (es : List Ev) (s s' : St) (e : Ev)
    (hr : model.run model.init es = some s) (hs : model.step s e = some s')
    (hrc : ∀ c, s.cfg = some c → c.rc = true) (h : RcOk (abs s)) : RcOk (abs s') :=
  rcOk_step s s' e (rinv_reachable s ⟨es, hr⟩) (cinv_reachable s ⟨es, hr⟩) hs hrc h

/-- **C06 (double release).** Releasing a reference a second time changes nothing. -/
theorem C06_double_release (a : ASt) (f f' : Nat → Bool) (r : Nat) :
    specRelease (specRelease a f r) f' r = specRelease a f r := release_twice a f f' r

/-- **C06 (condition functions).** `ResetRoutine(k, conds…)` whose condition functions all reject the key
(none is non-nil and accepts (key, data)) changes nothing; with no condition functions it is the plain
`ResetRoutine(k)`. (`RestartRoutine`, `ResetAllRoutines`, `RestartAllRoutines` never change the key set.) -/
theorem C06_reset_conds (a : ASt) (f : Nat → Bool) (k : Nat) (cs : List Cond) :
    (specMatch a cs k = false → specStep a f (.resetRoutine k cs) = a) ∧
    specStep a f (.resetRoutine k []) = renew a k := by
  refine ⟨fun h => by simp [specStep, h], ?_⟩
  simp [specStep, specMatch, condsMatch]

/-- **C06, observable form.** Every observable trace of the model is accepted by the executable monitor
`monC06o`: the key-set specification of `Spec.lean` as a knowledge automaton over what a history shows
(per key `absent`, `present`, "removed with a delay in epoch `e`, or already gone", or `any`). It checks
the `existed`/`data`/`added`/`removed`/count results of every call against the set asked for so far, keys
removed with a delay staying until their epoch ends and gone at the next quiescence, references keeping
their key in the set, a reference released twice counting once. While calls of two callers overlap it
knows nothing about the keys (state `any`); the unobservable `failed` oracle is over-approximated. The
same monitor runs on the histories of the real code (check C06). The proof is a simulation built on
`step_refines`/`execOp_refines` (`ObsSpec*.lean`, `ObsC06a`–`f.lean`). -/
theorem C06_obs (es : List Ev) (s : St) (hr : model.run model.init es = some s) :
    monC06o.accepts (es.filterMap model.obs) = true := C06o_obs es s hr

/-! ## C07 — per key one live routine, cancelled on removal, retried while wanted -/

/-- **C07 (one running).** In every reachable state, two instances of one key generation that have
passed their wait for the predecessor and not yet returned (`entered` or `running`) are the same
instance: a replacement does not enter its function before every instance it replaces has returned
— across `RestartRoutine`, `ResetRoutine` (also with constructors that return a nil `Routine`: D18-keyed,
fixed), `SetContext`, `SetKey`, retries, in any number and order. (A new generation starts only when
the key was not in the set.) -/
theorem one_running_per_key (es : List Ev) (s : St) (hr : model.run model.init es = some s)
    (g i j : Nat) (y : G) (x x' : Inst) (hy : s.gens[g]? = some y)
    (hx : y.insts[i]? = some x) (hx' : y.insts[j]? = some x')
    (ha : x.st.active = true) (ha' : x'.st.active = true) : i = j := by
  have hK := kinv_reachable s ⟨es, hr⟩
  apply Chain.one_running (proj y) (hK.chain g y hy) i j (projI x) (projI x')
  · simp [proj_get, hx]
  · simp [proj_get, hx']
  · cases hst : x.st <;> simp [hst, IS.active] at ha <;> simp [projI, projSt, hst]
  · cases hst : x'.st <;> simp [hst, IS.active] at ha' <;> simp [projI, projSt, hst]

/-- **C07 (one running), observable form.** Every observable trace of the model is accepted by the
executable monitor `monC07a` (the routine functions of one record — one constructor call for one key —
never overlap, however the routine is restarted); the same monitor runs on the histories of the real
code. (`monC07`'s first clause is stronger: it also spans `ResetRoutine`; for it only the state-level
theorem above is proved.) -/
theorem C07_obs_one_running (es : List Ev) (s : St) (hr : model.run model.init es = some s) :
    monC07a.accepts (es.filterMap model.obs) = true := C07a_obs es s hr

/-- **C07 (one running), observable form across `ResetRoutine`/`RestartRoutine`.** Every observable trace of
the model is accepted by the executable monitor `monC07b` (= `monC07a` × `monC06o` + a flag per run "belongs to
the generation of the record now stored under its key"): a routine function is never entered for the
current record of a key while a run of that key, entered for the then-current record, is still inside its
function and the key is known to have stayed in the set since — whatever `ResetRoutine` (a new record with
a new constructor generation), `RestartRoutine`, `SetKey`, `SetContext` and retries did in between. Rests on
`gk_execOp`/`rem_step` (no event changes the generation of a key's record other than by removing it), the
chain invariant and `DInv`. The same monitor runs on the histories of the real code. -/
theorem C07_obs_one_running_across_reset (es : List Ev) (s : St) (hr : model.run model.init es = some s) :
    monC07b.accepts (es.filterMap model.obs) = true := C07b_obs es s hr

/-- **C07 (removal cancels).** In every reachable state an instance whose context is not cancelled
belongs to the generation of the record stored under its key, and that record holds its cancel
function; a context is set and not cancelled. Hence after the event that deletes the key (at once or by
its timer) every instance of that generation is cancelled, and after `ClearContext` — or after the root
context that is installed was cancelled (`env cancelroot`) — every instance is. -/
theorem removed_cancelled (es : List Ev) (s : St) (hr : model.run model.init es = some s)
    (g i : Nat) (y : G) (x : Inst) (hy : s.gens[g]? = some y) (hx : y.insts[i]? = some x) :
    (¬ Alive s g → x.cancelled = true) ∧ (isLive s.ctx = false → x.cancelled = true) := by
  have h3 := inv3_reachable s ⟨es, hr⟩
  refine ⟨?_, ?_⟩
  · intro hd
    cases hc : x.cancelled with
    | true => rfl
    | false =>
      obtain ⟨r, hr', hg, _⟩ := h3.own g y i x hy hx hc
      exact absurd ⟨y.key, r, hr', hg⟩ hd
  · intro hnc
    cases hc : x.cancelled with
    | true => rfl
    | false => have := h3.ownc g y i x hy hx hc; rw [hnc] at this; cases this

/-- **C07 (root context cancelled while installed).** After `env cancelroot` every instance's context is
cancelled; the calls that look at the root context first (`SyncKeys`, `ResetRoutine`, `RestartRoutine` and the
…All forms on a non-empty set) run as if no context were set (`preOp`). -/
theorem cancelroot_cancels (s s' : St) (hs : model.step s .cancelroot = some s')
    (g i : Nat) (y : G) (x : Inst) (hy : s'.gens[g]? = some y) (hx : y.insts[i]? = some x) :
    x.cancelled = true := by
  have hst : step s .cancelroot = some s' := hs
  simp only [step] at hst
  split at hst
  · simp at hst; subst hst; exact allCancelled_cancelAll _ g y i x hy hx
  · simp at hst

theorem looked_at_ctx_is_not_cancelled (s : St) (k : Nat) (ks : List Nat) (b : Bool) (cs : List Cond) :
    (preOp s (.syncKeys ks b)).ctx ≠ some 0 ∧ (preOp s (.resetRoutine k cs)).ctx ≠ some 0 ∧
    (preOp s (.restartRoutine k cs)).ctx ≠ some 0 :=
  ⟨dropDead_ctx s, dropDead_ctx s, dropDead_ctx s⟩

/-- **C07 (who is current).** In every reachable state an instance whose context is not cancelled is the
*current* instance of the record stored under its key: the record belongs to the instance's generation,
`r.ctx` is this instance's context (`r.cur = some i`) and the instance was started for this very record
(`r.id = x.rid`) — so its exit is the one the bookkeeping records and, after an error, retries
(`Own` + `RC`, `kr_reachable`). -/
theorem live_is_current (es : List Ev) (s : St) (hr : model.run model.init es = some s)
    (g i : Nat) (y : G) (x : Inst) (hy : s.gens[g]? = some y) (hx : y.insts[i]? = some x)
    (hc : x.cancelled = false) :
    ∃ r, s.key y.key = some r ∧ r.gen = g ∧ r.cur = some i ∧ r.id = x.rid := by
  obtain ⟨r, hk, hg, hco⟩ := (inv3_reachable s ⟨es, hr⟩).own g y i x hy hx hc
  obtain ⟨h1, h2⟩ := (kr_reachable s ⟨es, hr⟩).rc y.key r i hk hco
  exact ⟨r, hk, hg, h1, (h2 y x (by rw [hg]; exact hy) hx).symm⟩

/-- **C07 (retry), observable form.** Every observable trace of the model is accepted by the executable
monitor `monC07r` (= `monC06o` + a list of owed retries): when the backoff object reports that the exit
bookkeeping armed the retry timer of key `k` (`env boff k armed`; no call in progress, a context known to be
set, `k` known to be in the set) and afterwards no call other than `GetKey`/`GetKeys`/`GetKeysWithData` is
invoked and the root context is not cancelled, a routine function of `k` has been entered again by the
quiescence point that follows the end of the epoch. Proof: the owed retry is in one of two stages — timer armed
and not fired, or fired with the new instance not yet in its function — each of which contradicts quiescence
once the epoch has ended (`stage_step`, `stage_not_quiet`). The same monitor runs on the histories of the
real code. -/
theorem C07_obs_retry (es : List Ev) (s : St) (hr : model.run model.init es = some s) :
    monC07r.accepts (es.filterMap model.obs) = true := C07r_obs es s hr

/-- **C07 (removal cancels), observable form.** Every observable trace of the model is accepted by the
executable monitor `monC07c` (= `monC07a` × `monC06o` + one check): whenever no call is in progress and the
history shows that the key of a routine is out of the set — removed at once, or removed with a delay that
has expired by a quiescence point, and not requested since — or that the context was cleared, a probe of
the routine's context finds it cancelled; and no call is still in progress at a quiescence point (every call
returns). The same monitor runs on the histories of the real code.
(`monC07`'s clause is sharper: it also demands cancellation right after an overlapped removal's effects
are known and tracks generations; for it only the state-level theorem above is proved.) -/
theorem C07_obs_removed_cancelled (es : List Ev) (s : St) (hr : model.run model.init es = some s) :
    monC07c.accepts (es.filterMap model.obs) = true := C07c_obs es s hr

/-- the event that takes the record of a generation out of the map leaves the generation without a
record -/
theorem removed_dead (es : List Ev) (s s' : St) (e : Ev) (hr : model.run model.init es = some s)
    (hs : model.step s e = some s') (k : Nat) (r : Rec) (hk : s.key k = some r)
    (hk' : ∀ r', s'.key k = some r' → r'.gen ≠ r.gen) : ¬ Alive s' r.gen := by
  have hK := kinv_reachable s ⟨es, hr⟩
  have hK' := kinv_step s s' e hK hs
  have hG := grow_step s s' e hs
  rintro ⟨k', r', hr', hg⟩
  obtain ⟨y, hy, hyk⟩ := hK.genKey k r hk
  obtain ⟨y', hy', hyk'⟩ := hK'.genKey k' r' hr'
  obtain ⟨y'', hy'', hk'', _⟩ := hG.gens r.gen y hy
  rw [hg, hy''] at hy'
  simp at hy'; subst hy'
  have : k' = k := by rw [← hyk', hk'', hyk]
  subst this
  exact hk' r' hr' hg

/-- **C07 (nothing is started again).** A generation without a record in the map never gets one again
and never gets another instance, whatever happens afterwards. -/
theorem removed_never_restarted (s s' : St) (es : List Ev) (hr : model.run s es = some s')
    (g : Nat) (y : G) (hy : s.gens[g]? = some y) (hd : ¬ Alive s g) :
    ¬ Alive s' g ∧ ∃ y', s'.gens[g]? = some y' ∧ y'.key = y.key ∧ y'.insts.length = y.insts.length :=
  dead_stays s s' (grow_run s s' es hr) g y hy hd

/-- **C07 (retry).** The exit bookkeeping of a current instance that failed arms the retry timer
while the backoff has not said Stop … -/
theorem retry_pending_armed (s : St) (g i n : Nat) (y : G) (x : Inst) (r : Rec)
    (hy : s.gens[g]? = some y) (hx : y.insts[i]? = some x) (hst : x.st = .closed)
    (hk : s.key y.key = some r) (hid : r.id = x.rid) (hg : r.gen = g) (hc : r.cur = some i)
    (hf : x.failed = true) (hcfg : retryCfg s = some n) (hbo : armOk s n r x = true) :
    ∃ s', model.step s (.record g i) = some s' ∧ Pending s' y.key :=
  retry_armed s g i n y x r hy hx hst hk hid hg hc hf hcfg hbo

/-- `armOk` for the two retry configurations: the scripted backoff (`WithBackoff`) has not said Stop while
fewer than `n` failures were counted since the last success; the library backoff (`WithRetry`, constant
interval, `MaxElapsedTime` one epoch) has not said Stop in the epoch in which the record's own backoff
object was constructed (`SetKey`/`SyncKeys`/`AddKeyRef` of a new key, `ResetRoutine`) or last reset
(success) — per record, whatever other keys did. -/
theorem retry_pending_armed_count (s : St) (n : Nat) (r : Rec) (x : Inst) (hf : freshCfg s = false)
    (hbo : r.bo < n) : armOk s n r x = true := armOk_count s n r x hf hbo

theorem retry_pending_armed_fresh (s : St) (n : Nat) (r : Rec) (x : Inst) (hf : freshCfg s = true)
    (hb : r.born = x.retEpoch) : armOk s n r x = true := armOk_fresh s n r x hf hb

/-- … non-restarting calls keep it: `SetKey(k, start = false)` (this is D6), `SyncKeys(…, restart =
false)` that keeps `k`, and calls on other keys … -/
theorem retry_pending_setKey_nostart (s : St) (k : Nat) (hp : Pending s k) :
    Pending (execOp s (.setKey k false)).1 k := retry_kept_setKey_nostart s k hp

theorem retry_pending_sync_norestart (s : St) (ks : List Nat) (k : Nat) (hin : k ∈ ks) (hp : Pending s k) :
    Pending (execOp s (.syncKeys ks false)).1 k := retry_kept_sync_norestart s ks k hin hp

theorem retry_pending_other_key (s : St) (k k' : Nat) (st : Bool) (cs : List Cond) (hkk : k ≠ k') (hp : Pending s k) :
    Pending (execOp s (.setKey k' st)).1 k ∧ Pending (execOp s (.removeKey k')).1 k ∧
    Pending (execOp s (.restartRoutine k' cs)).1 k ∧ Pending (execOp s (.resetRoutine k' cs)).1 k := by
  refine ⟨retry_kept_setKey_other s k k' st hkk hp, retry_kept_removeKey_other s k k' hkk hp, ?_, ?_⟩
  · simp only [execOp]
    split
    · exact retry_kept_restart_other s k k' hkk hp
    · exact hp
  · simp only [execOp]
    split
    · exact retry_kept_reset_other s k k' hkk hp
    · exact hp

/-- … and once the epoch has ended the timer's step is enabled and, with a context that is not cancelled,
starts a new instance (waiting for its predecessor, not cancelled). -/
theorem retry_pending_fires (es : List Ev) (s : St) (hr : model.run model.init es = some s)
    (k e : Nat) (r : Rec) (hk : s.key k = some r) (hex : r.exited = true) (hd : r.deferRetry = some e)
    (he : e < s.epoch) (hctx : isLive s.ctx = true) :
    ∃ s' r' i y x, model.step s (.timerRetry k) = some s' ∧ s'.key k = some r' ∧ r'.exited = false ∧
      r'.cur = some i ∧ s'.gens[r'.gen]? = some y ∧ y.insts[i]? = some x ∧ x.st = .waiting ∧
      x.cancelled = false :=
  retry_fires s k e r (kinv_reachable s ⟨es, hr⟩) hk hex hd he hctx

/-! ## the hypotheses are satisfiable / the model does something -/

private def cfgD : Cfg := { rc := false, delay := true, retry := some 2 }
private def evs1 : List Ev := [.config cfgD, .inv 0 (.setContext (some 1) false), .exec 0, .ret 0 .unit,
  .inv 1 (.setKey 1 true), .exec 1, .ctor 1 1, .ret 1 (.dataExisted 1 false),
  .inv 2 (.removeKey 1), .exec 2, .ret 2 (.bool true)]

/-- removed with a delay: leaving in epoch 0 -/
example : ((model.run model.init evs1).map fun s => (abs s).st 1) = some (.leaving 1 0) := by decide
/-- the delay expires: the timer deletes the key -/
example : ((model.run model.init (evs1 ++ [.advance, .timerRemove 1])).map fun s => (s.key 1).isSome) = some false := by
  decide
/-- `SyncKeys` keeps it for good (D5) -/
example : ((model.run model.init (evs1 ++ [.inv 3 (.syncKeys [1] false), .exec 3, .ret 3 (.sync [] []), .advance])).map
    fun s => (abs s).st 1) = some (.present 1) := by decide

private def evs2 : List Ev := [.config { rc := false, delay := false, retry := some 2 },
  .inv 0 (.setContext (some 1) false), .exec 0, .ret 0 .unit,
  .inv 1 (.setKey 1 true), .exec 1, .ctor 1 1, .ret 1 (.dataExisted 1 false),
  .proceed 0 0, .cbin 0 0 0 1 1, .cbout 0 .err, .closeExit 0 0, .record 0 0,
  .inv 2 (.setKey 1 false), .exec 2, .ret 2 (.dataExisted 1 true)]

/-- a failed routine has a retry pending, also after `SetKey(1, false)` (D6); after `advance` the timer starts
a second instance, which enters the routine function again -/
example : ((model.run model.init evs2).map fun s => (s.key 1).map fun r => (r.exited, r.err, r.deferRetry)) =
    some (some (true, true, some 0)) := by decide
example : (model.run model.init (evs2 ++ [.advance, .timerRetry 1, .proceed 0 1, .cbin 1 0 1 1 1, .quiesce])).isSome = true := by
  decide
/-- two restarts inside one exit latency: the third instance cannot enter while the first is running -/
example : (model.run model.init [.config { rc := false, delay := false, retry := none },
    .inv 0 (.setContext (some 1) false), .exec 0, .ret 0 .unit,
    .inv 1 (.setKey 1 true), .exec 1, .ctor 1 1, .ret 1 (.dataExisted 1 false), .proceed 0 0, .cbin 0 0 0 1 1,
    .inv 2 (.restartRoutine 1 []), .exec 2, .ret 2 (.existedReset true true),
    .inv 3 (.restartRoutine 1 []), .exec 3, .ret 3 (.existedReset true true),
    .bail 0 1, .proceed 0 2]).isSome = false := by decide

/-- C06-s2: the removal timer of key 1 has fired (epoch over) and its callback has not run yet; `SetKey(1,
false)` reports `existed` and keeps the key; the callback is then no longer enabled -/
example : ((model.run model.init (evs1 ++ [.advance, .inv 3 (.setKey 1 false), .exec 3, .ret 3 (.dataExisted 1 true)])).map
    fun s => (abs s).st 1) = some (.present 1) := by decide
example : (model.run model.init (evs1 ++ [.advance, .inv 3 (.setKey 1 false), .exec 3, .ret 3 (.dataExisted 1 true),
    .timerRemove 1])).isSome = false := by decide

/-- regression for D18-keyed (fixed in /repo a27bd68): `ResetRoutine` with a nil `Routine`, then
`ResetRoutine` again while the first routine is still running — the new instance waits (its `proceed`
is not enabled), and it is enabled once the first instance has returned and closed its channel -/
private def d18Prefix : List Ev := [.config { rc := false, delay := false, retry := none },
  .inv 0 (.setContext (some 1) false), .exec 0, .ret 0 .unit,
  .inv 1 (.setKey 1 true), .exec 1, .ctor 1 1, .ret 1 (.dataExisted 1 false), .proceed 0 0, .cbin 0 0 0 1 1,
  .nilnext 1,
  .inv 2 (.resetRoutine 1 []), .exec 2, .ctor 1 2, .ret 2 (.existedReset true true),
  .inv 3 (.resetRoutine 1 []), .exec 3, .ctor 1 3, .ret 3 (.existedReset true true)]
example : (model.run model.init (d18Prefix ++ [.proceed 0 1])).isSome = false := by decide
example : (model.run model.init (d18Prefix ++ [.cbout 0 .canceled, .closeExit 0 0, .proceed 0 1, .cbin 1 0 1 1 3])).isSome = true := by
  decide

end UtilModel.Keyed
