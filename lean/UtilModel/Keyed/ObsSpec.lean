import UtilModel.Keyed.Corollaries2
import UtilModel.Keyed.Monitors
/-!
# keyed — the knowledge automaton `monC06o` is sound for the key-set specification
-/
namespace UtilModel.Keyed
open UtilModel

/-- the data of a key in the set is its constructor count -/
def SpecInv (a : ASt) : Prop := ∀ k, a.inSet k = true → (a.st k).data = a.nctor k

theorem specInv_request (a : ASt) (k : Nat) (h : SpecInv a) : SpecInv (request a k) := by
  intro k' hin
  by_cases hk : k' = k
  · subst hk
    have hst : (request a k').st k' = reqSt a k' := by simp [request, upd]
    have hn : (request a k').nctor k' = reqCtor a k' := by simp [request, upd]
    rw [hst, hn]
    unfold reqSt reqCtor ASt.inSet
    cases hs : a.st k' with
    | absent => simp [KSt.inSet, KSt.data]
    | present d =>
      have := h k' (by simp [ASt.inSet, hs, KSt.inSet])
      simp [hs, KSt.data] at this; simp [KSt.inSet, KSt.data, this]
    | leaving d e =>
      have := h k' (by simp [ASt.inSet, hs, KSt.inSet])
      simp [hs, KSt.data] at this; simp [KSt.inSet, KSt.data, this]
  · have hst : (request a k).st k' = a.st k' := by simp [request, upd, hk]
    have hn : (request a k).nctor k' = a.nctor k' := by simp [request, upd, hk]
    have hin' : a.inSet k' = true := by simpa [ASt.inSet, hst] using hin
    rw [hst, hn]; exact h k' hin'

theorem specInv_st_le (a : ASt) (st : Nat → KSt) (h : SpecInv a)
    (hst : ∀ k, st k = a.st k ∨ st k = .absent ∨ ∃ d e, a.st k = .present d ∧ st k = .leaving d e) :
    SpecInv { a with st := st } := by
  intro k hin
  simp only [ASt.inSet] at hin ⊢
  rcases hst k with h1 | h1 | ⟨d, e, h1, h2⟩
  · rw [h1] at hin ⊢; exact h k hin
  · rw [h1] at hin; simp [KSt.inSet] at hin
  · rw [h2]
    have := h k (by simp [ASt.inSet, h1, KSt.inSet])
    simpa [h1, KSt.data] using this

theorem disSt_cases (a : ASt) (f : Bool) (k : Nat) :
    disSt a f k = a.st k ∨ disSt a f k = .absent ∨ ∃ d e, a.st k = .present d ∧ disSt a f k = .leaving d e := by
  unfold disSt
  cases hs : a.st k with
  | absent => left; rfl
  | leaving d e => left; rfl
  | present d =>
    simp only []
    split
    · right; left; rfl
    · right; right; exact ⟨d, a.epoch, rfl, rfl⟩

theorem specInv_dismiss (a : ASt) (f : Bool) (k : Nat) (h : SpecInv a) : SpecInv (dismiss a f k) := by
  apply specInv_st_le a _ h
  intro k'
  simp only [upd]
  split
  · rename_i hk; subst hk; exact disSt_cases a f k'
  · left; rfl

theorem specInv_expire (a : ASt) (k : Nat) (h : SpecInv a) : SpecInv (expire a k) := by
  apply specInv_st_le a _ h
  intro k'
  simp only [upd]
  split
  · rename_i hk; subst hk
    unfold expSt
    cases hs : a.st k' with
    | absent => left; rfl
    | present d => left; rfl
    | leaving d e => simp only []; split <;> simp
  · left; rfl

theorem specInv_live (a : ASt) (l : List (Option Nat)) (h : SpecInv a) : SpecInv { a with live := l } := h

theorem specInv_specStep (a : ASt) (f : Nat → Bool) (op : Op) (h : SpecInv a) : SpecInv (specStep a f op) := by
  cases op with
  | setKey k _ => exact specInv_request a k h
  | removeKey k => exact specInv_dismiss a _ k h
  | syncKeys ks r =>
    intro k hin
    simp only [specStep, ASt.inSet] at hin ⊢
    split at hin
    · rename_i hk
      simp only [hk, if_true]
      have := specInv_request a k h k (by simp [request, upd, ASt.inSet]; simpa using hin)
      simpa [request, upd] using this
    · rename_i hk
      simp only [hk]
      have := specInv_dismiss a (f k) k h k (by simp [dismiss, upd, ASt.inSet]; simpa using hin)
      simpa [dismiss, upd] using this
  | getKey _ => exact h
  | getKeys => exact h
  | getKeysWithData => exact h
  | restartRoutine _ _ => exact h
  | restartAll _ => exact h
  | setContext c r => exact h
  | resetRoutine k' cs =>
    simp only [specStep]
    split
    · intro k hin
      simp only [renew, upd, ASt.inSet] at hin ⊢
      split
      · rename_i hk; subst hk
        simp only [if_true, renSt, renCtor] at hin ⊢
        split
        · rfl
        · rename_i hn; simp [hn, KSt.inSet] at hin
      · rename_i hk; simp only [hk, if_false] at hin; exact h k hin
    · exact h
  | resetAll cs =>
    intro k hin
    have hst : (specStep a f (.resetAll cs)).st k = if specMatch a cs k then renSt a k else a.st k := rfl
    have hn : (specStep a f (.resetAll cs)).nctor k = if specMatch a cs k then renCtor a k else a.nctor k := rfl
    rw [hst, hn]
    have hin' : (if specMatch a cs k then renSt a k else a.st k).inSet = true := hin
    cases hm : specMatch a cs k with
    | false => simp only [hm, Bool.false_eq_true, if_false] at hin' ⊢; exact h k hin'
    | true =>
      simp only [hm, if_true] at hin' ⊢
      unfold renSt renCtor at *
      cases hi : a.inSet k with
      | true => simp [KSt.data]
      | false => simp [hi, KSt.inSet] at hin'
  | addKeyRef k => exact specInv_request a k h
  | release r =>
    simp only [specStep, specRelease]
    split
    · split
      · exact specInv_dismiss _ _ _ h
      · exact h
    · exact h
  | rcRemoveKey k => exact specInv_dismiss _ _ k h

/-! ## knowledge -/

/-- what the monitor's state of one key claims about the specification's -/
def KnowK (a : ASt) (x : OK) (k : Nat) : Prop :=
  match x with
  | .absent => a.st k = .absent
  | .present => ∃ d, a.st k = .present d
  | .unknown e => a.st k = .absent ∨ ∃ d, a.st k = .leaving d e
  | .any => True

structure Know (m : M6o) (a : ASt) : Prop where
  delay : m.delay = a.delay
  epoch : m.epoch = a.epoch
  ctx : ∀ c, m.hasCtx = some c → a.hasCtx = c
  st : ∀ k, KnowK a (m.st k) k
  cnt : ∀ k n, m.cnt k = some n → a.nctor k = n
  live : ∀ (r k : Nat), m.liveDef[r]? = some (some k) → a.live[r]? = some (some k)
  rkey : ∀ (r k : Nat), m.refKey[r]? = some (some k) → r < a.live.length ∧ ∀ k', a.live[r]? = some (some k') → k' = k

/-- observing membership is sound and refines -/
theorem obs_sound (a : ASt) (x : OK) (k : Nat) (h : KnowK a x k) :
    ∃ x', x.obs (a.inSet k) = some x' ∧ KnowK a x' k := by
  cases x with
  | absent => simp only [KnowK] at h; simp [OK.obs, ASt.inSet, h, KSt.inSet, KnowK]
  | present => obtain ⟨d, hd⟩ := h; simp [OK.obs, ASt.inSet, hd, KSt.inSet, KnowK]
  | unknown e =>
    rcases h with h | ⟨d, hd⟩
    · simp [OK.obs, ASt.inSet, h, KSt.inSet, KnowK]
    · simp [OK.obs, ASt.inSet, hd, KSt.inSet, KnowK]
  | any =>
    cases hs : a.st k <;> simp [OK.obs, ASt.inSet, hs, KSt.inSet, KnowK]

/-- a key observed out of the set is absent -/
theorem obs_false_absent (a : ASt) (x x' : OK) (k : Nat) (hin : a.inSet k = false) (ho : x.obs false = some x') :
    KnowK a x' k ∧ a.st k = .absent := by
  have habs : a.st k = .absent := by
    cases hs : a.st k <;> simp [ASt.inSet, hs, KSt.inSet] at hin ⊢
  cases x <;> simp [OK.obs] at ho <;> subst ho <;> exact ⟨habs, habs⟩

/-- `dismiss` on a key that was in the set -/
theorem dis_sound (a : ASt) (f : Bool) (x : OK) (k : Nat) (h : KnowK a x k) (hin : a.inSet k = true)
    (md : Bool) (me : Nat) (hd : md = a.delay) (he : me = a.epoch) :
    KnowK (dismiss a f k) (x.dis md me) k := by
  subst hd he
  simp only [KnowK, dismiss, upd, if_true, disSt]
  cases x with
  | absent => simp only [KnowK] at h; simp [ASt.inSet, h, KSt.inSet] at hin
  | present =>
    obtain ⟨d, hd⟩ := h
    simp only [OK.dis, hd]
    cases a.delay <;> cases f <;> simp
  | unknown e =>
    rcases h with h | ⟨d, hd⟩
    · simp [ASt.inSet, h, KSt.inSet] at hin
    · simp [OK.dis, hd]
  | any => simp [OK.dis]

theorem knowK_other (a a' : ASt) (x : OK) (k : Nat) (h : a'.st k = a.st k) (hk : KnowK a x k) : KnowK a' x k := by
  cases x <;> simp only [KnowK] at hk ⊢ <;> rw [h] <;> exact hk

end UtilModel.Keyed
