import UtilModel.Keyed.ObsC07r5
/-!
# keyed — `C07r_obs`: every observable trace of the model is accepted by `monC07r`
-/
namespace UtilModel.Keyed
open UtilModel

/-- an event that neither pays nor cancels a debt -/
theorem owed_plain (s s' : St) (e : Ev) (m : M7r) (o' : M6o) (hR : Sim7r s m) (hs : step s e = some s')
    (h1 : e ≠ .cancelroot) (h2 : ∀ j g i k d, e ≠ .cbin j g i k d) (h3 : ∀ id op, e ≠ .inv id op) :
    OwedInv s' { o := o', owed := m.owed } :=
  owed_next s s' e m m.owed o' hR hs (fun _ => h1) (fun _ hp => hp)
    (fun j g i k d he => absurd he (h2 j g i k d)) (fun id op he => absurd he (h3 id op))

theorem sim7r_step (s : St) (e : Ev) (s' : St) (m : M7r) (hR : Sim7r s m) (hs : model.step s e = some s') :
    match model.obs e with
    | none => Sim7r s' m
    | some ob => ∃ m', monC07r.step m ob = some m' ∧ Sim7r s' m' := by
  have hst : step s e = some s' := hs
  have hG := g6_step s s' e hR.o.1 hst
  have ho := phase_step s s' e m.o hR.o.1 hR.o.2 hst
  have hK := kinv_step s s' e hR.k hst
  cases hob : model.obs e with
  | none =>
    simp only [hob] at ho ⊢
    refine ⟨⟨hG, ho⟩, hK, ?_⟩
    exact owed_plain s s' e m m.o hR hst (fun he => by subst he; cases hob)
      (fun j g i k d he => by subst he; cases hob) (fun id op he => by subst he; cases hob)
  | some ob =>
    simp only [hob] at ho ⊢
    obtain ⟨o', ho1, ho2⟩ := ho
    have hfacts : m.late ob = false ∧ OwedInv s' { o := o', owed := m.next ob } := by
      cases e with
      | proceed g i => cases hob
      | bail g i => cases hob
      | closeExit g i => cases hob
      | record g i => cases hob
      | timerRemove k => cases hob
      | timerRetry k => cases hob
      | exec id => cases hob
      | quiesce =>
        cases hob
        exact ⟨not_late s s' m hR hst, owed_plain s s' _ m o' hR hst (by simp) (by simp) (by simp)⟩
      | cancelroot => cases hob; exact ⟨rfl, owedInv_nil s' o'⟩
      | inv id op =>
        cases hob
        refine ⟨rfl, ?_⟩
        show OwedInv s' { o := o', owed := if isGetter op then m.owed else [] }
        cases hg : isGetter op with
        | false => exact owedInv_nil s' o'
        | true =>
          simp only [if_true]
          exact owed_next s s' _ m m.owed o' hR hst (fun _ => by simp) (fun _ hp => hp)
            (fun j g i k d he => by cases he) (fun id' op' he hgf => by cases he; rw [hg] at hgf; cases hgf)
      | cbin j g i k d =>
        cases hob
        refine ⟨rfl, ?_⟩
        show OwedInv s' { o := o', owed := m.owed.filter (·.1 != k) }
        exact owed_next s s' _ m _ o' hR hst (fun _ => by simp) (fun p hp => (List.mem_filter.1 hp).1)
          (fun j' g' i' k' d' he p hp => by
            cases he
            have := (List.mem_filter.1 hp).2
            simpa using this)
          (fun id op he => by cases he)
      | boff k b =>
        cases hob
        refine ⟨rfl, ?_⟩
        show OwedInv s' { o := o', owed :=
          if b && m.o.pending.isEmpty && (m.o.hasCtx == some true) && (m.o.st k == .present)
          then (k, m.o.epoch) :: m.owed else m.owed }
        split
        · rename_i hc
          simp only [Bool.and_eq_true, List.isEmpty_iff, beq_iff_eq] at hc
          obtain ⟨⟨⟨hb, hp⟩, hcx⟩, hstk⟩ := hc
          subst hb
          have hst2 := hst
          simp only [step] at hst2
          split at hst2
          · rename_i hbo
            simp at hst2; subst hst2
            exact owed_boff s k m o' hR hbo hp hcx hstk
          · simp at hst2
        · exact owed_plain s s' _ m o' hR hst (by simp) (by simp) (by simp)
      | config c => cases hob; exact ⟨rfl, owed_plain s s' _ m o' hR hst (by simp) (by simp) (by simp)⟩
      | ctor k d => cases hob; exact ⟨rfl, owed_plain s s' _ m o' hR hst (by simp) (by simp) (by simp)⟩
      | ret id res => cases hob; exact ⟨rfl, owed_plain s s' _ m o' hR hst (by simp) (by simp) (by simp)⟩
      | cbout j o => cases hob; exact ⟨rfl, owed_plain s s' _ m o' hR hst (by simp) (by simp) (by simp)⟩
      | advance => cases hob; exact ⟨rfl, owed_plain s s' _ m o' hR hst (by simp) (by simp) (by simp)⟩
      | probe j c => cases hob; exact ⟨rfl, owed_plain s s' _ m o' hR hst (by simp) (by simp) (by simp)⟩
      | nilnext k => cases hob; exact ⟨rfl, owed_plain s s' _ m o' hR hst (by simp) (by simp) (by simp)⟩
    obtain ⟨hlate, hw⟩ := hfacts
    refine ⟨{ o := o', owed := m.next ob }, ?_, ⟨hG, ho2⟩, hK, hw⟩
    simp [monC07r, hlate, ho1]

/-- **C07 (retry), observable form.** Every observable trace of the model is accepted by `monC07r`: when the
backoff reports that the exit bookkeeping armed the retry timer of key `k` (no call in progress, a context known
to be set, `k` known to be in the set) and afterwards no call other than a getter is invoked and the root context
is not cancelled, then a routine function of `k` has been entered again by the quiescence point that follows the
end of the epoch. The same monitor is evaluated on the histories of the real code. -/
theorem C07r_obs (es : List Ev) (s : St) (hr : model.run model.init es = some s) :
    monC07r.accepts (es.filterMap model.obs) = true :=
  monitor_accepts_of_simulation model monC07r Sim7r
    ⟨⟨g6_init, .rest rfl rfl know_init⟩, kinv_init, owedInv_nil _ _⟩
    (fun s e s' ms hR hs => by
      have h := sim7r_step s e s' ms hR hs
      cases hob : model.obs e with
      | none => simp only [hob] at h ⊢; exact h
      | some o => simp only [hob] at h ⊢; exact h) es s hr

end UtilModel.Keyed
