import UtilModel.Keyed.ObsData2
/-!
# keyed — the data/generation invariant: API calls and events
-/
namespace UtilModel.Keyed
open UtilModel

theorem kd_cancelOpt (s : St) (g : Nat) (o : Option Nat) (h : KD s) : KD (cancelOpt s g o) :=
  ⟨kinv_cancelOpt s g o h.k, dinv_cancelOpt s g o h.d⟩

theorem kd_setRec (s : St) (k : Nat) (r r' : Rec) (h : KD s) (hk : s.key k = some r)
    (hg : r'.gen = r.gen) (hd : r'.data = r.data)
    (hc : (r'.cur = none ∧ r'.exited = r.exited) ∨ (r'.cur = r.cur ∧ r'.exited = r.exited))
    (hfn : r'.hasFn = r.hasFn := by rfl) : KD (setRec s k (some r')) :=
  ⟨kinv_setRec s k r r' h.k hk hg hc hfn, dinv_setRec s k r r' h.d hk hg hd⟩

theorem kd_congr {s s' : St} (hk : s'.keys = s.keys) (hc : s'.nctor = s.nctor) (hg : s'.gens = s.gens)
    (h : KD s) : KD s' := ⟨kinv_congr hk hg h.k, dinv_congr hk hc hg h.d⟩

theorem kd_removeNow (s : St) (k : Nat) (r : Rec) (h : KD s) : KD (removeNow s k r) :=
  ⟨kinv_removeNow s k r h.k, dinv_delRec _ k (dinv_cancelOpt s r.gen r.cancelOf h.d)⟩

theorem kd_removeKey (s : St) (k : Nat) (h : KD s) : KD (removeKey s k).1 := by
  unfold removeKey
  cases hk : s.key k with
  | none => exact h
  | some r =>
    simp only [remove]
    split
    · exact h
    · split
      · exact kd_removeNow s k r h
      · exact kd_setRec s k r _ h hk rfl rfl (Or.inr ⟨rfl, rfl⟩)

theorem kd_syncS (restart : Bool) (s : St) (k : Nat) (h : KD s) : KD (syncS restart s k) := by
  unfold syncS syncOne
  simp only []
  cases hk : s.key k with
  | none => exact kd_startKey _ k false (kd_createKey s k h hk)
  | some r =>
    simp only []
    have h1 := kd_setRec s k r { r with deferRemove := none } h hk rfl rfl (Or.inr ⟨rfl, rfl⟩)
    split
    · exact kd_startKey _ k false h1
    · exact h1

theorem kd_removeAbsent (ks : List Nat) (s : St) (k : Nat) (h : KD s) : KD (removeAbsent ks s k) := by
  unfold removeAbsent
  split
  · exact h
  · exact kd_removeKey s k h

theorem kd_setCtxOne (same restart : Bool) (s : St) (k : Nat) (h : KD s) : KD (setCtxOne same restart s k) := by
  unfold setCtxOne
  cases hk : s.key k with
  | none => exact h
  | some r =>
    simp only []
    split
    · exact h
    · have h1 : KD (setRec (cancelOpt s r.gen r.cancelOf) k (some { r with cur := none, cancelOf := none })) :=
        kd_setRec _ k r _ (kd_cancelOpt s r.gen r.cancelOf h) (by simpa using hk) rfl rfl (Or.inl ⟨rfl, rfl⟩)
      split
      · exact kd_startKey _ k false h1
      · exact h1

theorem kd_resetKey (s : St) (k : Nat) (h : KD s) : KD (resetKey s k).1 := by
  unfold resetKey
  cases hk : s.key k with
  | none => exact h
  | some r =>
    simp only []
    have h1 := kd_cancelOpt s r.gen r.cancelOf h
    have hk1 : (cancelOpt s r.gen r.cancelOf).key k = some r := by simpa using hk
    exact kd_startKey _ k false ⟨kinv_newRec _ k r h1.k hk1, dinv_newRec _ k r h1.d hk1⟩

theorem kd_restartKey (s : St) (k : Nat) (h : KD s) : KD (restartKey s k).1 := by
  unfold restartKey
  cases hk : s.key k with
  | none => exact h
  | some r =>
    cases hc : s.ctx with
    | none => exact h
    | some c =>
      simp only []
      exact kd_startKey _ k true
        (kd_setRec _ k r _ (kd_cancelOpt s r.gen r.cancelOf h) (by simpa using hk) rfl rfl (Or.inr ⟨rfl, rfl⟩))

theorem kd_execOp (s : St) (op : Op) (h : KD s) : KD (execOp s op).1 := by
  cases op with
  | setKey k st => simp only [execOp]; rw [setKey_eq_syncS]; exact kd_syncS st s k h
  | removeKey k => exact kd_removeKey s k h
  | syncKeys ks restart =>
    simp only [execOp, syncKeys]
    rw [foldl_fst (syncOne restart) (syncS restart) (syncOne_fst restart)]
    exact foldl_inv _ (kd_removeAbsent ks) _ _ (foldl_inv _ (kd_syncS restart) _ _ h)
  | getKey k => simp only [execOp]; split <;> exact h
  | getKeys => exact h
  | getKeysWithData => exact h
  | resetRoutine k cs =>
    simp only [execOp]
    split
    · exact kd_resetKey s k h
    · exact h
  | restartRoutine k cs =>
    simp only [execOp]
    split
    · exact kd_restartKey s k h
    · exact h
  | resetAll cs =>
    simp only [execOp]
    rw [foldl_fst resetAllStep (fun s k => (resetKey s k).1) (fun _ _ => rfl)]
    exact foldl_inv _ kd_resetKey _ _ h
  | restartAll cs =>
    simp only [execOp]
    rw [foldl_fst restartAllStep (fun s k => (restartKey s k).1) (fun _ _ => rfl)]
    exact foldl_inv _ kd_restartKey _ _ h
  | setContext c restart =>
    simp only [execOp, setContext]
    split
    · exact h
    · exact foldl_inv _ (kd_setCtxOne _ restart) _ _ (kd_congr (s := s) rfl rfl rfl h)
  | addKeyRef k =>
    simp only [execOp, addKeyRef]
    have := kd_syncS true s k h
    rw [← setKey_eq_syncS] at this
    exact kd_congr (s := (setKey s k true).1) rfl rfl rfl this
  | release r =>
    simp only [execOp, release]
    split
    · exact h
    · split
      · exact h
      · split
        · exact kd_removeKey _ _ (kd_congr (s := s) rfl rfl rfl h)
        · exact kd_congr (s := s) rfl rfl rfl h
  | rcRemoveKey k =>
    simp only [execOp, rcRemoveKey]
    exact kd_removeKey _ _ (kd_congr (s := s) rfl rfl rfl h)

/-- an instance changes without changing its data -/
theorem dinv_modInst_const (s : St) (g i : Nat) (x' : Inst) (y : G) (x : Inst)
    (hy : s.gens[g]? = some y) (hx : y.insts[i]? = some x) (hd : x'.data = x.data) (h : DInv s) :
    DInv (modInst s g i fun _ => x') := by
  have hfx : ({ x' with data := x.data } : Inst) = x' := by cases x'; simp_all
  have hm : modInst s g i (fun z => { x' with data := z.data }) = modInst s g i fun _ => x' := by
    rw [modInst_const s g i (fun z => { x' with data := z.data }) y x hy hx, hfx]
  rw [← hm]
  exact dinv_modInst s g i _ (fun _ => rfl) h

theorem dinv_recordInst (s : St) (g i : Nat) (x : Inst) (k : Nat) (h : DInv s) : DInv (recordInst s g i x k) := by
  unfold recordInst
  simp only []
  have h0 := dinv_modInst s g i (fun y => { y with st := .recorded }) (fun _ => rfl) h
  cases hk : s.key k with
  | none => exact h0
  | some r =>
    simp only []
    split
    · have h1 := dinv_modG_same _ g (fun y => { y with last := none }) h0 (fun _ => ⟨rfl, rfl⟩)
      apply dinv_setRec _ k r _ h1 (by simpa using hk)
      · cases retryCfg s with
        | none => rfl
        | some n =>
          simp only []
          split
          · rfl
          · split <;> rfl
      · cases retryCfg s with
        | none => rfl
        | some n =>
          simp only []
          split
          · rfl
          · split <;> rfl
    · exact h0

theorem kd_step (s s' : St) (e : Ev) (h : KD s) (hs : step s e = some s') : KD s' := by
  refine ⟨kinv_step s s' e h.k hs, ?_⟩
  cases e with
  | config c =>
    simp only [step] at hs
    split at hs
    · simp at hs; subst hs; exact dinv_congr (s := s) rfl rfl rfl h.d
    · simp at hs
  | inv id op =>
    simp only [step] at hs
    split at hs
    · simp at hs
    · split at hs
      · simp at hs; subst hs; exact dinv_congr (s := s) rfl rfl rfl h.d
      · simp at hs
  | exec id =>
    simp only [step] at hs
    split at hs
    · rename_i op hc
      simp at hs; subst hs
      exact dinv_congr (s := (execOp (preOp s op) op).1) rfl rfl rfl
        (kd_execOp (preOp s op) op (kd_congr (preOp_keys s op) (preOp_fields s op).2.2.2.2.2.2 (preOp_fields s op).1 h)).d
    · simp at hs
  | ctor k d =>
    simp only [step] at hs
    split at hs
    · simp at hs; subst hs; exact dinv_congr (s := s) rfl rfl rfl h.d
    · simp at hs
  | ret id res =>
    simp only [step] at hs
    split at hs
    · simp at hs; subst hs; exact dinv_congr (s := s) rfl rfl rfl h.d
    · simp at hs
  | proceed g i =>
    simp only [step] at hs
    obtain ⟨y, x, x', hy, hx, hf, rfl⟩ := instStep_some _ _ _ _ _ hs
    split at hf
    · simp at hf; subst hf; exact dinv_modInst_const s g i _ y x hy hx rfl h.d
    · simp at hf
  | bail g i =>
    simp only [step] at hs
    obtain ⟨y, x, x', hy, hx, hf, rfl⟩ := instStep_some _ _ _ _ _ hs
    split at hf
    · simp at hf; subst hf; exact dinv_modInst_const s g i _ y x hy hx rfl h.d
    · simp at hf
  | cbin j g i k d =>
    simp only [step] at hs
    split at hs
    · split at hs
      · simp at hs
      · split at hs
        · simp at hs
        · split at hs
          · simp at hs; subst hs
            exact dinv_congr (s := modInst s g i fun x => { x with st := .running }) rfl rfl rfl
              (dinv_modInst s g i _ (fun _ => rfl) h.d)
          · simp at hs
    · simp at hs
  | cbout j o =>
    simp only [step] at hs
    split at hs
    · simp at hs
    · rename_i g i _
      obtain ⟨y, x, x', hy, hx, hf, rfl⟩ := instStep_some _ _ _ _ _ hs
      split at hf
      · simp at hf; subst hf; exact dinv_modInst_const s g i _ y x hy hx rfl h.d
      · simp at hf
  | closeExit g i =>
    simp only [step] at hs
    obtain ⟨y, x, x', hy, hx, hf, rfl⟩ := instStep_some _ _ _ _ _ hs
    split at hf
    · simp at hf; subst hf; exact dinv_modInst_const s g i _ y x hy hx rfl h.d
    · simp at hf
  | record g i =>
    simp only [step] at hs
    split at hs
    · simp at hs
    · split at hs
      · simp at hs
      · split at hs
        · simp at hs; subst hs; exact dinv_recordInst s g i _ _ h.d
        · simp at hs
  | timerRemove k =>
    simp only [step] at hs
    split at hs
    · rename_i r hr
      split at hs
      · simp at hs; subst hs; exact (kd_removeNow s k r h).d
      · simp at hs
    · simp at hs
  | timerRetry k =>
    simp only [step] at hs
    split at hs
    · rename_i r hr
      split at hs
      · simp at hs; subst hs
        have h1 := kd_setRec s k r { r with deferRetry := none } h hr rfl rfl (Or.inr ⟨rfl, rfl⟩)
        split
        · exact (kd_startKey _ k true h1).d
        · exact h1.d
      · simp at hs
    · simp at hs
  | advance =>
    simp only [step] at hs
    split at hs
    · simp at hs; subst hs; exact dinv_congr (s := s) rfl rfl rfl h.d
    · simp at hs
  | quiesce =>
    simp only [step] at hs
    split at hs
    · simp at hs; subst hs; exact h.d
    · simp at hs
  | boff k b =>
    simp only [step] at hs
    split at hs
    · simp at hs; subst hs; exact h.d
    · simp at hs
  | probe j c =>
    simp only [step] at hs
    split at hs
    · simp at hs
    · split at hs
      · split at hs
        · simp at hs; subst hs; exact h.d
        · simp at hs
      · simp at hs
  | nilnext k =>
    simp only [step] at hs
    split at hs
    · simp at hs; subst hs; exact dinv_congr (s := s) rfl rfl rfl h.d
    · simp at hs
  | cancelroot =>
    simp only [step] at hs
    split at hs
    · simp at hs; subst hs
      have h0 : DInv ({ s with ctx := some 0 } : St) := dinv_congr (s := s) rfl rfl rfl h.d
      exact foldl_inv (I := DInv) cancelGen (fun s g h =>
        foldl_inv (I := DInv) (fun s i => cancelOpt s g (some i)) (fun s i h => dinv_cancelOpt s g (some i) h) _ _ h)
        _ _ h0
    · simp at hs

theorem dinv_init : DInv ({} : St) :=
  ⟨fun g y d hy => by simp at hy, fun k r h => by simp [St.key, look] at h,
   fun k r g' y' h => by simp [St.key, look] at h, fun g g' y y' d d' _ hy => by simp at hy⟩

theorem kd_reachable (s : St) (h : model.Reachable s) : KD s :=
  model.invariant KD ⟨kinv_init, dinv_init⟩ (fun s e s' hi hs => kd_step s s' e hi hs) s h

end UtilModel.Keyed
