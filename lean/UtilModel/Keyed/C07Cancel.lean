import UtilModel.Keyed.C07Own3
import UtilModel.Keyed.Corollaries2
/-!
# keyed — `env cancelroot`: after `cancelAll` every instance's context is cancelled; `Inv3` is kept by
`cancelAll` and by forgetting a cancelled root context (`preOp`)
-/
namespace UtilModel.Keyed
open UtilModel

/-- instance `(g, i)`, if it exists, is cancelled -/
def Canc (s : St) (g i : Nat) : Prop :=
  ∀ (y : G) (x : Inst), s.gens[g]? = some y → y.insts[i]? = some x → x.cancelled = true

theorem canc_mono (s : St) (g : Nat) (o : Option Nat) (g' i' : Nat) (h : Canc s g' i') : Canc (cancelOpt s g o) g' i' := by
  cases o with
  | none => exact h
  | some j =>
    intro y x hy hx
    obtain ⟨y0, x0, hy0, hx0, _, hx'⟩ := getInst_modInst s g j _ g' y i' x hy hx
    rw [hx']
    split
    · rfl
    · exact h y0 x0 hy0 hx0

theorem canc_self (s : St) (g i : Nat) : Canc (cancelOpt s g (some i)) g i := by
  intro y x hy hx
  obtain ⟨y0, x0, _, _, _, hx'⟩ := getInst_modInst s g i _ g y i x hy hx
  rw [hx']; simp

theorem instsLen_cancelOpt (s : St) (g : Nat) (o : Option Nat) (g' : Nat) :
    instsLen (cancelOpt s g o) g' = instsLen s g' := by
  cases o with
  | none => rfl
  | some j =>
    simp only [instsLen, cancelOpt, modInst, gens_modG]
    cases hy : s.gens[g']? with
    | none => simp
    | some y => by_cases hg : g = g' <;> simp [hg]

theorem foldl_canc_mono (g : Nat) (L : List Nat) (s : St) (g' i' : Nat) (h : Canc s g' i') :
    Canc (L.foldl (fun s i => cancelOpt s g (some i)) s) g' i' := by
  induction L generalizing s with
  | nil => exact h
  | cons j L ih => exact ih _ (canc_mono s g (some j) g' i' h)

theorem foldl_canc_range (g n : Nat) (s : St) (i : Nat) (hi : i < n) :
    Canc ((List.range n).foldl (fun s i => cancelOpt s g (some i)) s) g i := by
  induction n with
  | zero => omega
  | succ n ih =>
    rw [List.range_succ, List.foldl_append]
    simp only [List.foldl_cons, List.foldl_nil]
    by_cases hin : i < n
    · exact canc_mono _ g (some n) g i (ih hin)
    · have : i = n := by omega
      subst this; exact canc_self _ g i

theorem foldl_instsLen (g : Nat) (L : List Nat) (s : St) (g' : Nat) :
    instsLen (L.foldl (fun s i => cancelOpt s g (some i)) s) g' = instsLen s g' := by
  induction L generalizing s with
  | nil => rfl
  | cons j L ih => rw [List.foldl_cons, ih, instsLen_cancelOpt]

theorem cancelGen_canc (s : St) (g i : Nat) : Canc (cancelGen s g) g i := by
  by_cases hi : i < instsLen s g
  · exact foldl_canc_range g _ s i hi
  · intro y x hy hx
    exfalso
    have hl : instsLen (cancelGen s g) g = instsLen s g := foldl_instsLen g _ s g
    have hl2 : instsLen (cancelGen s g) g = y.insts.length := by simp only [instsLen, hy]
    have := (List.getElem?_eq_some_iff.1 hx).1
    omega

theorem cancelGen_mono (s : St) (g g' i' : Nat) (h : Canc s g' i') : Canc (cancelGen s g) g' i' :=
  foldl_canc_mono g _ s g' i' h

theorem foldl_cancelGen_mono (L : List Nat) (s : St) (g' i' : Nat) (h : Canc s g' i') :
    Canc (L.foldl cancelGen s) g' i' := by
  induction L generalizing s with
  | nil => exact h
  | cons g L ih => exact ih _ (cancelGen_mono s g g' i' h)

theorem foldl_cancelGen_range (n : Nat) (s : St) (g i : Nat) (hg : g < n) :
    Canc ((List.range n).foldl cancelGen s) g i := by
  induction n with
  | zero => omega
  | succ n ih =>
    rw [List.range_succ, List.foldl_append]
    simp only [List.foldl_cons, List.foldl_nil]
    by_cases hgn : g < n
    · exact cancelGen_mono _ n g i (ih hgn)
    · have : g = n := by omega
      subst this; exact cancelGen_canc _ g i

/-- after `env cancelroot` every instance's context is cancelled -/
theorem allCancelled_cancelAll (s : St) : AllCancelled (cancelAll s) := by
  intro g y i x hy hx
  have hlen : (cancelAll s).gens.length = s.gens.length := (sameBut_cancelAll s).len
  have hg : g < s.gens.length := by rw [← hlen]; exact (List.getElem?_eq_some_iff.1 hy).1
  exact foldl_cancelGen_range _ s g i hg y x hy hx

theorem own_cancelGen (s : St) (g : Nat) (h : Own s) : Own (cancelGen s g) :=
  foldl_inv (I := Own) (fun s i => cancelOpt s g (some i)) (fun s i h => own_cancelOpt s g (some i) h) _ _ h

theorem own_cancelAll (s : St) (h : Own s) : Own (cancelAll s) :=
  foldl_inv (I := Own) cancelGen (fun s g h => own_cancelGen s g h) _ _ h

theorem inv3_cancelroot (s : St) (h : Inv3 s) : Inv3 (cancelAll { s with ctx := some 0 }) :=
  ⟨kinv_cancelAll _ (kinv_congr (s := s) rfl rfl h.k), own_cancelAll _ (own_congr (s := s) rfl rfl h.own),
   ownc_of_allCancelled _ (allCancelled_cancelAll _)⟩

/-- forgetting a cancelled root context: every instance was cancelled already -/
theorem inv3_preOp (s : St) (op : Op) (h : Inv3 s) : Inv3 (preOp s op) := by
  rcases preOp_eq s op with e | ⟨hd, e⟩
  · rw [e]; exact h
  · rw [e]
    refine ⟨kinv_congr (s := s) rfl rfl h.k, own_congr (s := s) rfl rfl h.own, ?_⟩
    apply ownc_of_allCancelled
    intro g y i x hy hx
    cases hcx : x.cancelled with
    | true => rfl
    | false => have := h.ownc g y i x hy hx hcx; rw [hd] at this; simp [isLive] at this

end UtilModel.Keyed
