import UtilModel.Keyed.ObsSpec
/-!
# keyed — soundness of the rules of `monC06o` for calls that overlap no other call
-/
namespace UtilModel.Keyed
open UtilModel

theorem know_upd1 (m : M6o) (a a' : ASt) (k : Nat) (x' : OK) (c' : Option Nat) (kn : List Nat) (hK : Know m a)
    (hd : a'.delay = a.delay) (he : a'.epoch = a.epoch) (hc : a'.hasCtx = a.hasCtx) (hl : a'.live = a.live)
    (hst : ∀ k', k' ≠ k → a'.st k' = a.st k') (hn : ∀ k', k' ≠ k → a'.nctor k' = a.nctor k')
    (hx : KnowK a' x' k) (hcn : ∀ n, c' = some n → a'.nctor k = n) :
    Know { m with st := updF m.st k x', cnt := updF m.cnt k c', known := kn } a' := by
  refine ⟨hK.delay.trans hd.symm, hK.epoch.trans he.symm, fun c h => by rw [hc]; exact hK.ctx c h, ?_, ?_,
    by rw [hl]; exact hK.live, by rw [hl]; exact hK.rkey⟩
  · intro k'
    simp only [updF]
    split
    · rename_i h; subst h; exact hx
    · rename_i h; exact knowK_other a a' _ k' (hst k' h) (hK.st k')
  · intro k' n
    simp only [updF]
    split
    · rename_i h; subst h; exact hcn n
    · rename_i h; intro hm; rw [hn k' h]; exact hK.cnt k' n hm

theorem updF_self {α : Type} (f : Nat → α) (k : Nat) : updF f k (f k) = f := by
  funext k'; simp only [updF]; split
  · rename_i h; rw [h]
  · rfl

/-- `request` -/
theorem request_sound (m : M6o) (a : ASt) (k : Nat) (hK : Know m a) (hI : SpecInv a) :
    ∃ m', m.request k ((request a k).st k).data (a.inSet k) = some m' ∧ Know m' (request a k) ∧
      m'.liveDef = m.liveDef ∧ m'.refKey = m.refKey ∧ m'.pending = m.pending := by
  obtain ⟨x', hx', _⟩ := obs_sound a (m.st k) k (hK.st k)
  have hI' := specInv_request a k hI
  have hpres : ∃ d, (request a k).st k = .present d := request_present a k
  have hdata : ((request a k).st k).data = (request a k).nctor k := by
    obtain ⟨d, hd⟩ := hpres
    exact hI' k (by simp [ASt.inSet, hd, KSt.inSet])
  have hnc : (request a k).nctor k = reqCtor a k := by simp [request, upd]
  unfold M6o.request
  rw [hx']
  simp only []
  have hcnt : cntOk (if a.inSet k = true then m.cnt k else (m.cnt k).map (· + 1)) ((request a k).st k).data = true := by
    rw [hdata, hnc]
    unfold cntOk reqCtor
    cases hc : m.cnt k with
    | none => cases a.inSet k <;> simp
    | some n =>
      have := hK.cnt k n hc
      cases hin : a.inSet k <;> simp [this]
  rw [if_pos hcnt]
  refine ⟨_, rfl, ?_, rfl, rfl, rfl⟩
  apply know_upd1 m a (request a k) k .present _ _ hK rfl rfl rfl rfl
  · intro k' hk'; simp [request, upd, hk']
  · intro k' hk'; simp [request, upd, hk']
  · exact hpres
  · intro n hn; simp only [Option.some.injEq] at hn; rw [← hn, hdata]

/-- `dismiss` after the key was reported in the set or not -/
theorem dismiss_sound (m : M6o) (a : ASt) (f : Bool) (k : Nat) (hK : Know m a) :
    ∃ x, (m.st k).obs (a.inSet k) = some x ∧
      Know { m with st := updF m.st k (if a.inSet k then x.dis m.delay m.epoch else .absent), known := k :: m.known }
        (dismiss a f k) := by
  obtain ⟨x, hx, hxk⟩ := obs_sound a (m.st k) k (hK.st k)
  refine ⟨x, hx, ?_⟩
  have h := know_upd1 m a (dismiss a f k) k (if a.inSet k then x.dis m.delay m.epoch else .absent) (m.cnt k) (k :: m.known)
    hK rfl rfl rfl rfl (fun k' hk' => by simp [dismiss, upd, hk']) (fun k' _ => rfl) ?_ (fun n hn => hK.cnt k n hn)
  · rw [updF_self] at h; exact h
  · cases hin : a.inSet k with
    | true => simp only [if_true]; exact dis_sound a f x k hxk hin m.delay m.epoch hK.delay hK.epoch
    | false =>
      have := (obs_false_absent a (m.st k) x k hin (hin ▸ hx)).2
      simp only [Bool.false_eq_true, if_false, KnowK, dismiss, upd, if_true, disSt, this]

end UtilModel.Keyed
