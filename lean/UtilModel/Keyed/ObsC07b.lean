import UtilModel.Keyed.ObsC06f
import UtilModel.Keyed.ObsC07
import UtilModel.Keyed.C07Gen
/-!
# keyed — `C07b_obs`, supporting facts: the run table only grows at `cbin`; "the record of `k` is of
generation `g`" survives every event while the key is known to be in the set
-/
namespace UtilModel.Keyed
open UtilModel

theorem runs_step (s s' : St) (e : Ev) (hs : step s e = some s') :
    s'.runs = s.runs ∨ ∃ j g i k d, e = .cbin j g i k d ∧ s'.runs = s.runs ++ [(g, i)] := by
  cases e with
  | cancelroot =>
    simp only [step] at hs
    split at hs
    · simp at hs; subst hs; exact Or.inl (sameBut_cancelAll _).runs
    · simp at hs
  | nilnext k =>
    simp only [step] at hs
    split at hs
    · simp at hs; subst hs; exact Or.inl rfl
    · simp at hs
  | config c =>
    simp only [step] at hs
    split at hs
    · simp at hs; subst hs; exact Or.inl rfl
    · simp at hs
  | inv id op =>
    simp only [step] at hs
    split at hs
    · simp at hs
    · split at hs
      · simp at hs; subst hs; exact Or.inl rfl
      · simp at hs
  | exec id =>
    simp only [step] at hs
    split at hs
    · rename_i op hc
      simp at hs; subst hs
      exact Or.inl ((runs_execOp (preOp s op) op).trans (preOp_fields s op).2.2.2.1)
    · simp at hs
  | ctor k d =>
    simp only [step] at hs
    split at hs
    · simp at hs; subst hs; exact Or.inl rfl
    · simp at hs
  | ret id res =>
    simp only [step] at hs
    split at hs
    · simp at hs; subst hs; exact Or.inl rfl
    · simp at hs
  | proceed g i =>
    simp only [step] at hs
    obtain ⟨y, x, x', _, _, _, rfl⟩ := instStep_some _ _ _ _ _ hs
    exact Or.inl rfl
  | bail g i =>
    simp only [step] at hs
    obtain ⟨y, x, x', _, _, _, rfl⟩ := instStep_some _ _ _ _ _ hs
    exact Or.inl rfl
  | cbin j g i k d =>
    right
    simp only [step] at hs
    split at hs
    · split at hs
      · simp at hs
      · split at hs
        · simp at hs
        · split at hs
          · simp at hs; subst hs
            exact ⟨j, g, i, k, d, rfl, rfl⟩
          · simp at hs
    · simp at hs
  | cbout j o =>
    simp only [step] at hs
    split at hs
    · simp at hs
    · rename_i g i _
      obtain ⟨y, x, x', _, _, _, rfl⟩ := instStep_some _ _ _ _ _ hs
      exact Or.inl rfl
  | closeExit g i =>
    simp only [step] at hs
    obtain ⟨y, x, x', _, _, _, rfl⟩ := instStep_some _ _ _ _ _ hs
    exact Or.inl rfl
  | record g i =>
    simp only [step] at hs
    split at hs
    · simp at hs
    · split at hs
      · simp at hs
      · split at hs
        · simp at hs; subst hs
          exact Or.inl (touch_recordInst s g i ‹Inst› ‹G›.key).frame.runs
        · simp at hs
  | timerRemove k =>
    simp only [step] at hs
    split at hs
    · rename_i r hr
      split at hs
      · simp at hs; subst hs
        exact Or.inl ((frame_cancelOpt s r.gen r.cancelOf).trans (frame_setRec _ k none)).runs
      · simp at hs
    · simp at hs
  | timerRetry k =>
    simp only [step] at hs
    split at hs
    · rename_i r hr
      split at hs
      · simp at hs; subst hs
        have T1 : Touch k s (setRec s k (some { r with deferRetry := none })) := touch_setRec k s r _ hr rfl rfl
        split
        · exact Or.inl (T1.trans (touch_startKey _ k true)).frame.runs
        · exact Or.inl T1.frame.runs
      · simp at hs
    · simp at hs
  | advance =>
    simp only [step] at hs
    split at hs
    · simp at hs; subst hs; exact Or.inl rfl
    · simp at hs
  | quiesce =>
    simp only [step] at hs
    split at hs
    · simp at hs; subst hs; exact Or.inl rfl
    · simp at hs
  | boff k b =>
    simp only [step] at hs
    split at hs
    · simp at hs; subst hs; exact Or.inl rfl
    · simp at hs
  | probe j c =>
    simp only [step] at hs
    split at hs
    · simp at hs
    · split at hs
      · split at hs
        · simp at hs; subst hs; exact Or.inl rfl
        · simp at hs
      · simp at hs

/-- if `k` has a record, it is of generation `g` -/
def GenOr (s : St) (k g : Nat) : Prop := ∀ r, s.key k = some r → r.gen = g

theorem genOr_rem {s s' : St} (h : Rem s s') (k g : Nat) (hG : GenOr s k g) : GenOr s' k g := by
  intro r' hr'
  rcases h k with e | e
  · rw [hr'] at e
    cases hk : s.key k with
    | none => rw [hk] at e; simp [gm] at e
    | some r =>
      rw [hk] at e
      have := hG r hk
      simp only [gm, Option.map_some, Option.some.injEq] at e
      omega
  · rw [hr'] at e; cases e

/-- a key the monitor knows to be in the set has a record that is not leaving -/
theorem present_key (s : St) (m : M6o) (k : Nat) (hK : Know m (abs s)) (h : m.st k = .present) :
    ∃ r, s.key k = some r ∧ r.deferRemove = none := by
  have := hK.st k
  rw [h] at this
  obtain ⟨d, hd⟩ := this
  simp only [abs, absKey] at hd
  split at hd
  · cases hd
  · rename_i r hr
    split at hd
    · rename_i hdr; exact ⟨r, hr, hdr⟩
    · cases hd

theorem genOr_step (s s' : St) (e : Ev) (m : M6o) (k g : Nat) (hO : Sim6 s m) (hst : m.st k = .present)
    (hG : GenOr s k g) (hs : step s e = some s') : GenOr s' k g := by
  by_cases hex : ∃ id, e = .exec id
  · obtain ⟨id, rfl⟩ := hex
    simp only [step] at hs
    split at hs
    · rename_i op hp
      simp at hs
      have hkey : s'.key k = (execOp (preOp s op) op).1.key k := by subst hs; rfl
      have hpres : ∃ r, s.key k = some r := by
        cases hO.2 with
        | rest _ hc _ => rw [hc] at hp; simp [pendingOp] at hp
        | invoked id' op' _ _ hK _ =>
          obtain ⟨r, hr, _⟩ := present_key s m k hK hst
          exact ⟨r, hr⟩
        | done id' op' cs' res' a f _ hc _ _ _ _ _ _ => rw [hc] at hp; simp [pendingOp] at hp
        | over _ _ hW => rw [hW.st k] at hst; cases hst
      obtain ⟨r, hr⟩ := hpres
      intro r' hr'
      rw [hkey] at hr'
      rw [gk_execOp (preOp s op) op k r r' (by rw [preOp_key]; exact hr) hr']
      exact hG r hr
    · simp at hs
  · exact genOr_rem (rem_step s s' e hs (fun id h => hex ⟨id, h⟩)) k g hG

theorem zipWith_get {α β γ : Type} (f : α → β → γ) (l1 : List α) (l2 : List β) (j : Nat) (c : γ)
    (h : (List.zipWith f l1 l2)[j]? = some c) : ∃ a b, l1[j]? = some a ∧ l2[j]? = some b ∧ c = f a b := by
  induction l1 generalizing l2 j with
  | nil => simp at h
  | cons a l1 ih =>
    cases l2 with
    | nil => simp at h
    | cons b l2 =>
      cases j with
      | zero => simp at h; exact ⟨a, b, rfl, rfl, h.symm⟩
      | succ j => simp at h; simpa using ih l2 j h

/-- a routine instance of `k` whose data is the current constructor generation while `cur` holds belongs to the generation of the record in the map -/
theorem cur_gen (s : St) (o : M6o) (k d g' i' : Nat) (y' : G) (x' : Inst) (hD : DInv s) (hO : Sim6 s o)
    (hc : o.cur k d = true) (hy' : s.gens[g']? = some y') (hx' : y'.insts[i']? = some x')
    (hk : y'.key = k) (hd : x'.data = d) : ∃ r, s.key k = some r ∧ r.gen = g' := by
  simp only [M6o.cur, Bool.and_eq_true, List.isEmpty_iff, beq_iff_eq] at hc
  obtain ⟨⟨hp, hst⟩, hcnt⟩ := hc
  have hcalls : s.calls = [] := by
    have := hO.2.ids; rw [hp] at this; simpa using this.symm
  obtain ⟨_, hK⟩ := hO.2.quiet hcalls
  obtain ⟨r, hr, hdr⟩ := present_key s o k hK hst
  refine ⟨r, hr, ?_⟩
  have hn : s.ctors k = d := hK.cnt k d hcnt
  have hdata : r.data = s.ctors k := by
    have := hO.1.si k (by simp [ASt.inSet, abs, absKey, hr, hdr, KSt.inSet])
    simpa [abs, absKey, hr, hdr, KSt.data] using this
  by_cases hg : g' = r.gen
  · exact hg.symm
  · have := (hD.latest k r g' y' hr hy' hk hg).2 x'.data (List.mem_map.2 ⟨x', List.mem_of_getElem? hx', rfl⟩)
    omega

end UtilModel.Keyed
