import UtilModel.Keyed.ObsSpec2
/-!
# keyed — soundness of the rules of `monC06o`: single-key calls and reads
-/
namespace UtilModel.Keyed
open UtilModel

/-- certainly unreleased references keep their key in the set -/
theorem refsIn_sound (m : M6o) (a : ASt) (hK : Know m a) (hR : RcOk a) (p : Nat → Bool)
    (hp : ∀ k, a.inSet k = true → p k = true) : m.refsIn p = true := by
  unfold M6o.refsIn
  rw [List.all_eq_true]
  intro x hx
  cases x with
  | none => rfl
  | some k =>
    obtain ⟨r, hr⟩ := List.getElem?_of_mem hx
    have hl := hK.live r k hr
    have hpos : 0 < liveCount a k := by
      unfold liveCount
      rw [List.countP_pos_iff]
      exact ⟨some k, List.mem_of_getElem? hl, by simp⟩
    obtain ⟨d, hd⟩ := hR k hpos
    exact hp k (inSet_of_present a k d hd)

theorem data_eq (a : ASt) (hI : SpecInv a) (k : Nat) (h : a.inSet k = true) : (a.st k).data = a.nctor k := hI k h

theorem data_absent (a : ASt) (k : Nat) (h : a.inSet k = false) : (a.st k).data = 0 := by
  cases hs : a.st k <;> simp [ASt.inSet, hs, KSt.inSet, KSt.data] at h ⊢

/-- what every rule keeps -/
structure Keeps (m m' : M6o) : Prop where
  pending : m'.pending = m.pending

theorem ret_setKey (m : M6o) (a : ASt) (f : Nat → Bool) (k : Nat) (st : Bool) (res : Res) (hK : Know m a) (hI : SpecInv a)
    (hout : SpecOut a (specStep a f (.setKey k st)) (.setKey k st) res) :
    ∃ m', m.ret (.setKey k st) res = some m' ∧ Know m' (specStep a f (.setKey k st)) ∧ m'.pending = m.pending := by
  simp only [SpecOut, specStep] at hout
  subst hout
  obtain ⟨m', h1, h2, _, _, h5⟩ := request_sound m a k hK hI
  exact ⟨m', h1, h2, h5⟩

theorem ret_removeKey (m : M6o) (a : ASt) (f : Nat → Bool) (k : Nat) (res : Res) (hK : Know m a)
    (hout : SpecOut a (specStep a f (.removeKey k)) (.removeKey k) res) :
    ∃ m', m.ret (.removeKey k) res = some m' ∧ Know m' (specStep a f (.removeKey k)) ∧ m'.pending = m.pending := by
  simp only [SpecOut] at hout
  subst hout
  obtain ⟨x, hx, hk⟩ := dismiss_sound m a (f k) k hK
  exact ⟨_, by simp only [M6o.ret, hx], hk, rfl⟩

theorem ret_getKey (m : M6o) (a : ASt) (f : Nat → Bool) (k : Nat) (res : Res) (hK : Know m a) (hI : SpecInv a)
    (hR : RcOk a) (hout : SpecOut a (specStep a f (.getKey k)) (.getKey k) res) :
    ∃ m', m.ret (.getKey k) res = some m' ∧ Know m' (specStep a f (.getKey k)) ∧ m'.pending = m.pending := by
  simp only [SpecOut] at hout
  subst hout
  obtain ⟨x, hx, hxk⟩ := obs_sound a (m.st k) k (hK.st k)
  have hrefs : m.refsIn (fun k' => k' != k || a.inSet k) = true := by
    apply refsIn_sound m a hK hR
    intro k' hin
    by_cases hkk : k' = k
    · subst hkk; simp [hin]
    · simp [hkk]
  simp only [M6o.ret, hx, hrefs, Bool.true_and, specStep]
  cases hin : a.inSet k with
  | true =>
    have hd := data_eq a hI k hin
    have hc : cntOk (m.cnt k) (a.st k).data = true := by
      unfold cntOk
      cases hcn : m.cnt k with
      | none => rfl
      | some n => simp [hK.cnt k n hcn, hd]
    simp only [if_true, hc]
    refine ⟨_, rfl, ?_, rfl⟩
    apply know_upd1 m a a k x _ _ hK rfl rfl rfl rfl (fun _ _ => rfl) (fun _ _ => rfl) hxk
    intro n hn; simp only [Option.some.injEq] at hn; rw [← hn, hd]
  | false =>
    have hd := data_absent a k hin
    simp only [Bool.false_eq_true, if_false, hd, beq_self_eq_true]
    refine ⟨_, rfl, ?_, rfl⟩
    have := know_upd1 m a a k x (m.cnt k) (k :: m.known) hK rfl rfl rfl rfl (fun _ _ => rfl) (fun _ _ => rfl) hxk
      (fun n hn => hK.cnt k n hn)
    rw [updF_self] at this; exact this

/-- what the monitor expects of the condition functions is what the specification says -/
theorem expMatch_sound (m : M6o) (a : ASt) (cs : List Cond) (k : Nat) (b : Bool) (hK : Know m a) (hI : SpecInv a)
    (h : expMatch m cs k = some b) (hin : a.inSet k = true) : specMatch a cs k = b := by
  unfold expMatch at h
  split at h
  · rename_i he
    cases h
    simp [specMatch, condsMatch, he]
  · cases hc : m.cnt k with
    | none => simp [hc] at h
    | some n =>
      simp [hc] at h
      have hn := hK.cnt k n hc
      have hd := hI k hin
      simp [specMatch, hin, hd, hn, h]

theorem renew_absent (a : ASt) (k : Nat) (hin : a.inSet k = false) (habs : a.st k = .absent) : renew a k = a := by
  have h1 : renSt a k = a.st k := by simp [renSt, hin, habs]
  have h2 : renCtor a k = a.nctor k := by simp [renCtor, hin]
  simp only [renew, h1, h2]
  cases a
  simp only [ASt.mk.injEq, true_and]
  exact ⟨upd_self _ _, upd_self _ _, trivial⟩

theorem ret_resetRoutine (m : M6o) (a : ASt) (f : Nat → Bool) (k : Nat) (cs : List Cond) (res : Res) (hK : Know m a)
    (hI : SpecInv a)
    (hout : SpecOut a (specStep a f (.resetRoutine k cs)) (.resetRoutine k cs) res) :
    ∃ m', m.ret (.resetRoutine k cs) res = some m' ∧ Know m' (specStep a f (.resetRoutine k cs)) ∧
      m'.pending = m.pending := by
  simp only [SpecOut] at hout
  subst hout
  obtain ⟨x, hx, hxk⟩ := obs_sound a (m.st k) k (hK.st k)
  have hchk : chkMatch (expMatch m cs k) (a.inSet k && specMatch a cs k) (a.inSet k) = true := by
    cases he : expMatch m cs k with
    | none => rfl
    | some b =>
      cases hin : a.inSet k with
      | false => simp [chkMatch]
      | true => simp [chkMatch, expMatch_sound m a cs k b hK hI he hin]
  have hre : (!(a.inSet k && specMatch a cs k) || a.inSet k) = true := by cases a.inSet k <;> simp
  simp only [M6o.ret, hx, hchk, hre, Bool.and_self, if_true, specStep]
  refine ⟨_, rfl, ?_, rfl⟩
  cases hin : a.inSet k with
  | true =>
    cases hm : specMatch a cs k with
    | true =>
      simp only [Bool.and_self, if_true]
      apply know_upd1 m a (renew a k) k .present _ _ hK rfl rfl rfl rfl
      · intro k' hk'; simp [renew, upd, hk']
      · intro k' hk'; simp [renew, upd, hk']
      · exact ⟨a.nctor k + 1, by simp [renew, upd, renSt, hin]⟩
      · intro n hn
        cases hc : m.cnt k with
        | none => simp [hc] at hn
        | some n0 =>
          simp [hc] at hn
          simp [renew, upd, renCtor, hin, hK.cnt k n0 hc, hn]
    | false =>
      simp only [Bool.and_false, Bool.false_eq_true, if_false]
      have := know_upd1 m a a k x (m.cnt k) (k :: m.known) hK rfl rfl rfl rfl (fun _ _ => rfl) (fun _ _ => rfl)
        hxk (fun n hn => hK.cnt k n hn)
      rw [updF_self] at this; exact this
  | false =>
    have hm : specMatch a cs k = true := by simp [specMatch, hin]
    simp only [Bool.false_and, Bool.false_eq_true, if_false, hm, if_true]
    have habs := (obs_false_absent a (m.st k) x k hin (hin ▸ hx)).2
    rw [renew_absent a k hin habs]
    have := know_upd1 m a a k x (m.cnt k) (k :: m.known) hK rfl rfl rfl rfl (fun _ _ => rfl) (fun _ _ => rfl) hxk
      (fun n hn => hK.cnt k n hn)
    rw [updF_self] at this; exact this

theorem ret_restartRoutine (m : M6o) (a : ASt) (f : Nat → Bool) (k : Nat) (cs : List Cond) (res : Res)
    (hK : Know m a) (hI : SpecInv a)
    (hout : SpecOut a (specStep a f (.restartRoutine k cs)) (.restartRoutine k cs) res) :
    ∃ m', m.ret (.restartRoutine k cs) res = some m' ∧ Know m' (specStep a f (.restartRoutine k cs)) ∧
      m'.pending = m.pending := by
  simp only [SpecOut] at hout
  subst hout
  obtain ⟨x, hx, hxk⟩ := obs_sound a (m.st k) k (hK.st k)
  have hkn := know_upd1 m a a k x (m.cnt k) (k :: m.known) hK rfl rfl rfl rfl (fun _ _ => rfl) (fun _ _ => rfl) hxk
    (fun n hn => hK.cnt k n hn)
  rw [updF_self] at hkn
  have hre : (!(a.inSet k && a.hasCtx && specMatch a cs k) || a.inSet k) = true := by cases a.inSet k <;> simp
  have hchk : chkMatch2 m.hasCtx (expMatch m cs k) (a.inSet k && a.hasCtx && specMatch a cs k) (a.inSet k) = true := by
    cases hh : m.hasCtx with
    | none => rfl
    | some c =>
      cases he : expMatch m cs k with
      | none => rfl
      | some b =>
        have hc := hK.ctx c hh
        cases hin : a.inSet k with
        | false => simp [chkMatch2]
        | true => simp [chkMatch2, expMatch_sound m a cs k b hK hI he hin, hc]
  simp only [M6o.ret, hx, specStep, hre, hchk, Bool.and_self, if_true]
  exact ⟨_, rfl, hkn, rfl⟩

theorem ret_setContext (m : M6o) (a : ASt) (f : Nat → Bool) (c : Option Nat) (r : Bool) (res : Res) (hK : Know m a)
    (hout : SpecOut a (specStep a f (.setContext c r)) (.setContext c r) res) :
    ∃ m', m.ret (.setContext c r) res = some m' ∧ Know m' (specStep a f (.setContext c r)) ∧ m'.pending = m.pending := by
  simp only [SpecOut] at hout
  subst hout
  refine ⟨_, rfl, ?_, rfl⟩
  exact ⟨hK.delay, hK.epoch, fun c' h => by simp at h; simp [specStep, h], hK.st, hK.cnt, hK.live, hK.rkey⟩

end UtilModel.Keyed
