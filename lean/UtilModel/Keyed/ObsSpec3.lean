import UtilModel.Keyed.ObsSpec2
/-!
# keyed — soundness of the rules of `monC06o`: single-key calls and reads
-/
namespace UtilModel.Keyed
open UtilModel

/-- certainly unreleased references keep their key in the set -/
theorem refsIn_sound (m : M6o) (a : ASt) (hK : Know m a) (hR : RcOk a) (p : Nat → Bool)
    (hp : ∀ k, a.inSet k = true → p k = true) : m.refsIn p = true := by
  unfold M6o.refsIn
  rw [List.all_eq_true]
  intro x hx
  cases x with
  | none => rfl
  | some k =>
    obtain ⟨r, hr⟩ := List.getElem?_of_mem hx
    have hl := hK.live r k hr
    have hpos : 0 < liveCount a k := by
      unfold liveCount
      rw [List.countP_pos_iff]
      exact ⟨some k, List.mem_of_getElem? hl, by simp⟩
    obtain ⟨d, hd⟩ := hR k hpos
    exact hp k (inSet_of_present a k d hd)

theorem data_eq (a : ASt) (hI : SpecInv a) (k : Nat) (h : a.inSet k = true) : (a.st k).data = a.nctor k := hI k h

theorem data_absent (a : ASt) (k : Nat) (h : a.inSet k = false) : (a.st k).data = 0 := by
  cases hs : a.st k <;> simp [ASt.inSet, hs, KSt.inSet, KSt.data] at h ⊢

/-- what every rule keeps -/
structure Keeps (m m' : M6o) : Prop where
  pending : m'.pending = m.pending

theorem ret_setKey (m : M6o) (a : ASt) (f : Nat → Bool) (k : Nat) (st : Bool) (res : Res) (hK : Know m a) (hI : SpecInv a)
    (hout : SpecOut a (specStep a f (.setKey k st)) (.setKey k st) res) :
    ∃ m', m.ret (.setKey k st) res = some m' ∧ Know m' (specStep a f (.setKey k st)) ∧ m'.pending = m.pending := by
  simp only [SpecOut, specStep] at hout
  subst hout
  obtain ⟨m', h1, h2, _, _, h5⟩ := request_sound m a k hK hI
  exact ⟨m', h1, h2, h5⟩

theorem ret_removeKey (m : M6o) (a : ASt) (f : Nat → Bool) (k : Nat) (res : Res) (hK : Know m a)
    (hout : SpecOut a (specStep a f (.removeKey k)) (.removeKey k) res) :
    ∃ m', m.ret (.removeKey k) res = some m' ∧ Know m' (specStep a f (.removeKey k)) ∧ m'.pending = m.pending := by
  simp only [SpecOut] at hout
  subst hout
  obtain ⟨x, hx, hk⟩ := dismiss_sound m a (f k) k hK
  exact ⟨_, by simp only [M6o.ret, hx], hk, rfl⟩

theorem ret_getKey (m : M6o) (a : ASt) (f : Nat → Bool) (k : Nat) (res : Res) (hK : Know m a) (hI : SpecInv a)
    (hR : RcOk a) (hout : SpecOut a (specStep a f (.getKey k)) (.getKey k) res) :
    ∃ m', m.ret (.getKey k) res = some m' ∧ Know m' (specStep a f (.getKey k)) ∧ m'.pending = m.pending := by
  simp only [SpecOut] at hout
  subst hout
  obtain ⟨x, hx, hxk⟩ := obs_sound a (m.st k) k (hK.st k)
  have hrefs : m.refsIn (fun k' => k' != k || a.inSet k) = true := by
    apply refsIn_sound m a hK hR
    intro k' hin
    by_cases hkk : k' = k
    · subst hkk; simp [hin]
    · simp [hkk]
  simp only [M6o.ret, hx, hrefs, Bool.true_and, specStep]
  cases hin : a.inSet k with
  | true =>
    have hd := data_eq a hI k hin
    have hc : cntOk (m.cnt k) (a.st k).data = true := by
      unfold cntOk
      cases hcn : m.cnt k with
      | none => rfl
      | some n => simp [hK.cnt k n hcn, hd]
    simp only [if_true, hc]
    refine ⟨_, rfl, ?_, rfl⟩
    apply know_upd1 m a a k x _ _ hK rfl rfl rfl rfl (fun _ _ => rfl) (fun _ _ => rfl) hxk
    intro n hn; simp only [Option.some.injEq] at hn; rw [← hn, hd]
  | false =>
    have hd := data_absent a k hin
    simp only [Bool.false_eq_true, if_false, hd, beq_self_eq_true]
    refine ⟨_, rfl, ?_, rfl⟩
    have := know_upd1 m a a k x (m.cnt k) (k :: m.known) hK rfl rfl rfl rfl (fun _ _ => rfl) (fun _ _ => rfl) hxk
      (fun n hn => hK.cnt k n hn)
    rw [updF_self] at this; exact this

theorem ret_resetRoutine (m : M6o) (a : ASt) (f : Nat → Bool) (k : Nat) (res : Res) (hK : Know m a)
    (hout : SpecOut a (specStep a f (.resetRoutine k)) (.resetRoutine k) res) :
    ∃ m', m.ret (.resetRoutine k) res = some m' ∧ Know m' (specStep a f (.resetRoutine k)) ∧ m'.pending = m.pending := by
  simp only [SpecOut] at hout
  subst hout
  obtain ⟨x, hx, hxk⟩ := obs_sound a (m.st k) k (hK.st k)
  simp only [M6o.ret, hx, beq_self_eq_true, if_true, specStep]
  refine ⟨_, rfl, ?_, rfl⟩
  cases hin : a.inSet k with
  | true =>
    simp only [if_true]
    apply know_upd1 m a (renew a k) k .present _ _ hK rfl rfl rfl rfl
    · intro k' hk'; simp [renew, upd, hk']
    · intro k' hk'; simp [renew, upd, hk']
    · exact ⟨a.nctor k + 1, by simp [renew, upd, renSt, hin]⟩
    · intro n hn
      cases hc : m.cnt k with
      | none => simp [hc] at hn
      | some n0 =>
        simp [hc] at hn
        simp [renew, upd, renCtor, hin, hK.cnt k n0 hc, hn]
  | false =>
    simp only [Bool.false_eq_true, if_false]
    have hren : renew a k = a := by
      have h1 : renSt a k = a.st k := by
        have := (obs_false_absent a (m.st k) x k hin (hin ▸ hx)).2
        simp [renSt, hin, this]
      have h2 : renCtor a k = a.nctor k := by simp [renCtor, hin]
      simp only [renew, h1, h2]
      cases a
      simp only [ASt.mk.injEq, true_and]
      exact ⟨upd_self _ _, upd_self _ _, trivial⟩
    rw [hren]
    have := know_upd1 m a a k x (m.cnt k) (k :: m.known) hK rfl rfl rfl rfl (fun _ _ => rfl) (fun _ _ => rfl) hxk
      (fun n hn => hK.cnt k n hn)
    rw [updF_self] at this; exact this

theorem ret_restartRoutine (m : M6o) (a : ASt) (f : Nat → Bool) (k : Nat) (res : Res) (hK : Know m a)
    (hout : SpecOut a (specStep a f (.restartRoutine k)) (.restartRoutine k) res) :
    ∃ m', m.ret (.restartRoutine k) res = some m' ∧ Know m' (specStep a f (.restartRoutine k)) ∧ m'.pending = m.pending := by
  simp only [SpecOut] at hout
  subst hout
  obtain ⟨x, hx, hxk⟩ := obs_sound a (m.st k) k (hK.st k)
  have hkn := know_upd1 m a a k x (m.cnt k) (k :: m.known) hK rfl rfl rfl rfl (fun _ _ => rfl) (fun _ _ => rfl) hxk
    (fun n hn => hK.cnt k n hn)
  rw [updF_self] at hkn
  simp only [M6o.ret, hx, specStep]
  cases hh : m.hasCtx with
  | none => exact ⟨_, by simp [hh], hkn, rfl⟩
  | some c =>
    have := hK.ctx c hh
    exact ⟨_, by simp [this, hh], hkn, rfl⟩

theorem ret_setContext (m : M6o) (a : ASt) (f : Nat → Bool) (c : Option Nat) (r : Bool) (res : Res) (hK : Know m a)
    (hout : SpecOut a (specStep a f (.setContext c r)) (.setContext c r) res) :
    ∃ m', m.ret (.setContext c r) res = some m' ∧ Know m' (specStep a f (.setContext c r)) ∧ m'.pending = m.pending := by
  simp only [SpecOut] at hout
  subst hout
  refine ⟨_, rfl, ?_, rfl⟩
  exact ⟨hK.delay, hK.epoch, fun c' h => by simp at h; simp [specStep, h], hK.st, hK.cnt, hK.live, hK.rkey⟩

end UtilModel.Keyed
