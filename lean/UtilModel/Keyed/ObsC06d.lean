import UtilModel.Keyed.ObsC06c
/-!
# keyed — every model trace is accepted by `monC06o` (observable form of C06)

The simulation relation: the model invariants `G6`, and one of four phases —
no call in progress (the monitor's knowledge is about `abs s`); one call invoked; one call past its
critical section (the knowledge is about the specification state `a` before the call, the results
are those the specification allows from `a`, and `abs s` is `specStep a` after some timer callbacks);
or calls of several callers overlapped (only the configuration, the epoch and the key of each
reference are known).
-/
namespace UtilModel.Keyed
open UtilModel

inductive Phase (s : St) (m : M6o) : Prop
  | rest (hp : m.pending = []) (hc : s.calls = []) (hK : Know m (abs s))
  | invoked (id : Nat) (op : Op) (hp : m.pending = [(id, op, false)]) (hc : s.calls = [.invoked id op])
      (hK : Know m (abs s)) (hclr : Cleared m op)
  | done (id : Nat) (op : Op) (cs : List (Nat × Nat)) (res : Res) (a : ASt) (f : Nat → Bool)
      (hp : m.pending = [(id, op, false)]) (hc : s.calls = [.done id cs res])
      (hK : Know m a) (hI : SpecInv a) (hR : RcOk a) (hclr : Cleared m op)
      (hout : SpecOut a (specStep a f op) op res) (hE : Exp (specStep a f op) (abs s))
  | over (hf : ∀ p ∈ m.pending, p.2.2 = true) (hid : m.pending.map (·.1) = s.calls.map Call.id)
      (hW : Weak m (abs s))

theorem Phase.ids {s : St} {m : M6o} (h : Phase s m) : m.pending.map (·.1) = s.calls.map Call.id := by
  cases h with
  | rest hp hc _ => rw [hp, hc]; rfl
  | invoked id op hp hc _ _ => rw [hp, hc]; rfl
  | done id op cs res a f hp hc _ _ _ _ _ _ => rw [hp, hc]; rfl
  | over _ hid _ => exact hid

theorem Phase.base {s : St} {m : M6o} (h : Phase s m) : Base m (abs s) := by
  cases h with
  | rest _ _ hK => exact hK.base
  | invoked id op _ _ hK _ => exact hK.base
  | done id op cs res a f _ _ hK _ _ _ _ hE => exact base_exp m _ _ (base_specStep m a f op hK.base) hE
  | over _ _ hW => exact hW.base

/-- with no call in progress the monitor's knowledge is about the current state -/
theorem Phase.quiet {s : St} {m : M6o} (h : Phase s m) (hc : s.calls = []) : m.pending = [] ∧ Know m (abs s) := by
  have hid := h.ids
  rw [hc] at hid
  have hp : m.pending = [] := by simpa using hid
  refine ⟨hp, ?_⟩
  cases h with
  | rest _ _ hK => exact hK
  | invoked id op hp' _ _ _ => rw [hp] at hp'; cases hp'
  | done id op cs res a f hp' _ _ _ _ _ _ _ => rw [hp] at hp'; cases hp'
  | over _ _ hW => exact hW.know

/-- timer callbacks keep the phase -/
theorem phase_exp (s s' : St) (m : M6o) (hc : s'.calls = s.calls) (hE : Exp (abs s) (abs s')) (h : Phase s m) :
    Phase s' m := by
  cases h with
  | rest hp hc' hK => exact .rest hp (hc.trans hc') (know_exp m _ _ hK hE)
  | invoked id op hp hc' hK hclr => exact .invoked id op hp (hc.trans hc') (know_exp m _ _ hK hE) hclr
  | done id op cs res a f hp hc' hK hI hR hclr hout hE' =>
    exact .done id op cs res a f hp (hc.trans hc') hK hI hR hclr hout (hE'.trans hE)
  | over hf hid hW => exact .over hf (by rw [hc]; exact hid) (hW.mono (base_exp m _ _ hW.base hE))

/-- the phase does not look at the monitor's `known` list… only at the fields below -/
theorem exp_of_eq {a b : ASt} (h : b = a) : Exp a b := by subst h; exact Exp.refl _

theorem ldInv_sub (m : M6o) (op : Op) (r k : Nat) (h : (ldInv m op)[r]? = some (some k)) :
    m.liveDef[r]? = some (some k) := by
  cases op with
  | release r' =>
    simp only [ldInv] at h
    split at h
    · rw [List.getElem?_set] at h
      split at h
      · simp at h
      · exact h
    · exact h
  | rcRemoveKey k' =>
    simp only [ldInv, List.getElem?_map] at h
    cases hx : m.liveDef[r]? with
    | none => rw [hx] at h; simp at h
    | some x =>
      rw [hx] at h
      simp only [Option.map_some, Option.some.injEq] at h
      split at h
      · cases h
      · rw [h]
  | _ => exact h

theorem ldInv_cleared (m : M6o) (op : Op) (p : List (Nat × Op × Bool)) :
    Cleared { m with pending := p, liveDef := ldInv m op } op := by
  cases op with
  | release r =>
    intro k h
    simp only [ldInv] at h
    split at h
    · rename_i hlt
      rw [List.getElem?_set_self hlt] at h; simp at h
    · rename_i hlt
      rw [List.getElem?_eq_none (by omega)] at h; cases h
  | rcRemoveKey k =>
    intro r h
    simp only [ldInv, List.getElem?_map] at h
    cases hx : m.liveDef[r]? with
    | none => rw [hx] at h; simp at h
    | some x =>
      rw [hx] at h
      simp only [Option.map_some, Option.some.injEq] at h
      split at h
      · cases h
      · rename_i hne; rw [h] at hne; simp at hne
  | _ => trivial

end UtilModel.Keyed
