import UtilModel.Keyed.Refine5
/-!
# keyed — the refinement invariant holds in every reachable state
-/
namespace UtilModel.Keyed

/-- how a step may change what the abstraction reads of one key: not at all, delete it, clear its
removal timer, or arm the timer in the current epoch -/
def drOk (e : Nat) (c c' : Option (Nat × Option Nat)) : Prop :=
  c' = c ∨ c' = none ∨ (∃ d, c' = some (d, none)) ∨ (∃ d, c' = some (d, some e))

structure TStep (s s' : St) : Prop where
  epoch : s'.epoch = s.epoch
  refs : s'.refs = s.refs
  keys : ∀ k, drOk s.epoch (core (s.key k)) (core (s'.key k))

theorem TStep.refl (s : St) : TStep s s := ⟨rfl, rfl, fun _ => Or.inl rfl⟩

theorem TStep.trans {a b c : St} (h1 : TStep a b) (h2 : TStep b c) : TStep a c := by
  refine ⟨h2.epoch.trans h1.epoch, h2.refs.trans h1.refs, ?_⟩
  intro k
  rcases h2.keys k with h | h | h | h
  · rw [h]; exact h1.keys k
  · exact Or.inr (Or.inl h)
  · exact Or.inr (Or.inr (Or.inl h))
  · rw [h1.epoch] at h; exact Or.inr (Or.inr (Or.inr h))

theorem Quiet.tstep {s s' : St} (h : Quiet s s') : TStep s s' :=
  ⟨h.frame.epoch, h.frame.refs, fun k => Or.inl (h.core k)⟩

theorem foldl_tstep (f : St → Nat → St) (hf : ∀ s k, TStep s (f s k)) (L : List Nat) (s : St) :
    TStep s (L.foldl f s) := by
  induction L generalizing s with
  | nil => exact TStep.refl s
  | cons k L ih => exact (hf s k).trans (ih (f s k))

theorem tstep_syncS (restart : Bool) (s : St) (k : Nat) : TStep s (syncS restart s k) := by
  have h := syncS_spec restart s k
  refine ⟨h.1.epoch, h.1.refs, ?_⟩
  intro k'
  by_cases hk : k' = k
  · subst hk
    right; right; left
    rw [h.2.2.1]
    cases s.key k' <;> exact ⟨_, rfl⟩
  · left; rw [h.2.1 k' hk]

theorem setKey_eq_syncS (s : St) (k : Nat) (st : Bool) : (setKey s k st).1 = syncS st s k := by
  unfold setKey syncS syncOne
  simp only []
  cases s.key k <;> rfl

theorem core_remMap (d : Bool) (e : Nat) (r : Option Rec) : drOk e (core r) (core (remMap d e r)) := by
  cases r with
  | none => left; rfl
  | some r =>
    simp only [remMap]
    split
    · left; rfl
    · split
      · right; left; rfl
      · right; right; right; exact ⟨r.data, rfl⟩

theorem tstep_removeKey (s : St) (k : Nat) : TStep s (removeKey s k).1 := by
  have h := removeKey_spec s k
  refine ⟨h.1.epoch, h.1.refs, ?_⟩
  intro k'
  rw [h.2.2 k']
  split
  · rename_i hk; subst hk; exact core_remMap _ _ _
  · left; rfl

theorem tstep_removeAbsent (ks : List Nat) (s : St) (k : Nat) : TStep s (removeAbsent ks s k) := by
  unfold removeAbsent
  split
  · exact TStep.refl s
  · exact tstep_removeKey s k

theorem tstep_resetKey (s : St) (k : Nat) : TStep s (resetKey s k).1 := by
  refine ⟨(frame_resetKey s k).epoch, (frame_resetKey s k).refs, ?_⟩
  intro k'
  rw [core_resetKey]
  split
  · rename_i hk; subst hk
    split
    · right; right; left; exact ⟨_, rfl⟩
    · rename_i hn
      left
      cases hr : s.key k' with
      | none => rfl
      | some r => simp [hr] at hn
  · left; rfl

theorem tstep_setRefs (s : St) (l : List RefSt) (s' : St) (h : TStep { s with refs := l } s') :
    s'.epoch = s.epoch ∧ s'.refs = l ∧ ∀ k, drOk s.epoch (core (s.key k)) (core (s'.key k)) :=
  ⟨h.epoch, h.refs, h.keys⟩

/-- every API call: epoch unchanged; per key only the allowed changes -/
theorem execOp_keys (s : St) (op : Op) :
    (execOp s op).1.epoch = s.epoch ∧ ∀ k, drOk s.epoch (core (s.key k)) (core ((execOp s op).1.key k)) := by
  have two : ∀ s' : St, TStep s s' → s'.epoch = s.epoch ∧ ∀ k, drOk s.epoch (core (s.key k)) (core (s'.key k)) :=
    fun s' h => ⟨h.epoch, h.keys⟩
  cases op with
  | setKey k st => simp only [execOp]; rw [setKey_eq_syncS]; exact two _ (tstep_syncS st s k)
  | removeKey k => exact two _ (tstep_removeKey s k)
  | syncKeys ks restart =>
    simp only [execOp, syncKeys]
    rw [foldl_fst (syncOne restart) (syncS restart) (syncOne_fst restart)]
    exact two _ ((foldl_tstep _ (tstep_syncS restart) _ _).trans (foldl_tstep _ (tstep_removeAbsent ks) _ _))
  | getKey k => simp only [execOp]; split <;> exact two _ (TStep.refl s)
  | getKeys => exact two _ (TStep.refl s)
  | getKeysWithData => exact two _ (TStep.refl s)
  | resetRoutine k cs =>
    simp only [execOp]
    split
    · exact two _ (tstep_resetKey s k)
    · exact two _ (TStep.refl s)
  | restartRoutine k cs =>
    simp only [execOp]
    split
    · exact two _ (touch_restartKey s k).quiet.tstep
    · exact two _ (TStep.refl s)
  | resetAll cs =>
    simp only [execOp]
    rw [foldl_fst resetAllStep (fun s k => (resetKey s k).1) (fun _ _ => rfl)]
    exact two _ (foldl_tstep _ tstep_resetKey _ _)
  | restartAll cs =>
    simp only [execOp]
    rw [foldl_fst restartAllStep (fun s k => (restartKey s k).1) (fun _ _ => rfl)]
    exact two _ (foldl_tstep _ (fun s k => (touch_restartKey s k).quiet.tstep) _ _)
  | setContext c restart =>
    simp only [execOp, setContext]
    split
    · exact two _ (TStep.refl s)
    · have := foldl_tstep (setCtxOne (s.ctx == c) restart) (fun s k => (touch_setCtxOne _ restart s k).quiet.tstep)
        (keyList s) { s with ctx := c }
      exact ⟨this.epoch, this.keys⟩
  | addKeyRef k =>
    simp only [execOp, addKeyRef]
    have := tstep_syncS true s k
    rw [← setKey_eq_syncS] at this
    exact ⟨this.epoch, this.keys⟩
  | release r =>
    simp only [execOp, release]
    split
    · exact two _ (TStep.refl s)
    · split
      · exact two _ (TStep.refl s)
      · split
        · rename_i x _ _ _
          have := tstep_removeKey { s with refs := s.refs.set r { x with rel := true, listed := false } } x.key
          exact ⟨this.epoch, this.keys⟩
        · exact ⟨rfl, fun _ => Or.inl rfl⟩
  | rcRemoveKey k =>
    simp only [execOp, rcRemoveKey]
    have := tstep_removeKey { s with refs := s.refs.map fun x =>
      if x.key == k && x.listed then { x with rel := true, listed := false } else x } k
    exact ⟨this.epoch, this.keys⟩

end UtilModel.Keyed
