import UtilModel.Keyed.ObsC06b
/-!
# keyed — `monC06o` while calls overlap; list facts about the calls in progress
-/
namespace UtilModel.Keyed
open UtilModel

theorem specRelease_live (a : ASt) (f : Nat → Bool) (r : Nat) :
    (specRelease a f r).live = a.live ∨ (specRelease a f r).live = a.live.set r none := by
  unfold specRelease
  split
  · simp only []
    split
    · right; rfl
    · right; rfl
  · left; rfl

theorem specRelease_de (a : ASt) (f : Nat → Bool) (r : Nat) :
    (specRelease a f r).delay = a.delay ∧ (specRelease a f r).epoch = a.epoch := by
  unfold specRelease
  split
  · simp only []
    split <;> exact ⟨rfl, rfl⟩
  · exact ⟨rfl, rfl⟩

theorem specStep_de (a : ASt) (f : Nat → Bool) (op : Op) :
    (specStep a f op).delay = a.delay ∧ (specStep a f op).epoch = a.epoch := by
  cases op with
  | release r => exact specRelease_de a f r
  | resetRoutine k cs => simp only [specStep]; split <;> exact ⟨rfl, rfl⟩
  | _ => exact ⟨rfl, rfl⟩

/-- a call only appends references and releases references -/
theorem specStep_live (a : ASt) (f : Nat → Bool) (op : Op) :
    a.live.length ≤ (specStep a f op).live.length ∧
    ∀ (r k : Nat), r < a.live.length → (specStep a f op).live[r]? = some (some k) → a.live[r]? = some (some k) := by
  cases op with
  | addKeyRef k =>
    simp only [specStep, request]
    refine ⟨by simp, ?_⟩
    intro r k' hr h
    rwa [List.getElem?_append_left hr] at h
  | release r =>
    simp only [specStep]
    rcases specRelease_live a f r with h | h
    · rw [h]; exact ⟨Nat.le_refl _, fun _ _ _ h => h⟩
    · rw [h]
      refine ⟨by simp, ?_⟩
      intro r' k hr' hh
      rw [List.getElem?_set] at hh
      split at hh
      · split at hh <;> simp at hh
      · exact hh
  | rcRemoveKey k =>
    simp only [specStep, dismiss]
    refine ⟨by simp, ?_⟩
    intro r k' hr hh
    rw [List.getElem?_map] at hh
    cases hx : a.live[r]? with
    | none => rw [hx] at hh; simp at hh
    | some x =>
      rw [hx] at hh
      simp only [Option.map_some, Option.some.injEq] at hh
      split at hh
      · cases hh
      · rw [hh]
  | resetRoutine k cs => simp only [specStep]; split <;> exact ⟨Nat.le_refl _, fun _ _ _ h => h⟩
  | _ => exact ⟨Nat.le_refl _, fun _ _ _ h => h⟩

/-- the part of the knowledge that survives overlapping calls -/
structure Base (m : M6o) (a : ASt) : Prop where
  delay : m.delay = a.delay
  epoch : m.epoch = a.epoch
  rkey : ∀ (r k : Nat), m.refKey[r]? = some (some k) → r < a.live.length ∧ ∀ k', a.live[r]? = some (some k') → k' = k

theorem Know.base {m : M6o} {a : ASt} (h : Know m a) : Base m a := ⟨h.delay, h.epoch, h.rkey⟩

theorem base_specStep (m : M6o) (a : ASt) (f : Nat → Bool) (op : Op) (h : Base m a) : Base m (specStep a f op) := by
  obtain ⟨h1, h2⟩ := specStep_de a f op
  obtain ⟨h3, h4⟩ := specStep_live a f op
  refine ⟨h.delay.trans h1.symm, h.epoch.trans h2.symm, ?_⟩
  intro r k hr
  obtain ⟨hlt, hk⟩ := h.rkey r k hr
  exact ⟨Nat.lt_of_lt_of_le hlt h3, fun k' hk' => hk k' (h4 r k' hlt hk')⟩

theorem base_exp (m : M6o) (b c : ASt) (h : Base m b) (hE : Exp b c) : Base m c :=
  ⟨h.delay.trans hE.delay.symm, h.epoch.trans hE.epoch.symm, by rw [hE.live]; exact h.rkey⟩

/-- nothing is known about the keys -/
structure Weak (m : M6o) (a : ASt) : Prop where
  base : Base m a
  ctx : m.hasCtx = none
  st : ∀ k, m.st k = .any
  cnt : ∀ k, m.cnt k = none
  live : m.liveDef = []

theorem Weak.know {m : M6o} {a : ASt} (h : Weak m a) : Know m a :=
  ⟨h.base.delay, h.base.epoch, fun c hc => (by rw [h.ctx] at hc; cases hc), fun k => (by rw [h.st k]; trivial),
    fun k n hn => (by rw [h.cnt k] at hn; cases hn), fun r k hr => (by rw [h.live] at hr; simp at hr), h.base.rkey⟩

theorem Weak.mono {m : M6o} {a b : ASt} (h : Weak m a) (hb : Base m b) : Weak m b :=
  ⟨hb, h.ctx, h.st, h.cnt, h.live⟩

theorem weak_over (m : M6o) (a : ASt) (p : List (Nat × Op × Bool)) (h : Base m a) :
    Weak { m with pending := p, st := fun _ => .any, cnt := fun _ => none, hasCtx := none, liveDef := [] } a :=
  ⟨⟨h.delay, h.epoch, h.rkey⟩, rfl, fun _ => rfl, fun _ => rfl, rfl⟩

/-! ## the calls in progress -/

theorem erase_ids (cs : List Call) (x : Call) (hn : (cs.map Call.id).Nodup) (hx : x ∈ cs) :
    (cs.erase x).map Call.id = (cs.map Call.id).filter (· != x.id) := by
  induction cs with
  | nil => cases hx
  | cons c cs ih =>
    simp only [List.map_cons, List.nodup_cons] at hn
    by_cases hcx : c = x
    · subst hcx
      simp only [List.erase_cons_head, List.map_cons, List.filter_cons, bne_self_eq_false, Bool.false_eq_true, if_false]
      symm
      rw [List.filter_eq_self]
      intro i hi
      simp only [bne_iff_ne, ne_eq]
      intro h; subst h; exact hn.1 hi
    · have hx' : x ∈ cs := by
        rcases List.mem_cons.1 hx with h | h
        · exact absurd h.symm hcx
        · exact h
      have hne : c.id ≠ x.id := by
        intro h; apply hn.1; rw [h]; exact List.mem_map.2 ⟨x, hx', rfl⟩
      rw [List.erase_cons_tail (by simpa using hcx)]
      simp only [List.map_cons, List.filter_cons]
      rw [if_pos (by simpa using hne), ih hn.2 hx']

theorem filter_ids (p : List (Nat × Op × Bool)) (id : Nat) :
    (p.filter (·.1 != id)).map (·.1) = (p.map (·.1)).filter (· != id) := by
  induction p with
  | nil => rfl
  | cons x p ih =>
    simp only [List.filter_cons, List.map_cons]
    split <;> simp [ih]

theorem find_ids (p : List (Nat × Op × Bool)) (id : Nat) (h : id ∈ p.map (·.1)) :
    ∃ op b, p.find? (·.1 == id) = some (id, op, b) ∧ (id, op, b) ∈ p := by
  induction p with
  | nil => simp at h
  | cons x p ih =>
    by_cases hx : x.1 = id
    · obtain ⟨i, op, b⟩ := x
      simp only at hx; subst hx
      exact ⟨op, b, by simp [List.find?_cons], List.mem_cons_self⟩
    · have : id ∈ p.map (·.1) := by
        simp only [List.map_cons, List.mem_cons] at h
        rcases h with h | h
        · exact absurd h.symm hx
        · exact h
      obtain ⟨op, b, h1, h2⟩ := ih this
      refine ⟨op, b, ?_, List.mem_cons_of_mem _ h2⟩
      rw [List.find?_cons, show (x.1 == id) = false from by simpa using hx]
      exact h1

/-- when every removal timer that is due has run, no key is leaving since an earlier epoch -/
theorem hq_of_noDue (s : St) (h : noDue s = true) :
    ∀ k d e, (abs s).st k = .leaving d e → ¬ e < (abs s).epoch := by
  intro k d e hl
  simp only [abs, absKey] at hl
  split at hl
  · cases hl
  · rename_i r hr
    split at hl
    · cases hl
    · rename_i e' he'
      cases hl
      have hk : k < s.kbound := look_lt _ _ _ hr
      have := List.all_eq_true.1 h k (List.mem_range.2 hk)
      simp only [hr, he', dueOpt, Bool.and_eq_true, Bool.not_eq_true', decide_eq_false_iff_not] at this
      exact this.1

end UtilModel.Keyed
