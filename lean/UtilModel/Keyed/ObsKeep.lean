import UtilModel.Keyed.C07Dead2
/-!
# keyed — API calls, timers and bookkeeping never change key, data or state of an existing instance
(step relation `Keep`, used by the observable-form theorem of C07)
-/
namespace UtilModel.Keyed
open UtilModel

/-- every instance of `s` is still there in `s'`, with the same key, data and state -/
def Keep (s s' : St) : Prop :=
  ∀ (g : Nat) (y : G) (i : Nat) (x : Inst), s.gens[g]? = some y → y.insts[i]? = some x →
    ∃ y' x', s'.gens[g]? = some y' ∧ y'.insts[i]? = some x' ∧ y'.key = y.key ∧ x'.data = x.data ∧ x'.st = x.st

theorem Keep.refl (s : St) : Keep s s := fun g y i x hy hx => ⟨y, x, hy, hx, rfl, rfl, rfl⟩

theorem Keep.trans {a b c : St} (h1 : Keep a b) (h2 : Keep b c) : Keep a c := by
  intro g y i x hy hx
  obtain ⟨y1, x1, hy1, hx1, k1, d1, s1⟩ := h1 g y i x hy hx
  obtain ⟨y2, x2, hy2, hx2, k2, d2, s2⟩ := h2 g y1 i x1 hy1 hx1
  exact ⟨y2, x2, hy2, hx2, k2.trans k1, d2.trans d1, s2.trans s1⟩

theorem foldl_keep (f : St → Nat → St) (hf : ∀ s k, Keep s (f s k)) (L : List Nat) (s : St) :
    Keep s (L.foldl f s) := by
  induction L generalizing s with
  | nil => exact Keep.refl s
  | cons k L ih => exact (hf s k).trans (ih (f s k))

theorem keep_gens {s s' : St} (h : s'.gens = s.gens) : Keep s s' :=
  fun g y i x hy hx => ⟨y, x, by rw [h]; exact hy, hx, rfl, rfl, rfl⟩

/-- one generation is changed by a function that keeps key and every existing instance's data and state -/
theorem keep_modG (s : St) (g : Nat) (f : G → G)
    (hf : ∀ (y : G), (f y).key = y.key ∧ ∀ (i : Nat) (x : Inst), y.insts[i]? = some x →
      ∃ x', (f y).insts[i]? = some x' ∧ x'.data = x.data ∧ x'.st = x.st) : Keep s (modG s g f) := by
  intro g' y i x hy hx
  by_cases hg : g = g'
  · subst hg
    obtain ⟨x', hx', hd, hs⟩ := (hf y).2 i x hx
    exact ⟨f y, x', by simp [gens_modG, hy], hx', (hf y).1, hd, hs⟩
  · exact ⟨y, x, by simp [gens_modG, hy, hg], hx, rfl, rfl, rfl⟩

theorem keep_cancelOpt (s : St) (g : Nat) (o : Option Nat) : Keep s (cancelOpt s g o) := by
  cases o with
  | none => exact Keep.refl s
  | some j =>
    apply keep_modG
    intro y
    refine ⟨rfl, ?_⟩
    intro i x hx
    by_cases hji : j = i
    · exact ⟨{ x with cancelled := true }, by simp [List.getElem?_modify, hx, hji], rfl, rfl⟩
    · exact ⟨x, by simp [List.getElem?_modify, hx, hji], rfl, rfl⟩

theorem keep_start (s : St) (k : Nat) (r : Rec) (force : Bool) : Keep s (start s k r force) := by
  unfold start
  split
  · exact Keep.refl s
  · split
    · exact Keep.refl s
    · have h1 := keep_cancelOpt s r.gen r.cancelOf
      simp only []
      generalize cancelOpt s r.gen r.cancelOf = s1 at h1
      cases hy : s1.gens[r.gen]? with
      | none => exact h1
      | some y =>
        simp only []
        have h2 : Keep s1 (modG s1 r.gen fun x =>
            { x with insts := x.insts ++ [{ rid := r.id, data := r.data, waitOn := x.last, cancelled := s.ctx == some 0 }], last := some y.insts.length }) := by
          apply keep_modG
          intro y'
          exact ⟨rfl, fun i x hx => ⟨x, getElem?_append_one _ _ _ _ hx, rfl, rfl⟩⟩
        exact h1.trans (h2.trans (keep_gens rfl))

theorem keep_startKey (s : St) (k : Nat) (force : Bool) : Keep s (startKey s k force) := by
  unfold startKey
  split
  · exact keep_start s k _ force
  · exact Keep.refl s

theorem keep_createKey (s : St) (k : Nat) : Keep s (createKey s k) := by
  intro g y i x hy hx
  have hgens : (createKey s k).gens = s.gens ++ [{ key := k }] := rfl
  exact ⟨y, x, by rw [hgens]; exact getElem?_append_one _ _ _ _ hy, hx, rfl, rfl, rfl⟩

theorem keep_removeKey (s : St) (k : Nat) : Keep s (removeKey s k).1 := by
  unfold removeKey
  cases hk : s.key k with
  | none => exact Keep.refl s
  | some r =>
    simp only [remove]
    split
    · exact Keep.refl s
    · split
      · exact (keep_cancelOpt s r.gen r.cancelOf).trans (keep_gens rfl)
      · exact keep_gens rfl

theorem keep_syncS (restart : Bool) (s : St) (k : Nat) : Keep s (syncS restart s k) := by
  unfold syncS syncOne
  simp only []
  cases hk : s.key k with
  | none => exact (keep_createKey s k).trans (keep_startKey _ k false)
  | some r =>
    simp only []
    have h1 : Keep s (setRec s k (some { r with deferRemove := none })) := keep_gens rfl
    split
    · exact h1.trans (keep_startKey _ k false)
    · exact h1

theorem keep_removeAbsent (ks : List Nat) (s : St) (k : Nat) : Keep s (removeAbsent ks s k) := by
  unfold removeAbsent
  split
  · exact Keep.refl s
  · exact keep_removeKey s k

theorem keep_setCtxOne (same restart : Bool) (s : St) (k : Nat) : Keep s (setCtxOne same restart s k) := by
  unfold setCtxOne
  cases hk : s.key k with
  | none => exact Keep.refl s
  | some r =>
    simp only []
    split
    · exact Keep.refl s
    · have h1 : Keep s (setRec (cancelOpt s r.gen r.cancelOf) k (some { r with cur := none, cancelOf := none })) :=
        (keep_cancelOpt s r.gen r.cancelOf).trans (keep_gens rfl)
      split
      · exact h1.trans (keep_startKey _ k false)
      · exact h1

theorem keep_resetKey (s : St) (k : Nat) : Keep s (resetKey s k).1 := by
  unfold resetKey
  cases hk : s.key k with
  | none => exact Keep.refl s
  | some r =>
    simp only []
    have h1 := keep_cancelOpt s r.gen r.cancelOf
    have h2 : Keep (cancelOpt s r.gen r.cancelOf) (newRec (cancelOpt s r.gen r.cancelOf) k r.gen) := keep_gens rfl
    exact (h1.trans h2).trans (keep_startKey _ k false)

theorem keep_restartKey (s : St) (k : Nat) : Keep s (restartKey s k).1 := by
  unfold restartKey
  cases hk : s.key k with
  | none => exact Keep.refl s
  | some r =>
    cases hc : s.ctx with
    | none => exact Keep.refl s
    | some c =>
      simp only []
      have h1 := keep_cancelOpt s r.gen r.cancelOf
      have h2 : Keep (cancelOpt s r.gen r.cancelOf)
          (setRec (cancelOpt s r.gen r.cancelOf) k (some { r with cancelOf := none })) := keep_gens rfl
      exact (h1.trans h2).trans (keep_startKey _ k true)

theorem keep_execOp (s : St) (op : Op) : Keep s (execOp s op).1 := by
  cases op with
  | setKey k st => simp only [execOp]; rw [setKey_eq_syncS]; exact keep_syncS st s k
  | removeKey k => exact keep_removeKey s k
  | syncKeys ks restart =>
    simp only [execOp, syncKeys]
    rw [foldl_fst (syncOne restart) (syncS restart) (syncOne_fst restart)]
    exact (foldl_keep _ (keep_syncS restart) _ _).trans (foldl_keep _ (keep_removeAbsent ks) _ _)
  | getKey k => simp only [execOp]; split <;> exact Keep.refl s
  | getKeys => exact Keep.refl s
  | getKeysWithData => exact Keep.refl s
  | resetRoutine k cs =>
    simp only [execOp]
    split
    · exact keep_resetKey s k
    · exact Keep.refl s
  | restartRoutine k cs =>
    simp only [execOp]
    split
    · exact keep_restartKey s k
    · exact Keep.refl s
  | resetAll cs =>
    simp only [execOp]
    rw [foldl_fst resetAllStep (fun s k => (resetKey s k).1) (fun _ _ => rfl)]
    exact foldl_keep _ keep_resetKey _ _
  | restartAll cs =>
    simp only [execOp]
    rw [foldl_fst restartAllStep (fun s k => (restartKey s k).1) (fun _ _ => rfl)]
    exact foldl_keep _ keep_restartKey _ _
  | setContext c restart =>
    simp only [execOp, setContext]
    split
    · exact Keep.refl s
    · exact (keep_gens (s := s) (s' := { s with ctx := c }) rfl).trans (foldl_keep _ (keep_setCtxOne _ restart) _ _)
  | addKeyRef k =>
    simp only [execOp, addKeyRef]
    have := keep_syncS true s k
    rw [← setKey_eq_syncS] at this
    exact this.trans (keep_gens rfl)
  | release r =>
    simp only [execOp, release]
    split
    · exact Keep.refl s
    · split
      · exact Keep.refl s
      · split
        · rename_i x _ _ _
          have h1 : Keep s { s with refs := s.refs.set r { x with rel := true, listed := false } } := keep_gens rfl
          exact h1.trans (keep_removeKey _ x.key)
        · exact keep_gens rfl
  | rcRemoveKey k =>
    simp only [execOp, rcRemoveKey]
    have h1 : Keep s { s with refs := s.refs.map fun x =>
        if x.key == k && x.listed then { x with rel := true, listed := false } else x } := keep_gens rfl
    exact h1.trans (keep_removeKey _ k)

end UtilModel.Keyed
