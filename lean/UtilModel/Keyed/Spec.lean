import UtilModel.Keyed.Model
/-!
# keyed — the abstract specification of the key set (property C06)

Abstract state: every key is `absent`, `present` or `leaving e` (removed with a release delay in
epoch `e`, still in the set until the epoch ends); `present`/`leaving` carry the `data` value of the
key's current record (needed to state the `data` results). Plus: the multiset of live references of
`KeyedRefCount` (`live[r] = some k`: reference `r` is an unreleased reference to `k`), the per-key
constructor count, the configuration bit `delay`, whether a context is set (`RestartRoutine` reports
it), the epoch.

Transition rules (one line each):
* `request k`  (`SetKey`, a key kept by `SyncKeys`, `AddKeyRef`): `k` becomes `present`; if it was
  `absent` the constructor runs (new data);
* `dismiss k`  (`RemoveKey`, a key dropped by `SyncKeys`, last `Release`, `KeyedRefCount.RemoveKey`):
  `present` becomes `absent` (no delay, or the routine has failed) or `leaving epoch`; `leaving` and
  `absent` stay;
* `renew k`    (`ResetRoutine`, when its condition functions — if any — accept the key's data): a key in the
  set gets new data and is `present`
  (the code forgets a pending delayed removal here: the old record's timer no longer matches);
* `advance` ends the epoch; `expire k` (the callback of the removal timer of `k`, any time after the
  `advance` that follows its arming, unless the key was requested again): `leaving` becomes `absent`.

The only information the rules need from the routines is the oracle `failed k` ("the routine of `k`
has exited with an error and was not started again").
-/
namespace UtilModel.Keyed

inductive KSt where
  | absent
  | present (d : Nat)
  | leaving (d e : Nat)
deriving DecidableEq, Repr

def KSt.inSet : KSt → Bool
  | .absent => false
  | _ => true

def KSt.data : KSt → Nat
  | .absent => 0
  | .present d => d
  | .leaving d _ => d

structure ASt where
  delay : Bool := false
  hasCtx : Bool := false
  epoch : Nat := 0
  st : Nat → KSt := fun _ => .absent
  nctor : Nat → Nat := fun _ => 0
  live : List (Option Nat) := []

def upd {α : Type} (f : Nat → α) (k : Nat) (v : α) : Nat → α := fun k' => if k' = k then v else f k'

def ASt.inSet (a : ASt) (k : Nat) : Bool := (a.st k).inSet

/-- state of `k` after it was requested -/
def reqSt (a : ASt) (k : Nat) : KSt :=
  match a.st k with
  | .absent => .present (a.nctor k + 1)
  | .present d => .present d
  | .leaving d _ => .present d

def reqCtor (a : ASt) (k : Nat) : Nat := if a.inSet k then a.nctor k else a.nctor k + 1

def request (a : ASt) (k : Nat) : ASt :=
  { a with st := upd a.st k (reqSt a k), nctor := upd a.nctor k (reqCtor a k) }

/-- state of `k` after it was dismissed -/
def disSt (a : ASt) (failed : Bool) (k : Nat) : KSt :=
  match a.st k with
  | .present d => if !a.delay || failed then .absent else .leaving d a.epoch
  | x => x

def dismiss (a : ASt) (failed : Bool) (k : Nat) : ASt := { a with st := upd a.st k (disSt a failed k) }

def renSt (a : ASt) (k : Nat) : KSt := if a.inSet k then .present (a.nctor k + 1) else .absent
def renCtor (a : ASt) (k : Nat) : Nat := if a.inSet k then a.nctor k + 1 else a.nctor k

def renew (a : ASt) (k : Nat) : ASt :=
  { a with st := upd a.st k (renSt a k), nctor := upd a.nctor k (renCtor a k) }

/-- the epoch ends: the removal timers armed in it fire; each callback deletes its key when it gets
the mutex (`expire`) -/
def specAdvance (a : ASt) : ASt := { a with epoch := a.epoch + 1 }

/-- state of `k` after the callback of its removal timer ran -/
def expSt (a : ASt) (k : Nat) : KSt :=
  match a.st k with
  | .leaving d e => if e < a.epoch then .absent else .leaving d e
  | x => x

def expire (a : ASt) (k : Nat) : ASt := { a with st := upd a.st k (expSt a k) }

/-- number of live references to `k` -/
def liveCount (a : ASt) (k : Nat) : Nat := a.live.countP (· == some k)

def specRelease (a : ASt) (failed : Nat → Bool) (r : Nat) : ASt :=
  match a.live[r]? with
  | some (some k) =>
    let a1 := { a with live := a.live.set r none }
    if liveCount a1 k == 0 then dismiss a1 (failed k) k else a1
  | _ => a

/-- the condition functions of `ResetRoutine` & co. accept key `k` (a key that is not in the set is not
asked about) -/
def specMatch (a : ASt) (cs : List Cond) (k : Nat) : Bool := !a.inSet k || condsMatch cs k (a.st k).data

/-- the abstract transition of an API call -/
def specStep (a : ASt) (failed : Nat → Bool) : Op → ASt
  | .setKey k _ => request a k
  | .removeKey k => dismiss a (failed k) k
  | .syncKeys ks _ =>
    { a with st := fun k => if ks.contains k then reqSt a k else disSt a (failed k) k
             nctor := fun k => if ks.contains k then reqCtor a k else a.nctor k }
  | .getKey _ | .getKeys | .getKeysWithData | .restartRoutine _ _ | .restartAll _ => a
  | .resetRoutine k cs => if specMatch a cs k then renew a k else a
  | .resetAll cs => { a with st := fun k => if specMatch a cs k then renSt a k else a.st k,
                             nctor := fun k => if specMatch a cs k then renCtor a k else a.nctor k }
  | .setContext c _ => { a with hasCtx := isLive c }
  | .addKeyRef k => { request a k with live := a.live ++ [some k] }
  | .release r => specRelease a failed r
  | .rcRemoveKey k =>
    dismiss { a with live := a.live.map fun x => if x == some k then none else x } (failed k) k

/-- the results the specification allows for a call made in abstract state `a` (`a'` is the state
after the call). Key lists are specified as sets. -/
def SpecOut (a a' : ASt) : Op → Res → Prop
  | .setKey k _, r => r = .dataExisted (a'.st k).data (a.inSet k)
  | .removeKey k, r => r = .bool (a.inSet k)
  | .syncKeys ks _, r => ∃ ad rm, r = .sync ad rm ∧ (∀ k, k ∈ ad ↔ (k ∈ ks ∧ a.inSet k = false)) ∧
      (∀ k, k ∈ rm ↔ (a.inSet k = true ∧ k ∉ ks))
  | .getKey k, r => r = .dataExisted (a.st k).data (a.inSet k)
  | .getKeys, r => ∃ ks, r = .keys ks ∧ ∀ k, k ∈ ks ↔ a.inSet k = true
  | .getKeysWithData, r => ∃ kd, r = .keysData kd ∧ ∀ k d, (k, d) ∈ kd ↔ (a.inSet k = true ∧ d = (a.st k).data)
  | .resetRoutine k cs, r => r = .existedReset (a.inSet k) (a.inSet k && specMatch a cs k)
  | .restartRoutine k cs, r => r = .existedReset (a.inSet k) (a.inSet k && a.hasCtx && specMatch a cs k)
  | .resetAll cs, r => ∃ ks : List Nat, ks.Nodup ∧ (∀ k, k ∈ ks ↔ a.inSet k = true) ∧
      r = .counts (ks.filter (specMatch a cs)).length ks.length
  | .restartAll cs, r => ∃ ks : List Nat, ks.Nodup ∧ (∀ k, k ∈ ks ↔ a.inSet k = true) ∧
      r = .counts (if a.hasCtx then (ks.filter (specMatch a cs)).length else 0) ks.length
  | .setContext _ _, r => r = .unit
  | .addKeyRef k, r => r = .ref a.live.length (a'.st k).data (a.inSet k)
  | .release _, r => r = .unit
  | .rcRemoveKey k, r => r = .bool (a.inSet k)

/-! ## abstraction function -/

def absKey : Option Rec → KSt
  | none => .absent
  | some r =>
    match r.deferRemove with
    | none => .present r.data
    | some e => .leaving r.data e

def absRef (x : RefSt) : Option Nat := if x.listed then some x.key else none

def abs (s : St) : ASt where
  delay := delayOn s
  hasCtx := isLive s.ctx
  epoch := s.epoch
  st := fun k => absKey (s.key k)
  nctor := s.ctors
  live := s.refs.map absRef

/-- the oracle: the routine stored for `k` has exited with an error (routine.go:177) -/
def failedOf (s : St) (k : Nat) : Bool :=
  match s.key k with
  | some r => r.exited && !r.success
  | none => false

/-- the abstract image of an event: API calls act at their critical section, `advance` ends the
epoch, the removal timer's callback expires its key, everything else is invisible -/
def specEv (a : ASt) (s : St) : Ev → ASt
  | .exec id =>
    match pendingOp s.calls id with
    | some op => specStep a (failedOf s) op
    | none => a
  | .advance => specAdvance a
  | .timerRemove k => expire a k
  | .config c => { a with delay := c.delay }
  | .cancelroot => { a with hasCtx := false }
  | _ => a

end UtilModel.Keyed
