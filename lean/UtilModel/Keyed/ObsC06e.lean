import UtilModel.Keyed.ObsC06d
/-!
# keyed — the simulation step for `monC06o`
-/
namespace UtilModel.Keyed
open UtilModel

/-- events outside calls, other than `advance`: at most a removal timer's callback -/
theorem phase_other (s s' : St) (e : Ev) (m : M6o) (hG : G6 s) (hP : Phase s m) (hs : step s e = some s')
    (hce : e.isCallEv = false) (hadv : e ≠ .advance ∧ e ≠ .cancelroot) : Phase s' m := by
  obtain ⟨_, hc, _⟩ := step_frame s s' e hs hce
  have hr := (step_refines s s' e hG.r hs).1
  apply phase_exp s s' m hc _ hP
  rw [hr]
  cases e with
  | timerRemove k => exact exp_expire _ k
  | advance => exact absurd rfl hadv.1
  | cancelroot => exact absurd rfl hadv.2
  | exec id => simp [Ev.isCallEv] at hce
  | config c => simp [Ev.isCallEv] at hce
  | _ => exact Exp.refl _

theorem phase_config (s s' : St) (c : Cfg) (m : M6o) (hG : G6 s) (hP : Phase s m) (hs : step s (.config c) = some s') :
    Phase s' { m with delay := c.delay } := by
  have hr := (step_refines s s' _ hG.r hs).1
  simp only [step] at hs
  split at hs
  · rename_i hn
    have hn' : s.cfg = none := by simpa using hn
    obtain ⟨hp, hK⟩ := hP.quiet (hG.cfgc hn').1
    simp at hs; subst hs
    refine .rest hp (hG.cfgc hn').1 ?_
    rw [hr]
    exact ⟨rfl, hK.epoch, hK.ctx, hK.st, hK.cnt, hK.live, hK.rkey⟩
  · simp at hs

theorem phase_inv (s s' : St) (id : Nat) (op : Op) (m : M6o) (hG : G6 s) (hP : Phase s m)
    (hs : step s (.inv id op) = some s') :
    ∃ m', monC06o.step m (.inv id op) = some m' ∧ Phase s' m' := by
  have hr := (step_refines s s' _ hG.r hs).1
  have habs : abs s' = abs s := hr
  simp only [step] at hs
  split at hs
  · simp at hs
  · split at hs
    · simp at hs
      have hcalls : s'.calls = s.calls ++ [.invoked id op] := by subst hs; rfl
      cases hpe : m.pending with
      | nil =>
        have hc : s.calls = [] := by
          have := hP.ids; rw [hpe] at this; simpa using this.symm
        obtain ⟨_, hK⟩ := hP.quiet hc
        refine ⟨{ m with pending := [(id, op, false)], liveDef := ldInv m op }, by simp [monC06o, hpe], ?_⟩
        refine .invoked id op rfl (by rw [hcalls, hc]; rfl) ?_ (ldInv_cleared m op _)
        rw [habs]
        exact know_pending _ _ _ (know_liveDef m _ _ hK (ldInv_sub m op))
      | cons x xs =>
        refine ⟨{ m with pending := m.pending.map (fun p => (p.1, p.2.1, true)) ++ [(id, op, true)]
                         st := fun _ => .any, cnt := fun _ => none, hasCtx := none, liveDef := [] },
          by simp [monC06o, hpe], ?_⟩
        refine .over ?_ ?_ ?_
        · intro p hp
          simp only [List.mem_append, List.mem_map, List.mem_singleton] at hp
          rcases hp with ⟨q, _, rfl⟩ | rfl <;> rfl
        · simp only [List.map_append, List.map_map, hcalls]
          rw [← hP.ids]; rfl
        · rw [habs]; exact weak_over m _ _ hP.base
    · simp at hs

theorem pendingOp_single_done (id' : Nat) (cs : List (Nat × Nat)) (res : Res) (id : Nat) :
    pendingOp [.done id' cs res] id = none := rfl

theorem phase_exec (s s' : St) (id : Nat) (m : M6o) (hG : G6 s) (hP : Phase s m)
    (hs : step s (.exec id) = some s') : Phase s' m := by
  obtain ⟨hr, hout⟩ := step_refines s s' _ hG.r hs
  simp only [step] at hs
  split at hs
  · rename_i op hp
    simp only [specEv, hp] at hr
    obtain ⟨cs, res, hmem, hso⟩ := hout id op rfl hp
    simp at hs
    have hcalls : s'.calls = s.calls.map fun c => if c = .invoked id op then
        .done id (execOp (preOp s op) op).2.1 (execOp (preOp s op) op).2.2 else c := by
      subst hs; rfl
    cases hP with
    | rest _ hc _ => rw [hc] at hp; simp [pendingOp] at hp
    | invoked id' op' hpe hc hK hclr =>
      rw [hc] at hp
      simp only [pendingOp] at hp
      split at hp
      · rename_i hid
        cases hp; subst hid
        rw [hc] at hcalls
        simp only [List.map_cons, List.map_nil, if_true] at hcalls
        rw [hr] at hso
        refine .done _ _ _ _ (abs s) (failedOf s) hpe hcalls hK hG.si hG.rc hclr ?_ (exp_of_eq hr)
        rw [hcalls] at hmem
        simp only [List.mem_singleton, Call.done.injEq] at hmem
        obtain ⟨_, h2, h3⟩ := hmem
        rw [← h3]; exact hso
      · simp [pendingOp] at hp
    | done id' op' cs' res' a f _ hc _ _ _ _ _ _ => rw [hc] at hp; simp [pendingOp] at hp
    | over hf hid hW =>
      refine .over hf ?_ (hW.mono ?_)
      · rw [hcalls, map_done_ids]; exact hid
      · rw [hr]; exact base_specStep m _ _ op hW.base
  · simp at hs

theorem phase_ctor (s s' : St) (k d : Nat) (m : M6o) (hG : G6 s) (hP : Phase s m)
    (hs : step s (.ctor k d) = some s') : Phase s' m := by
  have hr := (step_refines s s' _ hG.r hs).1
  have habs : abs s' = abs s := hr
  simp only [step] at hs
  split at hs
  · rename_i cs htc
    simp at hs
    have hcalls : s'.calls = cs := by subst hs; rfl
    cases hP with
    | rest _ hc _ => rw [hc] at htc; simp [takeCtor] at htc
    | invoked id op _ hc _ _ => rw [hc] at htc; simp [takeCtor] at htc
    | done id op q res a f hpe hc hK hI hR hclr hout hE =>
      rw [hc] at htc
      simp only [takeCtor] at htc
      split at htc
      · simp at htc
        exact .done id op _ res a f hpe (hcalls.trans htc.symm) hK hI hR hclr hout (habs ▸ hE)
      · simp [takeCtor] at htc
    | over hf hid hW =>
      exact .over hf (by rw [hcalls, takeCtor_ids _ _ _ _ htc]; exact hid) (habs ▸ hW)
  · simp at hs

end UtilModel.Keyed
