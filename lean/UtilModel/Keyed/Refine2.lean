import UtilModel.Keyed.Refine
/-!
# keyed — refinement of the key-set specification (C06): the calls that loop over the key map
-/
namespace UtilModel.Keyed

/-- invisible to the abstraction -/
structure Quiet (s s' : St) : Prop where
  frame : Frame s s'
  core : ∀ k, core (s'.key k) = core (s.key k)
  ctors : ∀ k, s'.ctors k = s.ctors k

theorem Quiet.refl (s : St) : Quiet s s := ⟨Frame.refl s, fun _ => rfl, fun _ => rfl⟩
theorem Quiet.trans {a b c : St} (h1 : Quiet a b) (h2 : Quiet b c) : Quiet a c :=
  ⟨h1.frame.trans h2.frame, fun k => (h2.core k).trans (h1.core k), fun k => (h2.ctors k).trans (h1.ctors k)⟩

theorem Touch.quiet {k : Nat} {s s' : St} (h : Touch k s s') : Quiet s s' := by
  refine ⟨h.frame, ?_, h.ctors⟩
  intro k'
  by_cases hk : k' = k
  · subst hk; exact h.same
  · rw [h.other k' hk]

theorem abs_quiet {s s' : St} (h : Quiet s s') : abs s' = abs s := abs_eq s s' h.frame h.core h.ctors

theorem foldl_quiet (f : St → Nat → St) (hf : ∀ s k, Quiet s (f s k)) (L : List Nat) (s : St) :
    Quiet s (L.foldl f s) := by
  induction L generalizing s with
  | nil => exact Quiet.refl s
  | cons k L ih => exact (hf s k).trans (ih (f s k))

theorem touch_setCtxOne (same restart : Bool) (s : St) (k : Nat) : Touch k s (setCtxOne same restart s k) := by
  unfold setCtxOne
  cases hr : s.key k with
  | none => exact Touch.refl k s
  | some r =>
    simp only []
    split
    · exact Touch.refl k s
    · have h1 : Touch k s (setRec (cancelOpt s r.gen r.cancelOf) k (some { r with cur := none, cancelOf := none })) :=
        (touch_cancelOpt k s r.gen r.cancelOf).trans (touch_setRec k _ r _ (by simpa using hr) rfl rfl)
      split
      · exact h1.trans (touch_startKey _ k false)
      · exact h1

theorem setContext_refines (s : St) (c : Option Nat) (restart : Bool) :
    abs (setContext s c restart) = { abs s with hasCtx := isLive c } := by
  unfold setContext
  simp only []
  split
  · rename_i h
    have : s.ctx = c := by
      have h' : (s.ctx == c) = true := by
        cases hb : (s.ctx == c) <;> simp [hb] at h ⊢
      exact eq_of_beq h'
    simp [abs, this]
  · rw [abs_quiet (foldl_quiet _ (fun s k => (touch_setCtxOne _ restart s k).quiet) _ _)]
    rfl

theorem restartAll_abs (s : St) (L : List Nat) (n : Nat) :
    abs (L.foldl restartAllStep (s, n)).1 = abs s := by
  rw [foldl_fst restartAllStep (fun s k => (restartKey s k).1) (fun _ _ => rfl)]
  exact abs_quiet (foldl_quiet _ (fun s k => (touch_restartKey s k).quiet) _ _)

/-! ## ResetAllRoutines -/

theorem resetAll_sigma (s : St) (L : List Nat) (nd : L.Nodup) (k' : Nat) :
    (core ((L.foldl (fun s k => (resetKey s k).1) s).key k'), (L.foldl (fun s k => (resetKey s k).1) s).ctors k') =
      if k' ∈ L then (if (s.key k').isSome then (some (s.ctors k' + 1, none), s.ctors k' + 1) else (none, s.ctors k'))
      else (core (s.key k'), s.ctors k') := by
  have := foldl_local (fun s k => (core (s.key k), s.ctors k)) (fun s k => (resetKey s k).1)
    (fun _ p => if p.1.isSome then (some (p.2 + 1, none), p.2 + 1) else (none, p.2)) (fun _ => True)
    (fun _ _ _ => trivial)
    (fun s k k' _ => by
      simp only [core_resetKey, ctors_resetKey]
      by_cases hk : k' = k
      · subst hk
        cases hr : s.key k' <;> simp [core]
      · simp [hk])
    L nd s trivial k'
  rw [this]
  cases hr : s.key k' <;> simp [core]

theorem data_abs' (s : St) (k : Nat) (r : Rec) (hr : s.key k = some r) :
    ((abs s).st k).data = r.data := by
  simp only [abs, hr, absKey]
  cases hdr : r.deferRemove with
  | none => rfl
  | some e => rfl

/-- the condition functions see the data of the record = the data in the abstract state -/
theorem matchK_abs (s : St) (cs : List Cond) (k : Nat) : matchK s cs k = specMatch (abs s) cs k := by
  simp only [matchK, specMatch, inSet_abs]
  cases hr : s.key k with
  | none => simp
  | some r => simp [data_abs' s k r hr]

theorem resetAll_refines (s : St) (cs : List Cond) (l : List (Nat × Nat)) :
    abs (((keyList s).filter (matchK s cs)).foldl resetAllStep (s, l)).1 =
      specStep (abs s) (failedOf s) (.resetAll cs) := by
  rw [foldl_fst resetAllStep (fun s k => (resetKey s k).1) (fun _ _ => rfl)]
  have nd : ((keyList s).filter (matchK s cs)).Nodup := (nodup_keyList s).sublist List.filter_sublist
  have hs := resetAll_sigma s _ nd
  have hf : Frame s (((keyList s).filter (matchK s cs)).foldl (fun s k => (resetKey s k).1) s) :=
    foldl_frame _ (fun s k => frame_resetKey s k) _ _
  rw [abs_of_sigma s _ hf
    (fun k => if (s.key k).isSome && matchK s cs k then some (s.ctors k + 1, none) else core (s.key k))
    (fun k => if (s.key k).isSome && matchK s cs k then s.ctors k + 1 else s.ctors k)]
  · simp only [specStep, renSt, renCtor, inSet_abs s, ← matchK_abs]
    congr 1
    · funext k
      cases hr : s.key k with
      | none => simp [absCore, core, abs, hr, absKey, matchK]
      | some r =>
        cases hm : matchK s cs k
        · simp [absCore, core, nctor_abs, hm, st_abs, hr, absKey]
          cases r.deferRemove <;> rfl
        · simp [absCore, core, nctor_abs, hm, st_abs, hr, absKey]
    · funext k
      cases hr : s.key k with
      | none => simp [nctor_abs, matchK, hr]
      | some r => cases hm : matchK s cs k <;> simp [nctor_abs, hm]
  · intro k
    have := hs k
    simp only [List.mem_filter, mem_keyList] at this
    cases hr : s.key k with
    | none => simp [hr] at this ⊢; exact this.1
    | some r =>
      cases hm : matchK s cs k
      · simp [hr, hm] at this ⊢; exact this.1
      · simp [hr, hm] at this ⊢; exact this.1
  · intro k
    have := hs k
    simp only [List.mem_filter, mem_keyList] at this
    cases hr : s.key k with
    | none => simp [hr] at this ⊢; exact this.2
    | some r =>
      cases hm : matchK s cs k
      · simp [hr, hm] at this ⊢; exact this.2
      · simp [hr, hm] at this ⊢; exact this.2

end UtilModel.Keyed
