import UtilModel.Keyed.ObsC06f
import UtilModel.Keyed.ObsC07
import UtilModel.Keyed.C07Own4
/-!
# keyed — `C07c_obs`: every observable trace of the model is accepted by `monC07c`
("a routine whose key is known to be out of the set, or whose context was cleared, is cancelled")
-/
namespace UtilModel.Keyed
open UtilModel

structure Sim7c (s : St) (m : M7c) : Prop where
  i3 : Inv3 s
  a : Sim s m.a
  o : Sim6 s m.o

theorem absKey_absent (o : Option Rec) (h : absKey o = .absent) : o = none := by
  cases o with
  | none => rfl
  | some r =>
    simp only [absKey] at h
    split at h <;> cases h

theorem probe_ok (s s' : St) (j : Nat) (c : Bool) (m : M7c) (hR : Sim7c s m) (hs : step s (.probe j c) = some s') :
    m.probeBad (.probe j c) = false := by
  simp only [step] at hs
  split at hs
  · simp at hs
  · rename_i g i hj
    split at hs
    · rename_i x hgi
      split at hs
      · rename_i hg
        obtain ⟨y, x', hy, hx', _, _, hm⟩ := hR.a.view.run j g i hj
        have hxx : x' = x := by
          simp only [getInst, hy] at hgi
          rw [hx'] at hgi; cases hgi; rfl
        subst hxx
        simp only [M7c.probeBad, hm]
        cases hc : c with
        | true => simp
        | false =>
          have hcan : x'.cancelled = false := hg.2.trans hc
          obtain ⟨r, hkey, _, _⟩ := hR.i3.own g y i x' hy hx' hcan
          have hctx := hR.i3.ownc g y i x' hy hx' hcan
          cases hp : m.o.pending with
          | cons p ps => simp
          | nil =>
            have hcalls : s.calls = [] := by
              have := hR.o.2.ids; rw [hp] at this; simpa using this.symm
            obtain ⟨_, hK⟩ := hR.o.2.quiet hcalls
            have h1 : m.o.st y.key ≠ .absent := by
              intro ha
              have := hK.st y.key
              rw [ha] at this
              simp only [KnowK, abs] at this
              have := absKey_absent _ this
              rw [hkey] at this; cases this
            have h2 : m.o.hasCtx ≠ some false := by
              intro ha
              have := hK.ctx false ha
              simp only [abs] at this
              rw [hctx] at this; cases this
            simp [h1, h2]
      · simp at hs
    · simp at hs

theorem sim7c_step (s : St) (e : Ev) (s' : St) (m : M7c) (hR : Sim7c s m) (hs : model.step s e = some s') :
    match model.obs e with
    | none => Sim7c s' m
    | some ob => ∃ m', monC07c.step m ob = some m' ∧ Sim7c s' m' := by
  have hst : step s e = some s' := hs
  have h3 := inv3_step s s' e hR.i3 hR.o.1.c hst
  have hG := g6_step s s' e hR.o.1 hst
  have ha := sim_step s e s' m.a hR.a hs
  have ho := phase_step s s' e m.o hR.o.1 hR.o.2 hst
  have hpb : ∀ ob, model.obs e = some ob → m.probeBad ob = false := by
    intro ob hob
    cases e with
    | probe j c => cases hob; exact probe_ok s s' j c m hR hst
    | quiesce =>
      cases hob
      simp only [step] at hst
      split at hst
      · rename_i hq
        simp only [quiet, Bool.and_eq_true, List.isEmpty_iff] at hq
        have := hR.o.2.ids
        rw [hq.1.1] at this
        have hp : m.o.pending = [] := by simpa using this
        simp [M7c.probeBad, hp]
      · simp at hst
    | proceed g i => cases hob
    | bail g i => cases hob
    | closeExit g i => cases hob
    | record g i => cases hob
    | timerRemove k => cases hob
    | timerRetry k => cases hob
    | exec id => cases hob
    | _ => cases hob; rfl
  cases hob : model.obs e with
  | none =>
    simp only [hob] at ha ho ⊢
    exact ⟨h3, ha, hG, ho⟩
  | some ob =>
    simp only [hob] at ha ho ⊢
    obtain ⟨a', ha1, ha2⟩ := ha
    obtain ⟨o', ho1, ho2⟩ := ho
    refine ⟨{ a := a', o := o' }, ?_, h3, ha2, hG, ho2⟩
    simp only [monC07c, hpb ob hob, ha1, ho1]
    rfl

/-- **C07 (removal cancels), observable form.** Every observable trace of the model is accepted by
`monC07c`: whenever no call is in progress and the history shows that the key of a routine is out of the
set (removed at once; or removed with a delay that has expired by a quiescence point; not requested
since) or that the context was cleared, a probe of the routine's context finds it cancelled. The same
monitor is evaluated on the histories of the real code. -/
theorem C07c_obs (es : List Ev) (s : St) (hr : model.run model.init es = some s) :
    monC07c.accepts (es.filterMap model.obs) = true :=
  monitor_accepts_of_simulation model monC07c Sim7c
    ⟨inv3_init, ⟨⟨kinv_init, dinv_init⟩, ⟨rfl, fun j j' p h => by simp [model] at h, fun j g i h => by simp [model] at h⟩⟩,
      g6_init, .rest rfl rfl know_init⟩
    (fun s e s' ms hR hs => by
      have h := sim7c_step s e s' ms hR hs
      cases hob : model.obs e with
      | none => simp only [hob] at h ⊢; exact h
      | some o => simp only [hob] at h ⊢; exact h) es s hr

end UtilModel.Keyed
