import UtilModel.Keyed.Corollaries
/-!
# keyed — consequences of the refinement on the model's runs
-/
namespace UtilModel.Keyed
open UtilModel

/-- a key that is `leaving` stays in the set under every event except `advance` -/
theorem leaving_step (s s' : St) (e : Ev) (hI : RInv s) (hs : step s e = some s') (he : e ≠ .advance)
    (k d ep : Nat) (h : (abs s).st k = .leaving d ep) : (abs s').inSet k = true := by
  have hr := (step_refines s s' e hI hs).1
  rw [hr]
  cases e with
  | advance => exact absurd rfl he
  | exec =>
    simp only [specEv]
    split
    · exact specStep_keeps_leaving _ _ _ k d ep h
    · exact inSet_of_leaving _ k d ep h
  | config c => exact inSet_of_leaving _ k d ep h
  | _ => exact inSet_of_leaving _ k d ep h

/-- a `present` key stays `present` (same data) under every event that is not the critical section
of a call: in particular the end of an epoch does not remove it -/
theorem present_step (s s' : St) (e : Ev) (hI : RInv s) (hs : step s e = some s') (he : e ≠ .exec)
    (k d : Nat) (h : (abs s).st k = .present d) : (abs s').st k = .present d := by
  have hr := (step_refines s s' e hI hs).1
  rw [hr]
  cases e with
  | exec => exact absurd rfl he
  | advance => exact advance_present _ k d h
  | config c => exact h
  | _ => exact h

/-! ## references keep their key present (KeyedRefCount) -/

theorem cfg_execOp (s : St) (op : Op) : (execOp s op).1.cfg = s.cfg := by
  cases op with
  | setKey k st => simp only [execOp]; rw [setKey_eq_syncS]; exact (syncS_spec st s k).1.cfg
  | removeKey k => exact (removeKey_spec s k).1.cfg
  | syncKeys ks restart =>
    simp only [execOp, syncKeys]
    rw [foldl_fst (syncOne restart) (syncS restart) (syncOne_fst restart)]
    exact ((foldl_frame _ (fun s k => (syncS_spec restart s k).1) _ _).trans
      (foldl_frame _ (fun s k => (removeAbsent_spec ks s k).1) _ _)).cfg
  | getKey k => simp only [execOp]; split <;> rfl
  | getKeys => rfl
  | getKeysWithData => rfl
  | resetRoutine k => exact (frame_resetKey s k).cfg
  | restartRoutine k => exact (touch_restartKey s k).frame.cfg
  | resetAll =>
    simp only [execOp]
    rw [foldl_fst resetAllStep (fun s k => (resetKey s k).1) (fun _ _ => rfl)]
    exact (foldl_frame _ (fun s k => frame_resetKey s k) _ _).cfg
  | restartAll =>
    simp only [execOp]
    rw [foldl_fst restartAllStep (fun s k => (restartKey s k).1) (fun _ _ => rfl)]
    exact (foldl_frame _ (fun s k => (touch_restartKey s k).frame) _ _).cfg
  | setContext c restart =>
    simp only [execOp, setContext]
    split
    · rfl
    · exact (foldl_frame _ (fun s k => (touch_setCtxOne _ restart s k).frame) _ _).cfg
  | addKeyRef k =>
    simp only [execOp, addKeyRef]
    have := (syncS_spec true s k).1.cfg
    rw [← setKey_eq_syncS] at this
    exact this
  | release r =>
    simp only [execOp, release]
    split
    · rfl
    · split
      · rfl
      · split
        · exact (removeKey_spec _ _).1.cfg
        · rfl
  | rcRemoveKey k =>
    simp only [execOp, rcRemoveKey]
    exact (removeKey_spec _ _).1.cfg

theorem instStep_cfg (s s' : St) (g i : Nat) (f : G → Inst → Option Inst) (h : instStep s g i f = some s') :
    s'.cfg = s.cfg := by
  unfold instStep at h
  split at h
  · simp at h
  · split at h
    · simp at h
    · split at h
      · simp at h
      · simp at h; subst h; rfl

/-- a call is pending only with a configuration, and only if the object under test has that call -/
structure CInv (s : St) : Prop where
  call : ∀ id op, s.call = .invoked id op → ∃ c, s.cfg = some c ∧ op.allowed c.rc = true
  idle : s.cfg = none → s.call = .idle

theorem cinv_of_same {s s' : St} (h : CInv s) (hc : s'.cfg = s.cfg) (hcall : s'.call = s.call) : CInv s' :=
  ⟨fun id op hi => by rw [hc]; exact h.call id op (hcall ▸ hi), fun hn => by rw [hcall]; exact h.idle (hc ▸ hn)⟩

theorem cinv_step (s s' : St) (e : Ev) (h : CInv s) (hs : step s e = some s') : CInv s' := by
  cases e with
  | config c =>
    simp only [step] at hs
    split at hs
    · rename_i hn
      simp at hs; subst hs
      have hnone : s.cfg = none := by simpa using hn
      exact ⟨fun id op hi => (by rw [h.idle hnone] at hi; cases hi), fun hn' => (by cases hn')⟩
    · simp at hs
  | inv id op =>
    simp only [step] at hs
    split at hs
    · simp at hs
    · rename_i c hc
      split at hs
      · rename_i hg
        simp at hs; subst hs
        refine ⟨?_, fun hn => by rw [hc] at hn; cases hn⟩
        intro id' op' hcall
        simp at hcall
        obtain ⟨_, rfl⟩ := hcall
        exact ⟨c, hc, hg.2.2⟩
      · simp at hs
  | exec =>
    simp only [step] at hs
    split at hs
    · rename_i id op hc
      simp at hs; subst hs
      refine ⟨fun id' op' hi => (by cases hi), ?_⟩
      intro hn
      have : s.cfg = none := by rw [← cfg_execOp s op]; exact hn
      rw [h.idle this] at hc; cases hc
    · simp at hs
  | ctor k d =>
    simp only [step] at hs
    split at hs
    · rename_i id cs res hc
      split at hs
      · simp at hs; subst hs
        refine ⟨fun id' op' hi => (by cases hi), ?_⟩
        intro hn
        have := h.idle hn
        rw [this] at hc; cases hc
      · simp at hs
    · simp at hs
  | ret id res =>
    simp only [step] at hs
    split at hs
    · split at hs
      · simp at hs; subst hs
        exact ⟨fun id' op' hi => (by cases hi), fun _ => rfl⟩
      · simp at hs
    · simp at hs
  | proceed g i =>
    have := instStep_abs s s' g i _ hs
    have hc : s'.cfg = s.cfg := instStep_cfg s s' _ _ _ hs
    exact cinv_of_same h hc this.2.2.2.1
  | bail g i =>
    have := instStep_abs s s' g i _ hs
    have hc : s'.cfg = s.cfg := instStep_cfg s s' _ _ _ hs
    exact cinv_of_same h hc this.2.2.2.1
  | cbin j g i k d =>
    simp only [step] at hs
    split at hs
    · split at hs
      · simp at hs
      · split at hs
        · simp at hs
        · split at hs
          · simp at hs; subst hs; exact cinv_of_same h rfl rfl
          · simp at hs
    · simp at hs
  | cbout j o =>
    simp only [step] at hs
    split at hs
    · simp at hs
    · have := instStep_abs s s' _ _ _ hs
      have hc : s'.cfg = s.cfg := instStep_cfg s s' _ _ _ hs
      exact cinv_of_same h hc this.2.2.2.1
  | closeExit g i =>
    have := instStep_abs s s' g i _ hs
    have hc : s'.cfg = s.cfg := instStep_cfg s s' _ _ _ hs
    exact cinv_of_same h hc this.2.2.2.1
  | record g i =>
    simp only [step] at hs
    split at hs
    · simp at hs
    · split at hs
      · simp at hs
      · split at hs
        · simp at hs; subst hs
          have T := touch_recordInst s g i ‹Inst› ‹G›.key
          exact cinv_of_same h T.frame.cfg T.frame.call
        · simp at hs
  | timerRemove k =>
    simp only [step] at hs
    split at hs
    · rename_i r hr
      split at hs
      · simp at hs; subst hs
        have F := (frame_cancelOpt s r.gen r.cancelOf).trans (frame_setRec _ k none)
        exact cinv_of_same h F.cfg F.call
      · simp at hs
    · simp at hs
  | timerRetry k =>
    simp only [step] at hs
    split at hs
    · rename_i r hr
      split at hs
      · simp at hs; subst hs
        have T1 : Touch k s (setRec s k (some { r with deferRetry := none })) :=
          touch_setRec k s r _ hr rfl rfl
        split
        · have T := T1.trans (touch_startKey _ k true)
          exact cinv_of_same h T.frame.cfg T.frame.call
        · exact cinv_of_same h T1.frame.cfg T1.frame.call
      · simp at hs
    · simp at hs
  | advance =>
    simp only [step] at hs
    split at hs
    · simp at hs; subst hs; exact cinv_of_same h rfl rfl
    · simp at hs
  | quiesce =>
    simp only [step] at hs
    split at hs
    · simp at hs; subst hs; exact h
    · simp at hs
  | probe j c =>
    simp only [step] at hs
    split at hs
    · simp at hs
    · split at hs
      · split at hs
        · simp at hs; subst hs; exact h
        · simp at hs
      · simp at hs
  | nilnext k =>
    simp only [step] at hs
    split at hs
    · simp at hs; subst hs; exact cinv_of_same h rfl rfl
    · simp at hs

theorem cinv_reachable (s : St) (h : model.Reachable s) : CInv s :=
  model.invariant CInv ⟨fun id op hi => (by cases hi), fun _ => rfl⟩
    (fun s e s' hi hs => cinv_step s s' e hi hs) s h

/-- one step keeps "a key with a live reference is present" on an object that is a `KeyedRefCount` -/
theorem rcOk_step (s s' : St) (e : Ev) (hI : RInv s) (hC : CInv s) (hs : step s e = some s')
    (hrc : ∀ c, s.cfg = some c → c.rc = true) (h : RcOk (abs s)) : RcOk (abs s') := by
  have hr := (step_refines s s' e hI hs).1
  rw [hr]
  cases e with
  | exec =>
    simp only [specEv]
    split
    · rename_i id op hc
      obtain ⟨c, hcfg, hall⟩ := hC.call id op hc
      rw [hrc c hcfg] at hall
      exact rcOk_specStep _ _ op h hall
    · exact h
  | advance => exact rcOk_advance _ h
  | config c => exact h
  | _ => exact h

end UtilModel.Keyed
