import UtilModel.Keyed.Corollaries
/-!
# keyed — consequences of the refinement on the model's runs
-/
namespace UtilModel.Keyed
open UtilModel

/-- a key that is `leaving` stays in the set under every event except the callback of its own removal
timer -/
theorem leaving_step (s s' : St) (e : Ev) (hI : RInv s) (hs : step s e = some s') (he : e ≠ .timerRemove k)
    (d ep : Nat) (h : (abs s).st k = .leaving d ep) : (abs s').inSet k = true := by
  have hr := (step_refines s s' e hI hs).1
  rw [hr]
  cases e with
  | timerRemove k' =>
    have hkk : k ≠ k' := fun e' => he (by rw [e'])
    simp only [specEv, ASt.inSet]
    rw [expire_other _ k k' hkk, h]; rfl
  | exec id =>
    simp only [specEv]
    split
    · exact specStep_keeps_leaving _ _ _ k d ep h
    · exact inSet_of_leaving _ k d ep h
  | advance => exact inSet_of_leaving _ k d ep h
  | config c => exact inSet_of_leaving _ k d ep h
  | _ => exact inSet_of_leaving _ k d ep h

/-- that callback runs only after the epoch in which the timer was armed has ended -/
theorem timerRemove_after_advance (s s' : St) (k : Nat) (hs : step s (.timerRemove k) = some s') :
    ∃ r e, s.key k = some r ∧ r.deferRemove = some e ∧ e < s.epoch := by
  simp only [step] at hs
  split at hs
  · rename_i r hr
    split at hs
    · rename_i hdue
      cases hdr : r.deferRemove with
      | none => simp [dueOpt, hdr] at hdue
      | some e => exact ⟨r, e, hr, hdr, by simpa [dueOpt, hdr] using hdue⟩
    · simp at hs
  · simp at hs

/-- a `present` key stays `present` (same data) under every event that is not the critical section
of a call: in particular neither the end of an epoch nor a timer callback removes it -/
theorem present_step (s s' : St) (e : Ev) (hI : RInv s) (hs : step s e = some s') (he : ∀ id, e ≠ .exec id)
    (k d : Nat) (h : (abs s).st k = .present d) : (abs s').st k = .present d := by
  have hr := (step_refines s s' e hI hs).1
  rw [hr]
  cases e with
  | exec id => exact absurd rfl (he id)
  | advance => exact h
  | timerRemove k' => exact expire_present _ k k' d h
  | config c => exact h
  | _ => exact h

/-! ## references keep their key present (KeyedRefCount) -/

theorem cfg_execOp (s : St) (op : Op) : (execOp s op).1.cfg = s.cfg := by
  cases op with
  | setKey k st => simp only [execOp]; rw [setKey_eq_syncS]; exact (syncS_spec st s k).1.cfg
  | removeKey k => exact (removeKey_spec s k).1.cfg
  | syncKeys ks restart =>
    simp only [execOp, syncKeys]
    rw [foldl_fst (syncOne restart) (syncS restart) (syncOne_fst restart)]
    exact ((foldl_frame _ (fun s k => (syncS_spec restart s k).1) _ _).trans
      (foldl_frame _ (fun s k => (removeAbsent_spec ks s k).1) _ _)).cfg
  | getKey k => simp only [execOp]; split <;> rfl
  | getKeys => rfl
  | getKeysWithData => rfl
  | resetRoutine k cs =>
    simp only [execOp]
    split
    · exact (frame_resetKey s k).cfg
    · exact rfl
  | restartRoutine k cs =>
    simp only [execOp]
    split
    · exact (touch_restartKey s k).frame.cfg
    · exact rfl
  | resetAll cs =>
    simp only [execOp]
    rw [foldl_fst resetAllStep (fun s k => (resetKey s k).1) (fun _ _ => rfl)]
    exact (foldl_frame _ (fun s k => frame_resetKey s k) _ _).cfg
  | restartAll cs =>
    simp only [execOp]
    rw [foldl_fst restartAllStep (fun s k => (restartKey s k).1) (fun _ _ => rfl)]
    exact (foldl_frame _ (fun s k => (touch_restartKey s k).frame) _ _).cfg
  | setContext c restart =>
    simp only [execOp, setContext]
    split
    · rfl
    · exact (foldl_frame _ (fun s k => (touch_setCtxOne _ restart s k).frame) _ _).cfg
  | addKeyRef k =>
    simp only [execOp, addKeyRef]
    have := (syncS_spec true s k).1.cfg
    rw [← setKey_eq_syncS] at this
    exact this
  | release r =>
    simp only [execOp, release]
    split
    · rfl
    · split
      · rfl
      · split
        · exact (removeKey_spec _ _).1.cfg
        · rfl
  | rcRemoveKey k =>
    simp only [execOp, rcRemoveKey]
    exact (removeKey_spec _ _).1.cfg

theorem instStep_cfg (s s' : St) (g i : Nat) (f : G → Inst → Option Inst) (h : instStep s g i f = some s') :
    s'.cfg = s.cfg := by
  unfold instStep at h
  split at h
  · simp at h
  · split at h
    · simp at h
    · split at h
      · simp at h
      · simp at h; subst h; rfl

/-- a call is pending only with a configuration, and only if the object under test has that call -/
structure CInv (s : St) : Prop where
  call : ∀ id op, Call.invoked id op ∈ s.calls → ∃ c, s.cfg = some c ∧ op.allowed c.rc = true

theorem cinv_of_same {s s' : St} (h : CInv s) (hc : s'.cfg = s.cfg) (hcall : s'.calls = s.calls) : CInv s' :=
  ⟨fun id op hi => by rw [hc]; exact h.call id op (hcall ▸ hi)⟩

/-- calls only leave the list or change from `invoked` to `done` -/
theorem cinv_of_sub {s s' : St} (h : CInv s) (hc : s'.cfg = s.cfg)
    (hsub : ∀ id op, Call.invoked id op ∈ s'.calls → Call.invoked id op ∈ s.calls) : CInv s' :=
  ⟨fun id op hi => by rw [hc]; exact h.call id op (hsub id op hi)⟩

theorem takeCtor_invoked (cs cs' : List Call) (k d : Nat) (h : takeCtor cs k d = some cs') (id : Nat) (op : Op)
    (hi : Call.invoked id op ∈ cs') : Call.invoked id op ∈ cs := by
  induction cs generalizing cs' with
  | nil => simp [takeCtor] at h
  | cons c cs ih =>
    cases c with
    | invoked id' op' =>
      simp only [takeCtor, Option.map_eq_some_iff] at h
      obtain ⟨r, hr, rfl⟩ := h
      simp only [List.mem_cons] at hi ⊢
      rcases hi with hi | hi
      · exact Or.inl hi
      · exact Or.inr (ih r hr hi)
    | done id' q res =>
      simp only [takeCtor] at h
      split at h
      · simp at h; subst h
        simp only [List.mem_cons] at hi ⊢
        rcases hi with hi | hi
        · cases hi
        · exact Or.inr hi
      · simp only [Option.map_eq_some_iff] at h
        obtain ⟨r, hr, rfl⟩ := h
        simp only [List.mem_cons] at hi ⊢
        rcases hi with hi | hi
        · cases hi
        · exact Or.inr (ih r hr hi)

theorem cinv_step (s s' : St) (e : Ev) (h : CInv s) (hs : step s e = some s') : CInv s' := by
  cases e with
  | config c =>
    simp only [step] at hs
    split at hs
    · rename_i hn
      simp at hs; subst hs
      have hnone : s.cfg = none := by simpa using hn
      refine ⟨fun id op hi => ?_⟩
      obtain ⟨c', hc', _⟩ := h.call id op hi
      rw [hnone] at hc'; cases hc'
    · simp at hs
  | inv id op =>
    simp only [step] at hs
    split at hs
    · simp at hs
    · rename_i c hc
      split at hs
      · rename_i hg
        simp at hs; subst hs
        refine ⟨?_⟩
        intro id' op' hcall
        simp only [List.mem_append, List.mem_singleton] at hcall
        rcases hcall with hcall | hcall
        · exact h.call id' op' hcall
        · simp only [Call.invoked.injEq] at hcall
          obtain ⟨_, rfl⟩ := hcall
          exact ⟨c, hc, hg.1⟩
      · simp at hs
  | exec id =>
    simp only [step] at hs
    split at hs
    · rename_i op hc
      simp at hs; subst hs
      refine cinv_of_sub h (s' := { (execOp (preOp s op) op).1 with
        calls := s.calls.map (fun c => if c = Call.invoked id op then
          Call.done id (execOp (preOp s op) op).2.1 (execOp (preOp s op) op).2.2 else c) })
        ((cfg_execOp (preOp s op) op).trans (preOp_fields s op).2.2.2.2.1) ?_
      intro id' op' hi
      simp only [List.mem_map] at hi
      obtain ⟨c, hc1, hc2⟩ := hi
      split at hc2
      · cases hc2
      · subst hc2; exact hc1
    · simp at hs
  | ctor k d =>
    simp only [step] at hs
    split at hs
    · rename_i cs hcs
      simp at hs; subst hs
      exact cinv_of_sub h rfl (fun id op hi => takeCtor_invoked s.calls cs k d hcs id op hi)
    · simp at hs
  | ret id res =>
    simp only [step] at hs
    split at hs
    · simp at hs; subst hs
      exact cinv_of_sub h rfl (fun id' op' hi => List.mem_of_mem_erase hi)
    · simp at hs
  | proceed g i =>
    have := instStep_abs s s' g i _ hs
    have hc : s'.cfg = s.cfg := instStep_cfg s s' _ _ _ hs
    exact cinv_of_same h hc this.2.2.2.1
  | bail g i =>
    have := instStep_abs s s' g i _ hs
    have hc : s'.cfg = s.cfg := instStep_cfg s s' _ _ _ hs
    exact cinv_of_same h hc this.2.2.2.1
  | cbin j g i k d =>
    simp only [step] at hs
    split at hs
    · split at hs
      · simp at hs
      · split at hs
        · simp at hs
        · split at hs
          · simp at hs; subst hs; exact cinv_of_same h rfl rfl
          · simp at hs
    · simp at hs
  | cbout j o =>
    simp only [step] at hs
    split at hs
    · simp at hs
    · have := instStep_abs s s' _ _ _ hs
      have hc : s'.cfg = s.cfg := instStep_cfg s s' _ _ _ hs
      exact cinv_of_same h hc this.2.2.2.1
  | closeExit g i =>
    have := instStep_abs s s' g i _ hs
    have hc : s'.cfg = s.cfg := instStep_cfg s s' _ _ _ hs
    exact cinv_of_same h hc this.2.2.2.1
  | record g i =>
    simp only [step] at hs
    split at hs
    · simp at hs
    · split at hs
      · simp at hs
      · split at hs
        · simp at hs; subst hs
          have T := touch_recordInst s g i ‹Inst› ‹G›.key
          exact cinv_of_same h T.frame.cfg T.frame.call
        · simp at hs
  | timerRemove k =>
    simp only [step] at hs
    split at hs
    · rename_i r hr
      split at hs
      · simp at hs; subst hs
        have F := (frame_cancelOpt s r.gen r.cancelOf).trans (frame_setRec _ k none)
        exact cinv_of_same h F.cfg F.call
      · simp at hs
    · simp at hs
  | timerRetry k =>
    simp only [step] at hs
    split at hs
    · rename_i r hr
      split at hs
      · simp at hs; subst hs
        have T1 : Touch k s (setRec s k (some { r with deferRetry := none })) :=
          touch_setRec k s r _ hr rfl rfl
        split
        · have T := T1.trans (touch_startKey _ k true)
          exact cinv_of_same h T.frame.cfg T.frame.call
        · exact cinv_of_same h T1.frame.cfg T1.frame.call
      · simp at hs
    · simp at hs
  | advance =>
    simp only [step] at hs
    split at hs
    · simp at hs; subst hs; exact cinv_of_same h rfl rfl
    · simp at hs
  | quiesce =>
    simp only [step] at hs
    split at hs
    · simp at hs; subst hs; exact h
    · simp at hs
  | boff k b =>
    simp only [step] at hs
    split at hs
    · simp at hs; subst hs; exact h
    · simp at hs
  | probe j c =>
    simp only [step] at hs
    split at hs
    · simp at hs
    · split at hs
      · split at hs
        · simp at hs; subst hs; exact h
        · simp at hs
      · simp at hs
  | nilnext k =>
    simp only [step] at hs
    split at hs
    · simp at hs; subst hs; exact cinv_of_same h rfl rfl
    · simp at hs
  | cancelroot =>
    simp only [step] at hs
    split at hs
    · simp at hs; subst hs
      exact cinv_of_same h (sameBut_cancelAll _).cfg (sameBut_cancelAll _).calls
    · simp at hs

theorem cinv_reachable (s : St) (h : model.Reachable s) : CInv s :=
  model.invariant CInv ⟨fun id op hi => (by cases hi)⟩
    (fun s e s' hi hs => cinv_step s s' e hi hs) s h

/-- one step keeps "a key with a live reference is present" on an object that is a `KeyedRefCount` -/
theorem rcOk_step (s s' : St) (e : Ev) (hI : RInv s) (hC : CInv s) (hs : step s e = some s')
    (hrc : ∀ c, s.cfg = some c → c.rc = true) (h : RcOk (abs s)) : RcOk (abs s') := by
  have hr := (step_refines s s' e hI hs).1
  rw [hr]
  cases e with
  | exec id =>
    simp only [specEv]
    split
    · rename_i op hc
      obtain ⟨c, hcfg, hall⟩ := hC.call id op (pendingOp_mem s.calls id op hc)
      rw [hrc c hcfg] at hall
      exact rcOk_specStep _ _ op h hall
    · exact h
  | advance => exact rcOk_advance _ h
  | timerRemove k => exact rcOk_expire _ k h
  | config c => exact h
  | _ => exact h

end UtilModel.Keyed
