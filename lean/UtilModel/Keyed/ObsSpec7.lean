import UtilModel.Keyed.ObsSpec6
/-!
# keyed — `monC06o`: all rules together; knowledge is stable under expiry, `advance`, `quiesce`
-/
namespace UtilModel.Keyed
open UtilModel

theorem ret_sound (m : M6o) (a : ASt) (f : Nat → Bool) (op : Op) (res : Res) (hK : Know m a) (hI : SpecInv a)
    (hR : RcOk a) (hclr : Cleared m op) (hout : SpecOut a (specStep a f op) op res) :
    ∃ m', m.ret op res = some m' ∧ Know m' (specStep a f op) ∧ m'.pending = m.pending := by
  cases op with
  | setKey k st => exact ret_setKey m a f k st res hK hI hout
  | removeKey k => exact ret_removeKey m a f k res hK hout
  | syncKeys ks r => exact ret_syncKeys m a f ks r res hK hout
  | getKey k => exact ret_getKey m a f k res hK hI hR hout
  | getKeys => exact ret_getKeys m a f res hK hR hout
  | getKeysWithData => exact ret_getKeysWithData m a f res hK hI hR hout
  | resetRoutine k cs => exact ret_resetRoutine m a f k cs res hK hI hout
  | restartRoutine k cs => exact ret_restartRoutine m a f k cs res hK hI hout
  | resetAll cs => exact ret_resetAll m a f cs res hK hI hout
  | restartAll cs => exact ret_restartAll m a f cs res hK hout
  | setContext c r => exact ret_setContext m a f c r res hK hout
  | addKeyRef k => exact ret_addKeyRef m a f k res hK hI hout
  | release r => exact ret_release m a f r res hK hclr hout
  | rcRemoveKey k => exact ret_rcRemoveKey m a f k res hK hclr hout

/-- `c` is `b` after some removal-timer callbacks ran -/
structure Exp (b c : ASt) : Prop where
  delay : c.delay = b.delay
  epoch : c.epoch = b.epoch
  ctx : c.hasCtx = b.hasCtx
  nctor : c.nctor = b.nctor
  live : c.live = b.live
  st : ∀ k, c.st k = b.st k ∨ ((∃ d e, b.st k = .leaving d e) ∧ c.st k = .absent)

theorem Exp.refl (b : ASt) : Exp b b := ⟨rfl, rfl, rfl, rfl, rfl, fun _ => Or.inl rfl⟩

theorem Exp.trans {b c d : ASt} (h1 : Exp b c) (h2 : Exp c d) : Exp b d := by
  refine ⟨h2.delay.trans h1.delay, h2.epoch.trans h1.epoch, h2.ctx.trans h1.ctx, h2.nctor.trans h1.nctor,
    h2.live.trans h1.live, ?_⟩
  intro k
  rcases h2.st k with h | ⟨⟨d', e', hl⟩, h⟩
  · rw [h]; exact h1.st k
  · rcases h1.st k with h' | ⟨_, h'⟩
    · right; exact ⟨⟨d', e', h' ▸ hl⟩, h⟩
    · rw [h'] at hl; cases hl

theorem exp_expire (b : ASt) (k : Nat) : Exp b (expire b k) := by
  refine ⟨rfl, rfl, rfl, rfl, rfl, ?_⟩
  intro k'
  simp only [expire, upd]
  split
  · rename_i hk; subst hk
    unfold expSt
    cases hs : b.st k' with
    | absent => left; rfl
    | present d => left; rfl
    | leaving d e =>
      simp only []
      split
      · right; exact ⟨⟨d, e, rfl⟩, rfl⟩
      · left; rfl
  · left; rfl

theorem know_exp (m : M6o) (b c : ASt) (hK : Know m b) (hE : Exp b c) : Know m c := by
  refine ⟨hK.delay.trans hE.delay.symm, hK.epoch.trans hE.epoch.symm, fun x h => by rw [hE.ctx]; exact hK.ctx x h,
    ?_, fun k n h => by rw [hE.nctor]; exact hK.cnt k n h, by rw [hE.live]; exact hK.live,
    by rw [hE.live]; exact hK.rkey⟩
  intro k
  have hk := hK.st k
  rcases hE.st k with h | ⟨⟨d, e, hl⟩, h⟩
  · exact knowK_other b c _ k h hk
  · cases hx : m.st k with
    | absent => rw [hx] at hk; simp only [KnowK] at hk; rw [hk] at hl; cases hl
    | present => rw [hx] at hk; obtain ⟨d', hd'⟩ := hk; rw [hd'] at hl; cases hl
    | unknown e' => left; exact h
    | any => trivial

theorem specInv_exp (b c : ASt) (h : SpecInv b) (hE : Exp b c) : SpecInv c := by
  intro k hin
  rcases hE.st k with h1 | ⟨_, h1⟩
  · rw [h1, hE.nctor]; exact h k (by simpa [ASt.inSet, h1] using hin)
  · simp [ASt.inSet, h1, KSt.inSet] at hin

/-- the end of an epoch -/
theorem know_advance (m : M6o) (a : ASt) (hK : Know m a) : Know { m with epoch := m.epoch + 1 } (specAdvance a) :=
  ⟨hK.delay, by simp [specAdvance, hK.epoch], hK.ctx, hK.st, hK.cnt, hK.live, hK.rkey⟩

/-- at a quiescence point no key is still leaving from an earlier epoch -/
theorem know_quiesce (m : M6o) (a : ASt) (hK : Know m a)
    (hq : ∀ k d e, a.st k = .leaving d e → ¬ e < a.epoch) :
    Know { m with st := fun k => match m.st k with
                      | .unknown e => if e < m.epoch then .absent else .unknown e
                      | x => x } a := by
  refine ⟨hK.delay, hK.epoch, hK.ctx, ?_, hK.cnt, hK.live, hK.rkey⟩
  intro k
  have hk := hK.st k
  simp only []
  cases hx : m.st k with
  | absent => rw [hx] at hk; exact hk
  | present => rw [hx] at hk; exact hk
  | any => trivial
  | unknown e =>
    rw [hx] at hk
    simp only []
    split
    · rename_i hlt
      rcases hk with h | ⟨d, hd⟩
      · exact h
      · exact absurd (hK.epoch ▸ hlt) (hq k d e hd)
    · exact hk

/-- forgetting certainly-live references is sound -/
theorem know_liveDef (m : M6o) (a : ASt) (l : List (Option Nat)) (hK : Know m a)
    (hl : ∀ (r k : Nat), l[r]? = some (some k) → m.liveDef[r]? = some (some k)) : Know { m with liveDef := l } a :=
  ⟨hK.delay, hK.epoch, hK.ctx, hK.st, hK.cnt, fun r k h => hK.live r k (hl r k h), hK.rkey⟩

theorem know_pending (m : M6o) (a : ASt) (p : List (Nat × Op × Bool)) (hK : Know m a) : Know { m with pending := p } a :=
  ⟨hK.delay, hK.epoch, hK.ctx, hK.st, hK.cnt, hK.live, hK.rkey⟩

end UtilModel.Keyed
