import UtilModel.Keyed.Refine6
/-!
# keyed — the refinement invariant is inductive; C06 for every run
-/
namespace UtilModel.Keyed

theorem refInv_of_refs {s s' : St} (h : s'.refs = s.refs) (hr : RefInv s) : RefInv s' := by
  intro x hx; rw [h] at hx; exact hr x hx

theorem execOp_refInv (s : St) (op : Op) (hr : RefInv s) : RefInv (execOp s op).1 := by
  cases op with
  | setKey k st =>
    simp only [execOp]; rw [setKey_eq_syncS]; exact refInv_of_refs (tstep_syncS st s k).refs hr
  | removeKey k => exact refInv_of_refs (tstep_removeKey s k).refs hr
  | syncKeys ks restart =>
    simp only [execOp, syncKeys]
    rw [foldl_fst (syncOne restart) (syncS restart) (syncOne_fst restart)]
    exact refInv_of_refs
      ((foldl_tstep _ (tstep_syncS restart) _ _).trans (foldl_tstep _ (tstep_removeAbsent ks) _ _)).refs hr
  | getKey k => simp only [execOp]; split <;> exact hr
  | getKeys => exact hr
  | getKeysWithData => exact hr
  | resetRoutine k => exact refInv_of_refs (tstep_resetKey s k).refs hr
  | restartRoutine k => exact refInv_of_refs (touch_restartKey s k).frame.refs hr
  | resetAll =>
    simp only [execOp]
    rw [foldl_fst resetAllStep (fun s k => (resetKey s k).1) (fun _ _ => rfl)]
    exact refInv_of_refs (foldl_tstep _ tstep_resetKey _ _).refs hr
  | restartAll =>
    simp only [execOp]
    rw [foldl_fst restartAllStep (fun s k => (restartKey s k).1) (fun _ _ => rfl)]
    exact refInv_of_refs (foldl_tstep _ (fun s k => (touch_restartKey s k).quiet.tstep) _ _).refs hr
  | setContext c restart =>
    simp only [execOp, setContext]
    split
    · exact hr
    · have := foldl_tstep (setCtxOne (s.ctx == c) restart) (fun s k => (touch_setCtxOne _ restart s k).quiet.tstep)
        (keyList s) { s with ctx := c }
      exact refInv_of_refs this.refs hr
  | addKeyRef k =>
    simp only [execOp, addKeyRef]
    have h := (tstep_syncS true s k).refs
    rw [← setKey_eq_syncS] at h
    intro x hx
    simp only [List.mem_append, List.mem_singleton] at hx
    rcases hx with hx | hx
    · rw [h] at hx; exact hr x hx
    · subst hx; rfl
  | release r =>
    simp only [execOp, release]
    split
    · exact hr
    · rename_i x hx
      split
      · exact hr
      · have hset : RefInv { s with refs := s.refs.set r { x with rel := true, listed := false } } := by
          intro y hy
          rcases List.mem_or_eq_of_mem_set hy with hy | hy
          · exact hr y hy
          · subst hy; rfl
        split
        · exact refInv_of_refs (tstep_removeKey _ x.key).refs hset
        · exact hset
  | rcRemoveKey k =>
    simp only [execOp, rcRemoveKey]
    refine refInv_of_refs (tstep_removeKey _ k).refs ?_
    intro y hy
    simp only [List.mem_map] at hy
    obtain ⟨x, hx, rfl⟩ := hy
    split
    · rfl
    · exact hr x hx

theorem noDue_armed_of_keys (s s' : St) (he : s'.epoch = s.epoch)
    (hk : ∀ k, drOk s.epoch (core (s.key k)) (core (s'.key k)))
    (hd : NoDueRm s) (ha : ∀ k r e, s.key k = some r → r.deferRemove = some e → e ≤ s.epoch) :
    NoDueRm s' ∧ ∀ k r e, s'.key k = some r → r.deferRemove = some e → e ≤ s'.epoch := by
  have key : ∀ k r e, s'.key k = some r → r.deferRemove = some e → ¬ e < s.epoch ∧ e ≤ s.epoch := by
    intro k r e hkr hdr
    have hc : core (s'.key k) = some (r.data, some e) := by simp [core, hkr, hdr]
    rcases hk k with h | h | ⟨d, h⟩ | ⟨d, h⟩
    · rw [hc] at h
      cases hr0 : s.key k with
      | none => simp [core, hr0] at h
      | some r0 =>
        simp [core, hr0] at h
        exact ⟨hd k r0 e hr0 h.2.symm, ha k r0 e hr0 h.2.symm⟩
    · rw [hc] at h; simp at h
    · rw [hc] at h; simp at h
    · rw [hc] at h; simp at h; omega
  exact ⟨fun k r e h1 h2 => by rw [he]; exact (key k r e h1 h2).1,
         fun k r e h1 h2 => by rw [he]; exact (key k r e h1 h2).2⟩

theorem rinv_of_same {s s' : St} (hI : RInv s) (hk : s'.keys = s.keys) (hr : s'.refs = s.refs)
    (he : s'.epoch = s.epoch) (hc : s'.call ≠ .idle → s.call ≠ .idle) : RInv s' :=
  ⟨refInv_of_refs hr hI.refs, fun h => noDueRm_keys hk he (hI.due (hc h)),
   fun k r e h1 h2 => by rw [he]; exact hI.armed k r e (by simpa [St.key, hk] using h1) h2⟩

theorem rinv_touch {k : Nat} {s s' : St} (hI : RInv s) (T : Touch k s s') : RInv s' := by
  have hk : ∀ k', drOk s.epoch (core (s.key k')) (core (s'.key k')) := fun k' => Or.inl (T.quiet.core k')
  refine ⟨refInv_of_refs T.frame.refs hI.refs, ?_, ?_⟩
  · intro hc
    rw [T.frame.call] at hc
    exact noDueRm_touch T (hI.due hc)
  · intro k' r e h1 h2
    rw [T.frame.epoch]
    have hc := T.quiet.core k'
    rw [h1] at hc
    cases hr0 : s.key k' with
    | none => simp [core, hr0] at hc
    | some r0 =>
      simp [core, hr0] at hc
      exact hI.armed k' r0 e hr0 (by rw [← hc.2, h2])

theorem rinv_step (s s' : St) (e : Ev) (hI : RInv s) (h : step s e = some s') : RInv s' := by
  cases e with
  | config c =>
    simp only [step] at h
    split at h
    · simp at h; subst h; exact rinv_of_same hI rfl rfl rfl id
    · simp at h
  | inv id op =>
    simp only [step] at h
    split at h
    · simp at h
    · split at h
      · rename_i hg
        simp at h; subst h
        exact ⟨hI.refs, fun _ => noDueRm_of_noDue s hg.2.1, hI.armed⟩
      · simp at h
  | exec =>
    simp only [step] at h
    split at h
    · rename_i id op hc
      simp at h; subst h
      have hd := hI.due (by simp [hc])
      have hk := execOp_keys s op
      have := noDue_armed_of_keys s (execOp s op).1 hk.1 hk.2 hd hI.armed
      exact ⟨execOp_refInv s op hI.refs, fun _ => this.1, this.2⟩
    · simp at h
  | ctor k d =>
    simp only [step] at h
    split at h
    · rename_i hc
      split at h
      · simp at h; subst h; exact rinv_of_same hI rfl rfl rfl (fun _ => by simp [hc])
      · simp at h
    · simp at h
  | ret id res =>
    simp only [step] at h
    split at h
    · split at h
      · simp at h; subst h; exact rinv_of_same hI rfl rfl rfl (fun h => absurd rfl h)
      · simp at h
    · simp at h
  | proceed g i =>
    have := instStep_abs s s' g i _ h
    exact rinv_of_same hI this.2.1 this.2.2.1 this.2.2.2.2 (by rw [this.2.2.2.1]; exact id)
  | bail g i =>
    have := instStep_abs s s' g i _ h
    exact rinv_of_same hI this.2.1 this.2.2.1 this.2.2.2.2 (by rw [this.2.2.2.1]; exact id)
  | cbin j g i k d =>
    simp only [step] at h
    split at h
    · split at h
      · simp at h
      · split at h
        · simp at h
        · split at h
          · simp at h; subst h; exact rinv_of_same hI rfl rfl rfl id
          · simp at h
    · simp at h
  | cbout j o =>
    simp only [step] at h
    split at h
    · simp at h
    · have := instStep_abs s s' _ _ _ h
      exact rinv_of_same hI this.2.1 this.2.2.1 this.2.2.2.2 (by rw [this.2.2.2.1]; exact id)
  | closeExit g i =>
    have := instStep_abs s s' g i _ h
    exact rinv_of_same hI this.2.1 this.2.2.1 this.2.2.2.2 (by rw [this.2.2.2.1]; exact id)
  | record g i =>
    simp only [step] at h
    split at h
    · simp at h
    · split at h
      · simp at h
      · split at h
        · simp at h; subst h; exact rinv_touch hI (touch_recordInst s g i _ _)
        · simp at h
  | timerRemove k =>
    simp only [step] at h
    split at h
    · rename_i r hr
      split at h
      · simp at h; subst h
        have hk : ∀ k', drOk s.epoch (core (s.key k')) (core ((removeNow s k r).key k')) := by
          intro k'
          by_cases hkk : k' = k
          · subst hkk; right; left; simp [removeNow, core]
          · left; simp [removeNow, hkk]
        have he : (removeNow s k r).epoch = s.epoch :=
          ((frame_cancelOpt s r.gen r.cancelOf).trans (frame_setRec _ k none)).epoch
        have hrf : (removeNow s k r).refs = s.refs :=
          ((frame_cancelOpt s r.gen r.cancelOf).trans (frame_setRec _ k none)).refs
        have hcl : (removeNow s k r).call = s.call :=
          ((frame_cancelOpt s r.gen r.cancelOf).trans (frame_setRec _ k none)).call
        refine ⟨refInv_of_refs hrf hI.refs, ?_, ?_⟩
        · intro hc
          rw [hcl] at hc
          exact (noDue_armed_of_keys s _ he hk (hI.due hc) hI.armed).1
        · intro k' r' e h1 h2
          rw [he]
          by_cases hkk : k' = k
          · subst hkk; simp [removeNow] at h1
          · simp [removeNow, hkk] at h1
            exact hI.armed k' r' e h1 h2
      · simp at h
    · simp at h
  | timerRetry k =>
    simp only [step] at h
    split at h
    · rename_i r hr
      split at h
      · simp at h; subst h
        have T1 : Touch k s (setRec s k (some { r with deferRetry := none })) :=
          touch_setRec k s r _ hr rfl rfl
        split
        · exact rinv_touch hI (T1.trans (touch_startKey _ k true))
        · exact rinv_touch hI T1
      · simp at h
    · simp at h
  | advance =>
    simp only [step] at h
    split at h
    · rename_i hg
      simp at h; subst h
      refine ⟨hI.refs, fun hc => absurd hg.2.1 hc, ?_⟩
      intro k r e h1 h2
      have := hI.armed k r e h1 h2
      show e ≤ s.epoch + 1
      omega
    · simp at h
  | quiesce =>
    simp only [step] at h
    split at h
    · simp at h; subst h; exact hI
    · simp at h
  | probe j c =>
    simp only [step] at h
    split at h
    · simp at h
    · split at h
      · split at h
        · simp at h; subst h; exact hI
        · simp at h
      · simp at h
  | nilnext k =>
    simp only [step] at h
    split at h
    · simp at h; subst h; exact rinv_of_same hI rfl rfl rfl id
    · simp at h

theorem rinv_init : RInv ({} : St) :=
  ⟨fun x hx => by simp at hx, fun h => absurd rfl h, fun k r e h => by simp [St.key, look] at h⟩

theorem rinv_reachable (s : St) (h : model.Reachable s) : RInv s :=
  model.invariant RInv rinv_init (fun s e s' hi hs => rinv_step s s' e hi hs) s h

end UtilModel.Keyed
