import UtilModel.Keyed.Refine6
/-!
# keyed — the refinement invariant is inductive; C06 for every run
-/
namespace UtilModel.Keyed

theorem refInv_of_refs {s s' : St} (h : s'.refs = s.refs) (hr : RefInv s) : RefInv s' := by
  intro x hx; rw [h] at hx; exact hr x hx

theorem execOp_refInv (s : St) (op : Op) (hr : RefInv s) : RefInv (execOp s op).1 := by
  cases op with
  | setKey k st =>
    simp only [execOp]; rw [setKey_eq_syncS]; exact refInv_of_refs (tstep_syncS st s k).refs hr
  | removeKey k => exact refInv_of_refs (tstep_removeKey s k).refs hr
  | syncKeys ks restart =>
    simp only [execOp, syncKeys]
    rw [foldl_fst (syncOne restart) (syncS restart) (syncOne_fst restart)]
    exact refInv_of_refs
      ((foldl_tstep _ (tstep_syncS restart) _ _).trans (foldl_tstep _ (tstep_removeAbsent ks) _ _)).refs hr
  | getKey k => simp only [execOp]; split <;> exact hr
  | getKeys => exact hr
  | getKeysWithData => exact hr
  | resetRoutine k cs =>
    simp only [execOp]
    split
    · exact refInv_of_refs (tstep_resetKey s k).refs hr
    · exact hr
  | restartRoutine k cs =>
    simp only [execOp]
    split
    · exact refInv_of_refs (touch_restartKey s k).frame.refs hr
    · exact hr
  | resetAll cs =>
    simp only [execOp]
    rw [foldl_fst resetAllStep (fun s k => (resetKey s k).1) (fun _ _ => rfl)]
    exact refInv_of_refs (foldl_tstep _ tstep_resetKey _ _).refs hr
  | restartAll cs =>
    simp only [execOp]
    rw [foldl_fst restartAllStep (fun s k => (restartKey s k).1) (fun _ _ => rfl)]
    exact refInv_of_refs (foldl_tstep _ (fun s k => (touch_restartKey s k).quiet.tstep) _ _).refs hr
  | setContext c restart =>
    simp only [execOp, setContext]
    split
    · exact hr
    · have := foldl_tstep (setCtxOne (s.ctx == c) restart) (fun s k => (touch_setCtxOne _ restart s k).quiet.tstep)
        (keyList s) { s with ctx := c }
      exact refInv_of_refs this.refs hr
  | addKeyRef k =>
    simp only [execOp, addKeyRef]
    have h := (tstep_syncS true s k).refs
    rw [← setKey_eq_syncS] at h
    intro x hx
    simp only [List.mem_append, List.mem_singleton] at hx
    rcases hx with hx | hx
    · rw [h] at hx; exact hr x hx
    · subst hx; rfl
  | release r =>
    simp only [execOp, release]
    split
    · exact hr
    · rename_i x hx
      split
      · exact hr
      · have hset : RefInv { s with refs := s.refs.set r { x with rel := true, listed := false } } := by
          intro y hy
          rcases List.mem_or_eq_of_mem_set hy with hy | hy
          · exact hr y hy
          · subst hy; rfl
        split
        · exact refInv_of_refs (tstep_removeKey _ x.key).refs hset
        · exact hset
  | rcRemoveKey k =>
    simp only [execOp, rcRemoveKey]
    refine refInv_of_refs (tstep_removeKey _ k).refs ?_
    intro y hy
    simp only [List.mem_map] at hy
    obtain ⟨x, hx, rfl⟩ := hy
    split
    · rfl
    · exact hr x hx

theorem rinv_of_refs {s s' : St} (hI : RInv s) (hr : s'.refs = s.refs) : RInv s' :=
  ⟨refInv_of_refs hr hI.refs⟩

theorem rinv_step (s s' : St) (e : Ev) (hI : RInv s) (h : step s e = some s') : RInv s' := by
  cases e with
  | config c =>
    simp only [step] at h
    split at h
    · simp at h; subst h; exact rinv_of_refs hI rfl
    · simp at h
  | inv id op =>
    simp only [step] at h
    split at h
    · simp at h
    · split at h
      · simp at h; subst h; exact rinv_of_refs hI rfl
      · simp at h
  | exec id =>
    simp only [step] at h
    split at h
    · rename_i op hc
      simp at h; subst h
      exact ⟨execOp_refInv (preOp s op) op (by
        intro x hx; rw [(preOp_fields s op).2.1] at hx; exact hI.refs x hx)⟩
    · simp at h
  | ctor k d =>
    simp only [step] at h
    split at h
    · simp at h; subst h; exact rinv_of_refs hI rfl
    · simp at h
  | ret id res =>
    simp only [step] at h
    split at h
    · simp at h; subst h; exact rinv_of_refs hI rfl
    · simp at h
  | proceed g i => exact rinv_of_refs hI (instStep_abs s s' g i _ h).2.2.1
  | bail g i => exact rinv_of_refs hI (instStep_abs s s' g i _ h).2.2.1
  | cbin j g i k d =>
    simp only [step] at h
    split at h
    · split at h
      · simp at h
      · split at h
        · simp at h
        · split at h
          · simp at h; subst h; exact rinv_of_refs hI rfl
          · simp at h
    · simp at h
  | cbout j o =>
    simp only [step] at h
    split at h
    · simp at h
    · exact rinv_of_refs hI (instStep_abs s s' _ _ _ h).2.2.1
  | closeExit g i => exact rinv_of_refs hI (instStep_abs s s' g i _ h).2.2.1
  | record g i =>
    simp only [step] at h
    split at h
    · simp at h
    · split at h
      · simp at h
      · split at h
        · simp at h; subst h; exact rinv_of_refs hI (touch_recordInst s g i _ _).frame.refs
        · simp at h
  | timerRemove k =>
    simp only [step] at h
    split at h
    · rename_i r hr
      split at h
      · simp at h; subst h
        exact rinv_of_refs hI ((frame_cancelOpt s r.gen r.cancelOf).trans (frame_setRec _ k none)).refs
      · simp at h
    · simp at h
  | timerRetry k =>
    simp only [step] at h
    split at h
    · rename_i r hr
      split at h
      · simp at h; subst h
        have T1 : Touch k s (setRec s k (some { r with deferRetry := none })) :=
          touch_setRec k s r _ hr rfl rfl
        split
        · exact rinv_of_refs hI (T1.trans (touch_startKey _ k true)).frame.refs
        · exact rinv_of_refs hI T1.frame.refs
      · simp at h
    · simp at h
  | advance =>
    simp only [step] at h
    split at h
    · simp at h; subst h; exact rinv_of_refs hI rfl
    · simp at h
  | quiesce =>
    simp only [step] at h
    split at h
    · simp at h; subst h; exact hI
    · simp at h
  | boff k b =>
    simp only [step] at h
    split at h
    · simp at h; subst h; exact hI
    · simp at h
  | probe j c =>
    simp only [step] at h
    split at h
    · simp at h
    · split at h
      · split at h
        · simp at h; subst h; exact hI
        · simp at h
      · simp at h
  | nilnext k =>
    simp only [step] at h
    split at h
    · simp at h; subst h; exact rinv_of_refs hI rfl
    · simp at h
  | cancelroot =>
    simp only [step] at h
    split at h
    · simp at h; subst h; exact rinv_of_refs hI (sameBut_cancelAll _).refs
    · simp at h

theorem rinv_init : RInv ({} : St) := ⟨fun x hx => by simp at hx⟩

theorem rinv_reachable (s : St) (h : model.Reachable s) : RInv s :=
  model.invariant RInv rinv_init (fun s e s' hi hs => rinv_step s s' e hi hs) s h

end UtilModel.Keyed
