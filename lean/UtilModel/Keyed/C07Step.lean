import UtilModel.Keyed.C07Ops
/-!
# keyed — the structural invariant holds in every reachable state; one running instance per generation
-/
namespace UtilModel.Keyed
open UtilModel

theorem modify_const {α : Type} (l : List α) (i : Nat) (f : α → α) (x : α) (hx : l[i]? = some x) :
    l.modify i f = l.modify i fun _ => f x := by
  apply List.ext_getElem?
  intro j
  simp only [List.getElem?_modify]
  by_cases hij : i = j
  · subst hij; simp [hx]
  · simp [hij]

theorem modInst_const (s : St) (g i : Nat) (f : Inst → Inst) (y : G) (x : Inst)
    (hy : s.gens[g]? = some y) (hx : y.insts[i]? = some x) :
    modInst s g i f = modInst s g i fun _ => f x := by
  simp only [modInst, modG]
  congr 1
  apply List.ext_getElem?
  intro j
  simp only [List.getElem?_modify]
  by_cases hgj : g = j
  · subst hgj; simp [hy, modify_const y.insts i f x hx]
  · simp [hgj]

/-- one instance changes its state -/
theorem kinv_modInst (s : St) (g i : Nat) (x' : Inst) (h : KInv s) (y : G) (x : Inst)
    (hy : s.gens[g]? = some y) (hx : y.insts[i]? = some x)
    (hci : Chain.Inv (proj { y with insts := y.insts.modify i fun _ => x' }))
    (hrec : x.st = .recorded → x'.st = .recorded) : KInv (modInst s g i fun _ => x') := by
  apply kinv_modG s g _ h
  · refine ⟨fun _ _ => rfl, fun _ _ => rfl, ?_⟩
    intro y0 j x0 hy0 hx0 hr0
    rw [hy] at hy0; simp at hy0; subst hy0
    simp only [List.getElem?_modify, hx0]
    by_cases hij : i = j
    · subst hij
      rw [hx] at hx0; simp at hx0; subst hx0
      exact ⟨x', by simp, hrec hr0⟩
    · exact ⟨x0, by simp [hij], hr0⟩
  · intro y0 hy0; rw [hy] at hy0; simp at hy0; subst hy0; exact hci

theorem instStep_some (s s' : St) (g i : Nat) (f : G → Inst → Option Inst) (h : instStep s g i f = some s') :
    ∃ y x x', s.gens[g]? = some y ∧ y.insts[i]? = some x ∧ f y x = some x' ∧
      s' = modInst s g i fun _ => x' := by
  unfold instStep at h
  split at h
  · simp at h
  · rename_i y hy
    split at h
    · simp at h
    · rename_i x hx
      split at h
      · simp at h
      · rename_i x' hf
        simp at h
        exact ⟨y, x, x', hy, hx, hf, h.symm⟩

theorem projI_afterClose (s : St) (g : Nat) (y : G) (i : Nat) (x : Inst) :
    projSt (afterClose s g y i x) = .closed := by
  unfold afterClose; split <;> rfl

theorem kinv_recordInst (s : St) (g i : Nat) (y : G) (x : Inst) (h : KInv s)
    (hy : s.gens[g]? = some y) (hx : y.insts[i]? = some x) (hst : x.st = .closed) :
    KInv (recordInst s g i x y.key) := by
  unfold recordInst
  simp only []
  -- the instance becomes `recorded`
  have hm : modInst s g i (fun z => { z with st := .recorded }) = modInst s g i fun _ => { x with st := .recorded } :=
    modInst_const s g i _ y x hy hx
  have h0 : KInv (modInst s g i fun z => { z with st := .recorded }) := by
    rw [hm]
    apply kinv_modInst s g i _ h y x hy hx
    · exact inv_same y i x _ hx (h.chain g y hy) (by simp [projI, projSt, hst])
    · intro _; rfl
  cases hk : s.key y.key with
  | none => exact h0
  | some r =>
    simp only []
    split
    · rename_i hcur
      obtain ⟨hid, hgen, hcur⟩ := hcur
      subst hgen
      -- `r.exited` is false: otherwise the instance would be recorded already
      have hex : r.exited = false := by
        cases he : r.exited with
        | false => rfl
        | true =>
          obtain ⟨x0, hx0, hs0⟩ := h.curExited y.key r i y hk hcur he hy
          rw [hx] at hx0; simp at hx0; subst hx0
          rw [hst] at hs0; cases hs0
      have hlast : y.last = some i := h.curLast y.key r i y hk hcur hex hy
      generalize hs0 : modInst s r.gen i (fun z => { z with st := .recorded }) = s0 at h0
      have hy0 : s0.gens[r.gen]? = some { y with insts := y.insts.modify i fun z => { z with st := .recorded } } := by
        rw [← hs0]; simp [modInst, gens_modG, hy]
      have hk0 : s0.key y.key = some r := by rw [← hs0]; simpa using hk
      -- clear `last`
      have hci : CI (modG s0 r.gen fun z => { z with last := none }) := by
        apply ci_modG s0 r.gen _ h0.chain
        intro z hz
        rw [hy0] at hz; simp at hz; subst hz
        have hxi : (y.insts.modify i fun z => { z with st := IS.recorded })[i]? = some { x with st := .recorded } := by
          simp [List.getElem?_modify, hx]
        exact inv_forget { y with insts := y.insts.modify i fun z => { z with st := .recorded } } i
          { x with st := .recorded } hxi (h0.chain r.gen _ hy0) hlast (Or.inr rfl)
      refine ⟨hci, ?_, ?_, ?_, ?_⟩
      rotate_left 3
      · intro k' r' hk' hce
        by_cases hkk : k' = y.key
        · subst hkk
          simp at hk'
          have hf : r'.hasFn = r.hasFn := by
            rw [← hk']
            cases retryCfg s with
            | none => rfl
            | some n =>
              simp only []
              split
              · rfl
              · split <;> rfl
          rw [hf]; exact h0.exFn y.key r hk0 (Or.inl (by simp [hcur]))
        · simp [hkk] at hk'
          exact h0.exFn k' r' hk' hce
      · intro k' r' hk'
        by_cases hkk : k' = y.key
        · subst hkk
          simp at hk'
          have hf : r'.gen = r.gen ∧ r'.cur = r.cur ∧ r'.exited = true := by
            rw [← hk']
            cases retryCfg s with
            | none => exact ⟨rfl, rfl, rfl⟩
            | some n =>
              simp only []
              split
              · exact ⟨rfl, rfl, rfl⟩
              · split
                · exact ⟨rfl, rfl, rfl⟩
                · exact ⟨rfl, rfl, rfl⟩
          rw [hf.1]
          exact ⟨{ key := y.key, insts := y.insts.modify i fun z => { z with st := .recorded }, last := none },
            by simp [gens_modG, hy0], rfl⟩
        · simp [hkk] at hk'
          obtain ⟨z, hz, hzk⟩ := h0.genKey k' r' hk'
          have hne : r.gen ≠ r'.gen := fun e => hkk (gen_inj s0 h0 k' y.key r' r hk' hk0 e.symm)
          exact ⟨z, by simp [gens_modG, hz, hne], hzk⟩
      · intro k' r' j z hk' hc he hz
        by_cases hkk : k' = y.key
        · subst hkk
          simp at hk'
          have hf : r'.gen = r.gen ∧ r'.cur = r.cur ∧ r'.exited = true := by
            rw [← hk']
            cases retryCfg s with
            | none => exact ⟨rfl, rfl, rfl⟩
            | some n =>
              simp only []
              split
              · exact ⟨rfl, rfl, rfl⟩
              · split
                · exact ⟨rfl, rfl, rfl⟩
                · exact ⟨rfl, rfl, rfl⟩
          rw [hf.2.2] at he; cases he
        · simp [hkk] at hk'
          have hne : r.gen ≠ r'.gen := fun e => hkk (gen_inj s0 h0 k' y.key r' r hk' hk0 e.symm)
          simp [gens_modG, hne] at hz
          exact h0.curLast k' r' j z hk' hc he hz
      · intro k' r' j z hk' hc he hz
        by_cases hkk : k' = y.key
        · subst hkk
          simp at hk'
          have hf : r'.gen = r.gen ∧ r'.cur = r.cur ∧ r'.exited = true := by
            rw [← hk']
            cases retryCfg s with
            | none => exact ⟨rfl, rfl, rfl⟩
            | some n =>
              simp only []
              split
              · exact ⟨rfl, rfl, rfl⟩
              · split
                · exact ⟨rfl, rfl, rfl⟩
                · exact ⟨rfl, rfl, rfl⟩
          rw [hf.1] at hz
          rw [hf.2.1, hcur] at hc
          simp at hc; subst hc
          simp [gens_modG, hy0] at hz
          subst hz
          exact ⟨{ x with st := .recorded }, by simp [List.getElem?_modify, hx], rfl⟩
        · simp [hkk] at hk'
          have hne : r.gen ≠ r'.gen := fun e => hkk (gen_inj s0 h0 k' y.key r' r hk' hk0 e.symm)
          simp [gens_modG, hne] at hz
          exact h0.curExited k' r' j z hk' hc he hz
    · exact h0

theorem kinv_cancelAll (s : St) (h : KInv s) : KInv (cancelAll s) :=
  foldl_inv (I := KInv) _ (fun s g h =>
    foldl_inv (I := KInv) (fun s i => cancelOpt s g (some i)) (fun s i h => kinv_cancelOpt s g (some i) h) _ _ h) _ _ h

theorem kinv_step (s s' : St) (e : Ev) (h : KInv s) (hs : step s e = some s') : KInv s' := by
  cases e with
  | nilnext k =>
    simp only [step] at hs
    split at hs
    · simp at hs; subst hs; exact kinv_congr (s := s) rfl rfl h
    · simp at hs
  | cancelroot =>
    simp only [step] at hs
    split at hs
    · simp at hs; subst hs
      exact kinv_cancelAll _ (kinv_congr (s := s) rfl rfl h)
    · simp at hs
  | config c =>
    simp only [step] at hs
    split at hs
    · simp at hs; subst hs; exact kinv_congr (s := s) rfl rfl h
    · simp at hs
  | inv id op =>
    simp only [step] at hs
    split at hs
    · simp at hs
    · split at hs
      · simp at hs; subst hs; exact kinv_congr (s := s) rfl rfl h
      · simp at hs
  | exec id =>
    simp only [step] at hs
    split at hs
    · rename_i op hc
      simp at hs; subst hs
      exact kinv_congr (s := (execOp (preOp s op) op).1) rfl rfl
        (kinv_execOp (preOp s op) op (kinv_congr (preOp_keys s op) (preOp_fields s op).1 h))
    · simp at hs
  | ctor k d =>
    simp only [step] at hs
    split at hs
    · simp at hs; subst hs; exact kinv_congr (s := s) rfl rfl h
    · simp at hs
  | ret id res =>
    simp only [step] at hs
    split at hs
    · simp at hs; subst hs; exact kinv_congr (s := s) rfl rfl h
    · simp at hs
  | proceed g i =>
    simp only [step] at hs
    obtain ⟨y, x, x', hy, hx, hf, rfl⟩ := instStep_some _ _ _ _ _ hs
    split at hf
    · rename_i hc
      simp at hf; subst hf
      exact kinv_modInst s g i _ h y x hy hx (inv_proceed y i x hx (h.chain g y hy) hc.1 hc.2.1)
        (fun hr => by rw [hc.1] at hr; cases hr)
    · simp at hf
  | bail g i =>
    simp only [step] at hs
    obtain ⟨y, x, x', hy, hx, hf, rfl⟩ := instStep_some _ _ _ _ _ hs
    split at hf
    · rename_i hc
      simp at hf; subst hf
      exact kinv_modInst s g i _ h y x hy hx
        (inv_bail y i x _ hx (h.chain g y hy) hc.1 hc.2.1 hc.2.2 (by simp [projI, projI_afterClose]))
        (fun hr => by rw [hc.1] at hr; cases hr)
    · simp at hf
  | cbin j g i k d =>
    simp only [step] at hs
    split at hs
    · split at hs
      · simp at hs
      · rename_i y hy
        split at hs
        · simp at hs
        · rename_i x hx
          split at hs
          · rename_i hc
            simp at hs; subst hs
            have hm := modInst_const s g i (fun x => { x with st := .running }) y x hy hx
            have : KInv (modInst s g i fun x => { x with st := .running }) := by
              rw [hm]
              exact kinv_modInst s g i _ h y x hy hx
                (inv_same y i x _ hx (h.chain g y hy) (by simp [projI, projSt, hc.1]))
                (fun hr => by rw [hc.1] at hr; cases hr)
            exact kinv_congr (s := modInst s g i fun x => { x with st := .running }) rfl rfl this
          · simp at hs
    · simp at hs
  | cbout j o =>
    simp only [step] at hs
    split at hs
    · simp at hs
    · rename_i g i _
      obtain ⟨y, x, x', hy, hx, hf, rfl⟩ := instStep_some _ _ _ _ _ hs
      split at hf
      · rename_i hc
        simp at hf; subst hf
        exact kinv_modInst s g i _ h y x hy hx
          (inv_ret y i x _ hx (h.chain g y hy) hc.1 (by simp [projI, projSt]))
          (fun hr => by rw [hc.1] at hr; cases hr)
      · simp at hf
  | closeExit g i =>
    simp only [step] at hs
    obtain ⟨y, x, x', hy, hx, hf, rfl⟩ := instStep_some _ _ _ _ _ hs
    split at hf
    · rename_i hc
      simp at hf; subst hf
      exact kinv_modInst s g i _ h y x hy hx
        (inv_close y i x _ hx (h.chain g y hy) hc (by simp [projI, projI_afterClose]))
        (fun hr => by rw [hc] at hr; cases hr)
    · simp at hf
  | record g i =>
    simp only [step] at hs
    split at hs
    · simp at hs
    · rename_i y hy
      split at hs
      · simp at hs
      · rename_i x hx
        split at hs
        · rename_i hc
          simp at hs; subst hs
          exact kinv_recordInst s g i y x h hy hx hc
        · simp at hs
  | timerRemove k =>
    simp only [step] at hs
    split at hs
    · rename_i r hr
      split at hs
      · simp at hs; subst hs; exact kinv_removeNow s k r h
      · simp at hs
    · simp at hs
  | timerRetry k =>
    simp only [step] at hs
    split at hs
    · rename_i r hr
      split at hs
      · simp at hs; subst hs
        have h1 := kinv_setRec s k r { r with deferRetry := none } h hr rfl (Or.inr ⟨rfl, rfl⟩)
        split
        · exact kinv_startKey _ k true h1
        · exact h1
      · simp at hs
    · simp at hs
  | advance =>
    simp only [step] at hs
    split at hs
    · simp at hs; subst hs; exact kinv_congr (s := s) rfl rfl h
    · simp at hs
  | quiesce =>
    simp only [step] at hs
    split at hs
    · simp at hs; subst hs; exact h
    · simp at hs
  | boff k b =>
    simp only [step] at hs
    split at hs
    · simp at hs; subst hs; exact h
    · simp at hs
  | probe j c =>
    simp only [step] at hs
    split at hs
    · simp at hs
    · split at hs
      · split at hs
        · simp at hs; subst hs; exact h
        · simp at hs
      · simp at hs

theorem kinv_init : KInv ({} : St) :=
  ⟨fun g y hy => by simp at hy, fun k r h => by simp [St.key, look] at h,
   fun k r i y h => by simp [St.key, look] at h, fun k r i y h => by simp [St.key, look] at h,
   fun k r h => by simp [St.key, look] at h⟩

theorem kinv_reachable (s : St) (h : model.Reachable s) : KInv s :=
  model.invariant KInv kinv_init (fun s e s' hi hs => kinv_step s s' e hi hs) s h

/-- the routine function of the instance has been decided on / is executing -/
def IS.active : IS → Bool
  | .entered | .running => true
  | _ => false

end UtilModel.Keyed
