import UtilModel.Keyed.C07Dead2
/-!
# keyed — no event changes the generation of a key's record other than by removing the record

`SameG`: every key keeps "in the map or not" and the generation of its record; `Rem`: or its record was
removed; `Req`: or it had none. A call is `Req`, `Rem` or `Req` then `Rem`, so a key that is in the map
before and after a call keeps its generation (`gk_execOp`); every other event is `Rem` (`rem_step`).
-/
namespace UtilModel.Keyed
open UtilModel

def gm (o : Option Rec) : Option Nat := o.map (·.gen)

def SameG (s s' : St) : Prop := ∀ k, gm (s'.key k) = gm (s.key k)
def Rem (s s' : St) : Prop := ∀ k, gm (s'.key k) = gm (s.key k) ∨ s'.key k = none
def Req (s s' : St) : Prop := ∀ k, gm (s'.key k) = gm (s.key k) ∨ s.key k = none

theorem SameG.refl (s : St) : SameG s s := fun _ => rfl
theorem SameG.trans {a b c : St} (h1 : SameG a b) (h2 : SameG b c) : SameG a c := fun k => (h2 k).trans (h1 k)
theorem SameG.rem {s s' : St} (h : SameG s s') : Rem s s' := fun k => Or.inl (h k)
theorem SameG.req {s s' : St} (h : SameG s s') : Req s s' := fun k => Or.inl (h k)
theorem Rem.refl (s : St) : Rem s s := (SameG.refl s).rem
theorem Req.refl (s : St) : Req s s := (SameG.refl s).req

theorem Rem.trans {a b c : St} (h1 : Rem a b) (h2 : Rem b c) : Rem a c := by
  intro k
  rcases h2 k with h | h
  · rcases h1 k with h' | h'
    · exact Or.inl (h.trans h')
    · right
      rw [h'] at h
      cases hc : c.key k with
      | none => rfl
      | some r => rw [hc] at h; simp [gm] at h
  · exact Or.inr h

theorem Req.trans {a b c : St} (h1 : Req a b) (h2 : Req b c) : Req a c := by
  intro k
  rcases h1 k with h | h
  · rcases h2 k with h' | h'
    · exact Or.inl (h'.trans h)
    · right
      rw [h'] at h
      cases ha : a.key k with
      | none => rfl
      | some r => rw [ha] at h; simp [gm] at h
  · exact Or.inr h

theorem foldl_sameG (f : St → Nat → St) (hf : ∀ s k, SameG s (f s k)) (L : List Nat) (s : St) :
    SameG s (L.foldl f s) := by
  induction L generalizing s with
  | nil => exact SameG.refl s
  | cons k L ih => exact (hf s k).trans (ih (f s k))

theorem foldl_rem (f : St → Nat → St) (hf : ∀ s k, Rem s (f s k)) (L : List Nat) (s : St) :
    Rem s (L.foldl f s) := by
  induction L generalizing s with
  | nil => exact Rem.refl s
  | cons k L ih => exact (hf s k).trans (ih (f s k))

theorem foldl_req (f : St → Nat → St) (hf : ∀ s k, Req s (f s k)) (L : List Nat) (s : St) :
    Req s (L.foldl f s) := by
  induction L generalizing s with
  | nil => exact Req.refl s
  | cons k L ih => exact (hf s k).trans (ih (f s k))

theorem sameG_congr {s s' : St} (hk : s'.keys = s.keys) : SameG s s' := fun k => by simp [St.key, hk]

theorem sameG_modG (s : St) (g : Nat) (f : G → G) : SameG s (modG s g f) := sameG_congr rfl
theorem sameG_modInst (s : St) (g i : Nat) (f : Inst → Inst) : SameG s (modInst s g i f) := sameG_congr rfl

theorem sameG_cancelOpt (s : St) (g : Nat) (o : Option Nat) : SameG s (cancelOpt s g o) := fun k => by simp

theorem sameG_setRec (s : St) (k : Nat) (r r' : Rec) (hk : s.key k = some r) (hg : r'.gen = r.gen) :
    SameG s (setRec s k (some r')) := by
  intro k'
  by_cases hkk : k' = k
  · subst hkk; simp [hk, gm, hg]
  · simp [hkk]

theorem rem_delRec (s : St) (k : Nat) : Rem s (setRec s k none) := by
  intro k'
  by_cases hkk : k' = k
  · subst hkk; right; simp
  · left; simp [hkk]

theorem sameG_start (s : St) (k : Nat) (r : Rec) (force : Bool) (hk : s.key k = some r) :
    SameG s (start s k r force) := by
  unfold start
  split
  · exact SameG.refl s
  · split
    · exact SameG.refl s
    · have h1 := sameG_cancelOpt s r.gen r.cancelOf
      have hk1 : (cancelOpt s r.gen r.cancelOf).key k = some r := by simpa using hk
      simp only []
      generalize cancelOpt s r.gen r.cancelOf = s1 at h1 hk1
      cases hy : s1.gens[r.gen]? with
      | none => exact h1
      | some y =>
        simp only []
        refine h1.trans ?_
        intro k'
        by_cases hkk : k' = k
        · subst hkk; simp [hk1, gm]
        · simp [hkk]

theorem sameG_startKey (s : St) (k : Nat) (force : Bool) : SameG s (startKey s k force) := by
  unfold startKey
  split
  · rename_i hk; exact sameG_start s k _ force hk
  · exact SameG.refl s

theorem req_createKey (s : St) (k : Nat) (hk : s.key k = none) : Req s (createKey s k) := by
  intro k'
  rw [key_createKey]
  by_cases hkk : k' = k
  · right; rw [hkk]; exact hk
  · left; simp [hkk]

theorem sameG_newRec (s : St) (k : Nat) (r : Rec) (hk : s.key k = some r) : SameG s (newRec s k r.gen) := by
  intro k'
  rw [key_newRec]
  by_cases hkk : k' = k
  · subst hkk; simp [hk, gm]
  · simp [hkk]

theorem rem_removeNow (s : St) (k : Nat) (r : Rec) : Rem s (removeNow s k r) :=
  (sameG_cancelOpt s r.gen r.cancelOf).rem.trans (rem_delRec _ k)

theorem rem_removeKey (s : St) (k : Nat) : Rem s (removeKey s k).1 := by
  unfold removeKey
  cases hk : s.key k with
  | none => exact Rem.refl s
  | some r =>
    simp only [remove]
    split
    · exact Rem.refl s
    · split
      · exact rem_removeNow s k r
      · exact (sameG_setRec s k r { r with deferRemove := some s.epoch } hk rfl).rem

theorem req_syncS (restart : Bool) (s : St) (k : Nat) : Req s (syncS restart s k) := by
  unfold syncS syncOne
  simp only []
  cases hk : s.key k with
  | none => exact (req_createKey s k hk).trans (sameG_startKey _ k false).req
  | some r =>
    simp only []
    have h1 := sameG_setRec s k r { r with deferRemove := none } hk rfl
    split
    · exact (h1.trans (sameG_startKey _ k false)).req
    · exact h1.req

theorem rem_removeAbsent (ks : List Nat) (s : St) (k : Nat) : Rem s (removeAbsent ks s k) := by
  unfold removeAbsent
  split
  · exact Rem.refl s
  · exact rem_removeKey s k

theorem sameG_setCtxOne (same restart : Bool) (s : St) (k : Nat) : SameG s (setCtxOne same restart s k) := by
  unfold setCtxOne
  cases hk : s.key k with
  | none => exact SameG.refl s
  | some r =>
    simp only []
    split
    · exact SameG.refl s
    · have h1 : SameG s (setRec (cancelOpt s r.gen r.cancelOf) k (some { r with cur := none, cancelOf := none })) :=
        (sameG_cancelOpt s r.gen r.cancelOf).trans (sameG_setRec _ k r _ (by simpa using hk) rfl)
      split
      · exact h1.trans (sameG_startKey _ k false)
      · exact h1

theorem sameG_resetKey (s : St) (k : Nat) : SameG s (resetKey s k).1 := by
  unfold resetKey
  cases hk : s.key k with
  | none => exact SameG.refl s
  | some r =>
    simp only []
    have h1 := sameG_cancelOpt s r.gen r.cancelOf
    have h2 := sameG_newRec (cancelOpt s r.gen r.cancelOf) k r (by simpa using hk)
    have h3 := sameG_startKey (newRec (cancelOpt s r.gen r.cancelOf) k r.gen) k false
    exact (h1.trans h2).trans h3

theorem sameG_restartKey (s : St) (k : Nat) : SameG s (restartKey s k).1 := by
  unfold restartKey
  cases hk : s.key k with
  | none => exact SameG.refl s
  | some r =>
    cases hc : s.ctx with
    | none => exact SameG.refl s
    | some c =>
      simp only []
      have h1 := sameG_cancelOpt s r.gen r.cancelOf
      have h2 := sameG_setRec (cancelOpt s r.gen r.cancelOf) k r { r with cancelOf := none } (by simpa using hk) rfl
      exact (h1.trans h2).trans (sameG_startKey _ k true)

/-- what a call does to the generations of the records: requests, then removals -/
theorem reqrem_execOp (s : St) (op : Op) : ∃ m, Req s m ∧ Rem m (execOp s op).1 := by
  cases op with
  | setKey k st =>
    refine ⟨_, ?_, Rem.refl _⟩
    simp only [execOp]; rw [setKey_eq_syncS]; exact req_syncS st s k
  | removeKey k => exact ⟨s, Req.refl s, rem_removeKey s k⟩
  | syncKeys ks restart =>
    simp only [execOp, syncKeys]
    rw [foldl_fst (syncOne restart) (syncS restart) (syncOne_fst restart)]
    exact ⟨_, foldl_req _ (req_syncS restart) _ _, foldl_rem _ (rem_removeAbsent ks) _ _⟩
  | getKey k => refine ⟨s, Req.refl s, ?_⟩; simp only [execOp]; split <;> exact Rem.refl s
  | getKeys => exact ⟨s, Req.refl s, Rem.refl s⟩
  | getKeysWithData => exact ⟨s, Req.refl s, Rem.refl s⟩
  | resetRoutine k cs =>
    simp only [execOp]
    split
    · exact ⟨s, Req.refl s, (sameG_resetKey s k).rem⟩
    · exact ⟨s, Req.refl s, Rem.refl s⟩
  | restartRoutine k cs =>
    simp only [execOp]
    split
    · exact ⟨s, Req.refl s, (sameG_restartKey s k).rem⟩
    · exact ⟨s, Req.refl s, Rem.refl s⟩
  | resetAll cs =>
    refine ⟨s, Req.refl s, ?_⟩
    simp only [execOp]
    rw [foldl_fst resetAllStep (fun s k => (resetKey s k).1) (fun _ _ => rfl)]
    exact (foldl_sameG _ sameG_resetKey _ _).rem
  | restartAll cs =>
    refine ⟨s, Req.refl s, ?_⟩
    simp only [execOp]
    rw [foldl_fst restartAllStep (fun s k => (restartKey s k).1) (fun _ _ => rfl)]
    exact (foldl_sameG _ sameG_restartKey _ _).rem
  | setContext c restart =>
    refine ⟨s, Req.refl s, ?_⟩
    simp only [execOp, setContext]
    split
    · exact Rem.refl s
    · exact ((sameG_congr (s := s) (s' := { s with ctx := c }) rfl).trans
        (foldl_sameG _ (sameG_setCtxOne _ restart) _ _)).rem
  | addKeyRef k =>
    refine ⟨_, ?_, Rem.refl _⟩
    simp only [execOp, addKeyRef]
    have := req_syncS true s k
    rw [← setKey_eq_syncS] at this
    exact this.trans (sameG_congr rfl).req
  | release r =>
    refine ⟨s, Req.refl s, ?_⟩
    simp only [execOp, release]
    split
    · exact Rem.refl s
    · split
      · exact Rem.refl s
      · split
        · rename_i x _ _ _
          have h1 : Rem s { s with refs := s.refs.set r { x with rel := true, listed := false } } :=
            (sameG_congr rfl).rem
          exact h1.trans (rem_removeKey _ x.key)
        · exact (sameG_congr (s := s) rfl).rem
  | rcRemoveKey k =>
    refine ⟨s, Req.refl s, ?_⟩
    simp only [execOp, rcRemoveKey]
    have h1 : Rem s { s with refs := s.refs.map fun x =>
        if x.key == k && x.listed then { x with rel := true, listed := false } else x } := (sameG_congr rfl).rem
    exact h1.trans (rem_removeKey _ k)

/-- a key that is in the map before and after a call keeps the generation of its record -/
theorem gk_execOp (s : St) (op : Op) (k : Nat) (r r' : Rec) (h : s.key k = some r)
    (h' : (execOp s op).1.key k = some r') : r'.gen = r.gen := by
  obtain ⟨m, h1, h2⟩ := reqrem_execOp s op
  have e1 : gm (m.key k) = gm (s.key k) := by
    rcases h1 k with e | e
    · exact e
    · rw [h] at e; cases e
  have e2 : gm ((execOp s op).1.key k) = gm (m.key k) := by
    rcases h2 k with e | e
    · exact e
    · rw [h'] at e; cases e
  have := e2.trans e1
  rw [h, h'] at this
  simpa [gm] using this

theorem sameG_recordInst (s : St) (g i : Nat) (x : Inst) (k : Nat) : SameG s (recordInst s g i x k) := by
  unfold recordInst
  simp only []
  have h0 := sameG_modInst s g i fun y => { y with st := .recorded }
  cases hk : s.key k with
  | none => exact h0
  | some r =>
    simp only []
    split
    · refine h0.trans (SameG.trans (sameG_modG _ g (fun y => { y with last := none })) ?_)
      apply sameG_setRec _ k r _ (by simpa using hk)
      cases retryCfg s with
      | none => rfl
      | some n =>
        simp only []
        split
        · rfl
        · split <;> rfl
    · exact h0

/-- every event other than a call's critical section keeps the generation of every record or removes
the record -/
theorem rem_step (s s' : St) (e : Ev) (hs : step s e = some s') (he : ∀ id, e ≠ .exec id) : Rem s s' := by
  cases e with
  | cancelroot =>
    simp only [step] at hs
    split at hs
    · simp at hs; subst hs; exact (sameG_congr (sameBut_cancelAll _).keys).rem
    · simp at hs
  | nilnext k =>
    simp only [step] at hs
    split at hs
    · simp at hs; subst hs; exact (sameG_congr rfl).rem
    · simp at hs
  | config c =>
    simp only [step] at hs
    split at hs
    · simp at hs; subst hs; exact (sameG_congr rfl).rem
    · simp at hs
  | inv id op =>
    simp only [step] at hs
    split at hs
    · simp at hs
    · split at hs
      · simp at hs; subst hs; exact (sameG_congr rfl).rem
      · simp at hs
  | exec id => exact absurd rfl (he id)
  | ctor k d =>
    simp only [step] at hs
    split at hs
    · simp at hs; subst hs; exact (sameG_congr rfl).rem
    · simp at hs
  | ret id res =>
    simp only [step] at hs
    split at hs
    · simp at hs; subst hs; exact (sameG_congr rfl).rem
    · simp at hs
  | proceed g i =>
    simp only [step] at hs
    obtain ⟨y, x, x', _, _, _, rfl⟩ := instStep_some _ _ _ _ _ hs
    exact (sameG_modInst s g i _).rem
  | bail g i =>
    simp only [step] at hs
    obtain ⟨y, x, x', _, _, _, rfl⟩ := instStep_some _ _ _ _ _ hs
    exact (sameG_modInst s g i _).rem
  | cbin j g i k d =>
    simp only [step] at hs
    split at hs
    · split at hs
      · simp at hs
      · split at hs
        · simp at hs
        · split at hs
          · simp at hs; subst hs
            exact (sameG_congr rfl).rem
          · simp at hs
    · simp at hs
  | cbout j o =>
    simp only [step] at hs
    split at hs
    · simp at hs
    · rename_i g i _
      obtain ⟨y, x, x', _, _, _, rfl⟩ := instStep_some _ _ _ _ _ hs
      exact (sameG_modInst s g i _).rem
  | closeExit g i =>
    simp only [step] at hs
    obtain ⟨y, x, x', _, _, _, rfl⟩ := instStep_some _ _ _ _ _ hs
    exact (sameG_modInst s g i _).rem
  | record g i =>
    simp only [step] at hs
    split at hs
    · simp at hs
    · split at hs
      · simp at hs
      · split at hs
        · simp at hs; subst hs; exact (sameG_recordInst s g i _ _).rem
        · simp at hs
  | timerRemove k =>
    simp only [step] at hs
    split at hs
    · split at hs
      · simp at hs; subst hs; exact rem_removeNow s k _
      · simp at hs
    · simp at hs
  | timerRetry k =>
    simp only [step] at hs
    split at hs
    · rename_i r hr
      split at hs
      · simp at hs; subst hs
        have h1 := sameG_setRec s k r { r with deferRetry := none } hr rfl
        split
        · exact (h1.trans (sameG_startKey _ k true)).rem
        · exact h1.rem
      · simp at hs
    · simp at hs
  | advance =>
    simp only [step] at hs
    split at hs
    · simp at hs; subst hs; exact (sameG_congr rfl).rem
    · simp at hs
  | quiesce =>
    simp only [step] at hs
    split at hs
    · simp at hs; subst hs; exact Rem.refl s
    · simp at hs
  | boff k b =>
    simp only [step] at hs
    split at hs
    · simp at hs; subst hs; exact Rem.refl s
    · simp at hs
  | probe j c =>
    simp only [step] at hs
    split at hs
    · simp at hs
    · split at hs
      · split at hs
        · simp at hs; subst hs; exact Rem.refl s
        · simp at hs
      · simp at hs

end UtilModel.Keyed
