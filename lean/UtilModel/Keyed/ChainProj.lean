import UtilModel.Keyed.Model
import UtilModel.Core.Chain
/-!
# keyed — projection of one generation onto the hand-over chain (`Core/Chain.lean`)
-/
namespace UtilModel.Keyed
open UtilModel

def projSt : IS → Chain.IS
  | .waiting => .waiting
  | .entered | .running => .running
  | .returned => .returned
  | .closed | .recorded => .closed

def projI (x : Inst) : Chain.Inst := { pred := x.waitOn, st := projSt x.st, cancelled := x.cancelled }

def proj (y : G) : Chain.Slot := { insts := y.insts.map projI, last := y.last }

theorem proj_get (y : G) (i : Nat) : (proj y).insts[i]? = (y.insts[i]?).map projI := by
  simp [proj]

theorem isClosed_proj (y : G) (p : Nat) :
    Chain.isClosed (proj y) p = (match y.insts[p]? with
      | some z => z.st == .closed || z.st == .recorded
      | none => false) := by
  simp only [Chain.isClosed, proj_get]
  cases y.insts[p]? with
  | none => rfl
  | some z => cases hz : z.st <;> simp [projI, projSt, hz] <;> decide

theorem predClosed_proj (y : G) (x : Inst) : Chain.predClosed (proj y) (projI x) = chClosed y x.waitOn := by
  simp only [Chain.predClosed, projI, chClosed]
  cases x.waitOn with
  | none => rfl
  | some p => exact isClosed_proj y p

theorem getElem_of_get? {α : Type} {l : List α} {i : Nat} {x : α} (hx : l[i]? = some x) :
    ∃ h : i < l.length, l[i] = x := by
  rcases Nat.lt_or_ge i l.length with h | h
  · exact ⟨h, by simpa [List.getElem?_eq_getElem h] using hx⟩
  · simp [List.getElem?_eq_none h] at hx

theorem proj_modify (y : G) (i : Nat) (f : Inst → Inst) (x : Inst) (hx : y.insts[i]? = some x) :
    proj { y with insts := y.insts.modify i f } =
      { proj y with insts := (proj y).insts.set i (projI (f x)) } := by
  simp only [proj]
  congr 1
  apply List.ext_getElem?
  intro j
  simp only [List.getElem?_map, List.getElem?_modify, List.getElem?_set, List.length_map]
  by_cases hij : i = j
  · subst hij
    obtain ⟨hlt, he⟩ := getElem_of_get? hx
    simp [hlt, he]
  · simp [hij]

/-- a chain of `Chain` events -/
theorem chain_inv_run (sl sl' : Chain.Slot) (es : List Chain.Ev) (h : Chain.Inv sl)
    (hr : Chain.run sl es = some sl') : Chain.Inv sl' := Chain.run_inv sl sl' es h hr

/-- cancel -/
theorem inv_cancel (y : G) (i : Nat) (h : Chain.Inv (proj y)) :
    Chain.Inv (proj { y with insts := y.insts.modify i fun x => { x with cancelled := true } }) := by
  cases hx : y.insts[i]? with
  | none =>
    have : y.insts.modify i (fun x => { x with cancelled := true }) = y.insts := by
      apply List.ext_getElem?
      intro j
      simp only [List.getElem?_modify]
      by_cases hij : i = j
      · subst hij; simp [hx]
      · simp [hij]
    rw [this]; exact h
  | some x =>
    rw [proj_modify y i _ x hx]
    have hs : Chain.step (proj y) (.cancel i) =
        some { proj y with insts := (proj y).insts.set i (projI { x with cancelled := true }) } := by
      simp [Chain.step, proj_get, hx, projI]
    exact Chain.step_inv _ _ _ h hs

/-- spawn -/
theorem inv_spawn (y : G) (rid data : Nat) (h : Chain.Inv (proj y)) :
    Chain.Inv (proj { y with insts := y.insts ++ [{ rid := rid, data := data, waitOn := y.last }],
                             last := some y.insts.length }) := by
  have hs : Chain.step (proj y) .spawn =
      some (proj { y with insts := y.insts ++ [{ rid := rid, data := data, waitOn := y.last }],
                          last := some y.insts.length }) := by
    simp [Chain.step, Chain.spawnSlot, Chain.newInst, proj, projI, projSt]
  exact Chain.step_inv _ _ _ h hs

/-- spawn under a root context that is already cancelled: the new instance's context is cancelled -/
theorem inv_spawnC (y : G) (rid data : Nat) (c : Bool) (h : Chain.Inv (proj y)) :
    Chain.Inv (proj { y with insts := y.insts ++ [{ rid := rid, data := data, waitOn := y.last, cancelled := c }],
                             last := some y.insts.length }) := by
  cases c with
  | false => exact inv_spawn y rid data h
  | true =>
    have h1 := inv_cancel { y with insts := y.insts ++ [{ rid := rid, data := data, waitOn := y.last }],
                                   last := some y.insts.length } y.insts.length (inv_spawn y rid data h)
    have e : (y.insts ++ [({ rid := rid, data := data, waitOn := y.last } : Inst)]).modify y.insts.length
        (fun x => { x with cancelled := true }) =
        y.insts ++ [{ rid := rid, data := data, waitOn := y.last, cancelled := true }] := by
      apply List.ext_getElem?
      intro j
      simp only [List.getElem?_modify]
      by_cases hj : j < y.insts.length
      · have hne : y.insts.length ≠ j := by omega
        simp [hne, List.getElem?_append_left hj]
      · by_cases hje : j = y.insts.length
        · subst hje; simp
        · have h2 : y.insts.length + 1 ≤ j := by omega
          have hne : y.insts.length ≠ j := fun e => hje e.symm
          simp [hne, List.getElem?_eq_none, h2]
    simp only [] at h1
    rw [e] at h1
    exact h1

/-- proceed: waiting → entered -/
theorem inv_proceed (y : G) (i : Nat) (x : Inst) (hx : y.insts[i]? = some x) (h : Chain.Inv (proj y))
    (hw : x.st = .waiting) (hc : chClosed y x.waitOn = true) :
    Chain.Inv (proj { y with insts := y.insts.modify i fun _ => { x with st := .entered } }) := by
  rw [proj_modify y i _ x hx]
  have hs : Chain.step (proj y) (.proceed i) =
      some { proj y with insts := (proj y).insts.set i (projI { x with st := .entered }) } := by
    have hp := predClosed_proj y x
    simp only [Chain.step, proj_get, hx, Option.map]
    simp [projI, projSt, hw, Chain.setSt]
    have : Chain.predClosed (proj y) (projI x) = true := by rw [hp]; exact hc
    simpa [projI, hw, projSt] using this
  exact Chain.step_inv _ _ _ h hs

/-- states that project to the same chain state -/
theorem inv_same (y : G) (i : Nat) (x x' : Inst) (hx : y.insts[i]? = some x) (h : Chain.Inv (proj y))
    (hp : projI x' = projI x) :
    Chain.Inv (proj { y with insts := y.insts.modify i fun _ => x' }) := by
  rw [proj_modify y i _ x hx, hp]
  have : (proj y).insts.set i (projI x) = (proj y).insts := by
    apply List.ext_getElem?
    intro j
    simp only [List.getElem?_set]
    by_cases hij : i = j
    · subst hij
      obtain ⟨hlt, he⟩ := getElem_of_get? hx
      simp [proj, hlt, he]
    · simp [hij]
  rw [this]; exact h

/-- the routine function returns: running → returned -/
theorem inv_ret (y : G) (i : Nat) (x x' : Inst) (hx : y.insts[i]? = some x) (h : Chain.Inv (proj y))
    (hw : x.st = .running) (hx' : projI x' = { projI x with st := .returned }) :
    Chain.Inv (proj { y with insts := y.insts.modify i fun _ => x' }) := by
  rw [proj_modify y i _ x hx, hx']
  have hs : Chain.step (proj y) (.ret i) =
      some { proj y with insts := (proj y).insts.set i { projI x with st := .returned } } := by
    simp [Chain.step, proj_get, hx, projI, projSt, hw, Chain.setSt]
  exact Chain.step_inv _ _ _ h hs

/-- `cancel(); close(exitedCh)`: returned → closed, cancelled -/
theorem inv_close (y : G) (i : Nat) (x x' : Inst) (hx : y.insts[i]? = some x) (h : Chain.Inv (proj y))
    (hw : x.st = .returned) (hx' : projI x' = { projI x with st := .closed, cancelled := true }) :
    Chain.Inv (proj { y with insts := y.insts.modify i fun _ => x' }) := by
  rw [proj_modify y i _ x hx, hx']
  have hr : Chain.run (proj y) [.cancel i, .close i] =
      some { proj y with insts := (proj y).insts.set i { projI x with st := .closed, cancelled := true } } := by
    obtain ⟨hlt, he⟩ := getElem_of_get? hx
    simp [Chain.run, Chain.step, projI, projSt, hw, Chain.setSt, proj, hlt, he]
  exact Chain.run_inv _ _ _ h hr

/-- a cancelled waiter gives up, waits for its predecessor, closes: waiting → closed -/
theorem inv_bail (y : G) (i : Nat) (x x' : Inst) (hx : y.insts[i]? = some x) (h : Chain.Inv (proj y))
    (hw : x.st = .waiting) (hcan : x.cancelled = true) (hc : chClosed y x.waitOn = true)
    (hx' : projI x' = { projI x with st := .closed }) :
    Chain.Inv (proj { y with insts := y.insts.modify i fun _ => x' }) := by
  rw [proj_modify y i _ x hx, hx']
  have hlt : i < y.insts.length := by
    rcases Nat.lt_or_ge i y.insts.length with h | h
    · exact h
    · simp [List.getElem?_eq_none h] at hx
  -- giveUp
  have h1 : Chain.step (proj y) (.giveUp i) =
      some { proj y with insts := (proj y).insts.set i { projI x with st := .draining } } := by
    simp [Chain.step, proj_get, hx, projI, projSt, hw, hcan, Chain.setSt]
  have I1 := Chain.step_inv _ _ _ h h1
  -- drained: the predecessor is closed (its state did not change)
  have hpc : Chain.predClosed { proj y with insts := (proj y).insts.set i { projI x with st := .draining } }
      { projI x with st := .draining } = true := by
    have hp := predClosed_proj y x
    rw [hc] at hp
    simp only [Chain.predClosed, projI] at hp ⊢
    cases hwo : x.waitOn with
    | none => rfl
    | some p =>
      simp only [hwo] at hp ⊢
      simp only [Chain.isClosed] at hp ⊢
      simp only [List.getElem?_set]
      by_cases hip : i = p
      · subst hip
        simp [proj_get, hx, projI, projSt, hw] at hp
      · simpa [hip] using hp
  have h2 : Chain.step { proj y with insts := (proj y).insts.set i { projI x with st := .draining } } (.drained i) =
      some { proj y with insts := (proj y).insts.set i { projI x with st := .returned } } := by
    simp only [Chain.step]
    have hg : ({ proj y with insts := (proj y).insts.set i { projI x with st := .draining } } : Chain.Slot).insts[i]? =
        some { projI x with st := .draining } := by
      simp [proj, hlt]
    rw [hg]
    simp only [hpc, and_self, if_true, Chain.setSt]
    simp [proj, hlt]
  have I2 := Chain.step_inv _ _ _ I1 h2
  have h3 : Chain.step { proj y with insts := (proj y).insts.set i { projI x with st := .returned } } (.close i) =
      some { proj y with insts := (proj y).insts.set i { projI x with st := .closed } } := by
    simp only [Chain.step]
    have hg : ({ proj y with insts := (proj y).insts.set i { projI x with st := .returned } } : Chain.Slot).insts[i]? =
        some { projI x with st := .returned } := by
      simp [proj, hlt]
    rw [hg]
    simp [Chain.setSt, proj, hlt]
  exact Chain.step_inv _ _ _ I2 h3

/-- `r.exitedCh = nil` in the exit bookkeeping of the instance `last` points to -/
theorem inv_forget (y : G) (i : Nat) (x : Inst) (hx : y.insts[i]? = some x) (h : Chain.Inv (proj y))
    (hl : y.last = some i) (hc : x.st = .closed ∨ x.st = .recorded) :
    Chain.Inv (proj { y with last := none }) := by
  have hs : Chain.step (proj y) .forget = some (proj { y with last := none }) := by
    have : Chain.isClosed (proj y) i = true := by
      rw [isClosed_proj, hx]; rcases hc with hc | hc <;> simp [hc]
    simp [Chain.step, proj, hl] at this ⊢
    exact this
  exact Chain.step_inv _ _ _ h hs

end UtilModel.Keyed
