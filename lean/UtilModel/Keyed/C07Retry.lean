import UtilModel.Keyed.C07Dead2
/-!
# keyed — a pending retry survives every non-restarting call (C07, third clause)
-/
namespace UtilModel.Keyed
open UtilModel

/-- the routine of `k` has exited with an error and its retry timer is armed -/
def Pending (s : St) (k : Nat) : Prop :=
  ∃ r, s.key k = some r ∧ r.exited = true ∧ r.err = true ∧ r.deferRetry.isSome = true

theorem pending_of_key {s s' : St} {k : Nat} (h : s'.key k = s.key k) (hp : Pending s k) : Pending s' k := by
  obtain ⟨r, hr, h1, h2, h3⟩ := hp
  exact ⟨r, h.trans hr, h1, h2, h3⟩

/-- the exit bookkeeping of a current instance that failed arms the retry timer (backoff ≠ Stop) -/
theorem retry_armed (s : St) (g i n : Nat) (y : G) (x : Inst) (r : Rec)
    (hy : s.gens[g]? = some y) (hx : y.insts[i]? = some x) (hst : x.st = .closed)
    (hk : s.key y.key = some r) (hid : r.id = x.rid) (hg : r.gen = g) (hc : r.cur = some i)
    (hf : x.failed = true) (hcfg : retryCfg s = some n) (hbo : armOk s n r x = true) :
    ∃ s', step s (.record g i) = some s' ∧ Pending s' y.key := by
  refine ⟨recordInst s g i x y.key, by simp [step, hy, hx, hst], ?_⟩
  unfold recordInst
  simp only [hk, hid, hg, hc, and_self, if_true, hcfg, hf, hbo]
  simp [Pending]

/-- `WithBackoff` (scripted): the backoff has not said Stop while fewer than `n` failures were counted -/
theorem armOk_count (s : St) (n : Nat) (r : Rec) (x : Inst) (hf : freshCfg s = false) (hbo : r.bo < n) :
    armOk s n r x = true := by simp [armOk, hf, hbo]

/-- `WithRetry` (library backoff with `MaxElapsedTime`): the backoff has not said Stop in the epoch in
which the record's own backoff object was constructed or last reset — whatever other keys did -/
theorem armOk_fresh (s : St) (n : Nat) (r : Rec) (x : Inst) (hf : freshCfg s = true) (hb : r.born = x.retEpoch) :
    armOk s n r x = true := by simp [armOk, hf, hb]

/-- D6: `SetKey(k, start = false)` on an existing key does not touch its retry -/
theorem pending_syncS_nostart (s : St) (k k' : Nat) (hp : Pending s k) : Pending (syncS false s k') k := by
  by_cases hkk : k = k'
  · subst hkk
    obtain ⟨r, hr, h1, h2, h3⟩ := hp
    unfold syncS syncOne
    simp only [hr]
    exact ⟨{ r with deferRemove := none }, by simp, h1, h2, h3⟩
  · exact pending_of_key ((syncS_spec false s k').2.1 k hkk) hp

theorem retry_kept_setKey_nostart (s : St) (k : Nat) (hp : Pending s k) : Pending (setKey s k false).1 k := by
  rw [setKey_eq_syncS]; exact pending_syncS_nostart s k k hp

theorem retry_kept_setKey_other (s : St) (k k' : Nat) (st : Bool) (hkk : k ≠ k') (hp : Pending s k) :
    Pending (setKey s k' st).1 k := by
  rw [setKey_eq_syncS]; exact pending_of_key ((syncS_spec st s k').2.1 k hkk) hp

theorem pending_removeAbsent (ks : List Nat) (s : St) (k k' : Nat) (hin : k ∈ ks) (hp : Pending s k) :
    Pending (removeAbsent ks s k') k := by
  have h := (removeAbsent_spec ks s k').2.2 k
  by_cases hkk : k = k'
  · subst hkk
    have : ks.contains k = true := by simpa using hin
    rw [if_pos rfl, if_pos this] at h
    exact pending_of_key h hp
  · rw [if_neg hkk] at h
    exact pending_of_key h hp

/-- `SyncKeys(ks, restart = false)` with `k ∈ ks` does not touch the retry of `k` -/
theorem retry_kept_sync_norestart (s : St) (ks : List Nat) (k : Nat) (hin : k ∈ ks) (hp : Pending s k) :
    Pending (syncKeys s ks false).1 k := by
  unfold syncKeys
  simp only []
  rw [foldl_fst (syncOne false) (syncS false) (syncOne_fst false)]
  exact foldl_inv (I := fun s => Pending s k) _ (fun s k' h => pending_removeAbsent ks s k k' hin h) _ _
    (foldl_inv (I := fun s => Pending s k) _ (fun s k' h => pending_syncS_nostart s k k' h) _ _ hp)

theorem retry_kept_removeKey_other (s : St) (k k' : Nat) (hkk : k ≠ k') (hp : Pending s k) :
    Pending (removeKey s k').1 k := by
  have h := (removeKey_spec s k').2.2 k
  rw [if_neg hkk] at h
  exact pending_of_key h hp

theorem retry_kept_restart_other (s : St) (k k' : Nat) (hkk : k ≠ k') (hp : Pending s k) :
    Pending (restartKey s k').1 k :=
  pending_of_key ((touch_restartKey s k').other k hkk) hp

theorem retry_kept_reset_other (s : St) (k k' : Nat) (hkk : k ≠ k') (hp : Pending s k) :
    Pending (resetKey s k').1 k := by
  unfold resetKey
  cases hr : s.key k' with
  | none => exact hp
  | some r =>
    simp only []
    exact pending_of_key ((touch_resetKey_aux s k' r hr _
      (touch_startKey (newRec (cancelOpt s r.gen r.cancelOf) k' r.gen) k' false)).2.1 k hkk) hp

/-- every event that is neither a call, nor the timer of `k`, nor the exit bookkeeping keeps it -/
theorem retry_kept_instStep (s s' : St) (g i : Nat) (f : G → Inst → Option Inst) (k : Nat)
    (h : instStep s g i f = some s') (hp : Pending s k) : Pending s' k := by
  have := (instStep_abs s s' g i f h).2.1
  exact pending_of_key (by simp [St.key, this]) hp

/-- a forced start appends a waiting instance to the record's generation and makes it current -/
theorem start_force_spec (s : St) (k : Nat) (r : Rec) (y : G) (hfn : r.hasFn = true)
    (hy : (cancelOpt s r.gen r.cancelOf).gens[r.gen]? = some y) (hlive : s.ctx ≠ some 0) :
    ∃ r' y' x, (start s k r true).key k = some r' ∧ r'.exited = false ∧ r'.gen = r.gen ∧
      r'.cur = some y.insts.length ∧ (start s k r true).gens[r.gen]? = some y' ∧
      y'.insts[y.insts.length]? = some x ∧ x.st = .waiting ∧ x.cancelled = false := by
  refine ⟨{ r with deferRetry := none, err := false, success := false, exited := false,
                   cur := some y.insts.length, cancelOf := some y.insts.length },
    { y with insts := y.insts ++ [{ rid := r.id, data := r.data, waitOn := y.last }], last := some y.insts.length },
    { rid := r.id, data := r.data, waitOn := y.last }, ?_, rfl, rfl, rfl, ?_, by simp, rfl, rfl⟩
  · simp [start, hy, hfn]
  · simp [start, hy, gens_modG, hfn, hlive]

theorem gens_cancelOpt_some (s : St) (g : Nat) (o : Option Nat) (y : G) (hy : s.gens[g]? = some y) :
    ∃ y', (cancelOpt s g o).gens[g]? = some y' := by
  cases o with
  | none => exact ⟨y, hy⟩
  | some j =>
    exact ⟨{ y with insts := y.insts.modify j fun x => { x with cancelled := true } },
      by simp [cancelOpt, modInst, gens_modG, hy]⟩

/-- the timer fires after the epoch ends; with a context it starts a new instance -/
theorem retry_fires (s : St) (k e : Nat) (r : Rec) (hK : KInv s) (hk : s.key k = some r)
    (hex : r.exited = true) (hd : r.deferRetry = some e) (he : e < s.epoch) (hlive : isLive s.ctx = true) :
    ∃ s' r' i y x, step s (.timerRetry k) = some s' ∧ s'.key k = some r' ∧ r'.exited = false ∧
      r'.cur = some i ∧ s'.gens[r'.gen]? = some y ∧ y.insts[i]? = some x ∧ x.st = .waiting ∧
      x.cancelled = false := by
  have hctx : s.ctx.isSome = true := by cases hcc : s.ctx <;> simp [hcc, isLive] at hlive ⊢
  have hnd : s.ctx ≠ some 0 := by intro e0; rw [e0] at hlive; simp [isLive] at hlive
  obtain ⟨c, hc⟩ := Option.isSome_iff_exists.1 hctx
  obtain ⟨y0, hy0, _⟩ := hK.genKey k r hk
  have hy0' : (setRec s k (some { r with deferRetry := none })).gens[r.gen]? = some y0 := hy0
  obtain ⟨y1, hy1⟩ := gens_cancelOpt_some _ r.gen r.cancelOf y0 hy0'
  obtain ⟨r', y', x, h1, h2, h3, h4, h5, h6, h7, h8⟩ :=
    start_force_spec (setRec s k (some { r with deferRetry := none })) k { r with deferRetry := none } y1
      (hK.exFn k r hk (Or.inr hex)) hy1 hnd
  refine ⟨start (setRec s k (some { r with deferRetry := none })) k { r with deferRetry := none } true,
    r', y1.insts.length, y', x, ?_, h1, h2, h4, ?_, h6, h7, h8⟩
  · have hctx' : ∀ v, (setRec s k v).ctx = some c := fun _ => hc
    simp [step, hk, dueOpt, hd, he, hex, startKey, hctx']
  · rw [h3]; exact h5

end UtilModel.Keyed
