import UtilModel.Core.LTS
/-!
# keyed — model of `keyed.Keyed` and `keyed.KeyedRefCount` (keyed/*.go at /repo HEAD)

One event = one atomic action of the real code:

* every API call is `inv` (logged before the call), `exec` (its single critical section on
  `Keyed.mtx`; the `KeyedRefCount` calls hold `rc.mtx` around it — one event), the constructor
  callbacks it made (`cbin ctor k d`, logged inside the critical section) and `ret`;
* per started goroutine `execute` (an *instance*): `proceed` / `bail` (the first select with the
  `<-waitCh` of its `ctx.Done()` branch, resp. the `ctx.Err()` test, routine.go:106-116; which branch
  the select commits to is not observable before the predecessor's channel is closed, so "took
  `ctx.Done()`", "`<-waitCh` returned" and the following `cancel(); close(exitedCh)` are one event),
  `cbin run` / `cbout` (the routine function, harness-controlled), `closeExit` (`cancel();
  close(exitedCh)`), `record` (the final critical section, 125-157; only for the instance that is
  still current for the record in the map — for any other it does nothing and is not an event);
* `boff k armed` (observation only: the harness' scripted backoff logs its answer to `NextBackOff`);
* `timerRemove k` / `timerRetry k` (the `time.AfterFunc` callbacks), `advance` (new time epoch),
  `quiesce` (nothing left to do), `probe` (harness reads `ctx.Err()` inside a running instance).

Representation. Keys are `Nat`s; the map `routines` is a list indexed by the key (`look`/`put`).
Instances are grouped by
*generation* (`G`): a new generation starts when a record is created for a key that is not in the map
(`SetKey`/`SyncKeys`/`AddKeyRef`); `ResetRoutine` creates a new record in the *same* generation (it
carries `prevExitedCh` over). The field `r.exitedCh` of the code is `G.last` (the only record of a
generation whose `exitedCh` is ever read again is the one in the map; since the fix of D18-keyed
`ResetRoutine` keeps it also when the new routine is nil).

A constructor may return a nil `Routine` (`env nilnext k`: the harness' constructor will do so at
its next call for `k`; `Rec.hasFn`).

The condition functions of `ResetRoutine` / `RestartRoutine` / `ResetAllRoutines` / `RestartAllRoutines`
are lists of `Cond` (a nil function, "the key is k", "the data is even/odd"): the call applies to a key iff
the list is empty or some non-nil function accepts (key, data) (`condsMatch`, `matchK`).

The root context may be cancelled while it is installed (`env cancelroot`, between two calls): every
instance's context is cancelled (`cancelAll`) and `ctx` becomes `some 0` = "a cancelled context is
installed" (it is never installed again, so its identity does not matter; real context ids are ≥ 1).
`SyncKeys`, `resetRoutineLocked` and `restartRoutineLocked` forget such a context before they do anything
else (`preOp`, applied by the `exec` step); every other path that starts a routine (`SetKey(start)`,
`SetContext` with the same context, the retry timer) starts it with the cancelled context: the instance is
born cancelled (`start`), fails without entering its function and is recorded like any failure.

Exit callbacks (`WithExitCb`) run without the mutex, after the exit bookkeeping: one that calls back into
the object is one more caller (`inv`/`exec`/`ret`); nothing else about them is modelled.

Several callers may be active at once (`calls`): each call is `inv`, its one critical section
`exec id`, its constructor lines, `ret`. A timer callback is a goroutine that takes `Keyed.mtx` in
its own critical section (`timerRemove` / `timerRetry`) at any time after its timer has fired, i.e.
after the `advance` that follows its arming: calls may run in between (`quiesce` is what says that all
fired callbacks have run).
-/
namespace UtilModel.Keyed

/-- state of one `execute` goroutine -/
inductive IS where
  | waiting    -- in the first select / before the `ctx.Err()` test
  | entered    -- decided to call the routine function; its entry is not logged yet
  | running    -- inside the routine function
  | returned   -- routine returned / skipped; `close(exitedCh)` not done yet
  | closed     -- `cancel(); close(exitedCh)` done; final critical section pending
  | recorded   -- goroutine finished
deriving DecidableEq, Repr, Hashable

structure Inst where
  /-- id of the record (`r`) this goroutine belongs to -/
  rid : Nat
  /-- `data` of that record: with the key it names the routine closure the goroutine calls -/
  data : Nat
  /-- `waitCh`: instance (of the same generation) whose exit channel is awaited -/
  waitOn : Option Nat
  st : IS := .waiting
  /-- `ctx.Err() != nil` for this instance's context -/
  cancelled : Bool := false
  /-- `err != nil` -/
  failed : Bool := false
  /-- epoch in which the instance returned (a retry timer armed by its `record` cannot fire before
  the end of that epoch) -/
  retEpoch : Nat := 0
deriving DecidableEq, Repr, Hashable

/-- one generation of a key: the hand-over chain of its instances -/
structure G where
  key : Nat
  insts : List Inst := []
  /-- `r.exitedCh` of the record in the map: the exit channel the next start waits on -/
  last : Option Nat := none
deriving DecidableEq, Repr, Hashable

/-- `runningRoutine` -/
structure Rec where
  id : Nat
  gen : Nat
  /-- `data`: per-key constructor call count (what the harness' constructor returns) -/
  data : Nat
  /-- `r.ctx` is the context of this instance -/
  cur : Option Nat := none
  /-- `r.ctxCancel` cancels this instance -/
  cancelOf : Option Nat := none
  err : Bool := false
  success : Bool := false
  exited : Bool := false
  /-- epoch in which the removal timer was armed -/
  deferRemove : Option Nat := none
  /-- a retry timer is pending; it may fire in every epoch after the stored one -/
  deferRetry : Option Nat := none
  /-- position in the backoff script (`NextBackOff` calls since the last `Reset`) -/
  bo : Nat := 0
  /-- epoch in which the backoff object of the record was constructed or last `Reset` (start of its
  `MaxElapsedTime` clock; read only with `Cfg.fresh`) -/
  born : Nat := 0
  /-- `r.routine != nil`: the constructor returned a routine -/
  hasFn : Bool := true
deriving DecidableEq, Repr, Hashable

structure Cfg where
  /-- the object is a `KeyedRefCount` (only its API is available) -/
  rc : Bool
  /-- `WithReleaseDelay(D)` -/
  delay : Bool
  /-- `WithBackoff`: `some n` = the backoff yields `D` n times, then `Stop` -/
  retry : Option Nat
  /-- `WithRetry` with a library backoff config instead: constant interval `D`, `MaxElapsedTime` 3`D` (one
  `advance`): `NextBackOff` yields `D` while the epoch of the backoff object's construction / last `Reset`
  has not ended, then `Stop` (`retry` is `some 0` and not read) -/
  fresh : Bool := false
deriving DecidableEq, Repr, Hashable

/-- `KeyedRef`: `rel` is the atomic once-flag, `listed` = the reference is in `rc.refs[key]` -/
structure RefSt where
  key : Nat
  rel : Bool := false
  listed : Bool := true
deriving DecidableEq, Repr, Hashable

/-- a condition function over (key, data) as the harness passes them to `ResetRoutine` & co.: a nil
function, "the key is `k`", "the data is even/odd" -/
inductive Cond where
  | nil
  | keyIs (k : Nat)
  | dataPar (p : Nat)
deriving DecidableEq, Repr, Hashable

def Cond.eval : Cond → Nat → Nat → Bool
  | .nil, _, _ => false
  | .keyIs k', k, _ => k == k'
  | .dataPar p, _, d => d % 2 == p

/-- keyed.go:310-316 / 385-391: no condition functions, or some non-nil one accepts (key, data) -/
def condsMatch (cs : List Cond) (k d : Nat) : Bool := cs.isEmpty || cs.any fun c => c.eval k d

inductive Op where
  | setKey (k : Nat) (start : Bool)
  | removeKey (k : Nat)
  | syncKeys (ks : List Nat) (restart : Bool)
  | getKey (k : Nat)
  | getKeys
  | getKeysWithData
  | resetRoutine (k : Nat) (cs : List Cond)
  | restartRoutine (k : Nat) (cs : List Cond)
  | resetAll (cs : List Cond)
  | restartAll (cs : List Cond)
  | setContext (c : Option Nat) (restart : Bool)
  | addKeyRef (k : Nat)
  | release (r : Nat)
  | rcRemoveKey (k : Nat)
deriving DecidableEq, Repr, Hashable

inductive Res where
  | dataExisted (d : Nat) (e : Bool)
  | ref (r d : Nat) (e : Bool)
  | bool (b : Bool)
  | sync (added removed : List Nat)
  | keys (ks : List Nat)
  | keysData (kd : List (Nat × Nat))
  | existedReset (e r : Bool)
  | counts (n total : Nat)
  | unit
deriving DecidableEq, Repr, Hashable

/-- a call that has been invoked and has not returned yet (several callers may be active) -/
inductive Call where
  | invoked (id : Nat) (op : Op)
  | done (id : Nat) (ctors : List (Nat × Nat)) (res : Res)
deriving DecidableEq, Repr, Hashable

def Call.id : Call → Nat
  | .invoked id _ => id
  | .done id _ _ => id

inductive Outcome where
  | ok | err | canceled
deriving DecidableEq, Repr, Hashable

/-- finite maps from keys (small `Nat`s) as lists indexed by the key -/
def look {α : Type} (l : List (Option α)) (k : Nat) : Option α := (l[k]?).join

def put {α : Type} (l : List (Option α)) (k : Nat) (v : Option α) : List (Option α) :=
  (l ++ List.replicate (k + 1 - l.length) none).set k v

structure St where
  cfg : Option Cfg := none
  ctx : Option Nat := none
  /-- `k.routines` -/
  keys : List (Option Rec) := []
  /-- constructor calls per key so far -/
  nctor : List (Option Nat) := []
  gens : List G := []
  nrec : Nat := 0
  epoch : Nat := 0
  refs : List RefSt := []
  /-- harness run id ↦ (generation, instance) -/
  runs : List (Nat × Nat) := []
  /-- the calls in progress, in order of invocation -/
  calls : List Call := []
  /-- keys for which the harness' constructor will return a nil `Routine` at its next call -/
  nilNext : List Nat := []
deriving DecidableEq, Repr, Hashable

def St.key (s : St) (k : Nat) : Option Rec := look s.keys k
def St.ctors (s : St) (k : Nat) : Nat := (look s.nctor k).getD 0
def St.kbound (s : St) : Nat := s.keys.length

/-! ## primitive updates -/

def setRec (s : St) (k : Nat) (r : Option Rec) : St := { s with keys := put s.keys k r }

def modG (s : St) (g : Nat) (f : G → G) : St := { s with gens := s.gens.modify g f }

def modInst (s : St) (g i : Nat) (f : Inst → Inst) : St :=
  modG s g fun x => { x with insts := x.insts.modify i f }

def getInst (s : St) (g i : Nat) : Option Inst :=
  match s.gens[g]? with
  | some x => x.insts[i]?
  | none => none

/-- a `context.CancelFunc` of instance `i?` of generation `g` is called -/
def cancelOpt (s : St) (g : Nat) : Option Nat → St
  | some i => modInst s g i fun x => { x with cancelled := true }
  | none => s

def instCancelled (s : St) (g : Nat) : Option Nat → Bool
  | some i => match getInst s g i with
    | some x => x.cancelled
    | none => false
  | none => false

/-- is exit channel `p?` of generation `g` closed (a nil channel counts as closed: no wait) -/
def chClosed (x : G) : Option Nat → Bool
  | none => true
  | some p => match x.insts[p]? with
    | some y => y.st == .closed || y.st == .recorded
    | none => false

/-- a root context is installed and not cancelled. Context ids are ≥ 1; `some 0` stands for "the installed
root context has been cancelled" (`env cancelroot`): such a context is never installed again, so its
identity no longer matters -/
def isLive : Option Nat → Bool
  | some (_ + 1) => true
  | _ => false

/-- `if k.ctx != nil && k.ctx.Err() != nil { k.ctx = nil }` (keyed.go:206, 301, 373) -/
def dropDead (s : St) : St := if s.ctx = some 0 then { s with ctx := none } else s

def instsLen (s : St) (g : Nat) : Nat :=
  match s.gens[g]? with
  | some y => y.insts.length
  | none => 0

/-- the contexts of all instances of generation `g` are cancelled -/
def cancelGen (s : St) (g : Nat) : St := (List.range (instsLen s g)).foldl (fun s i => cancelOpt s g (some i)) s

/-- cancelling the root context cancels every context derived from it -/
def cancelAll (s : St) : St := (List.range s.gens.length).foldl cancelGen s

/-- `r.start(ctx, r.exitedCh, force)` for the record `r` of key `k` (routine.go:73-95); the caller
has checked `k.ctx != nil` (a cancelled root context that is still installed counts: the new instance's
context is cancelled from the start) -/
def start (s : St) (k : Nat) (r : Rec) (force : Bool) : St :=
  if (!force && r.success) || !r.hasFn then s
  else if !force && r.cur.isSome && !r.exited && !instCancelled s r.gen r.cur then s
  else
    let s1 := cancelOpt s r.gen r.cancelOf
    match s1.gens[r.gen]? with
    | none => s1
    | some x =>
      let i := x.insts.length
      let s2 := modG s1 r.gen fun x =>
        { x with insts := x.insts ++ [{ rid := r.id, data := r.data, waitOn := x.last, cancelled := s.ctx == some 0 }],
                 last := some i }
      setRec s2 k (some { r with deferRetry := none, err := false, success := false, exited := false,
                                 cur := some i, cancelOf := some i })

/-- start the record currently stored for `k`, if there is a context -/
def startKey (s : St) (k : Nat) (force : Bool) : St :=
  match s.ctx, s.key k with
  | some _, some r => start s k r force
  | _, _ => s

/-- `ctorCb(key)` + `newRunningRoutine` + `k.routines[key] = v`; `gen` is the generation the new
record belongs to -/
def newRec (s : St) (k gen : Nat) : St :=
  let d := s.ctors k + 1
  { s with keys := put s.keys k (some { id := s.nrec, gen := gen, data := d, hasFn := !s.nilNext.contains k,
                                        born := s.epoch })
           nctor := put s.nctor k (some d)
           nrec := s.nrec + 1
           nilNext := s.nilNext.filter (· != k) }

/-- a key that is not in the map gets a record of a fresh generation -/
def createKey (s : St) (k : Nat) : St :=
  newRec { s with gens := s.gens ++ [{ key := k }] } k s.gens.length

/-- `removeNow` (routine.go:166-176) -/
def removeNow (s : St) (k : Nat) (r : Rec) : St :=
  setRec (cancelOpt s r.gen r.cancelOf) k none

def delayOn (s : St) : Bool :=
  match s.cfg with
  | some c => c.delay
  | none => false

/-- `r.remove()` (routine.go:162-193) -/
def remove (s : St) (k : Nat) (r : Rec) : St :=
  if r.deferRemove.isSome then s
  else if !delayOn s || (r.exited && !r.success) then removeNow s k r
  else setRec s k (some { r with deferRemove := some s.epoch })

def removeKey (s : St) (k : Nat) : St × Bool :=
  match s.key k with
  | some r => (remove s k r, true)
  | none => (s, false)

/-- `SetKey` (keyed.go:160-183); returns the state, the constructor calls made, data, existed -/
def setKey (s : St) (k : Nat) (st : Bool) : St × List (Nat × Nat) × Nat × Bool :=
  match s.key k with
  | none =>
    let s1 := createKey s k
    (startKey s1 k false, [(k, s.ctors k + 1)], s.ctors k + 1, false)
  | some r =>
    let s1 := setRec s k (some { r with deferRemove := none })
    (if st then startKey s1 k false else s1, [], r.data, true)

/-- first loop of `SyncKeys` for one (not yet processed) key -/
def syncOne (restart : Bool) (acc : St × List (Nat × Nat)) (k : Nat) : St × List (Nat × Nat) :=
  let s := acc.1
  match s.key k with
  | none =>
    let s1 := createKey s k
    (startKey s1 k false, acc.2 ++ [(k, s.ctors k + 1)])
  | some r =>
    let s1 := setRec s k (some { r with deferRemove := none })
    (if restart then startKey s1 k false else s1, acc.2)

/-- the keys of a `SyncKeys` argument in order of first occurrence (`routines[key] != nil` → skip) -/
def dedup : List Nat → List Nat
  | [] => []
  | k :: ks => k :: (dedup ks).filter (· != k)

def removeAbsent (ks : List Nat) (s : St) (k : Nat) : St :=
  if ks.contains k then s else (removeKey s k).1

def present (s : St) (k : Nat) : Bool := (s.key k).isSome

def keyList (s : St) : List Nat := (List.range s.kbound).filter (present s)

/-- `SyncKeys` (keyed.go:201-243); `added`/`removed` are reported sorted -/
def syncKeys (s : St) (ks : List Nat) (restart : Bool) : St × List (Nat × Nat) × List Nat × List Nat :=
  let added := ((dedup ks).filter fun k => !present s k)
  let removed := (keyList s).filter fun k => !ks.contains k
  let r1 := (dedup ks).foldl (syncOne restart) (s, [])
  let s2 := (keyList s).foldl (removeAbsent ks) r1.1
  (s2, r1.2, added, removed)

/-- `setContextLocked` for one key (keyed.go:98-112) -/
def setCtxOne (same restart : Bool) (s : St) (k : Nat) : St :=
  match s.key k with
  | none => s
  | some r =>
    if same && !r.err then s
    else
      let s1 := setRec (cancelOpt s r.gen r.cancelOf) k (some { r with cur := none, cancelOf := none })
      if !r.err || restart then startKey s1 k false else s1

/-- `SetContext` / `ClearContext` (keyed.go:83-113) -/
def setContext (s : St) (c : Option Nat) (restart : Bool) : St :=
  let same := s.ctx == c
  if same && !restart then s
  else (keyList s).foldl (setCtxOne same restart) { s with ctx := c }

/-- `resetRoutineLocked` without conditions (keyed.go:300-336) -/
def resetKey (s : St) (k : Nat) : St × List (Nat × Nat) × Bool :=
  match s.key k with
  | none => (s, [], false)
  | some r =>
    let s1 := newRec (cancelOpt s r.gen r.cancelOf) k r.gen
    -- keyed.go:328-337: `start` stores the new exit channel if it starts an instance; otherwise (no
    -- context, or a nil routine) `v.exitedCh = prevExitedCh`: `G.last` is unchanged either way
    (startKey s1 k false, [(k, s.ctors k + 1)], true)

/-- `restartRoutineLocked` without conditions (keyed.go:370-404); returns (existed, reset) -/
def restartKey (s : St) (k : Nat) : St × Bool × Bool :=
  match s.key k with
  | none => (s, false, false)
  | some r =>
    match s.ctx with
    | none => (s, true, false)
    | some _ =>
      let s1 := setRec (cancelOpt s r.gen r.cancelOf) k (some { r with cancelOf := none })
      (startKey s1 k true, true, true)

/-- the condition functions of `ResetRoutine` & co. accept the record of `k` (they are not asked about a key
that is not in the map; a reset of another key does not change what they say about `k`) -/
def matchK (s : St) (cs : List Cond) (k : Nat) : Bool :=
  match s.key k with
  | some r => condsMatch cs k r.data
  | none => true

def resetAllStep (acc : St × List (Nat × Nat)) (k : Nat) : St × List (Nat × Nat) :=
  let r := resetKey acc.1 k
  (r.1, acc.2 ++ r.2.1)

def restartAllStep (acc : St × Nat) (k : Nat) : St × Nat :=
  let r := restartKey acc.1 k
  (r.1, if r.2.1 && r.2.2 then acc.2 + 1 else acc.2)

/-! ## `KeyedRefCount` -/

/-- number of references in `rc.refs[k]` -/
def refCount (s : St) (k : Nat) : Nat := s.refs.countP fun x => x.key == k && x.listed

/-- `KeyedRef.Release` (keyed-refcount.go:31-57) -/
def release (s : St) (r : Nat) : St :=
  match s.refs[r]? with
  | none => s
  | some x =>
    if x.rel then s
    else
      let s1 := { s with refs := s.refs.set r { x with rel := true, listed := false } }
      if x.listed && refCount s1 x.key == 0 then (removeKey s1 x.key).1 else s1

/-- `KeyedRefCount.RemoveKey` (keyed-refcount.go:152-166) -/
def rcRemoveKey (s : St) (k : Nat) : St × Bool :=
  let s1 := { s with refs := s.refs.map fun x =>
    if x.key == k && x.listed then { x with rel := true, listed := false } else x }
  removeKey s1 k

/-- `KeyedRefCount.AddKeyRef` (keyed-refcount.go:170-180) -/
def addKeyRef (s : St) (k : Nat) : St × List (Nat × Nat) × Res :=
  let r := setKey s k true
  ({ r.1 with refs := r.1.refs ++ [{ key := k }] }, r.2.1, .ref s.refs.length r.2.2.1 r.2.2.2)

/-- the critical section of an API call: new state, constructor calls made, result -/
def execOp (s : St) : Op → St × List (Nat × Nat) × Res
  | .setKey k st => let r := setKey s k st; (r.1, r.2.1, .dataExisted r.2.2.1 r.2.2.2)
  | .removeKey k => let r := removeKey s k; (r.1, [], .bool r.2)
  | .syncKeys ks restart => let r := syncKeys s ks restart; (r.1, r.2.1, .sync r.2.2.1 r.2.2.2)
  | .getKey k =>
    match s.key k with
    | some r => (s, [], .dataExisted r.data true)
    | none => (s, [], .dataExisted 0 false)
  | .getKeys => (s, [], .keys (keyList s))
  | .getKeysWithData =>
    (s, [], .keysData ((keyList s).filterMap fun k => (s.key k).map fun r => (k, r.data)))
  | .resetRoutine k cs =>
    if matchK s cs k then let r := resetKey s k; (r.1, r.2.1, .existedReset r.2.2 r.2.2)
    else (s, [], .existedReset (present s k) false)
  | .restartRoutine k cs =>
    if matchK s cs k then let r := restartKey s k; (r.1, [], .existedReset r.2.1 r.2.2)
    else (s, [], .existedReset (present s k) false)
  | .resetAll cs =>
    let r := ((keyList s).filter (matchK s cs)).foldl resetAllStep (s, [])
    (r.1, r.2, .counts ((keyList s).filter (matchK s cs)).length (keyList s).length)
  | .restartAll cs =>
    let r := ((keyList s).filter (matchK s cs)).foldl restartAllStep (s, 0)
    (r.1, [], .counts r.2 (keyList s).length)
  | .setContext c restart => (setContext s c restart, [], .unit)
  | .addKeyRef k => addKeyRef s k
  | .release r => (release s r, [], .unit)
  | .rcRemoveKey k => let r := rcRemoveKey s k; (r.1, [], .bool r.2)

/-- the calls that look at the root context first and forget it when it is cancelled (keyed.go:206-208 in
`SyncKeys`, 301-303 / 373-375 in `resetRoutineLocked` / `restartRoutineLocked`, i.e. once per key) -/
def preOp (s : St) : Op → St
  | .syncKeys _ _ | .resetRoutine _ _ | .restartRoutine _ _ => dropDead s
  | .resetAll _ | .restartAll _ => if (keyList s).isEmpty then s else dropDead s
  | _ => s

/-- which calls exist on the object under test -/
def Op.allowed (rc : Bool) : Op → Bool
  | .setKey _ _ | .removeKey _ | .syncKeys _ _ => !rc
  | .addKeyRef _ | .release _ | .rcRemoveKey _ => rc
  -- a root context that was cancelled (`some 0`) is not installed again
  | .setContext (some 0) _ => false
  | _ => true

/-! ## time -/

def dueOpt (s : St) : Option Nat → Bool
  | some e => e < s.epoch
  | none => false

/-- no armed timer of a record in the map is due (the previous `advance` sleep let them all fire) -/
def noDue (s : St) : Bool :=
  (List.range s.kbound).all fun k => match s.key k with
    | some r => !dueOpt s r.deferRemove && !dueOpt s r.deferRetry
    | none => true

def retryCfg (s : St) : Option Nat :=
  match s.cfg with
  | some c => c.retry
  | none => none

/-! ## instances -/

/-- the final critical section of `execute` (routine.go:125-157) for instance `i` of generation `g` -/
def freshCfg (s : St) : Bool :=
  match s.cfg with
  | some c => c.fresh
  | none => false

/-- `NextBackOff() != Stop` at the exit bookkeeping of `x`, the current instance of `r` -/
def armOk (s : St) (n : Nat) (r : Rec) (x : Inst) : Bool :=
  if freshCfg s then r.born == x.retEpoch else decide (r.bo < n)

def recordInst (s : St) (g i : Nat) (x : Inst) (k : Nat) : St :=
  let s0 := modInst s g i fun y => { y with st := .recorded }
  match s.key k with
  | some r =>
    if r.id = x.rid ∧ r.gen = g ∧ r.cur = some i then
      let r1 := { r with err := x.failed, success := !x.failed, exited := true }
      let r2 := match retryCfg s with
        | none => r1
        | some n =>
          if !x.failed then { r1 with deferRetry := none, bo := 0, born := x.retEpoch }
          else if armOk s n r x then { r1 with deferRetry := some x.retEpoch, bo := r.bo + 1 }
          else { r1 with deferRetry := none, bo := r.bo + 1 }
      setRec (modG s0 g fun y => { y with last := none }) k (some r2)
    else s0
  | none => s0

/-- is instance `i` (= `x`, of generation `g` = `y`) the one its record in the map currently runs
(`r.ctx == ctx` for the `r` stored under the key; `r` is the goroutine's own record — same identity,
hence same generation) -/
def isCurrent (s : St) (g : Nat) (y : G) (i : Nat) (x : Inst) : Bool :=
  match s.key y.key with
  | some r => r.id == x.rid && r.gen == g && r.cur == some i
  | none => false

/-- state after `cancel(); close(exitedCh)`: the final critical section of an instance that is no
longer current finds `r.ctx != ctx` (and stays so: `r.ctx` is never set back to an old context), or
works on a record that is no longer in the map: it does nothing, so it is not an event -/
def afterClose (s : St) (g : Nat) (y : G) (i : Nat) (x : Inst) : IS :=
  if isCurrent s g y i x then .closed else .recorded

/-- the epoch of return is only ever read by the `record` of a current instance -/
def retEp (s : St) (g : Nat) (y : G) (i : Nat) (x : Inst) : Nat := if isCurrent s g y i x then s.epoch else 0

/-- can instance `x` of generation `y` take an internal step right now -/
def instBusy (y : G) (x : Inst) : Bool :=
  match x.st with
  | .waiting => chClosed y x.waitOn
  | .entered | .returned | .closed => true
  | .running | .recorded => false

/-- nothing is left to do without a new call, a routine returning, or time passing -/
def quiet (s : St) : Bool :=
  s.calls.isEmpty && noDue s && s.gens.all fun y => y.insts.all fun x => !instBusy y x

inductive Ev where
  | config (c : Cfg)
  | inv (id : Nat) (op : Op)
  | exec (id : Nat)
  | ctor (k d : Nat)
  | ret (id : Nat) (res : Res)
  | proceed (g i : Nat)
  | bail (g i : Nat)
  | cbin (j g i k d : Nat)
  | cbout (j : Nat) (o : Outcome)
  | closeExit (g i : Nat)
  | record (g i : Nat)
  | timerRemove (k : Nat)
  | timerRetry (k : Nat)
  | advance
  | quiesce
  | probe (j : Nat) (cancelled : Bool)
  | nilnext (k : Nat)
  | cancelroot
  | boff (k : Nat) (armed : Bool)
deriving DecidableEq, Repr, Hashable

/-- what the harness logs -/
inductive Obs where
  | config (c : Cfg)
  | inv (id : Nat) (op : Op)
  | ctor (k d : Nat)
  | ret (id : Nat) (res : Res)
  | cbin (j k d : Nat)
  | cbout (j : Nat) (o : Outcome)
  | advance
  | quiesce
  | probe (j : Nat) (cancelled : Bool)
  | nilnext (k : Nat)
  | cancelroot
  | boff (k : Nat) (armed : Bool)
deriving DecidableEq, Repr, Hashable

def Ev.obs : Ev → Option Obs
  | .config c => some (.config c)
  | .inv id op => some (.inv id op)
  | .ctor k d => some (.ctor k d)
  | .ret id r => some (.ret id r)
  | .cbin j _ _ k d => some (.cbin j k d)
  | .cbout j o => some (.cbout j o)
  | .advance => some .advance
  | .quiesce => some .quiesce
  | .probe j c => some (.probe j c)
  | .nilnext k => some (.nilnext k)
  | .cancelroot => some .cancelroot
  | .boff k b => some (.boff k b)
  | _ => none

/-- the operation of the invoked call `id` whose critical section has not run yet -/
def pendingOp : List Call → Nat → Option Op
  | [], _ => none
  | .invoked id' op :: cs, id => if id' = id then some op else pendingOp cs id
  | _ :: cs, id => pendingOp cs id

/-- the constructor call `(k, d)` is logged: it belongs to the first call that made it -/
def takeCtor : List Call → Nat → Nat → Option (List Call)
  | [], _, _ => none
  | .done id cs res :: rest, k, d =>
    if cs.contains (k, d) then some (.done id (cs.erase (k, d)) res :: rest)
    else (takeCtor rest k d).map (.done id cs res :: ·)
  | c :: rest, k, d => (takeCtor rest k d).map (c :: ·)

/-- one step of instance `i` of generation `g` -/
def instStep (s : St) (g i : Nat) (f : G → Inst → Option Inst) : Option St :=
  match s.gens[g]? with
  | none => none
  | some y =>
    match y.insts[i]? with
    | none => none
    | some x =>
      match f y x with
      | none => none
      | some x' => some (modInst s g i fun _ => x')

/-- what the harness' backoff object sees when the exit bookkeeping asks it (`NextBackOff`, routine.go:139, inside
the final critical section of a failed current instance whose record is in the map): the record has exited with
an error, `r.exitedCh` is nil, and the retry timer is armed now (`armed`) or the backoff said `Stop` -/
def boffOk (s : St) (k : Nat) (armed : Bool) : Bool :=
  match s.key k with
  | none => false
  | some r =>
    r.exited && r.err &&
    (match s.gens[r.gen]? with
     | some y => y.last.isNone
     | none => false) &&
    (match r.deferRetry with
     | some e => armed && decide (e ≤ s.epoch)
     | none => !armed)

def step (s : St) : Ev → Option St
  | .config c => if s.cfg.isNone then some { s with cfg := some c } else none
  | .inv id op =>
    match s.cfg with
    | none => none
    | some c =>
      -- call ids are unique (the harness numbers the calls)
      if op.allowed c.rc ∧ (s.calls.all fun c => c.id != id) then some { s with calls := s.calls ++ [.invoked id op] } else none
  | .exec id =>
    match pendingOp s.calls id with
    | some op =>
      let r := execOp (preOp s op) op
      some { r.1 with calls := s.calls.map fun c => if c = .invoked id op then .done id r.2.1 r.2.2 else c }
    | none => none
  | .ctor k d =>
    match takeCtor s.calls k d with
    | some cs => some { s with calls := cs }
    | none => none
  | .ret id res =>
    if s.calls.contains (.done id [] res) then some { s with calls := s.calls.erase (.done id [] res) } else none
  | .proceed g i => instStep s g i fun y x =>
      if x.st = .waiting ∧ chClosed y x.waitOn ∧ (x.waitOn = none → x.cancelled = false)
      then some { x with st := .entered } else none
  | .bail g i => instStep s g i fun y x =>
      if x.st = .waiting ∧ x.cancelled ∧ chClosed y x.waitOn
      then some { x with st := afterClose s g y i x, failed := true, retEpoch := retEp s g y i x } else none
  | .cbin j g i k d =>
    if j = s.runs.length then
      match s.gens[g]? with
      | none => none
      | some y =>
        match y.insts[i]? with
        | none => none
        | some x =>
          if x.st = .entered ∧ y.key = k ∧ x.data = d
          then some { modInst s g i (fun x => { x with st := .running }) with runs := s.runs ++ [(g, i)] }
          else none
    else none
  | .cbout j o =>
    match s.runs[j]? with
    | none => none
    | some (g, i) => instStep s g i fun y x =>
        if x.st = .running ∧ (o = .canceled → x.cancelled = true)
        then some { x with st := .returned, failed := o ≠ .ok, retEpoch := retEp s g y i x } else none
  | .closeExit g i => instStep s g i fun y x =>
      if x.st = .returned then some { x with st := afterClose s g y i x, cancelled := true } else none
  | .record g i =>
    match s.gens[g]? with
    | none => none
    | some y =>
      match y.insts[i]? with
      | none => none
      | some x => if x.st = .closed then some (recordInst s g i x y.key) else none
  | .timerRemove k =>
    match s.key k with
    | some r => if dueOpt s r.deferRemove then some (removeNow s k r) else none
    | none => none
  | .timerRetry k =>
    match s.key k with
    | some r =>
      if dueOpt s r.deferRetry then
        let s1 := setRec s k (some { r with deferRetry := none })
        some (if r.exited then startKey s1 k true else s1)
      else none
    | none => none
  | .advance => if s.cfg.isSome ∧ s.calls = [] ∧ noDue s then some { s with epoch := s.epoch + 1 } else none
  | .quiesce => if quiet s then some s else none
  | .probe j c =>
    match s.runs[j]? with
    | none => none
    | some (g, i) =>
      match getInst s g i with
      | some x => if x.st = .running ∧ x.cancelled = c then some s else none
      | none => none
  | .nilnext k =>
    if s.cfg.isSome then some { s with nilNext := k :: s.nilNext.filter (· != k) } else none
  | .cancelroot =>
    -- the harness cancels the installed root context between two calls
    if s.calls = [] ∧ isLive s.ctx then some (cancelAll { s with ctx := some 0 }) else none
  | .boff k armed => if boffOk s k armed then some s else none

/-- internal events worth trying -/
def cands (s : St) : List Ev :=
  (s.calls.filterMap fun c => match c with
    | .invoked id _ => some (.exec id)
    | _ => none) ++
  ((List.range s.gens.length).flatMap fun g =>
    match s.gens[g]? with
    | none => []
    | some y => (List.range y.insts.length).flatMap fun i =>
        [.proceed g i, .bail g i, .closeExit g i, .record g i]) ++
  ((List.range s.kbound).flatMap fun k => [.timerRemove k, .timerRetry k])

/-- the harness cannot know which goroutine entered the routine function: every instance -/
def evsOf (s : St) : Obs → List Ev
  | .config c => [.config c]
  | .inv id op => [.inv id op]
  | .ctor k d => [.ctor k d]
  | .ret id r => [.ret id r]
  | .cbin j k d =>
    (List.range s.gens.length).flatMap fun g =>
      match s.gens[g]? with
      | none => []
      | some y => (List.range y.insts.length).map fun i => .cbin j g i k d
  | .cbout j o => [.cbout j o]
  | .advance => [.advance]
  | .quiesce => [.quiesce]
  | .probe j c => [.probe j c]
  | .nilnext k => [.nilnext k]
  | .cancelroot => [.cancelroot]
  | .boff k b => [.boff k b]

def model : OLTS St Ev Obs where
  init := {}
  step := step
  obs := Ev.obs
  cands := cands
  evsOf := evsOf

/-! ## parsing the harness' lines -/

def pBool (t f s : String) : Option Bool :=
  if s == t then some true else if s == f then some false else none

def pNats : List String → Option (List Nat)
  | [] => some []
  | x :: xs => do let n ← x.toNat?; let r ← pNats xs; pure (n :: r)

def pPairs : List String → Option (List (Nat × Nat))
  | [] => some []
  | [_] => none
  | a :: b :: xs => do let x ← a.toNat?; let y ← b.toNat?; let r ← pPairs xs; pure ((x, y) :: r)

/-- condition functions: `nil`, `key=K`, `par=P` -/
def pCond (x : String) : Option Cond :=
  if x == "nil" then some .nil
  else match x.splitOn "=" with
    | ["key", k] => do pure (.keyIs (← k.toNat?))
    | ["par", p] => do pure (.dataPar (← p.toNat?))
    | _ => none

def pConds : List String → Option (List Cond)
  | [] => some []
  | x :: xs => do let c ← pCond x; let r ← pConds xs; pure (c :: r)

def pOp : List String → Option Op
  | ["setkey", k, st] => do pure (.setKey (← k.toNat?) (← pBool "start" "nostart" st))
  | ["removekey", k] => do pure (.removeKey (← k.toNat?))
  | "synckeys" :: r :: ks => do pure (.syncKeys (← pNats ks) (← pBool "restart" "norestart" r))
  | ["getkey", k] => do pure (.getKey (← k.toNat?))
  | ["getkeys"] => some .getKeys
  | ["getkeysdata"] => some .getKeysWithData
  | "reset" :: k :: cs => do pure (.resetRoutine (← k.toNat?) (← pConds cs))
  | "restart" :: k :: cs => do pure (.restartRoutine (← k.toNat?) (← pConds cs))
  | "resetall" :: cs => do pure (.resetAll (← pConds cs))
  | "restartall" :: cs => do pure (.restartAll (← pConds cs))
  | ["setctx", c, r] => do
    let c ← c.toNat?
    pure (.setContext (if c = 0 then none else some c) (← pBool "restart" "norestart" r))
  | ["addref", k] => do pure (.addKeyRef (← k.toNat?))
  | ["release", r] => do pure (.release (← r.toNat?))
  | ["rcremove", k] => do pure (.rcRemoveKey (← k.toNat?))
  | _ => none

def pRes : List String → Option Res
  | ["de", d, e] => do pure (.dataExisted (← d.toNat?) (← pBool "true" "false" e))
  | ["ref", r, d, e] => do pure (.ref (← r.toNat?) (← d.toNat?) (← pBool "true" "false" e))
  | ["bool", b] => do pure (.bool (← pBool "true" "false" b))
  | "sync" :: xs =>
    match xs.span (· ≠ "/") with
    | (a, _ :: r) => do pure (.sync (← pNats a) (← pNats r))
    | _ => none
  | "keys" :: ks => do pure (.keys (← pNats ks))
  | "keysdata" :: kd => do pure (.keysData (← pPairs kd))
  | ["er", e, r] => do pure (.existedReset (← pBool "true" "false" e) (← pBool "true" "false" r))
  | ["counts", n, t] => do pure (.counts (← n.toNat?) (← t.toNat?))
  | ["unit"] => some .unit
  | _ => none

def pOutcome : String → Option Outcome
  | "ok" => some .ok
  | "err" => some .err
  | "canceled" => some .canceled
  | _ => none

def Obs.parse : List String → Option Obs
  | ["config", m, d, "noretry"] => do
    pure (.config { rc := ← pBool "rc" "plain" m, delay := ← pBool "delay" "nodelay" d, retry := none })
  | ["config", m, d, "fresh"] => do
    pure (.config { rc := ← pBool "rc" "plain" m, delay := ← pBool "delay" "nodelay" d, retry := some 0, fresh := true })
  | ["config", m, d, "retry", n] => do
    pure (.config { rc := ← pBool "rc" "plain" m, delay := ← pBool "delay" "nodelay" d, retry := some (← n.toNat?) })
  | "inv" :: id :: rest => do pure (.inv (← id.toNat?) (← pOp rest))
  | "ret" :: id :: rest => do pure (.ret (← id.toNat?) (← pRes rest))
  | ["cbin", "ctor", k, d] => do pure (.ctor (← k.toNat?) (← d.toNat?))
  | ["cbin", "run", j, k, d] => do pure (.cbin (← j.toNat?) (← k.toNat?) (← d.toNat?))
  | ["cbout", j, o] => do pure (.cbout (← j.toNat?) (← pOutcome o))
  | ["advance"] => some .advance
  | ["quiesce"] => some .quiesce
  | ["probe", j, c] => do pure (.probe (← j.toNat?) (← pBool "cancelled" "live" c))
  | ["env", "nilnext", k] => do pure (.nilnext (← k.toNat?))
  | ["env", "cancelroot"] => some .cancelroot
  | ["env", "boff", k, b] => do pure (.boff (← k.toNat?) (← pBool "armed" "stop" b))
  | _ => none

end UtilModel.Keyed
