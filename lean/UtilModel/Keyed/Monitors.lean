import UtilModel.Keyed.Spec
import UtilModel.Core.Monitor
/-!
# keyed — the properties C06 and C07 as executable monitors over observable histories

`monC06` runs the key-set specification (`Spec.lean`) over the history: it applies the rule of every
call at its `ret` line and compares every returned value (existed, added, removed, data, key lists)
with the abstract key set. The one thing the history does not determine is the oracle "the routine
of `k` has failed" when `RemoveKey` meets a release delay (the exit bookkeeping of a routine that
returned an error is not observable): if some routine of `k` returned an error since `k` was
created, the key is `unknown e` (absent or leaving) until the next observation of `k` decides.

`monC07` checks, per key *generation* (a new generation starts when the constructor runs for a key
that was not in the set): no two routine functions of one generation are inside `cbin`…`cbout`
together; after a call that removed a key at once, or after `ClearContext`, every running routine
concerned probes `cancelled`, and after the next quiescence point none of them is entered again;
a key that stays in the set with retry configured, whose current routine returned an error, is
entered again before the quiescence point that follows the next `advance`, whatever non-restarting
calls were made in between.
-/
namespace UtilModel.Keyed

/-! ## small association lists -/

def alGet {α : Type} (l : List (Nat × α)) (k : Nat) : Option α := (l.find? (·.1 == k)).map (·.2)
def alSet {α : Type} (l : List (Nat × α)) (k : Nat) (v : α) : List (Nat × α) :=
  (k, v) :: l.filter (·.1 != k)

/-! ## C06 -/

inductive MK where
  | absent | present | leaving (e : Nat)
  | unknown (e : Nat)   -- absent, or leaving since epoch `e`
  | any                 -- nothing is known (the key was touched by calls that overlapped)
deriving DecidableEq, Repr

structure M6 where
  delay : Bool := false
  hasCtx : Bool := false
  epoch : Nat := 0
  keys : List (Nat × MK) := []
  /-- data of the last constructor call per key -/
  data : List (Nat × Nat) := []
  /-- keys some routine of which returned an error since the key was created / reset -/
  sus : List Nat := []
  /-- the root context was cancelled while installed: instances fail without any `cbout` line (cancelled before
  they entered, or started with the cancelled context), so every key is a suspect from then on -/
  susAll : Bool := false
  /-- keys whose reference table is uncertain: an `AddKeyRef` or `RemoveKey` (refcount) on them overlapped another
  call, so a reference the monitor lists may be released already, or the other way round -/
  unsureK : List Nat := []
  /-- run id ↦ key -/
  runKey : List Nat := []
  live : List (Option Nat) := []
  /-- references that are certainly unreleased: from the `ret` of `AddKeyRef` to the `inv` of their
  `Release` / of `RemoveKey` on their key -/
  liveDef : List (Option Nat) := []
  /-- calls in progress: id, operation, "its interval overlapped another call" -/
  pending : List (Nat × Op × Bool) := []
  /-- keys constructed during the pending call -/
  ctors : List Nat := []
deriving Repr

def M6.st (m : M6) (k : Nat) : MK := (alGet m.keys k).getD .absent
def M6.setSt (m : M6) (k : Nat) (v : MK) : M6 := { m with keys := alSet m.keys k v }
def M6.dataOf (m : M6) (k : Nat) : Nat := (alGet m.data k).getD 0
def M6.known (m : M6) : List Nat := m.keys.map (·.1)

/-- the history shows whether `k` is in the set -/
def M6.observe (m : M6) (k : Nat) (b : Bool) : Option M6 :=
  match m.st k with
  | .absent => if b then none else some m
  | .present | .leaving _ => if b then some m else none
  | .unknown e => some (m.setSt k (if b then .leaving e else .absent))
  | .any => some (if b then m else m.setSt k .absent)

/-- rule `dismiss` -/
def M6.dismiss (m : M6) (k : Nat) : M6 :=
  match m.st k with
  | .present =>
    if !m.delay then m.setSt k .absent
    else if m.susAll || m.sus.contains k then m.setSt k (.unknown m.epoch)
    else m.setSt k (.leaving m.epoch)
  | _ => m

/-- rule `request`, after the call reported `existed`; the constructor ran iff the key did not exist -/
def M6.request (m : M6) (k : Nat) (existed : Bool) : Option M6 := do
  let m ← m.observe k existed
  if m.ctors.contains k == existed then none
  else
    let m := m.setSt k .present
    pure (if existed then m else { m with sus := m.sus.filter (· != k) })

def obsAll (m : M6) (u : List Nat) (inSet : Nat → Bool) : Option M6 :=
  u.foldlM (fun m k => m.observe k (inSet k)) m

def liveCountM (m : M6) (k : Nat) : Nat := m.live.countP (· == some k)

def setAt {α : Type} (l : List (Option α)) (i : Nat) (v : Option α) : List (Option α) :=
  (l ++ List.replicate (i + 1 - l.length) none).set i v

/-- a key with a certainly unreleased reference is in the reported key set -/
def M6.refsIn (m : M6) (inSet : Nat → Bool) : Bool :=
  m.liveDef.all fun x => match x with
    | some k => inSet k
    | none => true

/-- what is still known after a call that overlapped another one returned: the reference table; the
keys it may have touched are unknown -/
def M6.weakRet (m : M6) : Op → Res → M6
  | .setKey k _, _ | .removeKey k, _ | .resetRoutine k _, _ => m.setSt k .any
  | .syncKeys ks _, _ => (ks ++ m.known).foldl (fun m k => m.setSt k .any) m
  | .resetAll _, _ => m
  | .setContext c _, _ => { m with hasCtx := c.isSome }
  | .addKeyRef k, .ref r _ _ =>
    -- an overlapping `RemoveKey` may have released the reference already: it is not certainly unreleased
    { m.setSt k .any with live := setAt m.live r (some k), liveDef := setAt m.liveDef r none,
                          unsureK := k :: m.unsureK }
  | .release r, _ =>
    match m.live[r]? with
    | some (some k) => { m.setSt k .any with live := m.live.set r none }
    | _ => m
  | .rcRemoveKey k, _ =>
    -- a reference taken by an overlapping `AddKeyRef` may have survived: the listed ones stay listed
    { m.setSt k .any with unsureK := k :: m.unsureK }
  | _, _ => m

/-- the rule of a call, applied when its results are known -/
def M6.ret (m : M6) : Op → Res → Option M6
  | .setKey k _, .dataExisted d e => do
    let m ← m.request k e
    if d == m.dataOf k then pure m else none
  | .removeKey k, .bool b => do
    let m ← m.observe k b
    pure (if b then m.dismiss k else m)
  | .syncKeys ks _, .sync ad rm =>
    if ad.any (fun k => !ks.contains k) || rm.any (fun k => ks.contains k) then none
    else do
      let m ← ks.eraseDups.foldlM (fun m k => m.request k (!ad.contains k)) m
      let u := (rm ++ m.known).eraseDups.filter fun k => !ks.contains k
      let m ← obsAll m u rm.contains
      pure (rm.foldl (fun m k => m.dismiss k) m)
  | .getKey k, .dataExisted d e => do
    let m ← m.observe k e
    if !m.refsIn (fun k' => k' != k || e) then none
    if d == (if e then m.dataOf k else 0) then pure m else none
  | .getKeys, .keys ks =>
    if !m.refsIn ks.contains then none else obsAll m (ks ++ m.known).eraseDups ks.contains
  | .getKeysWithData, .keysData kd => do
    let ks := kd.map (·.1)
    if !m.refsIn ks.contains then none
    let m ← obsAll m (ks ++ m.known).eraseDups ks.contains
    if kd.all fun p => p.2 == m.dataOf p.1 then pure m else none
  | .resetRoutine k cs, .existedReset e r => do
    let m ← m.observe k e
    -- the constructor line of a reset comes before the ret line: the data the conditions saw is one less
    let prior := if m.ctors.contains k then m.dataOf k - 1 else m.dataOf k
    if r != (e && condsMatch cs k prior) || m.ctors.contains k != r then none
    else pure (if r then { m.setSt k .present with sus := m.sus.filter (· != k) } else m)
  | .restartRoutine k cs, .existedReset e r => do
    let m ← m.observe k e
    if r == (e && m.hasCtx && condsMatch cs k (m.dataOf k)) then pure m else none
  | .resetAll cds, .counts n t => do
    let cs := m.ctors
    if cds.isEmpty then
      let m ← obsAll m (cs ++ m.known).eraseDups cs.contains
      if n == cs.length && t == cs.length then
        pure (cs.foldl (fun m k => { m.setSt k .present with sus := m.sus.filter (· != k) }) m)
      else none
    else
      -- with condition functions: exactly the keys whose constructor ran were reset (and were in the set)
      let m ← cs.foldlM (fun m k => m.observe k true) m
      if n == cs.length && n ≤ t && cs.all (fun k => condsMatch cds k (m.dataOf k - 1)) then
        pure (cs.foldl (fun m k => { m.setSt k .present with sus := m.sus.filter (· != k) }) m)
      else none
  | .restartAll cds, .counts n t =>
    if !cds.isEmpty then (if n ≤ t && (m.hasCtx || n == 0) then some m else none) else
    let definite := (m.known.filter fun k => match m.st k with
      | .present | .leaving _ => true
      | _ => false).length
    let maybe := (m.known.filter fun k => match m.st k with
      | .unknown _ | .any => true
      | _ => false).length
    if definite ≤ t && t ≤ definite + maybe && n == (if m.hasCtx then t else 0) then some m else none
  | .setContext c _, .unit => some { m with hasCtx := c.isSome }
  | .addKeyRef k, .ref r d e => do
    if r != m.live.length then none
    let m ← m.request k e
    if d == m.dataOf k then pure { m with live := m.live ++ [some k], liveDef := setAt m.liveDef r (some k) } else none
  | .release r, .unit =>
    match m.live[r]? with
    | some (some k) =>
      let m := { m with live := m.live.set r none }
      some (if m.unsureK.contains k then m.setSt k .any
            else if liveCountM m k == 0 then m.dismiss k else m)
    | _ => some m
  | .rcRemoveKey k, .bool b => do
    let m := { m with live := m.live.map (fun x => if x == some k then none else x),
                      unsureK := m.unsureK.filter (· != k) }
    let m ← m.observe k b
    pure (if b then m.dismiss k else m)
  | _, _ => none

def monC06 : ObsMonitor Obs M6 where
  init := {}
  step := fun m o =>
    match o with
    | .config c => some { m with delay := c.delay }
    | .inv id op =>
      -- a reference stops being certainly unreleased when its release is invoked
      let ld := match op with
        | .release r => if r < m.liveDef.length then m.liveDef.set r none else m.liveDef
        | .rcRemoveKey k => m.liveDef.map fun x => if x == some k then none else x
        | _ => m.liveDef
      if m.pending.isEmpty then some { m with pending := [(id, op, false)], ctors := [], liveDef := ld }
      else some { m with pending := m.pending.map (fun p => (p.1, p.2.1, true)) ++ [(id, op, true)], liveDef := ld }
    | .ctor k d => some { m with data := alSet m.data k d, ctors := k :: m.ctors }
    | .ret id res =>
      match m.pending.find? (·.1 == id) with
      | some (_, op, overlapped) =>
        let rest := m.pending.filter (·.1 != id)
        if overlapped then
          let m' := m.weakRet op res
          -- a reference taken while `RemoveKey` on its key is in progress may already be released
          let m' := match op, res with
            | .addKeyRef k, .ref r _ _ =>
              if rest.any (fun p => p.2.1 == Op.rcRemoveKey k) then { m' with liveDef := setAt m'.liveDef r none } else m'
            | _, _ => m'
          some { m' with pending := rest, ctors := [] }
        else (m.ret op res).map fun m => { m with pending := rest, ctors := [] }
      | none => none
    | .cbin j k _ => if j == m.runKey.length then some { m with runKey := m.runKey ++ [k] } else none
    | .cbout j o =>
      match m.runKey[j]? with
      | some k => some (if o == .ok then m else { m with sus := k :: m.sus })
      | none => none
    | .advance =>
      -- the removal timers armed in this epoch fire; their callbacks run some time before `quiesce`
      some { m with epoch := m.epoch + 1
                    keys := m.keys.map fun p => match p.2 with
                      | .leaving e => (p.1, MK.unknown e)
                      | _ => p }
    | .quiesce =>
      some { m with keys := m.keys.map fun p => match p.2 with
                      | .leaving e | .unknown e => if e < m.epoch then (p.1, MK.absent) else p
                      | _ => p }
    | .probe _ _ => some m
    | .nilnext _ => some m
    -- `RestartRoutine` & co. treat a cancelled root context as none
    | .cancelroot => some { m with hasCtx := false, susAll := true }
    | .boff _ _ => some m

/-! ## C07 -/

structure Run where
  key : Nat
  data : Nat
  running : Bool := true
  /-- a call made since the run was entered may have replaced it: its exit no longer counts -/
  stale : Bool := false
  /-- must answer `cancelled` when probed -/
  mustCancel : Bool := false
deriving Repr

structure M7 where
  delay : Bool := false
  retry : Option Nat := none
  /-- `WithRetry` with the library backoff (`MaxElapsedTime` one epoch) instead of the scripted one -/
  fresh : Bool := false
  /-- per key: the epoch in which its record's backoff object was constructed or last reset, when known -/
  born : List (Nat × Nat) := []
  hasCtx : Bool := false
  epoch : Nat := 0
  runs : List Run := []
  /-- per key: data values at which a generation started (newest first) -/
  gstarts : List (Nat × List Nat) := []
  /-- (key, generation start) that are dead, and whether a quiescence point has passed since -/
  dead : List (Nat × Nat × Bool) := []
  /-- the context was cleared; `true` once a quiescence point has passed since -/
  cleared : Option Bool := none
  /-- keys dismissed with a release delay in this epoch and not requested again since -/
  leavingK : List (Nat × Nat) := []
  /-- consecutive failures per key since the last success / new record -/
  fails : List (Nat × Nat) := []
  /-- (key, epoch of the failure): a retry is owed -/
  owed : List (Nat × Nat) := []
  /-- calls in progress: id, operation, "overlapped another call" -/
  pending : List (Nat × Op × Bool) := []
  /-- keys whose generation started during the pending call -/
  created : List Nat := []
  /-- an `advance` was seen since the last quiescence point -/
  advanced : Bool := false
  /-- live references (`KeyedRefCount`) -/
  live : List (Option Nat) := []
  /-- keys that a call which overlapped another one may have dismissed (not requested again since): their
  routine may be removed by the release delay, so no retry is demanded for them -/
  maybeGone : List Nat := []
  /-- per key: data of the last constructor line seen -/
  lastD : List (Nat × Nat) := []
  /-- keys whose reference table is uncertain (an `AddKeyRef` / `RemoveKey` on them overlapped another call) -/
  unsureK : List Nat := []
deriving Repr

def genOf (m : M7) (k d : Nat) : Nat :=
  (((alGet m.gstarts k).getD []).find? (· ≤ d)).getD 0

def curGen (m : M7) (k : Nat) : Nat := (((alGet m.gstarts k).getD []).head?).getD 0

/-- a call that may restart, replace or remove the routine of `k` -/
def M7.touch (m : M7) (k : Nat) : M7 :=
  { m with runs := m.runs.map fun r => if r.key == k && r.running then { r with stale := true } else r
           owed := m.owed.filter (·.1 != k) }

def M7.touchAll (m : M7) : M7 :=
  { m with runs := m.runs.map fun r => if r.running then { r with stale := true } else r, owed := [] }

/-- the key was deleted now: its running routines must be cancelled, its generation is dead -/
def M7.kill (m : M7) (k : Nat) : M7 :=
  let m := m.touch k
  { m with runs := m.runs.map fun r =>
             if r.key == k && r.running && genOf m k r.data == curGen m k then { r with mustCancel := true } else r
           dead := (k, curGen m k, false) :: m.dead
           leavingK := m.leavingK.filter (·.1 != k) }

/-- forget the retry owed for `k` (a routine that had failed is removed at once) -/
def M7.unowe (m : M7) (k : Nat) : M7 := { m with owed := m.owed.filter (·.1 != k) }

/-- `remove()` was called on a key that existed: with a release delay its routine keeps running (and
keeps its retry, should it fail before the key is requested again) -/
def M7.dismiss (m : M7) (k : Nat) : M7 :=
  if m.delay then
    (if m.leavingK.any (·.1 == k) then m.unowe k else { m.unowe k with leavingK := (k, m.epoch) :: m.leavingK })
  else m.kill k

def M7.unleave (m : M7) (k : Nat) : M7 :=
  { m with leavingK := m.leavingK.filter (·.1 != k), maybeGone := m.maybeGone.filter (· != k) }

/-- an overlapped call may have dismissed `k` -/
def M7.gone (m : M7) (k : Nat) : M7 := { m.touch k with maybeGone := k :: m.maybeGone }

def M7.inv (m : M7) : Op → M7
  | .setKey k st => if st then (m.touch k).unleave k else m.unleave k
  | .syncKeys ks restart => if restart then ks.foldl (fun m k => (m.touch k).unleave k) m else ks.foldl (fun m k => m.unleave k) m
  -- with condition functions the call may leave the routine (and a pending retry) alone: decided at `ret`
  | .resetRoutine k cs => if cs.isEmpty then (m.touch k).unleave k else m
  | .restartRoutine k cs => if cs.isEmpty then m.touch k else m
  | .resetAll cs => if cs.isEmpty then { m.touchAll with leavingK := [], maybeGone := [] } else m
  | .restartAll cs => if cs.isEmpty then m.touchAll else m
  | .setContext _ _ => m.touchAll
  | .addKeyRef k => (m.touch k).unleave k
  | .removeKey k | .rcRemoveKey k => m.unowe k
  | .release r =>
    match m.live[r]? with
    | some (some k) => m.unowe k
    | _ => m
  | _ => m

def M7.ret (m : M7) : Op → Res → M7
  | .removeKey k, .bool true => m.dismiss k
  | .rcRemoveKey k, .bool b =>
    let m := { m with live := m.live.map (fun x => if x == some k then none else x),
                      unsureK := m.unsureK.filter (· != k) }
    if b then m.dismiss k else m
  | .addKeyRef k, _ => { m with live := m.live ++ [some k] }
  | .release r, _ =>
    match m.live[r]? with
    | some (some k) =>
      let m := { m with live := m.live.set r none }
      -- with an uncertain reference table it is not known whether this was the last reference
      if m.unsureK.contains k then m.gone k
      else if m.live.countP (· == some k) == 0 then m.dismiss k else m
    | _ => m
  | .syncKeys _ _, .sync _ rm => rm.foldl (fun m k => m.dismiss k) m
  | .setContext none _, _ =>
    { m with hasCtx := false, cleared := some false
             runs := m.runs.map fun r => if r.running then { r with mustCancel := true } else r }
  | .setContext (some _) _, _ => { m with hasCtx := true }
  -- condition functions: the result says whether anything was reset / restarted
  | .resetRoutine k cs, .existedReset _ r => if !cs.isEmpty && r then (m.touch k).unleave k else m
  | .restartRoutine k cs, .existedReset _ r => if !cs.isEmpty && r then m.touch k else m
  | .resetAll cs, .counts n _ => if !cs.isEmpty && n != 0 then { m.touchAll with leavingK := [] } else m
  | .restartAll cs, .counts n _ => if !cs.isEmpty && n != 0 then m.touchAll else m
  | _, _ => m

/-- a call that overlapped another one returned: only the reference table is kept exact; nothing is
concluded about removal -/
def M7.weakRet (m : M7) : Op → Res → M7
  | .removeKey k, _ => m.gone k
  | .rcRemoveKey k, _ => { m.gone k with unsureK := k :: m.unsureK }
  | .addKeyRef k, .ref r _ _ => { m with live := setAt m.live r (some k), unsureK := k :: m.unsureK }
  | .release r, _ =>
    match m.live[r]? with
    | some (some k) => { m.gone k with live := m.live.set r none }
    | _ => m
  | .syncKeys _ _, .sync _ rm => rm.foldl (fun m k => m.gone k) m
  | .setContext none _, _ => { m with hasCtx := false }
  | .setContext (some _) _, _ => { m with hasCtx := true }
  | .resetRoutine k cs, _ => if cs.isEmpty then m else (m.touch k).unleave k
  | .restartRoutine k cs, _ => if cs.isEmpty then m else m.touch k
  | .resetAll cs, _ => if cs.isEmpty then m else { m.touchAll with leavingK := [] }
  | .restartAll cs, _ => if cs.isEmpty then m else m.touchAll
  | _, _ => m

def monC07 : ObsMonitor Obs M7 where
  init := {}
  step := fun m o =>
    match o with
    | .config c => some { m with delay := c.delay, retry := c.retry, fresh := c.fresh }
    | .inv id op =>
      let m := match op with
        | .setContext (some _) _ => { m with cleared := none }
        | _ => m
      let m := m.inv op
      if m.pending.isEmpty then some { m with pending := [(id, op, false)], created := [] }
      else some { m with pending := m.pending.map (fun p => (p.1, p.2.1, true)) ++ [(id, op, true)] }
    | .ctor k d =>
      if m.pending.any (fun p => match p.2.1 with
          | .resetRoutine k' _ => k' == k
          | .resetAll _ => true
          | _ => false) then
        some { m with fails := alSet m.fails k 0, born := alSet m.born k m.epoch, lastD := alSet m.lastD k d }
      else
        -- the constructor ran for a key that was not in the set: a new generation
        some { m with gstarts := alSet m.gstarts k (d :: (alGet m.gstarts k).getD []),
                      fails := alSet m.fails k 0, born := alSet m.born k m.epoch, lastD := alSet m.lastD k d }
    | .ret id res =>
      match m.pending.find? (·.1 == id) with
      | some (_, op, overlapped) =>
        let rest := m.pending.filter (·.1 != id)
        some { (if overlapped then m.weakRet op res else m.ret op res) with pending := rest }
      | none => none
    | .cbin j k d =>
      if j != m.runs.length then none
      -- the constructor line of this run's record has not been seen yet (it is logged inside a call that is
      -- still in progress): its generation is not known, nothing is concluded from or about this run
      else if d > (alGet m.lastD k).getD 0 then
        some { m with runs := m.runs ++ [{ key := k, data := d, stale := true }], owed := m.owed.filter (·.1 != k) }
      else
        let g := genOf m k d
        -- (1) no other routine function of this generation is running
        if m.runs.any (fun r => r.key == k && r.running && genOf m k r.data == g) then none
        -- (2) nothing is entered for a dead generation / without a context once things settled
        else if m.dead.any (fun x => x.1 == k && x.2.1 == g && x.2.2) then none
        else if m.cleared == some true then none
        else some { m with runs := m.runs ++ [{ key := k, data := d }], owed := m.owed.filter (·.1 != k) }
    | .cbout j o =>
      match m.runs[j]? with
      | none => none
      | some r =>
        if !r.running then none
        else
          let m := { m with runs := m.runs.set j { r with running := false } }
          match o with
          | .ok =>
            -- a success resets the backoff; a run that a call may have replaced may or may not have counted
            some (if r.stale then { m with born := m.born.filter (·.1 != r.key) }
                  else { m with fails := alSet m.fails r.key 0, born := alSet m.born r.key m.epoch })
          | .canceled => some m
          | .err =>
            -- `fails` over-approximates the backoff's count: a failure of a run that a call may have
            -- replaced may still have been counted (`SetKey(k, true)` on a running routine replaces nothing)
            let n := (alGet m.fails r.key).getD 0
            let m := { m with fails := alSet m.fails r.key (n + 1) }
            if r.stale || !m.hasCtx || m.maybeGone.contains r.key || genOf m r.key r.data != curGen m r.key
               || m.dead.any (fun x => x.1 == r.key && x.2.1 == curGen m r.key) then some m
            else
              match m.retry with
              | some lim =>
                let arm := if m.fresh then alGet m.born r.key == some m.epoch else decide (n < lim)
                some (if arm then { m with owed := (r.key, m.epoch) :: m.owed } else m)
              | none => some m
    | .probe j c =>
      match m.runs[j]? with
      | some r => if r.mustCancel && !c then none else some m
      | none => none
    | .advance => some { m with epoch := m.epoch + 1, advanced := true }
    | .nilnext _ => some m
    | .boff _ _ => some m
    | .cancelroot =>
      -- every routine's context is cancelled; instances started with the cancelled context fail without
      -- entering their function, which the monitor cannot count: no retry is demanded any more, and nothing
      -- is concluded from "no context" (a cancelled context that is still installed starts routines)
      some { m with hasCtx := false, retry := none, cleared := none, owed := []
                    runs := m.runs.map fun r => if r.running then { r with mustCancel := true } else r }
    | .quiesce =>
      -- the keys that were removed with a delay and not requested again are gone now
      let m := (m.leavingK.filter (·.2 < m.epoch)).foldl (fun m p => m.kill p.1) m
      -- (4) every call has returned
      if !m.pending.isEmpty then none
      -- (3) every retry owed from an earlier epoch has happened
      else if m.advanced && m.owed.any (fun x => x.2 < m.epoch) then none
      else
        some { m with advanced := false
                      dead := m.dead.map fun x => (x.1, x.2.1, true)
                      cleared := m.cleared.map fun _ => true }

/-! ## C07, first clause, in the form that is proved for every model trace (`C07a_obs`) -/

/-- runs seen so far: key, constructor generation (`data`), still inside the routine function -/
structure M7a where
  runs : List (Nat × Nat × Bool) := []
deriving Repr

/-- no two routine functions built by the same constructor call for the same key (i.e. of the same
record: restarts by `RestartRoutine`, `SetKey(start)`, `SyncKeys(restart)`, `SetContext`, retries) are
inside `cbin`…`cbout` together -/
def monC07a : ObsMonitor Obs M7a where
  init := {}
  step := fun m o =>
    match o with
    | .cbin j k d =>
      if j = m.runs.length ∧ (m.runs.any fun r => r.1 == k && r.2.1 == d && r.2.2) = false
      then some { runs := m.runs ++ [(k, d, true)] } else none
    | .cbout j _ =>
      match m.runs[j]? with
      | some (k, d, true) => some { runs := m.runs.set j (k, d, false) }
      | _ => none
    | _ => some m

/-! ## C06 in the form that is proved for every model trace (`C06o_obs`)

The key-set specification as a knowledge automaton: per key `absent`, `present`, `unknown e` (absent,
or removed with a delay in epoch `e` and not yet expired) or `any`. The `failed` oracle is not
observable, so a key removed with a delay is `unknown`; while calls of two callers overlap nothing is
known about any key (`any`) except which references are certainly unreleased. -/

inductive OK where
  | absent | present | unknown (e : Nat) | any
deriving DecidableEq, Repr

/-- the history shows whether the key is in the set -/
def OK.obs : OK → Bool → Option OK
  | .absent, b => if b then none else some .absent
  | .present, b => if b then some .present else none
  | .unknown e, b => some (if b then .unknown e else .absent)
  | .any, b => some (if b then .any else .absent)

/-- rule `dismiss` on a key that was reported to be in the set -/
def OK.dis (delay : Bool) (epoch : Nat) : OK → OK
  | .absent => .absent
  | .present => if delay then .unknown epoch else .absent
  | .unknown e => .unknown e
  | .any => .any

/-- a call may or may not have dismissed the key -/
def OK.weaken : OK → OK
  | .absent => .absent
  | _ => .any

structure M6o where
  delay : Bool := false
  /-- whether a context is set, when known -/
  hasCtx : Option Bool := some false
  epoch : Nat := 0
  st : Nat → OK := fun _ => .absent
  /-- constructor calls per key so far, when known (= the data of the key while it is in the set) -/
  cnt : Nat → Option Nat := fun _ => some 0
  /-- keys mentioned so far (the keys the set checks range over) -/
  known : List Nat := []
  /-- references that are certainly unreleased, with their key -/
  liveDef : List (Option Nat) := []
  /-- key of every reference whose `AddKeyRef` has returned -/
  refKey : List (Option Nat) := []
  /-- calls in progress: id, operation, "its interval overlapped another call" -/
  pending : List (Nat × Op × Bool) := []

def updF {α : Type} (f : Nat → α) (k : Nat) (v : α) : Nat → α := fun k' => if k' = k then v else f k'

def M6o.refsIn (m : M6o) (inSet : Nat → Bool) : Bool :=
  m.liveDef.all fun x => match x with
    | some k => inSet k
    | none => true

def cntOk (c : Option Nat) (d : Nat) : Bool :=
  match c with
  | some n => n == d
  | none => true

/-- another certainly unreleased reference to `k` than `r` -/
def M6o.otherRef (m : M6o) (r k : Nat) : Bool :=
  (List.range m.liveDef.length).any fun r' => r' != r && m.liveDef[r']? == some (some k)

/-- `request` reported `existed = e` and `data = d` -/
def M6o.request (m : M6o) (k d : Nat) (e : Bool) : Option M6o :=
  match (m.st k).obs e with
  | none => none
  | some _ =>
    let c := if e then m.cnt k else (m.cnt k).map (· + 1)
    if cntOk c d then some { m with st := updF m.st k .present, cnt := updF m.cnt k (some d), known := k :: m.known }
    else none

/-- do the condition functions accept key `k` (in the set), when the monitor knows its data -/
def expMatch (m : M6o) (cs : List Cond) (k : Nat) : Option Bool :=
  if cs.isEmpty then some true else (m.cnt k).map fun n => condsMatch cs k n

def chkMatch (o : Option Bool) (r e : Bool) : Bool :=
  match o with
  | some b => r == (e && b)
  | none => true

def chkMatch2 (h o : Option Bool) (r e : Bool) : Bool :=
  match h, o with
  | some c, some b => r == (e && c && b)
  | _, _ => true

/-- the constructor count of a key in the set after `ResetAllRoutines(conds…)` -/
def cntReset (cs : List Cond) (k : Nat) (c : Option Nat) : Option Nat :=
  c.map fun n => if condsMatch cs k n then n + 1 else n

/-- the rule of a call that overlapped no other call, applied when its results are known -/
def M6o.ret (m : M6o) : Op → Res → Option M6o
  | .setKey k _, .dataExisted d e => m.request k d e
  | .removeKey k, .bool b | .rcRemoveKey k, .bool b =>
    match (m.st k).obs b with
    | none => none
    | some x => some { m with st := updF m.st k (if b then x.dis m.delay m.epoch else .absent), known := k :: m.known }
  | .syncKeys ks _, .sync ad rm =>
    if ad.all (fun k => ks.contains k) && rm.all (fun k => !ks.contains k) &&
       ks.all (fun k => ((m.st k).obs (!ad.contains k)).isSome) &&
       rm.all (fun k => ((m.st k).obs true).isSome) &&
       m.known.all (fun k => ks.contains k || rm.contains k || ((m.st k).obs false).isSome)
    then some { m with
      st := fun k => if ks.contains k then .present
                     else if rm.contains k then (((m.st k).obs true).getD .any).dis m.delay m.epoch
                     else .absent
      cnt := fun k => if ad.contains k then (m.cnt k).map (· + 1) else m.cnt k
      known := ks ++ rm ++ m.known }
    else none
  | .getKey k, .dataExisted d e =>
    match (m.st k).obs e with
    | none => none
    | some x =>
      if m.refsIn (fun k' => k' != k || e) && (if e then cntOk (m.cnt k) d else d == 0)
      then some { m with st := updF m.st k x, cnt := if e then updF m.cnt k (some d) else m.cnt, known := k :: m.known }
      else none
  | .getKeys, .keys ks =>
    if m.refsIn ks.contains && ks.all (fun k => ((m.st k).obs true).isSome) &&
       m.known.all (fun k => ks.contains k || ((m.st k).obs false).isSome)
    then some { m with st := fun k => if ks.contains k then ((m.st k).obs true).getD .any else .absent
                       known := ks ++ m.known }
    else none
  | .getKeysWithData, .keysData kd =>
    let ks := kd.map (·.1)
    if m.refsIn ks.contains && ks.all (fun k => ((m.st k).obs true).isSome) &&
       m.known.all (fun k => ks.contains k || ((m.st k).obs false).isSome) &&
       kd.all (fun p => cntOk (m.cnt p.1) p.2)
    then some { m with st := fun k => if ks.contains k then ((m.st k).obs true).getD .any else .absent
                       cnt := fun k => match kd.find? (·.1 == k) with
                         | some p => some p.2
                         | none => m.cnt k
                       known := ks ++ m.known }
    else none
  | .resetRoutine k cs, .existedReset e r =>
    match (m.st k).obs e with
    | none => none
    | some x =>
      -- `r` tells whether the key was reset; it is checked against the conditions when the data is known
      if (!r || e) && chkMatch (expMatch m cs k) r e then
        some { m with st := updF m.st k (if r then .present else x)
                      cnt := if r then updF m.cnt k ((m.cnt k).map (· + 1)) else m.cnt, known := k :: m.known }
      else none
  | .restartRoutine k cs, .existedReset e r =>
    match (m.st k).obs e with
    | none => none
    | some x => if (!r || e) && chkMatch2 m.hasCtx (expMatch m cs k) r e
        then some { m with st := updF m.st k x, known := k :: m.known } else none
  | .resetAll cs, .counts n t =>
    if (if cs.isEmpty then n == t else decide (n ≤ t)) && ((dedup m.known).filter fun k => m.st k == .present).length ≤ t then
      some { m with st := fun k => match m.st k with
                      | .absent => .absent
                      | .present => .present
                      | _ => .any
                    cnt := fun k => match m.st k with
                      | .absent => m.cnt k
                      | .present => cntReset cs k (m.cnt k)
                      | _ => none }
    else none
  | .restartAll cs, .counts n t =>
    if (match m.hasCtx with
        | some c => if c then (if cs.isEmpty then n == t else decide (n ≤ t)) else n == 0
        | none => true) && ((dedup m.known).filter fun k => m.st k == .present).length ≤ t
    then some m else none
  | .setContext c _, .unit => some { m with hasCtx := some (isLive c) }
  | .addKeyRef k, .ref r d e =>
    (m.request k d e).map fun m =>
      { m with liveDef := setAt m.liveDef r (some k), refKey := setAt m.refKey r (some k) }
  | .release r, .unit =>
    match m.refKey[r]? with
    | some (some k) =>
      if m.otherRef r k then some m
      else some { m with st := updF m.st k (m.st k).weaken }
    | _ =>
      -- a reference the monitor does not know (taken while calls overlapped): any key may be affected
      some { m with st := fun k => (m.st k).weaken }
  | _, _ => none

/-- the `liveDef` table after the invocation of `op` -/
def ldInv (m : M6o) : Op → List (Option Nat)
  | .release r => if r < m.liveDef.length then m.liveDef.set r none else m.liveDef
  | .rcRemoveKey k => m.liveDef.map fun x => if x == some k then none else x
  | _ => m.liveDef

def monC06o : ObsMonitor Obs M6o where
  init := {}
  step := fun m o =>
    match o with
    | .config c => some { m with delay := c.delay }
    | .inv id op =>
      -- a reference stops being certainly unreleased when its release is invoked
      let ld := ldInv m op
      if m.pending.isEmpty then some { m with pending := [(id, op, false)], liveDef := ld }
      else
        -- two callers: nothing is known about the keys any more
        some { m with pending := m.pending.map (fun p => (p.1, p.2.1, true)) ++ [(id, op, true)]
                      st := fun _ => .any, cnt := fun _ => none, hasCtx := none, liveDef := [] }
    | .ret id res =>
      match m.pending.find? (·.1 == id) with
      | some (_, op, overlapped) =>
        let rest := m.pending.filter (·.1 != id)
        if overlapped then some { m with pending := rest }
        else (m.ret op res).map fun m => { m with pending := rest }
      | none => none
    | .advance => some { m with epoch := m.epoch + 1 }
    -- the installed root context is cancelled: it counts as no context for the calls that look (`SyncKeys`,
    -- `ResetRoutine`, `RestartRoutine`), and as a context for those that do not: unknown
    | .cancelroot => some { m with hasCtx := none }
    | .quiesce =>
      -- every callback of a removal timer that has fired has run
      some { m with st := fun k => match m.st k with
                      | .unknown e => if e < m.epoch then .absent else .unknown e
                      | x => x }
    | _ => some m

/-! ## C07, "removed ⇒ cancelled", in the form that is proved for every model trace (`C07c_obs`)

The product of `monC07a` (which run belongs to which key) and `monC06o` (what is known about the key
set), with one more check: when no call is in progress and the key of a run is known to be out of the
set (removed at once, or removed with a delay and the delay has expired by a quiescence point), or the
context is known to be cleared, a probe of the run's context answers "cancelled". And: no call is still in
progress at a quiescence point (a call that blocks — e.g. on the mutex held by an exit callback — never
returns). -/

structure M7c where
  a : M7a := {}
  o : M6o := {}

/-- the probe shows a live context although the routine's key is known to be gone -/
def M7c.probeBad (m : M7c) : Obs → Bool
  | .probe j c =>
    match m.a.runs[j]? with
    | some (k, _, _) => m.o.pending.isEmpty && (m.o.st k == .absent || m.o.hasCtx == some false) && !c
    | none => false
  -- every call returns: none is in progress at a quiescence point
  | .quiesce => !m.o.pending.isEmpty
  | _ => false

def monC07c : ObsMonitor Obs M7c where
  init := {}
  step := fun m ob =>
    if m.probeBad ob then none
    else
      match monC07a.step m.a ob, monC06o.step m.o ob with
      | some a, some o => some { a := a, o := o }
      | _, _ => none

/-! ## C07, "one running per key, across `ResetRoutine`/`RestartRoutine`", in the form that is proved for
every model trace (`C07b_obs`)

The product of `monC07a` and `monC06o` with a flag per run: "this run belongs to the generation of the
record now stored under its key". The flag is set (when the routine function is entered, or later) while no call is in
progress, the key is known to be in the set and the run's constructor generation is the current one
(`cur`); it stays as long as the key is known to have stayed in the set (a new generation starts only when
the key was not in the set — `ResetRoutine`, `RestartRoutine`, `SetKey`, `SetContext`, retries keep it).
A routine function must not be entered for the current record of a key while a flagged run of that key is
still inside its function. -/

structure M7b where
  a : M7a := {}
  o : M6o := {}
  fl : List Bool := []

/-- no call is in progress, `k` is in the set and `d` is the constructor generation of its record -/
def M6o.cur (o : M6o) (k d : Nat) : Bool :=
  o.pending.isEmpty && o.st k == .present && o.cnt k == some d

/-- a flagged run of `k` is inside its routine function -/
def M7b.clash (m : M7b) (k : Nat) : Bool :=
  (List.range m.a.runs.length).any fun j =>
    match m.a.runs[j]?, m.fl[j]? with
    | some (k', _, true), some true => k' == k
    | _, _ => false

def M7b.bad (m : M7b) : Obs → Bool
  | .cbin _ k d => m.o.cur k d && m.clash k
  | _ => false

/-- the flags with the (not yet set) flag of a run that is entered -/
def M7b.ext (m : M7b) : Obs → List Bool
  | .cbin _ _ _ => m.fl ++ [false]
  | _ => m.fl

/-- a flag survives while the key is known to be in the set; it is set (at the entry or later) when no
call is in progress, the key is known to be in the set and the run's constructor generation is that of
the key's record -/
def flagsUpd (a : M7a) (o : M6o) (fl : List Bool) : List Bool :=
  List.zipWith (fun (r : Nat × Nat × Bool) (f : Bool) => (f && (o.st r.1 == .present)) || o.cur r.1 r.2.1) a.runs fl

def monC07b : ObsMonitor Obs M7b where
  init := {}
  step := fun m ob =>
    if m.bad ob then none
    else
      match monC07a.step m.a ob, monC06o.step m.o ob with
      | some a, some o => some { a := a, o := o, fl := flagsUpd a o (m.ext ob) }
      | _, _ => none

end UtilModel.Keyed
