import UtilModel.Keyed.ObsSpec7
/-!
# keyed — model invariants used by the observable form of C06
-/
namespace UtilModel.Keyed
open UtilModel

/-- events that are neither part of a call nor `config` leave configuration, calls and references alone -/
def Ev.isCallEv : Ev → Bool
  | .config _ | .inv _ _ | .exec _ | .ctor _ _ | .ret _ _ => true
  | _ => false

theorem step_frame (s s' : St) (e : Ev) (hs : step s e = some s') (he : e.isCallEv = false) :
    s'.cfg = s.cfg ∧ s'.calls = s.calls ∧ s'.refs = s.refs := by
  cases e with
  | config c => simp [Ev.isCallEv] at he
  | inv id op => simp [Ev.isCallEv] at he
  | exec id => simp [Ev.isCallEv] at he
  | ctor k d => simp [Ev.isCallEv] at he
  | ret id res => simp [Ev.isCallEv] at he
  | proceed g i =>
    have := instStep_abs s s' g i _ hs
    exact ⟨instStep_cfg s s' g i _ hs, this.2.2.2.1, this.2.2.1⟩
  | bail g i =>
    have := instStep_abs s s' g i _ hs
    exact ⟨instStep_cfg s s' g i _ hs, this.2.2.2.1, this.2.2.1⟩
  | cbin j g i k d =>
    simp only [step] at hs
    split at hs
    · split at hs
      · simp at hs
      · split at hs
        · simp at hs
        · split at hs
          · simp at hs; subst hs; exact ⟨rfl, rfl, rfl⟩
          · simp at hs
    · simp at hs
  | cbout j o =>
    simp only [step] at hs
    split at hs
    · simp at hs
    · have := instStep_abs s s' _ _ _ hs
      exact ⟨instStep_cfg s s' _ _ _ hs, this.2.2.2.1, this.2.2.1⟩
  | closeExit g i =>
    have := instStep_abs s s' g i _ hs
    exact ⟨instStep_cfg s s' g i _ hs, this.2.2.2.1, this.2.2.1⟩
  | record g i =>
    simp only [step] at hs
    split at hs
    · simp at hs
    · split at hs
      · simp at hs
      · split at hs
        · simp at hs; subst hs
          have T := touch_recordInst s g i ‹Inst› ‹G›.key
          exact ⟨T.frame.cfg, T.frame.call, T.frame.refs⟩
        · simp at hs
  | timerRemove k =>
    simp only [step] at hs
    split at hs
    · rename_i r hr
      split at hs
      · simp at hs; subst hs
        have F := (frame_cancelOpt s r.gen r.cancelOf).trans (frame_setRec _ k none)
        exact ⟨F.cfg, F.call, F.refs⟩
      · simp at hs
    · simp at hs
  | timerRetry k =>
    simp only [step] at hs
    split at hs
    · rename_i r hr
      split at hs
      · simp at hs; subst hs
        have T1 : Touch k s (setRec s k (some { r with deferRetry := none })) := touch_setRec k s r _ hr rfl rfl
        split
        · have T := T1.trans (touch_startKey _ k true)
          exact ⟨T.frame.cfg, T.frame.call, T.frame.refs⟩
        · exact ⟨T1.frame.cfg, T1.frame.call, T1.frame.refs⟩
      · simp at hs
    · simp at hs
  | advance =>
    simp only [step] at hs
    split at hs
    · simp at hs; subst hs; exact ⟨rfl, rfl, rfl⟩
    · simp at hs
  | quiesce =>
    simp only [step] at hs
    split at hs
    · simp at hs; subst hs; exact ⟨rfl, rfl, rfl⟩
    · simp at hs
  | boff k b =>
    simp only [step] at hs
    split at hs
    · simp at hs; subst hs; exact ⟨rfl, rfl, rfl⟩
    · simp at hs
  | probe j c =>
    simp only [step] at hs
    split at hs
    · simp at hs
    · split at hs
      · split at hs
        · simp at hs; subst hs; exact ⟨rfl, rfl, rfl⟩
        · simp at hs
      · simp at hs
  | nilnext k =>
    simp only [step] at hs
    split at hs
    · simp at hs; subst hs; exact ⟨rfl, rfl, rfl⟩
    · simp at hs
  | cancelroot =>
    simp only [step] at hs
    split at hs
    · simp at hs; subst hs
      exact ⟨(sameBut_cancelAll _).cfg, (sameBut_cancelAll _).calls, (sameBut_cancelAll _).refs⟩
    · simp at hs

/-- calls that are not part of the `KeyedRefCount` reference API do not touch the reference table -/
theorem refs_execOp (s : St) (op : Op) (h : op.allowed false = true) : (execOp s op).1.refs = s.refs := by
  cases op with
  | setKey k st => simp only [execOp]; rw [setKey_eq_syncS]; exact (tstep_syncS st s k).refs
  | removeKey k => exact (tstep_removeKey s k).refs
  | syncKeys ks restart =>
    simp only [execOp, syncKeys]
    rw [foldl_fst (syncOne restart) (syncS restart) (syncOne_fst restart)]
    exact ((foldl_tstep _ (tstep_syncS restart) _ _).trans (foldl_tstep _ (tstep_removeAbsent ks) _ _)).refs
  | getKey k => simp only [execOp]; split <;> rfl
  | getKeys => rfl
  | getKeysWithData => rfl
  | resetRoutine k cs =>
    simp only [execOp]
    split
    · exact (tstep_resetKey s k).refs
    · exact rfl
  | restartRoutine k cs =>
    simp only [execOp]
    split
    · exact (touch_restartKey s k).frame.refs
    · exact rfl
  | resetAll cs =>
    simp only [execOp]
    rw [foldl_fst resetAllStep (fun s k => (resetKey s k).1) (fun _ _ => rfl)]
    exact (foldl_tstep _ tstep_resetKey _ _).refs
  | restartAll cs =>
    simp only [execOp]
    rw [foldl_fst restartAllStep (fun s k => (restartKey s k).1) (fun _ _ => rfl)]
    exact (foldl_tstep _ (fun s k => (touch_restartKey s k).quiet.tstep) _ _).refs
  | setContext c restart =>
    simp only [execOp, setContext]
    split
    · rfl
    · exact (foldl_tstep (setCtxOne (s.ctx == c) restart) (fun s k => (touch_setCtxOne _ restart s k).quiet.tstep)
        (keyList s) { s with ctx := c }).refs
  | addKeyRef k => simp [Op.allowed] at h
  | release r => simp [Op.allowed] at h
  | rcRemoveKey k => simp [Op.allowed] at h

theorem rcOk_noRefs (s : St) (h : s.refs = []) : RcOk (abs s) := by
  intro k hk
  simp [liveCount, abs, h] at hk

theorem takeCtor_ids (cs cs' : List Call) (k d : Nat) (h : takeCtor cs k d = some cs') :
    cs'.map Call.id = cs.map Call.id := by
  induction cs generalizing cs' with
  | nil => simp [takeCtor] at h
  | cons c cs ih =>
    cases c with
    | invoked id' op' =>
      simp only [takeCtor, Option.map_eq_some_iff] at h
      obtain ⟨r, hr, rfl⟩ := h
      simp [ih r hr]
    | done id' q res =>
      simp only [takeCtor] at h
      split at h
      · simp at h; subst h; simp [Call.id]
      · simp only [Option.map_eq_some_iff] at h
        obtain ⟨r, hr, rfl⟩ := h
        simp [ih r hr]

structure G6 (s : St) : Prop where
  r : RInv s
  c : CInv s
  si : SpecInv (abs s)
  rc : RcOk (abs s)
  plain : ∀ c, s.cfg = some c → c.rc = false → s.refs = []
  cfgc : s.cfg = none → s.calls = [] ∧ s.refs = []
  ids : (s.calls.map Call.id).Nodup

end UtilModel.Keyed
