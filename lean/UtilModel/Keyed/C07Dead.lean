import UtilModel.Keyed.C07Own4
/-!
# keyed — instances are only ever added to a generation whose record is in the map (C07: nothing is
started again for a removed key)
-/
namespace UtilModel.Keyed
open UtilModel

/-- generation `g` has a record in the map -/
def Alive (s : St) (g : Nat) : Prop := ∃ k r, s.key k = some r ∧ r.gen = g

structure Grow (s s' : St) : Prop where
  len : s.gens.length ≤ s'.gens.length
  /-- generations keep their key; they get new instances only while their record is in the map -/
  gens : ∀ (g : Nat) (y : G), s.gens[g]? = some y →
    ∃ y', s'.gens[g]? = some y' ∧ y'.key = y.key ∧ (y'.insts.length = y.insts.length ∨ Alive s g)
  /-- a generation with a record in the map had one before, or is new -/
  alive : ∀ g, Alive s' g → Alive s g ∨ s.gens.length ≤ g

theorem Grow.refl (s : St) : Grow s s :=
  ⟨Nat.le_refl _, fun g y hy => ⟨y, hy, rfl, Or.inl rfl⟩, fun g h => Or.inl h⟩

theorem lt_of_get? {α : Type} {l : List α} {i : Nat} {x : α} (h : l[i]? = some x) : i < l.length := by
  rcases Nat.lt_or_ge i l.length with h' | h'
  · exact h'
  · simp [List.getElem?_eq_none h'] at h

theorem Grow.trans {a b c : St} (h1 : Grow a b) (h2 : Grow b c) : Grow a c := by
  refine ⟨Nat.le_trans h1.len h2.len, ?_, ?_⟩
  · intro g y hy
    obtain ⟨y1, hy1, hk1, hl1⟩ := h1.gens g y hy
    obtain ⟨y2, hy2, hk2, hl2⟩ := h2.gens g y1 hy1
    refine ⟨y2, hy2, hk2.trans hk1, ?_⟩
    rcases hl2 with hl2 | hl2
    · rcases hl1 with hl1 | hl1
      · exact Or.inl (hl2.trans hl1)
      · exact Or.inr hl1
    · rcases h1.alive g hl2 with ha | ha
      · exact Or.inr ha
      · exact absurd (lt_of_get? hy) (Nat.not_lt.2 ha)
  · intro g hg
    rcases h2.alive g hg with hb | hb
    · exact h1.alive g hb
    · exact Or.inr (Nat.le_trans h1.len hb)

theorem foldl_grow (f : St → Nat → St) (hf : ∀ s k, Grow s (f s k)) (L : List Nat) (s : St) :
    Grow s (L.foldl f s) := by
  induction L generalizing s with
  | nil => exact Grow.refl s
  | cons k L ih => exact (hf s k).trans (ih (f s k))

/-- same generations, and every record in the map keeps the generation stored under its key -/
theorem grow_same (s s' : St) (hg : s'.gens = s.gens)
    (hk : ∀ k r', s'.key k = some r' → ∃ r, s.key k = some r ∧ r.gen = r'.gen) : Grow s s' := by
  refine ⟨by rw [hg]; exact Nat.le_refl _, fun g y hy => ⟨y, by rw [hg]; exact hy, rfl, Or.inl rfl⟩, ?_⟩
  rintro g ⟨k, r', hr', hgen⟩
  obtain ⟨r, hr, hrg⟩ := hk k r' hr'
  exact Or.inl ⟨k, r, hr, hrg.trans hgen⟩

theorem grow_modG (s : St) (g : Nat) (f : G → G)
    (hf : ∀ y, s.gens[g]? = some y → (f y).key = y.key ∧ ((f y).insts.length = y.insts.length ∨ Alive s g)) :
    Grow s (modG s g f) := by
  refine ⟨by simp [modG], ?_, ?_⟩
  · intro g' y hy
    by_cases hg : g = g'
    · subst hg
      exact ⟨f y, by simp [gens_modG, hy], (hf y hy).1, (hf y hy).2⟩
    · exact ⟨y, by simp [gens_modG, hy, hg], rfl, Or.inl rfl⟩
  · rintro g' ⟨k, r, hr, hg'⟩
    exact Or.inl ⟨k, r, by simpa using hr, hg'⟩

theorem grow_cancelOpt (s : St) (g : Nat) (o : Option Nat) : Grow s (cancelOpt s g o) := by
  cases o with
  | none => exact Grow.refl s
  | some i => exact grow_modG s g _ (fun y _ => ⟨rfl, Or.inl (by simp)⟩)

theorem grow_setRec (s : St) (k : Nat) (r r' : Rec) (hk : s.key k = some r) (hg : r'.gen = r.gen) :
    Grow s (setRec s k (some r')) := by
  refine grow_same s (setRec s k (some r')) rfl ?_
  intro k' r'' hr
  by_cases hkk : k' = k
  · subst hkk; simp at hr; subst hr; exact ⟨r, hk, hg.symm⟩
  · simp [hkk] at hr; exact ⟨r'', hr, rfl⟩

theorem grow_delRec (s : St) (k : Nat) : Grow s (setRec s k none) := by
  refine grow_same s (setRec s k none) rfl ?_
  intro k' r'' hr
  by_cases hkk : k' = k
  · subst hkk; simp at hr
  · simp [hkk] at hr; exact ⟨r'', hr, rfl⟩

theorem grow_start (s : St) (k : Nat) (r : Rec) (force : Bool) (hk : s.key k = some r) :
    Grow s (start s k r force) := by
  unfold start
  split
  · exact Grow.refl s
  · split
    · exact Grow.refl s
    · have h1 := grow_cancelOpt s r.gen r.cancelOf
      have hk1 : (cancelOpt s r.gen r.cancelOf).key k = some r := by simpa using hk
      simp only []
      generalize cancelOpt s r.gen r.cancelOf = s1 at h1 hk1
      cases hy : s1.gens[r.gen]? with
      | none => exact h1
      | some y =>
        simp only []
        have h2 : Grow s1 (modG s1 r.gen fun x =>
            { x with insts := x.insts ++ [{ rid := r.id, data := r.data, waitOn := x.last, cancelled := s.ctx == some 0 }], last := some y.insts.length }) :=
          grow_modG s1 r.gen _ (fun y' _ => ⟨rfl, Or.inr ⟨k, r, hk1, rfl⟩⟩)
        have h3 := grow_setRec (modG s1 r.gen fun x =>
            { x with insts := x.insts ++ [{ rid := r.id, data := r.data, waitOn := x.last, cancelled := s.ctx == some 0 }], last := some y.insts.length })
          k r { r with deferRetry := none, err := false, success := false, exited := false,
                       cur := some y.insts.length, cancelOf := some y.insts.length } (by simpa using hk1) rfl
        exact h1.trans (h2.trans h3)

theorem grow_startKey (s : St) (k : Nat) (force : Bool) : Grow s (startKey s k force) := by
  unfold startKey
  split
  · rename_i hk; exact grow_start s k _ force hk
  · exact Grow.refl s

theorem grow_createKey (s : St) (k : Nat) : Grow s (createKey s k) := by
  have hgens : (createKey s k).gens = s.gens ++ [{ key := k }] := rfl
  refine ⟨by rw [hgens]; simp, ?_, ?_⟩
  · intro g y hy
    exact ⟨y, by rw [hgens]; exact getElem?_append_one _ _ _ _ hy, rfl, Or.inl rfl⟩
  · rintro g ⟨k', r, hr, hg⟩
    rw [key_createKey] at hr
    by_cases hkk : k' = k
    · simp [hkk] at hr; subst hr; right; simp at hg; omega
    · simp [hkk] at hr; exact Or.inl ⟨k', r, hr, hg⟩

theorem grow_newRec (s : St) (k : Nat) (r : Rec) (hk : s.key k = some r) : Grow s (newRec s k r.gen) := by
  refine grow_same s (newRec s k r.gen) rfl ?_
  intro k' r' hr
  rw [key_newRec] at hr
  by_cases hkk : k' = k
  · simp [hkk] at hr; subst hr; exact ⟨r, hkk ▸ hk, rfl⟩
  · simp [hkk] at hr; exact ⟨r', hr, rfl⟩

theorem grow_removeNow (s : St) (k : Nat) (r : Rec) : Grow s (removeNow s k r) :=
  (grow_cancelOpt s r.gen r.cancelOf).trans (grow_delRec _ k)

theorem grow_removeKey (s : St) (k : Nat) : Grow s (removeKey s k).1 := by
  unfold removeKey
  cases hk : s.key k with
  | none => exact Grow.refl s
  | some r =>
    simp only [remove]
    split
    · exact Grow.refl s
    · split
      · exact grow_removeNow s k r
      · exact grow_setRec s k r _ hk rfl

theorem grow_syncS (restart : Bool) (s : St) (k : Nat) : Grow s (syncS restart s k) := by
  unfold syncS syncOne
  simp only []
  cases hk : s.key k with
  | none => exact (grow_createKey s k).trans (grow_startKey _ k false)
  | some r =>
    simp only []
    have h1 := grow_setRec s k r { r with deferRemove := none } hk rfl
    split
    · exact h1.trans (grow_startKey _ k false)
    · exact h1

theorem grow_removeAbsent (ks : List Nat) (s : St) (k : Nat) : Grow s (removeAbsent ks s k) := by
  unfold removeAbsent
  split
  · exact Grow.refl s
  · exact grow_removeKey s k

theorem grow_setCtxOne (same restart : Bool) (s : St) (k : Nat) : Grow s (setCtxOne same restart s k) := by
  unfold setCtxOne
  cases hk : s.key k with
  | none => exact Grow.refl s
  | some r =>
    simp only []
    split
    · exact Grow.refl s
    · have h1 : Grow s (setRec (cancelOpt s r.gen r.cancelOf) k (some { r with cur := none, cancelOf := none })) :=
        (grow_cancelOpt s r.gen r.cancelOf).trans (grow_setRec _ k r _ (by simpa using hk) rfl)
      split
      · exact h1.trans (grow_startKey _ k false)
      · exact h1

theorem grow_resetKey (s : St) (k : Nat) : Grow s (resetKey s k).1 := by
  unfold resetKey
  cases hk : s.key k with
  | none => exact Grow.refl s
  | some r =>
    simp only []
    have h1 := grow_cancelOpt s r.gen r.cancelOf
    have h2 := grow_newRec (cancelOpt s r.gen r.cancelOf) k r (by simpa using hk)
    have h3 := grow_startKey (newRec (cancelOpt s r.gen r.cancelOf) k r.gen) k false
    exact (h1.trans h2).trans h3

theorem grow_restartKey (s : St) (k : Nat) : Grow s (restartKey s k).1 := by
  unfold restartKey
  cases hk : s.key k with
  | none => exact Grow.refl s
  | some r =>
    cases hc : s.ctx with
    | none => exact Grow.refl s
    | some c =>
      simp only []
      have h1 := grow_cancelOpt s r.gen r.cancelOf
      have h2 := grow_setRec (cancelOpt s r.gen r.cancelOf) k r { r with cancelOf := none } (by simpa using hk) rfl
      exact (h1.trans h2).trans (grow_startKey _ k true)

theorem grow_congr {s s' : St} (hk : s'.keys = s.keys) (hg : s'.gens = s.gens) : Grow s s' :=
  grow_same s s' hg (fun k r' hr => ⟨r', by simpa [St.key, hk] using hr, rfl⟩)

theorem grow_execOp (s : St) (op : Op) : Grow s (execOp s op).1 := by
  cases op with
  | setKey k st => simp only [execOp]; rw [setKey_eq_syncS]; exact grow_syncS st s k
  | removeKey k => exact grow_removeKey s k
  | syncKeys ks restart =>
    simp only [execOp, syncKeys]
    rw [foldl_fst (syncOne restart) (syncS restart) (syncOne_fst restart)]
    exact (foldl_grow _ (grow_syncS restart) _ _).trans (foldl_grow _ (grow_removeAbsent ks) _ _)
  | getKey k => simp only [execOp]; split <;> exact Grow.refl s
  | getKeys => exact Grow.refl s
  | getKeysWithData => exact Grow.refl s
  | resetRoutine k cs =>
    simp only [execOp]
    split
    · exact grow_resetKey s k
    · exact Grow.refl s
  | restartRoutine k cs =>
    simp only [execOp]
    split
    · exact grow_restartKey s k
    · exact Grow.refl s
  | resetAll cs =>
    simp only [execOp]
    rw [foldl_fst resetAllStep (fun s k => (resetKey s k).1) (fun _ _ => rfl)]
    exact foldl_grow _ grow_resetKey _ _
  | restartAll cs =>
    simp only [execOp]
    rw [foldl_fst restartAllStep (fun s k => (restartKey s k).1) (fun _ _ => rfl)]
    exact foldl_grow _ grow_restartKey _ _
  | setContext c restart =>
    simp only [execOp, setContext]
    split
    · exact Grow.refl s
    · exact (grow_congr (s := s) (s' := { s with ctx := c }) rfl rfl).trans
        (foldl_grow _ (grow_setCtxOne _ restart) _ _)
  | addKeyRef k =>
    simp only [execOp, addKeyRef]
    have := grow_syncS true s k
    rw [← setKey_eq_syncS] at this
    exact this.trans (grow_congr rfl rfl)
  | release r =>
    simp only [execOp, release]
    split
    · exact Grow.refl s
    · split
      · exact Grow.refl s
      · split
        · rename_i x _ _ _
          have h1 : Grow s { s with refs := s.refs.set r { x with rel := true, listed := false } } :=
            grow_congr rfl rfl
          exact h1.trans (grow_removeKey _ x.key)
        · exact grow_congr (s := s) rfl rfl
  | rcRemoveKey k =>
    simp only [execOp, rcRemoveKey]
    have h1 : Grow s { s with refs := s.refs.map fun x =>
        if x.key == k && x.listed then { x with rel := true, listed := false } else x } := grow_congr rfl rfl
    exact h1.trans (grow_removeKey _ k)

end UtilModel.Keyed
