import UtilModel.Keyed.ChainProj
import UtilModel.Keyed.Proofs
/-!
# keyed — the structural invariant behind C07: every generation is a hand-over chain
-/
namespace UtilModel.Keyed
open UtilModel

/-- every generation satisfies the chain invariant -/
abbrev CI (s : St) : Prop := ∀ (g : Nat) (y : G), s.gens[g]? = some y → Chain.Inv (proj y)

structure KInv (s : St) : Prop where
  chain : CI s
  /-- the record stored for a key belongs to a generation of that key -/
  genKey : ∀ k r, s.key k = some r → ∃ y, s.gens[r.gen]? = some y ∧ y.key = k
  /-- `r.exitedCh` is the channel of the current instance until its exit is recorded -/
  curLast : ∀ k r i y, s.key k = some r → r.cur = some i → r.exited = false →
    s.gens[r.gen]? = some y → y.last = some i
  /-- `r.exited` is set only by the exit bookkeeping of the current instance -/
  curExited : ∀ k r i y, s.key k = some r → r.cur = some i → r.exited = true →
    s.gens[r.gen]? = some y → ∃ x, y.insts[i]? = some x ∧ x.st = .recorded
  /-- only a record with a routine is ever started -/
  exFn : ∀ k r, s.key k = some r → (r.cur.isSome = true ∨ r.exited = true) → r.hasFn = true

@[simp] theorem gens_setRec (s : St) (k : Nat) (v : Option Rec) : (setRec s k v).gens = s.gens := rfl

theorem gens_modG (s : St) (g : Nat) (f : G → G) (g' : Nat) :
    (modG s g f).gens[g']? = (s.gens[g']?).map fun y => if g = g' then f y else y := by
  simp only [modG, List.getElem?_modify]
  cases s.gens[g']? <;> simp

theorem ci_modG (s : St) (g : Nat) (f : G → G) (h : CI s)
    (hf : ∀ y, s.gens[g]? = some y → Chain.Inv (proj (f y))) : CI (modG s g f) := by
  intro g' y' hy'
  rw [gens_modG] at hy'
  cases hy : s.gens[g']? with
  | none => simp [hy] at hy'
  | some y =>
    simp [hy] at hy'
    by_cases hg : g = g'
    · subst hg; simp at hy'; subst hy'; exact hf y hy
    · simp [hg] at hy'; subst hy'; exact h g' y hy

/-- a modification of generation `g` that keeps its key and `last` and no `recorded` state -/
structure GSame (s : St) (g : Nat) (f : G → G) : Prop where
  key : ∀ y, s.gens[g]? = some y → (f y).key = y.key
  last : ∀ y, s.gens[g]? = some y → (f y).last = y.last
  st : ∀ (y : G) (i : Nat) (x : Inst), s.gens[g]? = some y → y.insts[i]? = some x → x.st = .recorded →
    ∃ x', (f y).insts[i]? = some x' ∧ x'.st = .recorded

theorem kinv_modG (s : St) (g : Nat) (f : G → G) (h : KInv s) (hs : GSame s g f)
    (hf : ∀ y, s.gens[g]? = some y → Chain.Inv (proj (f y))) : KInv (modG s g f) := by
  refine ⟨ci_modG s g f h.chain hf, ?_, ?_, ?_, fun k r hk => h.exFn k r (by simpa using hk)⟩
  · intro k r hk
    obtain ⟨y, hy, hyk⟩ := h.genKey k r hk
    rw [gens_modG, hy]
    by_cases hg : g = r.gen
    · exact ⟨f y, by simp [hg], by rw [hs.key y (hg ▸ hy)]; exact hyk⟩
    · exact ⟨y, by simp [hg], hyk⟩
  · intro k r i y' hk hc he hy'
    rw [gens_modG] at hy'
    cases hy : s.gens[r.gen]? with
    | none => simp [hy] at hy'
    | some y =>
      simp [hy] at hy'
      have := h.curLast k r i y hk hc he hy
      by_cases hg : g = r.gen
      · simp [hg] at hy'; subst hy'; rw [hs.last y (hg ▸ hy)]; exact this
      · simp [hg] at hy'; subst hy'; exact this
  · intro k r i y' hk hc he hy'
    rw [gens_modG] at hy'
    cases hy : s.gens[r.gen]? with
    | none => simp [hy] at hy'
    | some y =>
      simp [hy] at hy'
      obtain ⟨x, hx, hxs⟩ := h.curExited k r i y hk hc he hy
      by_cases hg : g = r.gen
      · simp [hg] at hy'; subst hy'
        exact hs.st y i x (hg ▸ hy) hx hxs
      · simp [hg] at hy'; subst hy'; exact ⟨x, hx, hxs⟩

theorem gsame_cancel (s : St) (g i : Nat) :
    GSame s g fun y => { y with insts := y.insts.modify i fun x => { x with cancelled := true } } := by
  refine ⟨fun _ _ => rfl, fun _ _ => rfl, ?_⟩
  intro y j x _ hx hr
  simp only [List.getElem?_modify, hx]
  by_cases h : i = j
  · exact ⟨{ x with cancelled := true }, by simp [h], hr⟩
  · exact ⟨x, by simp [h], hr⟩

theorem kinv_cancelOpt (s : St) (g : Nat) (o : Option Nat) (h : KInv s) : KInv (cancelOpt s g o) := by
  cases o with
  | none => exact h
  | some i =>
    exact kinv_modG s g _ h (gsame_cancel s g i) (fun y hy => inv_cancel y i (h.chain g y hy))

/-- changing run-time fields of the record of `k` that the invariant does not read -/
theorem kinv_setRec (s : St) (k : Nat) (r r' : Rec) (h : KInv s) (hk : s.key k = some r)
    (hg : r'.gen = r.gen) (hc : (r'.cur = none ∧ r'.exited = r.exited) ∨ (r'.cur = r.cur ∧ r'.exited = r.exited))
    (hfn : r'.hasFn = r.hasFn := by rfl) :
    KInv (setRec s k (some r')) := by
  refine ⟨h.chain, ?_, ?_, ?_, ?_⟩
  rotate_left 3
  · intro k' r'' hk' hce
    by_cases hkk : k' = k
    · subst hkk; simp at hk'; subst hk'; rw [hfn]
      apply h.exFn k' r hk
      rcases hc with hc | hc
      · rcases hce with hce | hce
        · rw [hc.1] at hce; simp at hce
        · exact Or.inr (hc.2 ▸ hce)
      · rcases hce with hce | hce
        · exact Or.inl (hc.1 ▸ hce)
        · exact Or.inr (hc.2 ▸ hce)
    · simp [hkk] at hk'; exact h.exFn k' r'' hk' hce
  · intro k' r'' hk'
    by_cases hkk : k' = k
    · subst hkk; simp at hk'; subst hk'; rw [hg]; exact h.genKey k' r hk
    · simp [hkk] at hk'; exact h.genKey k' r'' hk'
  · intro k' r'' i y hk' hcur hex hy
    by_cases hkk : k' = k
    · subst hkk; simp at hk'; subst hk'
      rcases hc with hc | hc
      · rw [hc.1] at hcur; simp at hcur
      · rw [hg] at hy; exact h.curLast k' r i y hk (hc.1 ▸ hcur) (hc.2 ▸ hex) hy
    · simp [hkk] at hk'; exact h.curLast k' r'' i y hk' hcur hex hy
  · intro k' r'' i y hk' hcur hex hy
    by_cases hkk : k' = k
    · subst hkk; simp at hk'; subst hk'
      rcases hc with hc | hc
      · rw [hc.1] at hcur; simp at hcur
      · rw [hg] at hy; exact h.curExited k' r i y hk (hc.1 ▸ hcur) (hc.2 ▸ hex) hy
    · simp [hkk] at hk'; exact h.curExited k' r'' i y hk' hcur hex hy

theorem kinv_delRec (s : St) (k : Nat) (h : KInv s) : KInv (setRec s k none) := by
  refine ⟨h.chain, ?_, ?_, ?_, ?_⟩
  rotate_left 3
  · intro k' r hk'
    by_cases hkk : k' = k
    · subst hkk; simp at hk'
    · simp [hkk] at hk'; exact h.exFn k' r hk'
  · intro k' r hk'
    by_cases hkk : k' = k
    · subst hkk; simp at hk'
    · simp [hkk] at hk'; exact h.genKey k' r hk'
  · intro k' r i y hk'
    by_cases hkk : k' = k
    · subst hkk; simp at hk'
    · simp [hkk] at hk'; exact h.curLast k' r i y hk'
  · intro k' r i y hk'
    by_cases hkk : k' = k
    · subst hkk; simp at hk'
    · simp [hkk] at hk'; exact h.curExited k' r i y hk'

/-- two records in the map with the same generation are stored under the same key -/
theorem gen_inj (s : St) (h : KInv s) (k k' : Nat) (r r' : Rec) (hk : s.key k = some r)
    (hk' : s.key k' = some r') (hg : r.gen = r'.gen) : k = k' := by
  obtain ⟨y, hy, hyk⟩ := h.genKey k r hk
  obtain ⟨y', hy', hyk'⟩ := h.genKey k' r' hk'
  rw [hg] at hy
  rw [hy] at hy'
  simp at hy'; subst hy'
  rw [← hyk, ← hyk']

theorem kinv_start (s : St) (k : Nat) (r : Rec) (force : Bool) (h : KInv s) (hk : s.key k = some r) :
    KInv (start s k r force) := by
  unfold start
  split
  · exact h
  · split
    · exact h
    · have h1 := kinv_cancelOpt s r.gen r.cancelOf h
      have hk1 : (cancelOpt s r.gen r.cancelOf).key k = some r := by simpa using hk
      simp only []
      generalize cancelOpt s r.gen r.cancelOf = s1 at h1 hk1
      cases hy : s1.gens[r.gen]? with
      | none => exact h1
      | some y =>
        simp only []
        -- the new instance
        have hci : CI (modG s1 r.gen fun x =>
            { x with insts := x.insts ++ [{ rid := r.id, data := r.data, waitOn := x.last, cancelled := s.ctx == some 0 }], last := some y.insts.length }) := by
          apply ci_modG s1 r.gen _ h1.chain
          intro y' hy'
          rw [hy] at hy'; simp at hy'; subst hy'
          exact inv_spawnC y r.id r.data _ (h1.chain r.gen y hy)
        refine ⟨hci, ?_, ?_, ?_, ?_⟩
        rotate_left 3
        · intro k' r' hk' hce
          by_cases hkk : k' = k
          · subst hkk; simp at hk'; subst hk'
            rename_i hfn _
            have := hfn; simp at this; exact this.2
          · simp [hkk] at hk'; exact h1.exFn k' r' hk' hce
        · intro k' r' hk'
          by_cases hkk : k' = k
          · subst hkk; simp at hk'; subst hk'
            obtain ⟨y0, hy0, hyk⟩ := h1.genKey k' r hk1
            rw [hy] at hy0; simp at hy0; subst hy0
            exact ⟨{ y with insts := y.insts ++ [{ rid := r.id, data := r.data, waitOn := y.last, cancelled := s.ctx == some 0 }],
                            last := some y.insts.length }, by simp [gens_modG, hy], hyk⟩
          · simp [hkk] at hk'
            obtain ⟨y0, hy0, hyk⟩ := h1.genKey k' r' hk'
            have hne : r.gen ≠ r'.gen := fun e => hkk (gen_inj s1 h1 k' k r' r hk' hk1 e.symm)
            exact ⟨y0, by simp [gens_modG, hy0, hne], hyk⟩
        · intro k' r' i y' hk' hcur hex hy'
          by_cases hkk : k' = k
          · subst hkk; simp at hk'; subst hk'
            simp [gens_modG, hy] at hy'
            subst hy'
            simp at hcur ⊢
            exact hcur
          · simp [hkk] at hk'
            have hne : r.gen ≠ r'.gen := fun e => hkk (gen_inj s1 h1 k' k r' r hk' hk1 e.symm)
            simp [gens_modG, hne] at hy'
            exact h1.curLast k' r' i y' hk' hcur hex hy'
        · intro k' r' i y' hk' hcur hex hy'
          by_cases hkk : k' = k
          · subst hkk; simp at hk'; subst hk'
            simp at hex
          · simp [hkk] at hk'
            have hne : r.gen ≠ r'.gen := fun e => hkk (gen_inj s1 h1 k' k r' r hk' hk1 e.symm)
            simp [gens_modG, hne] at hy'
            exact h1.curExited k' r' i y' hk' hcur hex hy'

theorem kinv_startKey (s : St) (k : Nat) (force : Bool) (h : KInv s) : KInv (startKey s k force) := by
  unfold startKey
  split
  · rename_i hk; exact kinv_start s k _ force h hk
  · exact h

end UtilModel.Keyed
