import UtilModel.Keyed.ObsKeep
/-!
# keyed — the constructor generation (`data`) of an instance determines its key generation
-/
namespace UtilModel.Keyed
open UtilModel

def dataOf (y : G) : List Nat := y.insts.map (·.data)

structure DInv (s : St) : Prop where
  instLe : ∀ (g : Nat) (y : G) (d : Nat), s.gens[g]? = some y → d ∈ dataOf y → d ≤ s.ctors y.key
  recLe : ∀ k r, s.key k = some r → r.data ≤ s.ctors k
  /-- the generation of the record in the map is the latest generation of its key; older ones only have
  older data -/
  latest : ∀ (k : Nat) (r : Rec) (g' : Nat) (y' : G), s.key k = some r → s.gens[g']? = some y' → y'.key = k →
    g' ≠ r.gen → g' < r.gen ∧ ∀ d, d ∈ dataOf y' → d < r.data
  ordered : ∀ (g g' : Nat) (y y' : G) (d d' : Nat), g < g' → s.gens[g]? = some y → s.gens[g']? = some y' →
    y.key = y'.key → d ∈ dataOf y → d' ∈ dataOf y' → d < d'

/-- two instances of one key with the same data belong to the same generation -/
theorem same_gen (s : St) (h : DInv s) (g g' : Nat) (y y' : G) (i i' : Nat) (x x' : Inst)
    (hy : s.gens[g]? = some y) (hy' : s.gens[g']? = some y') (hx : y.insts[i]? = some x)
    (hx' : y'.insts[i']? = some x') (hk : y.key = y'.key) (hd : x.data = x'.data) : g = g' := by
  have m : x.data ∈ dataOf y := List.mem_map.2 ⟨x, List.mem_of_getElem? hx, rfl⟩
  have m' : x'.data ∈ dataOf y' := List.mem_map.2 ⟨x', List.mem_of_getElem? hx', rfl⟩
  rcases Nat.lt_trichotomy g g' with h1 | h1 | h1
  · have := h.ordered g g' y y' _ _ h1 hy hy' hk m m'; omega
  · exact h1
  · have := h.ordered g' g y' y _ _ h1 hy' hy hk.symm m' m; omega

/-- same keys, same constructor counts, and every generation keeps its key and data list -/
theorem dinv_same (s s' : St) (h : DInv s) (hk : ∀ k, s'.key k = s.key k) (hc : ∀ k, s'.ctors k = s.ctors k)
    (hg : ∀ (g : Nat) (y' : G), s'.gens[g]? = some y' → ∃ y, s.gens[g]? = some y ∧ y'.key = y.key ∧ dataOf y' = dataOf y) :
    DInv s' := by
  refine ⟨?_, ?_, ?_, ?_⟩
  · intro g y' d hy' hd
    obtain ⟨y, hy, h1, h2⟩ := hg g y' hy'
    rw [hc, h1]; exact h.instLe g y d hy (h2 ▸ hd)
  · intro k r hr; rw [hc]; exact h.recLe k r (hk k ▸ hr)
  · intro k r g' y' hr hy' hyk hne
    obtain ⟨y, hy, h1, h2⟩ := hg g' y' hy'
    have := h.latest k r g' y (hk k ▸ hr) hy (h1 ▸ hyk) hne
    exact ⟨this.1, fun d hd => this.2 d (h2 ▸ hd)⟩
  · intro g g' y1' y2' d d' hlt hy1 hy2 hkk hd hd'
    obtain ⟨y1, h1, k1, e1⟩ := hg g y1' hy1
    obtain ⟨y2, h2, k2, e2⟩ := hg g' y2' hy2
    exact h.ordered g g' y1 y2 d d' hlt h1 h2 (by rw [← k1, ← k2]; exact hkk) (e1 ▸ hd) (e2 ▸ hd')

theorem dinv_modG_same (s : St) (g : Nat) (f : G → G) (h : DInv s)
    (hf : ∀ y, (f y).key = y.key ∧ dataOf (f y) = dataOf y) : DInv (modG s g f) := by
  refine dinv_same s (modG s g f) h (fun _ => rfl) (fun _ => rfl) ?_
  intro g' y' hy'
  rw [gens_modG] at hy'
  cases hy : s.gens[g']? with
  | none => simp [hy] at hy'
  | some y =>
    simp [hy] at hy'
    by_cases hg : g = g'
    · simp [hg] at hy'; subst hy'; exact ⟨y, rfl, (hf y).1, (hf y).2⟩
    · simp [hg] at hy'; subst hy'; exact ⟨y, rfl, rfl, rfl⟩

theorem dataOf_modify (y : G) (i : Nat) (f : Inst → Inst) (hf : ∀ x, (f x).data = x.data) :
    dataOf { y with insts := y.insts.modify i f } = dataOf y := by
  simp only [dataOf]
  apply List.ext_getElem?
  intro j
  simp only [List.getElem?_map, List.getElem?_modify]
  cases y.insts[j]? with
  | none => rfl
  | some x => by_cases h : i = j <;> simp [h, hf]

theorem dinv_modInst (s : St) (g i : Nat) (f : Inst → Inst) (hf : ∀ x, (f x).data = x.data) (h : DInv s) :
    DInv (modInst s g i f) :=
  dinv_modG_same s g _ h (fun y => ⟨rfl, dataOf_modify y i f hf⟩)

theorem dinv_cancelOpt (s : St) (g : Nat) (o : Option Nat) (h : DInv s) : DInv (cancelOpt s g o) := by
  cases o with
  | none => exact h
  | some i => exact dinv_modInst s g i _ (fun _ => rfl) h

theorem dinv_congr {s s' : St} (hk : s'.keys = s.keys) (hc : s'.nctor = s.nctor) (hg : s'.gens = s.gens)
    (h : DInv s) : DInv s' :=
  dinv_same s s' h (fun k => by simp [St.key, hk]) (fun k => by simp [St.ctors, hc])
    (fun g y' hy' => ⟨y', by rw [← hg]; exact hy', rfl, rfl⟩)

/-- the record of `k` is replaced by one with the same generation and data -/
theorem dinv_setRec (s : St) (k : Nat) (r r' : Rec) (h : DInv s) (hk : s.key k = some r)
    (hg : r'.gen = r.gen) (hd : r'.data = r.data) : DInv (setRec s k (some r')) := by
  refine ⟨h.instLe, ?_, ?_, h.ordered⟩
  · intro k' r'' hr
    by_cases hkk : k' = k
    · subst hkk; simp at hr; subst hr; rw [hd]; exact h.recLe k' r hk
    · simp [hkk] at hr; exact h.recLe k' r'' hr
  · intro k' r'' g' y' hr hy' hyk hne
    by_cases hkk : k' = k
    · subst hkk; simp at hr; subst hr; rw [hg, hd]; exact h.latest k' r g' y' hk hy' hyk (hg ▸ hne)
    · simp [hkk] at hr; exact h.latest k' r'' g' y' hr hy' hyk hne

theorem dinv_delRec (s : St) (k : Nat) (h : DInv s) : DInv (setRec s k none) := by
  refine ⟨h.instLe, ?_, ?_, h.ordered⟩
  · intro k' r hr
    by_cases hkk : k' = k
    · subst hkk; simp at hr
    · simp [hkk] at hr; exact h.recLe k' r hr
  · intro k' r g' y' hr
    by_cases hkk : k' = k
    · subst hkk; simp at hr
    · simp [hkk] at hr; exact h.latest k' r g' y' hr

end UtilModel.Keyed
