import UtilModel.Keyed.C07Step
/-!
# keyed — who can still cancel an instance (C07: removal and ClearContext cancel)

`Own s`: an instance whose context is not cancelled is the one `r.ctxCancel` of the record stored
under its key refers to (and that record belongs to the instance's generation). Hence: when the key
is deleted or its record no longer belongs to the generation, all instances of the generation are
cancelled. `OwnC s` adds: such an instance exists only while a context is set.
-/
namespace UtilModel.Keyed
open UtilModel

def Own (s : St) : Prop :=
  ∀ (g : Nat) (y : G) (i : Nat) (x : Inst), s.gens[g]? = some y → y.insts[i]? = some x → x.cancelled = false →
    ∃ r, s.key y.key = some r ∧ r.gen = g ∧ r.cancelOf = some i

def OwnC (s : St) : Prop :=
  ∀ (g : Nat) (y : G) (i : Nat) (x : Inst), s.gens[g]? = some y → y.insts[i]? = some x → x.cancelled = false →
    isLive s.ctx = true

theorem own_congr {s s' : St} (hk : s'.keys = s.keys) (hg : s'.gens = s.gens) (h : Own s) : Own s' := by
  intro g y i x hy hx hc
  rw [hg] at hy
  obtain ⟨r, hr, h1, h2⟩ := h g y i x hy hx hc
  exact ⟨r, by simpa [St.key, hk] using hr, h1, h2⟩

theorem getInst_modInst (s : St) (g i : Nat) (f : Inst → Inst) (g' : Nat) (y' : G) (i' : Nat) (x' : Inst)
    (hy : (modInst s g i f).gens[g']? = some y') (hx : y'.insts[i']? = some x') :
    ∃ y x, s.gens[g']? = some y ∧ y.insts[i']? = some x ∧ y'.key = y.key ∧
      x' = if g = g' ∧ i = i' then f x else x := by
  simp only [modInst, gens_modG] at hy
  cases hy0 : s.gens[g']? with
  | none => simp [hy0] at hy
  | some y =>
    simp [hy0] at hy
    by_cases hg : g = g'
    · simp [hg] at hy; subst hy
      simp only [List.getElem?_modify] at hx
      cases hx0 : y.insts[i']? with
      | none => simp [hx0] at hx
      | some x =>
        simp [hx0] at hx
        refine ⟨y, x, rfl, hx0, rfl, ?_⟩
        by_cases hi : i = i' <;> simp [hg, hi] at hx ⊢ <;> exact hx.symm
    · simp [hg] at hy
      exact ⟨y, x', rfl, hy ▸ hx, by rw [hy], by simp [hg]⟩

/-- cancelling any instance keeps `Own` -/
theorem own_cancelOpt (s : St) (g : Nat) (o : Option Nat) (h : Own s) : Own (cancelOpt s g o) := by
  cases o with
  | none => exact h
  | some i =>
    intro g' y' i' x' hy hx hc
    obtain ⟨y, x, hy0, hx0, hkey, hx'⟩ := getInst_modInst s g i _ g' y' i' x' hy hx
    have hcx : x.cancelled = false := by
      rw [hx'] at hc; split at hc
      · simp at hc
      · exact hc
    obtain ⟨r, hr, h1, h2⟩ := h g' y i' x hy0 hx0 hcx
    exact ⟨r, by rw [hkey]; simpa using hr, h1, h2⟩

/-- after `r.ctxCancel()` no live instance refers to the record of `k` any more -/
theorem own_cancelled (s : St) (k : Nat) (r : Rec) (h : Own s) (hk : s.key k = some r)
    (g : Nat) (y : G) (i : Nat) (x : Inst)
    (hy : (cancelOpt s r.gen r.cancelOf).gens[g]? = some y) (hx : y.insts[i]? = some x)
    (hyk : y.key = k) : x.cancelled = true := by
  cases hco : r.cancelOf with
  | none =>
    rw [hco] at hy
    cases hc : x.cancelled with
    | true => rfl
    | false =>
      obtain ⟨r', hr', _, h2⟩ := h g y i x hy hx hc
      rw [hyk, hk] at hr'; simp at hr'; subst hr'
      rw [hco] at h2; cases h2
  | some j =>
    rw [hco] at hy
    obtain ⟨y0, x0, hy0, hx0, hkey, hx'⟩ := getInst_modInst s r.gen j _ g y i x hy hx
    cases hc : x0.cancelled with
    | true => rw [hx']; split <;> simp [hc]
    | false =>
      obtain ⟨r', hr', h1, h2⟩ := h g y0 i x0 hy0 hx0 hc
      rw [← hkey, hyk, hk] at hr'; simp at hr'; subst hr'
      rw [hco] at h2; simp at h2
      rw [hx']; simp [h1, h2]

end UtilModel.Keyed
