import UtilModel.Keyed.MonC07r
import UtilModel.Keyed.ObsC07b
/-!
# keyed — `C07r_obs`: the stages of an owed retry
-/
namespace UtilModel.Keyed
open UtilModel

/-- where the retry of `k` stands: the timer is armed (since an epoch ≤ `e0`) and has not fired, or it has
fired and the new instance has not entered its routine function yet -/
def Stage (s : St) (k e0 : Nat) : Prop :=
  ∃ r y, s.key k = some r ∧ r.deferRemove = none ∧ s.gens[r.gen]? = some y ∧
    ((r.exited = true ∧ (∃ e', r.deferRetry = some e' ∧ e' ≤ e0) ∧ y.last = none) ∨
     (∃ i x, r.cur = some i ∧ r.deferRetry = none ∧ r.exited = false ∧ y.insts[i]? = some x ∧
        x.cancelled = false ∧ (x.st = .entered ∨ (x.st = .waiting ∧ x.waitOn = none))))

structure OwedInv (s : St) (m : M7r) : Prop where
  live : m.owed ≠ [] → isLive s.ctx = true
  getters : m.owed ≠ [] → ∀ id op, Call.invoked id op ∈ s.calls → isGetter op = true
  stage : ∀ p, p ∈ m.owed → p.2 ≤ s.epoch ∧ Stage s p.1 p.2

/-- an owed retry from an earlier epoch is incompatible with quiescence -/
theorem stage_not_quiet (s : St) (k e0 : Nat) (h : Stage s k e0) (he : e0 < s.epoch) : quiet s = false := by
  obtain ⟨r, y, hk, _, hy, hst⟩ := h
  cases hq : quiet s with
  | false => rfl
  | true =>
    exfalso
    simp only [quiet, Bool.and_eq_true] at hq
    obtain ⟨⟨_, hnd⟩, hbusy⟩ := hq
    rcases hst with ⟨_, ⟨e', hd, hle⟩, _⟩ | ⟨i, x, _, _, _, hx, _, hxs⟩
    · have hkb : k < s.kbound := look_lt _ _ _ hk
      have := List.all_eq_true.1 hnd k (List.mem_range.2 hkb)
      simp only [hk, hd, dueOpt, Bool.and_eq_true, Bool.not_eq_true', decide_eq_false_iff_not] at this
      omega
    · have h1 := List.all_eq_true.1 hbusy y (List.mem_of_getElem? hy)
      have h2 := List.all_eq_true.1 h1 x (List.mem_of_getElem? hx)
      rcases hxs with hxs | ⟨hxs, hw⟩
      · simp [instBusy, hxs] at h2
      · simp [instBusy, hxs, hw, chClosed] at h2

/-- the stage only looks at the record of `k` and at its generation -/
theorem stage_same (s s' : St) (k e0 : Nat) (hk : s'.key k = s.key k)
    (hg : ∀ r, s.key k = some r → s'.gens[r.gen]? = s.gens[r.gen]?) (h : Stage s k e0) : Stage s' k e0 := by
  obtain ⟨r, y, hr, h1, hy, h2⟩ := h
  exact ⟨r, y, hk.trans hr, h1, (hg r hr).trans hy, h2⟩

theorem stage_congr (s s' : St) (k e0 : Nat) (hk : s'.keys = s.keys) (hg : s'.gens = s.gens) (h : Stage s k e0) :
    Stage s' k e0 :=
  stage_same s s' k e0 (by simp [St.key, hk]) (fun _ _ => by rw [hg]) h

theorem stage_mono (s : St) (k e0 e1 : Nat) (hle : e0 ≤ e1) (h : Stage s k e0) : Stage s k e1 := by
  obtain ⟨r, y, hr, h1, hy, h2⟩ := h
  refine ⟨r, y, hr, h1, hy, ?_⟩
  rcases h2 with ⟨a, ⟨e', hd, hl⟩, c⟩ | h3
  · exact Or.inl ⟨a, ⟨e', hd, Nat.le_trans hl hle⟩, c⟩
  · exact Or.inr h3

end UtilModel.Keyed

namespace UtilModel.Keyed
open UtilModel

/-- the condition on an instance in the "restarted, not yet entered" stage -/
def Fresh (x : Inst) : Prop := x.cancelled = false ∧ (x.st = .entered ∨ (x.st = .waiting ∧ x.waitOn = none))

/-- one instance changes; if it is the restarted instance of `k` it stays fresh -/
theorem stage_modInst (s : St) (g i : Nat) (f : Inst → Inst) (k e0 : Nat)
    (hf : ∀ y x, s.gens[g]? = some y → y.insts[i]? = some x → Fresh x → Fresh (f x))
    (h : Stage s k e0) : Stage (modInst s g i f) k e0 := by
  obtain ⟨r, y, hr, h1, hy, h2⟩ := h
  by_cases hg : g = r.gen
  · subst hg
    refine ⟨r, { y with insts := y.insts.modify i f }, hr, h1, by simp [modInst, gens_modG, hy], ?_⟩
    rcases h2 with h2 | ⟨i3, x, a, b, c, hx, hfr1, hfr2⟩
    · exact Or.inl h2
    · right
      by_cases hi : i = i3
      · subst hi
        have := hf y x hy hx ⟨hfr1, hfr2⟩
        exact ⟨i, f x, a, b, c, by simp [List.getElem?_modify, hx], this.1, this.2⟩
      · exact ⟨i3, x, a, b, c, by simp [List.getElem?_modify, hx, hi], hfr1, hfr2⟩
  · exact ⟨r, y, hr, h1, by simp [modInst, gens_modG, hy, hg], h2⟩

theorem stage_cancelOpt_other (s : St) (g : Nat) (o : Option Nat) (k e0 : Nat)
    (hg : ∀ r, s.key k = some r → g ≠ r.gen) (h : Stage s k e0) : Stage (cancelOpt s g o) k e0 := by
  cases o with
  | none => exact h
  | some j =>
    refine stage_same s _ k e0 (by simp) ?_ h
    intro r hr
    have := hg r hr
    simp only [cancelOpt, modInst, gens_modG]
    cases hy : s.gens[r.gen]? <;> simp [this]

/-- an instance step (`proceed`, `bail`, `cbout`, `closeExit`) -/
theorem stage_instStep (s s' : St) (g i : Nat) (f : G → Inst → Option Inst) (k e0 : Nat)
    (hf : ∀ y x x', f y x = some x' → Fresh x → Fresh x')
    (hs : instStep s g i f = some s') (h : Stage s k e0) : Stage s' k e0 := by
  obtain ⟨y, x, x', hy, hx, hfx, rfl⟩ := instStep_some _ _ _ _ _ hs
  refine stage_modInst s g i _ k e0 ?_ h
  intro y0 x0 hy0 hx0 hfr
  rw [hy] at hy0; cases hy0
  rw [hx] at hx0; cases hx0
  exact hf y x x' hfx hfr

end UtilModel.Keyed
