import UtilModel.Keyed.ObsData
/-!
# keyed — the data/generation invariant holds in every reachable state
-/
namespace UtilModel.Keyed
open UtilModel

structure KD (s : St) : Prop where
  k : KInv s
  d : DInv s

theorem mem_dataOf_append (y : G) (x : Inst) (d : Nat) :
    d ∈ dataOf { y with insts := y.insts ++ [x], last := some y.insts.length } ↔ d ∈ dataOf y ∨ d = x.data := by
  simp [dataOf]

theorem dinv_start (s : St) (k : Nat) (r : Rec) (force : Bool) (hK : KInv s) (h : DInv s)
    (hk : s.key k = some r) : DInv (start s k r force) := by
  unfold start
  split
  · exact h
  · split
    · exact h
    · have h1 := dinv_cancelOpt s r.gen r.cancelOf h
      have hK1 := kinv_cancelOpt s r.gen r.cancelOf hK
      have hk1 : (cancelOpt s r.gen r.cancelOf).key k = some r := by simpa using hk
      simp only []
      generalize cancelOpt s r.gen r.cancelOf = s1 at h1 hK1 hk1
      cases hy : s1.gens[r.gen]? with
      | none => exact h1
      | some y =>
        simp only []
        obtain ⟨y0, hy0, hyk⟩ := hK1.genKey k r hk1
        rw [hy] at hy0; simp at hy0; subst hy0
        -- generations after the new instance was appended
        have hget : ∀ (g : Nat) (y' : G), (modG s1 r.gen fun x =>
            { x with insts := x.insts ++ [{ rid := r.id, data := r.data, waitOn := x.last, cancelled := s.ctx == some 0 }], last := some y.insts.length }).gens[g]? = some y' →
            (g ≠ r.gen ∧ s1.gens[g]? = some y') ∨
            (g = r.gen ∧ y'.key = k ∧ ∀ d, d ∈ dataOf y' ↔ (d ∈ dataOf y ∨ d = r.data)) := by
          intro g y' hy'
          rw [gens_modG] at hy'
          by_cases hg : r.gen = g
          · subst hg
            simp [hy] at hy'; subst hy'
            exact Or.inr ⟨rfl, hyk, fun d => by simp [dataOf]⟩
          · cases hy2 : s1.gens[g]? with
            | none => simp [hy2] at hy'
            | some y2 => simp [hy2, hg] at hy'; subst hy'; exact Or.inl ⟨fun e => hg e.symm, rfl⟩
        refine dinv_setRec (modG s1 r.gen fun x =>
            { x with insts := x.insts ++ [{ rid := r.id, data := r.data, waitOn := x.last, cancelled := s.ctx == some 0 }], last := some y.insts.length })
          k r { r with deferRetry := none, err := false, success := false, exited := false,
                       cur := some y.insts.length, cancelOf := some y.insts.length } ?_ (by simpa using hk1) rfl rfl
        refine ⟨?_, ?_, ?_, ?_⟩
        · intro g y' d hy' hd
          rcases hget g y' hy' with ⟨_, h2⟩ | ⟨_, hkk, hdd⟩
          · exact h1.instLe g y' d h2 hd
          · rw [hkk]
            rcases (hdd d).1 hd with h3 | h3
            · rw [← hyk]; exact h1.instLe r.gen y d hy h3
            · rw [h3]; exact h1.recLe k r hk1
        · intro k' r' hr; exact h1.recLe k' r' (by simpa using hr)
        · intro k' r' g' y' hr hy' hyk' hne
          have hr' : s1.key k' = some r' := by simpa using hr
          rcases hget g' y' hy' with ⟨_, h2⟩ | ⟨hg, hkk, _⟩
          · exact h1.latest k' r' g' y' hr' h2 hyk' hne
          · -- the generation that grew is the one of the record of `k`
            have : k' = k := by rw [← hyk', hkk]
            subst this
            rw [hk1] at hr'; simp at hr'; subst hr'
            exact absurd hg hne
        · intro g g' ya yb d d' hlt hya hyb hkk hd hd'
          rcases hget g ya hya with ⟨hga, h2a⟩ | ⟨hga, hka, hda⟩
          · rcases hget g' yb hyb with ⟨_, h2b⟩ | ⟨hgb, hkb, hdb⟩
            · exact h1.ordered g g' ya yb d d' hlt h2a h2b hkk hd hd'
            · rcases (hdb d').1 hd' with h3 | h3
              · exact h1.ordered g g' ya y d d' hlt h2a (hgb ▸ hy) (by rw [hkk, hkb, hyk]) hd h3
              · rw [h3]
                exact (h1.latest k r g ya hk1 h2a (by rw [hkk, hkb]) hga).2 d hd
          · -- nothing comes after the generation of the record in the map
            rcases hget g' yb hyb with ⟨hgb, h2b⟩ | ⟨hgb, _, _⟩
            · have := (h1.latest k r g' yb hk1 h2b (by rw [← hkk, hka]) hgb).1
              omega
            · omega

theorem kd_startKey (s : St) (k : Nat) (force : Bool) (h : KD s) : KD (startKey s k force) := by
  refine ⟨kinv_startKey s k force h.k, ?_⟩
  unfold startKey
  split
  · rename_i hk; exact dinv_start s k _ force h.k h.d hk
  · exact h.d

theorem ctors_le_createKey (s : St) (k k' : Nat) : s.ctors k' ≤ (createKey s k).ctors k' := by
  rw [ctors_createKey]; split
  · rename_i h; rw [h]; omega
  · omega

theorem dinv_createKey (s : St) (k : Nat) (h : DInv s) (hn : s.key k = none) : DInv (createKey s k) := by
  have hgens : (createKey s k).gens = s.gens ++ [{ key := k }] := rfl
  have hget : ∀ (g : Nat) (y : G), (createKey s k).gens[g]? = some y →
      (s.gens[g]? = some y) ∨ (g = s.gens.length ∧ y = { key := k }) := by
    intro g y hy
    rw [hgens] at hy
    rcases getElem?_snoc_cases _ _ _ _ hy with ⟨_, h1⟩ | ⟨h1, h2⟩
    · exact Or.inl h1
    · exact Or.inr ⟨h1, h2⟩
  refine ⟨?_, ?_, ?_, ?_⟩
  · intro g y d hy hd
    rcases hget g y hy with h1 | ⟨_, h2⟩
    · exact Nat.le_trans (h.instLe g y d h1 hd) (ctors_le_createKey s k y.key)
    · subst h2; simp [dataOf] at hd
  · intro k' r hr
    rw [key_createKey] at hr
    by_cases hkk : k' = k
    · subst hkk; simp at hr; subst hr; rw [ctors_createKey]; simp
    · simp [hkk] at hr; exact Nat.le_trans (h.recLe k' r hr) (ctors_le_createKey s k k')
  · intro k' r g' y' hr hy' hyk hne
    rw [key_createKey] at hr
    by_cases hkk : k' = k
    · subst hkk; simp at hr; subst hr
      rcases hget g' y' hy' with h1 | ⟨h2, _⟩
      · refine ⟨lt_of_get? h1, ?_⟩
        intro d hd
        have := h.instLe g' y' d h1 hd
        rw [hyk] at this
        simp only []; omega
      · exact absurd h2 hne
    · simp [hkk] at hr
      rcases hget g' y' hy' with h1 | ⟨_, h2⟩
      · exact h.latest k' r g' y' hr h1 hyk hne
      · subst h2; exact absurd hyk.symm hkk
  · intro g g' y y' d d' hlt hy hy' hkk hd hd'
    rcases hget g' y' hy' with h1' | ⟨_, h2⟩
    · rcases hget g y hy with h1 | ⟨h2, _⟩
      · exact h.ordered g g' y y' d d' hlt h1 h1' hkk hd hd'
      · have := lt_of_get? h1'; omega
    · subst h2; simp [dataOf] at hd'

theorem kd_createKey (s : St) (k : Nat) (h : KD s) (hn : s.key k = none) : KD (createKey s k) :=
  ⟨kinv_createKey s k h.k hn, dinv_createKey s k h.d hn⟩

theorem dinv_newRec (s : St) (k : Nat) (r : Rec) (h : DInv s) (hk : s.key k = some r) :
    DInv (newRec s k r.gen) := by
  have hle : ∀ k', s.ctors k' ≤ (newRec s k r.gen).ctors k' := by
    intro k'; rw [ctors_newRec]; split
    · rename_i h; rw [h]; omega
    · omega
  refine ⟨?_, ?_, ?_, h.ordered⟩
  · intro g y d hy hd
    exact Nat.le_trans (h.instLe g y d hy hd) (hle y.key)
  · intro k' r' hr
    rw [key_newRec] at hr
    by_cases hkk : k' = k
    · subst hkk; simp at hr; subst hr; rw [ctors_newRec]; simp
    · simp [hkk] at hr; exact Nat.le_trans (h.recLe k' r' hr) (hle k')
  · intro k' r' g' y' hr hy' hyk hne
    rw [key_newRec] at hr
    by_cases hkk : k' = k
    · subst hkk; simp at hr; subst hr
      have := h.latest k' r g' y' hk hy' hyk hne
      refine ⟨this.1, fun d hd => ?_⟩
      have h1 := this.2 d hd
      have h2 := h.recLe k' r hk
      simp only []; omega
    · simp [hkk] at hr; exact h.latest k' r' g' y' hr hy' hyk hne

end UtilModel.Keyed
