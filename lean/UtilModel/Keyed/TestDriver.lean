import UtilModel.Core.Driver
import UtilModel.Keyed.Model
import UtilModel.Keyed.Monitors
import UtilModel.Keyed.MonC07r
/-! Development driver for this component only: `lake env lean --run UtilModel/Keyed/TestDriver.lean keyed < hist` -/
open UtilModel

def main (args : List String) : IO UInt32 :=
  driverMain [
    mkEntry "keyed" Keyed.model Keyed.Obs.parse
      [MonEntry.ofMonitor "C06" Keyed.monC06, MonEntry.ofMonitor "C07" Keyed.monC07, MonEntry.ofMonitor "C07a" Keyed.monC07a, MonEntry.ofMonitor "C06o" Keyed.monC06o, MonEntry.ofMonitor "C07c" Keyed.monC07c, MonEntry.ofMonitor "C07b" Keyed.monC07b, MonEntry.ofMonitor "C07r" Keyed.monC07r] (cap := 3000)
  ] args
