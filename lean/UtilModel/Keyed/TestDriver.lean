import UtilModel.Core.Driver
import UtilModel.Keyed.Model
/-! Development driver for this component only: `lake env lean --run UtilModel/Keyed/TestDriver.lean keyed < hist` -/
open UtilModel

def main (args : List String) : IO UInt32 :=
  driverMain [
    mkEntry "keyed" Keyed.model Keyed.Obs.parse []
  ] args
