import UtilModel.Core.LTSHash
import UtilModel.Core.LTSComplete
import UtilModel.Keyed.Props
/-!
# keyed — end-to-end transfer and completeness of the candidate lists

`C06_accepted`, `C07a_accepted`, `C07b_accepted`, `C07c_accepted`: a history that the driver accepts
(observational trace inclusion, decided by `acceptsH`) is accepted by the property monitor — `acceptsH_sound`
composed with the `*_obs` simulation theorems. This is what is applied to every recorded history of the real
code.

`complete_keyed`: every enabled unobservable event of a state is in the candidate list the checker tries
(`exec` of every invoked call; `proceed`/`bail`/`closeExit`/`record` of every instance of every generation;
`timerRemove`/`timerRetry` of every key slot) and every enabled observable event is among the events tried
for its log line (for `cbin run`: every instance). Hence `reject_sound_keyed`: a REJECT that did not hit the
exploration bounds means that no run of the model projects to the history.
-/
namespace UtilModel.Keyed
open UtilModel

theorem C06_accepted (cap fuel : Nat) (h : List Obs) (ha : model.acceptsH cap fuel h = true) :
    monC06o.accepts h = true :=
  acceptedH_satisfies model (fun h => monC06o.accepts h = true) C06o_obs cap fuel h ha

theorem C07a_accepted (cap fuel : Nat) (h : List Obs) (ha : model.acceptsH cap fuel h = true) :
    monC07a.accepts h = true :=
  acceptedH_satisfies model (fun h => monC07a.accepts h = true) C07a_obs cap fuel h ha

theorem C07b_accepted (cap fuel : Nat) (h : List Obs) (ha : model.acceptsH cap fuel h = true) :
    monC07b.accepts h = true :=
  acceptedH_satisfies model (fun h => monC07b.accepts h = true) C07b_obs cap fuel h ha

theorem C07c_accepted (cap fuel : Nat) (h : List Obs) (ha : model.acceptsH cap fuel h = true) :
    monC07c.accepts h = true :=
  acceptedH_satisfies model (fun h => monC07c.accepts h = true) C07c_obs cap fuel h ha

theorem C07r_accepted (cap fuel : Nat) (h : List Obs) (ha : model.acceptsH cap fuel h = true) :
    monC07r.accepts h = true :=
  acceptedH_satisfies model (fun h => monC07r.accepts h = true) C07r_obs cap fuel h ha

/-! ## the candidate lists are complete -/

theorem mem_cands_exec (s : St) (id : Nat) (op : Op) (h : pendingOp s.calls id = some op) : Ev.exec id ∈ cands s := by
  simp only [cands, List.mem_append]
  left; left
  exact List.mem_filterMap.2 ⟨.invoked id op, pendingOp_mem s.calls id op h, rfl⟩

/-- the internal events of instance `(g, i)` are tried -/
theorem mem_cands_inst (s : St) (g i : Nat) (y : G) (x : Inst) (hy : s.gens[g]? = some y) (hx : y.insts[i]? = some x)
    (e : Ev) (he : e ∈ [Ev.proceed g i, .bail g i, .closeExit g i, .record g i]) : e ∈ cands s := by
  simp only [cands, List.mem_append]
  left; right
  refine List.mem_flatMap.2 ⟨g, List.mem_range.2 (lt_of_get? hy), ?_⟩
  simp only [hy]
  exact List.mem_flatMap.2 ⟨i, List.mem_range.2 (lt_of_get? hx), he⟩

theorem instStep_get (s s' : St) (g i : Nat) (f : G → Inst → Option Inst) (h : instStep s g i f = some s') :
    ∃ y x, s.gens[g]? = some y ∧ y.insts[i]? = some x := by
  unfold instStep at h
  split at h
  · simp at h
  · rename_i y hy
    split at h
    · simp at h
    · rename_i x hx; exact ⟨y, x, hy, hx⟩

theorem mem_cands_timer (s : St) (k : Nat) (r : Rec) (hk : s.key k = some r) (e : Ev)
    (he : e ∈ [Ev.timerRemove k, .timerRetry k]) : e ∈ cands s := by
  simp only [cands, List.mem_append]
  right
  exact List.mem_flatMap.2 ⟨k, List.mem_range.2 (look_lt _ _ _ hk), he⟩

theorem cands_complete (s s' : St) (e : Ev) (hs : step s e = some s') (ho : e.obs = none) : e ∈ cands s := by
  cases e with
  | exec id =>
    simp only [step] at hs
    split at hs
    · rename_i op hp; exact mem_cands_exec s id op hp
    · simp at hs
  | proceed g i =>
    simp only [step] at hs
    obtain ⟨y, x, hy, hx⟩ := instStep_get _ _ _ _ _ hs
    exact mem_cands_inst s g i y x hy hx _ (by simp)
  | bail g i =>
    simp only [step] at hs
    obtain ⟨y, x, hy, hx⟩ := instStep_get _ _ _ _ _ hs
    exact mem_cands_inst s g i y x hy hx _ (by simp)
  | closeExit g i =>
    simp only [step] at hs
    obtain ⟨y, x, hy, hx⟩ := instStep_get _ _ _ _ _ hs
    exact mem_cands_inst s g i y x hy hx _ (by simp)
  | record g i =>
    simp only [step] at hs
    split at hs
    · simp at hs
    · rename_i y hy
      split at hs
      · simp at hs
      · rename_i x hx; exact mem_cands_inst s g i y x hy hx _ (by simp)
  | timerRemove k =>
    simp only [step] at hs
    split at hs
    · rename_i r hr; exact mem_cands_timer s k r hr _ (by simp)
    · simp at hs
  | timerRetry k =>
    simp only [step] at hs
    split at hs
    · rename_i r hr; exact mem_cands_timer s k r hr _ (by simp)
    · simp at hs
  | config c => simp [Ev.obs] at ho
  | inv id op => simp [Ev.obs] at ho
  | ctor k d => simp [Ev.obs] at ho
  | ret id res => simp [Ev.obs] at ho
  | cbin j g i k d => simp [Ev.obs] at ho
  | cbout j o => simp [Ev.obs] at ho
  | advance => simp [Ev.obs] at ho
  | quiesce => simp [Ev.obs] at ho
  | probe j c => simp [Ev.obs] at ho
  | nilnext k => simp [Ev.obs] at ho
  | cancelroot => simp [Ev.obs] at ho
  | boff k b => simp [Ev.obs] at ho

theorem evs_complete (s s' : St) (e : Ev) (o : Obs) (hs : step s e = some s') (ho : e.obs = some o) :
    e ∈ evsOf s o := by
  cases e with
  | cbin j g i k d =>
    simp only [Ev.obs, Option.some.injEq] at ho
    subst ho
    simp only [step] at hs
    split at hs
    · split at hs
      · simp at hs
      · rename_i y hy
        split at hs
        · simp at hs
        · rename_i x hx
          simp only [evsOf]
          refine List.mem_flatMap.2 ⟨g, List.mem_range.2 (lt_of_get? hy), ?_⟩
          simp only [hy]
          exact List.mem_map.2 ⟨i, List.mem_range.2 (lt_of_get? hx), rfl⟩
    · simp at hs
  | exec id => simp [Ev.obs] at ho
  | proceed g i => simp [Ev.obs] at ho
  | bail g i => simp [Ev.obs] at ho
  | closeExit g i => simp [Ev.obs] at ho
  | record g i => simp [Ev.obs] at ho
  | timerRemove k => simp [Ev.obs] at ho
  | timerRetry k => simp [Ev.obs] at ho
  | config c => simp only [Ev.obs, Option.some.injEq] at ho; subst ho; simp [evsOf]
  | inv id op => simp only [Ev.obs, Option.some.injEq] at ho; subst ho; simp [evsOf]
  | ctor k d => simp only [Ev.obs, Option.some.injEq] at ho; subst ho; simp [evsOf]
  | ret id res => simp only [Ev.obs, Option.some.injEq] at ho; subst ho; simp [evsOf]
  | cbout j o' => simp only [Ev.obs, Option.some.injEq] at ho; subst ho; simp [evsOf]
  | advance => simp only [Ev.obs, Option.some.injEq] at ho; subst ho; simp [evsOf]
  | quiesce => simp only [Ev.obs, Option.some.injEq] at ho; subst ho; simp [evsOf]
  | probe j c => simp only [Ev.obs, Option.some.injEq] at ho; subst ho; simp [evsOf]
  | nilnext k => simp only [Ev.obs, Option.some.injEq] at ho; subst ho; simp [evsOf]
  | cancelroot => simp only [Ev.obs, Option.some.injEq] at ho; subst ho; simp [evsOf]
  | boff k b => simp only [Ev.obs, Option.some.injEq] at ho; subst ho; simp [evsOf]

/-- the checker tries every enabled event of the model: nothing is left out of `cands` / `evsOf` -/
theorem complete_keyed : model.Complete :=
  ⟨fun s e s' hs ho => cands_complete s s' e hs ho, fun s e s' o hs ho => evs_complete s s' e o hs ho⟩

/-- **A REJECT of the keyed correspondence is about the model**: when the driver's run fails at an
observable without having hit the exploration bounds, no run of the model projects to the history. -/
theorem reject_sound_keyed (cap fuel : Nat) (h : List Obs) (i : Nat)
    (hfail : (model.accRunH cap fuel [model.init] h 0 false 1).failedAt = some i)
    (htr : (model.accRunH cap fuel [model.init] h 0 false 1).truncated = false) :
    ¬ ∃ es s, model.run model.init es = some s ∧ es.filterMap model.obs = h :=
  rejectH_sound model complete_keyed cap fuel h i hfail htr

end UtilModel.Keyed
