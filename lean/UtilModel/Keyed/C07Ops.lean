import UtilModel.Keyed.C07Inv
import UtilModel.Keyed.Refine6
import UtilModel.Core.Count
/-!
# keyed — every API call preserves the structural invariant
-/
namespace UtilModel.Keyed
open UtilModel

theorem kinv_congr {s s' : St} (hk : s'.keys = s.keys) (hg : s'.gens = s.gens) (h : KInv s) : KInv s' := by
  have hkey : ∀ k, s'.key k = s.key k := fun k => by simp [St.key, hk]
  refine ⟨fun g y hy => h.chain g y (by rw [← hg]; exact hy), ?_, ?_, ?_,
    fun k r hk' => h.exFn k r (by rw [← hkey]; exact hk')⟩
  · intro k r hk'; rw [hkey] at hk'; rw [hg]; exact h.genKey k r hk'
  · intro k r i y hk' hc he hy; rw [hkey] at hk'; rw [hg] at hy; exact h.curLast k r i y hk' hc he hy
  · intro k r i y hk' hc he hy; rw [hkey] at hk'; rw [hg] at hy; exact h.curExited k r i y hk' hc he hy

theorem getElem?_append_one {α : Type} (l : List α) (a : α) (i : Nat) (x : α) (h : l[i]? = some x) :
    (l ++ [a])[i]? = some x := by
  have : i < l.length := by
    rcases Nat.lt_or_ge i l.length with h' | h'
    · exact h'
    · simp [List.getElem?_eq_none h'] at h
  rw [List.getElem?_append_left this]; exact h

theorem kinv_createKey (s : St) (k : Nat) (h : KInv s) (hn : s.key k = none) : KInv (createKey s k) := by
  have hgens : (createKey s k).gens = s.gens ++ [{ key := k }] := rfl
  have hget : ∀ g y, (createKey s k).gens[g]? = some y →
      (s.gens[g]? = some y) ∨ (g = s.gens.length ∧ y = { key := k }) := by
    intro g y hy
    rw [hgens] at hy
    rcases getElem?_snoc_cases _ _ _ _ hy with ⟨_, h1⟩ | ⟨h1, h2⟩
    · exact Or.inl h1
    · exact Or.inr ⟨h1, h2⟩
  have hold : ∀ k' r, k' ≠ k → (createKey s k).key k' = some r → s.key k' = some r := by
    intro k' r hk' hr; rw [key_createKey] at hr; simpa [hk'] using hr
  refine ⟨?_, ?_, ?_, ?_, ?_⟩
  rotate_left 4
  · intro k' r hr hce
    by_cases hkk : k' = k
    · subst hkk; rw [key_createKey] at hr; simp at hr; subst hr; simp at hce
    · exact h.exFn k' r (hold k' r hkk hr) hce
  · intro g y hy
    rcases hget g y hy with h1 | ⟨_, h2⟩
    · exact h.chain g y h1
    · subst h2; exact Chain.init_inv
  · intro k' r hr
    by_cases hkk : k' = k
    · subst hkk
      rw [key_createKey] at hr; simp at hr; subst hr
      exact ⟨{ key := k' }, by rw [hgens]; simp, rfl⟩
    · obtain ⟨y, hy, hyk⟩ := h.genKey k' r (hold k' r hkk hr)
      exact ⟨y, by rw [hgens]; exact getElem?_append_one _ _ _ _ hy, hyk⟩
  · intro k' r i y hr hc he hy
    by_cases hkk : k' = k
    · subst hkk; rw [key_createKey] at hr; simp at hr; subst hr; simp at hc
    · have hr' := hold k' r hkk hr
      obtain ⟨y0, hy0, _⟩ := h.genKey k' r hr'
      rw [hgens, getElem?_append_one _ _ _ _ hy0] at hy
      simp at hy; subst hy
      exact h.curLast k' r i y0 hr' hc he hy0
  · intro k' r i y hr hc he hy
    by_cases hkk : k' = k
    · subst hkk; rw [key_createKey] at hr; simp at hr; subst hr; simp at hc
    · have hr' := hold k' r hkk hr
      obtain ⟨y0, hy0, _⟩ := h.genKey k' r hr'
      rw [hgens, getElem?_append_one _ _ _ _ hy0] at hy
      simp at hy; subst hy
      exact h.curExited k' r i y0 hr' hc he hy0

/-- `ResetRoutine`: a new record in the generation of the old one -/
theorem kinv_newRec (s : St) (k : Nat) (r : Rec) (h : KInv s) (hk : s.key k = some r) :
    KInv (newRec s k r.gen) := by
  have hold : ∀ k' r', k' ≠ k → (newRec s k r.gen).key k' = some r' → s.key k' = some r' := by
    intro k' r' hk' hr; rw [key_newRec] at hr; simpa [hk'] using hr
  refine ⟨h.chain, ?_, ?_, ?_, ?_⟩
  rotate_left 3
  · intro k' r' hr hce
    by_cases hkk : k' = k
    · subst hkk; rw [key_newRec] at hr; simp at hr; subst hr; simp at hce
    · exact h.exFn k' r' (hold k' r' hkk hr) hce
  · intro k' r' hr
    by_cases hkk : k' = k
    · subst hkk; rw [key_newRec] at hr; simp at hr; subst hr
      exact h.genKey k' r hk
    · exact h.genKey k' r' (hold k' r' hkk hr)
  · intro k' r' i y hr hc he hy
    by_cases hkk : k' = k
    · subst hkk; rw [key_newRec] at hr; simp at hr; subst hr; simp at hc
    · exact h.curLast k' r' i y (hold k' r' hkk hr) hc he hy
  · intro k' r' i y hr hc he hy
    by_cases hkk : k' = k
    · subst hkk; rw [key_newRec] at hr; simp at hr; subst hr; simp at hc
    · exact h.curExited k' r' i y (hold k' r' hkk hr) hc he hy

theorem kinv_removeNow (s : St) (k : Nat) (r : Rec) (h : KInv s) : KInv (removeNow s k r) :=
  kinv_delRec _ k (kinv_cancelOpt s r.gen r.cancelOf h)

theorem kinv_remove (s : St) (k : Nat) (r : Rec) (h : KInv s) (hk : s.key k = some r) : KInv (remove s k r) := by
  unfold remove
  split
  · exact h
  · split
    · exact kinv_removeNow s k r h
    · exact kinv_setRec s k r _ h hk rfl (Or.inr ⟨rfl, rfl⟩)

theorem kinv_removeKey (s : St) (k : Nat) (h : KInv s) : KInv (removeKey s k).1 := by
  unfold removeKey
  cases hk : s.key k with
  | none => exact h
  | some r => exact kinv_remove s k r h hk

theorem kinv_syncS (restart : Bool) (s : St) (k : Nat) (h : KInv s) : KInv (syncS restart s k) := by
  unfold syncS syncOne
  simp only []
  cases hk : s.key k with
  | none => exact kinv_startKey _ k false (kinv_createKey s k h hk)
  | some r =>
    simp only []
    have h1 := kinv_setRec s k r { r with deferRemove := none } h hk rfl (Or.inr ⟨rfl, rfl⟩)
    split
    · exact kinv_startKey _ k false h1
    · exact h1

theorem kinv_removeAbsent (ks : List Nat) (s : St) (k : Nat) (h : KInv s) : KInv (removeAbsent ks s k) := by
  unfold removeAbsent
  split
  · exact h
  · exact kinv_removeKey s k h

theorem kinv_setCtxOne (same restart : Bool) (s : St) (k : Nat) (h : KInv s) : KInv (setCtxOne same restart s k) := by
  unfold setCtxOne
  cases hk : s.key k with
  | none => exact h
  | some r =>
    simp only []
    split
    · exact h
    · have h1 : KInv (setRec (cancelOpt s r.gen r.cancelOf) k (some { r with cur := none, cancelOf := none })) :=
        kinv_setRec _ k r _ (kinv_cancelOpt s r.gen r.cancelOf h) (by simpa using hk) rfl (Or.inl ⟨rfl, rfl⟩)
      split
      · exact kinv_startKey _ k false h1
      · exact h1

theorem kinv_resetKey (s : St) (k : Nat) (h : KInv s) : KInv (resetKey s k).1 := by
  unfold resetKey
  cases hk : s.key k with
  | none => exact h
  | some r =>
    simp only []
    exact kinv_startKey _ k false
      (kinv_newRec _ k r (kinv_cancelOpt s r.gen r.cancelOf h) (by simpa using hk))

theorem kinv_restartKey (s : St) (k : Nat) (h : KInv s) : KInv (restartKey s k).1 := by
  unfold restartKey
  cases hk : s.key k with
  | none => exact h
  | some r =>
    cases hc : s.ctx with
    | none => exact h
    | some c =>
      simp only []
      exact kinv_startKey _ k true
        (kinv_setRec _ k r _ (kinv_cancelOpt s r.gen r.cancelOf h) (by simpa using hk) rfl (Or.inr ⟨rfl, rfl⟩))

theorem kinv_execOp (s : St) (op : Op) (h : KInv s) : KInv (execOp s op).1 := by
  cases op with
  | setKey k st => simp only [execOp]; rw [setKey_eq_syncS]; exact kinv_syncS st s k h
  | removeKey k => exact kinv_removeKey s k h
  | syncKeys ks restart =>
    simp only [execOp, syncKeys]
    rw [foldl_fst (syncOne restart) (syncS restart) (syncOne_fst restart)]
    exact foldl_inv _ (kinv_removeAbsent ks) _ _ (foldl_inv _ (kinv_syncS restart) _ _ h)
  | getKey k => simp only [execOp]; split <;> exact h
  | getKeys => exact h
  | getKeysWithData => exact h
  | resetRoutine k cs =>
    simp only [execOp]
    split
    · exact kinv_resetKey s k h
    · exact h
  | restartRoutine k cs =>
    simp only [execOp]
    split
    · exact kinv_restartKey s k h
    · exact h
  | resetAll cs =>
    simp only [execOp]
    rw [foldl_fst resetAllStep (fun s k => (resetKey s k).1) (fun _ _ => rfl)]
    exact foldl_inv _ kinv_resetKey _ _ h
  | restartAll cs =>
    simp only [execOp]
    rw [foldl_fst restartAllStep (fun s k => (restartKey s k).1) (fun _ _ => rfl)]
    exact foldl_inv _ kinv_restartKey _ _ h
  | setContext c restart =>
    simp only [execOp, setContext]
    split
    · exact h
    · exact foldl_inv _ (kinv_setCtxOne _ restart) _ _ (kinv_congr (s := s) rfl rfl h)
  | addKeyRef k =>
    simp only [execOp, addKeyRef]
    have := kinv_syncS true s k h
    rw [← setKey_eq_syncS] at this
    exact kinv_congr (s := (setKey s k true).1) rfl rfl this
  | release r =>
    simp only [execOp, release]
    split
    · exact h
    · split
      · exact h
      · split
        · exact kinv_removeKey _ _ (kinv_congr (s := s) rfl rfl h)
        · exact kinv_congr (s := s) rfl rfl h
  | rcRemoveKey k =>
    simp only [execOp, rcRemoveKey]
    exact kinv_removeKey _ _ (kinv_congr (s := s) rfl rfl h)

end UtilModel.Keyed
