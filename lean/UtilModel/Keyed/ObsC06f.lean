import UtilModel.Keyed.ObsC06e
/-!
# keyed — `C06o_obs`: every observable trace of the model is accepted by `monC06o`
-/
namespace UtilModel.Keyed
open UtilModel

theorem weak_pending (m : M6o) (a : ASt) (p : List (Nat × Op × Bool)) (hW : Weak m a) : Weak { m with pending := p } a :=
  ⟨⟨hW.base.delay, hW.base.epoch, hW.base.rkey⟩, hW.ctx, hW.st, hW.cnt, hW.live⟩

theorem phase_ret (s s' : St) (id : Nat) (res : Res) (m : M6o) (hG : G6 s) (hP : Phase s m)
    (hs : step s (.ret id res) = some s') :
    ∃ m', monC06o.step m (.ret id res) = some m' ∧ Phase s' m' := by
  have hr := (step_refines s s' _ hG.r hs).1
  have habs : abs s' = abs s := hr
  simp only [step] at hs
  split at hs
  · rename_i hm
    have hmem : Call.done id [] res ∈ s.calls := by simpa using hm
    simp at hs
    have hcalls : s'.calls = s.calls.erase (.done id [] res) := by subst hs; rfl
    cases hP with
    | rest _ hc _ => rw [hc] at hmem; cases hmem
    | invoked id' op _ hc _ _ => rw [hc] at hmem; simp at hmem
    | done id' op cs' res' a f hpe hc hK hI hR hclr hout hE =>
      rw [hc] at hmem
      simp only [List.mem_singleton, Call.done.injEq] at hmem
      obtain ⟨h1, h2, h3⟩ := hmem
      subst h1; subst h2; subst h3
      obtain ⟨m1, hm1, hK1, _⟩ := ret_sound m a f op res hK hI hR hclr hout
      refine ⟨{ m1 with pending := [] }, ?_, ?_⟩
      · simp [monC06o, hpe, hm1]
      · refine .rest rfl (by rw [hcalls, hc]; simp) ?_
        rw [habs]
        exact know_pending _ _ _ (know_exp m1 _ _ hK1 hE)
    | over hf hid hW =>
      have hin : id ∈ m.pending.map (·.1) := by
        rw [hid]; exact List.mem_map.2 ⟨_, hmem, rfl⟩
      obtain ⟨op, b, hfind, hpin⟩ := find_ids m.pending id hin
      have hb : b = true := hf _ hpin
      subst hb
      refine ⟨{ m with pending := m.pending.filter (·.1 != id) }, ?_, ?_⟩
      · simp [monC06o, hfind]
      · refine .over ?_ ?_ ?_
        · intro p hp; exact hf p (List.mem_filter.1 hp).1
        · show (m.pending.filter (·.1 != id)).map (·.1) = s'.calls.map Call.id
          rw [filter_ids, hid, hcalls, erase_ids s.calls _ hG.ids hmem]; rfl
        · rw [habs]; exact weak_pending m _ _ hW
  · simp at hs

theorem phase_advance (s s' : St) (m : M6o) (hG : G6 s) (hP : Phase s m) (hs : step s .advance = some s') :
    Phase s' { m with epoch := m.epoch + 1 } := by
  have hr := (step_refines s s' _ hG.r hs).1
  simp only [step] at hs
  split at hs
  · rename_i hg
    obtain ⟨hp, hK⟩ := hP.quiet hg.2.1
    simp at hs
    refine .rest hp (by subst hs; exact hg.2.1) ?_
    rw [hr]
    exact know_advance m _ hK
  · simp at hs

/-- the installed root context is cancelled (no call is in progress): whether "a context is set" is not
known any more -/
theorem phase_cancelroot (s s' : St) (m : M6o) (hG : G6 s) (hP : Phase s m) (hs : step s .cancelroot = some s') :
    Phase s' { m with hasCtx := none } := by
  have hr := (step_refines s s' _ hG.r hs).1
  have hfr := step_frame s s' _ hs rfl
  simp only [step] at hs
  split at hs
  · rename_i hg
    obtain ⟨hp, hK⟩ := hP.quiet hg.1
    refine .rest hp (hfr.2.1.trans hg.1) ?_
    rw [hr]
    exact ⟨hK.delay, hK.epoch, fun c h => (by cases h), hK.st, hK.cnt, hK.live, hK.rkey⟩
  · simp at hs

theorem phase_quiesce (s s' : St) (m : M6o) (hP : Phase s m) (hs : step s .quiesce = some s') :
    Phase s' { m with st := fun k => match m.st k with
                      | .unknown e => if e < m.epoch then .absent else .unknown e
                      | x => x } := by
  simp only [step] at hs
  split at hs
  · rename_i hq
    simp only [quiet, Bool.and_eq_true, List.isEmpty_iff] at hq
    obtain ⟨hp, hK⟩ := hP.quiet hq.1.1
    simp at hs; subst hs
    exact .rest hp hq.1.1 (know_quiesce m _ hK (hq_of_noDue s hq.1.2))
  · simp at hs

theorem phase_step (s s' : St) (e : Ev) (m : M6o) (hG : G6 s) (hP : Phase s m) (hs : step s e = some s') :
    match model.obs e with
    | none => Phase s' m
    | some o => ∃ m', monC06o.step m o = some m' ∧ Phase s' m' := by
  cases e with
  | config c => exact ⟨_, rfl, phase_config s s' c m hG hP hs⟩
  | inv id op => exact phase_inv s s' id op m hG hP hs
  | exec id => exact phase_exec s s' id m hG hP hs
  | ctor k d => exact ⟨m, rfl, phase_ctor s s' k d m hG hP hs⟩
  | ret id res => exact phase_ret s s' id res m hG hP hs
  | proceed g i => exact phase_other s s' _ m hG hP hs rfl (by simp)
  | bail g i => exact phase_other s s' _ m hG hP hs rfl (by simp)
  | cbin j g i k d => exact ⟨m, rfl, phase_other s s' _ m hG hP hs rfl (by simp)⟩
  | cbout j o => exact ⟨m, rfl, phase_other s s' _ m hG hP hs rfl (by simp)⟩
  | closeExit g i => exact phase_other s s' _ m hG hP hs rfl (by simp)
  | record g i => exact phase_other s s' _ m hG hP hs rfl (by simp)
  | timerRemove k => exact phase_other s s' _ m hG hP hs rfl (by simp)
  | timerRetry k => exact phase_other s s' _ m hG hP hs rfl (by simp)
  | advance => exact ⟨_, rfl, phase_advance s s' m hG hP hs⟩
  | quiesce => exact ⟨_, rfl, phase_quiesce s s' m hP hs⟩
  | probe j c => exact ⟨m, rfl, phase_other s s' _ m hG hP hs rfl (by simp)⟩
  | nilnext k => exact ⟨m, rfl, phase_other s s' _ m hG hP hs rfl (by simp)⟩
  | cancelroot => exact ⟨_, rfl, phase_cancelroot s s' m hG hP hs⟩
  | boff k b => exact ⟨m, rfl, phase_other s s' _ m hG hP hs rfl (by simp)⟩

/-- the simulation relation between the model and `monC06o` -/
def Sim6 (s : St) (m : M6o) : Prop := G6 s ∧ Phase s m

theorem know_init : Know ({} : M6o) (abs ({} : St)) where
  delay := rfl
  epoch := rfl
  ctx := fun c h => by cases h; rfl
  st := fun k => by simp [KnowK, abs, absKey, St.key, look]
  cnt := fun k n h => by cases h; simp [abs, St.ctors, look]
  live := fun r k h => by simp at h
  rkey := fun r k h => by simp at h

/-- **C06, observable form.** Every observable trace of the model is accepted by `monC06o`, the
executable form of the key-set specification (`Spec.lean`) over what a history shows: which keys are in the
set (with the unobservable `failed` oracle over-approximated: a key removed with a delay may be gone
early), the `existed`/`data`/`added`/`removed`/count results of every call, references keeping their key,
a reference released twice counting once. The same monitor is evaluated on the histories of the real
code. -/
theorem C06o_obs (es : List Ev) (s : St) (hr : model.run model.init es = some s) :
    monC06o.accepts (es.filterMap model.obs) = true :=
  monitor_accepts_of_simulation model monC06o Sim6
    ⟨g6_init, .rest rfl rfl know_init⟩
    (fun s e s' ms hR hs => by
      have hG := g6_step s s' e hR.1 hs
      have h := phase_step s s' e ms hR.1 hR.2 hs
      cases hob : model.obs e with
      | none => simp only [hob] at h ⊢; exact ⟨hG, h⟩
      | some o =>
        simp only [hob] at h ⊢
        obtain ⟨m', h1, h2⟩ := h
        exact ⟨m', h1, hG, h2⟩) es s hr

end UtilModel.Keyed
