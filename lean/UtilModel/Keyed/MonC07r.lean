import UtilModel.Keyed.Monitors
/-!
# keyed — C07, "a retry that is owed has happened at the next quiescence point", in the form that is proved
for every model trace (`C07r_obs`)

The product of `monC06o` with a list of owed retries. A retry is owed for key `k` when the harness' backoff object
reports that the exit bookkeeping armed the retry timer (`env boff k armed`) while no call is in progress, a
context is known to be set and `k` is known to be in the set. The debt is forgotten when any call other than a
getter is invoked or the root context is cancelled, and paid when a routine function of `k` is entered. At a
quiescence point no debt from an earlier epoch may be left.
-/
namespace UtilModel.Keyed
open UtilModel

structure M7r where
  o : M6o := {}
  /-- key, epoch in which the timer was reported armed -/
  owed : List (Nat × Nat) := []

def isGetter : Op → Bool
  | .getKey _ | .getKeys | .getKeysWithData => true
  | _ => false

/-- the debts after the observation -/
def M7r.next (m : M7r) : Obs → List (Nat × Nat)
  | .boff k armed =>
    if armed && m.o.pending.isEmpty && (m.o.hasCtx == some true) && (m.o.st k == .present)
    then (k, m.o.epoch) :: m.owed else m.owed
  | .cbin _ k _ => m.owed.filter (·.1 != k)
  | .inv _ op => if isGetter op then m.owed else []
  | .cancelroot => []
  | _ => m.owed

/-- a debt from an earlier epoch is left at a quiescence point -/
def M7r.late (m : M7r) : Obs → Bool
  | .quiesce => m.owed.any fun p => p.2 < m.o.epoch
  | _ => false

def monC07r : ObsMonitor Obs M7r where
  init := {}
  step := fun m ob =>
    if m.late ob then none
    else
      match monC06o.step m.o ob with
      | some o => some { o := o, owed := m.next ob }
      | none => none

end UtilModel.Keyed
