import UtilModel.Keyed.ObsC07r3
import UtilModel.Keyed.ObsC06f
/-!
# keyed — `C07r_obs`: every observable trace of the model is accepted by `monC07r`
-/
namespace UtilModel.Keyed
open UtilModel

theorem ctx_step (s s' : St) (e : Ev) (hs : step s e = some s') (hcr : e ≠ .cancelroot)
    (hex : ∀ id op, e = .exec id → pendingOp s.calls id = some op → isGetter op = true) : s'.ctx = s.ctx := by
  cases e with
  | cancelroot =>
    simp only [step] at hs
    split at hs
    · simp at hs; subst hs; exact absurd rfl hcr
    · simp at hs
  | nilnext k =>
    simp only [step] at hs
    split at hs
    · simp at hs; subst hs; rfl
    · simp at hs
  | config c =>
    simp only [step] at hs
    split at hs
    · simp at hs; subst hs; rfl
    · simp at hs
  | inv id op =>
    simp only [step] at hs
    split at hs
    · simp at hs
    · split at hs
      · simp at hs; subst hs; rfl
      · simp at hs
  | exec id =>
    simp only [step] at hs
    split at hs
    · rename_i op hc
      simp at hs; subst hs
      have hg := hex id op rfl hc
      cases op with
      | getKey k' => simp only [preOp, execOp]; split <;> rfl
      | getKeys => rfl
      | getKeysWithData => rfl
      | _ => simp [isGetter] at hg
    · simp at hs
  | ctor k d =>
    simp only [step] at hs
    split at hs
    · simp at hs; subst hs; rfl
    · simp at hs
  | ret id res =>
    simp only [step] at hs
    split at hs
    · simp at hs; subst hs; rfl
    · simp at hs
  | proceed g i =>
    simp only [step] at hs
    obtain ⟨y, x, x', _, _, _, rfl⟩ := instStep_some _ _ _ _ _ hs
    rfl
  | bail g i =>
    simp only [step] at hs
    obtain ⟨y, x, x', _, _, _, rfl⟩ := instStep_some _ _ _ _ _ hs
    rfl
  | cbin j g i k d =>
    simp only [step] at hs
    split at hs
    · split at hs
      · simp at hs
      · split at hs
        · simp at hs
        · split at hs
          · simp at hs; subst hs
            rfl
          · simp at hs
    · simp at hs
  | cbout j o =>
    simp only [step] at hs
    split at hs
    · simp at hs
    · rename_i g i _
      obtain ⟨y, x, x', _, _, _, rfl⟩ := instStep_some _ _ _ _ _ hs
      rfl
  | closeExit g i =>
    simp only [step] at hs
    obtain ⟨y, x, x', _, _, _, rfl⟩ := instStep_some _ _ _ _ _ hs
    rfl
  | record g i =>
    simp only [step] at hs
    split at hs
    · simp at hs
    · split at hs
      · simp at hs
      · split at hs
        · simp at hs; subst hs
          exact (touch_recordInst s g i ‹Inst› ‹G›.key).frame.ctx
        · simp at hs
  | timerRemove k =>
    simp only [step] at hs
    split at hs
    · rename_i r hr
      split at hs
      · simp at hs; subst hs
        exact ((frame_cancelOpt s r.gen r.cancelOf).trans (frame_setRec _ k none)).ctx
      · simp at hs
    · simp at hs
  | timerRetry k =>
    simp only [step] at hs
    split at hs
    · rename_i r hr
      split at hs
      · simp at hs; subst hs
        have T1 : Touch k s (setRec s k (some { r with deferRetry := none })) := touch_setRec k s r _ hr rfl rfl
        split
        · exact (T1.trans (touch_startKey _ k true)).frame.ctx
        · exact T1.frame.ctx
      · simp at hs
    · simp at hs
  | advance =>
    simp only [step] at hs
    split at hs
    · simp at hs; subst hs; rfl
    · simp at hs
  | quiesce =>
    simp only [step] at hs
    split at hs
    · simp at hs; subst hs; rfl
    · simp at hs
  | boff k b =>
    simp only [step] at hs
    split at hs
    · simp at hs; subst hs; rfl
    · simp at hs
  | probe j c =>
    simp only [step] at hs
    split at hs
    · simp at hs
    · split at hs
      · split at hs
        · simp at hs; subst hs; rfl
        · simp at hs
      · simp at hs


/-- calls in progress only leave, finish their critical section, or are the call just invoked -/
theorem invoked_step (s s' : St) (e : Ev) (hs : step s e = some s') (id : Nat) (op : Op)
    (h : Call.invoked id op ∈ s'.calls) : Call.invoked id op ∈ s.calls ∨ e = .inv id op := by
  cases hce : e.isCallEv with
  | false => rw [(step_frame s s' e hs hce).2.1] at h; exact Or.inl h
  | true =>
    cases e with
    | config c =>
      simp only [step] at hs
      split at hs
      · simp at hs; subst hs; exact Or.inl h
      · simp at hs
    | inv id' op' =>
      simp only [step] at hs
      split at hs
      · simp at hs
      · split at hs
        · simp at hs; subst hs
          simp only [List.mem_append, List.mem_singleton] at h
          rcases h with h | h
          · exact Or.inl h
          · right; cases h; rfl
        · simp at hs
    | exec id' =>
      simp only [step] at hs
      split at hs
      · simp at hs; subst hs
        simp only [List.mem_map] at h
        obtain ⟨c, hc1, hc2⟩ := h
        split at hc2
        · cases hc2
        · subst hc2; exact Or.inl hc1
      · simp at hs
    | ctor k d =>
      simp only [step] at hs
      split at hs
      · rename_i cs htc
        simp at hs; subst hs
        exact Or.inl (takeCtor_invoked _ _ _ _ htc id op h)
      · simp at hs
    | ret id' res =>
      simp only [step] at hs
      split at hs
      · simp at hs; subst hs
        exact Or.inl (List.mem_of_mem_erase h)
      · simp at hs
    | _ => simp [Ev.isCallEv] at hce

end UtilModel.Keyed
