import UtilModel.Keyed.Refine4
/-!
# keyed — refinement of the key-set specification (C06): every event of the model
-/
namespace UtilModel.Keyed

/-- the invariant the refinement needs -/
structure RInv (s : St) : Prop where
  refs : RefInv s

theorem abs_call (s : St) (c : List Call) : abs { s with calls := c } = abs s := rfl
theorem abs_modInst (s : St) (g i : Nat) (f : Inst → Inst) : abs (modInst s g i f) = abs s := rfl

theorem instStep_abs (s s' : St) (g i : Nat) (f : G → Inst → Option Inst) (h : instStep s g i f = some s') :
    abs s' = abs s ∧ s'.keys = s.keys ∧ s'.refs = s.refs ∧ s'.calls = s.calls ∧ s'.epoch = s.epoch := by
  unfold instStep at h
  split at h
  · simp at h
  · split at h
    · simp at h
    · split at h
      · simp at h
      · simp at h; subst h; exact ⟨rfl, rfl, rfl, rfl, rfl⟩

theorem touch_recordInst (s : St) (g i : Nat) (x : Inst) (k : Nat) : Touch k s (recordInst s g i x k) := by
  unfold recordInst
  simp only []
  have T0 : Touch k s (modInst s g i fun y => { y with st := .recorded }) := touch_modG k s g _
  cases hr : s.key k with
  | none => exact T0
  | some r =>
    simp only []
    split
    · apply Touch.trans T0
      apply touch_mod_set k _ g _ r _ (by simpa using hr)
      · cases retryCfg s with
        | none => rfl
        | some n =>
          simp only []
          split
          · rfl
          · split <;> rfl
      · cases retryCfg s with
        | none => rfl
        | some n =>
          simp only []
          split
          · rfl
          · split <;> rfl
    · exact T0

theorem pendingOp_mem (cs : List Call) (id : Nat) (op : Op) (h : pendingOp cs id = some op) :
    Call.invoked id op ∈ cs := by
  induction cs with
  | nil => simp [pendingOp] at h
  | cons c cs ih =>
    cases c with
    | invoked id' op' =>
      simp only [pendingOp] at h
      split at h
      · rename_i he; subst he; simp at h; subst h; simp
      · simp [ih h]
    | done id' q r => simp only [pendingOp] at h; simp [ih h]

theorem failedOf_preOp (s : St) (op : Op) : failedOf (preOp s op) = failedOf s := by
  funext k; simp [failedOf, preOp_key]

theorem noDead_preOp (s : St) (op : Op) : NoDead (preOp s op) op := by
  cases op with
  | restartRoutine k cs => exact dropDead_ctx s
  | restartAll cs =>
    show (preOp s (.restartAll cs)).ctx ≠ some 0 ∨ keyList (preOp s (.restartAll cs)) = []
    simp only [preOp]
    split
    · rename_i h; right; simpa using h
    · left; exact dropDead_ctx s
  | _ => trivial

theorem step_refines (s s' : St) (e : Ev) (hI : RInv s) (h : step s e = some s') :
    abs s' = specEv (abs s) s e ∧
    (∀ id op, e = .exec id → pendingOp s.calls id = some op →
      ∃ cs res, .done id cs res ∈ s'.calls ∧ SpecOut (abs s) (abs s') op res) := by
  cases e with
  | config c =>
    simp only [step] at h
    split at h
    · simp at h; subst h; exact ⟨rfl, by simp⟩
    · simp at h
  | inv id op =>
    simp only [step] at h
    split at h
    · simp at h
    · split at h
      · simp at h; subst h; exact ⟨rfl, by simp⟩
      · simp at h
  | exec id =>
    simp only [step] at h
    split at h
    · rename_i op hc
      simp at h; subst h
      have hri : RefInv (preOp s op) := by
        intro x hx; rw [(preOp_fields s op).2.1] at hx; exact hI.refs x hx
      have := execOp_refines (preOp s op) op hri (noDead_preOp s op)
      rw [abs_preOp, failedOf_preOp] at this
      refine ⟨?_, ?_⟩
      · rw [abs_call, this.1]; simp [specEv, hc]
      · intro id' op' he hc'
        simp only [Ev.exec.injEq] at he
        subst he
        rw [hc] at hc'
        simp only [Option.some.injEq] at hc'
        subst hc'
        refine ⟨(execOp (preOp s op) op).2.1, (execOp (preOp s op) op).2.2, ?_, by rw [abs_call]; exact this.2⟩
        simp only [List.mem_map]
        exact ⟨.invoked id op, pendingOp_mem s.calls id op hc, by simp⟩
    · simp at h
  | ctor k d =>
    simp only [step] at h
    split at h
    · simp at h; subst h; exact ⟨rfl, by simp⟩
    · simp at h
  | ret id res =>
    simp only [step] at h
    split at h
    · simp at h; subst h; exact ⟨rfl, by simp⟩
    · simp at h
  | proceed g i => exact ⟨(instStep_abs s s' g i _ h).1, by simp⟩
  | bail g i => exact ⟨(instStep_abs s s' g i _ h).1, by simp⟩
  | cbin j g i k d =>
    simp only [step] at h
    split at h
    · split at h
      · simp at h
      · split at h
        · simp at h
        · split at h
          · simp at h; subst h; exact ⟨rfl, by simp⟩
          · simp at h
    · simp at h
  | cbout j o =>
    simp only [step] at h
    split at h
    · simp at h
    · exact ⟨(instStep_abs s s' _ _ _ h).1, by simp⟩
  | closeExit g i => exact ⟨(instStep_abs s s' g i _ h).1, by simp⟩
  | record g i =>
    simp only [step] at h
    split at h
    · simp at h
    · split at h
      · simp at h
      · split at h
        · simp at h; subst h
          exact ⟨abs_touch (touch_recordInst s g i _ _), by simp⟩
        · simp at h
  | timerRemove k =>
    simp only [step] at h
    split at h
    · rename_i r hr
      split at h
      · rename_i hdue
        simp at h; subst h
        refine ⟨?_, by simp⟩
        -- the callback of a due removal timer: the key expires
        have hexp : expSt (abs s) k = .absent := by
          cases hdr : r.deferRemove with
          | none => simp [dueOpt, hdr] at hdue
          | some e =>
            simp [dueOpt, hdr] at hdue
            simp only [expSt, st_abs, hr, absKey, hdr]
            have : e < (abs s).epoch := hdue
            simp [this]
        have := abs_upd s (removeNow s k r) ((frame_cancelOpt s r.gen r.cancelOf).trans (frame_setRec _ k none))
          k .absent (s.ctors k)
          (fun k' hk => by simp [removeNow, hk])
          (by simp [removeNow, absKey])
          (fun k' _ => by simp [removeNow])
          (by simp [removeNow])
        rw [this]
        simp only [specEv, expire, hexp]
        have h2 : upd (abs s).nctor k (s.ctors k) = (abs s).nctor := upd_self (abs s).nctor k
        rw [h2]
      · simp at h
    · simp at h
  | timerRetry k =>
    simp only [step] at h
    split at h
    · rename_i r hr
      split at h
      · simp at h; subst h
        refine ⟨?_, by simp⟩
        have T1 : Touch k s (setRec s k (some { r with deferRetry := none })) :=
          touch_setRec k s r _ hr rfl rfl
        split
        · exact abs_touch (T1.trans (touch_startKey _ k true))
        · exact abs_touch T1
      · simp at h
    · simp at h
  | advance =>
    simp only [step] at h
    split at h
    · simp at h; subst h
      refine ⟨?_, by simp⟩
      rfl
    · simp at h
  | quiesce =>
    simp only [step] at h
    split at h
    · simp at h; subst h; exact ⟨rfl, by simp⟩
    · simp at h
  | boff k b =>
    simp only [step] at h
    split at h
    · simp at h; subst h; exact ⟨rfl, by simp⟩
    · simp at h
  | probe j c =>
    simp only [step] at h
    split at h
    · simp at h
    · split at h
      · split at h
        · simp at h; subst h; exact ⟨rfl, by simp⟩
        · simp at h
      · simp at h
  | nilnext k =>
    simp only [step] at h
    split at h
    · simp at h; subst h; exact ⟨rfl, by simp⟩
    · simp at h
  | cancelroot =>
    simp only [step] at h
    split at h
    · simp at h; subst h
      refine ⟨?_, by simp⟩
      rw [abs_sameBut (sameBut_cancelAll _)]
      rfl
    · simp at h

end UtilModel.Keyed
