import UtilModel.Keyed.Refine4
/-!
# keyed — refinement of the key-set specification (C06): every event of the model
-/
namespace UtilModel.Keyed

theorem noDueRm_of_noDue (s : St) (h : noDue s = true) : NoDueRm s := by
  intro k r e hk hd hlt
  simp only [noDue, List.all_eq_true, List.mem_range] at h
  have := h k (look_lt _ _ _ hk)
  have hk' : s.key k = some r := hk
  simp only [hk', Bool.and_eq_true, Bool.not_eq_true'] at this
  simp [dueOpt, hd, hlt] at this

/-- the invariant the refinement needs -/
structure RInv (s : St) : Prop where
  refs : RefInv s
  due : s.call ≠ .idle → NoDueRm s
  /-- a removal timer was armed in the current or an earlier epoch -/
  armed : ∀ k r e, s.key k = some r → r.deferRemove = some e → e ≤ s.epoch

theorem abs_call (s : St) (c : Call) : abs { s with call := c } = abs s := rfl
theorem abs_modInst (s : St) (g i : Nat) (f : Inst → Inst) : abs (modInst s g i f) = abs s := rfl

theorem instStep_abs (s s' : St) (g i : Nat) (f : G → Inst → Option Inst) (h : instStep s g i f = some s') :
    abs s' = abs s ∧ s'.keys = s.keys ∧ s'.refs = s.refs ∧ s'.call = s.call ∧ s'.epoch = s.epoch := by
  unfold instStep at h
  split at h
  · simp at h
  · split at h
    · simp at h
    · split at h
      · simp at h
      · simp at h; subst h; exact ⟨rfl, rfl, rfl, rfl, rfl⟩

theorem touch_recordInst (s : St) (g i : Nat) (x : Inst) (k : Nat) : Touch k s (recordInst s g i x k) := by
  unfold recordInst
  simp only []
  have T0 : Touch k s (modInst s g i fun y => { y with st := .recorded }) := touch_modG k s g _
  cases hr : s.key k with
  | none => exact T0
  | some r =>
    simp only []
    split
    · apply Touch.trans T0
      apply touch_mod_set k _ g _ r _ (by simpa using hr)
      · cases retryCfg s with
        | none => rfl
        | some n =>
          simp only []
          split
          · rfl
          · split <;> rfl
      · cases retryCfg s with
        | none => rfl
        | some n =>
          simp only []
          split
          · rfl
          · split <;> rfl
    · exact T0

theorem noDueRm_touch {k : Nat} {s s' : St} (T : Touch k s s') (h : NoDueRm s) : NoDueRm s' := by
  intro k' r' e hk hd
  rw [T.frame.epoch]
  by_cases hkk : k' = k
  · subst hkk
    have hc := T.same
    rw [hk] at hc
    cases hr : s.key k' with
    | none => simp [core, hr] at hc
    | some r =>
      simp [core, hr] at hc
      exact h k' r e hr (by rw [← hc.2, hd])
  · rw [T.other k' hkk] at hk
    exact h k' r' e hk hd

theorem noDueRm_keys {s s' : St} (hk : s'.keys = s.keys) (he : s'.epoch = s.epoch) (h : NoDueRm s) : NoDueRm s' := by
  intro k r e hkr hd
  rw [he]
  exact h k r e (by simpa [St.key, hk] using hkr) hd

theorem step_refines (s s' : St) (e : Ev) (hI : RInv s) (h : step s e = some s') :
    abs s' = specEv (abs s) s e ∧
    (∀ id op, e = .exec → s.call = .invoked id op →
      ∃ cs res, s'.call = .done id cs res ∧ SpecOut (abs s) (abs s') op res) := by
  cases e with
  | config c =>
    simp only [step] at h
    split at h
    · simp at h; subst h; exact ⟨rfl, by simp⟩
    · simp at h
  | inv id op =>
    simp only [step] at h
    split at h
    · simp at h
    · split at h
      · simp at h; subst h; exact ⟨rfl, by simp⟩
      · simp at h
  | exec =>
    simp only [step] at h
    split at h
    · rename_i id op hc
      simp at h; subst h
      have hd := hI.due (by simp [hc])
      have := execOp_refines s op hd hI.refs
      refine ⟨?_, ?_⟩
      · rw [abs_call, this.1]; simp [specEv, hc]
      · intro id' op' _ hc'
        rw [hc] at hc'
        simp only [Call.invoked.injEq] at hc'
        obtain ⟨rfl, rfl⟩ := hc'
        exact ⟨_, _, rfl, by rw [abs_call]; exact this.2⟩
    · simp at h
  | ctor k d =>
    simp only [step] at h
    split at h
    · split at h
      · simp at h; subst h; exact ⟨rfl, by simp⟩
      · simp at h
    · simp at h
  | ret id res =>
    simp only [step] at h
    split at h
    · split at h
      · simp at h; subst h; exact ⟨rfl, by simp⟩
      · simp at h
    · simp at h
  | proceed g i => exact ⟨(instStep_abs s s' g i _ h).1, by simp⟩
  | bail g i => exact ⟨(instStep_abs s s' g i _ h).1, by simp⟩
  | cbin j g i k d =>
    simp only [step] at h
    split at h
    · split at h
      · simp at h
      · split at h
        · simp at h
        · split at h
          · simp at h; subst h; exact ⟨rfl, by simp⟩
          · simp at h
    · simp at h
  | cbout j o =>
    simp only [step] at h
    split at h
    · simp at h
    · exact ⟨(instStep_abs s s' _ _ _ h).1, by simp⟩
  | closeExit g i => exact ⟨(instStep_abs s s' g i _ h).1, by simp⟩
  | record g i =>
    simp only [step] at h
    split at h
    · simp at h
    · split at h
      · simp at h
      · split at h
        · simp at h; subst h
          exact ⟨abs_touch (touch_recordInst s g i _ _), by simp⟩
        · simp at h
  | timerRemove k =>
    simp only [step] at h
    split at h
    · rename_i r hr
      split at h
      · rename_i hdue
        simp at h; subst h
        refine ⟨?_, by simp⟩
        -- the key was due, hence already absent in the abstraction
        have hab : absKey s.epoch (s.key k) = .absent := by
          cases hdr : r.deferRemove with
          | none => simp [dueOpt, hdr] at hdue
          | some e =>
            simp [dueOpt, hdr] at hdue
            simp [hr, absKey, hdr, hdue]
        have := abs_upd s (removeNow s k r) ((frame_cancelOpt s r.gen r.cancelOf).trans (frame_setRec _ k none))
          k .absent (s.ctors k)
          (fun k' hk => by simp [removeNow, hk])
          (by simp [removeNow, absKey])
          (fun k' _ => by simp [removeNow])
          (by simp [removeNow])
        rw [this]
        simp only [specEv]
        have h1 : upd (abs s).st k .absent = (abs s).st := by
          have : (abs s).st k = .absent := hab
          rw [← this]; exact upd_self _ _
        have h2 : upd (abs s).nctor k (s.ctors k) = (abs s).nctor := upd_self (abs s).nctor k
        rw [h1, h2]
      · simp at h
    · simp at h
  | timerRetry k =>
    simp only [step] at h
    split at h
    · rename_i r hr
      split at h
      · simp at h; subst h
        refine ⟨?_, by simp⟩
        have T1 : Touch k s (setRec s k (some { r with deferRetry := none })) :=
          touch_setRec k s r _ hr rfl rfl
        split
        · exact abs_touch (T1.trans (touch_startKey _ k true))
        · exact abs_touch T1
      · simp at h
    · simp at h
  | advance =>
    simp only [step] at h
    split at h
    · rename_i hg
      simp at h; subst h
      refine ⟨?_, by simp⟩
      have hd := noDueRm_of_noDue s hg.2.2
      simp only [specEv, specAdvance, abs, delayOn]
      congr 1
      funext k
      have hkey : ({ s with epoch := s.epoch + 1 } : St).key k = s.key k := rfl
      rw [hkey]
      cases hr : s.key k with
      | none => simp [absKey]
      | some r =>
        simp only [absKey]
        cases hdr : r.deferRemove with
        | none => rfl
        | some e =>
          have := hd k r e hr hdr
          have h1 : e < s.epoch + 1 := by have := hI.armed k r e hr hdr; omega
          simp [this, h1]
    · simp at h
  | quiesce =>
    simp only [step] at h
    split at h
    · simp at h; subst h; exact ⟨rfl, by simp⟩
    · simp at h
  | probe j c =>
    simp only [step] at h
    split at h
    · simp at h
    · split at h
      · split at h
        · simp at h; subst h; exact ⟨rfl, by simp⟩
        · simp at h
      · simp at h
  | nilnext k =>
    simp only [step] at h
    split at h
    · simp at h; subst h; exact ⟨rfl, by simp⟩
    · simp at h

end UtilModel.Keyed
