import UtilModel.Keyed.C07Cancel
/-!
# keyed — the instance a record can still cancel is its current instance, started for this record

`RC s`: when `r.ctxCancel` of the record stored under a key refers to instance `i` (`r.cancelOf = some i`) then
`r.ctx` is that instance's context (`r.cur = some i`) and the instance was started for this very record
(`x.rid = r.id`). With `Own` (an instance whose context is not cancelled is the `cancelOf` instance of the record
of its key): an instance that a probe shows alive is the current instance of the record in the map — the one
whose exit the bookkeeping records and, after an error, retries.
-/
namespace UtilModel.Keyed
open UtilModel

def RC (s : St) : Prop :=
  ∀ (k : Nat) (r : Rec) (i : Nat), s.key k = some r → r.cancelOf = some i →
    r.cur = some i ∧ ∀ (y : G) (x : Inst), s.gens[r.gen]? = some y → y.insts[i]? = some x → x.rid = r.id

structure KR (s : St) : Prop where
  k : KInv s
  rc : RC s

/-- same keys; every instance comes from one with the same record id at the same place -/
theorem rc_gens {s s' : St} (hk : ∀ k, s'.key k = s.key k)
    (hg : ∀ (g : Nat) (y' : G) (i : Nat) (x' : Inst), s'.gens[g]? = some y' → y'.insts[i]? = some x' →
      ∃ y x, s.gens[g]? = some y ∧ y.insts[i]? = some x ∧ x'.rid = x.rid) (h : RC s) : RC s' := by
  intro k r i hr hc
  rw [hk] at hr
  obtain ⟨h1, h2⟩ := h k r i hr hc
  refine ⟨h1, ?_⟩
  intro y' x' hy' hx'
  obtain ⟨y, x, hy, hx, hrid⟩ := hg _ y' i x' hy' hx'
  rw [hrid]; exact h2 y x hy hx

theorem rc_congr {s s' : St} (hk : s'.keys = s.keys) (hg : s'.gens = s.gens) (h : RC s) : RC s' :=
  rc_gens (fun k => by simp [St.key, hk]) (fun g y' i x' hy' hx' => ⟨y', x', by rw [← hg]; exact hy', hx', rfl⟩) h

theorem rc_modInst (s : St) (g i : Nat) (f : Inst → Inst) (hf : ∀ x, (f x).rid = x.rid) (h : RC s) :
    RC (modInst s g i f) := by
  refine rc_gens (s := s) (s' := modInst s g i f) (fun k => rfl) ?_ h
  intro g' y' i' x' hy' hx'
  obtain ⟨y, x, hy, hx, _, hx''⟩ := getInst_modInst s g i f g' y' i' x' hy' hx'
  refine ⟨y, x, hy, hx, ?_⟩
  rw [hx'']; split
  · exact hf x
  · rfl

theorem rc_cancelOpt (s : St) (g : Nat) (o : Option Nat) (h : RC s) : RC (cancelOpt s g o) := by
  cases o with
  | none => exact h
  | some i => exact rc_modInst s g i _ (fun _ => rfl) h

/-- a generation changes in `last` only -/
theorem rc_modG_insts (s : St) (g : Nat) (f : G → G) (hf : ∀ y, (f y).insts = y.insts) (h : RC s) : RC (modG s g f) := by
  refine rc_gens (s := s) (s' := modG s g f) (fun k => rfl) ?_ h
  intro g' y' i' x' hy' hx'
  rw [gens_modG] at hy'
  cases hy : s.gens[g']? with
  | none => simp [hy] at hy'
  | some y =>
    simp [hy] at hy'
    by_cases hgg : g = g'
    · simp [hgg] at hy'; subst hy'
      rw [hf] at hx'; exact ⟨y, x', rfl, hx', rfl⟩
    · simp [hgg] at hy'; subst hy'; exact ⟨y, x', rfl, hx', rfl⟩

theorem rc_setRec (s : St) (k : Nat) (r r' : Rec) (hk : s.key k = some r) (hid : r'.id = r.id) (hg : r'.gen = r.gen)
    (hc : r'.cancelOf = none ∨ (r'.cancelOf = r.cancelOf ∧ r'.cur = r.cur)) (h : RC s) :
    RC (setRec s k (some r')) := by
  intro k' r'' i hr hco
  by_cases hkk : k' = k
  · subst hkk
    simp at hr; subst hr
    rcases hc with hc | ⟨hc1, hc2⟩
    · rw [hc] at hco; cases hco
    · rw [hc1] at hco
      obtain ⟨h1, h2⟩ := h k' r i hk hco
      refine ⟨hc2.trans h1, ?_⟩
      intro y x hy hx
      rw [hg] at hy; rw [hid]; exact h2 y x hy hx
  · simp [hkk] at hr; exact h k' r'' i hr hco

theorem rc_delRec (s : St) (k : Nat) (h : RC s) : RC (setRec s k none) := by
  intro k' r i hr hco
  by_cases hkk : k' = k
  · subst hkk; simp at hr
  · simp [hkk] at hr; exact h k' r i hr hco

theorem kr_setRec (s : St) (k : Nat) (r r' : Rec) (h : KR s) (hk : s.key k = some r) (hid : r'.id = r.id)
    (hg : r'.gen = r.gen)
    (hcur : (r'.cur = none ∧ r'.exited = r.exited) ∨ (r'.cur = r.cur ∧ r'.exited = r.exited))
    (hc : r'.cancelOf = none ∨ (r'.cancelOf = r.cancelOf ∧ r'.cur = r.cur))
    (hfn : r'.hasFn = r.hasFn := by rfl) : KR (setRec s k (some r')) :=
  ⟨kinv_setRec s k r r' h.k hk hg hcur hfn, rc_setRec s k r r' hk hid hg hc h.rc⟩

theorem kr_cancelOpt (s : St) (g : Nat) (o : Option Nat) (h : KR s) : KR (cancelOpt s g o) :=
  ⟨kinv_cancelOpt s g o h.k, rc_cancelOpt s g o h.rc⟩

theorem kr_start (s : St) (k : Nat) (r : Rec) (force : Bool) (h : KR s) (hk : s.key k = some r) :
    KR (start s k r force) := by
  refine ⟨kinv_start s k r force h.k hk, ?_⟩
  unfold start
  split
  · exact h.rc
  · split
    · exact h.rc
    · have h1 := kr_cancelOpt s r.gen r.cancelOf h
      have hk1 : (cancelOpt s r.gen r.cancelOf).key k = some r := by simpa using hk
      simp only []
      generalize cancelOpt s r.gen r.cancelOf = s1 at h1 hk1
      cases hy : s1.gens[r.gen]? with
      | none => exact h1.rc
      | some y =>
        simp only []
        intro k' r' i hr hco
        by_cases hkk : k' = k
        · subst hkk
          simp at hr; subst hr
          simp only [Option.some.injEq] at hco
          subst hco
          refine ⟨rfl, ?_⟩
          intro y' x hy' hx
          simp only [gens_setRec, gens_modG, hy, Option.map_some, if_true, Option.some.injEq] at hy'
          subst hy'
          simp at hx
          rw [← hx]
        · simp [hkk] at hr
          obtain ⟨h2, h3⟩ := h1.rc k' r' i hr hco
          refine ⟨h2, ?_⟩
          intro y' x hy' hx
          have hne : r.gen ≠ r'.gen := fun e => hkk (gen_inj s1 h1.k k' k r' r hr hk1 e.symm)
          simp only [gens_setRec, gens_modG] at hy'
          cases hy2 : s1.gens[r'.gen]? with
          | none => simp [hy2] at hy'
          | some y2 =>
            simp [hy2, hne] at hy'; subst hy'
            exact h3 y2 x hy2 hx

theorem kr_startKey (s : St) (k : Nat) (force : Bool) (h : KR s) : KR (startKey s k force) := by
  unfold startKey
  split
  · rename_i hk; exact kr_start s k _ force h hk
  · exact h

theorem kr_createKey (s : St) (k : Nat) (h : KR s) (hn : s.key k = none) : KR (createKey s k) := by
  refine ⟨kinv_createKey s k h.k hn, ?_⟩
  have hgens : (createKey s k).gens = s.gens ++ [{ key := k }] := rfl
  intro k' r i hr hco
  rw [key_createKey] at hr
  by_cases hkk : k' = k
  · simp [hkk] at hr; subst hr; simp at hco
  · simp [hkk] at hr
    obtain ⟨h1, h2⟩ := h.rc k' r i hr hco
    refine ⟨h1, ?_⟩
    intro y x hy hx
    rw [hgens] at hy
    rcases getElem?_snoc_cases _ _ _ _ hy with ⟨_, hy0⟩ | ⟨_, hye⟩
    · exact h2 y x hy0 hx
    · subst hye; simp at hx

theorem kr_newRec (s : St) (k : Nat) (r : Rec) (h : KR s) (hk : s.key k = some r) : KR (newRec s k r.gen) := by
  refine ⟨kinv_newRec s k r h.k hk, ?_⟩
  intro k' r' i hr hco
  rw [key_newRec] at hr
  by_cases hkk : k' = k
  · simp [hkk] at hr; subst hr; simp at hco
  · simp [hkk] at hr
    exact h.rc k' r' i hr hco

theorem kr_removeNow (s : St) (k : Nat) (r : Rec) (h : KR s) : KR (removeNow s k r) :=
  ⟨kinv_removeNow s k r h.k, rc_delRec _ k (rc_cancelOpt s r.gen r.cancelOf h.rc)⟩

theorem kr_removeKey (s : St) (k : Nat) (h : KR s) : KR (removeKey s k).1 := by
  refine ⟨kinv_removeKey s k h.k, ?_⟩
  unfold removeKey
  cases hk : s.key k with
  | none => exact h.rc
  | some r =>
    simp only [remove]
    split
    · exact h.rc
    · split
      · exact (kr_removeNow s k r h).rc
      · exact rc_setRec s k r _ hk rfl rfl (Or.inr ⟨rfl, rfl⟩) h.rc

theorem kr_syncS (restart : Bool) (s : St) (k : Nat) (h : KR s) : KR (syncS restart s k) := by
  unfold syncS syncOne
  simp only []
  cases hk : s.key k with
  | none => exact kr_startKey _ k false (kr_createKey s k h hk)
  | some r =>
    simp only []
    have h1 : KR (setRec s k (some { r with deferRemove := none })) :=
      kr_setRec s k r _ h hk rfl rfl (Or.inr ⟨rfl, rfl⟩) (Or.inr ⟨rfl, rfl⟩)
    split
    · exact kr_startKey _ k false h1
    · exact h1

theorem kr_removeAbsent (ks : List Nat) (s : St) (k : Nat) (h : KR s) : KR (removeAbsent ks s k) := by
  unfold removeAbsent
  split
  · exact h
  · exact kr_removeKey s k h

theorem kr_setCtxOne (same restart : Bool) (s : St) (k : Nat) (h : KR s) : KR (setCtxOne same restart s k) := by
  unfold setCtxOne
  cases hk : s.key k with
  | none => exact h
  | some r =>
    simp only []
    split
    · exact h
    · have h1 : KR (setRec (cancelOpt s r.gen r.cancelOf) k (some { r with cur := none, cancelOf := none })) :=
        kr_setRec _ k r _ (kr_cancelOpt s r.gen r.cancelOf h) (by simpa using hk) rfl rfl (Or.inl ⟨rfl, rfl⟩) (Or.inl rfl)
      split
      · exact kr_startKey _ k false h1
      · exact h1

theorem kr_resetKey (s : St) (k : Nat) (h : KR s) : KR (resetKey s k).1 := by
  unfold resetKey
  cases hk : s.key k with
  | none => exact h
  | some r =>
    simp only []
    exact kr_startKey _ k false (kr_newRec _ k r (kr_cancelOpt s r.gen r.cancelOf h) (by simpa using hk))

theorem kr_restartKey (s : St) (k : Nat) (h : KR s) : KR (restartKey s k).1 := by
  unfold restartKey
  cases hk : s.key k with
  | none => exact h
  | some r =>
    cases hc : s.ctx with
    | none => exact h
    | some c =>
      simp only []
      have h1 : KR (setRec (cancelOpt s r.gen r.cancelOf) k (some { r with cancelOf := none })) :=
        kr_setRec _ k r _ (kr_cancelOpt s r.gen r.cancelOf h) (by simpa using hk) rfl rfl (Or.inr ⟨rfl, rfl⟩) (Or.inl rfl)
      exact kr_startKey _ k true h1

theorem kr_congr {s s' : St} (hk : s'.keys = s.keys) (hg : s'.gens = s.gens) (h : KR s) : KR s' :=
  ⟨kinv_congr hk hg h.k, rc_congr hk hg h.rc⟩

theorem kr_execOp (s : St) (op : Op) (h : KR s) : KR (execOp s op).1 := by
  cases op with
  | setKey k st => simp only [execOp]; rw [setKey_eq_syncS]; exact kr_syncS st s k h
  | removeKey k => exact kr_removeKey s k h
  | syncKeys ks restart =>
    simp only [execOp, syncKeys]
    rw [foldl_fst (syncOne restart) (syncS restart) (syncOne_fst restart)]
    exact foldl_inv _ (kr_removeAbsent ks) _ _ (foldl_inv _ (kr_syncS restart) _ _ h)
  | getKey k => simp only [execOp]; split <;> exact h
  | getKeys => exact h
  | getKeysWithData => exact h
  | resetRoutine k cs =>
    simp only [execOp]
    split
    · exact kr_resetKey s k h
    · exact h
  | restartRoutine k cs =>
    simp only [execOp]
    split
    · exact kr_restartKey s k h
    · exact h
  | resetAll cs =>
    simp only [execOp]
    rw [foldl_fst resetAllStep (fun s k => (resetKey s k).1) (fun _ _ => rfl)]
    exact foldl_inv _ kr_resetKey _ _ h
  | restartAll cs =>
    simp only [execOp]
    rw [foldl_fst restartAllStep (fun s k => (restartKey s k).1) (fun _ _ => rfl)]
    exact foldl_inv _ kr_restartKey _ _ h
  | setContext c restart =>
    simp only [execOp, setContext]
    split
    · exact h
    · exact foldl_inv _ (kr_setCtxOne _ restart) _ _ (kr_congr (s := s) (s' := { s with ctx := c }) rfl rfl h)
  | addKeyRef k =>
    simp only [execOp, addKeyRef]
    have := kr_syncS true s k h
    rw [← setKey_eq_syncS] at this
    exact kr_congr (s := (setKey s k true).1) rfl rfl this
  | release r =>
    simp only [execOp, release]
    split
    · exact h
    · split
      · exact h
      · split
        · rename_i x _ _ _
          exact kr_removeKey _ x.key (kr_congr (s := s) rfl rfl h)
        · exact kr_congr (s := s) rfl rfl h
  | rcRemoveKey k =>
    simp only [execOp, rcRemoveKey]
    exact kr_removeKey _ k (kr_congr (s := s) rfl rfl h)

theorem rc_modInst1 (s : St) (g i : Nat) (x' : Inst) (y : G) (x : Inst) (hy : s.gens[g]? = some y)
    (hx : y.insts[i]? = some x) (hr : x'.rid = x.rid) (h : RC s) : RC (modInst s g i fun _ => x') := by
  refine rc_gens (s := s) (s' := modInst s g i fun _ => x') (fun k => rfl) ?_ h
  intro g' y' i' x'' hy' hx'
  obtain ⟨y0, x0, hy0, hx0, _, hx''⟩ := getInst_modInst s g i _ g' y' i' x'' hy' hx'
  refine ⟨y0, x0, hy0, hx0, ?_⟩
  rw [hx'']; split
  · rename_i hc
    obtain ⟨rfl, rfl⟩ := hc
    rw [hy] at hy0; cases hy0
    rw [hx] at hx0; cases hx0
    exact hr
  · rfl

theorem rc_recordInst (s : St) (g i : Nat) (x : Inst) (k : Nat) (h : RC s) : RC (recordInst s g i x k) := by
  unfold recordInst
  simp only []
  have h0 := rc_modInst s g i (fun y => { y with st := .recorded }) (fun _ => rfl) h
  cases hk : s.key k with
  | none => exact h0
  | some r =>
    simp only []
    split
    · have h1 := rc_modG_insts _ g (fun y => { y with last := none }) (fun _ => rfl) h0
      apply rc_setRec _ k r _ (by simpa using hk) _ _ _ h1
      · cases retryCfg s with
        | none => rfl
        | some n =>
          simp only []
          split
          · rfl
          · split <;> rfl
      · cases retryCfg s with
        | none => rfl
        | some n =>
          simp only []
          split
          · rfl
          · split <;> rfl
      · right
        cases retryCfg s with
        | none => exact ⟨rfl, rfl⟩
        | some n =>
          simp only []
          split
          · exact ⟨rfl, rfl⟩
          · split <;> exact ⟨rfl, rfl⟩
    · exact h0

theorem rc_cancelAll (s : St) (h : RC s) : RC (cancelAll s) :=
  foldl_inv (I := RC) cancelGen (fun s g h =>
    foldl_inv (I := RC) (fun s i => cancelOpt s g (some i)) (fun s i h => rc_cancelOpt s g (some i) h) _ _ h) _ _ h

theorem kr_step (s s' : St) (e : Ev) (h : KR s) (hs : step s e = some s') : KR s' := by
  refine ⟨kinv_step s s' e h.k hs, ?_⟩
  cases e with
  | config c =>
    simp only [step] at hs
    split at hs
    · simp at hs; subst hs; exact rc_congr (s := s) rfl rfl h.rc
    · simp at hs
  | inv id op =>
    simp only [step] at hs
    split at hs
    · simp at hs
    · split at hs
      · simp at hs; subst hs; exact rc_congr (s := s) rfl rfl h.rc
      · simp at hs
  | exec id =>
    simp only [step] at hs
    split at hs
    · rename_i op hc
      simp at hs; subst hs
      exact rc_congr (s := (execOp (preOp s op) op).1) rfl rfl
        (kr_execOp (preOp s op) op (kr_congr (preOp_keys s op) (preOp_fields s op).1 h)).rc
    · simp at hs
  | ctor k d =>
    simp only [step] at hs
    split at hs
    · simp at hs; subst hs; exact rc_congr (s := s) rfl rfl h.rc
    · simp at hs
  | ret id res =>
    simp only [step] at hs
    split at hs
    · simp at hs; subst hs; exact rc_congr (s := s) rfl rfl h.rc
    · simp at hs
  | proceed g i =>
    simp only [step] at hs
    obtain ⟨y, x, x', hy, hx, hf, rfl⟩ := instStep_some _ _ _ _ _ hs
    refine rc_modInst1 s g i x' y x hy hx ?_ h.rc
    split at hf
    · cases hf; rfl
    · cases hf
  | bail g i =>
    simp only [step] at hs
    obtain ⟨y, x, x', hy, hx, hf, rfl⟩ := instStep_some _ _ _ _ _ hs
    refine rc_modInst1 s g i x' y x hy hx ?_ h.rc
    split at hf
    · cases hf; rfl
    · cases hf
  | cbin j g i k d =>
    simp only [step] at hs
    split at hs
    · split at hs
      · simp at hs
      · split at hs
        · simp at hs
        · split at hs
          · simp at hs; subst hs
            exact rc_congr (s := modInst s g i fun x => { x with st := .running }) rfl rfl
              (rc_modInst s g i _ (fun _ => rfl) h.rc)
          · simp at hs
    · simp at hs
  | cbout j o =>
    simp only [step] at hs
    split at hs
    · simp at hs
    · rename_i g i _
      obtain ⟨y, x, x', hy, hx, hf, rfl⟩ := instStep_some _ _ _ _ _ hs
      refine rc_modInst1 s g i x' y x hy hx ?_ h.rc
      split at hf
      · cases hf; rfl
      · cases hf
  | closeExit g i =>
    simp only [step] at hs
    obtain ⟨y, x, x', hy, hx, hf, rfl⟩ := instStep_some _ _ _ _ _ hs
    refine rc_modInst1 s g i x' y x hy hx ?_ h.rc
    split at hf
    · cases hf; rfl
    · cases hf
  | record g i =>
    simp only [step] at hs
    split at hs
    · simp at hs
    · split at hs
      · simp at hs
      · split at hs
        · simp at hs; subst hs; exact rc_recordInst s g i _ _ h.rc
        · simp at hs
  | timerRemove k =>
    simp only [step] at hs
    split at hs
    · split at hs
      · simp at hs; subst hs; exact (kr_removeNow s k _ h).rc
      · simp at hs
    · simp at hs
  | timerRetry k =>
    simp only [step] at hs
    split at hs
    · rename_i r hr
      split at hs
      · simp at hs; subst hs
        have h1 : KR (setRec s k (some { r with deferRetry := none })) :=
          kr_setRec s k r _ h hr rfl rfl (Or.inr ⟨rfl, rfl⟩) (Or.inr ⟨rfl, rfl⟩)
        split
        · exact (kr_startKey _ k true h1).rc
        · exact h1.rc
      · simp at hs
    · simp at hs
  | advance =>
    simp only [step] at hs
    split at hs
    · simp at hs; subst hs; exact rc_congr (s := s) rfl rfl h.rc
    · simp at hs
  | quiesce =>
    simp only [step] at hs
    split at hs
    · simp at hs; subst hs; exact h.rc
    · simp at hs
  | boff k b =>
    simp only [step] at hs
    split at hs
    · simp at hs; subst hs; exact h.rc
    · simp at hs
  | probe j c =>
    simp only [step] at hs
    split at hs
    · simp at hs
    · split at hs
      · split at hs
        · simp at hs; subst hs; exact h.rc
        · simp at hs
      · simp at hs
  | nilnext k =>
    simp only [step] at hs
    split at hs
    · simp at hs; subst hs; exact rc_congr (s := s) rfl rfl h.rc
    · simp at hs
  | cancelroot =>
    simp only [step] at hs
    split at hs
    · simp at hs; subst hs
      exact rc_cancelAll _ (rc_congr (s := s) (s' := { s with ctx := some 0 }) rfl rfl h.rc)
    · simp at hs

theorem kr_init : KR ({} : St) := ⟨kinv_init, fun k r i h => by simp [St.key, look] at h⟩

theorem kr_reachable (s : St) (h : model.Reachable s) : KR s :=
  model.invariant KR kr_init (fun s e s' hi hs => kr_step s s' e hi hs) s h

end UtilModel.Keyed
