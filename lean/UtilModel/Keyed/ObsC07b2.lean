import UtilModel.Keyed.ObsC07b
/-!
# keyed — `C07b_obs`: every observable trace of the model is accepted by `monC07b`
(one running routine function per key generation, across `ResetRoutine` and `RestartRoutine`)
-/
namespace UtilModel.Keyed
open UtilModel

/-- a flagged run is of the generation of the record of its key, and the key is known to be in the set -/
structure FlagInv (s : St) (m : M7b) : Prop where
  len : m.fl.length = s.runs.length
  ok : ∀ (j g i : Nat) (y : G), m.fl[j]? = some true → s.runs[j]? = some (g, i) → s.gens[g]? = some y →
    m.o.st y.key = .present ∧ GenOr s y.key g

structure Sim7b (s : St) (m : M7b) : Prop where
  a : Sim s m.a
  o : Sim6 s m.o
  f : FlagInv s m

theorem one_running_K (s : St) (hK : KInv s) (g i j : Nat) (y : G) (x x' : Inst) (hy : s.gens[g]? = some y)
    (hx : y.insts[i]? = some x) (hx' : y.insts[j]? = some x')
    (ha : x.st.active = true) (ha' : x'.st.active = true) : i = j := by
  apply Chain.one_running (proj y) (hK.chain g y hy) i j (projI x) (projI x')
  · simp [proj_get, hx]
  · simp [proj_get, hx']
  · cases hst : x.st <;> simp [hst, IS.active] at ha <;> simp [projI, projSt, hst]
  · cases hst : x'.st <;> simp [hst, IS.active] at ha' <;> simp [projI, projSt, hst]

/-- a flag that was set before the event is still justified after it -/
theorem flag_old (s s' : St) (e : Ev) (m : M7b) (hR : Sim7b s m) (hs : step s e = some s') (j g i : Nat) (y' : G)
    (hf : m.fl[j]? = some true) (hj : s'.runs[j]? = some (g, i)) (hy' : s'.gens[g]? = some y') :
    m.o.st y'.key = .present ∧ GenOr s' y'.key g := by
  have hlt : j < s.runs.length := by rw [← hR.f.len]; exact lt_of_get? hf
  have hj0 : s.runs[j]? = some (g, i) := by
    rcases runs_step s s' e hs with h | ⟨_, _, _, _, _, _, h⟩
    · rw [h] at hj; exact hj
    · rw [h, List.getElem?_append_left hlt] at hj; exact hj
  obtain ⟨y, x, hy, _⟩ := hR.a.view.run j g i hj0
  obtain ⟨y2, hy2, hk2, _⟩ := (grow_step s s' e hs).gens g y hy
  rw [hy'] at hy2
  cases hy2
  obtain ⟨hst, hG⟩ := hR.f.ok j g i y hf hj0 hy
  rw [hk2]
  exact ⟨hst, genOr_step s s' e m.o y.key g hR.o hst hG hs⟩

theorem flagInv_next (s s' : St) (e : Ev) (m : M7b) (a' : M7a) (o' : M6o) (flx : List Bool) (hR : Sim7b s m)
    (hs : step s e = some s') (ha : Sim s' a') (ho : Sim6 s' o') (hlen : flx.length = s'.runs.length)
    (hext : ∀ (j : Nat), flx[j]? = some true → m.fl[j]? = some true) :
    FlagInv s' { a := a', o := o', fl := flagsUpd a' o' flx } := by
  refine ⟨?_, ?_⟩
  · simp only [flagsUpd, List.length_zipWith, ha.view.len, hlen, Nat.min_self]
  · intro j g i y' hf hj hy'
    obtain ⟨r, f, hr, hfx, hc⟩ := zipWith_get _ _ _ j true hf
    obtain ⟨y2, x2, hy2, hx2, _, _, hm⟩ := ha.view.run j g i hj
    rw [hy'] at hy2; cases hy2
    rw [hr] at hm; cases hm
    have hc' : (f = true ∧ o'.st y'.key = .present) ∨ o'.cur y'.key x2.data = true := by
      have := hc.symm
      simpa using this
    rcases hc' with ⟨hf1, hst⟩ | hcur
    · subst hf1
      exact ⟨hst, (flag_old s s' e m hR hs j g i y' (hext j hfx) hj hy').2⟩
    · obtain ⟨r, hr, hrg⟩ := cur_gen s' o' y'.key x2.data g i y' x2 ha.kd.d ho hcur hy' hx2 rfl rfl
      have hst : o'.st y'.key = .present := by
        simp only [M6o.cur, Bool.and_eq_true, beq_iff_eq] at hcur
        exact hcur.1.2
      refine ⟨hst, ?_⟩
      intro r' hr'
      rw [hr] at hr'; cases hr'; exact hrg

theorem flag_silent (s s' : St) (e : Ev) (m : M7b) (hR : Sim7b s m) (hs : step s e = some s')
    (hob : model.obs e = none) : FlagInv s' m := by
  have hruns : s'.runs = s.runs := by
    rcases runs_step s s' e hs with h | ⟨_, _, _, _, _, he, _⟩
    · exact h
    · subst he; cases hob
  refine ⟨by rw [hruns]; exact hR.f.len, ?_⟩
  intro j g i y' hf hj hy'
  exact flag_old s s' e m hR hs j g i y' hf hj hy'

/-- an observable event other than `cbin` -/
theorem plain_facts (s s' : St) (e : Ev) (m : M7b) (ob : Obs) (hR : Sim7b s m) (hs : step s e = some s')
    (hext : m.ext ob = m.fl) (hne : ∀ j g i k d, e ≠ .cbin j g i k d) :
    (m.ext ob).length = s'.runs.length ∧ ∀ (j : Nat), (m.ext ob)[j]? = some true → m.fl[j]? = some true := by
  have hruns : s'.runs = s.runs := by
    rcases runs_step s s' e hs with h | ⟨j, g, i, k, d, he, _⟩
    · exact h
    · exact absurd he (hne j g i k d)
  rw [hext]
  exact ⟨by rw [hruns]; exact hR.f.len, fun _ h => h⟩

/-- the routine function is entered -/
theorem cbin_facts (s s' : St) (j0 g0 i0 k d : Nat) (m : M7b) (hR : Sim7b s m)
    (hs : step s (.cbin j0 g0 i0 k d) = some s') :
    m.bad (.cbin j0 k d) = false ∧ (m.ext (.cbin j0 k d)).length = s'.runs.length ∧
      ∀ (j : Nat), (m.ext (.cbin j0 k d))[j]? = some true → m.fl[j]? = some true := by
  simp only [step] at hs
  split at hs
  · rename_i hj0
    split at hs
    · simp at hs
    · rename_i y hy
      split at hs
      · simp at hs
      · rename_i x hx
        split at hs
        · rename_i hc
          obtain ⟨hent, hkey, hdata⟩ := hc
          simp at hs
          have hruns : s'.runs = s.runs ++ [(g0, i0)] := by subst hs; rfl
          refine ⟨?_, ?_, ?_⟩
          · -- no flagged run of the key is inside its function
            cases hb : m.bad (.cbin j0 k d) with
            | false => rfl
            | true =>
              exfalso
              simp only [M7b.bad, Bool.and_eq_true] at hb
              obtain ⟨hcur, hcl⟩ := hb
              obtain ⟨r, hr, hrg⟩ := cur_gen s m.o k d g0 i0 y x hR.a.kd.d hR.o hcur hy hx hkey hdata
              simp only [M7b.clash, List.any_eq_true, List.mem_range] at hcl
              obtain ⟨j, hjlt, hmt⟩ := hcl
              rw [hR.a.view.len] at hjlt
              obtain ⟨⟨g, i⟩, hgi⟩ : ∃ q, s.runs[j]? = some q := ⟨s.runs[j], by simp [hjlt]⟩
              obtain ⟨y1, x1, hy1, hx1, _, _, hm1⟩ := hR.a.view.run j g i hgi
              rw [hm1] at hmt
              cases hfl : m.fl[j]? with
              | none => simp [hfl] at hmt
              | some b =>
                cases b with
                | false => simp [hfl] at hmt
                | true =>
                  cases hrun : decide (x1.st = .running) with
                  | false => simp [hfl, hrun] at hmt
                  | true =>
                    simp [hfl, hrun] at hmt
                    have hst1 : x1.st = .running := by simpa using hrun
                    obtain ⟨_, hG⟩ := hR.f.ok j g i y1 hfl hgi hy1
                    rw [hmt] at hG
                    have hgg : g0 = g := by rw [← hrg]; exact hG r hr
                    subst hgg
                    rw [hy] at hy1; cases hy1
                    have := one_running_K s hR.a.kd.k g0 i i0 y x1 x hy hx1 hx (by simp [hst1, IS.active])
                      (by simp [hent, IS.active])
                    subst this
                    rw [hx] at hx1; cases hx1
                    rw [hent] at hst1; cases hst1
          · simp only [M7b.ext, List.length_append, List.length_singleton, hruns, hR.f.len]
          · intro j hf
            simp only [M7b.ext] at hf
            by_cases hlt : j < m.fl.length
            · rwa [List.getElem?_append_left hlt] at hf
            · exfalso
              have hjle : j < m.fl.length + 1 := by
                have := lt_of_get? hf
                simpa using this
              have hje : j = m.fl.length := by omega
              subst hje
              rw [List.getElem?_append_right (Nat.le_refl _)] at hf
              simp at hf
        · simp at hs
  · simp at hs

theorem sim7b_step (s : St) (e : Ev) (s' : St) (m : M7b) (hR : Sim7b s m) (hs : model.step s e = some s') :
    match model.obs e with
    | none => Sim7b s' m
    | some ob => ∃ m', monC07b.step m ob = some m' ∧ Sim7b s' m' := by
  have hst : step s e = some s' := hs
  have hG := g6_step s s' e hR.o.1 hst
  have ha := sim_step s e s' m.a hR.a hs
  have ho := phase_step s s' e m.o hR.o.1 hR.o.2 hst
  cases hob : model.obs e with
  | none =>
    simp only [hob] at ha ho ⊢
    exact ⟨ha, ⟨hG, ho⟩, flag_silent s s' e m hR hst hob⟩
  | some ob =>
    simp only [hob] at ha ho ⊢
    obtain ⟨a', ha1, ha2⟩ := ha
    obtain ⟨o', ho1, ho2⟩ := ho
    have hfacts : m.bad ob = false ∧ (m.ext ob).length = s'.runs.length ∧
        ∀ (j : Nat), (m.ext ob)[j]? = some true → m.fl[j]? = some true := by
      cases e with
      | cbin j0 g0 i0 k d => cases hob; exact cbin_facts s s' j0 g0 i0 k d m hR hst
      | proceed g i => cases hob
      | bail g i => cases hob
      | closeExit g i => cases hob
      | record g i => cases hob
      | timerRemove k => cases hob
      | timerRetry k => cases hob
      | exec id => cases hob
      | config c => cases hob; exact ⟨rfl, plain_facts s s' _ m _ hR hst rfl (by intros; simp)⟩
      | inv id op => cases hob; exact ⟨rfl, plain_facts s s' _ m _ hR hst rfl (by intros; simp)⟩
      | ctor k d => cases hob; exact ⟨rfl, plain_facts s s' _ m _ hR hst rfl (by intros; simp)⟩
      | ret id res => cases hob; exact ⟨rfl, plain_facts s s' _ m _ hR hst rfl (by intros; simp)⟩
      | cbout j o => cases hob; exact ⟨rfl, plain_facts s s' _ m _ hR hst rfl (by intros; simp)⟩
      | advance => cases hob; exact ⟨rfl, plain_facts s s' _ m _ hR hst rfl (by intros; simp)⟩
      | quiesce => cases hob; exact ⟨rfl, plain_facts s s' _ m _ hR hst rfl (by intros; simp)⟩
      | probe j c => cases hob; exact ⟨rfl, plain_facts s s' _ m _ hR hst rfl (by intros; simp)⟩
      | nilnext k => cases hob; exact ⟨rfl, plain_facts s s' _ m _ hR hst rfl (by intros; simp)⟩
      | cancelroot => cases hob; exact ⟨rfl, plain_facts s s' _ m _ hR hst rfl (by intros; simp)⟩
      | boff k b => cases hob; exact ⟨rfl, plain_facts s s' _ m _ hR hst rfl (by intros; simp)⟩
    obtain ⟨hbad, hlen, hnew⟩ := hfacts
    refine ⟨{ a := a', o := o', fl := flagsUpd a' o' (m.ext ob) }, ?_, ha2, ⟨hG, ho2⟩,
      flagInv_next s s' e m a' o' _ hR hst ha2 ⟨hG, ho2⟩ hlen hnew⟩
    simp [monC07b, hbad, ha1, ho1]

/-- **C07 (one running), observable form across `ResetRoutine`/`RestartRoutine`.** Every observable trace
of the model is accepted by `monC07b`: a routine function is never entered for the current record of a key
(no call in progress, the key known to be in the set, the run's constructor generation the current one)
while a run of that key that was itself seen to belong to the then-current record is still inside its
function and the key is known to have stayed in the set since — whatever `ResetRoutine` (new record, new
constructor generation), `RestartRoutine`, `SetKey`, `SetContext` and retries did in between. The same
monitor is evaluated on the histories of the real code. -/
theorem C07b_obs (es : List Ev) (s : St) (hr : model.run model.init es = some s) :
    monC07b.accepts (es.filterMap model.obs) = true :=
  monitor_accepts_of_simulation model monC07b Sim7b
    ⟨⟨⟨kinv_init, dinv_init⟩, ⟨rfl, fun j j' p h => by simp [model] at h, fun j g i h => by simp [model] at h⟩⟩,
      ⟨g6_init, .rest rfl rfl know_init⟩, ⟨rfl, fun j g i y h => by simp [monC07b] at h⟩⟩
    (fun s e s' ms hR hs => by
      have h := sim7b_step s e s' ms hR hs
      cases hob : model.obs e with
      | none => simp only [hob] at h ⊢; exact h
      | some o => simp only [hob] at h ⊢; exact h) es s hr

end UtilModel.Keyed
