import UtilModel.Keyed.Proofs
/-!
# keyed — refinement of the key-set specification (C06): every API call
-/
namespace UtilModel.Keyed

theorem st_abs (s : St) (k : Nat) : (abs s).st k = absKey (s.key k) := rfl
theorem nctor_abs (s : St) (k : Nat) : (abs s).nctor k = s.ctors k := rfl

/-- after `createKey` (+ a possible start) -/
theorem abs_created (s s' : St) (k : Nat) (hn : s.key k = none) (T : Touch k (createKey s k) s') :
    abs s' = request (abs s) k ∧ ((abs s').st k).data = s.ctors k + 1 := by
  have hv : absKey (s'.key k) = .present (s.ctors k + 1) := by
    rw [absKey_core, T.same, key_createKey]; simp [core, absCore]
  have h := abs_upd s s' ((frame_createKey s k).trans T.frame) k (.present (s.ctors k + 1)) (s.ctors k + 1)
    (fun k' hk => by rw [T.other k' hk, key_createKey]; simp [hk])
    hv
    (fun k' hk => by rw [T.ctors, ctors_createKey]; simp [hk])
    (by rw [T.ctors, ctors_createKey]; simp)
  have ha : (abs s).st k = .absent := by simp [st_abs, hn, absKey]
  refine ⟨?_, ?_⟩
  · rw [h]; simp [request, reqSt, reqCtor, ASt.inSet, ha, KSt.inSet, nctor_abs]
  · rw [st_abs, hv]; rfl

/-- after clearing a pending removal of an existing key (+ a possible start) -/
theorem abs_kept (s s' : St) (k : Nat) (r : Rec) (hr : s.key k = some r)
    (T : Touch k (setRec s k (some { r with deferRemove := none })) s') :
    abs s' = request (abs s) k ∧ ((abs s').st k).data = r.data := by
  have hv : absKey (s'.key k) = .present r.data := by
    rw [absKey_core, T.same]; simp [core, absCore]
  have h := abs_upd s s' ((frame_setRec s k _).trans T.frame) k (.present r.data) (s.ctors k)
    (fun k' hk => by rw [T.other k' hk]; simp [hk])
    hv
    (fun k' _ => by rw [T.ctors]; rfl)
    (by rw [T.ctors]; rfl)
  have hin : (abs s).inSet k = true := by rw [inSet_abs s, hr]; rfl
  have ha : reqSt (abs s) k = .present r.data := by
    simp only [reqSt, st_abs, hr, absKey]
    cases hdr : r.deferRemove with
    | none => rfl
    | some e => simp []
  refine ⟨?_, ?_⟩
  · rw [h]; simp [request, ha, reqCtor, hin, nctor_abs]
  · rw [st_abs, hv]; rfl

theorem setKey_refines (s : St) (k : Nat) (st : Bool) :
    abs (setKey s k st).1 = request (abs s) k ∧
    (setKey s k st).2.2 = (((abs (setKey s k st).1).st k).data, (abs s).inSet k) := by
  have hin := inSet_abs s k
  unfold setKey
  cases hr : s.key k with
  | none =>
    simp only []
    have := abs_created s _ k hr (touch_startKey (createKey s k) k false)
    refine ⟨this.1, ?_⟩
    rw [this.2, hin, hr]; rfl
  | some r =>
    simp only []
    have T : Touch k (setRec s k (some { r with deferRemove := none }))
        (if st then startKey (setRec s k (some { r with deferRemove := none })) k false
         else setRec s k (some { r with deferRemove := none })) := by
      split
      · exact touch_startKey _ k false
      · exact Touch.refl k _
    have := abs_kept s _ k r hr T
    refine ⟨this.1, ?_⟩
    rw [this.2, hin, hr]; rfl

theorem upd_self {α : Type} (f : Nat → α) (k : Nat) : upd f k (f k) = f := by
  funext k'; simp only [upd]; split
  · rename_i h; rw [h]
  · rfl

theorem dismiss_noop (a : ASt) (f : Bool) (k : Nat) (h : disSt a f k = a.st k) : dismiss a f k = a := by
  simp only [dismiss, h, upd_self]

theorem abs_remove (s : St) (k : Nat) (r : Rec) (hr : s.key k = some r) :
    abs (remove s k r) = dismiss (abs s) (failedOf s k) k := by
  unfold remove
  cases hdr : r.deferRemove with
  | some e =>
    simp only [Option.isSome_some, if_true]
    rw [dismiss_noop]
    simp [disSt, st_abs, hr, absKey, hdr]
  | none =>
    have hst : (abs s).st k = .present r.data := by simp [st_abs, hr, absKey, hdr]
    have hfail : failedOf s k = (r.exited && !r.success) := by simp [failedOf, hr]
    simp only [Option.isSome_none, Bool.false_eq_true, if_false]
    split
    · rename_i hc
      -- removed now
      have h := abs_upd s (removeNow s k r) ((frame_cancelOpt s r.gen r.cancelOf).trans (frame_setRec _ k none))
        k .absent (s.ctors k)
        (fun k' hk => by simp [removeNow, hk])
        (by simp [removeNow, absKey])
        (fun k' _ => by simp [removeNow])
        (by simp [removeNow])
      rw [h]
      have : disSt (abs s) (failedOf s k) k = .absent := by
        simp only [disSt, hst, hfail]
        have hdel : (abs s).delay = delayOn s := rfl
        rw [hdel]
        simp only [hc, if_true]
      simp only [dismiss, this]
      congr 1
      exact upd_self _ _
    · rename_i hc
      have h := abs_upd s (setRec s k (some { r with deferRemove := some s.epoch })) (frame_setRec s k _)
        k (.leaving r.data s.epoch) (s.ctors k)
        (fun k' hk => by simp [hk])
        (by simp [absKey])
        (fun k' _ => rfl)
        rfl
      rw [h]
      have : disSt (abs s) (failedOf s k) k = .leaving r.data s.epoch := by
        simp only [disSt, hst, hfail]
        have hdel : (abs s).delay = delayOn s := rfl
        rw [hdel]
        simp only [hc, if_false]
        rfl
      simp only [dismiss, this]
      congr 1
      exact upd_self _ _

theorem removeKey_refines (s : St) (k : Nat) :
    abs (removeKey s k).1 = dismiss (abs s) (failedOf s k) k ∧ (removeKey s k).2 = (abs s).inSet k := by
  have hin := inSet_abs s k
  unfold removeKey
  cases hr : s.key k with
  | none =>
    simp only []
    refine ⟨?_, by rw [hin, hr]; rfl⟩
    rw [dismiss_noop]
    simp [disSt, st_abs, hr, absKey]
  | some r =>
    simp only []
    exact ⟨abs_remove s k r hr, by rw [hin, hr]; rfl⟩

/-! ## ResetRoutine, RestartRoutine -/

theorem touch_resetKey_aux (s : St) (k : Nat) (r : Rec) (hr : s.key k = some r) (s' : St)
    (T : Touch k (newRec (cancelOpt s r.gen r.cancelOf) k r.gen) s') :
    Frame s s' ∧ (∀ k', k' ≠ k → s'.key k' = s.key k') ∧ core (s'.key k) = some (s.ctors k + 1, none) ∧
    (∀ k', s'.ctors k' = if k' = k then s.ctors k + 1 else s.ctors k') := by
  refine ⟨((frame_cancelOpt s r.gen r.cancelOf).trans (frame_newRec _ k r.gen)).trans T.frame, ?_, ?_, ?_⟩
  · intro k' hk; rw [T.other k' hk, key_newRec]; simp [hk]
  · rw [T.same, key_newRec]; simp [core]
  · intro k'; rw [T.ctors, ctors_newRec]; simp

theorem core_resetKey (s : St) (k k' : Nat) :
    core ((resetKey s k).1.key k') =
      if k' = k then (if (s.key k).isSome then some (s.ctors k + 1, none) else none) else core (s.key k') := by
  unfold resetKey
  cases hr : s.key k with
  | none => simp only []; split <;> simp_all [core]
  | some r =>
    simp only []
    have h := touch_resetKey_aux s k r hr _ (touch_startKey (newRec (cancelOpt s r.gen r.cancelOf) k r.gen) k false)
    by_cases hk : k' = k
    · subst hk; simp [h.2.2.1]
    · simp [hk, h.2.1 k' hk]

theorem ctors_resetKey (s : St) (k k' : Nat) :
    (resetKey s k).1.ctors k' =
      if k' = k then (if (s.key k).isSome then s.ctors k + 1 else s.ctors k) else s.ctors k' := by
  unfold resetKey
  cases hr : s.key k with
  | none => simp only []; split <;> simp_all
  | some r =>
    simp only []
    have h := touch_resetKey_aux s k r hr _ (touch_startKey (newRec (cancelOpt s r.gen r.cancelOf) k r.gen) k false)
    by_cases hk : k' = k
    · subst hk; simp [h.2.2.2]
    · simp [hk, h.2.2.2]

theorem frame_resetKey (s : St) (k : Nat) : Frame s (resetKey s k).1 := by
  unfold resetKey
  cases hr : s.key k with
  | none => exact Frame.refl s
  | some r =>
    exact (touch_resetKey_aux s k r hr _ (touch_startKey (newRec (cancelOpt s r.gen r.cancelOf) k r.gen) k false)).1

theorem abs_of_sigma (s s' : St) (hf : Frame s s') (m : Nat → Option (Nat × Option Nat)) (c : Nat → Nat)
    (hm : ∀ k, core (s'.key k) = m k) (hc : ∀ k, s'.ctors k = c k) :
    abs s' = { abs s with st := fun k => absCore (m k), nctor := c } := by
  have h1 : (fun k => absKey (s'.key k)) = fun k => absCore (m k) := by
    funext k; rw [absKey_core, hm]
  have h2 : s'.ctors = c := funext hc
  unfold abs delayOn
  rw [h1, h2, hf.cfg, hf.ctx, hf.epoch, hf.refs]

theorem resetKey_refines (s : St) (k : Nat) :
    abs (resetKey s k).1 = renew (abs s) k ∧ (resetKey s k).2.2 = (abs s).inSet k := by
  have hin := inSet_abs s k
  refine ⟨?_, ?_⟩
  · rw [abs_of_sigma s _ (frame_resetKey s k) _ _ (core_resetKey s k) (ctors_resetKey s k)]
    simp only [renew, renSt, renCtor, hin]
    congr 1
    · funext k'
      simp only [upd]
      by_cases hk : k' = k
      · subst hk
        cases hr : s.key k' <;> simp [absCore, nctor_abs]
      · simp [hk, st_abs, absKey_core]
  · rw [hin]; unfold resetKey; cases s.key k <;> rfl

theorem touch_restartKey (s : St) (k : Nat) : Touch k s (restartKey s k).1 := by
  unfold restartKey
  cases hr : s.key k with
  | none => exact Touch.refl k s
  | some r =>
    cases hc : s.ctx with
    | none => exact Touch.refl k s
    | some c =>
      simp only []
      refine (touch_cancelOpt k s r.gen r.cancelOf).trans (Touch.trans ?_ (touch_startKey _ k true))
      exact touch_setRec k _ r _ (by simpa using hr) rfl rfl

theorem restartKey_out (s : St) (k : Nat) :
    (restartKey s k).2 = ((s.key k).isSome, (s.key k).isSome && s.ctx.isSome) := by
  unfold restartKey
  cases s.key k <;> cases s.ctx <;> rfl

end UtilModel.Keyed
