import UtilModel.Keyed.C07Own
/-!
# keyed — the ownership invariant is preserved by the helpers of the model
-/
namespace UtilModel.Keyed
open UtilModel

/-- the three invariants together -/
structure Inv3 (s : St) : Prop where
  k : KInv s
  own : Own s
  ownc : OwnC s

theorem ownc_congr {s s' : St} (hg : s'.gens = s.gens) (hc : s'.ctx = s.ctx) (h : OwnC s) : OwnC s' := by
  intro g y i x hy hx hcx; rw [hg] at hy; rw [hc]; exact h g y i x hy hx hcx

theorem ownc_cancelOpt (s : St) (g : Nat) (o : Option Nat) (h : OwnC s) : OwnC (cancelOpt s g o) := by
  cases o with
  | none => exact h
  | some i =>
    intro g' y' i' x' hy hx hc
    obtain ⟨y, x, hy0, hx0, _, hx'⟩ := getInst_modInst s g i _ g' y' i' x' hy hx
    have hcx : x.cancelled = false := by
      rw [hx'] at hc; split at hc
      · simp at hc
      · exact hc
    exact h g' y i' x hy0 hx0 hcx

theorem ctx_cancelOpt (s : St) (g : Nat) (o : Option Nat) : (cancelOpt s g o).ctx = s.ctx := by cases o <;> rfl

/-- a record may be replaced by one with the same generation and `ctxCancel` -/
theorem own_setRec_keep (s : St) (k : Nat) (r r' : Rec) (h : Own s) (hk : s.key k = some r)
    (hg : r'.gen = r.gen) (hc : r'.cancelOf = r.cancelOf) : Own (setRec s k (some r')) := by
  intro g y i x hy hx hcx
  obtain ⟨r0, hr0, h1, h2⟩ := h g y i x hy hx hcx
  by_cases hkk : y.key = k
  · rw [hkk, hk] at hr0; simp at hr0; subst hr0
    exact ⟨r', by simp [hkk], hg.trans h1, hc.trans h2⟩
  · exact ⟨r0, by simp [hkk, hr0], h1, h2⟩

/-- after `r.ctxCancel()` the record of `k` may be replaced by anything or deleted -/
theorem own_replace (s : St) (k : Nat) (r : Rec) (v : Option Rec) (h : Own s) (hk : s.key k = some r) :
    Own (setRec (cancelOpt s r.gen r.cancelOf) k v) := by
  have h1 := own_cancelOpt s r.gen r.cancelOf h
  intro g y i x hy hx hcx
  by_cases hkk : y.key = k
  · have := own_cancelled s k r h hk g y i x hy hx hkk
    rw [this] at hcx; cases hcx
  · obtain ⟨r0, hr0, h2, h3⟩ := h1 g y i x hy hx hcx
    exact ⟨r0, by simp [hkk, hr0], h2, h3⟩

theorem inv3_setRec_keep (s : St) (k : Nat) (r r' : Rec) (h : Inv3 s) (hk : s.key k = some r)
    (hg : r'.gen = r.gen) (hco : r'.cancelOf = r.cancelOf)
    (hc : (r'.cur = none ∧ r'.exited = r.exited) ∨ (r'.cur = r.cur ∧ r'.exited = r.exited))
    (hfn : r'.hasFn = r.hasFn := by rfl) : Inv3 (setRec s k (some r')) :=
  ⟨kinv_setRec s k r r' h.k hk hg hc hfn, own_setRec_keep s k r r' h.own hk hg hco,
   ownc_congr (s := s) rfl rfl h.ownc⟩

/-- cancel, then store a record with the same generation that no longer holds a cancel function -/
theorem inv3_cancel_set (s : St) (k : Nat) (r r' : Rec) (h : Inv3 s) (hk : s.key k = some r)
    (hg : r'.gen = r.gen) (hc : (r'.cur = none ∧ r'.exited = r.exited) ∨ (r'.cur = r.cur ∧ r'.exited = r.exited))
    (hfn : r'.hasFn = r.hasFn := by rfl) :
    Inv3 (setRec (cancelOpt s r.gen r.cancelOf) k (some r')) :=
  ⟨kinv_setRec _ k r r' (kinv_cancelOpt s r.gen r.cancelOf h.k) (by simpa using hk) hg hc hfn,
   own_replace s k r _ h.own hk,
   ownc_congr (s := cancelOpt s r.gen r.cancelOf) rfl rfl (ownc_cancelOpt s r.gen r.cancelOf h.ownc)⟩

/-- cancelling keeps every instance cancelled -/
theorem allC_cancelOpt (s : St) (g : Nat) (o : Option Nat)
    (h : ∀ (g : Nat) (y : G) (i : Nat) (x : Inst), s.gens[g]? = some y → y.insts[i]? = some x → x.cancelled = true) :
    ∀ (g' : Nat) (y : G) (i : Nat) (x : Inst), (cancelOpt s g o).gens[g']? = some y → y.insts[i]? = some x →
      x.cancelled = true := by
  cases o with
  | none => exact h
  | some j =>
    intro g' y i x hy hx
    obtain ⟨y0, x0, hy0, hx0, _, hx'⟩ := getInst_modInst s g j _ g' y i x hy hx
    rw [hx']
    split
    · rfl
    · exact h g' y0 i x0 hy0 hx0

/-- under a cancelled root context that is still installed, a start creates an instance whose context is
cancelled: every instance stays cancelled -/
theorem allC_start (s : St) (k : Nat) (r : Rec) (force : Bool) (hd : s.ctx = some 0)
    (h : ∀ (g : Nat) (y : G) (i : Nat) (x : Inst), s.gens[g]? = some y → y.insts[i]? = some x → x.cancelled = true) :
    ∀ (g : Nat) (y : G) (i : Nat) (x : Inst), (start s k r force).gens[g]? = some y → y.insts[i]? = some x →
      x.cancelled = true := by
  unfold start
  split
  · exact h
  · split
    · exact h
    · have h1 := allC_cancelOpt s r.gen r.cancelOf h
      simp only []
      generalize cancelOpt s r.gen r.cancelOf = s1 at h1
      cases hy : s1.gens[r.gen]? with
      | none => exact h1
      | some y =>
        simp only []
        intro g y' i x hy' hx
        simp only [gens_setRec, gens_modG] at hy'
        by_cases hg : r.gen = g
        · subst hg
          simp [hy] at hy'; subst hy'
          simp only at hx
          rcases getElem?_snoc_cases _ _ _ _ hx with ⟨_, hx0⟩ | ⟨_, hxe⟩
          · exact h1 r.gen y i x hy hx0
          · rw [hxe]; simp [hd]
        · cases hy2 : s1.gens[g]? with
          | none => simp [hy2] at hy'
          | some y2 =>
            simp [hy2, hg] at hy'; subst hy'
            exact h1 g y2 i x hy2 hx

theorem inv3_start (s : St) (k : Nat) (r : Rec) (force : Bool) (h : Inv3 s) (hk : s.key k = some r)
    (hctx : s.ctx.isSome = true) : Inv3 (start s k r force) := by
  refine ⟨kinv_start s k r force h.k hk, ?_, ?_⟩
  · -- Own
    unfold start
    split
    · exact h.own
    · split
      · exact h.own
      · have h1 := own_cancelOpt s r.gen r.cancelOf h.own
        have hcan := own_cancelled s k r h.own hk
        have hk1 : (cancelOpt s r.gen r.cancelOf).key k = some r := by simpa using hk
        have hkinv := kinv_cancelOpt s r.gen r.cancelOf h.k
        simp only []
        generalize cancelOpt s r.gen r.cancelOf = s1 at h1 hcan hk1 hkinv
        cases hy : s1.gens[r.gen]? with
        | none => exact h1
        | some y =>
          simp only []
          obtain ⟨y0, hy0, hyk⟩ := hkinv.genKey k r hk1
          rw [hy] at hy0; simp at hy0; subst hy0
          intro g y' i x hy' hx hcx
          simp only [gens_setRec, gens_modG] at hy'
          by_cases hg : r.gen = g
          · subst hg
            simp [hy] at hy'; subst hy'
            simp only at hx
            rcases getElem?_snoc_cases _ _ _ _ hx with ⟨_, hx0⟩ | ⟨hi, hxe⟩
            · have := hcan r.gen y i x hy hx0 hyk
              rw [this] at hcx; cases hcx
            · exact ⟨{ r with deferRetry := none, err := false, success := false, exited := false,
                               cur := some y.insts.length, cancelOf := some y.insts.length },
                by simp [hyk], rfl, by simp [hi]⟩
          · cases hy2 : s1.gens[g]? with
            | none => simp [hy2] at hy'
            | some y2 =>
              simp [hy2, hg] at hy'; subst hy'
              obtain ⟨r0, hr0, h2, h3⟩ := h1 g y2 i x hy2 hx hcx
              have hne : y2.key ≠ k := by
                intro e
                rw [e, hk1] at hr0; simp at hr0; subst hr0
                exact hg h2
              exact ⟨r0, by simp [hne, hr0], h2, h3⟩
  · -- OwnC: the context is set and not cancelled, or the new instance is born cancelled like all others
    intro g y i x hy hx hcx
    have hc : (start s k r force).ctx = s.ctx := (touch_start s k r force hk).frame.ctx
    rw [hc]
    cases hl : isLive s.ctx with
    | true => rfl
    | false =>
      exfalso
      have hdead : s.ctx = some 0 := by
        cases hcc : s.ctx with
        | none => simp [hcc] at hctx
        | some n =>
          cases n with
          | zero => rfl
          | succ n => simp [hcc, isLive] at hl
      have hall : ∀ (g : Nat) (y : G) (i : Nat) (x : Inst), s.gens[g]? = some y → y.insts[i]? = some x →
          x.cancelled = true := by
        intro g y i x hy hx
        cases hcx' : x.cancelled with
        | true => rfl
        | false => have := h.ownc g y i x hy hx hcx'; rw [hl] at this; cases this
      have := allC_start s k r force hdead hall g y i x hy hx
      rw [this] at hcx; cases hcx

theorem inv3_startKey (s : St) (k : Nat) (force : Bool) (h : Inv3 s) : Inv3 (startKey s k force) := by
  unfold startKey
  split
  · rename_i c r hc hk; exact inv3_start s k r force h hk (by simp [hc])
  · exact h

theorem inv3_createKey (s : St) (k : Nat) (h : Inv3 s) (hn : s.key k = none) : Inv3 (createKey s k) := by
  have hgens : (createKey s k).gens = s.gens ++ [{ key := k }] := rfl
  have hget : ∀ (g : Nat) (y : G) (i : Nat) (x : Inst),
      (createKey s k).gens[g]? = some y → y.insts[i]? = some x → s.gens[g]? = some y := by
    intro g y i x hy hx
    rw [hgens] at hy
    rcases getElem?_snoc_cases _ _ _ _ hy with ⟨_, h1⟩ | ⟨_, h2⟩
    · exact h1
    · subst h2; simp at hx
  refine ⟨kinv_createKey s k h.k hn, ?_, ?_⟩
  · intro g y i x hy hx hcx
    have hy0 := hget g y i x hy hx
    obtain ⟨r0, hr0, h1, h2⟩ := h.own g y i x hy0 hx hcx
    have hne : y.key ≠ k := by intro e; rw [e, hn] at hr0; cases hr0
    exact ⟨r0, by rw [key_createKey]; simp [hne, hr0], h1, h2⟩
  · intro g y i x hy hx hcx
    exact h.ownc g y i x (hget g y i x hy hx) hx hcx

/-- `ResetRoutine`: cancel, new record in the same generation -/
theorem inv3_reset (s : St) (k : Nat) (r : Rec) (h : Inv3 s) (hk : s.key k = some r) :
    Inv3 (newRec (cancelOpt s r.gen r.cancelOf) k r.gen) := by
  refine ⟨kinv_newRec _ k r (kinv_cancelOpt s r.gen r.cancelOf h.k) (by simpa using hk), ?_, ?_⟩
  · let s1 := cancelOpt s r.gen r.cancelOf
    let r' : Rec := { id := s1.nrec, gen := r.gen, data := s1.ctors k + 1, hasFn := !s1.nilNext.contains k, born := s1.epoch }
    have := own_replace s k r (some r') h.own hk
    exact own_congr (s := setRec s1 k (some r')) rfl rfl this
  · exact ownc_congr (s := cancelOpt s r.gen r.cancelOf) rfl rfl (ownc_cancelOpt s r.gen r.cancelOf h.ownc)

theorem inv3_removeNow (s : St) (k : Nat) (r : Rec) (h : Inv3 s) (hk : s.key k = some r) :
    Inv3 (removeNow s k r) :=
  ⟨kinv_removeNow s k r h.k, own_replace s k r none h.own hk,
   ownc_congr (s := cancelOpt s r.gen r.cancelOf) rfl rfl (ownc_cancelOpt s r.gen r.cancelOf h.ownc)⟩

theorem inv3_congr {s s' : St} (hk : s'.keys = s.keys) (hg : s'.gens = s.gens) (hc : s'.ctx = s.ctx)
    (h : Inv3 s) : Inv3 s' :=
  ⟨kinv_congr hk hg h.k, own_congr hk hg h.own, ownc_congr hg hc h.ownc⟩

end UtilModel.Keyed
