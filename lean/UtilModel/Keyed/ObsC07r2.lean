import UtilModel.Keyed.ObsC07r
/-!
# keyed — `C07r_obs`: the stages of an owed retry survive every event that does not pay or cancel the debt
-/
namespace UtilModel.Keyed
open UtilModel

theorem fresh_not_closed (x : Inst) (h : Fresh x) (hc : x.st = .closed) : False := by
  rcases h.2 with h2 | ⟨h2, _⟩ <;> rw [hc] at h2 <;> cases h2

/-- the exit bookkeeping of some instance -/
theorem stage_recordInst (s : St) (g i : Nat) (y : G) (x : Inst) (k e0 : Nat) (hK : KInv s)
    (hy : s.gens[g]? = some y) (hx : y.insts[i]? = some x) (hst : x.st = .closed)
    (h : Stage s k e0) : Stage (recordInst s g i x y.key) k e0 := by
  have h0 : Stage (modInst s g i fun z => { z with st := .recorded }) k e0 := by
    refine stage_modInst s g i _ k e0 ?_ h
    intro y0 x0 hy0 hx0 hfr
    rw [hy] at hy0; cases hy0
    rw [hx] at hx0; cases hx0
    exact absurd hst (fun hc => fresh_not_closed x hfr hc)
  unfold recordInst
  simp only []
  cases hk' : s.key y.key with
  | none => exact h0
  | some r' =>
    simp only []
    split
    · rename_i hcond
      obtain ⟨hid, hgen, hcur⟩ := hcond
      by_cases hkk : y.key = k
      · -- the record of `k` itself: its current instance cannot be `closed`
        exfalso
        obtain ⟨r, y1, hr, _, hy1, h2⟩ := h
        rw [hkk] at hk'
        rw [hk'] at hr; cases hr
        rw [hgen, hy] at hy1; cases hy1
        rcases h2 with ⟨hex, _, _⟩ | ⟨i3, x3, hc3, _, _, hx3, hf1, hf2⟩
        · obtain ⟨x0, hx0, hrec⟩ := hK.curExited k r' i y hk' hcur hex (by rw [hgen]; exact hy)
          rw [hx] at hx0; cases hx0
          rw [hst] at hrec; cases hrec
        · rw [hcur] at hc3; cases hc3
          rw [hx] at hx3; cases hx3
          exact fresh_not_closed x ⟨hf1, hf2⟩ hst
      · -- another key: another generation
        refine stage_same (modInst s g i fun z => { z with st := .recorded }) _ k e0 (by simp [hkk, Ne.symm hkk]) ?_ h0
        intro r hr
        have hr0 : s.key k = some r := by simpa using hr
        have hne : g ≠ r.gen := by
          intro e
          exact hkk (gen_inj s hK y.key k r' r hk' hr0 (by rw [hgen, e]))
        simp only [gens_setRec, gens_modG]
        cases hyy : (modInst s g i fun z => { z with st := .recorded }).gens[r.gen]? <;> simp [hne]
    · exact h0

/-- the removal timer of another key -/
theorem stage_removeNow_other (s : St) (k' : Nat) (r' : Rec) (k e0 : Nat) (hK : KInv s) (hk' : s.key k' = some r')
    (hkk : k' ≠ k) (h : Stage s k e0) : Stage (removeNow s k' r') k e0 := by
  unfold removeNow
  have h1 : Stage (cancelOpt s r'.gen r'.cancelOf) k e0 :=
    stage_cancelOpt_other s r'.gen r'.cancelOf k e0
      (fun r hr e => hkk (gen_inj s hK k' k r' r hk' hr e)) h
  exact stage_same (cancelOpt s r'.gen r'.cancelOf) _ k e0 (by simp [Ne.symm hkk]) (fun _ _ => rfl) h1

theorem cancelOpt_gen (s : St) (g : Nat) (o : Option Nat) (y : G) (hy : s.gens[g]? = some y) :
    ∃ y2, (cancelOpt s g o).gens[g]? = some y2 ∧ y2.last = y.last := by
  cases o with
  | none => exact ⟨y, hy, rfl⟩
  | some j =>
    exact ⟨{ y with insts := y.insts.modify j fun x => { x with cancelled := true } },
      by simp [cancelOpt, modInst, gens_modG, hy], rfl⟩

/-- a start for another key works on another generation -/
theorem stage_start_other (s : St) (k' : Nat) (r' : Rec) (force : Bool) (k e0 : Nat) (hK : KInv s)
    (hk' : s.key k' = some r') (hkk : k' ≠ k) (h : Stage s k e0) : Stage (start s k' r' force) k e0 := by
  have hne : ∀ r, s.key k = some r → r'.gen ≠ r.gen := fun r hr e => hkk (gen_inj s hK k' k r' r hk' hr e)
  unfold start
  split
  · exact h
  · split
    · exact h
    · have h1 := stage_cancelOpt_other s r'.gen r'.cancelOf k e0 hne h
      have hkey : ∀ r, (cancelOpt s r'.gen r'.cancelOf).key k = some r → s.key k = some r := fun r hr => by simpa using hr
      simp only []
      generalize cancelOpt s r'.gen r'.cancelOf = s1 at h1 hkey
      cases hy : s1.gens[r'.gen]? with
      | none => exact h1
      | some y =>
        simp only []
        refine stage_same s1 _ k e0 (by simp [Ne.symm hkk]) ?_ h1
        intro r hr
        have := hne r (hkey r hr)
        simp only [gens_setRec, gens_modG]
        cases hyy : s1.gens[r.gen]? <;> simp [this]

theorem stage_startKey_other (s : St) (k' : Nat) (force : Bool) (k e0 : Nat) (hK : KInv s) (hkk : k' ≠ k)
    (h : Stage s k e0) : Stage (startKey s k' force) k e0 := by
  unfold startKey
  split
  · rename_i hk; exact stage_start_other s k' _ force k e0 hK hk hkk h
  · exact h

/-- the retry timer of `k` fires: the armed stage becomes the restarted stage -/
theorem stage_retry_self (s : St) (k e0 : Nat) (r : Rec) (hK : KInv s) (hlive : isLive s.ctx = true)
    (hk : s.key k = some r) (hdue : dueOpt s r.deferRetry = true) (h : Stage s k e0) :
    Stage (if r.exited then startKey (setRec s k (some { r with deferRetry := none })) k true
           else setRec s k (some { r with deferRetry := none })) k e0 := by
  obtain ⟨r0, y, hr0, hdr, hy, h2⟩ := h
  rw [hk] at hr0; cases hr0
  rcases h2 with ⟨hex, _, hlast⟩ | ⟨_, _, _, hd, _⟩
  · rw [if_pos hex]
    have hfn : r.hasFn = true := hK.exFn k r hk (Or.inr hex)
    obtain ⟨c, hc⟩ : ∃ c, s.ctx = some (c + 1) := by
      cases hcc : s.ctx with
      | none => simp [hcc, isLive] at hlive
      | some n => cases n with
        | zero => simp [hcc, isLive] at hlive
        | succ n => exact ⟨n, rfl⟩
    have hc1 : (setRec s k (some { r with deferRetry := none })).ctx = some (c + 1) := hc
    have hk1 : (setRec s k (some { r with deferRetry := none })).key k = some { r with deferRetry := none } := by simp
    have hy1 : (setRec s k (some { r with deferRetry := none })).gens[r.gen]? = some y := hy
    generalize setRec s k (some { r with deferRetry := none }) = s1 at hc1 hk1 hy1
    obtain ⟨y2, hy2, hl2⟩ := cancelOpt_gen s1 r.gen r.cancelOf y hy1
    have hl2' : y2.last = none := hl2.trans hlast
    have hst : startKey s1 k true =
        setRec (modG (cancelOpt s1 r.gen r.cancelOf) r.gen fun x =>
          { x with insts := x.insts ++ [{ rid := r.id, data := r.data, waitOn := x.last, cancelled := s1.ctx == some 0 }],
                   last := some y2.insts.length }) k
          (some { r with deferRetry := none, err := false, success := false, exited := false,
                         cur := some y2.insts.length, cancelOf := some y2.insts.length }) := by
      simp only [startKey, hc1, hk1, start]
      simp [hfn, hy2]
    rw [hst]
    refine ⟨{ r with deferRetry := none, err := false, success := false, exited := false,
                     cur := some y2.insts.length, cancelOf := some y2.insts.length },
      { y2 with insts := y2.insts ++ [{ rid := r.id, data := r.data, waitOn := y2.last, cancelled := s1.ctx == some 0 }],
                last := some y2.insts.length }, by simp, hdr, by simp [gens_modG, hy2], ?_⟩
    right
    refine ⟨y2.insts.length, { rid := r.id, data := r.data, waitOn := y2.last, cancelled := s1.ctx == some 0 },
      rfl, rfl, rfl, by simp, by simp [hc1], Or.inr ⟨rfl, hl2'⟩⟩
  · rw [hd] at hdue; simp [dueOpt] at hdue

end UtilModel.Keyed
